//! Executor of the /verif line protocol against the real tulisp (path dependency on /repo).
//!
//! One request per input line, exactly one answer line per request.  See DESIGN.md 2.3.
//! The main loop runs on a thread whose stack size is HARNESS_STACK_KIB (default 1 GiB).

use std::cell::RefCell;
use std::io::{BufRead, Write};
use std::panic::{catch_unwind, AssertUnwindSafe};
use std::rc::Rc;

use tulisp::verif_hooks::{verif_body, verif_kind, verif_parse, verif_unwrap};
use tulisp::{Error, ErrorKind, TulispContext, TulispObject};

mod api;

pub fn unescape(s: &str) -> String {
    let mut out = String::new();
    let mut it = s.chars();
    while let Some(c) = it.next() {
        if c != '\\' {
            out.push(c);
            continue;
        }
        match it.next() {
            Some('n') => out.push('\n'),
            Some('r') => out.push('\r'),
            Some('t') => out.push('\t'),
            Some('\\') => out.push('\\'),
            Some('u') => {
                // \u{HEX}
                let mut hex = String::new();
                let _ = it.next(); // {
                for h in it.by_ref() {
                    if h == '}' {
                        break;
                    }
                    hex.push(h);
                }
                if let Some(ch) = u32::from_str_radix(&hex, 16).ok().and_then(char::from_u32) {
                    out.push(ch);
                }
            }
            Some(o) => {
                out.push('\\');
                out.push(o);
            }
            None => out.push('\\'),
        }
    }
    out
}

pub fn escape(s: &str) -> String {
    let mut out = String::new();
    for c in s.chars() {
        match c {
            '\n' => out.push_str("\\n"),
            '\r' => out.push_str("\\r"),
            '\t' => out.push_str("\\t"),
            '\\' => out.push_str("\\\\"),
            c if (c as u32) < 0x20 || c as u32 == 0x7f => {
                out.push_str(&format!("\\u{{{:x}}}", c as u32))
            }
            c => out.push(c),
        }
    }
    out
}

/// Canonical rendering of a value through the public object API (never through Display
/// for data values).  Iterative along the spine so long lists do not need host stack.
pub fn canon(obj: &TulispObject, out: &mut String, depth: usize) {
    if depth > 400 {
        out.push_str("#<deep>");
        return;
    }
    if obj.consp() {
        out.push('(');
        let mut cur = obj.clone();
        let mut first = true;
        loop {
            if !first {
                out.push(' ');
            }
            first = false;
            let car = cur.car().unwrap();
            canon(&car, out, depth + 1);
            let cdr = cur.cdr().unwrap();
            if cdr.null() {
                break;
            }
            if !cdr.consp() {
                out.push_str(" . ");
                canon(&cdr, out, depth + 1);
                break;
            }
            cur = cdr;
        }
        out.push(')');
        return;
    }
    if obj.null() {
        out.push_str("nil");
    } else if obj.integerp() {
        out.push_str(&obj.as_int().unwrap().to_string());
    } else if obj.floatp() {
        let f = obj.as_float().unwrap();
        if f.is_nan() {
            out.push_str("f:nan");
        } else {
            out.push_str(&format!("f:{:016x}", f.to_bits()));
        }
    } else if obj.stringp() {
        out.push_str("s:\"");
        for c in escape(&obj.as_string().unwrap()).chars() {
            if c == '"' {
                out.push_str("\\q");
            } else if c == ' ' {
                out.push_str("\\_");
            } else {
                out.push(c);
            }
        }
        out.push('"');
    } else if obj.symbolp() {
        // y: a symbol that is (eq to) the interned symbol of its name; u: an uninterned one
        let interned = INTERNED_CHECK.with(|f| f.borrow().as_ref().map(|g| g(obj)).unwrap_or(true));
        out.push_str(if interned { "y:" } else { "u:" });
        out.push_str(&escape(&obj.as_symbol().unwrap()).replace(' ', "\\_"));
    } else {
        match verif_kind(obj) {
            "t" => out.push('t'),
            k @ ("quote" | "sharpquote" | "backquote" | "unquote" | "splice") => {
                out.push_str(match k {
                    "quote" | "sharpquote" => "'",
                    "backquote" => "`",
                    "unquote" => ",",
                    _ => ",@",
                });
                canon(&verif_unwrap(obj).unwrap(), out, depth + 1);
            }
            k => {
                out.push_str("#<");
                out.push_str(k);
                out.push('>');
            }
        }
    }
}

thread_local! {
    /// set while a session's values are rendered: decides whether a symbol object is the interned one
    pub static INTERNED_CHECK: RefCell<Option<Box<dyn Fn(&TulispObject) -> bool>>> = RefCell::new(None);
}

/// Render with knowledge of the context's obarray (interned vs uninterned symbols).
pub fn canon_in(ctx: &mut TulispContext, obj: &TulispObject) -> String {
    // collect the names first (intern needs &mut), then compare identities while rendering
    let mut names = vec![];
    collect_symbols(obj, &mut names, 0);
    let table: Vec<(String, TulispObject)> = names.into_iter().map(|n| { let s = ctx.intern(&n); (n, s) }).collect();
    INTERNED_CHECK.with(|f| {
        *f.borrow_mut() = Some(Box::new(move |o: &TulispObject| {
            let name = o.as_symbol().unwrap_or_default();
            table.iter().any(|(n, s)| *n == name && s.eq(o))
        }))
    });
    let r = canon_string(obj);
    INTERNED_CHECK.with(|f| *f.borrow_mut() = None);
    r
}

fn collect_symbols(obj: &TulispObject, out: &mut Vec<String>, depth: usize) {
    if depth > 400 { return; }
    if obj.consp() {
        let mut cur = obj.clone();
        loop {
            if let Ok(car) = cur.car() { collect_symbols(&car, out, depth + 1); }
            match cur.cdr() {
                Ok(cdr) if cdr.consp() => cur = cdr,
                Ok(cdr) => { collect_symbols(&cdr, out, depth + 1); break; }
                Err(_) => break,
            }
        }
    } else if obj.symbolp() {
        if let Ok(n) = obj.as_symbol() { if !out.contains(&n) { out.push(n); } }
    } else if let Some(inner) = verif_unwrap(obj) {
        collect_symbols(&inner, out, depth + 1);
    }
}

pub fn canon_string(obj: &TulispObject) -> String {
    let mut s = String::new();
    canon(obj, &mut s, 0);
    s
}

fn kind_str(k: ErrorKind) -> &'static str {
    match k {
        ErrorKind::NotImplemented => "NotImplemented",
        ErrorKind::ParsingError => "ParsingError",
        ErrorKind::TypeMismatch => "TypeMismatch",
        ErrorKind::Undefined => "Undefined",
        ErrorKind::Uninitialized => "Uninitialized",
        ErrorKind::SyntaxError => "SyntaxError",
        ErrorKind::MissingArgument => "MissingArgument",
        ErrorKind::OutOfRange => "OutOfRange",
    }
}

#[derive(Default)]
pub struct Ticks {
    pub log: Vec<i64>,
    pub count: u64,
    pub fail_at: u64,
    pub probe_min: usize,
    pub probe_max: usize,
    pub probe_n: u64,
    pub probe_skip: u64,
}

pub struct Session {
    pub ctx: TulispContext,
    pub ticks: Rc<RefCell<Ticks>>,
    pub handles: Vec<TulispObject>,
    pub scratch: String,
    pub nfiles: usize,
}

impl Session {
    fn new(scratch: &str) -> Session {
        let mut ctx = TulispContext::new();
        let ticks = Rc::new(RefCell::new(Ticks::default()));
        {
            let tk = ticks.clone();
            // (tick N): logs N, fails if this is the FAILAT-th tick, returns N.
            ctx.add_special_form("tick", move |ctx, args| {
                let v = ctx.eval(&args.car()?)?;
                let mut t = tk.borrow_mut();
                t.count += 1;
                if let Ok(n) = v.as_int() {
                    t.log.push(n);
                } else {
                    t.log.push(-1);
                }
                if t.fail_at != 0 && t.count == t.fail_at {
                    return Err(Error::new(ErrorKind::Undefined, "tick failure".to_string()));
                }
                Ok(v)
            });
            let tk = ticks.clone();
            // (probe): records the address of a local (host stack position), returns nil.
            ctx.add_special_form("probe", move |_ctx, _args| {
                let local = 0u8;
                let addr = &local as *const u8 as usize;
                let mut t = tk.borrow_mut();
                t.probe_n += 1;
                if t.probe_n > t.probe_skip {
                    if t.probe_min == 0 || addr < t.probe_min {
                        t.probe_min = addr;
                    }
                    if addr > t.probe_max {
                        t.probe_max = addr;
                    }
                }
                Ok(TulispObject::nil())
            });
        }
        api::register_host_fns(&mut ctx);
        Session {
            ctx,
            ticks,
            handles: vec![],
            scratch: scratch.to_string(),
            nfiles: 0,
        }
    }
}

fn fmt_result(ctx: &mut TulispContext, r: Result<TulispObject, Error>, how: &str) -> String {
    match r {
        Ok(v) => match how {
            "print" => format!("OK {}", escape(&v.to_string())),
            "princ" => format!("OK {}", escape(&v.fmt_string())),
            _ => format!("OK {}", canon_in(ctx, &v)),
        },
        Err(e) => match how {
            "errfmt" => format!("ERR {}", escape(&e.format(ctx))),
            _ => format!("ERR {}", kind_str(e.kind())),
        },
    }
}

/// Binding depth and top value of a symbol, measured through the public API only.
fn dump_symbol(ctx: &mut TulispContext, name: &str) -> String {
    let sym = ctx.intern(name);
    let mut saved = vec![];
    while sym.boundp() {
        match sym.get() {
            Ok(v) => saved.push(v),
            Err(_) => break,
        }
        if sym.unset().is_err() {
            break;
        }
        if saved.len() > 100000 {
            break;
        }
    }
    let depth = saved.len();
    let top = saved.first().map(|v| canon_in(ctx, v)).unwrap_or_else(|| "-".to_string());
    for v in saved.into_iter().rev() {
        let _ = sym.set_scope(v);
    }
    format!("{}={}:{}", name, depth, top)
}

fn handle_line(sess: &mut Option<Session>, scratch: &str, line: &str) -> String {
    let (cmd, rest) = match line.find(' ') {
        Some(i) => (&line[..i], &line[i + 1..]),
        None => (line, ""),
    };
    if cmd == "NEW" {
        *sess = Some(Session::new(scratch));
        return "OK".to_string();
    }
    if cmd == "#" || cmd.is_empty() {
        return "OK".to_string();
    }
    let s = match sess.as_mut() {
        Some(s) => s,
        None => {
            *sess = Some(Session::new(scratch));
            sess.as_mut().unwrap()
        }
    };
    match cmd {
        "EVAL" | "EVALBIG" => {
            let text = unescape(rest);
            let r = s.ctx.eval_string(&text);
            fmt_result(&mut s.ctx, r, "canon")
        }
        "PRINT" => {
            let text = unescape(rest);
            let r = s.ctx.eval_string(&text);
            fmt_result(&mut s.ctx, r, "print")
        }
        "PRINC" => {
            let text = unescape(rest);
            let r = s.ctx.eval_string(&text);
            fmt_result(&mut s.ctx, r, "princ")
        }
        "ERRFMT" => {
            let text = unescape(rest);
            let r = s.ctx.eval_string(&text);
            fmt_result(&mut s.ctx, r, "errfmt")
        }
        "READ" => {
            let text = unescape(rest);
            let r = verif_parse(&mut s.ctx, &text);
            fmt_result(&mut s.ctx, r, "canon")
        }
        "BODY" => {
            // canonical body of the function bound to a symbol
            let sym = s.ctx.intern(rest.trim());
            match sym.get().ok().and_then(|f| verif_body(&f)) {
                Some(b) => format!("OK {}", canon_in(&mut s.ctx, &b)),
                None => "ERR nobody".to_string(),
            }
        }
        "LOADFILE" | "ERRFMTFILE" => {
            // LOADFILE <name> <escaped text>: write the file, then (load "<path>")
            let (name, text) = match rest.find(' ') {
                Some(i) => (&rest[..i], unescape(&rest[i + 1..])),
                None => (rest, String::new()),
            };
            let path = format!("{}/{}", s.scratch, name);
            if let Some(parent) = std::path::Path::new(&path).parent() {
                let _ = std::fs::create_dir_all(parent);
            }
            let _ = std::fs::write(&path, text);
            s.nfiles += 1;
            let r = s.ctx.eval_file(&path);
            fmt_result(&mut s.ctx, r, if cmd == "LOADFILE" { "canon" } else { "errfmt" })
        }
        "WRITEFILE" => {
            let (name, text) = match rest.find(' ') {
                Some(i) => (&rest[..i], unescape(&rest[i + 1..])),
                None => (rest, String::new()),
            };
            let path = format!("{}/{}", s.scratch, name);
            let _ = std::fs::write(&path, text);
            "OK".to_string()
        }
        "FAILAT" => {
            let k: u64 = rest.trim().parse().unwrap_or(0);
            let mut t = s.ticks.borrow_mut();
            t.count = 0;
            t.fail_at = k;
            "OK".to_string()
        }
        "TICKS" => {
            let mut t = s.ticks.borrow_mut();
            let out = t
                .log
                .iter()
                .map(|x| x.to_string())
                .collect::<Vec<_>>()
                .join(",");
            t.log.clear();
            format!("TICKS {}", out)
        }
        "NTICKS" => {
            let t = s.ticks.borrow();
            format!("NTICKS {}", t.count)
        }
        "PROBE" => {
            // PROBE reset <skip> | PROBE get  -> growth of the host stack between probe calls
            let mut t = s.ticks.borrow_mut();
            if rest.starts_with("reset") {
                t.probe_min = 0;
                t.probe_max = 0;
                t.probe_n = 0;
                t.probe_skip = rest[5..].trim().parse().unwrap_or(0);
                "OK".to_string()
            } else {
                format!(
                    "PROBE n={} growth={}",
                    t.probe_n,
                    t.probe_max.saturating_sub(t.probe_min)
                )
            }
        }
        "DUMP" => {
            let parts: Vec<String> = rest
                .split_whitespace()
                .map(|n| dump_symbol(&mut s.ctx, n))
                .collect();
            format!("STATE {}", parts.join("|"))
        }
        "CTXCALL" => {
            // CTXCALL <funcall|map|filter|reduce> <text>: the text evaluates to a list (FUNC ARG2 [ARG3]) whose values are
            // handed to TulispContext::funcall / map / filter / reduce
            let (op, text) = match rest.find(' ') {
                Some(i) => (&rest[..i], unescape(&rest[i + 1..])),
                None => (rest, String::new()),
            };
            let v = match s.ctx.eval_string(&text) {
                Ok(v) => v,
                Err(e) => return fmt_result(&mut s.ctx, Err(e), "canon"),
            };
            let parts: Vec<TulispObject> = v.base_iter().collect();
            let r = match (op, parts.len()) {
                ("funcall", 2) => s.ctx.funcall(&parts[0], &parts[1]),
                ("map", 2) => s.ctx.map(&parts[0], &parts[1]),
                ("filter", 2) => s.ctx.filter(&parts[0], &parts[1]),
                ("reduce", 3) => s.ctx.reduce(&parts[0], &parts[1], &parts[2]),
                _ => Err(Error::new(ErrorKind::TypeMismatch, "bad CTXCALL".to_string())),
            };
            fmt_result(&mut s.ctx, r, "canon")
        }
        "PUSHVAR" => {
            // PUSHVAR <var> <path|-> <int>: push an integer, through the Rust API (TulispObject::push, which extends a list in
            // place), onto the list found at <path> (a = car, d = cdr) inside the value of the variable
            let p: Vec<&str> = rest.split_whitespace().collect();
            if p.len() != 3 {
                return "BADCMD".to_string();
            }
            let mut cur = match s.ctx.intern(p[0]).get() {
                Ok(v) => v,
                Err(_) => return "ERR".to_string(),
            };
            for ch in p[1].chars() {
                let next = match ch {
                    'a' => cur.car(),
                    'd' => cur.cdr(),
                    _ => continue,
                };
                cur = match next {
                    Ok(v) => v,
                    Err(_) => return "ERR".to_string(),
                };
            }
            let n: i64 = p[2].parse().unwrap_or(0);
            match cur.push(TulispObject::from(n)) {
                Ok(_) => "OK".to_string(),
                Err(_) => "ERR".to_string(),
            }
        }
        "INVENTORY" => {
            // every interned symbol that is bound, with its binding depth and (canonical) value
            let names: Vec<String> = s
                .ctx
                .verif_obarray()
                .into_iter()
                .filter(|(_, sym)| sym.boundp())
                .map(|(n, _)| n)
                .collect();
            let parts: Vec<String> = names.iter().map(|n| dump_symbol(&mut s.ctx, n)).collect();
            if rest.trim() == "diff" {
                // only what differs from a fresh context: new or changed entries, and `-name` for vanished ones
                let mut fresh = Session::new(&s.scratch);
                let fnames: Vec<String> = fresh
                    .ctx
                    .verif_obarray()
                    .into_iter()
                    .filter(|(_, sym)| sym.boundp())
                    .map(|(n, _)| n)
                    .collect();
                let fparts: std::collections::HashSet<String> =
                    fnames.iter().map(|n| dump_symbol(&mut fresh.ctx, n)).collect();
                let mut out: Vec<String> = parts.into_iter().filter(|p| !fparts.contains(p)).collect();
                let have: std::collections::HashSet<&String> = names.iter().collect();
                for n in fnames.iter() {
                    if !have.contains(n) {
                        out.push(format!("-{}", n));
                    }
                }
                return format!("INV {}", out.join("|"));
            }
            format!("INV {}", parts.join("|"))
        }
        "API" => api::handle(s, rest),
        _ => "BADCMD".to_string(),
    }
}

fn main_loop() {
    let scratch = std::env::var("HARNESS_SCRATCH").unwrap_or_else(|_| "/verif/run/files".to_string());
    let _ = std::fs::create_dir_all(&scratch);
    let stdin = std::io::stdin();
    // Answers go to the file named by HARNESS_OUT when set (print / princ write to stdout).
    let sink: Box<dyn Write> = match std::env::var("HARNESS_OUT") {
        Ok(p) => Box::new(std::fs::File::create(p).expect("HARNESS_OUT")),
        Err(_) => Box::new(std::io::stdout()),
    };
    let mut out = std::io::BufWriter::new(sink);
    let mut sess: Option<Session> = None;
    // other live sessions (CTX n parks the current one and makes session n current)
    let mut parked: std::collections::HashMap<u32, Option<Session>> = std::collections::HashMap::new();
    let mut current: u32 = 0;
    let flush_each = std::env::var("HARNESS_FLUSH").is_ok();
    for line in stdin.lock().lines() {
        let line = match line {
            Ok(l) => l,
            Err(_) => break,
        };
        let line = line.trim_end_matches(['\n', '\r']);
        if let Some(n) = line.strip_prefix("CTX ") {
            let n: u32 = n.trim().parse().unwrap_or(0);
            if n != current {
                parked.insert(current, sess.take());
                sess = parked.remove(&n).unwrap_or(None);
                current = n;
            }
            let _ = writeln!(out, "OK");
            continue;
        }
        let res = catch_unwind(AssertUnwindSafe(|| handle_line(&mut sess, &scratch, line)));
        let ans = match res {
            Ok(a) => a,
            Err(p) => {
                let msg = if let Some(s) = p.downcast_ref::<String>() {
                    s.clone()
                } else if let Some(s) = p.downcast_ref::<&str>() {
                    s.to_string()
                } else {
                    "?".to_string()
                };
                // the context may be in an arbitrary state after a panic: drop it
                std::mem::forget(sess.take());
                format!("PANIC {}", escape(&msg))
            }
        };
        let _ = writeln!(out, "{}", ans);
        if flush_each {
            let _ = out.flush();
        }
    }
    let _ = out.flush();
}

fn main() {
    std::panic::set_hook(Box::new(|_| {}));
    let kib: usize = std::env::var("HARNESS_STACK_KIB")
        .ok()
        .and_then(|s| s.parse().ok())
        .unwrap_or(1024 * 1024);
    let child = std::thread::Builder::new()
        .stack_size(kib * 1024)
        .spawn(main_loop)
        .unwrap();
    let _ = child.join();
}
