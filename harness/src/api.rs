//! Host functions registered in every session, and the object-level API operations (C20).

use crate::Session;
use tulisp::TulispContext;

pub fn register_host_fns(_ctx: &mut TulispContext) {}

pub fn handle(_s: &mut Session, _rest: &str) -> String {
    "BADCMD".to_string()
}
