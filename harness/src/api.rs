//! Host functions registered in every session (C02, C20), and the object-level API operations (C20).

use crate::Session;
use tulisp::{list, tulisp_fn, Error, TulispContext, TulispObject};

pub fn register_host_fns(ctx: &mut TulispContext) {
    #[tulisp_fn(add_func = "ctx", name = "h-two")]
    fn h_two(a: TulispObject, b: TulispObject) -> Result<TulispObject, Error> {
        list!(,a ,b)
    }

    #[tulisp_fn(add_func = "ctx", name = "h-opt")]
    fn h_opt(a: TulispObject, b: Option<TulispObject>) -> Result<TulispObject, Error> {
        match b {
            Some(b) => list!(,a ,b),
            None => list!(,a ,TulispObject::from("none")),
        }
    }

    #[tulisp_fn(add_func = "ctx", name = "h-rest")]
    fn h_rest(a: TulispObject, rest: TulispObject) -> Result<TulispObject, Error> {
        Ok(TulispObject::cons(a, rest))
    }

    #[tulisp_fn(add_func = "ctx", name = "h-int")]
    fn h_int(a: i64, b: Option<i64>) -> i64 {
        a.wrapping_mul(10).wrapping_add(b.unwrap_or(7))
    }

    #[tulisp_fn(add_func = "ctx", name = "h-float")]
    fn h_float(a: f64) -> f64 {
        a * 2.0
    }

    #[tulisp_fn(add_func = "ctx", name = "h-str")]
    fn h_str(a: String, b: Option<String>) -> String {
        format!("{}|{}", a, b.unwrap_or_else(|| "-".to_string()))
    }

    #[tulisp_fn(add_func = "ctx", name = "h-bool")]
    fn h_bool(a: TulispObject) -> bool {
        a.null()
    }
}

pub fn handle(_s: &mut Session, _rest: &str) -> String {
    "BADCMD".to_string()
}
