//! Host functions registered in every session (C02, C20), and the object-level API operations (C20).

use crate::{canon, escape, unescape, Session};

/// canonical form for API results: at most 4 levels of nested elements and 12 elements per list (lists built
/// through the API may be cyclic or heavily shared, and their full rendering can be exponentially large)
fn canon_api(o: &TulispObject, out: &mut String, depth: usize) {
    if depth == 0 {
        out.push_str("#<deep>");
        return;
    }
    if !o.consp() {
        canon(o, out, 0);
        return;
    }
    out.push('(');
    let mut cur = o.clone();
    let mut n = 0;
    loop {
        if n > 0 {
            out.push(' ');
        }
        if n == 12 {
            out.push_str("...)");
            return;
        }
        n += 1;
        canon_api(&cur.car().unwrap(), out, depth - 1);
        let cdr = cur.cdr().unwrap();
        if cdr.null() {
            break;
        }
        if !cdr.consp() {
            out.push_str(" . ");
            canon_api(&cdr, out, depth - 1);
            break;
        }
        cur = cdr;
    }
    out.push(')');
}

fn canon_string(o: &TulispObject) -> String {
    let mut s = String::new();
    canon_api(o, &mut s, 4);
    s
}

use tulisp::{destruct_bind, list, lists, tulisp_fn, Error, ErrorKind, TulispContext, TulispObject};

pub fn register_host_fns(ctx: &mut TulispContext) {
    #[tulisp_fn(add_func = "ctx", name = "h-two")]
    fn h_two(a: TulispObject, b: TulispObject) -> Result<TulispObject, Error> {
        list!(,a ,b)
    }

    #[tulisp_fn(add_func = "ctx", name = "h-opt")]
    fn h_opt(a: TulispObject, b: Option<TulispObject>) -> Result<TulispObject, Error> {
        match b {
            Some(b) => list!(,a ,b),
            None => list!(,a ,TulispObject::from("none")),
        }
    }

    #[tulisp_fn(add_func = "ctx", name = "h-rest")]
    fn h_rest(a: TulispObject, rest: TulispObject) -> Result<TulispObject, Error> {
        Ok(TulispObject::cons(a, rest))
    }

    #[tulisp_fn(add_func = "ctx", name = "h-int")]
    fn h_int(a: i64, b: Option<i64>) -> i64 {
        a.wrapping_mul(10).wrapping_add(b.unwrap_or(7))
    }

    #[tulisp_fn(add_func = "ctx", name = "h-float")]
    fn h_float(a: f64) -> f64 {
        a * 2.0
    }

    #[tulisp_fn(add_func = "ctx", name = "h-str")]
    fn h_str(a: String, b: Option<String>) -> String {
        format!("{}|{}", a, b.unwrap_or_else(|| "-".to_string()))
    }

    #[tulisp_fn(add_func = "ctx", name = "h-bool")]
    fn h_bool(a: TulispObject) -> bool {
        a.null()
    }
}

fn new_handle(s: &mut Session, o: TulispObject) -> String {
    s.handles.push(o);
    format!("H {}", s.handles.len() - 1)
}

fn res_handle(s: &mut Session, r: Result<TulispObject, Error>) -> String {
    match r {
        Ok(o) => new_handle(s, o),
        Err(_) => "ERR".to_string(),
    }
}

fn db(pat: &str, x: TulispObject) -> Result<String, Error> {
    let show = |o: &TulispObject| canon_string(o);
    match pat {
        "1" => {
            destruct_bind!((a b) = x);
            Ok(format!("{} {}", show(&a), show(&b)))
        }
        "2" => {
            destruct_bind!((a &optional b c) = x);
            Ok(format!("{} {} {}", show(&a), show(&b), show(&c)))
        }
        "3" => {
            destruct_bind!((a &rest r) = x);
            Ok(format!("{} {}", show(&a), show(&r)))
        }
        "4" => {
            destruct_bind!((a &optional b &rest r) = x);
            Ok(format!("{} {} {}", show(&a), show(&b), show(&r)))
        }
        _ => Err(Error::new(ErrorKind::Undefined, "pattern".to_string())),
    }
}

/// API <op> <args…>; handles are indices into the session's handle table.
pub fn handle(s: &mut Session, rest: &str) -> String {
    let parts: Vec<&str> = rest.splitn(3, ' ').collect();
    let op = parts.first().copied().unwrap_or("");
    let a1 = parts.get(1).copied().unwrap_or("");
    let a2 = parts.get(2).copied().unwrap_or("");
    let h = |s: &Session, t: &str| -> Option<TulispObject> {
        t.trim().parse::<usize>().ok().and_then(|i| s.handles.get(i).cloned())
    };
    let hs = |s: &Session, t: &str| -> Option<Vec<TulispObject>> {
        t.split_whitespace().map(|x| h(s, x)).collect()
    };
    match op {
        "new" => match a1 {
            "int" => match a2.trim().parse::<i64>() {
                Ok(n) => new_handle(s, TulispObject::from(n)),
                Err(_) => "BADCMD".to_string(),
            },
            "float" => match u64::from_str_radix(a2.trim(), 16) {
                Ok(b) => new_handle(s, TulispObject::from(f64::from_bits(b))),
                Err(_) => "BADCMD".to_string(),
            },
            "str" => new_handle(s, TulispObject::from(unescape(a2))),
            "bool" => new_handle(s, TulispObject::from(a2.trim() == "1")),
            "nil" => new_handle(s, TulispObject::nil()),
            "t" => new_handle(s, TulispObject::t()),
            "sym" => {
                let o = s.ctx.intern(a2.trim());
                new_handle(s, o)
            }
            _ => "BADCMD".to_string(),
        },
        "cons" | "push" | "append" | "eq" | "equal" | "plist_get" => {
            let both = format!("{} {}", a1, a2);
            let v = match hs(s, &both) {
                Some(v) if v.len() == 2 => v,
                _ => return "BADCMD".to_string(),
            };
            match op {
                "cons" => new_handle(s, TulispObject::cons(v[0].clone(), v[1].clone())),
                "push" => match v[0].push(v[1].clone()) {
                    Ok(_) => "OK".to_string(),
                    Err(_) => "ERR".to_string(),
                },
                "append" => match v[0].append(v[1].clone()) {
                    Ok(_) => "OK".to_string(),
                    Err(_) => "ERR".to_string(),
                },
                "eq" => format!("BOOL {}", v[0].eq(&v[1])),
                "equal" => format!("BOOL {}", v[0].equal(&v[1])),
                _ => {
                    let r = lists::plist_get(&v[0], &v[1]);
                    res_handle(s, r)
                }
            }
        }
        "appendtmp" => {
            // a.append(cons(b, c)) where the consed object is a temporary no handle refers to
            let both = format!("{} {}", a1, a2);
            let v = match hs(s, &both) {
                Some(v) if v.len() == 3 => v,
                _ => return "BADCMD".to_string(),
            };
            match v[0].append(TulispObject::cons(v[1].clone(), v[2].clone())) {
                Ok(_) => "OK".to_string(),
                Err(_) => "ERR".to_string(),
            }
        }
        "list" => {
            let both = format!("{} {}", a1, a2);
            let v = match hs(s, &both) {
                Some(v) => v,
                None => return "BADCMD".to_string(),
            };
            let l = TulispObject::nil();
            for x in v {
                if l.push(x).is_err() {
                    return "ERR".to_string();
                }
            }
            new_handle(s, l)
        }
        "cxrcmp" => {
            // every c[ad]{1,4}r accessor against its borrow-in-place `_and_then` twin on one object: the names that disagree
            let o = match h(s, a1) {
                Some(o) => o,
                None => return "BADCMD".to_string(),
            };
            let mut bad: Vec<&str> = vec![];
            macro_rules! cmp {
                ($name:literal, $plain:ident, $then:ident) => {
                    let a = o.$plain().map(|x| canon_string(&x)).map_err(|_| ());
                    // (past the end of a list the `_and_then` form yields the default value of its result type: "" here, nil there)
                    let b = o.$then(|x| Ok(canon_string(x))).map(|t| if t.is_empty() { "nil".to_string() } else { t }).map_err(|_| ());
                    if a != b {
                        bad.push($name);
                    }
                };
            }
                cmp!("car", car, car_and_then);
                cmp!("cdr", cdr, cdr_and_then);
                cmp!("caar", caar, caar_and_then);
                cmp!("cadr", cadr, cadr_and_then);
                cmp!("cdar", cdar, cdar_and_then);
                cmp!("cddr", cddr, cddr_and_then);
                cmp!("caaar", caaar, caaar_and_then);
                cmp!("caadr", caadr, caadr_and_then);
                cmp!("cadar", cadar, cadar_and_then);
                cmp!("caddr", caddr, caddr_and_then);
                cmp!("cdaar", cdaar, cdaar_and_then);
                cmp!("cdadr", cdadr, cdadr_and_then);
                cmp!("cddar", cddar, cddar_and_then);
                cmp!("cdddr", cdddr, cdddr_and_then);
                cmp!("caaaar", caaaar, caaaar_and_then);
                cmp!("caaadr", caaadr, caaadr_and_then);
                cmp!("caadar", caadar, caadar_and_then);
                cmp!("caaddr", caaddr, caaddr_and_then);
                cmp!("cadaar", cadaar, cadaar_and_then);
                cmp!("cadadr", cadadr, cadadr_and_then);
                cmp!("caddar", caddar, caddar_and_then);
                cmp!("cadddr", cadddr, cadddr_and_then);
                cmp!("cdaaar", cdaaar, cdaaar_and_then);
                cmp!("cdaadr", cdaadr, cdaadr_and_then);
                cmp!("cdadar", cdadar, cdadar_and_then);
                cmp!("cdaddr", cdaddr, cdaddr_and_then);
                cmp!("cddaar", cddaar, cddaar_and_then);
                cmp!("cddadr", cddadr, cddadr_and_then);
                cmp!("cdddar", cdddar, cdddar_and_then);
                cmp!("cddddr", cddddr, cddddr_and_then);
            format!("CXR {}", bad.join(","))
        }
        "bigiter" => {
            // bigiter <n> [<stack KiB>]: collect n integers into a list through FromIterator, measure it, sum it through a typed
            // iterator, copy it; with a second argument the whole thing runs on a thread with that much stack (collecting is
            // quadratic in the real code, so the list is kept short and the stack small instead)
            let n: i64 = a1.trim().parse().unwrap_or(0);
            let work = move || {
                let l: TulispObject = (0..n).map(TulispObject::from).collect();
                let len = l.base_iter().count();
                let sum: i64 = l.iter::<i64>().map(|x| x.unwrap_or(0)).sum();
                let last = lists::last(&l, None).and_then(|x| x.car()).map(|x| x.to_string()).unwrap_or_else(|_| "ERR".into());
                let copy_len = l.deep_copy().map(|c| c.base_iter().count()).unwrap_or(0);
                format!("BIG {} {} {} {}", len, sum, last, copy_len)
            };
            match a2.trim().parse::<usize>() {
                Ok(kib) => std::thread::Builder::new()
                    .stack_size(kib * 1024)
                    .spawn(work)
                    .ok()
                    .and_then(|h| h.join().ok())
                    .unwrap_or_else(|| "ERR thread".to_string()),
                Err(_) => work(),
            }
        }
        "fromiter" => {
            let both = format!("{} {}", a1, a2);
            let v = match hs(s, &both) {
                Some(v) => v,
                None => return "BADCMD".to_string(),
            };
            let l: TulispObject = v.into_iter().collect();
            new_handle(s, l)
        }
        "car" | "cdr" | "cadr" | "cddr" | "caar" | "cdar" | "caddr" | "deepcopy" => {
            let o = match h(s, a1) {
                Some(o) => o,
                None => return "BADCMD".to_string(),
            };
            let r = match op {
                "car" => o.car(),
                "cdr" => o.cdr(),
                "cadr" => o.cadr(),
                "cddr" => o.cddr(),
                "caar" => o.caar(),
                "cdar" => o.cdar(),
                "caddr" => o.caddr(),
                _ => o.deep_copy(),
            };
            res_handle(s, r)
        }
        "showlast" => match s.handles.last() {
            Some(o) => format!("OK {}", canon_string(o)),
            None => "BADCMD".to_string(),
        },
        "show" => match h(s, a1) {
            Some(o) => format!("OK {}", canon_string(&o)),
            None => "BADCMD".to_string(),
        },
        "len" => match h(s, a1) {
            Some(o) => format!("N {}", o.base_iter().count()),
            None => "BADCMD".to_string(),
        },
        "iter" => {
            let o = match h(s, a1) {
                Some(o) => o,
                None => return "BADCMD".to_string(),
            };
            let items: Vec<String> = match a2.trim() {
                "int" => o.iter::<i64>().map(|x| x.map(|v| v.to_string()).unwrap_or_else(|_| "ERR".into())).collect(),
                "float" => o.iter::<f64>().map(|x| x.map(|v| format!("{:016x}", v.to_bits())).unwrap_or_else(|_| "ERR".into())).collect(),
                "str" => o.iter::<String>().map(|x| x.map(|v| escape(&v).replace(' ', "\\_")).unwrap_or_else(|_| "ERR".into())).collect(),
                _ => o.base_iter().map(|x| canon_string(&x)).collect(),
            };
            format!("ITER {}", items.join(" "))
        }
        "conv" => {
            let o = match h(s, a1) {
                Some(o) => o,
                None => return "BADCMD".to_string(),
            };
            let e = |_| "ERR".to_string();
            match a2.trim() {
                "as_int" => o.as_int().map(|v| format!("V {}", v)).unwrap_or_else(e),
                "try_int" => o.try_int().map(|v| format!("V {}", v)).unwrap_or_else(e),
                "as_float" => o.as_float().map(|v| format!("V {:016x}", v.to_bits())).unwrap_or_else(e),
                "try_float" => o.try_float().map(|v| format!("V {:016x}", v.to_bits())).unwrap_or_else(e),
                "as_string" => o.as_string().map(|v| format!("V {}", escape(&v))).unwrap_or_else(e),
                "as_symbol" => o.as_symbol().map(|v| format!("V {}", escape(&v))).unwrap_or_else(e),
                "i64" => i64::try_from(o).map(|v| format!("V {}", v)).unwrap_or_else(e),
                "f64" => f64::try_from(o).map(|v| format!("V {:016x}", v.to_bits())).unwrap_or_else(e),
                "i64_ref" => i64::try_from(&o).map(|v| format!("V {}", v)).unwrap_or_else(e),
                "f64_ref" => f64::try_from(&o).map(|v| format!("V {:016x}", v.to_bits())).unwrap_or_else(e),
                "opt_f64" => Option::<f64>::try_from(o).map(|v| format!("V {}", v.map(|x| format!("{:016x}", x.to_bits())).unwrap_or_else(|| "None".into()))).unwrap_or_else(e),
                "string" => String::try_from(o).map(|v| format!("V {}", escape(&v))).unwrap_or_else(e),
                "bool" => format!("V {}", bool::from(o)),
                "opt_i64" => Option::<i64>::try_from(o).map(|v| format!("V {:?}", v)).unwrap_or_else(e),
                "opt_string" => Option::<String>::try_from(o).map(|v| format!("V {}", v.map(|x| escape(&x)).unwrap_or_else(|| "None".into()))).unwrap_or_else(e),
                "preds" => format!(
                    "V {} {} {} {} {} {} {} {} {}",
                    o.consp(), o.listp(), o.integerp(), o.floatp(), o.numberp(), o.stringp(), o.symbolp(), o.null(), o.keywordp()
                ),
                _ => "BADCMD".to_string(),
            }
        }
        "db" => match h(s, a2) {
            Some(o) => match db(a1, o) {
                Ok(t) => format!("DB {}", t),
                Err(_) => "ERR".to_string(),
            },
            None => "BADCMD".to_string(),
        },
        "sym" => {
            // sym <op> <name> [handle]
            let p: Vec<&str> = a2.split_whitespace().collect();
            let name = p.first().copied().unwrap_or("");
            let sym = s.ctx.intern(name);
            let arg = p.get(1).and_then(|t| h(s, t));
            match a1 {
                "set" | "setscope" => {
                    let v = match arg {
                        Some(v) => v,
                        None => return "BADCMD".to_string(),
                    };
                    let r = if a1 == "set" { sym.set(v) } else { sym.set_scope(v) };
                    match r {
                        Ok(_) => "OK".to_string(),
                        Err(_) => "ERR".to_string(),
                    }
                }
                "unset" => match sym.unset() {
                    Ok(_) => "OK".to_string(),
                    Err(_) => "ERR".to_string(),
                },
                "get" => {
                    let r = sym.get();
                    res_handle(s, r)
                }
                "boundp" => format!("BOOL {}", sym.boundp()),
                _ => "BADCMD".to_string(),
            }
        }
        "llen" => match h(s, a1) {
            Some(o) => match lists::length(&o) {
                Ok(n) => format!("N {}", n),
                Err(_) => "ERR".to_string(),
            },
            None => "BADCMD".to_string(),
        },
        "lnth" | "lnthcdr" => {
            let (n, o) = match (a1.trim().parse::<i64>(), h(s, a2)) {
                (Ok(n), Some(o)) => (n, o),
                _ => return "BADCMD".to_string(),
            };
            let r = if op == "lnth" { lists::nth(n, o) } else { lists::nthcdr(n, o) };
            res_handle(s, r)
        }
        "llast" => {
            let o = match h(s, a1) {
                Some(o) => o,
                None => return "BADCMD".to_string(),
            };
            let n = match a2.trim() {
                "" | "none" => None,
                t => match t.parse::<i64>() {
                    Ok(n) => Some(n),
                    Err(_) => return "BADCMD".to_string(),
                },
            };
            let r = lists::last(&o, n);
            res_handle(s, r)
        }
        "assoc" | "alist_get" => {
            let both = format!("{} {}", a1, a2);
            let v = match hs(s, &both) {
                Some(v) if v.len() == 2 || (v.len() == 3 && op == "alist_get") => v,
                _ => return "BADCMD".to_string(),
            };
            let r = if op == "assoc" {
                lists::assoc(&mut s.ctx, &v[0], &v[1], None)
            } else {
                lists::alist_get(&mut s.ctx, &v[0], &v[1], v.get(2).cloned(), None, None)
            };
            res_handle(s, r)
        }
        "alist_from" | "plist_from" => {
            let both = format!("{} {}", a1, a2);
            let v = match hs(s, &both) {
                Some(v) if v.len() % 2 == 0 && v.len() <= 6 => v,
                _ => return "BADCMD".to_string(),
            };
            let p = |i: usize| (v[2 * i].clone(), v[2 * i + 1].clone());
            let al = op == "alist_from";
            let o = match v.len() / 2 {
                0 => if al { lists::alist_from([]) } else { lists::plist_from([]) },
                1 => if al { lists::alist_from([p(0)]) } else { lists::plist_from([p(0)]) },
                2 => if al { lists::alist_from([p(0), p(1)]) } else { lists::plist_from([p(0), p(1)]) },
                _ => if al { lists::alist_from([p(0), p(1), p(2)]) } else { lists::plist_from([p(0), p(1), p(2)]) },
            };
            new_handle(s, o)
        }
        _ => "BADCMD".to_string(),
    }
}
