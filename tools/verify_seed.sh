#!/bin/bash
# verify_seed.sh <ID> <seed_dir>: confirm in a scratch worktree that a seeded change (patch.diff + demo.rs)
# compiles, passes the existing suite, and that the demo fails with it and passes without it.
set -u
ID=$1; SD=$2; W=/tmp/sv_$ID
rm -rf $W; git -C /repo worktree prune; git -C /repo worktree add --detach $W HEAD -q || exit 9
cd $W
export CARGO_TARGET_DIR=/tmp/sv_target
git apply $SD/patch.diff || { echo "RESULT $ID patch-does-not-apply"; cd /; git -C /repo worktree remove --force $W; exit 1; }
cargo test --offline > /tmp/sv_$ID.suite.log 2>&1; SUITE=$?
cp $SD/demo.rs tests/seed_demo.rs
cargo test --offline --test seed_demo > /tmp/sv_$ID.with.log 2>&1; WITH=$?
git apply -R $SD/patch.diff
cargo test --offline --test seed_demo > /tmp/sv_$ID.without.log 2>&1; WITHOUT=$?
echo "RESULT $ID suite_rc=$SUITE demo_with_change_rc=$WITH demo_without_change_rc=$WITHOUT"
cd /; git -C /repo worktree remove --force $W
