#!/bin/bash
# try_seed.sh <ID> <seed_dir> [tier] [other check ids…]: apply a seeded change to /repo, run the check of its property
# (and optionally others), report, and undo the change straight afterwards.
ID=$1; SD=$2; TIER=${3:-quick}; shift 3 2>/dev/null
cd /repo || exit 9
if [ -n "$(git status --porcelain --untracked-files=no)" ]; then echo "repo not clean"; exit 9; fi
git apply $SD/patch.diff || { echo "TRY $ID patch-does-not-apply"; exit 1; }
cd /verif
for C in $ID "$@"; do
  timeout 3000 bin/check $C $TIER > /tmp/try_$ID.$C.log 2>&1; RC=$?
  echo "TRY seed=$ID check=$C tier=$TIER rc=$RC $(grep -c '^VIOLATION' /tmp/try_$ID.$C.log) violation lines"
  grep '^VIOLATION' /tmp/try_$ID.$C.log | head -2
done
git -C /repo checkout -- . ; git -C /repo status --porcelain --untracked-files=no | head -2
# rebuild the harness from the restored sources, so that helper scripts do not run a stale seeded binary
# (TRY_NO_REBUILD=1 skips this inside a batch loop: bin/check rebuilds the harness at its start anyway; rebuild once after the loop)
if [ -z "$TRY_NO_REBUILD" ]; then
  (cd /verif/harness && cargo build --offline --release >/dev/null 2>&1; cargo build --offline >/dev/null 2>&1)
fi
