#!/usr/bin/env python3
"""Writes /verif/MANIFEST.json.  A property is claimed when its theorem module
lean/Tulisp/Props/<ID>.lean and its campaign checks/<id>.py both exist."""
import json, os, re, subprocess

V = os.path.dirname(os.path.dirname(os.path.abspath(__file__)))
TECH = "Lean 4 theorems about a hand-written executable model + differential correspondence check model vs. real code"

TEXT = {
 "C01": ("Equational semantics of every core form and refinement of the deep-binding store by the shallow-binding store, proved for all programs / depths in Lean; the model is tied to the code by random programs over the core forms with tick logs and variable dumps.",
         "4 C01"),
 "C02": ("Theorems: arguments are collected (each once, in order, no binding touched) before any parameter is bound; positional distribution incl. &optional/&rest; arity errors without running the body; values handed to built-ins are quoted so they are never evaluated twice. Campaign over callee kinds x routes x shapes.",
         "4 C02"),
 "C03": ("One invariant proved by induction over the whole evaluator (every built-in, every outcome incl. errors and fuel): the number of local bindings of every symbol is the same after a request as before. Fault enumeration (error at every executed tick) ties the model to the code.",
         "4 C03"),
 "C04": ("Theorems: the trampoline re-enters the body at constant depth for any number of iterations, a bounce equals a call with the evaluated values, the rewrite touches exactly tail self-calls. Campaign compares rewritten bodies, results and ticks and measures host-stack growth over 10^5..10^6 iterations.",
         "4 C04"),
 "C05": ("Theorems about capture: every capturable free variable of the body is replaced by a fresh private cell holding the creation-time value, other symbols untouched, cells unaffected by later bindings of the name. Campaign over capture placements and call contexts.",
         "4 C05"),
 "C06": ("Theorems: macroexpand leaves atoms / quoted data / macro-free forms unchanged, reaches every element, is idempotent, applies macros to unevaluated forms; equations for every built-in macro. Campaign checks F vs (eval (macroexpand 'F)).",
         "4 C06"),
 "C07": ("Theorems: backquote equals the list/append construction, evaluates unquoted parts once in order, builds fresh spines. Campaign: near-exhaustive small templates, equality with the construction, independence of two evaluations.",
         "4 C07"),
 "C08": ("Theorems for ALL texts: the parser never reaches an unwrap site, its fuel always suffices, the result is a program or a parse error (the tokenizer is a total fold). Campaign: exhaustive strings over the significant alphabet, prefixes of real programs, token soups.",
         "4 C08"),
 "C09": ("Theorems: the parser inverts the token-level printer for all nestings, the tokenizer inverts token rendering (strings, integers, identifiers), printer/reader round trip on data values. Campaign: type-directed values in random layouts, float literals against correctly rounded conversion, print-read-back on the real reader.",
         "4 C09"),
 "C10": ("Theorem: no evaluation in the model yields a panic outcome (same induction as C03; integer arithmetic is range-checked so there is no build-profile dependence). Campaign: the set of bound symbols of a fresh context equals the model's registration table; every built-in x argument kinds x arity 0-4, malformed forms (also as bodies of definitions), self-referential forms and running forms handed to form-walkers, under both build profiles.",
         "4 C10"),
 "C11": ("Theorems: library list functions build fresh spines and assign no variable; quote returns the literal itself. Campaign: arguments and literals re-read after repeated calls, repeated evaluation of expressions.",
         "4 C11"),
 "C12": ("Theorems relating every list primitive to Lean's List (car/cdr laws, all 30 cxr compositions, nth/nthcdr/last/length/append specs, assoc/plist-get, element-visit order of the higher-order functions), for all lists and indices. Campaign: exhaustive small lists, dotted variants, all indices, all function-argument forms.",
         "4 C12"),
 "C13": ("Theorems on Int with the i64 range predicate: checked add/sub/mul, truncating division, floored mod with sign of the divisor, contagion, max/min, chain = all adjacent pairs, non-numbers rejected, n-ary = left fold. Campaign: exhaustive tuples over boundary values.",
         "4 C13"),
 "C14": ("Theorems: equal reflexive/symmetric, eq implies equal, structural characterisation, interning yields one symbol per name, make-symbol/gensym fresh, hash table refines a finite map keyed by eql for any operation sequence. Campaign: value pairs of all kinds and table operation sequences.",
         "4 C14"),
 "C15": ("Theorems: concat is the concatenation (associative, identity), string orders form a strict total order consistent with string=, format consumes one argument per directive in order with the stated errors, successive gensym names differ. Campaign over nasty strings and format grammars.",
         "4 C15"),
 "C16": ("Theorems: the tokenizer's (line, col) equals the position computed from the consumed prefix for any text; list spans run from '(' to the matching ')'. Campaign: an error at every tick of laid-out programs (strings, files, nested loads); every located entry must be the extent of a form the model's reader produces, the innermost one the failing call.",
         "4 C16"),
 "C17": ("Theorems: for EVERY predicate the result is a permutation and errors/panics only come from the predicate; for strict weak orders the algorithm equals List.mergeSort, hence sorted and stable. Campaign: duplicates, inconsistent and failing predicates, long lists.",
         "4 C17"),
 "C18": ("Theorems: every list loop of the model runs all elements at the same depth budget (success on each element implies success on any length). Campaign: every list operation on 10^5..10^6 elements on a 512 KiB stack in both profiles.",
         "4 C18"),
 "C19": ("Theorems: requests on one context never change another, interleaving does not change a transcript, load = evaluate up to the file id. Campaign: histories alone / again / from files / nested loads / interleaved with other contexts / in a second process.",
         "4 C19"),
 "C20": ("Heap model of the object API: push/append refine sequence append for every handle sharing the tail, the alist / plist / list helpers (length, nth, nthcdr, last, assoc, alist_get, alist_from, plist_from) refine the sequence model, symbol API refines a stack, conversions round-trip; operation sequences compared with the real API; host functions applied to values through every higher-order route and TulispContext::funcall/map/filter/reduce.",
         "4 C20"),
}

def main():
    props = [json.loads(l) for l in open(os.path.join(V, "properties.jsonl"))]
    checks, na = [], []
    for p in props:
        pid = p["id"]
        have = os.path.exists(os.path.join(V, "lean", "Tulisp", "Props", pid + ".lean")) and \
               os.path.exists(os.path.join(V, "checks", pid.lower() + ".py"))
        if not have:
            na.append({"property_id": pid, "reason": "not claimed yet: its theorem module and/or campaign is still being completed (the technique applies; see DESIGN.md section 4)"})
            continue
        text, ref = TEXT[pid]
        checks.append({
            "property_id": pid,
            "quick_cmd": "bin/check %s quick" % pid,
            "thorough_cmd": "bin/check %s thorough" % pid,
            "evidence_file": "/verif/evidence/%s.json" % pid,
            "replay_cmd_template": "bin/check %s quick --replay {path}" % pid,
            "engine": "lean-model+correspondence",
            "level_claimed": {"category": "proof", "text": text, "design_ref": "DESIGN.md section " + ref},
            "level_note": ("Trusted: Lean 4.33 kernel (axioms propext, Classical.choice, Quot.sound only; audited by #print axioms on every run), "
                           "the hand-written model (tied to /repo by the correspondence campaign run on every check against a harness rebuilt from "
                           "/repo's working tree), the Lean compiler for the model driver, the Rust harness and Python generators. The code itself is "
                           "modelled, not verified: a property failure in the code shows up as a model/implementation disagreement with a replay."),
            "technique": TECH,
        })
    man = {
        "version": 1,
        "setup_cmd": "cd /verif/lean && lake build Tulisp tulisp_model $(ls Tulisp/Props | sed -n 's/^\\(C[0-9]*\\)\\.lean$/Tulisp.Props.\\1/p') && cd /verif/harness && CARGO_NET_OFFLINE=true cargo build --offline && CARGO_NET_OFFLINE=true cargo build --offline --release",
        "hooks": {
            "guard": "tulisp_verif",
            "enable": "RUSTFLAGS=--cfg tulisp_verif (set in /verif/harness/.cargo/config.toml); exposes tulisp::verif_hooks",
            "baseline_off_cmd": "cd /repo && cargo test --workspace --no-fail-fast --offline",
            "source_commits": subprocess.run(["git", "-C", "/repo", "log", "--format=%h", "--grep=^verif hooks"], capture_output=True, text=True).stdout.split(),
            "add_only": True,
        },
        "engines": [{"name": "lean-model+correspondence", "path": "/verif/bin/check",
                     "serves_properties": [c["property_id"] for c in checks],
                     "kind_free_text": "Lean 4 model (lean/Tulisp/Model) with property theorems (lean/Tulisp/Props), compiled model driver, Rust harness executing the real crate, Python campaigns"}],
        "checks": checks,
        "not_applicable": na,
        "notes": "Known findings are listed in known_findings.json (status known / fixed). See DESIGN.md.",
    }
    json.dump(man, open(os.path.join(V, "MANIFEST.json"), "w"), indent=1)
    print("claimed:", [c["property_id"] for c in checks])
    print("not claimed:", [n["property_id"] for n in na])

if __name__ == "__main__":
    main()
