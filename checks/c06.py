"""C06 — macro expansion is faithful, complete and stable."""
from . import common as C

ID = "C06"
LEAN_MODULE = "Tulisp.Props.C06"
THEOREMS = []
RULE = ("user macros (defmacro with &optional/&rest parameters, backquote templates, a macro expanding to another macro "
        "call, a macro with a side effect at expansion time) and every built-in macro (when, unless, if-let, if-let*, "
        "when-let, while-let, ->, ->>, thread-first, thread-last) with 0-4 argument forms, nested in arguments, function "
        "bodies, under other macros and in dotted tails; for each form F: (macroexpand 'F) is compared with the model, "
        "F and (eval (macroexpand 'F)) must give the same value / ticks / variables, and (macroexpand (macroexpand 'F)) "
        "must equal (macroexpand 'F); non-trivial = distinct forms whose expansion differs from the form")
ASSUMPTIONS = ["macroexpand also expands lists in binding positions whose head names a macro, e.g. (let ((when 1)) …) "
               "(known finding); generated binding names avoid macro names"]

DEFS = ("(defmacro inc (var) (list 'setq var (list '+ 1 var))) "
        "(defmacro my-if (c a &optional b) `(cond (,c ,a) (t ,b))) "
        "(defmacro my-progn (&rest body) `(let () nil ,@body)) "
        "(defmacro twice (form) `(progn ,form ,form)) "
        "(defmacro inc2 (var) `(progn (inc ,var) (inc ,var))) "
        "(defmacro swap-args (f a b) (list f b a)) "
        "(defmacro with-tick (n &rest body) `(progn (tick ,n) ,@body)) "
        "(defmacro effect (x) (setq expansions (+ expansions 1)) x) "
        "(defmacro show (form) `(list ',form ,form)) "
        "(defmacro head-of (form) (list 'quote (if (consp form) (car form) form))) "
        "(defmacro count-forms (&rest fs) (list 'quote (list (length fs) fs))) "
        "(defmacro pick (n &rest fs) (nth n fs)) "
        "(defmacro kw (a &optional (b 5)) a)")          # (malformed on purpose: the definition fails; it stays the last one)

def atom(rng):
    return rng.choice(["1", "2", "v", "w", "nil", "t", "'q", '"s"', "(tick 5)", "(+ v 1)", "(list v w)", "s", "(list s v)"])

def form(rng, d):
    if d <= 0: return atom(rng)
    k = rng.choice(["inc", "my-if", "my-progn", "twice", "inc2", "swap-args", "with-tick", "effect", "when", "unless",
                    "if-let", "if-let*", "when-let", "while-let", "->", "->>", "thread-first", "thread-last", "plain", "plain", "show", "head-of", "count-forms", "pick",
                    "let", "defun-call", "quote", "dotted", "lambda"])
    f = lambda: form(rng, d - 1)
    if k == "inc": return "(inc %s)" % rng.choice(["v", "w"])
    if k == "inc2": return "(inc2 %s)" % rng.choice(["v", "w"])
    if k == "my-if": return "(my-if %s %s%s)" % (f(), f(), rng.choice(["", " " + f()]))
    if k == "my-progn": return "(my-progn %s)" % " ".join(f() for _ in range(rng.randint(0, 3)))
    if k == "twice": return "(twice %s)" % f()
    if k == "show": return "(show %s)" % f()
    if k == "head-of": return "(head-of %s)" % f()
    if k == "count-forms": return "(count-forms %s)" % " ".join(f() for _ in range(rng.randint(0, 3)))
    if k == "pick": return "(pick %d %s %s)" % (rng.randint(0, 1), f(), f())
    if k == "swap-args": return "(swap-args list %s %s)" % (f(), f())
    if k == "with-tick": return "(with-tick %d %s)" % (rng.randint(1, 9), " ".join(f() for _ in range(rng.randint(0, 2))))
    if k == "effect": return "(effect %s)" % f()
    if k in ("when", "unless"): return "(%s %s)" % (k, " ".join(f() for _ in range(rng.randint(0, 4))))
    if k in ("if-let", "if-let*"):
        spec = rng.choice(["(x1 %s)" % f(), "((x1 %s))" % f(), "((x1 %s) (x2 %s))" % (f(), f()), "(x1)", "((x1 v) x1)", "()", "v", "((%s))" % f()])
        return "(%s %s %s)" % (k, spec, " ".join(f() for _ in range(rng.randint(0, 3))))
    if k == "when-let":
        spec = rng.choice(["(x1 %s)" % f(), "((x1 %s) (x2 %s))" % (f(), f()), "((x1 v))"])
        return "(when-let %s %s)" % (spec, " ".join(f() for _ in range(rng.randint(0, 3))))
    if k == "while-let":
        return "(while-let ((x1 (< cnt 2))) (setq cnt (+ cnt 1)) %s)" % f()
    if k in ("->", "->>", "thread-first", "thread-last"):
        steps = " ".join(rng.choice(["(+ 20)", "(list 1)", "list", "(cons 0)", "-", "(- 3)", "1+", "(my-if 7 8)", "(* 2)"]) for _ in range(rng.randint(0, 4)))
        return "(%s %s %s)" % (k, rng.choice(["5", "v", "(+ v 1)"]), steps)
    if k == "plain": return "(%s %s %s)" % (rng.choice(["list", "+", "cons", "progn", "and", "or"]), f(), f())
    if k == "let": return "(let ((x3 %s)) %s)" % (f(), f())
    if k == "defun-call": return "(fn1 %s)" % f()
    if k == "quote": return "'(when %s)" % atom(rng)
    if k == "dotted": return "(list %s . (%s))" % (f(), f())
    return "(funcall (lambda (x4) %s) %s)" % (f(), f())

def generate(tier, seed):
    rng = C.rng_for(seed, "C06")
    lines, nt = [], set()
    n = 7000 if tier == "quick" else 200000
    pre = ["EVAL (setq expansions 0) " + DEFS,
           "EVAL (defun fn1 (a) (when a (inc a)) (my-if a (list 'fn1 a) 'none))",
           "EVAL (setq v 1) (setq w 10) (setq cnt 0) (setq s 'user-s)"]
    for _ in range(n):
        F = form(rng, rng.choice([1, 2, 2, 3]))
        lines += ["NEW"] + pre + ["EVAL (macroexpand '%s)" % F,
                                   "EVAL (let ((e1 (macroexpand '%s))) (equal (macroexpand e1) e1))" % F,
                                   "EVAL (setq v 1) (setq w 10) (setq cnt 0) (setq s 'user-s)",
                                   "EVAL " + F, "TICKS", "DUMP v w cnt x1 x2 x3 s",
                                   "EVAL (setq v 1) (setq w 10) (setq cnt 0) (setq s 'user-s)",
                                   "EVAL (eval (macroexpand '%s))" % F, "TICKS", "DUMP v w cnt x1 x2 x3 s"]
        nt.add(F)
    # a form read ONCE and kept as data; its head is (re)defined as another macro / as a function / after the form was read:
    # evaluation always uses the definition current at evaluation time, like macroexpand does
    for body1, body2 in [("(list '+ x 10)", "(list '* x 10)"), ("(list 'list x)", "(list 'quote x)"), ("x", "(list 'car (list 'quote (list x)))")]:
        for holder in ["(setq form '(rm 4))", "(setq form '(list (rm 4) (rm 5)))", "(setq form '(progn (rm 4)))", "(defun report (v) `(result ,(rm v))) (setq form '(report 4))",
                       "(setq form '(let ((k (rm 2))) (rm k)))", "(setq form (list 'rm 4))", "(setq form '(funcall (lambda (q) (rm q)) 3))"]:
            for redef in ["(defmacro rm (x) %s)" % body2, "(defun rm (x) (list 'fn x))", "(progn (defmacro rm (x) %s) (defmacro rm (x) %s))" % (body1, body2)]:
                lines += ["NEW", "EVAL (defmacro rm (x) %s)" % body1, "EVAL " + holder, "EVAL (eval form)", "EVAL " + redef, "EVAL (eval form)",
                          "EVAL (eval (macroexpand form))", "EVAL (equal (eval form) (eval (macroexpand form)))", "EVAL (macroexpand form)", "EVAL form"]
    for body, call in [('"1.2.3"', "(cm)"), ('"doc" "value"', "(cm)"), ("4", "(cm)"), ("nil", "(cm)"), ("", "(cm)"), ('"doc" (list \'quote x)', "(cm1 7)"), ('"only-doc"', "(cm1 7)"),
                       ('(declare (x)) "s"', "(cm)"), ("'sym", "(cm)"), ('"a" "b" "c"', "(cm)"), (":k", "(cm)"), ("t", "(cm)"), ('(concat "x" "y")', "(cm)")]:
        nm = "cm1" if "cm1" in call else "cm"
        lines += ["NEW", "EVAL (defmacro %s (%s) %s)" % (nm, "x" if nm == "cm1" else "", body), "EVAL (macroexpand '%s)" % call, "EVAL " + call,
                  "EVAL (list %s (concat \"v\" (format \"%%s\" %s)))" % (call, call), "EVAL (defun df%s (%s) %s)" % (nm, "x" if nm == "cm1" else "", body), "EVAL (df%s)" % call[1:]]
    # built-in macros with 0..4 plain argument forms
    for m in ["when", "unless", "if-let", "if-let*", "when-let", "while-let", "->", "->>", "thread-first", "thread-last", "quote"]:
        for k in range(0, 5):
            for _ in range(3 if tier == "quick" else 20):
                args = " ".join(rng.choice(["1", "v", "(f 2)", "(x1 v)", "((x1 v))", "nil", "(g)", "h", '"s"', "(a . b)"]) for _ in range(k))
                lines += ["NEW", "EVAL (macroexpand '(%s %s))" % (m, args),
                          "EVAL (let ((e1 (macroexpand '(%s %s)))) (equal (macroexpand e1) e1))" % (m, args)]
    return {"lines": lines, "nontrivial": len(nt), "distribution": {"forms": n}}

def oracle(lines, impl, model, meta):
    bad = []
    for idxs in C.split_cases(lines):
        L = [lines[i] for i in idxs]; A = [impl[i] or "" for i in idxs]
        for k, l in enumerate(L):
            if l.startswith("EVAL (let ((e1 (macroexpand '") and A[k] == "OK nil":
                bad.append(("expanding an expanded form changed it", L, k, A[k], model[idxs[k]])); break
        if len(L) == 14:
            # direct evaluation vs evaluation of the expansion: value, ticks, variables
            if A[7:10] != A[11:14] and not any(x.startswith(("ABORT", "TIMEOUT")) for x in A):
                bad.append(("F and (eval (macroexpand 'F)) differ", L, 11, str(A[7:10]), str(A[11:14])))
    return bad
