"""C14 — equality predicates and hash tables are coherent."""
import itertools
from . import common as C

ID = "C14"
LEAN_MODULE = "Tulisp.Props.C14"
THEOREMS = []
RULE = ("pairs of data values of every kind combination and nesting (numbers other than NaN, strings, symbols, keywords, "
        "nil/t, proper and dotted lists) held in variables, built as literals of one text (shared), of two texts, or by "
        "construction; (eq a b), (eq b a), (equal a b), (equal b a), (eq a a), (equal a a) compared with the model and "
        "checked for reflexivity, symmetry and eq => equal on the implementation's own answers; interning "
        "(intern, reading the same name, make-symbol, gensym); hash-table operation sequences (exhaustive up to length 4 "
        "over 6 keys of every kind, random up to 200) compared with the association-list model (proved to refine a finite "
        "map keyed by eql); non-trivial = distinct pair cases with at least one list, plus distinct table sequences")
ASSUMPTIONS = ["eq on number objects is not modelled (the model compares numbers by value); eq is exercised on symbols, "
               "strings, lists and nil/t only"]

VALS = ["1", "2", "1.0", "1.5", "-0.0", "0.0", "0", '"a"', '"b"', '""', "a", "b", ":k", "nil", "t", "(1 2)", "(1 . 2)", "(a (b \"a\") . c)",
        "(1 (2 (3)))", "(1.0 2)", "(nil)", "()", '("a")', "((a . 1) (b . 2))", "9223372036854775807", "9223372036854775806", "9007199254740993", "9007199254740992", "-9007199254740993", "(9007199254740993)", "(1 . 9007199254740992)", "9007199254740992.0", "(1 2 3)", "(1 2 . 3)",
        # dotted tails of every kind (compared structurally, like elements)
        '(1 . "a")', '(a b . "b")', "(1 . 2.0)", "(1 . 2)", "(1 . 0.0)", "(1 . -0.0)", '("a" . "a")', "(1 . 1.5)", "((1 . 1.0) . 1)",
        '((x . "a") (y . 1.0))', "(1 . :k)", "(1 . t)", "((1 . (2 . \"a\")))"]

def isnum(v): return v[0].isdigit() or v[0] == '-'

def generate(tier, seed):
    rng = C.rng_for(seed, "C14")
    lines, nt = [], set()
    pairs = list(itertools.product(VALS, repeat=2))
    if tier == "quick": pairs = rng.sample(pairs, min(len(pairs), 1000))
    # pairs that are always there: numbers a double cannot tell apart, int / float twins, dotted tails of every kind
    pairs += [("9007199254740993", "9007199254740992"), ("9223372036854775807", "9223372036854775806"), ("-9007199254740993", "-9007199254740992"), ("9007199254740993", "9007199254740992.0"),
              ("(9007199254740993)", "(9007199254740992)"), ("(1 . 9007199254740993)", "(1 . 9007199254740992)"), ("9007199254740992", "9007199254740992.0"), ("1", "1.0"), ("(1 . \"a\")", "(1 . \"a\")"),
              ("(1 . 2.0)", "(1 . 2)"), ("0.0", "-0.0"), ("\"a\"", "\"a\""), ("(a (b \"a\") . c)", "(a (b \"a\") . c)")]
    for a, b in pairs:
        how = rng.choice(["one-text", "two-texts", "constructed", "rebuilt"])
        if how == "one-text":
            setup = ["EVAL (setq va '%s) (setq vb '%s)" % (a, b)]
        elif how == "two-texts":
            setup = ["EVAL (setq va '%s)" % a, "EVAL (setq vb '%s)" % b]
        elif how == "rebuilt":
            # both values rebuilt at run time, strings through concat, so that no two parts are the same object
            setup = ["EVAL (defun rb (v) (cond ((consp v) (cons (rb (car v)) (rb (cdr v)))) ((stringp v) (concat v \"\")) (t v)))",
                     "EVAL (setq va (rb '%s))" % a, "EVAL (setq vb (rb '%s))" % b]
        else:
            setup = ["EVAL (setq va (car (list '%s))) (setq vb (cdr (cons 0 '%s)))" % (a, b)]
        q = "(list (equal va vb) (equal vb va) (equal va va) (equal vb vb)"
        if not isnum(a) and not isnum(b):
            q += " (eq va vb) (eq vb va) (eq va va) (eq vb vb)"
        q += ")"
        lines += ["NEW"] + setup + ["EVAL " + q, "EVAL (let ((c va)) (list (eq c va) (equal c va) (equal (list va vb) (list va vb))))"]
        if "(" in a or "(" in b: nt.add((a, b, how))
    # symbols
    sym = ["EVAL (list (eq 'a 'a) (eq 'a 'b) (eq (intern \"a\") 'a) (eq (intern \"zz\") (intern \"zz\")) (eq (intern \"zz\") 'zz))",
           "EVAL (list (eq (make-symbol \"a\") 'a) (eq (make-symbol \"a\") (make-symbol \"a\")) (equal (make-symbol \"a\") 'a))",
           "EVAL (let ((g1 (gensym)) (g2 (gensym))) (list (eq g1 g2) (eq g1 g1) (equal g1 g2) g1 g2))",
           "EVAL (let ((m (make-symbol \"q\"))) (list (eq m m) (equal m m) (symbolp m) (eq m (intern \"q\"))))",
           "EVAL (list (eq :k :k) (equal :k :k) (eq nil nil) (eq t t) (eq nil '()) (equal nil '()) (eq 'nil nil))",
           "EVAL (list (eq 'a (car '(a b))) (eq (car '(a)) (car '(a))))", "EVAL (setq s1 'foo)", "EVAL (eq s1 'foo)"]
    sym += ["EVAL (let ((x 1)) (funcall (lambda () (list (eq 'x (make-symbol \"x\")) (equal 'x (make-symbol \"x\")) (eq 'x 'x) (eq 'x (intern \"x\")) (eq 'x 'y) (equal (list 'x) (list (make-symbol \"x\")))))))",
            "EVAL (setq cl (let ((x 1) (y 2)) (lambda (s) (list (eq 'x s) (eq s 'x) (equal 'x s) (eq 'y s) (symbolp 'x) (eq 'x (gensym)) 'x))))",
            "EVAL (list (funcall cl 'x) (funcall cl (make-symbol \"x\")) (funcall cl (intern \"x\")) (funcall cl 'y) (funcall cl (make-symbol \"y\")))",
            "EVAL (setq cl2 (let ((x 1)) (lambda () (lambda (s) (list (eq 'x s) (eq 'x 'x) (eq 'x (intern \"x\")) (eq 'x (make-symbol \"x\")))))))",
            "EVAL (list (funcall (funcall cl2) 'x) (funcall (funcall cl2) (make-symbol \"x\")))",
            "EVAL (let ((h (make-hash-table)) (x 5)) (puthash 'x 'interned h) (funcall (lambda () (list (gethash 'x h) (gethash (make-symbol \"x\") h) (gethash (intern \"x\") h)))))",
            "EVAL (let ((x 1)) (funcall (lambda () (assoc 'x (list (cons (make-symbol \"x\") 'uninterned) (cons 'x 'interned))))))",
            "EVAL (let ((x 1)) (funcall (lambda () (plist-get (list (make-symbol \"x\") 'uninterned 'x 'interned) 'x))))"]
    sym += ["EVAL (list (eq (make-symbol \":k\") :k) (eq (make-symbol \":k\") (make-symbol \":k\")) (equal (make-symbol \":k\") :k) (eq (gensym \":g\") (intern \":g0\")))",
            "EVAL (let ((h (make-hash-table))) (puthash :k 'kw h) (puthash (make-symbol \":k\") 'un h) (list (gethash :k h) (gethash (make-symbol \":k\") h) (gethash (intern \":k\") h)))",
            "EVAL (let ((h (make-hash-table)) (hits 0)) (dotimes (i 400) (puthash (concat \"key\" \"\") i h)) (dotimes (i 200) (if (gethash (concat \"key\" \"\") h) (setq hits (+ hits 1)))) hits)",
            "EVAL (let ((h (make-hash-table)) (hits 0) (ks nil)) (dotimes (i 300) (setq ks (cons (format \"k%d\" (mod i 7)) ks)) (puthash (car ks) i h)) (dolist (k ks) (if (gethash (format \"%s\" k) h) (setq hits (+ hits 1)))) (list hits (length (seq-filter (lambda (k) (gethash k h)) ks))))",
            "EVAL (let ((h (make-hash-table)) (hits 0)) (dotimes (i 300) (puthash (list i) i h) (puthash (+ i 0.5) i h)) (dotimes (i 300) (if (gethash (list i) h) (setq hits (+ hits 1))) (if (gethash (+ i 0.5) h) (setq hits (+ hits 1000)))) hits)"]
    numid = ["EVAL (let ((a (+ 3 4)) (b (+ 3 4))) (list 'numid (eq a a) (eq a b) (equal a b) (eq b a)))", "EVAL (list 'numid (eq (* 2 50) (* 2 50)) (eq (+ 1.5 1) (+ 1.5 1)) (eq (- 0 7) (- 0 7)))",
             "EVAL (let ((x (list (+ 1 1))) (y (list (+ 1 1)))) (list 'numid (equal x y) (eq (car x) (car y)) (eq (car x) (car x))))",
             "EVAL (let ((a (length '(1 2 3))) (b (length '(4 5 6)))) (list 'numid (eq a b) (eq a a) (equal a b)))", "EVAL (let ((a (1+ 41)) (b (1- 43))) (list 'numid (eq a b) (equal a b)))"]
    lines += ["NEW"] + numid
    lines += ["NEW"] + sym
    # hash tables
    keys = ["'a", "'b", "1", "1.0", '"s"', "ks", "kl", ":k", "nil", "t", "2", "1.5", "0.0", "-0.0", "kl2", "ks2"]
    pre = "EVAL (setq h (make-hash-table)) (setq ks \"s\") (setq kl '(1 2)) (setq kl2 (list 1 2)) (setq ks2 (concat \"s\" \"\"))"
    small = keys[:6]
    ops = [("put", k) for k in small] + [("get", k) for k in small]
    maxlen = 3 if tier == "quick" else 4
    seqs = []
    for n in range(1, maxlen + 1):
        allseq = list(itertools.product(ops, repeat=n))
        lim = 5000 if tier == "quick" else 100000
        if len(allseq) > lim: allseq = rng.sample(allseq, lim)
        seqs += allseq
    for _ in range(500 if tier == "quick" else 10000):
        n = rng.randint(5, 60 if tier == "quick" else 200)
        seqs.append([(rng.choice(["put", "get", "put2"]), rng.choice(keys)) for _ in range(n)])
    for sq in seqs:
        body = []
        for j, (op, k) in enumerate(sq):
            if op == "put": body.append("(puthash %s %s h)" % (k, str(j + 1) if (j * 7 + len(k)) % 4 else ["nil", "t", "0", "'()"][(j + len(k)) % 4]))
            elif op == "put2": body.append("(puthash %s '(v %d) h2)" % (k, j))
            else: body.append("(gethash %s h)" % k)
        lines += ["NEW", pre + " (setq h2 (make-hash-table))", "EVAL (list %s)" % " ".join(body),
                  "EVAL (list %s)" % " ".join("(gethash %s h)" % k for k in keys),
                  "EVAL (list %s)" % " ".join("(gethash %s h2)" % k for k in keys)]
        nt.add(tuple(sq))
    return {"lines": lines, "nontrivial": len(nt), "distribution": {"pairs": len(pairs), "table_sequences": len(seqs)}}

NUMID_EXPECT = ["OK (y:numid t nil t nil)", "OK (y:numid nil nil nil)", "OK (y:numid t nil t)", "OK (y:numid nil t t)", "OK (y:numid nil t)"]

def ignore_line(l):
    return "'numid" in l

def oracle(lines, impl, model, meta):
    bad = []
    k = 0
    for i, l in enumerate(lines):
        if "'numid" in l:
            if (impl[i] or "") != NUMID_EXPECT[k % len(NUMID_EXPECT)]:
                bad.append(("identity of number objects: got %s, expected %s" % (impl[i], NUMID_EXPECT[k % len(NUMID_EXPECT)]), ["NEW", l], 1, impl[i], None))
            k += 1
    for idxs in C.split_cases(lines):
        for i in idxs:
            l, a = lines[i], impl[i] or ""
            if l.startswith("EVAL (list (equal va vb) (equal vb va)") and a.startswith("OK ("):
                v = a[4:-1].split(" ")
                ok = v[0] == v[1] and v[2] == "t" and v[3] == "t"
                if len(v) == 8:
                    ok = ok and v[4] == v[5] and v[6] == "t" and v[7] == "t" and (v[4] != "t" or v[0] == "t")
                if not ok:
                    bad.append(("equality laws violated (symmetry / reflexivity / eq => equal): " + a, [lines[j] for j in idxs], i - idxs[0], a, model[i]))
    return bad
