"""C16 — errors carry accurate, renderable source locations."""
import os, re
from . import common as C
from .gen_prog import ProgGen

ID = "C16"
LEAN_MODULE = "Tulisp.Props.C16"
THEOREMS = []
STRICT_ERR = False
RULE = ("programs from the C01 grammar laid out randomly (line breaks, indentation, comments, a multi-line string and "
        "non-ASCII text before the failing form), an error injected at every executed tick (FAILAT k for every k), evaluated "
        "as a string, as a loaded file and through a nested load; Error::format output is parsed back into "
        "(file, start, end, form) entries: every entry must name a text that was evaluated, have start < end, and its "
        "extent must be the extent of a list / symbol / literal that the model's reader (proved position-exact) produces "
        "for that text; the innermost located entry must be exactly the failing (tick k) call form, whose position the "
        "generator computes independently; non-trivial = distinct (program, k) runs with at least two located entries")
ASSUMPTIONS = ["the rendered text of an entry is the macro-expanded form; only its extent is checked against the source"]

SCRATCH = os.path.join(C.RUN, "files")

def relayout(rng, text):
    toks = text.split(" ")
    out = []
    for i, t in enumerate(toks):
        if i:
            c = rng.random()
            if c < 0.55: out.append(" ")
            elif c < 0.75: out.append("\n" + " " * rng.randint(0, 6))
            elif c < 0.85: out.append("  ; çomment (λ \" \n  ")
            elif c < 0.93: out.append("\t")
            else: out.append("\n\n")
        out.append(t)
    pre = rng.choice(["", "", "\"multi\nline\" ", ";; héllo wörld\n", "\"é\"\n   ", "\n\n  "])
    return pre + "".join(out)

def pos_of(text, offset):
    line = text.count("\n", 0, offset) + 1
    last = text.rfind("\n", 0, offset)
    return (line, offset - last)        # 1-based column in characters

def generate(tier, seed):
    rng = C.rng_for(seed, "C16")
    nprog = 250 if tier == "quick" else 5000
    cases = []
    for _ in range(nprog):
        g = ProgGen(rng, max_depth=rng.choice([2, 3, 4]))
        pre = ""
        if rng.random() < 0.5:
            pre = " ".join(g.defun(rng.randint(1, 3)) for _ in range(rng.randint(1, 2)))
        prog = relayout(rng, g.program(rng.choice([1, 2])))
        cases.append((pre, prog, rng.choice(["string", "string", "file", "nested"])))
    probe = []
    for pre, prog, how in cases:
        probe += ["NEW"] + (["EVAL " + C.esc(pre)] if pre else []) + ["FAILAT 0", "EVAL " + C.esc(prog), "NTICKS"]
    ans = C.run_resilient(C.MODEL_BIN, probe, model=True)
    lines, meta = [], []
    i = 0
    fno = 0
    for pre, prog, how in cases:
        i += 1 + (1 if pre else 0) + 2
        m = re.match(r"NTICKS (\d+)", ans[i] or "")
        n = min(int(m.group(1)) if m else 0, 25 if tier == "quick" else 80)
        i += 1
        for k in range(1, n + 1):
            lines.append("NEW")
            if pre: lines.append("EVAL " + C.esc(pre))
            lines.append("FAILAT %d" % k)
            if how == "string":
                lines.append("ERRFMT " + C.esc(prog)); fname = "<eval_string>"
            elif how == "file":
                fno += 1; name = "c16_%d.lisp" % fno
                lines.append("ERRFMTFILE %s %s" % (name, C.esc(prog))); fname = os.path.join(SCRATCH, name)
            else:
                fno += 1; name = "c16_%d.lisp" % fno; outer = "c16_%d_outer.lisp" % fno
                lines.append("WRITEFILE %s %s" % (name, C.esc(prog)))
                lines.append("ERRFMTFILE %s %s" % (outer, C.esc("(progn\n  (load \"%s\"))" % os.path.join(SCRATCH, name))))
                fname = os.path.join(SCRATCH, name)
            meta.append((len(lines) - 1, prog, fname, how))
            lines.append("TICKS")
    spans_req = ["SPANS " + C.esc(p) for (_, p, _) in cases]
    return {"lines": lines, "meta": {"entries": meta}, "distribution": {"programs": nprog, "fault_runs": len(meta)}}

ENTRY = re.compile(r"^(.*):(\d+)\.(\d+)-(\d+)\.(\d+):  at (.*)$")

def ignore_line(l):
    return False

def normalize(line, ans):
    # the model does not render messages: compare error-ness only
    if line.startswith("ERRFMT"):
        return "ERR" if ans.startswith("ERR") else ans
    return ans

def oracle(lines, impl, model, meta):
    bad = []
    entries = meta.get("entries", [])
    progs = sorted({p for (_, p, _, _) in entries})
    sp_ans = C.run_resilient(C.MODEL_BIN, ["SPANS " + C.esc(p) for p in progs], model=True)
    spans = {}
    for p, a in zip(progs, sp_ans):
        s = set()
        for m in re.finditer(r"([lyoq]):(\d+)\.(\d+)-(\d+)\.(\d+)", a or ""):
            s.add((int(m.group(2)), int(m.group(3)), int(m.group(4)), int(m.group(5))))
        spans[p] = s
    nlocated = 0
    for (idx, prog, fname, how) in entries:
        a = impl[idx] or ""
        case = [lines[idx]]
        if not a.startswith("ERR "):
            continue            # the k-th tick was not reached as a failure (e.g. an earlier error): nothing to locate
        msg = a[4:].replace("\\\\", "\x00").replace("\\n", "\n").replace("\x00", "\\")
        rows = [r for r in msg.split("\n")[1:] if r]
        ents = []
        for r in rows:
            m = ENTRY.match(r)
            if not m:
                continue
            ents.append((m.group(1), int(m.group(2)), int(m.group(3)), int(m.group(4)), int(m.group(5)), m.group(6)))
        if "tick failure" not in msg.split("\n")[0]:
            continue
        # which tick failed: the last one logged
        tl = impl[idx + 1] or ""
        ids = [x for x in tl[6:].split(",") if x]
        if not ids: continue
        tid = ids[-1]
        off = prog.find("(tick %s)" % tid)
        if off < 0: continue
        exp_s = pos_of(prog, off); exp_e = pos_of(prog, off + len("(tick %s)" % tid))
        inner = [e for e in ents if e[0] == fname]
        if len(ents) >= 2: nlocated += 1
        ok_files = {fname, "<eval_string>", os.path.join(SCRATCH, os.path.basename(fname).replace(".lisp", "_outer.lisp"))}
        for e in ents:
            if e[0] not in ok_files:
                bad.append(("entry names a text that was not evaluated: %s" % e[0], case, 0, a, None)); break
            if not ((e[1], e[2]) < (e[3], e[4])):
                bad.append(("entry with start >= end: %s" % (e,), case, 0, a, None)); break
            if e[0] == fname and (e[1], e[2], e[3], e[4]) not in spans[prog]:
                bad.append(("entry extent %d.%d-%d.%d is not the extent of a form of the text" % e[1:5], case, 0, a, None)); break
        else:
            if not inner:
                bad.append(("no located entry for a failing host call", case, 0, a, None))
            elif (inner[0][1], inner[0][2]) != exp_s or (inner[0][3], inner[0][4]) != exp_e:
                bad.append(("innermost entry %d.%d-%d.%d is not the failing call (tick %s) at %d.%d-%d.%d"
                            % (inner[0][1:5] + (tid,) + exp_s + exp_e), case, 0, a, None))
    meta["located"] = nlocated
    return bad

def count_nontrivial(lines, impl, model):
    return len({l for i, l in enumerate(lines) if l.startswith("ERRFMT") and (impl[i] or "").count(":  at ") >= 2})
