"""C16 — errors carry accurate, renderable source locations."""
import os, re
from . import common as C
from .gen_prog import ProgGen

ID = "C16"
LEAN_MODULE = "Tulisp.Props.C16"
THEOREMS = []
STRICT_ERR = False
RULE = ("programs from the C01 grammar laid out randomly (line breaks, indentation, comments, a multi-line string and "
        "non-ASCII text before the failing form), an error injected at every executed tick (FAILAT k for every k), evaluated "
        "as a string, as a loaded file and through a nested load; Error::format output is parsed back into "
        "(file, start, end, form) entries: every entry must name a text that was evaluated, have start < end, and its "
        "extent must be the extent of a list / symbol / literal that the model's reader (proved position-exact) produces "
        "for that text; the innermost located entry must be exactly the failing (tick k) call form, whose position the "
        "generator computes independently; non-trivial = distinct (program, k) runs with at least two located entries")
ASSUMPTIONS = ["the rendered text of an entry is the macro-expanded form; only its extent is checked against the source"]

SCRATCH = os.path.join(C.RUN, "files")

def relayout(rng, text):
    toks = text.split(" ")
    out = []
    for i, t in enumerate(toks):
        if i:
            c = rng.random()
            if c < 0.55: out.append(" ")
            elif c < 0.75: out.append("\n" + " " * rng.randint(0, 6))
            elif c < 0.85: out.append("  ; çomment (λ \" \n  ")
            elif c < 0.90: out.append("\t")
            elif c < 0.95: out.append(rng.choice(["\r\n", "\r\n   ", " \r", "\r\n\r\n"]))
            else: out.append("\n\n")
        out.append(t)
    pre = rng.choice(["", "", "\"multi\nline\" ", ";; héllo wörld\n", "\"é\"\n   ", "\n\n  "])
    return pre + "".join(out)

def pos_of(text, offset):
    line = text.count("\n", 0, offset) + 1
    last = text.rfind("\n", 0, offset)
    return (line, offset - last)        # 1-based column in characters

def generate(tier, seed):
    rng = C.rng_for(seed, "C16")
    nprog = 700 if tier == "quick" else 20000
    cases = []
    for _ in range(nprog):
        g = ProgGen(rng, max_depth=rng.choice([2, 3, 4]))
        pre = ""
        if rng.random() < 0.5:
            pre = " ".join(g.defun(rng.randint(1, 3)) for _ in range(rng.randint(1, 2)))
        core = g.program(rng.choice([1, 2]))
        if rng.random() < 0.5:
            # long forms holding multi-byte characters at arbitrary byte offsets (rendering truncates long entries)
            mb = lambda: "".join(rng.choice(["é", "λ", "ü", "😀", "a", "中", "ß"]) for _ in range(rng.randint(0, 70)))
            core = "(list \"%s\" '%s (progn %s) \"%s\" '(%s))" % (mb(), "sym-" + mb().replace("😀", "x") + "z", core, mb(), " ".join("é%d" % i for i in range(rng.randint(0, 30))))
        if rng.random() < 0.4:
            import re as _re2
            wrapk = lambda m: rng.choice(["(traced %s)", "(-> %s)", "(maybe-log nil %s)", "(progn-m %s)", "%s", "%s"]) % m.group(0)
            core = _re2.sub(r"\(tick \d+\)", wrapk, core)
            pre = (pre + " " if pre else "") + "(defmacro traced (form) form) (defmacro maybe-log (c form) (if c (list 'progn form) form)) (defmacro progn-m (&rest fs) (cons 'progn fs))"
        if rng.random() < 0.4:
            # some calls written with a dotted tail: (tick 3 . nil), (list a . (b)), '(k . v) handed to an operation that fails on it
            import re as _re
            core = _re.sub(r"\(tick (\d+)\)", lambda m: ("(tick %s . nil)" % m.group(1)) if rng.random() < 0.3 else m.group(0), core)
            core = "(list %s (quote (alpha . 1)) . ((quote (b c . d))))" % core
        prog = relayout(rng, core)
        if pre and rng.random() < 0.5: pre = relayout(rng, pre)
        cases.append((pre, prog, rng.choice(["string", "string", "file", "nested"]), rng.random() < 0.5))
    probe = []
    for pre, prog, how, lib in cases:
        probe += ["NEW"] + (["EVAL " + C.esc(pre)] if pre else []) + ["FAILAT 0", "EVAL " + C.esc(prog), "NTICKS"]
    ans = C.run_resilient(C.MODEL_BIN, probe, model=True)
    lines, meta = [], []
    i = 0
    fno = 0
    for pre, prog, how, lib in cases:
        i += 1 + (1 if pre else 0) + 2
        m = re.match(r"NTICKS (\d+)", ans[i] or "")
        n = min(int(m.group(1)) if m else 0, 25 if tier == "quick" else 80)
        i += 1
        ks = list(range(1, n + 1))
        if rng.random() < 0.4: ks.append(-1)          # also: an error raised by a SYMBOL (an unbound variable with a multi-byte name)
        for k in ks:
            this_prog = prog
            if k == -1:
                sym = rng.choice(["größe", "λλλ", "é", "naïve-var", "日本", "x😀y", "plain-unbound"])
                this_prog = relayout(rng, "(list %s %s (quote %s))" % (rng.choice(["1", "\"ü\"", "'é"]), sym, sym)) + "\n" + prog
                k = 0
            lines.append("NEW")
            texts = {}
            if pre and lib:
                # the functions come from a library file loaded earlier; they fail later, when called from another text
                fno += 1; lname = "c16_%d_lib.lisp" % fno
                lines.append("LOADFILE %s %s" % (lname, C.esc(pre)))
                texts.setdefault(os.path.join(SCRATCH, lname), []).append(pre)
            elif pre:
                lines.append("EVAL " + C.esc(pre))
                texts.setdefault("<eval_string>", []).append(pre)
            lines.append("FAILAT %d" % k)
            if how == "string":
                lines.append("ERRFMT " + C.esc(this_prog)); fname = "<eval_string>"
            elif how == "file":
                fno += 1; name = "c16_%d.lisp" % fno
                lines.append("ERRFMTFILE %s %s" % (name, C.esc(this_prog))); fname = os.path.join(SCRATCH, name)
            else:
                fno += 1; name = "c16_%d.lisp" % fno; outer = "c16_%d_outer.lisp" % fno
                lines.append("WRITEFILE %s %s" % (name, C.esc(this_prog)))
                lines.append("ERRFMTFILE %s %s" % (outer, C.esc("(progn\n  (load \"%s\"))" % os.path.join(SCRATCH, name))))
                fname = os.path.join(SCRATCH, name)
            texts.setdefault(fname, []).append(this_prog)
            if how == "nested":
                texts.setdefault(os.path.join(SCRATCH, outer), []).append("(progn\n  (load \"%s\"))" % os.path.join(SCRATCH, name))
            meta.append((len(lines) - 1, this_prog, fname, how, texts))
            lines.append("TICKS")
    return {"lines": lines, "meta": {"entries": meta}, "distribution": {"programs": nprog, "fault_runs": len(meta)}}

ENTRY = re.compile(r"^(.*):(\d+)\.(\d+)-(\d+)\.(\d+):  at (.*)$")

def ignore_line(l):
    return False

def normalize(line, ans):
    # the model does not render messages: compare error-ness only
    if line.startswith("ERRFMT"):
        return "ERR" if ans.startswith("ERR") else ans
    return ans

def oracle(lines, impl, model, meta):
    bad = []
    entries = meta.get("entries", [])
    progs = sorted({t for e in entries for ts in e[4].values() for t in ts})
    sp_ans = C.run_resilient(C.MODEL_BIN, ["SPANS " + C.esc(p) for p in progs], model=True)
    spans = {}
    for p, a in zip(progs, sp_ans):
        s = set()
        for m in re.finditer(r"([lyoq]):(\d+)\.(\d+)-(\d+)\.(\d+)", a or ""):
            s.add((int(m.group(2)), int(m.group(3)), int(m.group(4)), int(m.group(5))))
        spans[p] = s
    nlocated = 0
    for (idx, prog, fname, how, texts) in entries:
        a = impl[idx] or ""
        case = []
        j = idx
        while j >= 0 and lines[j] != "NEW": j -= 1
        case = lines[j:idx + 2]
        if a.startswith("PANIC"):
            bad.append(("rendering or evaluating panicked", case, idx - j, a, None)); continue
        if not a.startswith("ERR "):
            continue            # the k-th tick was not reached as a failure (e.g. an earlier error): nothing to locate
        msg = a[4:].replace("\\\\", "\x00").replace("\\n", "\n").replace("\x00", "\\")
        rows = [r for r in msg.split("\n")[1:] if r]
        ents = []
        for r in rows:
            m = ENTRY.match(r)
            if not m:
                continue
            ents.append((m.group(1), int(m.group(2)), int(m.group(3)), int(m.group(4)), int(m.group(5)), m.group(6)))
        if len(ents) >= 2: nlocated += 1
        # every entry: a text that was evaluated, start < end, the extent of a form written in (one of) the text(s) of that name
        flagged = False
        for e in ents:
            if e[0] not in texts:
                bad.append(("entry names a text that was not evaluated: %s" % e[0], case, idx - j, a, None)); flagged = True; break
            if not ((e[1], e[2]) < (e[3], e[4])):
                bad.append(("entry with start >= end: %s" % (e,), case, idx - j, a, None)); flagged = True; break
            if not any((e[1], e[2], e[3], e[4]) in spans[t] for t in texts[e[0]]):
                bad.append(("entry extent %d.%d-%d.%d is not the extent of a form of the text %s" % (e[1:5] + (e[0],)), case, idx - j, a, None)); flagged = True; break
        if flagged or "tick failure" not in msg.split("\n")[0]:
            continue
        # which tick failed: the last one logged; the generator knows where that call is written
        tl = impl[idx + 1] or ""
        ids = [x for x in tl[6:].split(",") if x]
        if not ids: continue
        tid = ids[-1]
        where = [(n, t) for n, ts in texts.items() for t in ts if ("(tick %s)" % tid) in t]
        if len(where) != 1 or where[0][1].count("(tick %s)" % tid) != 1: continue
        wname, wtext = where[0]
        off = wtext.find("(tick %s)" % tid)
        exp_s = pos_of(wtext, off); exp_e = pos_of(wtext, off + len("(tick %s)" % tid))
        if not ents:
            bad.append(("no located entry for a failing host call", case, idx - j, a, None))
        elif ents[0][0] != wname or (ents[0][1], ents[0][2]) != exp_s or (ents[0][3], ents[0][4]) != exp_e:
            bad.append(("innermost entry %s:%d.%d-%d.%d is not the failing call (tick %s) at %s:%d.%d-%d.%d"
                        % (ents[0][0:5] + (tid, wname) + exp_s + exp_e), case, idx - j, a, None))
    meta["located"] = nlocated
    return bad

def count_nontrivial(lines, impl, model):
    return len({l for i, l in enumerate(lines) if l.startswith("ERRFMT") and (impl[i] or "").count(":  at ") >= 2})
