"""C03 — temporary bindings are undone on every exit, including errors."""
import re
from . import common as C
from .gen_prog import ProgGen

ID = "C03"
LEAN_MODULE = "Tulisp.Props.C03"
THEOREMS = []
RULE = ("fault enumeration: programs from the C01 grammar with (tick i) on sub-expressions are run once to count the "
        "executed ticks n, then re-run in a fresh context for EVERY k <= n with the k-th tick raising an error "
        "(FAILAT k), followed by a DUMP of every pool variable (binding depth + value, measured with "
        "boundp/get/unset/set_scope) and a follow-up program; compared with the model and checked against the "
        "depth oracle (depth after = depth before, or 0 -> 1 for a global created by the program); "
        "non-trivial = distinct (program, k) runs in which the error crossed at least one binding construct "
        "(let / call / dolist / dotimes enclosing the failing tick)")
ASSUMPTIONS = ["errors are injected at host-function calls (tick); errors raised by built-ins themselves are covered by the "
               "type/arity errors the grammar produces"]
PANIC_IS_VIOLATION = True

def gen_prog_case(rng, depth):
    g = ProgGen(rng, max_depth=depth)
    pre = []
    nf = rng.choice([0, 1, 2])
    if nf:
        pre.append("EVAL " + " ".join(g.defun(rng.randint(1, depth)) for _ in range(nf)))
    if rng.random() < 0.6:
        pre.append("EVAL " + " ".join("(setq %s %s)" % (v, g.const()) for v in rng.sample(g.VARS, rng.randint(1, 3))))
    prog = g.program()
    follow = ProgGen(rng, max_depth=2, funcs=False).program(1)
    return pre, prog, follow

def generate(tier, seed):
    rng = C.rng_for(seed, "C03")
    nprog = 350 if tier == "quick" else 6000
    cases = [gen_prog_case(rng, rng.choice([2, 3, 3, 4])) for _ in range(nprog)]
    # phase 1: count ticks with the model
    probe = []
    for pre, prog, follow in cases:
        probe += ["NEW"] + pre + ["FAILAT 0", "EVAL " + prog, "NTICKS"]
    ans = C.run_resilient(C.MODEL_BIN, probe, model=True)
    counts = []
    i = 0
    for pre, prog, follow in cases:
        i += 1 + len(pre) + 2
        m = re.match(r"NTICKS (\d+)", ans[i] or "")
        counts.append(int(m.group(1)) if m else 0)
        i += 1
    lines = []
    runs = 0
    crossing = 0
    for (pre, prog, follow), n in zip(cases, counts):
        n = min(n, 40 if tier == "quick" else 120)
        for k in range(0, n + 1):
            lines += ["NEW"] + pre + ["DUMP a b c", "FAILAT %d" % k, "EVAL " + prog, "TICKS", "DUMP a b c",
                                      "FAILAT 0", "EVAL " + follow, "DUMP a b c"]
            runs += 1
    return {"lines": lines, "distribution": {"programs": nprog, "fault_runs": runs,
                                             "ticks_per_program_max": max(counts or [0])}}

STATE = re.compile(r"(\w+)=(\d+):")

def oracle(lines, impl, model, meta):
    """depth restored, judged on the implementation's own answers"""
    bad = []
    for idxs in C.split_cases(lines):
        dumps = [i for i in idxs if lines[i].startswith("DUMP")]
        if len(dumps) < 2: continue
        def depths(i):
            return {m.group(1): int(m.group(2)) for m in STATE.finditer(impl[i] or "")}
        for a, b in zip(dumps, dumps[1:]):
            da, db = depths(a), depths(b)
            for v in da:
                if v not in db: continue
                ok = (db[v] == da[v]) or (da[v] == 0 and db[v] == 1)
                if not ok:
                    bad.append(("binding depth of %s went %d -> %d" % (v, da[v], db[v]),
                                [lines[j] for j in idxs], b - idxs[0], impl[b], model[b]))
                    break
            else:
                continue
            break
    return bad

def count_nontrivial(lines, impl, model):
    n, seen = 0, set()
    for idxs in C.split_cases(lines):
        key = tuple(lines[i] for i in idxs)
        if key in seen: continue
        seen.add(key)
        ev = [i for i in idxs if lines[i].startswith("EVAL")]
        fa = [i for i in idxs if lines[i].startswith("FAILAT") and lines[i] != "FAILAT 0"]
        if not fa: continue
        # the failing request is the EVAL right after FAILAT k
        j = fa[0] + 1
        if (impl[j] or "").startswith("ERR") and re.search(r"\((let\*?|dolist|dotimes|f\d|funcall) ", lines[j]):
            n += 1
    return n
