"""C03 — temporary bindings are undone on every exit, including errors."""
import re
from . import common as C
from .gen_prog import ProgGen

ID = "C03"
LEAN_MODULE = "Tulisp.Props.C03"
THEOREMS = []
RULE = ("fault enumeration: programs from the C01 grammar with (tick i) on sub-expressions are run once to count the "
        "executed ticks n, then re-run in a fresh context for EVERY k <= n with the k-th tick raising an error "
        "(FAILAT k), followed by a DUMP of every pool variable (binding depth + value, measured with "
        "boundp/get/unset/set_scope) and a follow-up program; compared with the model and checked against the "
        "depth oracle (depth after = depth before, or 0 -> 1 for a global created by the program); "
        "non-trivial = distinct (program, k) runs in which the error crossed at least one binding construct "
        "(let / call / dolist / dotimes enclosing the failing tick)")
ASSUMPTIONS = ["errors are injected at host-function calls (tick); errors raised by built-ins themselves are covered by the "
               "type/arity errors the grammar produces"]
PANIC_IS_VIOLATION = True

def gen_prog_case(rng, depth):
    g = ProgGen(rng, max_depth=depth)
    pre = []
    nf = rng.choice([0, 1, 2])
    if nf:
        pre.append("EVAL " + " ".join(g.defun(rng.randint(1, depth)) for _ in range(nf)))
    if rng.random() < 0.6:
        pre.append("EVAL " + " ".join("(setq %s %s)" % (v, g.const()) for v in rng.sample(g.VARS, rng.randint(1, 3))))
    prog = g.program()
    if rng.random() < 0.3:
        # a user macro with parameters named like the pool variables, ticking while it expands; its calls are
        # expanded while the program text is read, so the error is raised inside the macro call at read time
        pre.append("EVAL (defmacro mm (a &optional b) (tick 60) (list 'progn (tick 61) a b))")
        prog = "(list (mm %s %s) %s)" % (g.expr(1), g.expr(1), prog)
    follow = ProgGen(rng, max_depth=2, funcs=False).program(1)
    return pre, prog, follow

# errors raised by the binding construct itself (ill-typed count / sequence, malformed binding lists, arity and
# parameter-list errors, a failing predicate ...), at every stage of the construct, rather than by a sub-expression
BAD = ["2.5", "nil", "\"s\"", "'(1)", "'q", "(car 5)", "novar", "'(1 . 2)", "5", ":k", "t", "-1", "(list 1 2)"]
def own_error_forms():
    out = []
    for x in BAD:
        out += ["(dotimes (a %s) (tick 1))" % x, "(dotimes (a 2 %s) (tick 1))" % x, "(dolist (a %s) (tick 1))" % x,
                "(dolist (a '(1 2) %s) (tick 1))" % x, "(dotimes (a 3) (dotimes (b %s) (tick 1)))" % x,
                "(let ((a 1) (b %s)) (tick 1))" % x, "(let* ((a 1) (b %s)) (tick 1))" % x, "(let ((a 1) %s) (tick 1))" % x,
                "(let* ((a 1) %s) (tick 1))" % x, "(let ((a 1) (%s 2)) (tick 1))" % x, "(let* ((a 1) (%s 2)) (tick 1))" % x,
                "(let ((a 1)) (car %s))" % x, "(let ((a 1)) (let ((b 2)) (dolist (c %s) c)))" % x,
                "(fa 1 %s)" % x, "(fa %s)" % x, "(funcall 'fa 1 2 %s)" % x, "(fb %s)" % x, "(funcall 'fb %s 1)" % x,
                "(mapcar 'fb (list 1 %s))" % x, "(seq-map 'fb (list 1 %s))" % x, "(seq-filter 'fb (list 1 %s))" % x,
                "(seq-find 'fb (list 1 %s))" % x, "(seq-reduce (lambda (a b) (car b)) (list %s) 0)" % x,
                "(sort (list 3 1 2) (lambda (a b) (< a %s)))" % x, "(funcall (lambda (a &optional b) (car %s)) 1)" % x,
                "(mc 1 %s)" % x, "(macroexpand '(mc 1 %s))" % x, "(if-let ((a 1) (b %s)) (car a) (car 5))" % x,
                "(when-let ((a 1) (b %s)) (car a))" % x, "(if-let* ((a 1) (b %s)) (car a))" % x,
                "(while-let ((a %s)) (car a))" % x.replace("'(1)", "nil").replace("(list 1 2)", "nil").replace("'(1 . 2)", "nil").replace("5", "nil").replace("t", "nil").replace("2.nil", "nil").replace("\"s\"", "nil").replace("-1", "nil").replace(":k", "nil").replace("'q", "nil"),
                "(eval '(let ((a 1)) (dotimes (b %s) b)))" % x]
    out += ["(progn (defun stub (a &optional b &rest c)) (stub 1 2 3))", "(progn (defun stub (a b)) (list (stub 1 2) (stub 3 4)))", "(funcall (lambda (a b c)) 1 2 3)",
            "(mapcar (lambda (a)) '(1 2 3))", "(progn (defmacro ms (a b)) (ms 1 2))", "(progn (defun stub (a) \"doc only\") (stub 5))", "(progn (defun stub (a) (declare (x))) (stub 5))",
            "(seq-reduce (lambda (a b)) '(1 2) 0)", "(sort (list 2 1) (lambda (a b)))", "(progn (defun stub (&rest c)) (stub 1 2))", "(progn (defun stub (&optional a)) (stub))",
            "(funcall (lambda (a)) (car 5))", "(progn (defun stub (a b)) (stub 1))", "(let ((a 'outer)) (funcall (lambda (a)) 1) a)", "(progn (defun stub (a)) (stub 1) (stub 2) (boundp 'a))"]
    out += ["(progn (defun rp (a b a) b) (rp 1 2 3))", "(funcall (lambda (a &optional a) a) 1)", "(funcall (lambda (a &optional a) a) 1 2)", "(funcall (lambda (b &rest b) b) 1 2 3)",
            "(progn (defmacro rpm (c c) (list 'quote c)) (rpm 1 2))", "(progn (defun rp (a a) (car 5)) (rp 1 2))", "(mapcar (lambda (a a)) '(1))", "(progn (defun rp (a b a b) (list a b)) (rp 1 2 3 4) (rp 5 6 7 8))",
            "(let ((a 'outer)) (funcall (lambda (a a a) a) 1 2 3) a)"]
    out += ["(progn (let ((a 5)) (eval (list 'defun 'a nil 42))) (list (a) (boundp 'a)))", "(progn (let ((b 5)) (eval (list 'defmacro 'b nil 43)) b) (b))",
            "(progn (defmacro mkfn (nm) (list 'defun nm nil ''made)) (let ((c 1)) (mkfn c) c) (c))", "(progn (defun inst (a) (eval (list 'defun 'a nil a)) (car 5)) (inst 7))",
            "(progn (dolist (a '(1 2)) (eval (list 'defun 'a nil a))) (a))", "(progn (dotimes (b 2) (eval (list 'defun 'b '(x) 'x))) (b 9))",
            "(progn (funcall (lambda (c) (eval (list 'defmacro 'c '(x) 'x))) 3) (c 4))", "(progn (let* ((a 1) (b 2)) (eval (list 'defun 'a nil 'b)) (eval (list 'defun 'b nil ''bb)) (list a b)) (list (a) (b)))",
            "(let ((a 1)) (let ((a 2)) (eval (list 'defun 'a nil 3))) a)"]
    out += ["(progn (defun tw (a b) (if (< a 1) b (tw (- a 1)))) (tw 2 'x))", "(progn (defun tw (a b) (if (< a 1) b (tw (- a 1) b 'extra))) (tw 2 'x))", "(progn (defun tw (a &optional b) (cond ((< a 1) b) (t (tw (- a 1) b 1 2)))) (tw 3))",
            "(progn (defun tw (a b c) (if (< a 1) (list b c) (progn (setq c (cons a c)) (if (equal a 1) (tw 0) (tw (- a 1) b c))))) (tw 3 'x nil))", "(progn (defun tw (a b) (if (< a 1) (car 5) (tw (- a 1) (cons a b)))) (tw 3 nil))",
            "(progn (defun tw (a b) (let ((c 1)) (if (< a 1) (nosuchfn) (tw (- a c) b)))) (tw 2 'x))", "(progn (defun tw (a) (if (< a 1) novar (tw (- a 1)))) (mapcar 'tw '(0 2)))"]
    out += ["(dotimes (a) 1)", "(dotimes a 1)", "(dotimes (a 2 3 4) 1)", "(dotimes (a 2 . 3) 1)", "(dotimes (a . 2) 1)", "(dotimes)",
            "(dolist (a) 1)", "(dolist a 1)", "(dolist (a '(1) 3 4) 1)", "(dolist (a '(1) . 3) 1)", "(dolist (a . 2) 1)", "(dolist)",
            "(dotimes (a 2) . 5)", "(dolist (a '(1 2)) . 5)", "(let ((a 1)) . 5)", "(let* ((a 1)) . 5)", "(let ((a 1) . 5) 1)",
            "(let ((a 1) (b 2 3)) 1)", "(let* ((a 1) (b 2 3)) 1)", "(let ((a 1) (b . 2)) 1)", "(let* ((a 1) (b . 2)) a)",
            "(fa)", "(fa 1 2 3 4)", "(fc 1)", "(fc)", "(funcall 'fa)", "(mc)", "(mc 1 2 3)", "(funcall (lambda (a :k) a) 1 2)",
            "(funcall (lambda (a &optional) a) 1)", "(funcall (lambda (a &rest) a) 1)", "(funcall (lambda (a b) a) 1)",
            "(funcall (lambda (a &rest b c) a) 1 2 3)", "(funcall (lambda (a 5) a) 1 2)"]
    return out

OWN_PRE = ["EVAL (defun fa (a &optional b &rest c) (car b))", "EVAL (defun fb (a) (car a))", "EVAL (defun fc (a b) (car 5))",
           "EVAL (defmacro mc (a b) (list 'car b))"]

def generate(tier, seed):
    rng = C.rng_for(seed, "C03")
    nprog = 800 if tier == "quick" else 25000
    cases = [gen_prog_case(rng, rng.choice([2, 3, 3, 4])) for _ in range(nprog)]
    # phase 1: count ticks with the model
    probe = []
    for pre, prog, follow in cases:
        probe += ["NEW"] + pre + ["FAILAT 0", "EVAL " + prog, "NTICKS"]
    ans = C.run_resilient(C.MODEL_BIN, probe, model=True)
    counts = []
    i = 0
    for pre, prog, follow in cases:
        i += 1 + len(pre) + 2
        m = re.match(r"NTICKS (\d+)", ans[i] or "")
        counts.append(int(m.group(1)) if m else 0)
        i += 1
    lines = []
    runs = 0
    crossing = 0
    for (pre, prog, follow), n in zip(cases, counts):
        n = min(n, 40 if tier == "quick" else 120)
        for k in range(0, n + 1):
            lines += ["NEW"] + pre + ["DUMP a b c", "FAILAT %d" % k, "EVAL " + prog, "TICKS", "DUMP a b c", "INVENTORY diff",
                                      "FAILAT 0", "EVAL " + follow, "DUMP a b c"]
            runs += 1
    own = own_error_forms()
    for globals_first in (True, False):
        for f in own:
            lines += ["NEW"] + OWN_PRE + (["EVAL (setq a 7) (setq b 8) (setq c 9)"] if globals_first else []) + \
                     ["DUMP a b c", "EVAL " + f, "DUMP a b c", "INVENTORY diff", "EVAL (list (boundp 'a) (boundp 'b) (boundp 'c))", "DUMP a b c"]
    return {"lines": lines, "distribution": {"programs": nprog, "fault_runs": runs, "own_error_forms": 2 * len(own),
                                             "ticks_per_program_max": max(counts or [0])}}

STATE = re.compile(r"(\w+)=(\d+):")

def oracle(lines, impl, model, meta):
    """depth restored, judged on the implementation's own answers"""
    bad = []
    for idxs in C.split_cases(lines):
        dumps = [i for i in idxs if lines[i].startswith("DUMP")]
        if len(dumps) < 2: continue
        def depths(i):
            return {m.group(1): int(m.group(2)) for m in STATE.finditer(impl[i] or "")}
        for a, b in zip(dumps, dumps[1:]):
            da, db = depths(a), depths(b)
            for v in da:
                if v not in db: continue
                ok = (db[v] == da[v]) or (da[v] == 0 and db[v] == 1)
                if not ok:
                    bad.append(("binding depth of %s went %d -> %d" % (v, da[v], db[v]),
                                [lines[j] for j in idxs], b - idxs[0], impl[b], model[b]))
                    break
            else:
                continue
            break
    return bad

def count_nontrivial(lines, impl, model):
    n, seen = 0, set()
    for idxs in C.split_cases(lines):
        key = tuple(lines[i] for i in idxs)
        if key in seen: continue
        seen.add(key)
        ev = [i for i in idxs if lines[i].startswith("EVAL")]
        fa = [i for i in idxs if lines[i].startswith("FAILAT") and lines[i] != "FAILAT 0"]
        if not fa: continue
        # the failing request is the EVAL right after FAILAT k
        j = fa[0] + 1
        if (impl[j] or "").startswith("ERR") and re.search(r"\((let\*?|dolist|dotimes|f\d|funcall) ", lines[j]):
            n += 1
    return n
