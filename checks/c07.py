"""C07 — backquote builds exactly the specified structure, freshly."""
import itertools
from . import common as C

ID = "C07"
LEAN_MODULE = "Tulisp.Props.C07"
THEOREMS = []
RULE = ("all templates with up to 4 items over {atom, sub-list, unquote, splice, quote-wrapped unquote, nested template} "
        "with an optional dotted-tail unquote, plus random deeper ones, with spliced values nil / one element / many / "
        "improper; each template value is compared with the model and, inside the same request, with the equivalent "
        "list/cons/append construction (equal); unquoted parts carry (tick i) (once each, left to right); the template is "
        "evaluated twice and the results, the template itself (held quoted in a variable) and the spliced source lists "
        "are re-read after mutating result 1 through the Rust API analogue (append onto it) — here by comparing the "
        "second evaluation and the sources with the model; non-trivial = distinct templates containing at least one "
        "unquote or splice")
ASSUMPTIONS = []

ITEMS = ["(twice ,x)", "(twice a)", "'(twice ,x)", ",@l4", ",d1", ",(car l4)", "(w ,@l4)", "a", "1", '"s"', "(b c)", ",(tick 1)", ",x", ",@l0", ",@l1", ",@l3", "',x", "(d ,x)", "(e ,@l3 f)", ",@(progn (tick 2) l3)", "`(n ,x)", ",(list x x)", "()",
         "(b . ,x)", "(b ',x)", "(c '(d ,@l3))", "(g (h . ,l3))", "(k `(m ,x))", "((n) . ,x)", "(lit 1 2)", "(o (p ',x) q)", "(r . ,(tick 3))", "#',x", "#'(lambda (q) ,x)", "(mapcar #',x ',l3)", "#'(f ,@l3)", "'#',x"]

def construction(items, tail):
    """the list/cons/append construction equivalent to the template"""
    parts = []
    for it in items:
        if it.startswith(",@"): parts.append(it[2:])
        elif it.startswith(","): parts.append("(list %s)" % it[1:])
        elif it.startswith("',"): return None     # a quote mark is a wrapper object in tulisp, not the list (quote x)
        elif it == "(d ,x)": parts.append("(list (list 'd x))")
        elif it == "(e ,@l3 f)": parts.append("(list (append '(e) l3 '(f)))")
        elif it == "`(n ,x)": return None
        elif it == ",(list x x)": parts.append("(list (list x x))")
        elif it == "(b . ,x)": parts.append("(list (cons 'b x))")
        elif it == "(g (h . ,l3))": parts.append("(list (list 'g (cons 'h l3)))")
        elif it == "((n) . ,x)": parts.append("(list (cons '(n) x))")
        elif it.startswith("#'") or it.startswith("'#'") or "#'," in it: return None
        elif it in ("(b ',x)", "(c '(d ,@l3))", "(k `(m ,x))", "(o (p ',x) q)", "(r . ,(tick 3))"): return None
        elif it == "(twice ,x)": parts.append("(list (list 'twice x))")
        elif it == "(twice a)": parts.append("'((twice a))")
        elif it == "'(twice ,x)": return None
        elif it == ",@l4": parts.append("l4")
        elif it == ",d1": parts.append("(list d1)")
        elif it == ",(car l4)": parts.append("(list (car l4))")
        elif it == "(w ,@l4)": parts.append("(list (append '(w) l4))")
        else: parts.append("'(%s)" % it)
    t = "nil" if tail is None else tail[1:] if tail.startswith(",") else "'" + tail
    return "(append %s %s)" % (" ".join(parts), t)

def generate(tier, seed):
    rng = C.rng_for(seed, "C07")
    temps = []
    maxn = 3 if tier == "quick" else 4
    for n in range(0, maxn + 1):
        combos = list(itertools.product(ITEMS, repeat=n))
        lim = 5000 if tier == "quick" else 100000
        if len(combos) > lim: combos = rng.sample(combos, lim)
        for t in combos:
            for tail in ([None] if rng.random() < 0.7 else [None, ",x", ",l3", "z", ",(tick 9)"]):
                if n == 0 and tail: continue
                temps.append((list(t), tail))
    for _ in range(1500 if tier == "quick" else 40000):
        n = rng.randint(4, 8)
        temps.append(([rng.choice(ITEMS) for _ in range(n)], rng.choice([None, None, ",x", ",l1"])))
    lines = []
    nt = set()
    setup = "(setq x 'vx) (setq l0 nil) (setq l1 '(one)) (setq l3 '(p q r)) (setq li '(i . j)) (setq n 0) (setq l4 '((a ,(setq n (+ n 1))) `(b ,@l1) ',x ,@l3 (c . ,x))) (setq d1 ',(setq n (+ n 10))) (defmacro twice (x) (list 'progn x x))"
    for items, tail in temps:
        txt = "(" + " ".join(items) + (" . " + tail if tail else "") + ")"
        if any("," in i for i in items) or (tail and "," in tail): nt.add(txt)
        lines += ["NEW", "EVAL " + setup, "EVAL `" + txt, "TICKS"]
        cons = construction(items, tail)
        if cons and "tick" not in txt:
            lines.append("EVAL (equal `%s %s)" % (txt, cons))
        lines += ["EVAL (setq tpl '`%s) (setq r1 (eval tpl)) (setq r2 (eval tpl)) (list (equal r1 r2) r2)" % txt.replace("(tick", "(progn"),
                  "EVAL (list x l0 l1 l3 tpl n l4 d1)"]
        if items and rng.random() < 0.5:      # (the empty template evaluates to its own literal nil, like a quoted constant)
            # result 1 (and a list nested in it) is extended IN PLACE through the Rust API; the template, the spliced lists, result 2 and
            # a fresh evaluation must be what they were (results share no cell — not even the terminating nil — with the template or each other)
            # (literal elements of a template are shared with its results, as in Emacs: only lists the evaluation BUILDS are pushed onto —
            # the result itself and sub-lists that contain an unquote)
            idx, nested = 0, []
            for it in items:
                if it in ("(d ,x)", "(e ,@l3 f)"): nested.append(idx)
                idx += {",@l0": 0, ",@l1": 1, ",@l3": 3, ",@(progn (tick 2) l3)": 3, ",@l4": 5}.get(it, 1)
            if nested:
                lines.append("PUSHVAR r1 %sa 78" % ("d" * rng.choice(nested)))
            lines += ["PUSHVAR r1 - 77", "EVAL (list r2 (eval tpl) x l0 l1 l3 tpl)", "PUSHVAR r2 - 79", "EVAL (list (eval tpl) x l0 l1 l3 tpl)"]
        if rng.random() < 0.3:
            # the same template inside a closure that captured x, l1, l3 and is called after the let has exited (the globals
            # of the same names hold other values): every unquoted part, also under quote marks and in the dotted tail,
            # sees the captured value
            binds = "(x 'cx) (l1 '(c1)) (l3 '(cp cq))"
            t2 = txt.replace("(tick", "(progn")
            lines += ["EVAL (setq cl (let (%s) (lambda () `%s))) 'made" % (binds, t2),
                      "EVAL (funcall cl)",
                      "EVAL (equal (funcall cl) (let (%s) `%s))" % (binds, t2)]
        if rng.random() < 0.3:
            lines += ["EVAL `(,@li)", "EVAL `(a ,@li b)", "EVAL `(a . ,@l3)", "EVAL `,x", "EVAL `,@l3", "EVAL `(1 . (2 ,x))"]
    return {"lines": lines, "nontrivial": len(nt), "distribution": {"templates": len(temps)}}

def oracle(lines, impl, model, meta):
    """the property itself, on the implementation's answers: template value equal to the construction,
    second evaluation equal to the first"""
    bad = []
    for idxs in C.split_cases(lines):
        for i in idxs:
            l, a = lines[i], impl[i] or ""
            if l.startswith("EVAL (equal `") and a != "OK t" and not a.startswith("ERR"):
                bad.append(("template differs from its list/append construction", [lines[j] for j in idxs], i - idxs[0], a, model[i]))
                break
            if l.startswith("EVAL (equal (funcall cl)") and a != "OK t" and not a.startswith("ERR"):
                bad.append(("template inside a closure differs from the template under a let with the captured values", [lines[j] for j in idxs], i - idxs[0], a, model[i]))
                break
            if l.startswith("EVAL (setq tpl ") and a.startswith("OK (nil"):
                bad.append(("second evaluation of the template differs from the first", [lines[j] for j in idxs], i - idxs[0], a, model[i]))
                break
    return bad

def ignore_line(l):
    return False
