"""C18 — list operations need stack space independent of list length."""
from . import common as C

ID = "C18"
LEAN_MODULE = "Tulisp.Props.C18"
THEOREMS = []
PROFILES = ["release", "dev"]
ENV = {"HARNESS_STACK_KIB": "512", "VERIF_STALL": "400"}
PAR_MIN = 0          # few, heavy requests: always run in parallel chunks
JOBS = {"quick": 8, "thorough": 8}
RULE = ("every list-consuming operation (build by tail recursion and by list/mapcar/backquote, length, nth, nthcdr, last, "
        "copy, append, equal on equal and on differing lists, printing, an error message about the list, mapcar, seq-map, "
        "seq-filter, seq-reduce, seq-find, sort, assoc, alist-get, plist-get, backquote splice, dolist, discarding) on "
        "lists of n and 2n elements with n = 10^5 (quick) / 5*10^5 (thorough) for the linear operations and 10^4 / 2*10^4 "
        "for the quadratic builders, on a worker thread with a fixed 512 KiB stack, in both build profiles; completion "
        "without abort and the expected result (computed independently) are required; the same operations at n = 300 are "
        "compared with the model, whose list functions iterate along the spine at constant depth (theorems); "
        "non-trivial = distinct (operation, n) runs that completed on a list of >= 10^4 elements")
ASSUMPTIONS = ["bytes of host stack per unit of model depth are measured (completion on a small stack), not proved"]
TIMEOUT = {"quick": 900, "thorough": 3000}

BUILD = "(defun build (n acc) (if (equal n 0) acc (build (- n 1) (cons n acc))))"
PAIRS = "(defun bpairs (n acc) (if (equal n 0) acc (bpairs (- n 1) (cons (cons n n) acc))))"
PL = "(defun bpl (n acc) (if (equal n 0) acc (bpl (- n 1) (cons n (cons (* n 2) acc)))))"

def ops(n):
    """(name, setup requests, request, expected canonical answer or None)"""
    h = n // 2
    return [
        ("build", [], "(length (build %d nil))" % n, "OK %d" % n),
        ("length", ["(setq big (build %d nil))" % n], "(length big)", "OK %d" % n),
        ("nth", ["(setq big (build %d nil))" % n], "(nth %d big)" % (n - 1), "OK %d" % n),
        ("nthcdr", ["(setq big (build %d nil))" % n], "(length (nthcdr %d big))" % h, "OK %d" % (n - h)),
        ("last", ["(setq big (build %d nil))" % n], "(last big)", "OK (%d)" % n),
        ("last-n", ["(setq big (build %d nil))" % n], "(length (last big %d))" % h, "OK %d" % h),
        ("equal-same", ["(setq big (build %d nil))" % n, "(setq big2 (build %d nil))" % n], "(equal big big2)", "OK t"),
        ("print", ["(setq big (build %d nil))" % n], "(length (prin1-to-string big))", None),
        ("format", ["(setq big (build %d nil))" % n], "(length (format \"%S\" big))", None),
        ("error-arith", ["(setq big (build %d nil))" % n], "(+ 1 big)", "ERR"),
        ("error-mod", ["(setq big (build %d nil))" % n], "(mod big 2)", "ERR"),
        ("error-call", ["(setq big (build %d nil))" % n], "(funcall big 1)", "ERR"),
        ("error-nth", ["(setq big (build %d nil))" % n], "(nth big big)", "ERR"),
        ("seq-reduce", ["(setq big (build %d nil))" % n], "(seq-reduce '+ big 0)", "OK %d" % (n * (n + 1) // 2)),
        ("seq-find", ["(setq big (build %d nil))" % n], "(seq-find (lambda (x) (equal x %d)) big)" % n, "OK %d" % n),
        ("sort", ["(setq big (build %d nil))" % n], "(car (sort big '>))", "OK %d" % n),
        ("assoc", ["(setq al (bpairs %d nil))" % n], "(assoc %d al)" % n, "OK (%d . %d)" % (n, n)),
        ("assoc-testfn", ["(setq al (bpairs %d nil))" % n], "(assoc %d al 'equal)" % n, "OK (%d . %d)" % (n, n)),
        ("alist-get", ["(setq al (bpairs %d nil))" % n], "(alist-get %d al)" % n, "OK %d" % n),
        ("alist-miss", ["(setq al (bpairs %d nil))" % n], "(alist-get 'zz al 'dflt)", "OK y:dflt"),
        ("plist-get", ["(setq pl (bpl %d nil))" % n, "(setq key (nth %d pl))" % (2 * n - 2)], "(plist-get pl key)", "OK %d" % (2 * n)),
        ("dolist", ["(setq big (build %d nil))" % n], "(let ((s 0)) (dolist (x big s) (setq s (+ s x))))", "OK %d" % (n * (n + 1) // 2)),
        ("discard", ["(setq big (build %d nil))" % n], "(progn (setq big nil) 'gone)", "OK y:gone"),
        ("discard-record", ["(setq rec (list 'name 1 (build %d nil)))" % n], "(progn (setq rec nil) 'gone)", "OK y:gone"),
        ("discard-alist", ["(setq al2 (list (cons 'a 1) (cons 'b (build %d nil)) (cons 'c (build %d nil))))" % (n, n)], "(progn (setq al2 'x) 'gone)", "OK y:gone"),
        ("discard-let", [], "(let ((r (list 1 2 (build %d nil) (build %d nil)))) (length r))" % (n, n), "OK 4"),
        ("discard-nested-ctx", ["(setq rec (list 'name (list 'inner (build %d nil))))" % n], "'kept", "OK y:kept"),
        ("discard-arg", ["(defun drop2 (a b) 'dropped)"], "(drop2 (list 0 (build %d nil)) (cons 1 (cons 2 (build %d nil))))" % (n, n), "OK y:dropped"),
        ("discard-ctx", ["(setq big (build %d nil))" % n], "'kept", "OK y:kept"),
        # lists whose elements hold (part of) the rest of the list: every cell's cdr has a second owner, the cell's own car
        ("length-selfshare", [SHARE, "(progn (setq sh (share1 (build %d nil) nil)) 'built)" % n], "(length sh)", "OK %d" % n),
        ("discard-selfshare", [SHARE, "(progn (setq sh (share1 (build %d nil) nil)) 'built)" % n], "(progn (setq sh nil) 'gone)", "OK y:gone"),
        ("discard-tails-alist", [SHARE, "(progn (setq sh (share2 (build %d nil) nil)) 'built)" % n], "(progn (setq sh nil) 'gone)", "OK y:gone"),
        ("discard-tails-records", [SHARE, "(progn (setq sh (share3 (build %d nil) nil)) 'built)" % n], "(progn (setq sh 1) 'gone)", "OK y:gone"),
    ]

SHARE = ("(progn (defun share1 (l acc) (if (null l) acc (share1 (cdr l) (cons acc acc)))) "
         "(defun share2 (l acc) (if (null l) acc (share2 (cdr l) (cons (cons (car l) acc) acc)))) "
         "(defun share3 (l acc) (if (null l) acc (share3 (cdr l) (cons (list (car l) acc 'x) acc)))) 'defined)")

def quad_ops(n):
    h = n // 2
    return [
        ("copy", ["(setq big (build %d nil))" % n], "(length (append big nil))", "OK %d" % n),
        ("append", ["(setq big (build %d nil))" % n], "(length (append big big '(x)))", "OK %d" % (2 * n + 1)),
        ("equal-differ", ["(setq big (build %d nil))" % n, "(setq big2 (append big '(x)))"], "(list (equal big big2) (equal big2 big))", "OK (nil nil)"),
        ("seq-filter", ["(setq big (build %d nil))" % n], "(length (seq-filter (lambda (x) (> x %d)) big))" % h, "OK %d" % (n - h)),
        ("eval-each", ["(setq big (build %d nil))" % n], "(length (eval (cons 'list big)))", "OK %d" % n),
        ("equal-differ-lin", ["(setq big (build %d nil))" % n, "(setq big2 (cons 0 (cdr big)))"], "(list (equal big big2) (equal big2 big))", "OK (nil nil)"),
        ("mapcar", ["(setq big (build %d nil))" % n], "(length (mapcar '1+ big))", "OK %d" % n),
        ("seq-map", ["(setq big (build %d nil))" % n], "(car (last (seq-map (lambda (x) (* x 2)) big)))", "OK %d" % (2 * n)),
        ("bq-splice", ["(setq big (build %d nil))" % n], "(length `(a ,@big b))", "OK %d" % (n + 2)),
        ("macroexpand", ["(setq big (build %d nil))" % n], "(length (macroexpand big))", "OK %d" % n),
        ("seq-filter-all", ["(setq big (build %d nil))" % n], "(length (seq-filter 'numberp big))", "OK %d" % n),
    ]

def generate(tier, seed):
    lines, expect = [], {}
    nlin = [100000] if tier == "quick" else [500000, 1000000]
    nquad = [5000] if tier == "quick" else [10000, 20000]
    plan = [(o, n) for n in [300] + nlin for o in ops(n)] + [(o, n) for n in [300] + nquad for o in quad_ops(n)]
    for (name, setup, req, exp), n in plan:
        ev = "EVAL " if n <= 1000 else "EVALBIG "     # the model is not run on the long lists
        lines += ["NEW", "EVAL " + BUILD + " " + PAIRS + " " + PL]
        lines += [ev + s for s in setup]
        lines.append(ev + req)
        expect[len(lines) - 1] = (name, n, exp)
        lines.append("NEW")          # drop the context (and the list) before the next case
    # a backquote template that is itself long (the evaluator walks the template's own spine), with unquotes near both ends
    for n in [300, 15000] + ([] if tier == "quick" else [40000]):
        tpl = "`(,x " + "1 " * n + ",x ,@(list x x))"
        lines += ["NEW", "EVAL (setq x 7)", ("EVAL " if n <= 1000 else "EVALBIG ") + "(let ((r %s)) (list (length r) (car r) (car (last r))))" % tpl]
        expect[len(lines) - 1] = ("long-template", n, "OK (%d 7 7)" % (n + 4))
        lines.append("NEW")
    for n in [0, 1, 300, 6000] + ([] if tier == "quick" else [20000]):
        lines += ["NEW", "API bigiter %d 64" % n]          # on a 64 KiB thread stack
        expect[len(lines) - 1] = ("collect-from-iterator", n, "BIG %d %d %s %d" % (n, n * (n - 1) // 2, "nil" if n == 0 else str(n - 1), n))
        lines.append("NEW")
    return {"lines": lines, "meta": {"expect": expect}, "distribution": {"runs": len(plan), "sizes": nlin + nquad}}

def ignore_line(l):
    return l.startswith("EVALBIG")

def oracle(lines, impl, model, meta):
    bad = []
    done = 0
    for i, (name, n, exp) in meta.get("expect", {}).items():
        a = impl[i] or ""
        j = i
        while j > 0 and lines[j] != "NEW": j -= 1
        case = lines[j:i + 1]
        if a in ("ABORT", "TIMEOUT") or a.startswith("PANIC") or any((impl[k] or "") in ("ABORT", "TIMEOUT") for k in range(j, i)):
            bad.append(("%s on a list of %d elements did not complete on a 512 KiB stack: %s" % (name, n, a), case, len(case) - 1, a, None))
        elif exp is not None and not (a == exp or (exp == "ERR" and a.startswith("ERR"))):
            bad.append(("%s on a list of %d elements gave %s, expected %s" % (name, n, a[:80], exp), case, len(case) - 1, a, exp))
        elif n >= 10000:
            done += 1
    meta["completed_long_runs"] = done
    return bad

def count_nontrivial(lines, impl, model):
    import re
    n = 0
    for i, l in enumerate(lines):
        if l.startswith("EVALBIG") and i + 1 < len(lines) and lines[i + 1] == "NEW" and (impl[i] or "").startswith(("OK", "ERR")):
            k = i
            while k > 0 and lines[k] != "NEW":
                m = re.search(r"\((?:build|bpairs|bpl) (\d+) nil\)", lines[k])
                if m and int(m.group(1)) >= 10000: n += 1; break
                k -= 1
    return n
