"""Grammar-directed generator of tulisp programs over the core forms (C01, C03, C16, C19, C11)."""

class ProgGen:
    def __init__(self, rng, max_depth=4, ticks=True, funcs=True, loops=True, errors=True, closures=True):
        self.rng = rng
        self.max_depth = max_depth
        self.ticks = ticks
        self.tickn = 0
        self.funcs = []          # (name, nreq, nopt, rest)
        self.use_funcs = funcs
        self.loops = loops
        self.errors = errors
        self.closures = closures
        self.wdepth = 0
        self.forms_used = {}

    VARS = ["a", "b", "c"]

    def note(self, k):
        self.forms_used[k] = self.forms_used.get(k, 0) + 1

    def tick(self):
        self.tickn += 1
        return "(tick %d)" % self.tickn

    def const(self):
        r = self.rng
        return r.choice(["0", "1", "2", "3", "-1", "7", "nil", "t", '"s"', "'x", "'(1 2)", "'a", "10", ":k", "'(a . b)", "1.5"])

    def var(self):
        return self.rng.choice(self.VARS)

    def body(self, d, n=None):
        n = n or self.rng.choice([1, 1, 2, 3])
        return " ".join(self.expr(d) for _ in range(n))

    def num(self, d):
        """an expression that is usually a number"""
        r = self.rng
        if d <= 0 or r.random() < 0.4:
            return r.choice(["0", "1", "2", "3", "5", self.var(), self.var()])
        op = r.choice(["+", "-", "*", "max", "min", "1+", "mod"])
        if op == "1+": return "(1+ %s)" % self.num(d - 1)
        if op == "mod": return "(mod %s 3)" % self.num(d - 1)
        return "(%s %s %s)" % (op, self.num(d - 1), self.num(d - 1))

    def lst(self, d):
        r = self.rng
        c = r.random()
        if d <= 0 or c < 0.4: return r.choice(["'(1 2 3)", "nil", "'(a b)", "'(4)", "(list 1 2)", self.var()])
        if c < 0.6: return "(list %s %s)" % (self.expr(d - 1), self.expr(d - 1))
        if c < 0.8: return "(cons %s %s)" % (self.expr(d - 1), self.lst(d - 1))
        return "(cdr %s)" % self.lst(d - 1)

    def call_args(self, f, d, exact=True):
        name, nreq, nopt, rest = f
        r = self.rng
        n = nreq + (r.randint(0, nopt) if nopt else 0) + (r.randint(0, 2) if rest else 0)
        if not exact and self.errors and r.random() < 0.08:
            n = max(0, n + r.choice([-1, 1, 2]))
        return " ".join(self.expr(d) for _ in range(n))

    def expr(self, d):
        e = self.expr0(d)
        if self.ticks and self.rng.random() < 0.25:
            self.note("tickwrap")
            return "(progn %s %s)" % (self.tick(), e)
        return e

    def expr0(self, d):
        r = self.rng
        if d <= 0:
            c = r.random()
            if c < 0.35: return self.var()
            if c < 0.45 and self.ticks: return self.tick()
            return self.const()
        choices = ["const", "var", "progn", "let", "let*", "setq", "set", "if", "cond", "when", "unless", "and", "or",
                   "not", "xor", "num", "list", "cmp", "eq"]
        if self.loops: choices += ["while", "dolist", "dotimes", "keep"]
        if self.use_funcs and self.funcs: choices += ["call", "call", "funcall"]
        if self.closures: choices += ["lambda", "eval"]
        k = r.choice(choices)
        self.note(k)
        d1 = d - 1
        if k == "const": return self.const()
        if k == "var": return self.var()
        if k == "progn": return "(progn %s)" % self.body(d1)
        if k in ("let", "let*"):
            nb = r.randint(0, 3)
            bs = []
            for _ in range(nb):
                v = self.var()
                c = r.random()
                if c < 0.15: bs.append(v)
                elif c < 0.25: bs.append("(%s)" % v)
                else: bs.append("(%s %s)" % (v, self.expr(d1)))
            return "(%s (%s) %s)" % (k, " ".join(bs), self.body(d1))
        if k == "setq": return "(setq %s %s)" % (self.var(), self.expr(d1))
        if k == "keep":
            # keep the current value of a variable in another one / in a list (shows whether loop variables are values)
            v, w = r.sample(self.VARS, 2)          # two different variables: (setq v (list v v)) in nested loops grows exponentially
            return r.choice(["(setq %s (cons %s (if (consp %s) %s nil)))" % (v, w, v, v), "(setq %s %s)" % (v, w),
                             "(setq %s (list %s %s))" % (v, w, v)])
        if k == "set": return "(set '%s %s)" % (self.var(), self.expr(d1))
        if k == "if":
            return "(if %s %s%s)" % (self.expr(d1), self.expr(d1), "" if r.random() < 0.2 else " " + self.body(d1, r.choice([1, 1, 2])))
        if k == "cond":
            cl = []
            for _ in range(r.randint(1, 3)):
                if r.random() < 0.15: cl.append("(%s)" % self.expr(d1))
                else: cl.append("(%s %s)" % (self.expr(d1), self.body(d1)))
            if r.random() < 0.3: cl.append("(t %s)" % self.expr(d1))
            return "(cond %s)" % " ".join(cl)
        if k in ("when", "unless"): return "(%s %s %s)" % (k, self.expr(d1), self.body(d1))
        if k in ("and", "or"):
            return "(%s %s)" % (k, " ".join(self.expr(d1) for _ in range(r.randint(0, 3)))) if r.random() > 0.05 else "(%s)" % k
        if k == "not": return "(not %s)" % self.expr(d1)
        if k == "xor": return "(xor %s %s)" % (self.expr(d1), self.expr(d1))
        if k == "num": return self.num(d1)
        if k == "list": return self.lst(d1)
        if k == "cmp": return "(%s %s %s)" % (r.choice(["<", "<=", ">", ">="]), self.num(d1), self.num(d1))
        if k == "eq": return "(equal %s %s)" % (r.choice([self.var(), "'x", "nil", "'a"]), r.choice([self.var(), "'x", "nil", "'a"])) if r.random() < 0.7 else "(eq %s %s)" % (r.choice(["'x", "nil", "'a", "t"]), r.choice(["'x", "nil", "'a"]))
        if k == "while":
            self.wdepth += 1
            w = "w%d" % self.wdepth
            n = r.randint(0, 3)
            body = self.body(d1)
            self.wdepth -= 1
            return "(let ((%s 0)) (while (< %s %d) %s (setq %s (+ %s 1))))" % (w, w, n, body, w, w)
        if k == "dolist":
            res = "" if r.random() < 0.6 else " " + self.expr(d1)
            return "(dolist (%s %s%s) %s)" % (self.var(), self.lst(d1), res, self.body(d1))
        if k == "dotimes":
            res = "" if r.random() < 0.6 else " " + self.expr(d1)
            cnt = r.choice(["0", "1", "2", "3", self.num(0)])
            return "(dotimes (%s %s%s) %s)" % (self.var(), cnt, res, self.body(d1))
        if k == "call":
            f = r.choice(self.funcs)
            return "(%s %s)" % (f[0], self.call_args(f, d1, exact=False))
        if k == "funcall":
            f = r.choice(self.funcs)
            how = r.choice(["'%s", "#'%s", "'%s"]) % f[0]
            return "(funcall %s %s)" % (how, self.call_args(f, d1, exact=False))
        if k == "lambda":
            p = r.choice(["(a)", "(b)", "()", "(a b)", "(&optional a)", "(&rest c)"])
            np = {"(a)": 1, "(b)": 1, "()": 0, "(a b)": 2, "(&optional a)": r.randint(0, 1), "(&rest c)": r.randint(0, 2)}[p]
            return "(funcall (lambda %s %s) %s)" % (p, self.body(d1), " ".join(self.expr(d1) for _ in range(np)))
        if k == "eval":
            if r.random() < 0.5: return "(eval '%s)" % self.expr(d1)
            return "(eval (list '+ %s %s))" % (self.num(d1), self.num(d1))
        return self.const()

    def defun(self, d):
        r = self.rng
        name = "f%d" % len(self.funcs)
        shape = r.choice([(0, 0, False), (1, 0, False), (2, 0, False), (1, 1, False), (0, 0, True), (1, 0, True), (0, 2, False)])
        nreq, nopt, rest = shape
        pool = ["a", "b", "c"]
        ps = pool[:nreq]
        if nopt: ps.append("&optional"); ps += pool[nreq:nreq + nopt]
        if rest: ps.append("&rest"); ps.append(pool[min(2, nreq + nopt)])
        doc = ' "doc"' if r.random() < 0.1 else ""
        text = "(defun %s (%s)%s %s)" % (name, " ".join(ps), doc, self.body(d))
        self.funcs.append((name, nreq, nopt, rest))
        return text

    def program(self, nforms=None):
        n = nforms or self.rng.choice([1, 1, 2, 3])
        return " ".join(self.expr(self.rng.randint(1, self.max_depth)) for _ in range(n))
