"""C01 — programs evaluate to the value the language semantics prescribe."""
from . import common as C
from .gen_prog import ProgGen

ID = "C01"
LEAN_MODULE = "Tulisp.Props.C01"
THEOREMS = []
RULE = ("all programs up to two (quick) / three (thorough) constructor levels over a reduced alphabet of the core forms, and random programs from a grammar over the core forms (constants, variables, quote, progn, let, let*, setq, set, "
        "if, cond, when, unless, and, or, not, xor, while, dolist, dotimes, defun, lambda, funcall, eval) with the "
        "variable pool a b c used at once as globals, let variables and parameters, 0-3 defuns that read and assign "
        "the pool dynamically, sub-expressions wrapped in (tick i); 1-4 programs per context; compared with the model "
        "on value / error, tick log and the value and binding depth of every pool variable after each request; "
        "non-trivial = distinct cases in which at least one tick was logged and at least one request returned a value")
ASSUMPTIONS = ["let binds sequentially like let* (known finding, pinned by the repository's test_lexical_binding)",
               "defun / defmacro lists are evaluated while reading (known finding, relied upon by test_defun)"]

def gen_case(rng, depth):
    g = ProgGen(rng, max_depth=depth)
    lines = ["NEW"]
    nf = rng.choice([0, 1, 2, 3])
    if nf:
        lines.append("EVAL " + " ".join(g.defun(rng.randint(1, depth)) for _ in range(nf)))
        lines.append("TICKS")
    if rng.random() < 0.5:
        lines.append("EVAL " + " ".join("(setq %s %s)" % (v, g.const()) for v in rng.sample(g.VARS, rng.randint(1, 3))))
    for k in range(rng.choice([1, 1, 2, 3, 4])):
        c = rng.random()
        if c < 0.12 and g.funcs:
            # redefine a function between requests (same arity), or store a function value in a variable
            i = rng.randrange(len(g.funcs))
            name, nreq, nopt, rest = g.funcs[i]
            ps = ["a", "b", "c"][:nreq] + (["&optional"] + ["a", "b", "c"][nreq:nreq + nopt] if nopt else []) + (["&rest", "c"] if rest else [])
            allf = g.funcs; g.funcs = allf[:i]          # only earlier functions: no recursion through the new body
            lines.append("EVAL (defun %s (%s) %s)" % (name, " ".join(ps), g.body(2)))
            g.funcs = allf
        elif c < 0.2:
            lines.append("EVAL (setq fv (lambda (a) %s))" % g.body(2))
            lines.append("EVAL (list (funcall fv %s) (funcall fv %s))" % (g.expr(1), g.expr(1)))
            lines.append("TICKS")
        lines.append("EVAL " + g.program())
        lines.append("TICKS")
        lines.append("DUMP a b c")
        if k == 0: lines.append("INVENTORY diff")
    return lines, g.forms_used

def small_programs(tier):
    """all programs up to a size bound over a reduced alphabet of the core forms (exhaustive part)"""
    atoms = ["a", "1", "nil", "(tick 1)", "'x"]
    unary = ["(not %s)", "(progn %s)", "(setq a %s)", "(let ((a %s)) a)", "(let ((b 2)) %s)", "(if %s 1)", "(when %s 2)", "(unless %s 2)",
             "(and %s)", "(or %s)", "(cond (%s))", "(f1 %s)", "(funcall 'f1 %s)", "(funcall (lambda (a) a) %s)", "(eval '%s)",
             "(dolist (a '(1 2)) %s)", "(dotimes (a 2) %s)", "(let ((w 0)) (while (< w 1) (setq w (+ w 1)) %s))", "(set 'a %s)", "(list %s)"]
    binary = ["(progn %s %s)", "(if %s %s)", "(if nil %s %s)", "(and %s %s)", "(or %s %s)", "(xor %s %s)", "(cond (%s %s))", "(let ((a %s)) %s)",
              "(let* ((a %s) (b a)) %s)", "(f2 %s %s)", "(cons %s %s)", "(dolist (a (list %s)) %s)", "(when %s %s)", "(unless %s %s)",
              "(setq a (cons %s %s))", "(let ((a 5)) (f0) %s %s)"]
    # loops whose body keeps the value of the loop variable (in a variable, a list, a closure, a let binding) and
    # reads it after later iterations: every iteration's value is a value of its own
    loops = ["(dotimes (a 3) %s)", "(dotimes (a 4 (list b c)) %s)", "(dolist (a '(1 2 3)) %s)", "(dolist (a (list 1 (list 2) 3) (list b c)) %s)",
             "(let ((w 0)) (while (< w 3) (let ((a w)) %s) (setq w (+ w 1))))", "(dotimes (a 2) (dotimes (w 2) %s))",
             "(dotimes (w 3) (let ((a w)) %s))", "(dotimes (a 3) (let ((w a)) (setq a (+ a 0)) %s))"]
    keeps = ["(setq b (cons a b))", "(setq c b) (setq b a)", "(or c (setq c a))", "(setq b (cons (lambda () a) b))", "(setq c (list a c))",
             "(if (equal a 1) (setq c a))", "(setq b (cons (+ a 0) b))", "(set 'c (cons a (if (consp c) c nil)))", "(setq c (f1 a))",
             "(let ((k a)) (setq b (cons k b)))", "(setq b (append (if (consp b) b nil) (list a)))", "(setq c `(,a . ,c))"]
    rec = []
    for l in loops:
        for k in keeps:
            rec.append("(progn (setq b nil) (setq c nil) %s (list b c (mapcar (lambda (e) (if (consp e) e (if (symbolp e) e (if (numberp e) e (funcall e))))) (if (consp b) b nil))))" % (l % k))
    recdefs = ("(defun build (n acc) (if (< n 1) acc (build (- n 1) (cons n acc)))) "
               "(defun walk (n tag) (cond ((< n 1) tag) (t (walk (- n 1) tag)))) "
               "(defun keepq (n q) (let ((m (- n 1))) (if (< n 1) (list q a) (keepq m q)))) "
               "(defun nontail (n x) (if (< n 1) (list x) (cons x (nontail (- n 1) x)))) "
               "(defun viaf (n x) (if (< n 1) x (funcall 'viaf (- n 1) (list x)))) "
               "(defun evn (n x) (if (< n 1) (list 'even x) (odd (- n 1) x))) (defun odd (n x) (if (< n 1) (list 'odd x) (evn (- n 1) x))) "
               "(defun opt (n &optional x &rest r) (if (< n 1) (list x r) (opt (- n 1) x 'k1 x))) "
               "(defun fbk (n v) (cond ((< n 1) nil) ((fbk (- n 1) v)) (t (list 'fallback n v)))) "
               "(defun fbk2 (n v) (progn (setq a (cons n a)) (cond ((< n 1) (if (equal v 'stop) v nil)) ((let ((k 1)) (fbk2 (- n k) v))) ((setq a (cons 'later a)) (list n v)))))")
    rvals = ["'tag", "'a", "'(1 2)", "'(tick 5)", "''q", "'(setq a 99)", "\"s\"", "7", "nil", "a", "'(a b)", "(list 'quote 'z)", ":k", "'nosuchvar", "`(,a)"]
    rcalls = ["(fbk %d V)", "(fbk2 %d V)", "(fbk2 %d 'stop)", "(build %d nil)", "(walk %d V)", "(keepq %d V)", "(nontail %d V)", "(viaf %d V)", "(evn %d V)", "(opt %d V)", "(opt %d V 'r1 V)",
              "(funcall 'walk %d V)", "(mapcar (lambda (e) (walk %d e)) (list V V))", "(let ((tag 'ltag) (q 'lq)) (keepq %d V))", "(walk %d (walk 1 V))"]
    for cform in rcalls:
        for n in (0, 1, 2, 3):
            for v in rvals:
                rec.append("(progn %s (setq a 'ga) (list %s a))" % (recdefs, (cform % n).replace("V", v)))
    level1 = [u % x for u in unary for x in atoms] + [b % (x, y) for b in binary for x in atoms for y in atoms]
    out = list(atoms) + level1 + rec
    if tier == "thorough":
        out += [u % x for u in unary for x in level1]
    return out

def generate(tier, seed):
    rng = C.rng_for(seed, "C01")
    n = 15000 if tier == "quick" else 400000
    lines, used = [], {}
    for i in range(n):
        depth = rng.choice([1, 2, 2, 3, 3, 4] if tier == "quick" else [1, 2, 3, 3, 4, 4, 5])
        cl, u = gen_case(rng, depth)
        lines += cl
        for k, v in u.items(): used[k] = used.get(k, 0) + v
    # exhaustive small programs, each in a fresh context with the same three definitions
    defs = "(defun f0 () (setq a (tick 7))) (defun f1 (a) (tick 8) (list a b)) (defun f2 (a &optional b) (tick 9) (setq b a) b)"
    sp = small_programs(tier)
    for p in sp:
        lines += ["NEW", "EVAL " + defs, "EVAL (setq b 'gb)", "EVAL " + p, "TICKS", "DUMP a b c"]
    return {"lines": lines, "distribution": {"cases": n, "forms_used": used, "exhaustive_small_programs": len(sp)}}

def count_nontrivial(lines, impl, model):
    n, seen = 0, set()
    for idxs in C.split_cases(lines):
        key = tuple(lines[i] for i in idxs)
        if key in seen: continue
        seen.add(key)
        ticked = any((impl[i] or "").startswith("TICKS ") and len(impl[i]) > 6 for i in idxs)
        valued = any(lines[i].startswith("EVAL") and (impl[i] or "").startswith("OK") for i in idxs)
        if ticked and valued: n += 1
    return n

def matches_known(k, small, case):
    return False
