"""C11 — evaluation does not mutate code, literals or arguments."""
import re
from . import common as C
from .gen_prog import ProgGen

ID = "C11"
LEAN_MODULE = "Tulisp.Props.C11"
THEOREMS = []
RULE = ("(i) every list-consuming library function (append, sort, mapcar, seq-map, seq-filter, seq-reduce, seq-find, "
        "assoc, alist-get, plist-get, nth, nthcdr, last, length, backquote splicing, list, cons, concat, format) called "
        "three times on list arguments held in variables and on quoted literals inside a defun: arguments and literals "
        "are re-read after every call; (ii) side-effect-free programs from the core grammar evaluated three times in an "
        "unchanged variable state; the three results must be equal and the arguments unchanged (implementation-only "
        "oracle), and everything is compared with the model, in which values are immutable; non-trivial = distinct "
        "cases whose function returns a non-nil list")
ASSUMPTIONS = ["identity (eq) of freshly allocated results legitimately differs between evaluations; results are compared with equal"]

LISTS = ["(1 2 3)", "(3 1 2)", "(a b)", "((a . 1) (b . 2))", "(\"x\" \"y\")", "nil", "(1)", "((1 2) (3))", "(:k 1 :j 2)", "(5 . 6)", "(1 2 . 3)"]
CALLS = ["(append A B)", "(append A B A)", "(append A nil)", "(append nil A)", "(append A)", "(sort A '<)", "(sort A (lambda (p q) nil))",
         "(mapcar 'car A)", "(mapcar (lambda (e) e) A)", "(seq-map 'list A)", "(seq-filter 'consp A)", "(seq-filter (lambda (e) t) A)",
         "(seq-reduce (lambda (acc e) (cons e acc)) A nil)", "(seq-reduce 'append A nil)", "(seq-find 'consp A)", "(assoc 'a A)", "(alist-get 'b A)",
         "(plist-get A :j)", "(nth 1 A)", "(nthcdr 1 A)", "(last A)", "(last A 2)", "(length A)", "`(x ,@A y)", "`(,@A ,@B)", "`(,@A . ,B)",
         "`(,A)", "(list A B)", "(cons A B)", "(cdr A)", "(car A)", "(cddr A)", "(equal A B)", "(format \"%s %S\" A B)", "(macroexpand A)",
         "(eval (list 'quote A))", "(funcall 'append A B)", "(append (cdr A) B)", "(nthcdr 1 (append A B))", "(sort (append A B) '<)"]

MACRO_FORMS = ["(->> 5 (- 10))", "(-> 5 (- 10) (list 1))", "(->> 5 (- 10) (list 1) list)", "(thread-last 5 (- 10))", "(thread-first 5 (- 10))", "(when v (list v))",
               "(unless v 1 2)", "(if-let ((a v) (b 2)) (list a b) 'no)", "(when-let ((a v)) a)", "(if-let* ((a 1)) a)", "(while-let ((a nil)) a)",
               "(um (1 2) v)", "(->> v (um (1)))", "(quote (->> 5 (- 10)))"]
def macro_cases():
    out = []
    for f in MACRO_FORMS:
        pre = "EVAL (setq v 3) (defmacro um (l x) (list 'append (list 'quote l) (list 'list x)))"
        out.append(["NEW", pre, "EVAL (setq form '%s)" % f, "EVAL (macroexpand form)", "EVAL form", "EVAL (macroexpand form)", "EVAL form",
                    "EVAL (eval form)", "EVAL (eval form)", "EVAL form", "EVAL (defun mf () (macroexpand '%s))" % f, "EVAL (mf)", "EVAL (mf)", "EVAL (mf)",
                    "EVAL (defun ef () (eval '%s))" % f, "EVAL (ef)", "EVAL (ef)", "EVAL (equal (mf) (macroexpand '%s))" % f])
    return out

def generate(tier, seed):
    rng = C.rng_for(seed, "C11")
    lines = []
    nt = set()
    # every call also with its first list argument wrapped in a FRESH cons whose tail is the variable's list, and with
    # the variable's list reached through an accessor: sharing a tail with a temporary must not expose the tail to mutation
    calls = list(CALLS)
    for c in CALLS:
        if "A" in c and not c.startswith("`"):
            calls.append(c.replace("A", "(cons 'z A)", 1))
            calls.append(c.replace("A", "(cdr (cons 'z A))", 1))
        if "B" in c and not c.startswith("`"):
            calls.append(c.replace("B", "(cons 'z B)", 1))
    combos = [(c, a, b) for c in calls for a in LISTS for b in (LISTS if tier == "thorough" else rng.sample(LISTS, 2))]
    for call, a, b in combos:
        e = call.replace("A", "la").replace("B", "lb")
        lines += ["NEW", "EVAL (setq la '%s) (setq lb '%s) (setq keep la)" % (a, b)]
        for _ in range(3):
            lines += ["EVAL " + e, "EVAL (list la lb (eq keep la))"]
        # the same with literals inside a function body
        lit = call.replace("A", "'" + a).replace("B", "'" + b)
        lines += ["NEW", "EVAL (defun fl () %s)" % lit]
        for _ in range(3):
            lines += ["EVAL (fl)"]
        lines += ["BODY fl"]
        nt.add((call, a, b))
    # programs without assignments evaluated three times
    for _ in range(2500 if tier == "quick" else 80000):
        g = ProgGen(rng, max_depth=3, ticks=False, errors=False)
        p = g.program(1)
        if "setq" in p or "(set " in p: continue
        lines += ["NEW", "EVAL (setq a '(1 2)) (setq b 5) (setq c '((k . v)))", "EVAL " + p, "EVAL " + p, "EVAL " + p, "DUMP a b c"]
    for c in macro_cases():
        lines += c
    for e in ["(mapcar (lambda (&rest r) r) '(1 2 3))", "(seq-map (lambda (&rest r) r) '(1 2 3))", "(progn (setq saved nil) (mapcar (lambda (&rest r) (setq saved (cons r saved)) (car r)) '(1 2 3)) saved)",
              "(mapcar (lambda (a &rest r) (list a r)) '(1 2 3))", "(seq-filter (lambda (&rest r) (setq saved (cons r saved))) '(1 2))", "(seq-reduce (lambda (&rest r) r) '(1 2 3) 0)",
              "(progn (defun keepr (&rest r) r) (list (mapcar 'keepr '(a b c)) (funcall 'keepr 1 2) (sort (list 2 1) (lambda (&rest r) (< (car r) (car (cdr r)))))))"]:
        lines += ["NEW", "EVAL (setq saved nil)", "EVAL " + e, "EVAL " + e, "EVAL saved"]
    for first in ["nil", "'()", "acc0", "(cdr '(1))"]:
        for call in ["(append %s la lb)", "(append %s la lb lc)", "(append %s nil la lb)", "(append %s la nil lb)", "(append %s '(q r) lb)", "(append %s la (list 9))", "(append %s la 'tail)"]:
            e = call % first
            lines += ["NEW", "EVAL (setq acc0 nil) (setq la (list 1 2)) (setq lb (list 3)) (setq lc '(4 5 6)) (setq keep la)", "EVAL " + e, "EVAL (list la lb lc acc0 (eq keep la))",
                      "EVAL " + e, "EVAL (list la lb lc acc0)", "EVAL (defun fa () %s) (list (fa) (fa) (fa))" % e.replace("la", "'(a b)").replace("lb", "'(c)")]
    for loop in ["(dotimes (i 4) %s)", "(dolist (i '(0 1 2 3)) %s)", "(dotimes (i 3) (dotimes (j 2) %s))", "(let ((i 0)) (while (< i 4) %s (setq i (+ i 1))))"]:
        for keep in ["(setq acc (append acc (list i)))", "(setq acc (cons i acc))", "(setq acc (cons (list i 'x) acc))", "(puthash i i tb)", "(setq acc (cons (lambda () i) acc))",
                     "(if (equal i 0) (setq first (list i 'first)))", "(setq acc `(,i ,@acc))", "(setq acc (cons (format \"%d\" i) acc))"]:
            lines += ["NEW", "EVAL (setq acc nil) (setq first nil) (setq tb (make-hash-table))", "EVAL " + loop % keep,
                      "EVAL (list acc first (mapcar (lambda (k) (gethash k tb)) '(0 1 2 3)) (mapcar (lambda (e) (if (consp e) e (if (numberp e) e (if (stringp e) e (funcall e))))) acc))",
                      "EVAL (list acc first)"]
    return {"lines": lines, "nontrivial": len(nt), "distribution": {"library_cases": len(combos)}}

def oracle(lines, impl, model, meta):
    bad = []
    for idxs in C.split_cases(lines):
        L = [lines[i] for i in idxs]; A = [impl[i] or "" for i in idxs]
        if len(L) == 8 and L[1].startswith("EVAL (setq la "):
            res = [A[2], A[4], A[6]]; args = [A[3], A[5], A[7]]
            if len(set(res)) != 1:
                bad.append(("same call, unchanged variables, different results", L, 4, str(res), None))
            elif len(set(args)) != 1 or (args[0].startswith("OK") and not args[0].endswith(" t)")):
                bad.append(("argument list changed by the call", L, 3, str(args), None))
        elif len(L) == 6 and L[1].startswith("EVAL (defun fl "):
            res = A[2:5]
            if len(set(res)) != 1:
                bad.append(("function with quoted literals returns different results on repeated calls", L, 3, str(res), None))
        elif len(L) == 18 and L[2].startswith("EVAL (setq form '"):
            # repeated expansions / evaluations of one held form agree, and the form reads the same afterwards
            if A[3] != A[5] or A[4] != A[6] or A[6] != A[9] or A[7] != A[8] or len({A[11], A[12], A[13]}) != 1 or A[15] != A[16]:
                bad.append(("a held macro form changed under repeated expansion / evaluation", L, 5, str([A[3], A[5], A[4], A[9], A[7], A[8], A[11], A[13], A[15], A[16]]), None))
        elif len(L) == 6 and L[1].startswith("EVAL (setq a '(1 2))"):
            res = A[2:5]
            if len(set(res)) != 1 and "gensym" not in L[2]:
                bad.append(("same expression, unchanged variables, different results", L, 3, str(res), None))
    return bad
