"""C15 — string, formatting and symbol functions meet their specification."""
import itertools
from . import common as C

ID = "C15"
LEAN_MODULE = "Tulisp.Props.C15"
THEOREMS = []
RULE = ("strings over a nasty alphabet (empty, ASCII, non-ASCII, quote, backslash, percent, newline) in tuples of 0-5 for "
        "concat (with associativity and identity checked on the implementation's answers), all pairs for the six string "
        "comparisons (irreflexivity, trichotomy and consistency with string= checked on the answers; transitivity on "
        "triples), format strings generated from the directive grammar (%s %S %d %f %%, unknown directives, trailing %) "
        "with argument lists too few / exact / too many / of the wrong type, prin1-to-string, print / princ return "
        "values, intern / make-symbol / gensym with successive gensym names compared for distinctness and the "
        "gensym-counter variable; compared with the model; non-trivial = distinct requests answered with a string")
ASSUMPTIONS = ["prin1-to-string prints strings without quotes, princ style (known finding, pinned by test_strings)",
               "float formatting is Rust's: `{}` (shortest round-trip digits, ties up, positional) and `{:.1}` for integral values (all digits); the model computes both exactly"]

STRS = ['""', '"a"', '"b"', '"ab"', '"abc"', '"A"', '"é"', '"éa"', '"z"', '"a b"', '"\\""', '"\\\\"', '"%"', '"%s"', '"a\\nb"', '"λx"', '"aé"', '"10"', '"9"']

def generate(tier, seed):
    rng = C.rng_for(seed, "C15")
    reqs = []
    for n in range(0, 4):
        combos = list(itertools.product(STRS, repeat=n))
        lim = 1500 if tier == "quick" else 20000
        if len(combos) > lim: combos = rng.sample(combos, lim)
        for t in combos: reqs.append("(concat %s)" % " ".join(t))
    for _ in range(400 if tier == "quick" else 8000):
        reqs.append("(concat %s)" % " ".join(rng.choice(STRS + ["1", "'a", "nil"]) for _ in range(rng.randint(1, 5))))
    alltrip = list(itertools.product(STRS, repeat=3))
    trip = rng.sample(alltrip, min(len(alltrip), 500 if tier == "quick" else 10000))
    for a, b, c in trip:
        reqs.append("(list (concat (concat %s %s) %s) (concat %s (concat %s %s)) (concat %s \"\") (concat \"\" %s))" % (a, b, c, a, b, c, a, a))
    for a, b in itertools.product(STRS, repeat=2):
        reqs.append("(list (string< %s %s) (string> %s %s) (string= %s %s) (string-lessp %s %s) (string-greaterp %s %s) (string-equal %s %s) (string< %s %s))"
                    % (a, b, a, b, a, b, a, b, a, b, a, b, b, a))
    for a, b, c in trip:
        reqs.append("(list (string< %s %s) (string< %s %s) (string< %s %s))" % (a, b, b, c, a, c))
    for bad in ["1", "'a", "nil", "'(\"a\")"]:
        for f in ["string<", "string=", "string>"]:
            reqs += ["(%s %s \"a\")" % (f, bad), "(%s \"a\" %s)" % (f, bad), "(%s \"a\")" % f, "(%s)" % f, "(%s \"a\" \"b\" \"c\")" % f]
    dirs = ["%s", "%S", "%d", "%f", "%%", "%x", "%", "a", " ", "é", "\\n", "%5d", "\\\""]
    args = ["1", "-7", "2.5", "100.25", '"str"', '"q\\"t"', r'"a\\b"', r'"x\\"', r"""'("a\\b" "c")""", r"""'("q\"" . "\\")""", "'sym", "'(1 \"x\" b)", "nil", "t", ":k", "1.0", "3.75", "'(a . b)", "0.1",
            # floats of every printing class: long shortest expansions, ties, integral ones beyond 2^53, tiny and huge
            "3.14", "0.30000000000000004", "1803046310274419.75", "0.000000029802322387695312", "4611686018427387904.0", "-9007199254740993.0",
            "123456789012345678901234567890.0", "0.000000000000000000001234", "-0.0", "100000000000000000000000.0", "'(1.1 (2.2 . 3.3))", "2.675"]
    for _ in range(8000 if tier == "quick" else 200000):
        fs = "".join(rng.choice(dirs) for _ in range(rng.randint(0, 5)))
        nd = sum(1 for d in ["%s", "%S", "%d", "%f"] for _ in range(fs.count(d)))
        n = max(0, nd + rng.choice([-1, 0, 0, 0, 1, 2]))
        reqs.append('(format "%s" %s)' % (fs, " ".join(rng.choice(args) for _ in range(n))))
    import string as _st
    for ch in _st.ascii_letters + _st.digits + "%$#@!*-+. ,:;<>()[]{}^&|~'?/_=":
        for a in ["65", "55296", "57343", "1114111", "1114112", "-1", "0", "9223372036854775807", "-9223372036854775808", "2.5", "-2.7", "-0.5", '"s"', "'sym", "nil", "'(1 2)", ":k"]:
            reqs.append('(format "<%%%s>" %s)' % (ch.replace("\\", "\\\\").replace('"', '\\"'), a))
        reqs.append('(format "<%%%s>")' % ch.replace('"', '\\"'))
    reqs += ["(format)", "(format 1)", "(format 'a 1)", '(format "%d" "x")', '(format "%f" "x")', '(format "%d" 2.9)', '(format "%d" -2.9)', '(format "%f" 3)']
    for a in args + STRS:
        reqs += ["(prin1-to-string %s)" % a, "(print %s)" % a, "(princ %s)" % a]
        reqs += ["(prin1-to-string (list %s))" % a, '(format "%%S" %s)' % a, '(format "%%s" (list %s 1))' % a, '(format "%%S|%%s" (list %s) %s)' % (a, a)]
    for v in ["2.5", "-1", "0", "9223372036854775806", "9223372036854775807", "\"s\"", "nil", "t", "'(1)", "1.0", "(expt 10.0 400)"]:
        reqs += ["(progn (setq gensym-counter %s) (list (gensym) (gensym) (gensym \"q\") gensym-counter))" % v, "(let ((gensym-counter %s)) (let ((a (gensym)) (b (gensym))) (list a b (eq a b) (equal (format \"%%s\" a) (format \"%%s\" b)))))" % v]
    reqs += ['(list (eq (make-symbol ":k") :k) (eq (make-symbol ":k") (make-symbol ":k")) (eq (make-symbol ":k") (intern ":k")) (keywordp (make-symbol ":k")) (make-symbol ":k"))',
             '(progn (setq gensym-counter 7) (list (eq (gensym ":p") (intern ":p7")) (eq (gensym ":p") :p8) (gensym ":p") gensym-counter))',
             '(list (eq (make-symbol "nil") nil) (eq (make-symbol "t") t) (null (make-symbol "nil")) (eq (make-symbol "") (intern "")) (eq (make-symbol "car") (quote car)))',
             '(let ((s (make-symbol ":v"))) (list (eq s s) (equal s :v) (eq s :v) (symbolp s)))',
             '(intern "foo")', '(eq (intern "foo") \'foo)', '(intern "")', '(intern "with space")', "(intern 1)", "(intern)", '(make-symbol "foo")',
             '(eq (make-symbol "foo") \'foo)', '(symbolp (make-symbol "x"))', "(make-symbol 1)", '(keywordp (make-symbol ":k"))', '(keywordp (intern ":kk"))',
             "(list (gensym) (gensym) (gensym \"p\") gensym-counter)", "(progn (setq gensym-counter 10) (list (gensym) (gensym) gensym-counter))",
             "(progn (setq gensym-counter 'x) (list (gensym) gensym-counter))", "(gensym 1)", "(gensym 'a)",
             "(progn (setq gensym-counter 9223372036854775807) (gensym))",
             "(let ((l (list (gensym) (gensym) (gensym) (gensym) (gensym)))) (mapcar (lambda (s) (format \"%s\" s)) l))",
             "(let ((gensym-counter 5)) (gensym))", "(list (gensym) gensym-counter)"]
    lines = []
    for k, r in enumerate(reqs):
        if k % 25 == 0: lines.append("NEW")
        lines.append("EVAL " + C.esc(r))       # the text may contain backslashes and newlines: protocol-escape it
    return {"lines": lines, "distribution": {"requests": len(reqs)}}

def count_nontrivial(lines, impl, model):
    return len({l for i, l in enumerate(lines) if l.startswith("EVAL") and (impl[i] or "").startswith('OK s:"')})

def oracle(lines, impl, model, meta):
    bad = []
    for i, l in enumerate(lines):
        a = impl[i] or ""
        if l.startswith("EVAL (list (concat (concat ") and a.startswith("OK ("):
            v = a[4:-1].split(" ")
            if len(v) == 4 and not (v[0] == v[1] and v[2] == v[3]):
                bad.append(("concat not associative / \"\" not an identity: " + a, ["NEW", l], 1, a, model[i]))
        if l.startswith("EVAL (list (string< ") and a.startswith("OK (") and l.count("string") == 7:
            lt, gt, eq, lt2, gt2, eq2, ltba = a[4:-1].split(" ")
            t = lambda x: x == "t"
            ok = (lt, gt, eq) == (lt2, gt2, eq2) and (t(lt) + t(gt) + t(eq) == 1) and gt == ltba
            if not ok: bad.append(("string orderings are not a strict total order consistent with string=: " + a, ["NEW", l], 1, a, model[i]))
        if l.startswith("EVAL (list (string< ") and a.startswith("OK (") and l.count("string") == 3:
            ab, bc, ac = a[4:-1].split(" ")
            if ab == "t" and bc == "t" and ac != "t":
                bad.append(("string< is not transitive: " + a, ["NEW", l], 1, a, model[i]))
    return bad
