"""C09 — reading is correct and printing round-trips."""
import struct, re
from . import common as C

ID = "C09"
LEAN_MODULE = "Tulisp.Props.C09"
THEOREMS = []
RULE = ("type-directed data values (integers incl. the i64 extremes, floats in plain decimal notation, strings over "
        "{ASCII, quote, backslash, newline, tab, non-ASCII}, symbols whose names are readable tokens incl. -, 1+, a.b, "
        ":kw, nil/t, proper and dotted lists, quote / backquote / unquote / splice / function-quote shorthands, nesting "
        "<= 6) written in random layouts (spaces, tabs, newlines, comments between tokens); (quote TEXT) is observed "
        "through the public object API and compared with the model's reading; every float literal is checked against "
        "Python's correctly rounded conversion of the same decimal; the value is printed (to_string), the printed text "
        "is read back and must have the same canonical structure; non-trivial = distinct values that are not atoms")
ASSUMPTIONS = ["floats are compared by bit pattern; their printed form (Rust's `{}` shortest round-trip digits, `{:.1}` for integral "
               "values) is computed exactly by the model (Model/Num.lean f64ShortestAbs, f64ExactInt) and compared as text",
               "defun / defmacro headed lists are not generated as data (they would be evaluated while reading: known finding)"]

def gen_int(rng):
    return str(rng.choice([0, 1, -1, 7, 42, -100, 2**31, -2**31, 2**63 - 1, -2**63, 2**62, rng.randint(-10**18, 10**18), rng.randint(-999, 999)]))

def gen_float(rng):
    c = rng.random()
    if c < 0.3:
        # an arbitrary double (random mantissa, moderate exponent), written positionally with its shortest digits,
        # sometimes with more digits than needed, sometimes exactly on a tie of the printed precision
        import struct as _st
        from decimal import Decimal as _D
        e = rng.randint(1023 - 90, 1023 + 90)
        bits = (e << 52) | rng.getrandbits(52) if rng.random() < 0.8 else (e << 52) | rng.choice([0, 1, (1 << 52) - 1, 1 << 51])
        x = _st.unpack(">d", _st.pack(">Q", bits))[0]
        t = format(_D(repr(x)), "f") if rng.random() < 0.7 else format(_D(x), "f")[:60]
        if "." not in t: t += rng.choice([".0", ".", ".00"])
        return ("-" if rng.random() < 0.3 else "") + t
    if c < 0.3: return rng.choice(["0.5", "-2.5", "1.0", "100.25", "0.125", "-0.0", "3.14", "0.1", "2.", "-.5", "1.5", "123456.789"])
    if c < 0.6: return "%d.%d" % (rng.randint(-1000, 1000), rng.randint(0, 999))
    if c < 0.8: return "%d.%0*d" % (rng.randint(0, 10**6), rng.randint(1, 12), rng.randint(0, 10**6))
    return "%d.%d" % (rng.randint(0, 10**15), rng.randint(0, 9))

SCH = ['a', 'b', ' ', '"', '\\', '\n', '\t', '\r', '\r\n', '\n\r', 'é', 'λ', '(', ')', ';', "'", '%', '1', '😀']
def gen_string_text(rng):
    n = rng.choice([0, 1, 2, 3, 5, 9])
    out = []
    for _ in range(n):
        ch = rng.choice(SCH)
        if ch == '"': out.append('\\"')
        elif ch == '\\': out.append('\\\\')
        elif ch == '\n' and rng.random() < 0.5: out.append('\\n')
        elif ch == '\t' and rng.random() < 0.5: out.append('\\t')
        else: out.append(ch)
    return '"' + "".join(out) + '"'

SYMS = ["a", "foo", "-", "+", "1+", "1-", "a.b", ":kw", ":k2", "foo-bar", "x1", "*", "/", "<=", "a(b", "é", "with_underscore",
        "UPPER", "--", "a-1", "-a", "1a", "1.2.3", "nil2", "t1", "&rest", "λ",
        "inf", "nan", "infinity", "NaN", "INF", "-inf", "+inf", "+5", "+1.5", "1e5", "2.5e-3", "1E5", "e", "1e", "e5", "-nan", "Infinity", "0x10", "1_000", "+", "+a", "1e+5", ".e1", "5e", "1.e2"]

def gen_val(rng, d):
    c = rng.random()
    if d <= 0 or c < 0.35:
        k = rng.random()
        if k < 0.2: return gen_int(rng)
        if k < 0.35: return gen_float(rng)
        if k < 0.5: return gen_string_text(rng)
        if k < 0.85: return rng.choice(SYMS)
        return rng.choice(["nil", "t", "()"])
    if c < 0.75:
        n = rng.randint(0, 4)
        items = [gen_val(rng, d - 1) for _ in range(n)]
        if items and rng.random() < 0.2:
            # look-alikes within one text: an atom, the string with the same characters, the atom again, the float /
            # integer with the same digits (a reader that shares or caches literals by their text must keep them apart)
            a = rng.choice(items)
            if re.fullmatch(r"[-+:A-Za-z0-9.*/<=]+", a):
                extra = ['"%s"' % a, a]
                if re.fullmatch(r"-?\d+", a): extra += [a + ".0", a + ".", "0" + a if a[0] != "-" else a, ":" + a, "'" + a]
                for e in rng.sample(extra, rng.randint(1, len(extra))):
                    items.insert(rng.randint(0, len(items)), e)
        if items and items[0] in ("defun", "defmacro"): items[0] = "a"
        s = "(" + layout(rng).join(items)
        if n and rng.random() < 0.2:
            s += layout(rng, True) + "." + layout(rng, True) + gen_val(rng, d - 1)
        return s + ")"
    pre = rng.choice(["'", "`", ",", ",@", "#'"])
    return pre + gen_val(rng, d - 1)

def layout(rng, force=False):
    c = rng.random()
    if c < 0.6: return " "
    if c < 0.7: return "  \t "
    if c < 0.8: return "\n"
    if c < 0.85: return rng.choice(["\r\n", " \r\n  ", "\r", " ; comment\r\n"])
    if c < 0.9: return " ; a comment ( \" \n "
    return "\n\n   "

def generate(tier, seed):
    rng = C.rng_for(seed, "C09")
    n = 15000 if tier == "quick" else 400000
    lines, nt = [], set()
    texts = []
    for _ in range(n):
        t = gen_val(rng, rng.choice([0, 1, 2, 3, 4, 6]))
        texts.append(t)
    # plus isolated boundary atoms
    texts += ["9223372036854775807", "-9223372036854775808", "0.1", "0.30000000000000004", "179769313486231570000000000000.0",
              "0.000001", "4.9406564584124654", '"\\\\"', '"\\""', '"a\\nb"', '""', "(a . b)", "(a b . c)", "((a . b) . (c . d))",
              '(12 "12")', '("12" 12)', '(-7 "-7" -7.0 "-7.0")', '(a "a" :a ":a")', '(nil "nil" t "t" ("nil"))', '(1.5 "1.5" 1.5)',
              '("" nil ())', '"a\r\nb"', '"\r"', '"\r\n"', '"\n\r"', '("x\r\ny" . "\r\n\r\n")', '(a\r\nb "c\r\n" ; cr lf\r\n d)', '(0 "0" 0.0 -0.0 "-0.0")', '((12) ("12") (12 . "12") ("12" . 12))',
              "'(quote a)", "#'car", "`(a ,b ,@c)", "(1 . (2 . (3 . nil)))", "(a . (b))"]
    for k, t in enumerate(texts):
        if k % 10 == 0: lines.append("NEW")
        lines.append("EVAL '" + C.esc(t))
        lines.append("PRINT '" + C.esc(t))
        if t[0] in "(`',#": nt.add(t)
    return {"lines": lines, "nontrivial": len(nt), "distribution": {"texts": len(texts)}}

FL = re.compile(r"f:([0-9a-f]{16})")

def float_tokens(text):
    """float literal tokens of a text in reading order (mirrors the tokenizer's classification)"""
    out = []
    i, n = 0, len(text)
    while i < n:
        ch = text[i]
        if ch == '"':
            i += 1
            while i < n and text[i] != '"':
                if text[i] == '\\': i += 1
                i += 1
            i += 1; continue
        if ch == ';':
            while i < n and text[i] != '\n': i += 1
            continue
        if ch in " \t\r\n()'`,.#@" and not (ch == '@'):
            i += 1; continue
        j = i
        while j < n and text[j] not in ") \t\n\r": j += 1
        tok = text[i:j]
        if re.fullmatch(r"-?\d*\.\d*", tok) and re.search(r"\d", tok) and tok != "-":
            out.append(tok)
        i = j
    return out

def unesc(s):
    out, it = [], iter(range(len(s)))
    i = 0
    while i < len(s):
        if s[i] == "\\" and i + 1 < len(s):
            c = s[i + 1]
            if c == "n": out.append("\n"); i += 2; continue
            if c == "t": out.append("\t"); i += 2; continue
            if c == "r": out.append("\r"); i += 2; continue
            if c == "\\": out.append("\\"); i += 2; continue
            if c == "u":
                j = s.index("}", i)
                out.append(chr(int(s[i + 3:j], 16))); i = j + 1; continue
        out.append(s[i]); i += 1
    return "".join(out)

def oracle(lines, impl, model, meta):
    bad = []
    # 1. float literals against Python's correctly rounded conversion
    for i, l in enumerate(lines):
        if not l.startswith("EVAL '"): continue
        a = impl[i] or ""
        if not a.startswith("OK"): continue
        toks = float_tokens(unesc(l[6:]))
        bits = FL.findall(a)
        if len(toks) == len(bits):
            for t, b in zip(toks, bits):
                exp = struct.unpack(">Q", struct.pack(">d", float(t)))[0]
                if int(b, 16) != exp:
                    bad.append(("float literal %s read as %s, correctly rounded value is %016x" % (t, b, exp), ["NEW", l], 1, a, model[i]))
    # 2. print -> read back round trip on the real reader
    req, src = [], []
    for i, l in enumerate(lines):
        if l.startswith("PRINT '") and (impl[i] or "").startswith("OK ") and (impl[i - 1] or "").startswith("OK"):
            if len(req) % 22 == 0: req.append("NEW")
            req.append("EVAL '" + impl[i][3:])
            src.append((i, len(req) - 1))
    if req:
        import os
        binp = os.path.join(C.HARNESS, "target", "release", "harness")
        ans = C.run_resilient(binp, req)
        for i, k in src:
            if ans[k] != impl[i - 1]:
                bad.append(("printed text does not read back as the same value", ["NEW", lines[i - 1], lines[i], "# printed: " + impl[i], "EVAL '" + impl[i][3:]], 1, ans[k], impl[i - 1]))
        meta["roundtrips"] = len(src)
    return bad
