"""C10 — evaluation never panics: every failure is an error value."""
import itertools, re
from . import common as C
from .gen_prog import ProgGen

ID = "C10"
LEAN_MODULE = "Tulisp.Props.C10"
THEOREMS = []
ENV = {"HARNESS_STACK_KIB": "8192"}      # the usual main-thread stack of an embedding process (long flat lists must not need more)
PROFILES = ["dev", "release"]
RULE = ("every built-in function, macro and special form of the registration table applied to every combination of "
        "argument kinds (nil, t, 0, 1, -1, i64 min/max, 0.0, -0.0, 1.5, inf, nan, \"\", \"a\", symbol, keyword, proper list, "
        "dotted list, lambda, built-in, hash table) at arity 0-2 exhaustively and arity 3-4 sampled; malformed special "
        "forms (every prefix and dotted variants of well-formed templates); forms that receive themselves as data; random "
        "programs with extreme numerals; every case under both build profiles (debug assertions + overflow checks, and "
        "release), whose answers must be identical and must equal the model's; non-trivial = distinct requests answered "
        "with an error value")
ASSUMPTIONS = ["nesting and non-tail recursion depth are bounded (host stack)",
               "RefCell borrow state is not modelled: covered by the self-reference cases only"]

KINDS = ["nil", "t", "0", "1", "-1", "9223372036854775807", "-9223372036854775808", "0.0", "-0.0", "1.5", "(/ 1.0 0.0e0)", "NAN",
         '""', '"a"', '"λx"', '"é"', '"😀:"', "'sym", ":kw", "'(1 2)", "'(1 . 2)", "(lambda (x) x)", "'car", "(make-hash-table)", "'(a b c d)", "3"]

def kinds():
    # inf and nan are produced by expt (there is no float division by zero)
    return [k.replace("(/ 1.0 0.0e0)", "(expt 10.0 400)").replace("NAN", "(mod 1.0 0.0)") for k in KINDS]

TEMPLATES = ["(if a b c)", "(cond (a b) (c))", "(let ((x 1) (y)) x)", "(let* ((x 1)) x)", "(setq x 1)", "(set 'x 1)",
             "(defun f (a &optional b &rest c) a)", "(defmacro m (a) a)", "(lambda (a) a)", "(while nil 1)", "(dolist (x '(1) x) x)",
             "(dotimes (i 2 i) i)", "(funcall 'car '(1))", "(progn 1 2)", "(and 1 2)", "(or nil 2)", "(quote a)", "(when a b)",
             "(unless a b)", "(if-let ((x 1)) x 2)", "(if-let* ((x 1)) x 2)", "(when-let ((x 1)) x)",
             "(-> 1 (+ 2))", "(->> 1 (+ 2))", "(cons 1 2)", "(list 1 2)", "(format \"%d %s\" 1 2)", "(mapcar 'car '((1)))",
             "(sort '(2 1) '<)", "(assoc 1 '((1 . 2)))", "(gethash 1 (make-hash-table))", "(puthash 1 2 (make-hash-table))",
             "(seq-reduce '+ '(1 2) 0)", "(nth 1 '(1 2))", "(string< \"a\" \"b\")", "(fround 1.5)", "(declare (x))", "(eval '(+ 1 2))",
             "(macroexpand '(when a b))", "(intern \"q\")", "(gensym \"p\")", "(concat \"a\" \"b\")", "(alist-get 1 '((1 . 2)) nil nil 'eq)"]

def prefixes(t):
    toks = C.sx_tokens(t)
    out = set()
    # drop trailing elements at every list level: generate by removing k last tokens and re-closing
    for cut in range(1, len(toks)):
        part = toks[:cut]
        depth = 0
        for x in part:
            if x == "(": depth += 1
            elif x == ")": depth -= 1
        if depth < 0: continue
        s = " ".join(part) + ")" * depth
        out.add(s.replace("( ", "(").replace(" )", ")"))
        if depth > 0:
            out.add((" ".join(part) + " . 5" + ")" * depth).replace("( ", "(").replace(" )", ")"))
    return out

def generate(tier, seed):
    rng = C.rng_for(seed, "C10")
    names = re.findall(r'\| \.\w+ => "([^"]+)"', open(C.LEAN + "/Tulisp/Model/Builtins.lean").read())
    skip = {"load", "print", "princ", "probe", "%eval-each", "tick", "while", "while-let"}   # (while t) never returns
    names = [n for n in names if n not in skip]
    ks = kinds()
    reqs = []
    for nm in names:
        reqs.append("(%s)" % nm)
        for a in ks: reqs.append("(%s %s)" % (nm, a))
        pairs = list(itertools.product(ks, repeat=2))
        if tier == "quick" and nm not in ("+", "-", "*", "/", "mod", "max", "min", "<", "<=", ">", ">=", "expt", "nth", "nthcdr", "last", "dotimes"):
            pairs = rng.sample(pairs, 60)        # numeric functions always get the full product (extremes x extremes)
        for a, b in pairs: reqs.append("(%s %s %s)" % (nm, a, b))
        for n in (3, 4):
            for _ in range(30 if tier == "quick" else 400):
                reqs.append("(%s %s)" % (nm, " ".join(rng.choice(ks) for _ in range(n))))
        # applied through the higher-order routes
        for a in rng.sample(ks, 4):
            reqs.append("(funcall '%s %s)" % (nm, a))
            reqs.append("(mapcar '%s (list %s %s))" % (nm, a, rng.choice(ks)))
    nums = ["0", "1", "-1", "2", "9223372036854775807", "-9223372036854775808", "0.0", "1.5", "(expt 10.0 400)"]
    for nm in ["+", "-", "*", "/", "max", "min"]:
        for t in itertools.product(nums, repeat=3): reqs.append("(%s %s)" % (nm, " ".join(t)))
    allp = []
    for t in TEMPLATES:
        for p in prefixes(t): reqs.append(p); allp.append(p)
    # the same malformed forms as the (tail) body of a function / macro / binding form: definition walks the body
    # (tail-call marking, variable capture, macro expansion) before anything is evaluated
    wrappers = ["(progn (defun g (a b c) %s) (g 1 2 3))", "(funcall (lambda (a b c) %s) 1 2 3)", "(let ((a 1) (b 2) (c 3)) (funcall (lambda () %s)))",
                "(progn (defmacro gm (a b c) %s) (gm 1 2 3))", "(progn (defun g (a b c) (progn 0 %s)) (g nil nil nil))",
                "(progn (defun g (a b c) (let ((x 1)) %s)) (g 1 2 3))", "(progn (defun g (a b c) (cond (a %s) (t %s))) (g nil 2 3))",
                "(progn (defun g (a b c) (if a 1 %s)) (g nil 2 3))", "(macroexpand '%s)", "(eval (list 'defun 'g '(a b c) '%s))"]
    for p in sorted(allp):
        ws = wrappers if tier != "quick" else rng.sample(wrappers, 3)
        for w in ws:
            reqs.append(w.replace("%s", p))
    for tailform in ["(if x 1 . 2)", "(progn . x)", "(let ((y 1)) . y)", "(let* ((y 1)) . y)", "(cond (x . 1))", "(cond x)", "(cond . x)", "(if . x)",
                     "(progn 1 . 2)", "(let . x)", "(let* x . 1)", "(if x . 1)", "(cond (x 1) . 2)", "(g . x)", "(g x . 1)", "(and x . 1)", "(or . x)",
                     "(when x . 1)", "(unless . x)", "(while nil . 1)", "(if-let ((y 1)) . x)", "(progn (g . x))", "(let ((y . 1)) (g y))"]:
        for shell in ["(defun g (x) %s)", "(defun g (x) 1 %s)", "(progn (defun g (x) %s) (g 1))", "(eval (list 'defun 'g '(x) '%s))",
                      "(defun g (x) (if x %s 2))", "(defun g (x) (progn (let ((z 1)) %s)))", "(defmacro g (x) %s)", "(funcall (lambda (x) %s) 1)"]:
            if ("(g 1)" in shell or "defmacro" in shell or "funcall" in shell) and "(g" in tailform: continue   # would call / expand itself for ever, legitimately
            reqs.append(shell % tailform)
    for a in ["nil", "(progn nil)", "'()"]:
        reqs += ["(while %s)" % a, "(while %s 1 2)" % a, "(while %s . 5)" % a, "(while-let ((x %s)) x)" % a, "(while-let (x %s) 1)" % a]
    reqs += ["(while)", "(while-let ((x)) 1)", "(while-let ((x nil)) x . 5)", "(while-let ((x nil . 5)))", "(while-let ((x . 5)))"]   # (while-let nil) loops for ever, legitimately
    # forms that receive themselves as data
    selfloop = {"eval", "funcall", "mapcar", "seq-map", "seq-filter", "seq-reduce", "seq-find", "sort", "assoc", "alist-get"}
    for nm in names:
        if nm in selfloop: continue      # these evaluate their argument again: unbounded recursion, outside the claim
        reqs.append("(progn (setq sf '(%s sf sf)) (eval sf))" % nm)
        reqs.append("(progn (setq sf (list '%s 'sf)) (eval sf))" % nm)
        # an argument expression that hands (part of) the form being evaluated to a function that walks or annotates lists
        for inner in ["(macroexpand (cdr sf))", "(macroexpand sf)", "(append sf nil)", "(length sf)", "(equal sf (cdr sf))"]:
            if nm in ("quote", "lambda", "defun", "defmacro", "declare"): continue
            reqs.append("(progn (setq sf '(%s (progn %s 1) 2)) (eval sf))" % (nm, inner))
    # a form that, while it is being evaluated, is handed (as data) to something that walks or annotates forms:
    # a definition whose body IS the running form, its expansion, a copy, a comparison, a sort of its elements ...
    users = ["(eval (list 'defun 'g nil c))", "(eval (list 'defun 'g nil 1 c))", "(eval (list 'defmacro 'gm nil c))", "(eval (list 'lambda nil c))",
             "(eval (list 'defun 'g nil (list 'progn c)))", "(eval (list 'defun 'g nil (list 'if 1 c c)))", "(eval (list 'defun 'g nil (list 'cond (list 1 c))))",
             "(eval (list 'defun 'g nil (list 'let nil c)))", "(macroexpand c)", "(macroexpand (list 'when 1 c))", "(append c nil)", "(length c)",
             "(equal c c)", "(mapcar 'consp c)", "(format \"%S\" 1)", "(eval (list 'quote c))",
             "(prin1-to-string (car c))", "(eval (list 'let (list (list 'v (list 'quote c))) 'v))", "(sort (list 1 2) '<)", "(nthcdr 1 c)", "`(,@c)", "`(,c . ,c)"]
    holders = ["(setq c '(t %s)) (eval (list 'cond c))", "(setq c '(progn %s)) (eval c)", "(setq c '(list 1 %s 2)) (eval c)", "(setq c '(if t %s 3)) (eval c)",
               "(setq c '(if nil 3 %s)) (eval c)", "(setq c '(let ((v 1)) %s)) (eval c)", "(setq c '(let* ((v %s)) v)) (eval c)", "(setq c '(when t %s)) (eval c)",
               "(setq c '(and t %s)) (eval c)", "(setq c '(or nil %s)) (eval c)", "(setq c '(dolist (e '(1)) %s)) (eval c)", "(setq c '(dotimes (i 1) %s)) (eval c)",
               "(setq c '(funcall (lambda () %s))) (eval c)", "(setq c '(mapcar (lambda (e) %s) '(1))) (eval c)", "(setq c '(cons %s nil)) (eval c)",
               "(setq c '(setq d %s)) (eval c)", "(setq c '((e) %s)) (eval (list 'defun 'h1 (car c) (car (cdr c)))) (h1 1)",
               "(setq c '(cond (nil 1) (t %s))) (eval c)", "(setq c '(unless nil %s)) (eval c)", "(setq c '(not %s)) (eval c)", "(setq c '(-> %s (list))) (eval c)",
               "(setq c '(if-let ((v 1)) %s)) (eval c)", "(setq c '(while-let ((v nil)) %s)) (eval c)", "(setq c '(sort (list 2 1) (lambda (p q) %s (< p q)))) (eval c)",
               "(setq c '(seq-reduce (lambda (a e) %s) '(1 2) 0)) (eval c)", "(setq c '(format \"%%s\" %s)) (eval c)", "(setq c '(h-two %s 1)) (eval c)"]
    for h in holders:
        for u in users:
            reqs.append(h % u)
    import string as _st
    for ch in _st.ascii_letters + _st.digits + "%$#@!*-+. ,:;<>()[]{}^&|~'?/_=":
        for a in ["65", "55296", "57343", "1114111", "1114112", "-1", "0", "9223372036854775807", "-9223372036854775808", "2.5", "-2.7", "-0.5", '"s"', "'sym", "nil", "'(1 2)", ":k"]:
            reqs.append('(format "<%%%s>" %s)' % (ch.replace("\\", "\\\\").replace('"', '\\"'), a))
        reqs.append('(format "<%%%s>")' % ch.replace('"', '\\"'))
    for k in [":k", "nil", "t", ":kw2"]:
        for v in [k, "(list 1 %s)" % k, "'(%s . %s)" % (k, k), "'x", "5", "(list (list %s))" % k]:
            reqs += ["(let ((%s %s)) 1)" % (k, v), "(let* ((a 1) (%s %s)) a)" % (k, v), "(funcall (lambda (%s) 1) %s)" % (k, v), "(progn (defun cf (a &rest %s) a) (cf 1 2 %s))" % (k, v),
                     "(dolist (%s (list %s 2 3)) nil)" % (k, v), "(dotimes (%s 2) nil)" % k, "(progn (defun cf (&optional %s) 1) (cf %s))" % (k, v), "(setq %s %s)" % (k, v),
                     "(set '%s %s)" % (k, v), "(if-let ((%s %s)) 1 2)" % (k, v), "(progn (defmacro cm (%s) 1) (cm %s))" % (k, v), "(mapcar (lambda (%s) 1) (list %s))" % (k, v),
                     "(seq-reduce (lambda (%s b) 1) (list %s) %s)" % (k, v, v), "(let ((h (make-hash-table))) (puthash %s %s h) (gethash %s h))" % (k, v, k)]
    for v in ks:
        reqs += ["(progn (setq gensym-counter %s) (list (gensym) (gensym \"p\")))" % v, "(let ((gensym-counter %s)) (gensym))" % v, "(progn (setq gensym-counter %s) (list (gensym) gensym-counter (gensym) gensym-counter))" % v]
    # random programs with extreme numerals
    for _ in range(5000 if tier == "quick" else 200000):
        g = ProgGen(rng, max_depth=3, ticks=False, loops=False)   # literal replacement must not touch loop bounds
        p = g.program(1)
        for lit in ["10", "7", "3"]:
            if rng.random() < 0.5:
                p = p.replace(" " + lit + ")", " " + rng.choice(["9223372036854775807", "-9223372036854775808", "4611686018427387904", "0"]) + ")")
        reqs.append(p)
    # the set of bound symbols of a fresh context (every built-in with its kind) must be the model's registration table:
    # a built-in added to, removed from or re-kinded in the code is outside what the theorems and this campaign cover
    lines = ["NEW", "INVENTORY"]
    for k, r in enumerate(reqs):
        if k % 8 == 0: lines.append("NEW")
        lines.append("EVAL " + r)
    # long FLAT lists (built by a loop: nesting depth 4, no recursion in the program) through the operations that walk two lists at once
    # or copy them: the outcome is a value in both build profiles (implementation only: the model is not run on them)
    expect = {}
    n = 60000 if tier == "quick" else 400000
    build = "(progn (setq la nil) (setq lb nil) (setq al nil) (dotimes (i %d) (setq la (cons i la)) (setq lb (cons i lb)) (setq al (cons (cons (list i) i) al))) 'built)" % n
    for req, exp in [("(equal la lb)", "OK t"), ("(equal la (cons 0 (cdr lb)))", "OK nil"), ("(cdr (assoc (list 0) al))", "OK 0"), ("(alist-get (list 5) al)", "OK 5"),
                     ("(equal al al)", "OK t"), ("(equal (list la la) (list lb lb))", "OK t"),
                     ("(let ((h (make-hash-table))) (puthash la 1 h) (gethash la h))", "OK 1"), ("(length la)", "OK %d" % n), ("(car (last la))", "OK 0"),
                     ("(+ 1 la)", "ERR"), ("(nth %d la)" % (n - 1), "OK 0"), ("(plist-get la 'zz)", "OK nil")]:
        if not expect: lines += ["NEW", "EVALBIG " + build]
        lines.append("EVALBIG " + req)
        expect[len(lines) - 1] = (req, exp)
    return {"lines": lines, "meta": {"expect": expect, "build": build}, "distribution": {"requests": len(reqs), "builtins": len(names), "kinds": len(ks), "long_list_requests": len(expect)}}

def oracle(lines, impl, model, meta):
    bad = []
    for i, (req, exp) in meta.get("expect", {}).items():
        a = impl[i] or ""
        ok = (a.startswith("OK") or a.startswith("ERR")) if exp is None else (a == exp or (exp == "ERR" and a.startswith("ERR")))
        if not ok:
            bad.append(("%s on long flat lists gave %s (expected %s)" % (req, a[:60], exp or "a value or an error"), ["NEW", "EVALBIG " + meta.get("build", ""), "EVALBIG " + lines[i][8:]], 2, a, exp))
    return bad

def count_nontrivial(lines, impl, model):
    return len({l for i, l in enumerate(lines) if l.startswith("EVAL") and (impl[i] or "").startswith("ERR")})

def normalize(line, ans):
    if ("max" in line or "min" in line) and "f:8000000000000000" in ans:
        return ans.replace("f:8000000000000000", "f:0000000000000000")
    return ans

def ignore_line(line):
    # eq on number objects is about object identity (C14); not modelled for numbers
    return line.startswith("EVAL (eq ") or "'eq " in line or line.startswith("EVALBIG")
