"""C04 — self tail calls use constant stack and do not change meaning."""
import itertools, re
from . import common as C

ID = "C04"
LEAN_MODULE = "Tulisp.Props.C04"
THEOREMS = []
RULE = ("self-recursive defuns whose self-call sits in the tail of nestings (depth <= 3) of if / cond / progn / let / let* / "
        "when / unless, or in non-tail position ((+ 1 (f …)), condition position, and argument), or both; argument "
        "expressions that permute, shadow (let on a parameter) or re-read the parameters; &optional / &rest shapes; "
        "called directly, via funcall and from mapcar; iteration counts 0, 1, 2, 17, 1000 compared with the model and "
        "with the same body under a second, mutually (non-tail) recursive name; 10^5 (quick) / 10^6 (thorough) iterations "
        "on a worker with a 256 KiB stack; stack growth between iterations measured by a host probe (address of a "
        "local) must be 0; the rewritten body (BODY) is compared with the model's markTailCalls; "
        "non-trivial = distinct function bodies whose run bounced at least twice")
ASSUMPTIONS = ["one unit of model depth is a bounded number of bytes of host stack: measured by the probe, not proved"]
ENV = {}

WRAPS = ["if", "if2", "cond", "progn", "let", "let*", "when", "unless", "cond2"]
def wrap_tail(rng, core, depth, kinds=None):
    """nest the tail expression `core` in tail-carrying forms"""
    e = core
    for i in range(depth):
        k = kinds[i] if kinds else rng.choice(WRAPS)
        if k == "if": e = "(if (> n 0) %s acc)" % e
        elif k == "if2": e = "(if (<= n 0) acc (tick n) %s)" % e
        elif k == "cond": e = "(cond ((<= n 0) acc) (t %s))" % e
        elif k == "cond2": e = "(cond ((> n 0) (tick n) %s) (acc))" % e
        elif k == "progn": e = "(progn (tick n) %s)" % e
        elif k == "let": e = "(let ((m (- n 1))) (tick m) %s)" % e
        elif k == "let*": e = "(let* ((m n) (k2 m)) %s)" % e
        elif k == "when": e = "(when t %s)" % e
        else: e = "(unless nil %s)" % e
    return e

def bodies(rng, tier):
    out = []
    cores = ["(f (- n 1) (+ acc 1))", "(f (- n 1) (cons n acc))", "(f (- n 1) (let ((n 5)) (+ acc n)))",
             "(f (- n 1) (progn (setq g (+ g 1)) acc))", "(f (1- n) n)",
             "(f (progn (tick 1) (- n 1)) (progn (tick 2) (+ acc 1)))", "(f (setq n (- n 1)) (+ acc n))", "(f (- n 1) (progn (setq g (- 1 g)) (setq g (+ g 1)) (+ acc g)))",
             "(f (progn (setq g (cons 'a g)) (- n 1)) (progn (setq g (cons 'b g)) acc))"]
    for core in cores:
        for d in range(0, 4):
            for _ in range(4 if tier == "quick" else 12):
                guard = "(if (<= n 0) acc %s)" % wrap_tail(rng, core, d)
                out.append(("(n acc)", guard, "(f %d 0)"))
    # every ordered pair of tail-carrying forms (inner, outer), systematically
    for k1 in WRAPS:
        for k2 in WRAPS:
            guard = "(if (<= n 0) acc %s)" % wrap_tail(rng, cores[0] if (k1 + k2).count("let") == 0 else cores[1], 2, [k1, k2])
            out.append(("(n acc)", guard, "(f %d 0)"))
    # non-tail and mixed positions
    out.append(("(n acc)", "(if (<= n 0) acc (+ 1 (f (- n 1) acc)))", "(f %d 0)"))
    out.append(("(n acc)", "(if (<= n 0) acc (if (f (- n 1) acc) (f (- n 2) (+ acc 1)) 0))", "(f %d 0)"))
    out.append(("(n acc)", "(if (<= n 0) acc (and t (f (- n 1) (+ acc 1))))", "(f %d 0)"))
    out.append(("(n acc)", "(if (<= n 0) acc (progn (f 0 0) (f (- n 1) (+ acc 2))))", "(f %d 0)"))
    # body-less cond clauses whose test is the self-call: only the LAST clause is a tail position
    out.append(("(n acc)", "(cond ((<= n 0) nil) ((f (- n 1) acc)) (t (list n acc)))", "(f %d 0)"))
    out.append(("(n acc)", "(cond ((<= n 0) acc) ((f (- n 1) (+ acc 1))))", "(f %d 0)"))
    out.append(("(n acc)", "(cond ((<= n 0) nil) ((progn (tick n) (f (- n 1) acc))) ((tick 99) 'fell-through))", "(f %d 0)"))
    out.append(("(n acc)", "(if (<= n 0) nil (or (f (- n 1) acc) (list n)))", "(f %d 0)"))
    out.append(("(n acc)", "(if (<= n 0) acc (let ((r (f (- n 1) acc))) r))", "(f %d 0)"))
    # permuting / swapping parameters
    out.append(("(n a b)", "(if (<= n 0) (list a b) (f (- n 1) b a))", "(f %d 'p 'q)"))
    out.append(("(n a b)", "(if (<= n 0) (list a b) (f (- n 1) (cons n b) a))", "(f %d nil nil)"))
    # &optional / &rest
    out.append(("(n &optional acc)", "(if (<= n 0) acc (f (- n 1) (+ (or acc 0) 1)))", "(f %d)"))
    out.append(("(n &optional acc)", "(if (<= n 0) acc (f (- n 1)))", "(f %d 5)"))
    out.append(("(n &rest r)", "(if (<= n 0) r (f (- n 1) n (car r)))", "(f %d)"))
    out.append(("(n &rest r)", "(if (<= n 0) (length r) (f (- n 1) 1 2 3))", "(f %d 9)"))
    out.append(("(n &rest acc)", "(if (<= n 0) acc (f (- n 1) (list n) (car acc)))", "(f %d)"))
    out.append(("(n acc)", "(if (<= n 0) (car 'boom) (f (- n 1) (cons n acc)))", "(f %d nil)"))
    out.append(("(n acc)", "(cond ((<= n 0) (nosuchfn acc)) (t (setq g (+ g 1)) (f (- n 1) (+ acc 1))))", "(f %d 0)"))
    out.append(("(n acc)", "(if (<= n 0) (f 1) (f (- n 1) (+ acc 1)))", "(f %d 0)"))
    out.append(("(n &rest acc)", "(if (<= n 0) acc (f (- n 1) 'tag (car acc) ''q))", "(f %d 'first)"))
    out.append(("(n tag &rest more)", "(cond ((<= n 0) (list tag more)) (t (f (- n 1) tag tag (list tag))))", "(f %d 'sym)"))
    out.append(("(n &optional o &rest r)", "(if (<= n 0) (list o r) (f (- n 1) (list 'o n) 'r1 (cons 1 2)))", "(f %d)"))
    # shadowing names used by the rewrite
    out.append(("(n list)", "(if (<= n 0) list (f (- n 1) (cons n list)))", "(f %d nil)"))
    out.append(("(n acc)", "(let ((list 5)) (if (<= n 0) acc (f (- n 1) (+ acc list))))", "(f %d 0)"))
    out.append(("(n acc)", '"docstring" (if (<= n 0) acc (f (- n 1) (+ acc 1)))', "(f %d 0)"))
    out.append(("(n acc)", "(tick n) (if (<= n 0) acc (f (- n 1) (+ acc 1)))", "(f %d 0)"))
    out.append(("(n acc)", "(if (<= n 0) acc ((lambda (x) x) (f (- n 1) (+ acc 1))))", "(f %d 0)"))
    return out

def generate(tier, seed):
    rng = C.rng_for(seed, "C04")
    lines = []
    bs = bodies(rng, tier)
    for params, body, call in bs:
        defn = "(defun f %s %s)" % (params, body)
        # reference: the same body under two mutually recursive names (never a *self* call: no rewrite)
        ref1 = "(defun f %s %s)" % (params, body.replace("(f ", "(f2 "))
        ref2 = "(defun f2 %s %s)" % (params, body.replace("(f ", "(f ").replace("(f2 ", "(f "))
        two_calls = body.count("(f ") >= 2 and ("(if (f " in body or "(f 0 0)" in body)
        for n in ([0, 1, 2, 9] if two_calls else [0, 1, 2, 17, 100]):
            c = call % n
            lines += ["NEW", "EVAL (setq g 0) " + defn, "BODY f", "EVAL " + c, "TICKS", "DUMP n acc g a b r list m"]
            lines += ["NEW", "EVAL (setq g 0) " + ref1 + " " + ref2, "EVAL " + c, "TICKS", "DUMP n acc g a b r list m"]
            lines += ["NEW", "EVAL (setq g 0) " + defn, "EVAL (funcall 'f %s)" % c[3:-1], "TICKS",
                      "EVAL (mapcar (lambda (k) %s) '(1 2))" % c, "TICKS"]
        if not two_calls:
            lines += ["NEW", "EVAL (setq g 0) " + defn, "EVAL " + call % 1000, "DUMP n acc g"]
    return {"lines": lines, "distribution": {"bodies": len(bs)}, "meta": {"bodies": bs, "tier": tier}}

def ignore_line(l):
    return False

def oracle(lines, impl, model, meta):
    """implementation-only part: the reference definition (mutual recursion, no rewrite) must
    give the same answers as the rewritten one; long runs on a small stack; no stack growth"""
    bad = []
    cases = C.split_cases(lines)
    # 1. rewritten vs reference: consecutive cases (k, k+1) share the call
    k = 0
    while k + 1 < len(cases):
        a, b = cases[k], cases[k + 1]
        la = [lines[i] for i in a]; lb = [lines[i] for i in b]
        if len(la) == 6 and len(lb) == 5 and la[1].startswith("EVAL (setq g 0) (defun f ") and "defun f2" in lb[1]:
            ra = [impl[i] for i in a[3:]]; rb = [impl[i] for i in b[2:]]
            if ra != rb and not any((x or "").startswith(("ABORT", "TIMEOUT")) for x in rb):
                bad.append(("tail-call version differs from ordinary recursion", la + ["# reference:"] + lb, 3, str(ra), str(rb)))
            k += 3
        else:
            k += 1
    # 2. long runs on a small stack + probe growth, implementation only
    tier = meta.get("tier", "quick")
    big = 100000 if tier == "quick" else 1000000
    req = []
    for params, body, call in meta.get("bodies", []):
        if "(+ 1 (f" in body or "(and t (f" in body or "(if (f " in body or "((lambda (x) x) (f" in body or "cons n" in body or "(car r)" in body or "(f 0 0)" in body \
           or "(car 'boom)" in body or "(nosuchfn" in body or "(f 1)" in body or "((f (- n 1)" in body or "(or (f" in body or "(let ((r (f" in body or "(progn (tick n) (f (- n 1) acc)))" in body:
            continue
        pb = body.replace("(if (<= n 0)", "(progn (probe) (if (<= n 0)", 1) + ")" if body.startswith("(if (<= n 0)") else None
        if pb is None: continue
        req += ["NEW", "EVAL (setq g 0) (defun f %s %s)" % (params, pb.replace("(tick n)", "nil").replace("(tick m)", "nil")),
                "PROBE reset 10", "EVAL " + call % big, "PROBE get"]
    if req:
        import os
        binp = os.path.join(C.HARNESS, "target", "release", "harness")
        ans = C.run_parallel(binp, req, jobs=12, min_lines=0, env={"HARNESS_STACK_KIB": "256", "VERIF_STALL": "300"}, timeout=1500)
        for idxs in C.split_cases(req):
            ev, pg = ans[idxs[3]], ans[idxs[4]]
            if ev is None or not ev.startswith("OK"):
                bad.append(("%d iterations on a 256 KiB stack did not complete: %s" % (big, ev), [req[i] for i in idxs], 3, ev, None))
                continue
            m = re.match(r"PROBE n=(\d+) growth=(\d+)", pg or "")
            if not m or int(m.group(1)) < big or int(m.group(2)) != 0:
                bad.append(("host stack grew between iterations: %s" % pg, [req[i] for i in idxs], 4, pg, None))
        meta["long_runs"] = len(C.split_cases(req))
    return bad

def count_nontrivial(lines, impl, model):
    s = set()
    for idxs in C.split_cases(lines):
        l = [lines[i] for i in idxs]
        if len(l) > 2 and l[2] == "BODY f" and "#<bounce>" in (impl[idxs[2]] or ""):
            m = re.search(r"\(f (\d+)", l[3])
            if m and int(m.group(1)) >= 2: s.add(l[1])
    return len(s)
