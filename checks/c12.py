"""C12 — list and sequence functions agree with their specification."""
import itertools
from . import common as C

ID = "C12"
LEAN_MODULE = "Tulisp.Props.C12"
THEOREMS = []
RULE = ("cons/list/car/cdr/all 28 c[ad]{2,4}r/nth/nthcdr/last/length/append/mapcar/seq-map/seq-filter/seq-reduce/"
        "seq-find/assoc/alist-get/plist-get/list predicates applied to all lists of length <= 4 over element kinds "
        "(numbers, strings, symbols, pairs, sub-lists, nil) plus dotted variants and random lists up to length 200, "
        "all indices in [-1, len+2], function arguments given as built-in name, #'name, lambda and closure; element "
        "visits are logged by (tick i) inside the function argument; answers compared with the model (whose list "
        "functions are proved equal to their List specifications); non-trivial = distinct requests with an OK answer "
        "that is not nil")
ASSUMPTIONS = ["length/last on improper or non-list arguments follow tulisp's documented leniency (length of a non-list is 0)"]

ELEMS = ["1", "-2", '"s"', "a", "b", "(a . 1)", "(b . 2)", "(1 2)", "((x) y)", "nil", ":k", "2.5"]
CXR = ["car","cdr","caar","cadr","cdar","cddr","caaar","caadr","cadar","caddr","cdaar","cdadr","cddar","cdddr",
 "caaaar","caaadr","caadar","caaddr","cadaar","cadadr","caddar","cadddr","cdaaar","cdaadr","cdadar","cdaddr","cddaar","cddadr","cdddar","cddddr"]

def lists(rng, tier):
    out = ["nil"]
    base = ELEMS[:8] if tier == "quick" else ELEMS
    for n in range(1, 4 if tier == "quick" else 5):
        combos = list(itertools.product(base, repeat=n))
        if len(combos) > (400 if tier == "quick" else 4000):
            combos = rng.sample(combos, 400 if tier == "quick" else 4000)
        for t in combos:
            out.append("(" + " ".join(t) + ")")
    # dotted
    for n in range(1, 3):
        for t in itertools.product(ELEMS[:5], repeat=n):
            out.append("(" + " ".join(t) + " . z)")
    # nested for cxr
    def nest(d):
        if d == 0: return rng.choice(["1", "a", "nil", '"s"'])
        return "(" + " ".join(nest(d - 1) for _ in range(rng.randint(1, 3))) + (" . " + nest(0) if rng.random() < 0.2 else "") + ")"
    for _ in range(500 if tier == "quick" else 6000):
        out.append(nest(rng.randint(1, 4)))
    for _ in range(20 if tier == "quick" else 200):
        n = rng.randint(5, 200)
        out.append("(" + " ".join(rng.choice(ELEMS) for _ in range(n)) + ")")
    return out

def generate(tier, seed):
    rng = C.rng_for(seed, "C12")
    ls = lists(rng, tier)
    reqs = []
    for l in ls:
        q = "'" + l
        n = l.count(" ") + 1 if l != "nil" else 0
        sel = rng.sample(CXR, 6) if tier == "quick" else CXR
        for f in ["car", "cdr", "length", "last", "consp", "listp", "null"] + sel:
            reqs.append("(%s %s)" % (f, q))
        for i in range(-1, min(n, 6) + 3):
            reqs.append("(nth %d %s)" % (i, q))
            reqs.append("(nthcdr %d %s)" % (i, q))
            reqs.append("(last %s %d)" % (q, i))
            reqs.append("(equal (nth %d %s) (car (nthcdr %d %s)))" % (i, q, i, q))
        l2 = rng.choice(ls)
        reqs.append("(append %s '%s)" % (q, l2))
        reqs.append("(append %s '%s %s)" % (q, l2, q))
        reqs.append("(equal (length (append %s '%s)) (+ (length %s) (length '%s)))" % (q, l2, q, l2))
        reqs.append("(let ((a 'x) (b %s)) (list (car (cons a b)) (cdr (cons a b)) (eq (car (cons a b)) a) (eq (cdr (cons a b)) b)))" % q)
        reqs.append("(list 1 %s 'z)" % q)
    # higher-order with visit logging
    funs = ["'car", "#'car", "(lambda (x) (tick 1) x)", "'consp", "#'symbolp", "'listp", "(lambda (x) (tick 2) (consp x))",
            "(let ((k 5)) (lambda (x) (tick k) (if (numberp x) (+ x k) x)))", "'numberp", "'stringp", "'null", "'not",
            "'1+", "(lambda (x) (list x x))", "'cadr", "'length"]
    hl = [l for l in ls if l.count("(") <= 4][: (300 if tier == "quick" else 3000)]
    for l in hl:
        q = "'" + l
        for f in (rng.sample(funs, 4) if tier == "quick" else funs):
            reqs.append("(mapcar %s %s)" % (f, q))
            reqs.append("(seq-map %s %s)" % (f, q))
            reqs.append("(seq-filter %s %s)" % (f, q))
            reqs.append("(seq-find %s %s)" % (f, q))
            reqs.append("(seq-find %s %s 'dflt)" % (f, q))
        for ho in ["(mapcar (lambda (x) (setq seen (cons x seen)) x) %s)", "(seq-map (lambda (x) (setq seen (cons x seen)) (list x)) %s)",
                   "(seq-filter (lambda (x) (setq seen (cons x seen)) (consp x)) %s)", "(seq-find (lambda (x) (setq seen (cons x seen)) (equal (length seen) 3)) %s)",
                   "(seq-reduce (lambda (acc x) (setq seen (cons (list acc x) seen)) x) %s 'init)",
                   "(mapcar (lambda (x) (setq seen (cons x seen)) (if (equal (length seen) 2) (car 5) x)) %s)",
                   "(seq-filter (lambda (x) (setq seen (cons x seen)) (if (equal (length seen) 2) (car 5) t)) %s)"]:
            if rng.random() < 0.5: reqs.append("(progn (setq seen nil) (list (%s) seen))" % ("funcall (lambda () %s)" % (ho % q)))
            else: reqs.append("(setq seen nil)"); reqs.append(ho % q); reqs.append("seen")
        reqs.append("(seq-reduce (lambda (acc x) (tick 3) (cons x acc)) %s nil)" % q)
        reqs.append("(seq-reduce 'cons %s 'init)" % q)
        reqs.append("(seq-reduce '+ '(1 2 3 4) 0)")
    # n-ary append: every combination of short lists (empty ones in every position), a non-list only allowed last
    shorts = ["nil", "'()", "'(1)", "'(a b)", "'((x))", "(list 1 2)"]
    import itertools as _it
    for k in (3, 4):
        combos = list(_it.product(shorts, repeat=k))
        if tier == "quick" and k == 4: combos = rng.sample(combos, 300)
        for t in combos:
            reqs.append("(append %s)" % " ".join(t))
            if rng.random() < 0.3: reqs.append("(length (append %s))" % " ".join(t))
            if rng.random() < 0.15: reqs.append("(append %s 'tail)" % " ".join(t))
            if rng.random() < 0.1: reqs.append("(append %s 5 %s)" % (t[0], " ".join(t[1:])))
    reqs += ["(append)", "(append nil)", "(append nil nil)", "(append '(1) 2)", "(append '(1) 2 '(3))", "(append 1)", "(append 1 '(2))", "(append nil 3)"]
    # assoc / alist-get / plist-get
    keys = ["a", "b", "c", "1", '"s"', ":k", "(1 2)", "nil", "2.5"]
    for _ in range(1500 if tier == "quick" else 25000):
        n = rng.randint(0, 5)
        items = []
        for _ in range(n):
            r = rng.random()
            if r < 0.75: items.append("(%s . %s)" % (rng.choice(keys), rng.choice(ELEMS)))
            elif r < 0.85: items.append("(%s)" % rng.choice(keys))
            else: items.append(rng.choice(["5", "x", "nil", '"q"']))
        al = "(" + " ".join(items) + ")"
        k = rng.choice(keys)
        kq = k if k[0] in '":0123456789-' and k != "nil" else "'" + k
        reqs.append("(assoc %s '%s)" % (kq, al))
        reqs.append("(alist-get %s '%s)" % (kq, al))
        reqs.append("(alist-get %s '%s 'dflt)" % (kq, al))
        tf = rng.choice(["'eq", "'equal", "#'equal", "(lambda (x y) (tick 4) (equal x y))"])
        if tf == "'eq" and (k[0] in '"(0123456789-'):
            tf = "'equal"      # eq on numbers / fresh strings / lists is about object identity, not C12's business
        reqs.append("(assoc %s '%s %s)" % (kq, al, tf))
        reqs.append("(alist-get %s '%s nil nil %s)" % (kq, al, tf))
        # test functions that treat their two arguments differently: (TESTFN element-key KEY), as in Emacs
        atf = rng.choice(["(lambda (x y) (and (numberp x) (numberp y) (< x y)))", "(lambda (x y) (eq x 'a))", "(lambda (x y) (eq y 'a))",
                          "(lambda (x y) (tick 4) (and (consp x) (not (consp y))))", "(lambda (x y) (and (numberp x) (numberp y) (> x y)))",
                          "(lambda (x y) (setq seen (cons (list x y) seen)) nil)"])
        nal = "(" + " ".join("(%d . %s)" % (rng.randint(0, 4), rng.choice(ELEMS)) for _ in range(rng.randint(0, 4))) + ")"
        use = rng.choice([al, nal, nal])
        kk = rng.choice([kq, str(rng.randint(0, 4))])
        reqs.append("(progn (setq seen nil) (list (assoc %s '%s %s) seen))" % (kk, use, atf))
        reqs.append("(progn (setq seen nil) (list (alist-get %s '%s 'dflt nil %s) seen))" % (kk, use, atf))
        if rng.random() < 0.3:
            reqs.append("(assoc %d '%s '<)" % (rng.randint(0, 4), nal))
            reqs.append("(alist-get %d '%s nil nil '>)" % (rng.randint(0, 4), nal))
        pk = ["a", "b", ":k", ":j", "c"]
        pl = "(" + " ".join("%s %s" % (rng.choice(pk), rng.choice(ELEMS)) for _ in range(rng.randint(0, 4))) + (" " + rng.choice(pk) if rng.random() < 0.2 else "") + ")"
        pkk = rng.choice(pk)
        reqs.append("(plist-get '%s %s)" % (pl, pkk if pkk[0] == ":" else "'" + pkk))
    lines = []
    for k, e in enumerate(reqs):
        if k % 30 == 0: lines.append("NEW")
        lines.append("EVAL " + e)
        if "tick" in e: lines.append("TICKS")
    return {"lines": lines, "distribution": {"lists": len(ls), "requests": len(reqs)}}

def count_nontrivial(lines, impl, model):
    return len({l for i, l in enumerate(lines) if l.startswith("EVAL") and (impl[i] or "").startswith("OK ") and impl[i] != "OK nil"})
