"""C05 — closures keep the local values they were created with."""
from . import common as C

ID = "C05"
LEAN_MODULE = "Tulisp.Props.C05"
THEOREMS = []
RULE = ("lambdas with 0-3 captured and 0-2 non-captured free variables and 0-2 parameters (names overlapping), captured "
        "occurrences placed in arguments, nested lists, quoted data, backquote, dotted tails, inner let, inner lambda; "
        "created under let, let*, a function parameter, or with only a global binding (must not capture); later called "
        "with the same names rebound, unbound or assigned, 1-4 calls per closure, with setq on captured names inside; "
        "compared with the model on every call result and on the outer variables; non-trivial = distinct cases in which "
        "the closure is called at least twice or under a rebinding of a captured name")
ASSUMPTIONS = ["let binds sequentially (known finding): a lambda in a later let binding captures earlier bindings of the same let"]

def gen_case(rng):
    caps = rng.sample(["x", "y", "z"], rng.randint(0, 3))
    free = rng.sample(["p", "q"], rng.randint(0, 2))
    params = rng.sample(["x", "a", "q"], rng.randint(0, 2))
    shape = rng.random()
    plist_txt = None
    if shape < 0.25 and params:
        # the lambda's own &optional / &rest parameters, possibly named like captured variables, are resolved at call time
        k = rng.randint(0, len(params))
        extra = rng.choice([n for n in ["x", "y", "z", "q"] if n not in params])
        plist_txt = " ".join(params[:k] + (["&optional"] + params[k:] if params[k:] and rng.random() < 0.5 else params[k:]) + ["&rest", extra])
        params = params + [extra] + ([] if rng.random() < 0.5 else ["_more"])      # one or two values for the &rest parameter
    uses = []
    pool = caps + free + [p for p in params if p != "_more"] + ["x"]
    for _ in range(rng.randint(1, 4)):
        v = rng.choice(pool)
        k = rng.choice(["plain", "arith", "list", "quoted", "bq", "dotted", "let", "inner", "setq", "setqret", "cond",
                        "bqdot", "bqnest", "bqdeep", "bqquote", "bqquote2", "shadowparam", "shadowparam2", "fnq", "dolist", "mapcar", "andor", "when", "vecq", "dotcall"])
        if k == "plain": uses.append(v)
        elif k == "arith": uses.append("(if (numberp %s) (+ %s 1) %s)" % (v, v, v))
        elif k == "list": uses.append("(list %s (list %s))" % (v, v))
        elif k == "quoted": uses.append("'(%s . %s)" % (v, v))
        elif k == "bq": uses.append("`(%s ,%s ,@(list %s))" % (v, v, v))
        elif k == "dotted": uses.append("(quote (1 . %s))" % v)
        elif k == "bqquote": uses.append("`(k ,%s ',%s (b ',%s) '(q ,@(list %s)) #',%s)" % (v, v, v, v, v))
        elif k == "bqquote2": uses.append("`',%s" % v)
        elif k == "shadowparam": uses.append("(mapcar (lambda (%s) (list %s 'in)) (list 1 2))" % (v, v))          # an inner lambda's own parameter named like a captured variable
        elif k == "shadowparam2": uses.append("(funcall (lambda (%s) (setq %s (list %s 'assigned)) %s) 'inner-arg)" % (v, v, v, v))
        elif k == "bqdot": uses.append("`(%s . ,%s)" % (v, v))
        elif k == "bqnest": uses.append("`((,%s) (k . ,%s) ,@(list %s) . ,%s)" % (v, v, v, v))
        elif k == "bqdeep": uses.append("`(1 (2 (3 ,%s . ,%s)) ,(list %s `(,%s)))" % (v, v, v, v))
        elif k == "fnq": uses.append("(funcall #'(lambda (w) (list w %s)) %s)" % (v, v))
        elif k == "dolist": uses.append("(let ((acc nil)) (dolist (e (list %s 1)) (setq acc (cons (list e %s) acc))) acc)" % (v, v))
        elif k == "mapcar": uses.append("(mapcar (lambda (e) (list e %s)) (list %s))" % (v, v))
        elif k == "andor": uses.append("(or (and %s (list %s)) %s)" % (v, v, v))
        elif k == "when": uses.append("(when t (unless nil (if-let ((w %s)) (list w %s) %s)))" % (v, v, v))
        elif k == "vecq": uses.append("(list '%s `%s `,%s)" % (v, v, v))
        elif k == "dotcall": uses.append("(cons %s %s)" % (v, v))
        elif k == "let": uses.append("(let ((%s (list 'inner %s))) %s)" % (v, v, v))
        elif k == "inner": uses.append("(funcall (lambda () %s))" % v)
        elif k == "setq": uses.append("(setq %s (if (numberp %s) (+ %s 10) 'set))" % (v, v, v))
        elif k == "setqret": uses.append("(progn (setq %s (cons 'k %s)) %s)" % (v, v, v))
        else: uses.append("(cond ((null %s) 'nul) (t %s))" % (v, v))
    body = "(list %s)" % " ".join(uses)
    lam = "(lambda (%s) %s)" % (plist_txt if plist_txt else " ".join(params), body)
    how = rng.choice(["let", "let*", "param", "global", "let-nested", "two"])
    binds = " ".join("(%s %s)" % (v, rng.choice(["1", "2", "'c", "'(l)"])) for v in caps) or "(dummy 0)"
    if how in ("let", "let*"):
        create = "(setq cl (%s (%s) %s))" % (how, binds, lam)
    elif how == "param":
        ps = " ".join(caps) or "dummy"
        create = "(defun mk (%s) %s) (setq cl (mk %s))" % (ps, lam, " ".join(rng.choice(["5", "'v", "nil"]) for _ in (caps or [0])))
    elif how == "global":
        create = "%s (setq cl %s)" % (" ".join("(setq %s 'glob)" % v for v in caps), lam)
    elif how == "let-nested":
        create = "(setq cl (let (%s) (let ((w 0)) %s)))" % (binds, lam)
    else:
        create = "(let (%s) (setq cl %s) (setq cl2 %s))" % (binds, lam, lam)
    lines = ["NEW"]
    if rng.random() < 0.5:
        lines.append("EVAL " + " ".join("(setq %s 'g%s)" % (v, v) for v in rng.sample(["x", "y", "z", "p", "q", "a"], rng.randint(1, 4))))
    lines.append("EVAL " + create)
    args = lambda: " ".join(rng.choice(["7", "'arg", "nil"]) for _ in params)
    ncalls = rng.randint(1, 4)
    rebound = False
    for i in range(ncalls):
        c = rng.random()
        call = "(funcall cl %s)" % args()
        if c < 0.3 and caps:
            v = rng.choice(caps); call = "(let ((%s 'rebound)) %s)" % (v, call); rebound = True
        elif c < 0.45 and caps:
            v = rng.choice(caps); call = "(progn (setq %s 'assigned) %s)" % (v, call); rebound = True
        elif c < 0.55:
            call = "(let ((p 'lp) (q 'lq)) %s)" % call
        elif c < 0.65 and how == "two":
            call = "(list %s (funcall cl2 %s))" % (call, args())
        elif c < 0.72:
            call = "(mapcar (lambda (i) %s) '(1 2))" % call
        lines.append("EVAL " + call)
        lines.append("DUMP x y z p q a")
    return lines, (ncalls >= 2 or rebound)

def nested_cases(rng):
    """closures created inside the body of another closure, with the captured variable changing afterwards"""
    out = []
    v = rng.choice(["x", "y"])
    init = rng.choice(["1", "10"])
    # an outer closure that bumps its captured variable and returns an inner closure reading it
    mk = "(setq mk (let ((%s %s)) (lambda () (setq %s (+ %s 1)) (lambda () %s))))" % (v, init, v, v, v)
    out.append(["NEW", "EVAL " + mk, "EVAL (setq r1 (funcall mk))", "EVAL (setq r2 (funcall mk))",
                "EVAL (list (funcall r1) (funcall r2) (funcall r1))", "DUMP x y"])
    # sibling inner closures from one outer closure: a setter and a getter
    mk2 = "(setq mk2 (let ((%s %s)) (lambda () (list (lambda (nv) (setq %s nv)) (lambda () %s)))))" % (v, init, v, v)
    out.append(["NEW", "EVAL " + mk2, "EVAL (setq pair (funcall mk2))", "EVAL (funcall (car pair) 77)",
                "EVAL (funcall (car (cdr pair)))", "EVAL (setq pair2 (funcall mk2))", "EVAL (funcall (car (cdr pair2)))", "DUMP x y"])
    # counters made by a factory called twice
    mk3 = "(defun make-counter () (let ((%s 0)) (lambda () (setq %s (+ %s 1)) %s)))" % (v, v, v, v)
    out.append(["NEW", "EVAL " + mk3, "EVAL (setq c1 (make-counter))", "EVAL (setq c2 (make-counter))",
                "EVAL (list (funcall c1) (funcall c1) (funcall c2) (funcall c1) (funcall c2))", "DUMP x y"])
    # inner closure created under a let inside the outer closure's body, outer variable assigned later
    mk4 = ("(setq mk4 (let ((%s %s)) (lambda (k) (let ((inner (lambda () (list %s k)))) (setq %s (+ %s k)) (list inner (funcall inner))))))"
           % (v, init, v, v, v))
    out.append(["NEW", "EVAL " + mk4, "EVAL (setq p1 (funcall mk4 5))", "EVAL (setq p2 (funcall mk4 7))",
                "EVAL (list (funcall (car p1)) (funcall (car p2)) (car (cdr p1)) (car (cdr p2)))", "DUMP x y"])
    for shape in ["(defun app2 (%s g) (list %s (funcall g)))", "(defun app2 (%s &optional g) (list %s (funcall g) (funcall g)))", "(defun app2 (%s g) (setq %s 'callee-set) (list %s (funcall g)))"]:
        d = shape.replace("%s", v)
        out.append(["NEW", "EVAL " + d, "EVAL (let ((%s 10)) (app2 1 (lambda () %s)))" % (v, v), "EVAL (let ((%s 10)) (app2 1 (lambda () (setq %s (+ %s 1)) %s)))" % (v, v, v, v),
                    "EVAL (let ((%s 10)) (funcall (lambda (%s g) (list %s (funcall g))) 2 (lambda () %s)))" % (v, v, v, v),
                    "EVAL (setq keep (let ((%s 10)) (app2 3 (lambda () (lambda () %s)))))" % (v, v), "EVAL (funcall (car (cdr keep)))", "DUMP x y"])
    # two DIFFERENT symbols with one print name (an interned one and an uninterned one, as a hygienic macro would make), both locally
    # bound to different values where the lambda is created: each keeps its own value and its own assignments
    for nm in ["x", "factor"]:
        mk = ("(setq u (make-symbol \"%s\")) (setq cl (eval (list 'let (list (list '%s 3) (list u 6)) (list 'lambda nil (list 'list '%s u (list 'setq u (list '+ u 1)) '%s)))))"
              % (nm, nm, nm, nm))
        out.append(["NEW", "EVAL " + mk, "EVAL (funcall cl)", "EVAL (funcall cl)", "EVAL (let ((%s 100)) (funcall cl))" % nm, "DUMP x y"])
        mk2 = ("(defmacro with-hidden (v &rest body) (let ((h (make-symbol \"%s\"))) (list 'let (list (list h v) (list '%s 2)) (list 'lambda nil (list 'list h '%s (cons 'progn body))))))"
               % (nm, nm, nm))
        out.append(["NEW", "EVAL " + mk2, "EVAL (setq cl (with-hidden 10 (* %s 5)))" % nm, "EVAL (funcall cl)", "EVAL (let ((%s 7)) (funcall cl))" % nm, "DUMP x y"])
    return out

def generate(tier, seed):
    rng = C.rng_for(seed, "C05")
    n = 10000 if tier == "quick" else 300000
    lines, nt = [], 0
    seen = set()
    for _ in range(n):
        l, f = gen_case(rng)
        lines += l
        if f and tuple(l) not in seen:
            seen.add(tuple(l)); nt += 1
    for _ in range(10 if tier == "quick" else 200):
        for c in nested_cases(rng):
            lines += c
            if tuple(c) not in seen:
                seen.add(tuple(c)); nt += 1
    return {"lines": lines, "nontrivial": nt, "distribution": {"cases": n}}
