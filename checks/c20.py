"""C20 — the Rust embedding API mirrors the Lisp semantics."""
import itertools
from . import common as C

ID = "C20"
LEAN_MODULE = "Tulisp.Props.C20"
THEOREMS = []
RULE = ("object-API operation sequences on live handles (push, append, cons, car/cdr family, deep_copy, list!, "
        "FromIterator) over three list handles and atoms: all sequences up to length 3 (quick) / 4 (thorough) over the "
        "mutating operations, random ones up to length 60, every list handle re-read after every step (so a mutation seen "
        "through another handle is observed); conversions of every value kind through as_*/try_*/TryFrom/Option<_>/bool "
        "and the type predicates; typed iterators; destruct_bind! patterns on lists of every length, dotted lists and atoms; "
        "the alist / plist / list helpers (alist_from, plist_from, assoc, alist_get with and without default, plist_get, length, nth, nthcdr, last) on association lists with repeated keys, nil values, equal-but-not-eq keys and non-pair elements; "
        "symbol-API sequences (set, set_scope, unset, get, boundp) on two names and a keyword, exhaustive up to length 4 / 5, "
        "compared with the heap / stack model; host functions of every parameter-type combination called with argument "
        "lists too short / exact / too long / of the wrong type; non-trivial = distinct operation sequences containing "
        "at least one mutation or binding operation")
ENV = {"VERIF_STALL": "15"}
ASSUMPTIONS = ["bool parameters of #[tulisp_fn] do not compile with the 0.4.1 proc-macro crate (TryFrom<TulispObject> for bool is Infallible): not exercised",
               "symbol-API names are disjoint from the names used by evaluated programs in the same case"]

SETUP = ["API new nil", "API new int 1", "API new int 2", "API list 1 2", "API new int 7", "API new str s", "API new sym foo",
         "API cons 1 2", "API new nil"]
# handles: 0 nil, 1 int1, 2 int2, 3 (1 2), 4 int7, 5 "s", 6 foo, 7 (1 . 2), 8 nil
LISTS = [0, 3, 8]
def shows(n): return ["API show %d" % k for k in n]

def mut_ops():
    ops = []
    # append of a temporary cons (x . tail) that no handle keeps, whose tail IS kept: the tail must not be shared
    for a in LISTS:
        for tl in LISTS:
            ops.append("API appendtmp %d 4 %d" % (a, tl))
    for a in LISTS:
        for b in LISTS + [4, 7]:
            if not (b in LISTS and b <= a):      # a list is pushed only onto a list created before it: no cycles
                ops.append("API push %d %d" % (a, b))
            ops.append("API append %d %d" % (a, b))
        ops.append("API cdr %d" % a)
        ops.append("API deepcopy %d" % a)
    return ops

def generate(tier, seed):
    rng = C.rng_for(seed, "C20")
    lines, nt = [], 0
    ops = mut_ops()
    L = 2 if tier == "quick" else 3
    seqs = []
    for n in range(1, L + 1):
        allseq = list(itertools.product(ops, repeat=n))
        lim = 2500 if tier == "quick" else 60000
        if len(allseq) > lim: allseq = rng.sample(allseq, lim)
        seqs += [list(x) for x in allseq]
    more = ops + ["API push 7 4", "API append 7 3", "API push 4 1", "API append 5 3", "API appendtmp 3 4 8", "API appendtmp 0 1 3", "API appendtmp 8 4 3", "API cons 3 0", "API append 3 3", "API append 0 0", "API car 3", "API cddr 3", "API cadr 3",
                  "API caar 3", "API cdar 7", "API caddr 3", "API car 4", "API cdr 5", "API fromiter 1 2 4", "API list 3 3", "API list", "API eq 3 3",
                  "API equal 3 7", "API eq 0 8", "API len 3", "API len 4"]
    for _ in range(400 if tier == "quick" else 8000):
        n = rng.randint(3, 60 if tier == "thorough" else 25)
        sq = []
        nh = 9
        for _ in range(n):
            o = rng.choice(more)
            # sometimes target a handle created during the sequence
            if rng.random() < 0.3 and nh > 9 and o.split()[1] in ("push", "append", "cdr", "car", "deepcopy", "len"):
                parts = o.split(); parts[2] = str(rng.randint(9, nh - 1))
                if parts[1] == "push": parts[3] = "4"       # only an atom is pushed onto a sub-list (no cycles)
                o = " ".join(parts)
            sq.append(o)
            if o.split()[1] in ("cdr", "car", "deepcopy", "cddr", "cadr", "caar", "cdar", "caddr", "fromiter", "list", "cons"): nh += 1
        seqs.append(sq)
    for sq in seqs:
        lines += ["NEW"] + SETUP
        created = 9
        for o in sq:
            lines.append(o)
            if o.split()[1] in ("cdr", "car", "deepcopy", "cddr", "cadr", "caar", "cdar", "caddr", "fromiter", "list", "cons"):
                created += 1      # may be an ERR, then the handle does not exist: show answers BADCMD on both sides
            lines += shows(LISTS + [7])
        lines += shows(range(9, min(created, 20)))
        nt += 1
    # the alist / plist / list helpers of src/lists.rs through the object API
    EXTRA = ["API new sym a", "API new sym b", "API new str s", "API new int 1", "API list 1 2", "API new float 3ff0000000000000", "API new sym :k"]
    # handles 9 a, 10 b, 11 "s" (equal, not eq, to 5), 12 1 (equal to handle 1), 13 (1 2) (equal to 3), 14 1.0, 15 :k
    keys = [9, 10, 5, 11, 1, 12, 3, 13, 0, 6, 14, 15, 4]
    valsh = [0, 4, 3, 8, 10, 7, 5]
    def helper_case(pairs, elems_extra, kind):
        ls = ["NEW"] + SETUP + EXTRA
        nh = 16
        if kind == "from":
            ls.append("API alist_from " + " ".join("%d %d" % kv for kv in pairs)); al = nh; nh += 1
            ls.append("API plist_from " + " ".join("%d %d" % kv for kv in pairs)); pl = nh; nh += 1
        else:
            cells = []
            for k, v in pairs:
                ls.append("API cons %d %d" % (k, v)); cells.append(nh); nh += 1
            mix = cells + elems_extra
            ls.append(("API list " + " ".join(map(str, mix))).strip()); al = nh; nh += 1
            ls.append(("API list " + " ".join("%d %d" % kv for kv in pairs)).strip() + ("" if not elems_extra else " %d" % elems_extra[0])); pl = nh; nh += 1
        ls += ["API show %d" % al, "API show %d" % pl]
        for k in keys:
            ls += ["API assoc %d %d" % (k, al), "API showlast", "API alist_get %d %d" % (k, al), "API showlast",
                   "API alist_get %d %d 4" % (k, al), "API showlast", "API plist_get %d %d" % (pl, k), "API showlast"]
        for h in (al, pl, 7, 4, 0):
            ls += ["API llen %d" % h, "API llast %d none" % h, "API showlast"]
            for n in (-1, 0, 1, 2, 3, 7):
                ls += ["API lnth %d %d" % (n, h), "API showlast", "API lnthcdr %d %d" % (n, h), "API showlast", "API llast %d %d" % (h, n), "API showlast"]
        ls += ["API show %d" % al, "API show %d" % pl]
        return ls
    hc = 0
    for n in range(0, 4):
        for _ in range(1 if n == 0 else (60 if tier == "quick" else 1500)):
            pairs = [(rng.choice(keys), rng.choice(valsh)) for _ in range(n)]
            if rng.random() < 0.5 and n >= 2: pairs[-1] = (pairs[0][0], rng.choice(valsh))      # a repeated key: the first one wins
            kind = rng.choice(["from", "built"])
            extra = [rng.choice([4, 9, 0, 5])] if (kind == "built" and rng.random() < 0.5) else []
            lines += helper_case(pairs, extra, kind); hc += 1
    for _ in range(60 if tier == "quick" else 1000):
        # a nested list of depth 3 built from handles, then every accessor pair compared on it and on its sub-lists
        ls = ["NEW"] + SETUP
        nh = 9
        subs = []
        for _ in range(rng.randint(2, 4)):
            ls.append("API list " + " ".join(str(rng.choice([1, 2, 4, 5, 6, 0, 3, 7] + subs)) for _ in range(rng.randint(0, 5)))); subs.append(nh); nh += 1
        ls.append("API list " + " ".join(str(rng.choice(subs + [1, 3])) for _ in range(rng.randint(2, 5)))); top = nh; nh += 1
        for hh in subs + [top, 7, 4, 0]:
            ls.append("API cxrcmp %d" % hh)
        lines += ls
    # conversions
    vals = ["new int 5", "new int -3", "new int 9223372036854775807", "new float 4004000000000000", "new float 3ff0000000000000",
            "new float c00c000000000000", "new float 7ff0000000000000", "new str abc", "new str ", "new str é\\nq", "new bool 1", "new bool 0",
            "new nil", "new t", "new sym foo", "new sym :kw", "list 1 2", "cons 1 2", "list"]
    convs = ["as_int", "try_int", "as_float", "try_float", "as_string", "as_symbol", "i64", "f64", "string", "bool", "opt_i64", "opt_string", "preds", "i64_ref", "f64_ref", "opt_f64"]
    for v in vals:
        lines += ["NEW"] + SETUP + ["API " + v]
        for cv in convs: lines.append("API conv 9 " + cv)
        lines += ["API show 9", "API iter 9 int", "API iter 9 any", "API deepcopy 9", "API show 10", "API eq 9 10", "API equal 9 10"]
    # typed iterators and destruct_bind
    items = ["1", "2", "4", "5", "6", "3", "7", "0"]
    for n in range(0, 5):
        for t in (itertools.product(items, repeat=n) if n <= 2 else [tuple(rng.choice(items) for _ in range(n)) for _ in range(30)]):
            lines += ["NEW"] + SETUP + ["API list " + " ".join(t)]
            lines += ["API iter 9 int", "API iter 9 float", "API iter 9 str", "API iter 9 any", "API len 9"]
            for p in "1234": lines.append("API db %s 9" % p)
    for h in [4, 5, 6, 7, 0]:
        lines += ["NEW"] + SETUP + ["API db %s %d" % (p, h) for p in "1234"]
    lines += ["NEW"] + SETUP + ["API cons 1 7", "API db 2 9", "API db 4 9", "API db 3 9", "API db 1 9"]
    # symbol API = stack model
    sops = []
    for nm in ["api-x", "api-y", ":api-k"]:
        sops += ["API sym set %s 1" % nm, "API sym set %s 3" % nm, "API sym setscope %s 2" % nm, "API sym setscope %s 5" % nm, "API sym unset %s" % nm]
    SL = 3 if tier == "quick" else 4
    sseqs = []
    for n in range(1, SL + 1):
        allseq = list(itertools.product(sops, repeat=n))
        lim = 3000 if tier == "quick" else 60000
        if len(allseq) > lim: allseq = rng.sample(allseq, lim)
        sseqs += [list(x) for x in allseq]
    for _ in range(200 if tier == "quick" else 4000):
        sseqs.append([rng.choice(sops) for _ in range(rng.randint(5, 40))])
    for sq in sseqs:
        lines += ["NEW"] + SETUP
        k = 9
        for o in sq:
            lines.append(o)
            for nm in ["api-x", "api-y", ":api-k"]:
                lines += ["API sym boundp " + nm, "API sym get " + nm, "API show %d" % k]
                k += 1          # on ERR no handle is created and show answers BADCMD on both sides; keep k in step only on success
                lines.append("#")
        nt += 1
    # the k bookkeeping above is approximate: replace show-by-index with a robust form
    lines = fix_symbol_shows(lines)
    # host functions
    args = ["1", "2.5", '"s"', "'sym", "nil", "'(1 2)", "t"]
    for f in ["h-two", "h-opt", "h-rest", "h-int", "h-float", "h-str", "h-bool"]:
        for n in range(0, 4):
            for t in (itertools.product(args, repeat=n) if n <= 2 else [tuple(rng.choice(args) for _ in range(n)) for _ in range(25)]):
                call = "(%s %s)" % (f, " ".join("(progn (tick %d) %s)" % (i + 1, a) for i, a in enumerate(t)))
                lines += ["NEW", "EVAL " + call, "TICKS"]
    # host functions applied to values that are already evaluated: through the higher-order built-ins and through
    # TulispContext::funcall / map / filter / reduce (CTXCALL); values that are not self-evaluating (symbols, lists, quote /
    # backquote / function-quote objects, a symbol bound to something else) must arrive as they are
    hvals = ["1", "'sym", "''qa", "'(quote qb)", "'`bq", "'#'car", "'(car x)", '"s"', "nil", "x", "'(1 'two (3))", ":k", "2.5", "'',uq"]
    pre = "EVAL (setq x 'xval) (setq sym 'symval) (setq qa 'qaval)"
    for f in ["h-opt", "h-rest", "h-bool", "h-two", "h-int", "h-str", "h-float"]:
        for _ in range(6 if tier == "quick" else 60):
            a, b, c3 = (rng.choice(hvals) for _ in range(3))
            lst = "(list %s %s %s)" % (a, b, c3)
            reqs2 = ["(mapcar '%s %s)" % (f, lst), "(seq-map #'%s %s)" % (f, lst), "(seq-filter '%s %s)" % (f, lst), "(seq-find '%s %s)" % (f, lst),
                     "(seq-reduce '%s %s %s)" % (f, lst, a), "(funcall '%s %s %s)" % (f, a, b), "(sort %s '%s)" % (lst, f),
                     "(assoc %s (list (cons %s 1) (cons %s 2)) '%s)" % (a, b, c3, f), "(%s %s %s)" % (f, a, b)]
            lines += ["NEW", pre] + ["EVAL " + q for q in reqs2]
            lines += ["CTXCALL funcall (list '%s (list %s %s))" % (f, a, b), "CTXCALL funcall (list '%s (list %s))" % (f, a),
                      "CTXCALL map (list '%s %s)" % (f, lst), "CTXCALL filter (list '%s %s)" % (f, lst),
                      "CTXCALL reduce (list '%s %s %s)" % (f, lst, b), "CTXCALL funcall (list (lambda (p q) (list p q)) (list %s %s))" % (a, b),
                      "CTXCALL map (list 'car (list (list %s) (list %s)))" % (a, b), "CTXCALL funcall (list 'nosuchfn (list 1))",
                      "CTXCALL map (list (lambda (e) (tick 1) e) %s)" % lst, "TICKS", "DUMP x sym qa"]
    return {"lines": lines, "nontrivial": nt, "distribution": {"object_sequences": len(seqs), "symbol_sequences": len(sseqs), "list_helper_cases": hc}}

def fix_symbol_shows(lines):
    # `API sym get` answers `H k` with the model and the implementation numbering handles identically as long as both
    # succeed or fail together, which is what is being compared; drop the index-based shows that may drift.
    out = []
    for l in lines:
        if l == "#": continue
        out.append(l)
    res, i = [], 0
    while i < len(out):
        if out[i].startswith("API sym get") and i + 1 < len(out) and out[i + 1].startswith("API show"):
            res.append(out[i]); res.append("API showlast"); i += 2
        else:
            res.append(out[i]); i += 1
    return res
