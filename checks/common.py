"""Shared machinery of the /verif checks: building, running implementation and model on the
same request lines, comparing, shrinking, evidence.  Python 3 standard library only."""
import json, os, random, resource, subprocess, sys, time, hashlib, re

VERIF = os.path.dirname(os.path.dirname(os.path.abspath(__file__)))
LEAN = os.path.join(VERIF, "lean")
HARNESS = os.path.join(VERIF, "harness")
RUN = os.path.join(VERIF, "run")
MODEL_BIN = os.path.join(LEAN, ".lake", "build", "bin", "tulisp_model")

ALLOWED_AXIOMS = {"propext", "Classical.choice", "Quot.sound"}
MAX_DEATHS = 6            # after this many crashes / hangs of the implementation in one run the campaign stops early
STALL_DEFAULT = "60"      # seconds without a new answer after which the implementation counts as hung

def log(*a):
    print(*a, file=sys.stderr, flush=True)

def esc(s):
    out = []
    for ch in s:
        if ch == "\n": out.append("\\n")
        elif ch == "\r": out.append("\\r")
        elif ch == "\t": out.append("\\t")
        elif ch == "\\": out.append("\\\\")
        elif ord(ch) < 0x20 or ord(ch) == 0x7f: out.append("\\u{%x}" % ord(ch))
        else: out.append(ch)
    return "".join(out)

# ------------------------------------------------------------------------------------------
# building

def sh(cmd, cwd=None, env=None, timeout=None):
    e = dict(os.environ)
    e["CARGO_NET_OFFLINE"] = "true"
    if env: e.update(env)
    p = subprocess.run(cmd, cwd=cwd, env=e, shell=isinstance(cmd, str), stdout=subprocess.PIPE,
                       stderr=subprocess.STDOUT, text=True, timeout=timeout)
    return p.returncode, p.stdout

def build_harness(profile):
    args = ["cargo", "build", "--offline"] + (["--release"] if profile == "release" else [])
    rc, out = sh(args, cwd=HARNESS, timeout=1200)
    if rc != 0:
        log(out[-4000:])
        raise SystemExit("harness build failed (%s)" % profile)
    return os.path.join(HARNESS, "target", "release" if profile == "release" else "debug", "harness")

def build_lean(targets):
    """lake build of the given targets; returns (ok, output)."""
    rc, out = sh(["lake", "build"] + targets, cwd=LEAN, timeout=3600)
    return rc == 0, out

FORBIDDEN = re.compile(r"\b(sorry|admit|native_decide|bv_decide|implemented_by)\b|^\s*axiom\s|\bunsafe\s|maxHeartbeats\s+0")

def strip_comments(src):
    # remove /- … -/ (nesting) and -- … comments
    out, i, depth = [], 0, 0
    while i < len(src):
        if src.startswith("/-", i):
            depth += 1; i += 2; continue
        if src.startswith("-/", i) and depth > 0:
            depth -= 1; i += 2; continue
        if depth == 0:
            if src.startswith("--", i):
                j = src.find("\n", i)
                i = len(src) if j < 0 else j
                continue
            out.append(src[i])
        elif src[i] == "\n":
            out.append("\n")
        i += 1
    return "".join(out)

def audit_sources():
    """grep the Lean sources (comments removed) for sorry/admit/axiom/native_decide/…"""
    hits = []
    for root, _, files in os.walk(LEAN):
        if ".lake" in root: continue
        for f in files:
            if not f.endswith(".lean"): continue
            p = os.path.join(root, f)
            src = strip_comments(open(p).read())
            for n, line in enumerate(src.split("\n"), 1):
                # string literals may mention the words
                l2 = re.sub(r'"([^"\\]|\\.)*"', '""', line)
                if FORBIDDEN.search(l2):
                    hits.append("%s:%d: %s" % (os.path.relpath(p, VERIF), n, line.strip()))
    return hits

def print_axioms(module, theorems):
    """#print axioms on each theorem; returns {theorem: [axioms]} or raises."""
    src = "import %s\n" % module + "".join("#print axioms %s\n" % t for t in theorems)
    p = subprocess.run(["lake", "env", "lean", "--stdin"], cwd=LEAN, input=src, text=True,
                       stdout=subprocess.PIPE, stderr=subprocess.STDOUT, timeout=1800)
    res = {}
    out = p.stdout
    # messages: "'Name' depends on axioms: [a, b]" or "'Name' does not depend on any axioms"
    for m in re.finditer(r"'(\S+)' depends on axioms: \[([^\]]*)\]", out, re.S):
        res[m.group(1)] = [a.strip() for a in m.group(2).replace("\n", " ").split(",") if a.strip()]
    for m in re.finditer(r"'(\S+)' does not depend on any axioms", out):
        res[m.group(1)] = []
    return res, out

# ------------------------------------------------------------------------------------------
# running

def _limits():
    try:
        resource.setrlimit(resource.RLIMIT_STACK, (resource.RLIM_INFINITY, resource.RLIM_INFINITY))
    except Exception:
        try:
            resource.setrlimit(resource.RLIMIT_STACK, (4 << 30, 4 << 30))
        except Exception:
            pass

def _memlimit():
    # a runaway request (e.g. a structure that doubles in a nested loop) must not take the machine down
    try:
        resource.setrlimit(resource.RLIMIT_AS, (16 << 30, 16 << 30))
    except Exception:
        pass

def _limits_model():
    _limits(); _memlimit()

def run_lines(binary, lines, env=None, timeout=900, model=False):
    """Feed request lines to a protocol executable; returns the list of answer lines (may be
    shorter than the input if the process died) and the exit status."""
    e = dict(os.environ)
    e.pop("RUST_BACKTRACE", None)
    e["HARNESS_SCRATCH"] = os.path.join(RUN, "files")
    if env: e.update(env)
    data = "\n".join(lines) + "\n"
    if model:
        try:
            p = subprocess.run([binary], input=data, text=True, stdout=subprocess.PIPE,
                               stderr=subprocess.DEVNULL, env=e, timeout=timeout, preexec_fn=_limits_model)
            out = p.stdout.split("\n")
            if out and out[-1] == "": out.pop()
            return out, p.returncode
        except subprocess.TimeoutExpired as ex:
            raw = ex.stdout or ""
            if isinstance(raw, bytes): raw = raw.decode("utf-8", "replace")
            out = raw.split("\n")
            if out and out[-1] == "": out.pop()
            if out: out.pop()      # the last line may be partial
            return out, "timeout"
    # the implementation answers into a file: print / princ of the program under test write to stdout
    os.makedirs(RUN, exist_ok=True)
    import threading
    outp = os.path.join(RUN, "answers-%d-%d-%d.txt" % (os.getpid(), threading.get_ident() % 10**6, int(time.time() * 1e6) % 10**9))
    e["HARNESS_OUT"] = outp
    rc = None
    inp = outp + ".in"
    with open(inp, "w", encoding="utf-8") as f:
        f.write(data)
    stall = float(e.get("VERIF_STALL", STALL_DEFAULT))
    with open(inp, "rb") as fin:
        p = subprocess.Popen([binary], stdin=fin, stdout=subprocess.DEVNULL, stderr=subprocess.DEVNULL, env=e, preexec_fn=_memlimit)
        t0 = time.time(); last_size = -1; last_change = t0
        while True:
            try:
                rc = p.wait(timeout=0.2)
                break
            except subprocess.TimeoutExpired:
                pass
            now = time.time()
            try: size = os.path.getsize(outp)
            except OSError: size = 0
            if size != last_size:
                last_size = size; last_change = now
            # a request that produces no answer for `stall` seconds counts as hung
            if now - t0 > timeout or now - last_change > stall:
                p.kill(); p.wait(); rc = "timeout"
                break
    try: os.remove(inp)
    except OSError: pass
    try:
        raw = open(outp, encoding="utf-8", errors="replace").read()
    except FileNotFoundError:
        raw = ""
    try: os.remove(outp)
    except OSError: pass
    out = raw.split("\n")
    if out and out[-1] == "": out.pop()
    elif out and rc is not None and rc != 0: out.pop()   # partial last line
    return out, rc

def case_starts(lines):
    return [i for i, l in enumerate(lines) if l == "NEW"]

def run_resilient(binary, lines, env=None, timeout=900, model=False, died_marker="ABORT"):
    """Like run_lines, but when the process dies or hangs in the middle, the case (NEW … next
    NEW) it was in gets `died_marker` answers from the failing request on and the run resumes with
    the next case.  The first pass runs with buffered output; after a death the run is resumed
    from the start of the affected case with per-line flushing, so that the position is exact."""
    answers = [None] * len(lines)
    starts = case_starts(lines) or [0]
    pos = 0
    e2 = dict(env or {})
    exact = bool(model) or ("HARNESS_FLUSH" in e2)
    deaths = 0
    while pos < len(lines):
        if deaths >= MAX_DEATHS:
            # enough evidence: the remaining cases are not run (their answers stay None and are not compared)
            for k in range(pos, len(lines)):
                answers[k] = "UNRUN"
            break
        out, rc = run_lines(binary, lines[pos:], env=e2, timeout=timeout, model=model)
        for k, a in enumerate(out):
            if pos + k < len(lines):
                answers[pos + k] = a
        done = pos + len(out)
        if done >= len(lines):
            break
        if not exact:
            # answers may have been lost in the output buffer: redo from the start of that case
            e2["HARNESS_FLUSH"] = "1"
            exact = True
            pos = max([s for s in starts if s <= done] or [0])
            continue
        # the process stopped while answering line `done`
        marker = "TIMEOUT" if rc == "timeout" else died_marker
        deaths += 1
        nxt = next((s for s in starts if s > done), len(lines))
        for k in range(done, nxt):
            answers[k] = marker
        pos = nxt
    return answers

def safe_boundaries(lines):
    """indices of NEW lines at which a run may be cut: the default context session (CTX 0) is selected"""
    out, ctx0 = [], True
    for i, l in enumerate(lines):
        if l.startswith("CTX "):
            ctx0 = l.strip() == "CTX 0"
        elif l == "NEW" and ctx0:
            out.append(i)
    return out

def run_parallel(binary, lines, jobs=1, min_lines=2000, **kw):
    """run_resilient on `jobs` consecutive chunks of the request list (cut at case boundaries) in parallel processes;
    the chunking depends only on the request list, so the answers are reproducible"""
    if jobs <= 1 or len(lines) < min_lines:
        return run_resilient(binary, lines, **kw)
    bounds = safe_boundaries(lines)
    cuts, target = [0], len(lines) / float(jobs)
    for b in bounds:
        if b >= target * len(cuts) and b > cuts[-1] and len(cuts) < jobs:
            cuts.append(b)
    cuts.append(len(lines))
    chunks = [lines[a:b] for a, b in zip(cuts, cuts[1:]) if b > a]
    from concurrent.futures import ThreadPoolExecutor
    with ThreadPoolExecutor(max_workers=jobs) as ex:
        parts = list(ex.map(lambda ch: run_resilient(binary, ch, **kw), chunks))
    out = []
    for part in parts: out += part
    return out

# ------------------------------------------------------------------------------------------
# comparison

def norm_answer(a, strict_err=False):
    if a is None: return "MISSING"
    if a.startswith("ERR") and not strict_err:
        return "ERR"
    return a

def split_cases(lines):
    cases, cur = [], []
    for i, l in enumerate(lines):
        if l == "NEW" and cur:
            cases.append(cur); cur = []
        cur.append(i)
    if cur: cases.append(cur)
    return cases

class Outcome:
    def __init__(self):
        self.evaluations = 0        # cases compared
        self.requests = 0
        self.skipped = 0            # model gave up (fuel / float formatting)
        self.disagreements = []     # (case_lines, impl, model, why)
        self.impl_panics = []
        self.kinds = {}

def compare(lines, impl, model, strict_err=False, ignore=None, normalize=None):
    """Compare per case.  A case in which the model answered SKIP anywhere is not compared
    from that line on."""
    oc = Outcome()
    for idxs in split_cases(lines):
        oc.evaluations += 1
        bad = None
        for i in idxs:
            oc.requests += 1
            a, b = impl[i], model[i]
            if b is not None and b.startswith("SKIP"):
                oc.skipped += 1
                if b.startswith("SKIP float-fmt"):
                    continue        # only the rendering of this answer was given up; the state is intact
                break
            if a == "UNRUN":
                break
            if a is not None and (a.startswith("PANIC") or a in ("ABORT", "TIMEOUT")):
                oc.impl_panics.append(([lines[j] for j in idxs], i - idxs[0], a))
                bad = None
                break
            if ignore and ignore(lines[i]):
                continue
            na, nb = norm_answer(a, strict_err), norm_answer(b, strict_err)
            if normalize:
                na, nb = normalize(lines[i], na), normalize(lines[i], nb)
            k = na.split(" ")[0]
            oc.kinds[k] = oc.kinds.get(k, 0) + 1
            if na != nb:
                bad = i
                break
        if bad is not None:
            oc.disagreements.append(([lines[j] for j in idxs], bad - idxs[0], impl[bad], model[bad]))
    return oc

# ------------------------------------------------------------------------------------------
# s-expression text utilities for shrinking

def sx_tokens(s):
    return re.findall(r'"(?:[^"\\]|\\.)*"|[()]|\'|`|,@|,|[^\s()\'`,"]+', s)

def sx_parse(s):
    toks = sx_tokens(s)
    pos = 0
    def rd():
        nonlocal pos
        if pos >= len(toks): raise ValueError
        t = toks[pos]; pos += 1
        if t == "(":
            l = []
            while pos < len(toks) and toks[pos] != ")":
                l.append(rd())
            if pos >= len(toks): raise ValueError
            pos += 1
            return l
        if t == ")": raise ValueError
        if t in ("'", "`", ",", ",@"):
            return (t, rd())
        return t
    out = []
    while pos < len(toks):
        out.append(rd())
    return out

def sx_str(x):
    if isinstance(x, list): return "(" + " ".join(sx_str(e) for e in x) + ")"
    if isinstance(x, tuple): return x[0] + sx_str(x[1])
    return x

def sx_shrinks(forms):
    """candidate simplifications of a list of top-level forms"""
    def subs(x):
        # yield (replacement) candidates for node x
        if isinstance(x, list):
            for i in range(len(x)):
                yield x[:i] + x[i+1:]
            for i, e in enumerate(x):
                if isinstance(e, (list, tuple)):
                    yield e if isinstance(e, list) else x
                for r in subs(e):
                    yield x[:i] + [r] + x[i+1:]
            for e in x:
                if isinstance(e, list): yield e
        elif isinstance(x, tuple):
            yield x[1]
            for r in subs(x[1]):
                yield (x[0], r)
        else:
            if x not in ("nil", "1", "a"):
                yield "nil"
                if re.fullmatch(r"-?\d+", x): yield "1"
    for i in range(len(forms)):
        yield forms[:i] + forms[i+1:]
    for i, f in enumerate(forms):
        for r in subs(f):
            yield forms[:i] + [r] + forms[i+1:]

def shrink_case(case_lines, still_fails, budget=150):
    """Greedy shrinking of a failing case: drop request lines, then simplify EVAL texts."""
    cur = list(case_lines)
    tries = 0
    changed = True
    while changed and tries < budget:
        changed = False
        for i in range(len(cur) - 1, 0, -1):
            cand = cur[:i] + cur[i+1:]
            tries += 1
            if still_fails(cand):
                cur = cand; changed = True
                break
            if tries >= budget: break
    # simplify texts
    changed = True
    while changed and tries < budget:
        changed = False
        for i, l in enumerate(cur):
            m = re.match(r"(EVAL|PRINT|PRINC|READ) (.*)$", l)
            if not m or "\\" in m.group(2): continue
            try:
                forms = sx_parse(m.group(2))
            except Exception:
                continue
            for cand_forms in sx_shrinks(forms):
                txt = " ".join(sx_str(f) for f in cand_forms)
                if len(txt) >= len(m.group(2)): continue
                cand = cur[:i] + [m.group(1) + " " + txt] + cur[i+1:]
                tries += 1
                if still_fails(cand):
                    cur = cand; changed = True
                    break
                if tries >= budget: break
            if changed or tries >= budget: break
    return cur

# ------------------------------------------------------------------------------------------
# evidence

def write_json(path, obj):
    os.makedirs(os.path.dirname(path), exist_ok=True)
    tmp = path + ".tmp"
    with open(tmp, "w") as f:
        json.dump(obj, f, indent=1, ensure_ascii=False)
        f.write("\n")
    os.replace(tmp, path)

def rng_for(seed, tag):
    h = hashlib.sha256(("%d/%s" % (seed, tag)).encode()).digest()
    return random.Random(int.from_bytes(h[:8], "big"))
