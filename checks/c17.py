"""C17 — sort returns a stable ordered permutation and leaves its input intact."""
from . import common as C

ID = "C17"
LEAN_MODULE = "Tulisp.Props.C17"
THEOREMS = []
RULE = ("lists of (key . payload) pairs with many duplicate keys, lengths 0..8 over 3 keys exhaustively and random "
        "lengths up to 5000 (thorough 50000), sorted with <, >, string<, lambdas on the key, constant t / nil, "
        "a deterministic inconsistent predicate and predicates that fail at the k-th call; compared with the model's "
        "merge sort (proved a permutation for every predicate, and sorted + stable for strict weak orders) and checked "
        "by the harness for permutation (same objects via eq), order, stability and an unchanged input; "
        "non-trivial = distinct requests with at least 2 elements")
ASSUMPTIONS = []

def generate(tier, seed):
    import itertools
    rng = C.rng_for(seed, "C17")
    reqs = []
    def pairs(keys):
        return "(" + " ".join("(%s . %d)" % (k, i) for i, k in enumerate(keys)) + ")"
    keyp = "(lambda (a b) (< (car a) (car b)))"
    keyg = "(lambda (a b) (> (car a) (car b)))"
    maxn = 6 if tier == "quick" else 8
    for n in range(0, maxn + 1):
        for ks in itertools.product([1, 2, 3], repeat=n):
            l = pairs(ks)
            reqs.append(["(setq l '%s)" % l, "(sort l %s)" % keyp, "l"])
            if n <= 5: reqs.append(["(setq l '%s)" % l, "(sort l %s)" % keyg, "l"])
    preds = ["'<", "'>", "'<=", "(lambda (a b) (< a b))", "(lambda (a b) t)", "(lambda (a b) nil)",
             "(lambda (a b) (tick 1) (< (mod (* a 7) 5) (mod (* b 3) 5)))",       # deterministic, inconsistent
             "(lambda (a b) (tick a) (< a b))", "(lambda (a b) (< (tick b) a))"]
    for _ in range(1000 if tier == "quick" else 12000):
        n = rng.choice([0, 1, 2, 3, 5, 8, 13, 21, 40, 100])
        xs = [rng.randint(-5, 5) for _ in range(n)]
        l = "(" + " ".join(map(str, xs)) + ")"
        p = rng.choice(preds)
        reqs.append(["(setq l '%s)" % l, "(sort l %s)" % p, "l"])
    for _ in range(200 if tier == "quick" else 2500):
        n = rng.randint(2, 30)
        ws = ['"%s"' % "".join(rng.choice("abcé ") for _ in range(rng.randint(0, 3))) for _ in range(n)]
        l = "(" + " ".join(ws) + ")"
        reqs.append(["(setq l '%s)" % l, "(sort l %s)" % rng.choice(["'string<", "'string>", "#'string-lessp"]), "l"])
    for _ in range(80 if tier == "quick" else 1500):
        n = rng.randint(1, 8)
        xs = [rng.randint(0, 5) for _ in range(n)]
        tl = "(list " + " ".join(map(str, xs)) + ")"
        p = rng.choice(["'<", "'>", "(lambda (a b) (< a b))", "(lambda (a b) nil)", "(lambda (a b) t)"])
        arg = rng.choice(["(cons 5 tail)", "(cons 9 (cons 0 tail))", "(cdr tail)", "(nthcdr 2 tail)", "(append '(7 1) tail)", "(append tail nil)",
                          "(let ((tmp (cons 3 tail))) tmp)", "(mapcar '1+ tail)", "`(4 ,@tail)", "`(4 . ,tail)", "(funcall (lambda () (cons 2 tail)))"])
        reqs.append(["(setq tail %s)" % tl, "(setq keep tail)", "(sort %s %s)" % (arg, p), "tail", "(eq keep tail)", "(sort %s %s)" % (arg, p), "tail"])
    for _ in range(40 if tier == "quick" else 800):
        n = rng.randint(2, 9)
        rows = "(" + " ".join("(" + " ".join(str(rng.randint(0, 9)) for _ in range(rng.randint(1, 4))) + ")" for _ in range(n)) + ")"
        p = rng.choice(["(lambda (a b) (< (car (sort a '<)) (car (sort b '<))))", "(lambda (a b) (< (car (sort a '>)) (car (sort b '>))))",
                        "(lambda (a b) (tick 1) (< (length (sort (append a b) '<)) 5))", "(lambda (a b) (equal (sort a '<) (sort a '<)))",
                        "(lambda (a b) (< (car (sort (list (car a) (car b) 3) (lambda (p q) (< (car (sort (list p q) '<)) q)))) (car b)))"])
        reqs.append(["(setq l '%s)" % rows, "(sort l %s)" % p, "l"])
    for _ in range(40 if tier == "quick" else 800):
        n = rng.randint(2, 8)
        rows = "(" + " ".join("(" + " ".join(str(rng.randint(0, 2)) for _ in range(rng.randint(0, 4))) + ")" for _ in range(n)) + ")"
        defs = ("(defun lex< (a b) (cond ((null a) (consp b)) ((null b) nil) ((< (car a) (car b)) t) ((> (car a) (car b)) nil) (t (lex< (cdr a) (cdr b))))) "
                "(defun len< (a b) (if (null b) nil (if (null a) t (len< (cdr a) (cdr b))))) (defun sum< (a b &optional sa sb) (if (or a b) (sum< (cdr a) (cdr b) (+ (or sa 0) (or (car a) 0)) (+ (or sb 0) (or (car b) 0))) (< (or sa 0) (or sb 0))))")
        reqs.append([defs, "(setq l '%s)" % rows, "(sort l '%s)" % rng.choice(["lex<", "len<", "sum<"]), "l", "(sort l #'%s)" % rng.choice(["lex<", "len<"]), "(list (lex< '(1 1) '(1 2)) (lex< '(1 2) '(1 1)))"])
    # erroring predicate at the k-th call
    for n in [2, 3, 5, 8]:
        xs = [rng.randint(0, 3) for _ in range(n)]
        l = "(" + " ".join(map(str, xs)) + ")"
        for k in range(1, 3 * n):
            reqs.append(["FAILAT %d" % k, "(setq l '%s)" % l, "(sort l (lambda (a b) (tick 0) (< a b)))", "l"])
    # type error inside the predicate, non-function predicate, non-list argument
    reqs.append(["(sort '(1 a 2) '<)"]); reqs.append(["(sort '(1 2) 'nosuchfn)"]); reqs.append(["(sort 5 '<)"])
    reqs.append(["(sort '(3 1 2) nil)"]); reqs.append(["(sort '(1 2 . 3) '<)"])
    # elements that are not self-evaluating (symbols bound to numbers, lists that look like calls) with every kind of
    # predicate: the predicate receives the elements themselves
    for el in ["(a b c)", "(c a b a)", "((+ 1 2) (+ 0 1))", "((1 2) (0 1))", "('a 'b)", "(a 2 b 1)", "((a . 1) (b . 0))", "(:k a nil t)"]:
        for p in ["'<", "'>", "'eq", "'equal", "'string<", "#'string<", "'h-two", "(lambda (p q) (tick 1) nil)", "(lambda (p q) (tick 1) t)",
                  "(lambda (p q) (string< (format \"%s\" p) (format \"%s\" q)))", "'f2", "#'f2", "(let ((k 1)) (lambda (p q) (consp p)))"]:
            reqs.append(["(setq a 3) (setq b 1) (setq c 2)", "(defun f2 (p q) (tick 9) (and (symbolp p) (symbolp q) (string< (format \"%s\" p) (format \"%s\" q))))",
                         "(setq l '%s)" % el, "(sort l %s)" % p, "l", "(list a b c)"])
    big = [5000] if tier == "quick" else [5000, 20000, 50000]
    for n in big:
        xs = [rng.randint(0, 50) for _ in range(n)]
        l = pairs(xs)
        reqs.append(["(setq l '%s)" % l, "(sort l %s)" % keyp, "(length l)"])
    lines = []
    for r in reqs:
        lines.append("NEW")
        for e in r:
            if e.startswith("FAILAT"): lines.append(e)
            else: lines.append("EVAL " + e)
        lines.append("TICKS")
    return {"lines": lines, "distribution": {"requests": len(reqs)}}

def count_nontrivial(lines, impl, model):
    return len({l for i, l in enumerate(lines) if l.startswith("EVAL (setq l '((") or (l.startswith("EVAL (setq l '(") and l.count(" ") > 3)})
