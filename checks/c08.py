"""C08 — the reader is total."""
import itertools, os
from . import common as C

ID = "C08"
LEAN_MODULE = "Tulisp.Props.C08"
THEOREMS = []
RULE = ("exhaustive strings over the 16 syntactically significant characters up to a length bound, "
        "random longer ones, strings over an extended alphabet, every prefix of the bundled example programs "
        "and of test-suite programs, token soups (numbers with signs/dots, unterminated strings, dangling quotes); "
        "each is READ (parsed, not run) by the real reader and by the model; non-trivial = distinct inputs whose "
        "reading yields at least one form or a parse error (not the empty program)")
ASSUMPTIONS = ["texts nested deeper than 200 levels are outside the claim (host stack)",
               "the reader is observed through the verif_parse hook (parse without evaluation of the program)"]

ALPHA = list("()'`,@.#\"\;-1a \n")
EXT = ALPHA + list("09+e:tné\t\r")

def example_texts():
    out = []
    d = "/repo/examples"
    if os.path.isdir(d):
        for f in sorted(os.listdir(d)):
            try:
                out.append(open(os.path.join(d, f)).read())
            except Exception:
                pass
    # programs of the test suite (string literals of tulisp_assert!)
    try:
        import re
        src = open("/repo/tests/tests.rs").read()
        for m in re.finditer(r'program:\s*r?#*"((?:[^"\\]|\\.)*)"', src):
            t = m.group(1)
            if 3 < len(t) < 200: out.append(t.replace('\\"', '"').replace("\\\\", "\\"))
    except Exception:
        pass
    return out

def generate(tier, seed):
    rng = C.rng_for(seed, "C08")
    texts = []
    L = 5 if tier == "quick" else 5
    for n in range(0, L + 1):
        for t in itertools.product(ALPHA, repeat=n):
            texts.append("".join(t))
    n_exh = len(texts)
    for _ in range(30000 if tier == "quick" else 2000000):
        n = rng.randint(L + 1, 14)
        texts.append("".join(rng.choice(ALPHA) for _ in range(n)))
    LE = 2 if tier == "quick" else 3
    for n in range(1, LE + 1):
        for t in itertools.product(EXT, repeat=n):
            texts.append("".join(t))
    # token soups
    digits = "0123456789"
    for _ in range(5000 if tier == "quick" else 60000):
        k = rng.randint(1, 25)
        tok = "".join(rng.choice(digits) for _ in range(k))
        for _ in range(rng.randint(0, 3)):
            p = rng.randint(0, len(tok))
            tok = tok[:p] + rng.choice("-.+e") + tok[p:]
        pre = rng.choice(["", "(", "'", "(a ", "`(,", "(1 . "])
        post = rng.choice(["", ")", " )", " . ", "\"", " ;x"])
        texts.append(pre + tok + post)
    for s in ["99999999999999999999", "9223372036854775807", "9223372036854775808", "-9223372036854775808",
              "-9223372036854775809", "-.", "(a .", "(a . ", "(a . b", "(a . b c)", "( . a)", "( . )", "\"abc", "\"a\\", "\"a\\q\"",
              "#", "#a", ",", ",@", "'", "`", "(", ")", "1.", "1..2", "-1.5", "1.5.2", "--1", "1-", "a.b", ".5", "-.5", "5.",
              "(((((((((((((((((((((", "'''''''a", "éé (é)", "(a\tb\rc)", ";c\n1", ";c", "\"\\n\\t\\\\\\\"\""]:
        texts.append(s)
    tails = ["(progn . 1)", "(if x 1 . 2)", "(if . x)", "(cond (x . 7))", "(cond . x)", "(cond x)", "(let ((y 1)) . y)", "(let . x)", "(let* x . 1)", "(f . x)", "(f x . 1)",
             "(when x . 1)", "(unless . x)", "(progn)", "(if)", "(cond)", "(let)", "(and . x)", "(-> . x)", "(->> 1 . x)", "(if-let . x)", "(if-let ((y 1)) . x)",
             "(when-let (y . 1) y)", "(while-let . x)", "(quote . x)", "(quote)", "1", "x", "\"s\"", "(f)", "(lambda . x)", "(lambda (x) . x)", "(defun . x)"]
    shells = ["(defun f () %s)", "(defun f (x) 1 %s)", "'(defun f () %s)", "(if nil (defun f () %s))", "(list '(defun f (x) %s))", "(defmacro m (x) %s)", "'(defmacro m () %s)",
              "(defun f (x) (if x %s 2))", "(defun f (x) (progn (let ((z 1)) %s)))", "(defun f %s 1)", "(defun %s () 1)", "(defmacro m %s 1)", "(defun f (x) %s", "`(defun f () %s)",
              "`(a ,(defun f () %s))", "(defun f (&optional x &rest y) %s)", "(progn (defmacro m (x) (list 'quote x)) (m %s))", "(defun f () (m2 %s)) (defmacro m2 (x) x)"]
    for sh in shells:
        for t in tails:
            texts.append(sh % t)
    import string as _st
    for ch in _st.ascii_letters + _st.digits + "\\\"'`,@#.;()[]{} \n\t-+*/<>=!?$%^&|~_:":
        for tail in ['"', '', 'g"', '4"', '41"', '414"', ' "', '\\"', 'é"', '{41}"', '\n"']:
            texts.append('"\\' + ch + tail)
            texts.append('(a "x\\' + ch + tail + " b)")
    for m in ["when", "unless", "if-let", "if-let*", "when-let", "while-let", "->", "->>", "thread-first", "thread-last", "quote"]:
        for args in ["", "5", "5 1", "x y z", "nil", "nil 1", "(x) 1", "((x)) 1", "((x 1 2)) 1", "(5) 1", "((5 1)) 1", "\"s\" 1", ". 5", "5 . 1", "(x . 1) 2", "((x . 1)) 2", "(()) 1", "x", ":k 1", "((x 1) . 5) 1", "t t", "'a 'b"]:
            for sh in ["(%s %s)", "'(a (%s %s))", "(defun f () (%s %s))", "(list (%s %s)", "`(,(%s %s))"]:
                texts.append(sh % (m, args))
    plists = ["(&rest)", "(&optional)", "(&optional &rest)", "(&rest &optional)", "(a &rest)", "(a &optional)", "(&rest &rest)", "(&rest a b)", "(&optional &optional a)", "(&rest a &rest b)",
              "(a &optional b &rest)", "(&rest . a)", "(a . &rest)", "(&rest (a))", "(&rest 1)", "(&optional nil)", "(nil)", "(t)", "(:k)", "(a a)", "((a))", "(\"s\")", "(1)", "(&rest a)", "(&optional a)",
              "nil", "()", "a", "5", "(a &rest b)", "(&foo a)", "(&optional . a)"]
    for pl in plists:
        for sh in ["(defun f %s 1)", "(defmacro m %s 1)", "(defun f %s)", "'(defun f %s 1)", "(list (defun f %s 1", "(lambda %s 1)", "(defun f %s (f))", "(defmacro m %s) (m)", "(defun f %s 1) (f 1 2)"]:
            texts.append(sh % pl)
    progs = example_texts()
    step = 1 if tier == "thorough" else 3
    for p in progs:
        for i in range(0, len(p) + 1, step):
            texts.append(p[:i])
    lines = []
    for k, t in enumerate(texts):
        if k % 25 == 0:
            lines.append("NEW")
        lines.append("READ " + C.esc(t))
    return {"lines": lines, "exhaustive": False, "evaluations": len(texts),
            "distribution": {"exhaustive_alphabet16_up_to": L, "exhaustive_count": n_exh,
                             "extended_alphabet_up_to": LE, "total_texts": len(texts),
                             "program_prefix_sources": len(progs)}}

def count_nontrivial(lines, impl, model):
    seen = set()
    for i, l in enumerate(lines):
        if l.startswith("READ ") and impl[i] is not None and impl[i] != "OK nil":
            seen.add(l)
    return len(seen)
