"""C19 — contexts are isolated and deterministic; load equals evaluate."""
import os
from . import common as C
from .gen_prog import ProgGen

ID = "C19"
LEAN_MODULE = "Tulisp.Props.C19"
THEOREMS = []
RULE = ("histories of 2-5 programs from the core grammar plus hash-table, gensym/intern and string operations are run "
        "(a) alone in a fresh context, (b) a second time in another fresh context of the same process, (c) interleaved "
        "request by request with 1-3 other live contexts running different histories that define and assign the same "
        "names, (d) in a second process (different ASLR and SipHash keys), (e) with every program loaded from a file "
        "(also through a nested load) instead of evaluated as a string; all transcripts (value or error, tick log, "
        "variables) of one history must be identical, and equal to the model's, which is a pure function of the "
        "history; non-trivial = distinct histories whose transcript contains at least one value and one variable change")
ASSUMPTIONS = ["OS, ASLR and hasher seeds are exercised by running a second process, not modelled"]
SCRATCH = os.path.join(C.RUN, "files")

EXTRA = ["(progn (setq h (make-hash-table)) (puthash 'k 1 h) (puthash \"s\" 2 h) (puthash 1.5 3 h) (list (gethash 'k h) (gethash 1.5 h)))",
         "(list (gensym) (gensym \"q\") gensym-counter)", "(progn (intern \"shared-name\") (setq shared-name 'mine))",
         "(boundp 'shared-name)", "(defun shared-fn () 'v1)", "(shared-fn)", "(format \"%s %S %d\" a \"x\" 3)",
         "(sort '(3 1 2) '<)", "(let ((tb (make-hash-table))) (dolist (k '(a b c d e f g)) (puthash k k tb)) (mapcar (lambda (k) (gethash k tb)) '(g f e d c b a)))",
         "(defmacro shared-mac (x) (list 'list x x))", "(shared-mac 4)",
         "(progn (setq tb (make-hash-table)) (list (prin1-to-string tb) (format \"%s|%S\" tb (list 1 tb))))", "(prin1-to-string (list (make-hash-table) (make-hash-table)))",
         "(format \"%S\" (lambda (x) x))", "(defun max (&rest r) 'my-max)", "(max 1 2)", "(setq min 42)", "(list (boundp 'min) (min 3 4))", "(defmacro when (&rest b) ''hijacked)", "(when t 1)",
         "(progn (defun car (x) 'my-car) (car '(1)))", "(setq list 'shadow)", "(list 1 2)", "(setq a 'set-before-error) (setq b 2) )", "(setq c 'first) (setq c (list c", "(setq a 7) (defmacro ms () (if (boundp 'a) ''was-set ''was-unset)) (ms)",
         "(setq b 1) (defmacro mb () (list 'quote b)) (setq b 2) (mb)", "(defun late () 'defined-at-read) (car 5) (setq a 'after-error)", "(setq a 'x) \"unterminated", "(prin 1)", "(progn (defun my-fa () 1) (defun my-fb () 2) (defun my-fc () 3) (defun my-fd () 4) (my-f))", "(ca '(1))", "(nosuchfn 1 2)", "(strin \"a\" \"b\")",
         "(let ((my-va 1) (my-vb 2)) my-v)", "(setq-x a 1)", "(gethas 1 (make-hash-table))",
         "(let ((h (make-hash-table)) (hits nil)) (dotimes (i 500) (puthash (concat \"key\" \"\") i h)) (dotimes (i 300) (if (gethash (concat \"key\" \"\") h) (setq hits (cons i hits)))) hits)", "(prin1-to-string (list 'car (make-symbol \"u\") (gensym)))",
         "(setq a \"line1\r\nline2\r\n\")", "(list \"x\r\ny\" (length \"\r\n\")\r\n (concat \"a\r\" \"\nb\"))", "(progn\r\n  (setq b \"cr\rlf\ncrlf\r\n\")\r\n  b) ; comment\r\n",
         "(format \"%s|%S\" \"p\r\nq\" \"p\r\nq\")", "(string= \"a\r\nb\" \"a\nb\")"]

def history(rng):
    g = ProgGen(rng, max_depth=3)
    h = []
    if rng.random() < 0.15:
        # the same text evaluated / loaded twice with a macro it uses redefined in between
        use = "(list (cm 1) (cm 2))"
        return ["(defmacro cm (x) (list '+ x 10))", use, "(defmacro cm (x) (list '* x 10))", use, use]
    if rng.random() < 0.06:
        # a long history of small programs: a context that has evaluated / loaded dozens of texts behaves like a young one
        small = ["(setq a (cons 1 (if (consp a) a nil)))", "(setq c (if (numberp c) (+ c 1) 0))", "(length a)", "(list a b c)", "(defun lf (x) (list x c))", "(lf 2)",
                 "(car 5)", "(setq b (gensym))", "(tick 3)", "novar"]
        return [rng.choice(small) for _ in range(rng.randint(18, 45))]
    if rng.random() < 0.6:
        h.append(" ".join(g.defun(2) for _ in range(rng.randint(1, 2))))
    for _ in range(rng.randint(2, 5)):
        h.append(rng.choice(EXTRA) if rng.random() < 0.35 else g.program(1))
    return h

def transcript_lines(h, ctx=None, as_file=None, tag=""):
    out = []
    for k, p in enumerate(h):
        if as_file == "errfmt":
            out.append("ERRFMT " + C.esc(p))          # the complete rendered error message (text, hints, backtrace), compared between runs
        elif as_file == "file":
            out.append("LOADFILE c19_%s_%d.lisp %s" % (tag, k, C.esc(p)))
        elif as_file == "samefile":
            # every program of the history is written to, and loaded from, THE SAME path
            out.append("LOADFILE c19_%s_same.lisp %s" % (tag, C.esc(p)))
        elif as_file == "samenested":
            out.append("WRITEFILE c19_%s_same_in.lisp %s" % (tag, C.esc(p)))
            out.append("LOADFILE c19_%s_same_out.lisp %s" % (tag, C.esc('(load "%s")' % os.path.join(SCRATCH, "c19_%s_same_in.lisp" % tag))))
        elif as_file == "nested":
            out.append("WRITEFILE c19_%s_%d_in.lisp %s" % (tag, k, C.esc(p)))
            out.append("LOADFILE c19_%s_%d_out.lisp %s" % (tag, k, C.esc('(load "%s")' % os.path.join(SCRATCH, "c19_%s_%d_in.lisp" % (tag, k)))))
        else:
            out.append("EVAL " + C.esc(p))
        out += ["TICKS", "DUMP a b c shared-name gensym-counter"]
    # the complete symbol state (every bound symbol that differs from a fresh context) at the end of the history
    out += ["EVAL nil", "TICKS", "INVENTORY diff"]
    return out

def generate(tier, seed):
    rng = C.rng_for(seed, "C19")
    n = 900 if tier == "quick" else 30000
    hs = [history(rng) for _ in range(n)]
    lines, groups = [], []
    for k, h in enumerate(hs):
        grp = {}
        # (a) alone, (b) again
        for name in ("alone", "again"):
            lines.append("NEW"); s = len(lines); lines += transcript_lines(h); grp[name] = list(range(s, len(lines)))
        if k % 3 == 0:
            for name in ("errA", "errB"):
                lines.append("NEW"); s = len(lines); lines += transcript_lines(h, as_file="errfmt"); grp[name] = list(range(s, len(lines)))
        # (e) from files
        for name in ("file", "nested", "samefile", "samenested"):
            lines.append("NEW"); s = len(lines)
            tl = transcript_lines(h, as_file=name, tag="%d%s" % (k, name[0]))
            lines += tl
            grp[name] = [s + j for j, l in enumerate(tl) if not l.startswith("WRITEFILE")]
        # (c) interleaved with other histories in other live contexts
        others = [hs[(k + j + 1) % n] for j in range(rng.randint(1, 3))]
        lines.append("NEW")
        tls = [transcript_lines(h)] + [transcript_lines(o) for o in others]
        idx = []
        ptr = [0] * len(tls)
        lines.append("CTX 0")
        for c in range(1, len(tls)):
            lines += ["CTX %d" % c, "NEW"]
        while any(p < len(t) for p, t in zip(ptr, tls)):
            c = rng.randrange(len(tls))
            if ptr[c] >= len(tls[c]): continue
            lines.append("CTX %d" % c)
            for _ in range(3):      # one request with its TICKS and DUMP
                lines.append(tls[c][ptr[c]])
                if c == 0: idx.append(len(lines) - 1)
                ptr[c] += 1
        lines.append("CTX 0")
        grp["interleaved"] = idx
        groups.append(grp)
    return {"lines": lines, "meta": {"groups": groups}, "distribution": {"histories": n}}

def oracle(lines, impl, model, meta):
    bad = []
    groups = meta.get("groups", [])
    # second process
    binp = os.path.join(C.HARNESS, "target", "release", "harness")
    impl2 = C.run_resilient(binp, lines)
    nt = 0
    for g in groups:
        base = [impl[i] for i in g["alone"]]
        for name in ("again", "file", "nested", "samefile", "samenested", "interleaved"):
            other = [impl[i] for i in g[name]]
            if other != base:
                k = next((j for j, (x, y) in enumerate(zip(base, other)) if x != y), 0)
                case = ["NEW"] + [lines[i] for i in g["alone"]] + ["# versus run '%s':" % name] + [lines[i] for i in g[name]]
                bad.append(("transcript of the same history differs between 'alone' and '%s'" % name, case, k + 1,
                            str(other[k:k + 1]), str(base[k:k + 1])))
                break
        else:
            b2 = [impl2[i] for i in g["alone"]]
            if "errA" in g and [impl[i] for i in g["errA"]] != [impl[i] for i in g["errB"]]:
                ea, eb = [impl[i] for i in g["errA"]], [impl[i] for i in g["errB"]]
                kk = next((j for j, (x, y) in enumerate(zip(ea, eb)) if x != y), 0)
                bad.append(("rendered error messages of the same history differ between two fresh contexts", ["NEW"] + [lines[i] for i in g["errA"]], kk + 1, str(eb[kk:kk + 1]), str(ea[kk:kk + 1])))
            elif "errA" in g and [impl2[i] for i in g["errA"]] != [impl[i] for i in g["errA"]]:
                bad.append(("rendered error messages differ between two processes", ["NEW"] + [lines[i] for i in g["errA"]], 1, "", ""))
            elif b2 != base:
                bad.append(("transcript differs between two processes", ["NEW"] + [lines[i] for i in g["alone"]], 1, str(b2[:3]), str(base[:3])))
            elif any((x or "").startswith("OK") for x in base) and len({x for x in base if (x or "").startswith("STATE")}) > 1:
                nt += 1
    meta["nontrivial"] = nt
    return bad

def count_nontrivial(lines, impl, model):
    return len({tuple(lines[i] for i in idxs) for idxs in C.split_cases(lines)})

def normalize(line, ans):
    # the model does not render messages: compare error-ness only for the rendered requests
    if line.startswith("ERRFMT"):
        return "ERR" if ans.startswith("ERR") else ans
    return ans
