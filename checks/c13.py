"""C13 — numeric functions follow the integer/float tower."""
import itertools
from . import common as C

ID = "C13"
LEAN_MODULE = "Tulisp.Props.C13"
THEOREMS = []   # filled from props.json by bin/check when empty
RULE = ("every arithmetic / comparison / rounding built-in applied to all tuples of length 1..3 over a set of "
        "integers (0, ±1, ±2, ±7, i64 min/max and neighbours) and exactly representable floats, mixed in every "
        "position, plus random tuples up to length 8 and non-number arguments in every position; result value "
        "(integers exactly, floats by bit pattern, so integerp/floatp of the result is part of the answer) is "
        "compared with the model's; non-trivial = distinct requests whose answer is a number")
ASSUMPTIONS = ["decimal->binary conversion of float literals and f64 hardware arithmetic are shared runtime behaviour "
               "(the model computes literal conversion and fmod exactly and uses IEEE operations for + - * /)",
               "expt uses the platform pow(); compared on exactly representable cases only",
               "exact ties of fround and max/min of +0.0/-0.0 excluded"]

INTS = ["0", "1", "-1", "2", "-2", "7", "-7", "9223372036854775807", "-9223372036854775808",
        "9223372036854775806", "-9223372036854775807", "3", "100"]
FLTS = ["0.5", "-2.5", "1125899906842624.0", "100.25", "3.0", "7.75", "-7.0", "1.5", "0.0", "2.0", "-0.125"]
BAD = ['"a"', "'x", "nil", "'(1)", "t"]
NARY = ["+", "-", "*", "/", "max", "min", "<", "<=", ">", ">="]
BIN = ["mod", "expt"]
UN = ["1+", "1-", "fround", "ftruncate"]

EXPT_BIG = ["(expt %s %s)" % (b, e) for b in ["0", "1", "-1", "2", "-2", "1.0", "0.5", "10", "2.0"]
            for e in ["4294967296", "4294967297", "4294967306", "2147483648", "2147483647", "4294967295", "8589934593", "9223372036854775807", "-4294967296", "63", "64", "1023", "1024"]]

def generate(tier, seed):
    rng = C.rng_for(seed, "C13")
    exprs = []
    vals = INTS + FLTS
    small = ["0", "1", "-1", "2", "-7", "7", "9223372036854775807", "-9223372036854775808", "0.5", "-2.5", "3.0", "0.0"]
    for op in NARY:
        for v in vals: exprs.append("(%s %s)" % (op, v))
        for a, b in itertools.product(vals, repeat=2): exprs.append("(%s %s %s)" % (op, a, b))
        trip = small if tier == "quick" else vals[:16]
        for t in itertools.product(trip, repeat=3):
            if tier == "quick" and rng.random() < 0.5: continue
            exprs.append("(%s %s)" % (op, " ".join(t)))
        for _ in range(400 if tier == "quick" else 10000):
            n = rng.randint(4, 8)
            exprs.append("(%s %s)" % (op, " ".join(rng.choice(vals) for _ in range(n))))
        for pos in range(3):
            for bad in BAD:
                args = [rng.choice(small) for _ in range(3)]
                args[pos] = bad
                exprs.append("(%s %s)" % (op, " ".join(args)))
                exprs.append("(%s %s)" % (op, " ".join(args[:pos + 1])))
    for op in BIN:
        vs = vals if op == "mod" else ["0", "1", "2", "3", "-2", "0.5", "2.0", "10", "-1", "4.0"]
        for a, b in itertools.product(vs, repeat=2): exprs.append("(%s %s %s)" % (op, a, b))
        for bad in BAD:
            exprs.append("(%s %s 2)" % (op, bad)); exprs.append("(%s 2 %s)" % (op, bad))
    exprs += EXPT_BIG
    for op in UN:
        for v in vals + BAD + ["2.25", "-2.75", "1e3"]: exprs.append("(%s %s)" % (op, v))
    # random integer arithmetic near the limits, nested
    for _ in range(6000 if tier == "quick" else 200000):
        def term(d):
            if d == 0 or rng.random() < 0.3: return rng.choice(vals)
            op = rng.choice(["+", "-", "*", "/", "mod", "max", "min"])
            n = 2 if op == "mod" else rng.randint(1, 3)
            return "(%s %s)" % (op, " ".join(term(d - 1) for _ in range(n)))
        exprs.append(term(3))
    lines = []
    for k, e in enumerate(exprs):
        if k % 40 == 0: lines.append("NEW")
        lines.append("EVAL " + e)
    return {"lines": lines, "distribution": {"expressions": len(exprs)}}

def count_nontrivial(lines, impl, model):
    s = set()
    for i, l in enumerate(lines):
        a = impl[i] or ""
        if l.startswith("EVAL") and (a.startswith("OK f:") or (a.startswith("OK ") and a[3:].lstrip("-").isdigit())):
            s.add(l)
    return len(s)

def normalize(line, ans):
    # f64::max / f64::min may return either zero for (0.0, -0.0): excluded from the claim
    if ("max" in line or "min" in line) and "f:8000000000000000" in ans:
        return ans.replace("f:8000000000000000", "f:0000000000000000")
    return ans
