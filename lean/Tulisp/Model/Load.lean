/-
  Model/Load.lean — from text to evaluation: turning the reader's syntax trees into values
  (interning symbols, sharing equal string literals of one parse, evaluating `defun` /
  `defmacro` lists as soon as they are complete, as `Parser::parse_list` does), the
  whole-program macro expansion, `eval_string` / `eval_file`, and the knot `Rec.ofDepth`.
  Import-free.
-/
import Tulisp.Model.Eval
namespace Tulisp

abbrev StrTab := List (String × Nat)

def isDefHeadVal (c : Ctx) : Val → Bool
  | .cons _ (.sym n) _ => let nm := c.symName n; nm = "defun" || nm = "defmacro"
  | _ => false

mutual
/-- One syntax tree to a value.  A completed list whose head is the symbol `defun` or
    `defmacro` is macro-expanded and evaluated on the spot, and replaced by its expansion. -/
def internSx (r : Rec) : Sx → StrTab → M (Val × StrTab)
  | .int _ n, tab => pure (.int n, tab)
  | .float _ txt, tab => pure (.float (parseFloatText txt), tab)
  | .str _ s, tab =>
    match tab.find? (·.1 == s) with
    | some (_, i) => pure (.str i s, tab)
    | none => do
      let i ← newId
      pure (.str i s, (s, i) :: tab)
  | .ident _ name, tab =>
    if name = "t" then pure (.t, tab)
    else if name = "nil" then pure (.nil, tab)
    else do
      let v ← symVal name
      pure (v, tab)
  | .quote _ x, tab => do let (v, tab) ← internSx r x tab; pure (.quote v, tab)
  | .backquote _ x, tab => do let (v, tab) ← internSx r x tab; pure (.backquote v, tab)
  | .unquote _ x, tab => do let (v, tab) ← internSx r x tab; pure (.unquote v, tab)
  | .splice _ x, tab => do let (v, tab) ← internSx r x tab; pure (.splice v, tab)
  | .list _ items tail, tab => do
    let (vs, tab) ← internList r items tab
    let (tl, tab) ← match tail with
      | none => pure (Val.nil, tab)
      | some x => internSx r x tab
    -- `inner.append(next)` on what has been pushed so far
    let acc : Acc := { rev := vs.reverse }
    let acc ← acc.append tl
    let inner ← acc.build
    let c ← M.get
    if isDefHeadVal c inner then do
      let ex ← r.mexp inner
      let _ ← r.eval ex
      pure (ex, tab)
    else pure (inner, tab)

def internList (r : Rec) : List Sx → StrTab → M (List Val × StrTab)
  | [], tab => pure ([], tab)
  | x :: xs, tab => do
    let (v, tab) ← internSx r x tab
    let (vs, tab) ← internList r xs tab
    pure (v :: vs, tab)
end

def Sx.span : Sx → Span
  | .int sp _ | .float sp _ | .str sp _ | .ident sp _ | .list sp _ _
  | .quote sp _ | .backquote sp _ | .unquote sp _ | .splice sp _ => sp

def posLe (a b : Pos) : Bool := a.line < b.line || (a.line == b.line && a.col ≤ b.col)

def spanWithin (inner outer : Span) : Bool := posLe outer.s inner.s && posLe inner.e outer.e

/-- keep the events that are not nested inside a later event -/
def maximalEvents : List Sx → List Sx
  | [] => []
  | e :: rest =>
    if rest.any (fun l => spanWithin e.span l.span) then maximalEvents rest
    else e :: maximalEvents rest

/-- `parse::parse`: read, evaluate definitions on the way, macro-expand the whole program. -/
def loadText (r : Rec) (file : Nat) (text : String) : M Val := do
  let rr := readText file text.toList
  match rr.res with
  | .ok forms => do
    let (vs, _) ← internList r forms []
    let prog ← mkListM vs
    r.mexp prog
  | .err _ => do
    -- the definitions completed before the error point have already taken effect
    let _ ← internList r (maximalEvents rr.events) []
    M.throw .parsingError
  | .eof => M.throw .parsingError
  | .panic s => M.panicAt s
  | .fuel => M.outOfFuel

/-- `eval_file` against the virtual file system -/
def loadFile (r : Rec) (name : String) : M Val := do
  let c ← M.get
  match c.files.find? (·.1 == name) with
  | none => M.throw .undefined
  | some (_, text) => do
    let fid := c.nfiles
    M.modify (fun c => { c with nfiles := c.nfiles + 1 })
    let prog ← loadText r fid text
    evalProgn r prog

/-- The evaluator with depth budget `d`. -/
def Rec.ofDepth : Nat → Rec
  | 0 => ⟨fun _ => M.outOfFuel, fun _ => M.outOfFuel, fun _ => M.outOfFuel⟩
  | d + 1 =>
    let r := Rec.ofDepth d
    ⟨evalStep r, mexpStep r, loadFile r⟩

/-- `TulispContext::eval_string` -/
def evalString (d : Nat) (text : String) : M Val :=
  let r := Rec.ofDepth d
  do
    let prog ← loadText r 0 text
    evalProgn r prog

/-- `TulispContext::new`: every built-in bound to its name. -/
def Ctx.initial : Ctx :=
  Bi.all.foldl (fun c b =>
    let (n, c) := c.intern b.name
    c.modSym n (fun s => { s with items := [.builtin b], hasGlobal := !b.isScoped })) {}

end Tulisp
