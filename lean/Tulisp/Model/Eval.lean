/-
  Model/Eval.lean — the evaluator of tulisp (src/eval.rs, src/context.rs, src/builtin/**).

  Open recursion: every function here takes a `Rec` (the evaluator and the macro expander
  *at the next smaller depth*) and is itself non-recursive or structurally recursive on a
  value / an iteration budget.  `Rec.ofDepth d` ties the knot by recursion on the depth
  budget `d`, which models host-stack depth.  Loop constructs (`while`, the tail-call
  trampoline) take an iteration budget and run at *constant* depth.

  Built-ins are fexprs as in the Rust code: they receive the unevaluated argument list
  and evaluate it themselves, in the order the Rust code does.
  Import-free (apart from Std.HashMap through Ctx).
-/
import Tulisp.Model.Printer
import Tulisp.Model.Sort
import Tulisp.Model.Table
namespace Tulisp

structure Rec where
  eval : Val → M Val
  mexp : Val → M Val
  /-- `eval_file` on a file name -/
  load : String → M Val

/-- iteration budget of each loop construct -/
def loopBudget : Nat := 4000000000

@[inline] def liftE (e : E α) : M α := fun c =>
  match e with
  | .ok a => (.ok a, c)
  | .error k => (.err k, c)

def truthy (v : Val) : Bool := !v.isNil

def ofBool (b : Bool) : Val := if b then .t else .nil

/-- run `m`; if it does not end with `ok`, apply `cleanup` to the state it leaves -/
@[inline] def onFail (m : M α) (cleanup : Ctx → Ctx) : M α := fun c =>
  match m c with
  | (.ok a, c') => (.ok a, c')
  | (r, c') => (r, cleanup c')

/-! ## sequencing and argument evaluation -/

/-- `eval_progn`: evaluate the elements of a list in order, return the last value. -/
def evalProgn (r : Rec) : Val → M Val
  | .cons _ a d =>
    match d with
    | .cons .. => do let _ ← r.eval a; evalProgn r d
    | _ => r.eval a
  | _ => pure .nil

/-- `eval_each`: the values of the elements, left to right. -/
def evalEach (r : Rec) : Val → M (List Val)
  | .cons _ a d => do
    let v ← r.eval a
    let vs ← evalEach r d
    return v :: vs
  | _ => pure []

/-- Does a value evaluate to itself (see the `funcall` fix in src/eval.rs)? -/
def selfEvaluating : Val → Bool
  | .sym _ | .cons .. | .quote _ | .backquote _ | .unquote _ | .splice _ => false
  | _ => true

/-- Protect already evaluated values from a built-in's own evaluation. -/
def quoteArgs (vals : List Val) : M Val :=
  mkListM (vals.map fun v => if selfEvaluating v then v else .quote v)

/-! ## parameter lists -/

/-- `impl TryFrom<TulispObject> for DefunParams` -/
def parseParamsAux (c : Ctx) : Val → (mode : Nat) → Params → E Params
  | .cons _ p rest, mode, acc =>
    match p with
    | .sym n =>
      let name := c.symName n
      if name = "&optional" then parseParamsAux c rest 1 acc
      else if name = "&rest" then parseParamsAux c rest 2 acc
      else if mode = 2 then
        match rest with
        | .cons .. => .error .typeMismatch         -- Too many &rest parameters
        | _ => .ok { acc with rest := some n }
      else if mode = 1 then parseParamsAux c rest 1 { acc with opt := acc.opt ++ [n] }
      else parseParamsAux c rest 0 { acc with req := acc.req ++ [n] }
    | _ => .error .typeMismatch                     -- Expected symbol
  | _, _, acc => .ok acc

def parseParams (c : Ctx) (v : Val) : E Params :=
  if !v.isList then .error .syntaxError else parseParamsAux c v 0 ⟨[], [], none⟩

def Params.all (ps : Params) : List Nat :=
  ps.req ++ ps.opt ++ (match ps.rest with | some r => [r] | none => [])

/-- The argument values a call supplies, one per parameter in order (`zip_function_args`
    before binding).  With `evaluate = false` the arguments are values already. -/
def collectArgs (r : Rec) (evaluate : Bool) : (req opt : List Nat) → (rest : Option Nat) → Val →
    M (List Val)
  | _ :: req, opt, rest, .cons _ a d => do
    let v ← if evaluate then r.eval a else pure a
    let vs ← collectArgs r evaluate req opt rest d
    return v :: vs
  | _ :: _, _, _, _ => M.throw .typeMismatch                    -- Too few arguments
  | [], _ :: opt, rest, .cons _ a d => do
    let v ← if evaluate then r.eval a else pure a
    let vs ← collectArgs r evaluate [] opt rest d
    return v :: vs
  | [], _ :: opt, rest, other => do
    let vs ← collectArgs r evaluate [] opt rest other
    return .nil :: vs
  | [], [], some _, args => do
    let vs ← if evaluate then evalEach r args else pure args.elems
    let l ← mkListM vs
    return [l]
  | [], [], none, .cons .. => M.throw .typeMismatch             -- Too many arguments
  | [], [], none, _ => pure []

/-- Bind parameters to values in order; if one cannot be bound, release those already bound. -/
def bindParams : List Nat → List Val → List Nat → M Unit
  | p :: ps, v :: vs, done => fun c =>
    match pushV (.sym p) v c with
    | (.ok (), c') => bindParams ps vs (p :: done) c'
    | (.err k, c') => (.err k, done.foldl popSymCtx c')
    | (.panic s, c') => (.panic s, c')
    | (.fuel, c') => (.fuel, c')
  | _, _, _ => pure ()

/-- `eval_function`: bind, run the body, unbind on every exit. -/
def evalFunction (r : Rec) (evaluate : Bool) (ps : Params) (body args : Val) : M Val := do
  let vals ← collectArgs r evaluate ps.req ps.opt ps.rest args
  bindParams ps.all vals []
  M.finally' (evalProgn r body) (fun c => ps.all.foldl popSymCtx c)

/-- The trampoline of `eval_lambda`: re-enter the body while the result is a bounce request. -/
def bounceLoop (r : Rec) (ps : Params) (body : Val) : Nat → Val → M Val
  | 0, _ => M.outOfFuel
  | k + 1, res =>
    match res with
    | .cons _ .bounce vals => do
      let res' ← evalFunction r false ps body vals
      bounceLoop r ps body k res'
    | _ => pure res

def evalLambda (r : Rec) (evaluate : Bool) (ps : Params) (body args : Val) : M Val := do
  let res ← evalFunction r evaluate ps body args
  bounceLoop r ps body loopBudget res

/-! ## numbers -/

def numOf (v : Val) : M Num :=
  match v.toNum? with
  | some n => pure n
  | none => M.throw .typeMismatch

def liftNum (e : Except NumErr Num) : M Val :=
  match e with
  | .ok n => pure n.toVal
  | .error .type => M.throw .typeMismatch
  | .error .range => M.throw .outOfRange

/-- one step of `binary_ops!` on values -/
def arithV (op : ArithOp) (a b : Val) : M Val := do
  -- the macro converts `other` when `self` is a float, `self` when `other` is a float,
  -- else both to i64: a non-number on either side is a type error
  let x ← numOf a
  let y ← numOf b
  liftNum (arith op x y)

def maxMinV (isMax : Bool) (a b : Val) : M Val := do
  let x ← numOf a
  let y ← numOf b
  pure (maxMin isMax x y).toVal

/-- `reduce_with`: left fold of a binary method over the arguments, each evaluated once, in
    order, interleaved with the applications. -/
def reduceRest (r : Rec) (method : Val → Val → M Val) : Val → Val → M Val
  | acc, .cons _ a d => do
    let v ← r.eval a
    let acc' ← method acc v
    reduceRest r method acc' d
  | acc, .nil => pure acc
  | _, _ => M.throw .typeMismatch      -- `rest.car_and_then` on a non-list tail

def reduceWith (r : Rec) (method : Val → Val → M Val) (args : Val) : M Val :=
  match args with
  | .cons _ a d => do
    let first ← r.eval a
    match d with
    | .cons .. => reduceRest r method first d
    | .nil =>
      if first.isNumber then pure first else M.throw .typeMismatch
    | _ => M.throw .typeMismatch          -- improper argument list
  | .nil => pure .nil
  | _ => M.throw .typeMismatch

def foldVals (method : Val → Val → M Val) : Val → List Val → M Val
  | acc, [] => pure acc
  | acc, v :: vs => do let a ← method acc v; foldVals method a vs

def isZeroNum : Val → Bool
  | .int n => n == 0
  | .float b => f64 b == 0.0
  | _ => false

/-- adjacent pairs of a chain of numbers -/
def chainHolds (op : CmpOp) : List Num → Bool
  | a :: b :: rest => cmpNum op a b && chainHolds op (b :: rest)
  | _ => true

def allNums : List Val → Option (List Num)
  | [] => some []
  | v :: vs => do
    let n ← v.toNum?
    let ns ← allNums vs
    pure (n :: ns)

/-- the comparison chains, after all arguments have been evaluated: every argument has to be
    a number; the chain holds when every adjacent pair does -/
def cmpChain (op : CmpOp) (vals : List Val) : M Val :=
  match allNums vals with
  | some ns => pure (ofBool (chainHolds op ns))
  | none => M.throw .typeMismatch

/-! ## strings, format -/

def strOf (v : Val) : M String :=
  match v with
  | .str _ s => pure s
  | _ => M.throw .typeMismatch

/-- The value cannot be printed by the model (a float without short decimal form): the model
    gives up on this request (reported as SKIP, never compared). -/
def printOrSkip (o : Option String) : M String :=
  match o with
  | some s => pure s
  | none => M.outOfFuel

/-- Rust `i64::to_string` / `f64::to_string` of `%d` / `%f`. -/
def formatLoop (c0 : Ctx) : List Char → List Val → String → M String
  | [], _, out => pure out
  | '%' :: rest, args, out =>
    match rest with
    | [] => pure out
    | '%' :: rest' => formatLoop c0 rest' args (out.push '%')
    | ch :: rest' =>
      match args with
      | [] => M.throw .missingArgument
      | a :: args' =>
        if ch = 's' then do
          let s ← printOrSkip (princV c0 a)
          formatLoop c0 rest' args' (out ++ s)
        else if ch = 'S' then do
          let s ← printOrSkip (printV c0 a)
          formatLoop c0 rest' args' (out ++ s)
        else if ch = 'd' then do
          let n ← numOf a
          let i : Int := match n with | .i i => i | .f b => f64ToI64Trunc b
          formatLoop c0 rest' args' (out ++ toString i)
        else if ch = 'f' then do
          let n ← numOf a
          let s ← printOrSkip (f64Display n.asF64)
          formatLoop c0 rest' args' (out ++ s)
        else M.throw .syntaxError
  | ch :: rest, args, out => formatLoop c0 rest args (out.push ch)

/-! ## list building helpers -/

/-- `deep_copy`: a fresh spine (elements shared). -/
def deepCopy (v : Val) : M Val :=
  match v with
  | .cons .. => let (xs, tl) := v.spine; mkListM xs tl
  | _ => pure v

/-- The list under construction by repeated `push` / `append` on a fresh head:
    items so far (reversed) and the improper tail, if one has been attached. -/
structure Acc where
  rev : List Val := []
  tail : Val := .nil

def Acc.push (a : Acc) (x : Val) : M Acc :=
  if a.tail.isNil then pure { a with rev := x :: a.rev } else M.throw .typeMismatch

/-- `TulispObject::append` of a (copied) value onto the list under construction. -/
def Acc.append (a : Acc) (v : Val) : M Acc :=
  if !a.tail.isNil then M.throw .typeMismatch
  else match v with
    | .nil => pure a
    | .cons .. =>
      let (xs, tl) := v.spine
      pure { rev := xs.reverse ++ a.rev, tail := tl }
    | atom => if a.rev.isEmpty then pure { a with rev := [atom] } else pure { a with tail := atom }

def Acc.build (a : Acc) : M Val := mkListM a.rev.reverse a.tail

/-! ## backquote -/

mutual
/-- `eval_back_quote` -/
def evalBackquote (r : Rec) : Val → M Val
  | .unquote v => r.eval v
  | .splice v => do let x ← r.eval v; deepCopy x
  | .quote v => do let x ← evalBackquote r v; pure (.quote x)
  | .cons _ first rest => do
    let acc : Acc := {}
    let acc ← match first with
      | .unquote v => do let x ← r.eval v; acc.push x
      | .splice v => do let x ← r.eval v; let x ← deepCopy x; acc.append x
      | other => do let x ← evalBackquote r other; acc.push x
    let acc ← bqRest r rest acc
    acc.build
  | other => pure other

/-- the loop over the rest of the spine of a template -/
def bqRest (r : Rec) : Val → Acc → M Acc
  | .unquote v, acc => do let x ← r.eval v; acc.append x
  | .cons _ first rest, acc => do
    let acc ← match first with
      | .unquote v => do let x ← r.eval v; acc.push x
      | .splice v => do let x ← r.eval v; let x ← deepCopy x; acc.append x
      | other => do let x ← evalBackquote r other; acc.push x
    bqRest r rest acc
  | other, acc => acc.append other
end

/-! ## closures: capture of lexically bound variables (`lambda`) -/

abbrev Captured := List (Nat × Nat)    -- (root symbol captured, cell)

/-- `capture_symbol` -/
def captureSymbol (excl : List Nat) (n : Nat) (cap : Captured) : M (Val × Captured) := fun c =>
  let s := c.symD n
  let isCell := s.base.isSome
  if !(isCell || s.lexBound) then (.ok (.sym n, cap), c)
  else if excl.any (fun p => symEq c p n) then (.ok (.sym n, cap), c)
  else match cap.find? (fun (fromSym, _) => symEq c n fromSym) with
    | some (_, cell) => (.ok (.sym cell, cap), c)
    | none =>
      match s.get with
      | none => (.err .typeMismatch, c)
      | some v =>
        let (cell, c') := c.newSym { name := s.name, hasGlobal := true, items := [v], base := some n }
        (.ok (.sym cell, (n, cell) :: cap), c')

mutual
/-- `capture_variables` -/
def captureVars (excl : List Nat) : Val → Captured → M (Val × Captured)
  | .sym n, cap => captureSymbol excl n cap
  | .cons _ a d, cap => do
    let (x, cap) ← captureVars excl a cap
    let acc : Acc := { rev := [x] }
    let (acc, cap) ← captureRest excl d acc cap
    let v ← acc.build
    pure (v, cap)
  | .quote v, cap => do let (x, cap) ← captureVars excl v cap; pure (.quote x, cap)
  | .backquote v, cap => do let (x, cap) ← captureVars excl v cap; pure (.backquote x, cap)
  | .unquote v, cap => do let (x, cap) ← captureVars excl v cap; pure (.unquote x, cap)
  | .splice v, cap => do let (x, cap) ← captureVars excl v cap; pure (.splice x, cap)
  | other, cap => pure (other, cap)

/-- the rest of the spine, including a dotted tail -/
def captureRest (excl : List Nat) : Val → Acc → Captured → M (Acc × Captured)
  | .nil, acc, cap => pure (acc, cap)
  | .cons _ a d, acc, cap => do
    let (x, cap) ← captureVars excl a cap
    let acc ← acc.push x
    captureRest excl d acc cap
  | .sym n, acc, cap => do
    let (x, cap) ← captureSymbol excl n cap
    let acc ← acc.append x
    pure (acc, cap)
  | .quote v, acc, cap => do
    let (x, cap) ← captureVars excl v cap; let acc ← acc.append (.quote x); pure (acc, cap)
  | .backquote v, acc, cap => do
    let (x, cap) ← captureVars excl v cap; let acc ← acc.append (.backquote x); pure (acc, cap)
  | .unquote v, acc, cap => do
    let (x, cap) ← captureVars excl v cap; let acc ← acc.append (.unquote x); pure (acc, cap)
  | .splice v, acc, cap => do
    let (x, cap) ← captureVars excl v cap; let acc ← acc.append (.splice x); pure (acc, cap)
  | other, acc, cap => do
    let acc ← acc.append other
    pure (acc, cap)
end

/-! ## tail-call marking (`mark_tail_calls`) -/

def headName (c : Ctx) : Val → String
  | .sym n => c.symName n
  | _ => ""

/-- last element and the elements before it -/
def splitLast : List Val → Option (List Val × Val)
  | [] => none
  | [x] => some ([], x)
  | x :: xs => match splitLast xs with
    | some (ini, l) => some (x :: ini, l)
    | none => none

mutual
/-- `mark_tail_calls name body`: `body` is a list of forms; the last one is rewritten. -/
def markTailCalls (fname : Nat) : Nat → Val → M Val
  | 0, _ => M.outOfFuel
  | fuel + 1, .cons i a d => do
    let c ← M.get
    let forms := (Val.cons i a d).elems
    match splitLast forms with
    | none => pure (.cons i a d)
    | some (ini, tail) =>
      match tail with
      | .cons _ th targs =>
        let isSelf := match th with | .sym n => symEq c n fname | _ => false
        let hn := headName c th
        let newTail : M Val :=
          if isSelf then do
            -- `nil.append(args)`: a copy of a list, nil for nil, and `(atom)` for a dotted call `(f . atom)`
            let argsCopy ← match targs with
              | .cons .. => deepCopy targs
              | .nil => pure Val.nil
              | atom => mkListM [atom]
            let l ← mkListM [.builtin .evalEach, .bounce]
            match l with
            | .cons i1 x (.cons i2 y _) => pure (.cons i1 x (.cons i2 y argsCopy))
            | _ => pure l
          else if hn = "progn" then do
            let b ← markTailCalls fname fuel targs
            mkCons th b
          else if hn = "let" || hn = "let*" then
            match targs with
            | .cons _ varlist lbody => do
              let b ← markTailCalls fname fuel lbody
              let b' ← mkCons varlist b
              mkCons th b'
            | .nil => do
              -- `(let)`: destruct_bind yields nil varlist and nil body
              mkListM [th, .nil]
            | _ => M.throw .typeMismatch       -- `(let . atom)`: car of an atom
          else if hn = "if" then
            match targs with
            | .cons _ cond rest => do
              let (thenF, elseB) ← (match rest with
                | .cons _ tf e => pure (tf, e)
                | .nil => pure (Val.nil, Val.nil)
                | _ => M.throw .typeMismatch : M (Val × Val))      -- `(if c . atom)`: car of an atom
              do
                let tl ← mkListM [thenF]
                let tm ← markTailCalls fname fuel tl
                let thenF' := match tm with | .cons _ x _ => x | _ => Val.nil
                let e' ← markTailCalls fname fuel elseB
                let l3 ← mkCons thenF' e'
                let l2 ← mkCons cond l3
                mkCons th l2
            | .nil => mkListM [th, .nil, .nil]
            | _ => M.throw .typeMismatch        -- `(if . atom)`
          else if hn = "cond" then do
            let clauses ← markClauses fname fuel targs
            mkCons th clauses
          else pure tail
        do
          let nt ← newTail
          mkListM (ini ++ [nt])
      | _ => pure (.cons i a d)
  | _ + 1, other => pure other

/-- the clauses of a tail `cond`: `(condition . body)` each -/
def markClauses (fname : Nat) : Nat → Val → M Val
  | 0, _ => M.outOfFuel
  | fuel + 1, .cons _ clause rest => do
    let cl' ← match clause with
      | .cons _ cond body => do
        let b ← markTailCalls fname fuel body
        mkCons cond b
      | .nil => mkListM [Val.nil]      -- destruct_bind on a nil clause: (nil)
      | _ => M.throw .typeMismatch
    let rest' ← markClauses fname fuel rest
    mkCons cl' rest'
  | _ + 1, _ => pure .nil
end

/-! ## argument extraction of `#[crate_fn]` built-ins -/

/-- Positional extraction as generated by tulisp-proc-macros: the n-th parameter takes the
    car of what is left of the argument list (nil when the list is exhausted) and evaluates it.
    Surplus arguments are ignored, unevaluated. -/
def nextArg (r : Rec) (args : Val) : M (Val × Val) :=
  match args with
  | .cons _ a d => do let v ← r.eval a; pure (v, d)
  | .nil => pure (.nil, .nil)
  | _ => M.throw .missingArgument

/-- extraction of an `Option<_>` parameter: an exhausted or improper rest yields nil -/
def nextArgOpt (r : Rec) (args : Val) : M (Val × Val) :=
  match args with
  | .cons _ a d => do let v ← r.eval a; pure (v, d)
  | _ => pure (.nil, .nil)

def intOf (v : Val) : M Int :=
  match v with
  | .int n => pure n
  | _ => M.throw .typeMismatch

/-- unevaluated positional extraction (`crate_fn_no_eval`) -/
def nextForm (args : Val) : M (Val × Val) :=
  match args with
  | .cons _ a d => pure (a, d)
  | .nil => pure (.nil, .nil)
  | _ => M.throw .missingArgument

/-! ## application of functions to evaluated values -/

/-- the table of `c[ad]{1,4}r` built-ins -/
def Bi.cxrPath? : Bi → Option (List Bool)
  | .car => some [true] | .cdr => some [false]
  | .caar => some [true, true] | .cadr => some [true, false]
  | .cdar => some [false, true] | .cddr => some [false, false]
  | .caaar => some [true, true, true] | .caadr => some [true, true, false]
  | .cadar => some [true, false, true] | .caddr => some [true, false, false]
  | .cdaar => some [false, true, true] | .cdadr => some [false, true, false]
  | .cddar => some [false, false, true] | .cdddr => some [false, false, false]
  | .caaaar => some [true, true, true, true] | .caaadr => some [true, true, true, false]
  | .caadar => some [true, true, false, true] | .caaddr => some [true, true, false, false]
  | .cadaar => some [true, false, true, true] | .cadadr => some [true, false, true, false]
  | .caddar => some [true, false, false, true] | .cadddr => some [true, false, false, false]
  | .cdaaar => some [false, true, true, true] | .cdaadr => some [false, true, true, false]
  | .cdadar => some [false, true, false, true] | .cdaddr => some [false, true, false, false]
  | .cddaar => some [false, false, true, true] | .cddadr => some [false, false, true, false]
  | .cdddar => some [false, false, false, true] | .cddddr => some [false, false, false, false]
  | _ => none

def typePred? : Bi → Option (Ctx → Val → Bool)
  | .consp => some fun _ v => v.isCons
  | .listp => some fun _ v => v.isList
  | .floatp => some fun _ v => match v with | .float _ => true | _ => false
  | .integerp => some fun _ v => match v with | .int _ => true | _ => false
  | .numberp => some fun _ v => v.isNumber
  | .stringp => some fun _ v => match v with | .str .. => true | _ => false
  | .symbolp => some fun _ v => v.isSym
  | .boundp => some fun c v => match v with | .sym n => (c.symD n).boundp | _ => false
  | .keywordp => some fun c v => match v with | .sym n => (c.symD n).constant && (c.symD n).base.isNone | _ => false
  | _ => none

def strCmp? : Bi → Option (String → String → Bool)
  | .stringLt | .stringLessp => some fun a b => a < b
  | .stringGt | .stringGreaterp => some fun a b => b < a
  | .stringEq | .stringEqual => some fun a b => a == b
  | _ => none

/-! ## built-in macros -/

/-- `build_binding` of `if-let*` -/
def buildBinding (binding prevVar : Val) : M (Val × Val) := do
  let andS ← symVal "and"
  let b' ← match binding with
    | .sym _ => mkListM [binding, binding]
    | _ => do
      let d ← liftE (cdrV binding)
      if d.isNil then do
        let a ← liftE (carV binding)
        let (s, _) ← (fun c => let (n, c') := c.newSym { name := "s" }; (Res.ok (n, ()), c') : M (Nat × Unit))
        mkListM [.sym s, a]
      else pure binding
  if lengthV b' > 2 then M.throw .syntaxError
  else do
    let var ← liftE (carV b')
    let valForm ← liftE (cxrV [true, false] b')
    let andForm ← mkListM [andS, prevVar, valForm]
    let nb ← mkListM [var, andForm]
    pure (nb, var)

def buildBindings : Val → Val → M (List Val)
  | .cons _ b rest, prev => do
    let (nb, var) ← buildBinding b prev
    let more ← buildBindings rest var
    pure (nb :: more)
  | _, _ => pure []

/-- `macroexp_progn_on_rest` of if-let / when-let -/
def prognOnRest (rest : Val) : M Val := do
  let d ← liftE (cdrV rest)
  if truthy d then do
    let p ← symVal "progn"
    let cp ← deepCopy rest
    mkCons p cp
  else liftE (carV rest)

/-- `thread_first` / `thread_last`; structural on the number of forms. -/
def threadForms (first : Bool) : Val → List Val → M Val
  | x, [] => pure x
  | x, form :: more => do
    if form.isNil then pure x        -- `form.null()` ends the threading
    else
      let step ← match form with
        | .cons _ fh fargs =>
          if first then do
            let cp ← deepCopy fargs
            let tl ← mkCons x cp
            mkCons fh tl
          else do
            -- `list!(,@form ,x)`: pushing after an improper tail fails
            let acc ← ({} : Acc).append form
            let acc ← acc.push x
            acc.build
        | atom => mkListM [atom, x]
      threadForms first step more

/-- A built-in macro applied to its (unevaluated) argument forms. -/
def callMacro (b : Bi) (args : Val) : M Val :=
  match b with
  | .when_ => do
    let (cond, rest) ← nextForm args
    let ifS ← symVal "if"
    let prognS ← symVal "progn"
    let body ← mkCons prognS rest
    mkListM [ifS, cond, body]
  | .unless_ => do
    let (cond, rest) ← nextForm args
    let ifS ← symVal "if"
    let l3 ← mkCons .nil rest
    let l2 ← mkCons cond l3
    mkCons ifS l2
  | .ifLetStar => do
    let (varlist, a1) ← nextForm args
    let (thenF, rest) ← nextForm a1
    let letS ← symVal "let*"
    if varlist.isNil then mkListM [letS, varlist, thenF]
    else do
      let bs ← buildBindings varlist .t
      let vl ← mkListM bs
      let lastB ← liftE (lastV vl none)
      let cond ← liftE (cxrV [true, true] lastB)
      let ifS ← symVal "if"
      let restCp ← deepCopy rest
      let ifTail ← mkCons thenF restCp
      let ifTail2 ← mkCons cond ifTail
      let ifForm ← mkCons ifS ifTail2
      mkListM [letS, vl, ifForm]
  | .ifLet => do
    let (spec, a1) ← nextForm args
    let (thenF, rest) ← nextForm a1
    let specCar ← liftE (carV spec)
    let spec' ← if lengthV spec ≤ 2 && !specCar.isList then mkListM [spec] else pure spec
    let prog ← prognOnRest rest
    let s ← symVal "if-let*"
    mkListM [s, spec', thenF, prog]
  | .whenLet => do
    let (spec, rest) ← nextForm args
    let prog ← prognOnRest rest
    let s ← symVal "if-let"
    mkListM [s, spec, prog]
  | .whileLet => do
    let (spec, rest) ← nextForm args
    let whileS ← symVal "while"
    let ifLetS ← symVal "if-let"
    let prognS ← symVal "progn"
    -- `list!(,progn ,@rest ,t)`
    let acc ← ({ rev := [prognS] } : Acc).append rest
    let acc ← acc.push .t
    let body ← acc.build
    let inner ← mkListM [ifLetS, spec, body, .nil]
    mkListM [whileS, inner]
  | .threadFirstArrow | .threadFirst => do
    let x ← liftE (carV args)
    let forms ← liftE (cdrV args)
    if forms.spine.2.isNil then threadForms true x forms.elems else M.throw .typeMismatch
  | .threadLastArrow | .threadLast => do
    let x ← liftE (carV args)
    let forms ← liftE (cdrV args)
    if forms.spine.2.isNil then threadForms false x forms.elems else M.throw .typeMismatch
  | .quote_ =>
    match args with
    | .cons _ a .nil => pure (.quote a)
    | _ => M.throw .typeMismatch
  | _ => M.throw .undefined

/-! ## the evaluator proper -/

/-- `while`: re-evaluate the test before every iteration, at constant depth. -/
def whileLoop (r : Rec) (cond body : Val) : Nat → M Val
  | 0 => M.outOfFuel
  | k + 1 => do
    let cv ← r.eval cond
    if cv.isNil then pure .nil
    else do
      let _ ← evalProgn r body
      whileLoop r cond body k

/-- the iterations of `dolist`; the loop variable is on top of its stack -/
def dolistLoop (r : Rec) (var : Nat) (body : Val) : Val → M Unit
  | .cons _ _ rest => do
    let _ ← evalProgn r body
    let nextCar ← liftE (carV rest)
    M.modify (·.modSym var (·.set nextCar))
    dolistLoop r var body rest
  | _ => pure ()

def dotimesLoop (r : Rec) (var : Nat) (body : Val) (count : Int) : Nat → Int → M Unit
  | 0, _ => M.outOfFuel
  | k + 1, i =>
    if i ≥ count then pure ()
    else do
      M.modify (·.modSym var (·.set (.int i)))
      let _ ← evalProgn r body
      dotimesLoop r var body count k (i + 1)

/-- A callable value applied to forms (`evaluate = true`) or to values (`evaluate = false`):
    `funcall::<Eval>` / `funcall::<DummyEval>`.  A built-in callee is entered through the
    evaluator on the form `(<builtin> args…)` (a built-in object in head position evaluates
    to itself), values being quoted first, exactly as the Rust `funcall` does. -/
def funcallVal (r : Rec) (evaluate : Bool) (f args : Val) : M Val :=
  match f with
  | .builtin b =>
    if b.isMacro then do
      let cp ← deepCopy args
      let form ← mkCons f cp
      let ex ← r.mexp form
      r.eval ex
    else if evaluate then do
      let form ← mkCons f args
      r.eval form
    else do
      let q ← quoteArgs args.elems
      let form ← mkCons f q
      r.eval form
  | .lambda _ ps body => evalLambda r evaluate ps body args
  | .defmacro .. => do
    let cp ← deepCopy args
    let form ← mkCons f cp
    let ex ← r.mexp form
    r.eval ex
  | _ => M.throw .undefined

/-- the variable list of `let` / `let*`: bind sequentially, remember what was pushed; on
    failure release what this call pushed -/
def letBind (r : Rec) : Val → List Nat → M (List Nat)
  | .cons _ item rest, done =>
    let undo : Ctx → Ctx := fun c => done.foldl popSymCtx c
    match item with
    | .sym n => do
      onFail (pushV (.sym n) .nil) undo
      letBind r rest (n :: done)
    | .cons _ name irest =>
      let (valF, extra) := match irest with
        | .cons _ v e => (v, e)
        | _ => (Val.nil, Val.nil)
      let malformedTail := match irest with
        | .cons .. => false | .nil => false | _ => true
      if malformedTail then onFail (M.throw .typeMismatch) undo
      else if name.isNil then onFail (M.throw .undefined) undo
      else if !extra.isNil then onFail (M.throw .undefined) undo
      else do
        let v ← onFail (r.eval valF) undo
        onFail (pushV name v) undo
        match name with
        | .sym n => letBind r rest (n :: done)
        | _ => letBind r rest done
    | _ => onFail (M.throw .syntaxError) undo
  | _, done => pure done

/-- A built-in function / special form applied to its unevaluated argument list. -/
def callBuiltin (r : Rec) (b : Bi) (args : Val) : M Val :=
  match b with
  -- conditionals ------------------------------------------------------------------
  | .if_ =>
    match args with
    | .cons _ cond rest =>
      if rest.isNil then M.throw .missingArgument
      else do
        let thenF ← liftE (carV rest)
        let elseB ← liftE (cdrV rest)
        let cv ← r.eval cond
        if truthy cv then r.eval thenF else evalProgn r elseB
    | _ => M.throw .missingArgument
  | .cond_ => condLoop args
  | .not_ | .null_ => do
    let (v, _) ← nextArg r args
    pure (ofBool v.isNil)
  | .and_ => andLoop args .t
  | .or_ => orLoop args
  | .xor => do
    let (a, rest) ← nextArg r args
    let (b, _) ← nextArg r rest
    pure (if a.isNil then b else if b.isNil then a else .nil)
  | .progn_ => evalProgn r args
  | .while_ => do
    let (cond, body) ← nextForm args
    whileLoop r cond body loopBudget
  -- variables ---------------------------------------------------------------------
  | .setq =>
    match args with
    | .nil => pure .nil
    | .cons _ name rest =>
      match rest with
      | .cons _ valF .nil => do
        let v ← r.eval valF
        setV name v
        pure v
      | .cons _ _ (.cons ..) => M.throw .typeMismatch
      | .nil => M.throw .typeMismatch
      | _ => M.throw .typeMismatch
    | _ => M.throw .typeMismatch
  | .set_ =>
    match args with
    | .cons _ nameF (.cons _ valF .nil) => do
      let name ← r.eval nameF
      let v ← r.eval valF
      setV name v
      pure v
    | _ => M.throw .typeMismatch
  | .let_ | .letStar =>
    match args with
    | .cons _ varlist body =>
      if !body.isCons then M.throw .typeMismatch
      else do
        let done ← letBind r varlist []
        M.finally' (evalProgn r body) (fun c => done.foldl popSymCtx c)
    | .nil => M.throw .typeMismatch
    | _ => M.throw .missingArgument
  -- definitions -------------------------------------------------------------------
  | .defun => do
    let (name, a1) ← nextForm args
    let (params, rest) ← nextForm a1
    let body ← stripDoc rest
    let fname := match name with | .sym n => n | _ => 0
    let body' ← match name with
      | .sym _ => markTailCalls fname (body.size + 1) body
      | _ => pure body       -- `tail_ident.eq(&name)` is never true for a non-symbol name
    let c ← M.get
    let ps ← liftE (parseParams c params)
    let i ← newId
    setGlobalV name (.lambda i ps body')
    pure .nil
  | .defmacro => do
    let (name, a1) ← nextForm args
    let (params, rest) ← nextForm a1
    let body ← stripDoc rest
    let c ← M.get
    let ps ← liftE (parseParams c params)
    let i ← newId
    setGlobalV name (.defmacro i ps body)
    pure .nil
  | .lambda_ => do
    let (params, rest) ← nextForm args
    let body ← stripDoc rest
    let c ← M.get
    let ps ← liftE (parseParams c params)
    let (body', _) ← captureVars ps.all body []
    let i ← newId
    pure (.lambda i ps body')
  | .declare_ => do
    let _ ← nextForm args
    pure .nil
  | .eval_ => do
    let (v, _) ← nextArg r args
    r.eval v
  | .funcall => do
    let (nameF, rest) ← nextForm args
    let n1 ← r.eval nameF
    let n2 ← r.eval n1
    funcallVal r true n2 rest
  | .macroexpand => do
    let (v, _) ← nextArg r args
    r.mexp v
  -- lists ---------------------------------------------------------------------------
  | .cons_ =>
    match args with
    | .cons _ aF (.cons _ dF .nil) => do
      let a ← r.eval aF
      let d ← r.eval dF
      mkCons a d
    | .nil => mkCons .nil .nil
    | _ => M.throw .typeMismatch
  | .list_ => do
    let vs ← evalEach r args
    mkListM vs
  | .append_ => do
    let (first, rest) ← nextArg r args
    let others ← evalEach r rest
    let firstCp ← deepCopy first
    let start : Acc := match firstCp with
      | .cons .. => let (xs, tl) := firstCp.spine; { rev := xs.reverse, tail := tl }
      | _ => {}
    if !firstCp.isList then
      -- `first.append(..)` on a non-list fails as soon as there is something to append
      (if others.isEmpty then pure firstCp else M.throw .typeMismatch)
    else do
      let acc ← others.foldlM (fun (acc : Acc) v => do
        let cp ← deepCopy v
        acc.append cp) start
      acc.build
  | .dolist =>
    match args with
    | .cons _ spec body =>
      match spec with
      | .cons _ var srest =>
        let (listF, srest2) := match srest with | .cons _ l r2 => (l, r2) | _ => (Val.nil, Val.nil)
        let (resF, extra) := match srest2 with | .cons _ x e => (x, e) | _ => (Val.nil, Val.nil)
        let improper := (!srest.isList) || (!srest2.isList)
        if improper || !extra.isNil then M.throw .typeMismatch
        else do
          let l ← r.eval listF
          let first ← liftE (carV l)
          pushV var first
          match var with
          | .sym n => do
            M.finally' (dolistLoop r n body l) (fun c => popSymCtx c n)
            r.eval resF
          | _ => M.throw .typeMismatch
      | _ => M.throw .typeMismatch
    | _ => M.throw .typeMismatch
  | .dotimes =>
    match args with
    | .cons _ spec body =>
      match spec with
      | .cons _ var srest =>
        let (countF, srest2) := match srest with | .cons _ l r2 => (l, r2) | _ => (Val.nil, Val.nil)
        let (resF, extra) := match srest2 with | .cons _ x e => (x, e) | _ => (Val.nil, Val.nil)
        let improper := (!srest.isList) || (!srest2.isList)
        if improper || !extra.isNil then M.throw .typeMismatch
        else do
          let cv ← r.eval countF
          let count ← intOf cv
          pushV var (.int 0)
          match var with
          | .sym n => do
            M.finally' (dotimesLoop r n body count loopBudget 0) (fun c => popSymCtx c n)
            r.eval resF
          | _ => M.throw .typeMismatch
      | _ => M.throw .typeMismatch
    | _ => M.throw .typeMismatch
  | .length_ => do
    let (l, _) ← nextArg r args
    pure (.int (lengthV l))
  | .nth_ => do
    let (nv, rest) ← nextArg r args
    let n ← intOf nv
    let (l, _) ← nextArg r rest
    liftE (nthV n l)
  | .nthcdr => do
    let (nv, rest) ← nextArg r args
    let n ← intOf nv
    let (l, _) ← nextArg r rest
    liftE (nthcdrV n l)
  | .last_ => do
    let (l, rest) ← nextArg r args
    let (nv, _) ← nextArgOpt r rest
    let n ← if nv.isNil then pure none else do let i ← intOf nv; pure (some i)
    liftE (lastV l n)
  | .mapcar | .seqMap => do
    let (fv, rest) ← nextArg r args
    let (seq, _) ← nextArg r rest
    let f ← r.eval fv
    let rs ← mapVals f seq.elems []
    mkListM rs
  | .seqFilter => do
    let (fv, rest) ← nextArg r args
    let (seq, _) ← nextArg r rest
    let f ← r.eval fv
    let rs ← filterVals f seq.elems []
    mkListM rs
  | .seqReduce => do
    let (fv, rest) ← nextArg r args
    let (seq, rest2) ← nextArg r rest
    let (init, _) ← nextArg r rest2
    let f ← r.eval fv
    reduceVals f init seq.elems
  | .seqFind => do
    let (fv, rest) ← nextArg r args
    let (seq, rest2) ← nextArg r rest
    let (dflt, _) ← nextArgOpt r rest2
    let f ← r.eval fv
    findVals f dflt seq.elems
  | .sort_ => do
    let (seq, rest) ← nextArg r args
    let (pv, _) ← nextArg r rest
    let p ← r.eval pv
    let lt : Val → Val → M Bool := fun a b => do
      let l ← mkListM [a, b]
      let v ← applyVals p l
      pure (truthy v)
    let xs := seq.elems
    let sorted ← sortM lt (xs.length + 1) xs
    mkListM sorted
  | .assoc_ => do
    let (key, rest) ← nextArg r args
    let (alist, rest2) ← nextArg r rest
    let (testfn, _) ← nextArgOpt r rest2
    assocM key alist testfn
  | .alistGet => do
    let (key, rest) ← nextArg r args
    let (alist, rest2) ← nextArg r rest
    let (dflt, rest3) ← nextArgOpt r rest2
    let (_remove, rest4) ← nextArgOpt r rest3
    let (testfn, _) ← nextArgOpt r rest4
    let x ← assocM key alist testfn
    if truthy x then liftE (cdrV x) else pure dflt
  | .plistGet => do
    let (plist, rest) ← nextArg r args
    let (prop, _) ← nextArg r rest
    let c ← M.get
    liftE (plistGet c prop plist)
  -- numbers -------------------------------------------------------------------------
  | .add => reduceWith r (arithV .add) args
  | .mul => reduceWith r (arithV .mul) args
  | .sub =>
    match args with
    | .cons _ a .nil => do
      let v ← r.eval a
      arithV .sub (.int 0) v
    | .cons .. => reduceWith r (arithV .sub) args
    | _ => M.throw .missingArgument
  | .div => do
    let vs ← evalEach r args
    match vs with
    | [] => pure .nil
    | [x] =>
      -- a single argument is divided into 1
      if isZeroNum x then M.throw .undefined else arithV .div (.int 1) x
    | first :: rest =>
      if rest.any isZeroNum then M.throw .undefined
      else foldVals (arithV .div) first rest
  | .max_ => reduceWith r (maxMinV true) args
  | .min_ => reduceWith r (maxMinV false) args
  | .inc => do
    let (v, _) ← nextArg r args
    match v with
    | .int n => liftNum (chk (n + 1))
    | .float b => pure (.float (bitsOf (f64 b + 1.0)))
    | _ => M.throw .typeMismatch
  | .dec => do
    let (v, _) ← nextArg r args
    match v with
    | .int n => liftNum (chk (n - 1))
    | .float b => pure (.float (bitsOf (f64 b - 1.0)))
    | _ => M.throw .typeMismatch
  | .mod_ => do
    let (a, rest) ← nextArg r args
    let (b, _) ← nextArg r rest
    arithV .mod a b
  | .expt => do
    let (a, rest) ← nextArg r args
    let (b, _) ← nextArg r rest
    let x ← numOf a
    let y ← numOf b
    pure (.float (bitsOf (Float.pow (f64 x.asF64) (f64 y.asF64))))
  | .gt | .ge | .lt | .le =>
    if args.len < 2 then M.throw .outOfRange
    else do
      let vs ← evalEach r args
      let op : CmpOp := match b with | .gt => .gt | .ge => .ge | .lt => .lt | _ => .le
      cmpChain op vs
  | .fround | .ftruncate =>
    match args with
    | .cons _ a .nil => do
      let v ← r.eval a
      match v with
      | .float x => pure (.float (if b == .fround then fround x else ftrunc x))
      | _ => M.throw .typeMismatch
    | .cons _ _ (.cons ..) => M.throw .missingArgument
    | .cons .. => M.throw .typeMismatch
    | _ => M.throw .missingArgument
  -- predicates ----------------------------------------------------------------------
  | .consp | .listp | .floatp | .integerp | .numberp | .stringp | .symbolp | .boundp | .keywordp =>
    match args with
    | .cons _ a .nil => do
      let v ← r.eval a
      let c ← M.get
      match typePred? b with
      | some p => pure (ofBool (p c v))
      | none => pure .nil
    | .cons _ _ (.cons ..) => M.throw .typeMismatch
    | .cons .. => M.throw .typeMismatch
    | _ => M.throw .typeMismatch
  | .equal_ => do
    let (a, rest) ← nextArg r args
    let (b', _) ← nextArg r rest
    let c ← M.get
    pure (ofBool (equalV c a b'))
  | .eq_ => do
    let (a, rest) ← nextArg r args
    let (b', _) ← nextArg r rest
    let c ← M.get
    pure (ofBool (eqV c a b'))
  -- strings / symbols ---------------------------------------------------------------
  | .stringLt | .stringGt | .stringEq | .stringLessp | .stringGreaterp | .stringEqual =>
    match args with
    | .cons _ a1 (.cons _ a2 .nil) => do
      let s1 ← r.eval a1
      let s2 ← r.eval a2
      match s1, s2, strCmp? b with
      | .str _ x, .str _ y, some f => pure (ofBool (f x y))
      | _, _, _ => M.throw .typeMismatch
    | .cons _ a1 .nil => do
      let _ ← r.eval a1
      M.throw .typeMismatch
    | .nil => M.throw .typeMismatch
    | _ => M.throw .typeMismatch
  | .concat_ => do
    let vs ← evalEach r args
    let rec go : List Val → String → M String
      | [], acc => pure acc
      | v :: rest, acc => do let s ← strOf v; go rest (acc ++ s)
    let s ← go vs ""
    mkStr s
  | .format_ => do
    let (fmt, rest) ← nextArg r args
    let vs ← evalEach r rest
    let f ← strOf fmt
    let c ← M.get
    let s ← formatLoop c f.toList vs ""
    mkStr s
  | .print_ | .princ => do
    let (v, _) ← nextArg r args
    pure v
  | .prin1ToString => do
    let (v, _) ← nextArg r args
    let c ← M.get
    let s ← printOrSkip (princV c v)
    mkStr s
  | .intern_ => do
    let (v, _) ← nextArg r args
    let s ← strOf v
    symVal s
  | .makeSymbol => do
    let (v, _) ← nextArg r args
    let s ← strOf v
    makeSymbolM s
  | .gensym => do
    let (pv, _) ← nextArgOpt r args
    let pfx ← if pv.isNil then pure "g" else strOf pv
    let cn ← internM "gensym-counter"
    let c ← M.get
    let count : Int := match (c.symD cn).get with | some (.int n) => n | _ => 0
    if !inI64 (count + 1) then M.throw .outOfRange
    else do
      setV (.sym cn) (.int (count + 1))
      makeSymbolM (pfx ++ toString count)
  -- hash tables ---------------------------------------------------------------------
  | .makeHashTable => do
    let i ← newId
    pure (.table i)
  | .gethash => do
    let (k, rest) ← nextArg r args
    let (tb, _) ← nextArg r rest
    match tb with
    | .table id => do let c ← M.get; pure (tableLookup c id k)
    | _ => M.throw .typeMismatch
  | .puthash => do
    let (k, rest) ← nextArg r args
    let (v, rest2) ← nextArg r rest
    let (tb, _) ← nextArg r rest2
    match tb with
    | .table id => do M.modify (fun c => tablePut c id k v); pure .nil
    | _ => M.throw .typeMismatch
  -- files ---------------------------------------------------------------------------
  | .load_ => do
    let (v, _) ← nextArg r args
    let name ← strOf v
    r.load name
  -- host functions registered by the harness with #[tulisp_fn] -----------------------
  | .hTwo => do
    let (a, rest) ← nextArg r args
    let (b', _) ← nextArg r rest
    mkListM [a, b']
  | .hOpt => do
    let (a, rest) ← nextArg r args
    let (b', _) ← nextArgOpt r rest
    if b'.isNil then do let s ← mkStr "none"; mkListM [a, s] else mkListM [a, b']
  | .hRest => do
    let (a, rest) ← nextArg r args
    let vs ← evalEach r rest
    let l ← mkListM vs
    mkCons a l
  | .hInt => do
    let (av, rest) ← nextArg r args
    let a ← intOf av
    let (bv, _) ← nextArgOpt r rest
    let b' ← if bv.isNil then pure 7 else intOf bv
    -- wrapping i64 arithmetic of the host function
    let wrap (n : Int) : Int := ((n - i64Min) % 18446744073709551616) + i64Min
    pure (.int (wrap (wrap (a * 10) + b')))
  | .hFloat => do
    let (av, _) ← nextArg r args
    let a ← numOf av
    pure (.float (bitsOf (f64 a.asF64 * 2.0)))
  | .hStr => do
    let (av, rest) ← nextArg r args
    let a ← strOf av
    let (bv, _) ← nextArgOpt r rest
    let b' ← if bv.isNil then pure "-" else strOf bv
    mkStr (a ++ "|" ++ b')
  | .hBool => do
    let (a, _) ← nextArg r args
    pure (ofBool a.isNil)
  -- harness -------------------------------------------------------------------------
  | .tick => do
    let a ← liftE (carV args)
    let v ← r.eval a
    fun c =>
      let n : Int := match v with | .int n => n | _ => -1
      let c' := { c with ticks := n :: c.ticks, tickCount := c.tickCount + 1 }
      if c'.failAt != 0 && c'.tickCount == c'.failAt then (.err .undefined, c') else (.ok v, c')
  | .probe => pure .nil
  | .evalEach => do
    let vs ← evalEach r args
    mkListM vs
  | _ =>
    match Bi.cxrPath? b with
    | some path => do
      let (v, _) ← nextArg r args
      liftE (cxrV path v)
    | none => M.throw .undefined
where
  stripDoc (rest : Val) : M Val := do
    let first ← liftE (carV rest)
    let d ← liftE (cdrV rest)
    match first with
    | .str .. => if d.isCons then pure d else pure rest
    | _ => pure rest
  makeSymbolM (name : String) : M Val := fun c =>
    let (n, c') := c.newSym { name := name, constant := name.startsWith ":" }
    (.ok (.sym n), c')
  condLoop : Val → M Val
    | .cons _ clause rest => do
      match clause with
      | .cons _ cond body => do
        let cv ← r.eval cond
        if truthy cv then (if body.isNil then pure cv else evalProgn r body)
        else condLoop rest
      | .nil => condLoop rest
      | _ => M.throw .typeMismatch
    | _ => pure .nil
  andLoop : Val → Val → M Val
    | .cons _ a d, _ => do
      let v ← r.eval a
      if v.isNil then pure v else andLoop d v
    | _, last => pure last
  orLoop : Val → M Val
    | .cons _ a d => do
      let v ← r.eval a
      if truthy v then pure v else orLoop d
    | _ => pure .nil
  /-- `funcall::<DummyEval>(f, values)` -/
  applyVals (f : Val) (vals : Val) : M Val := funcallVal r false f vals
  mapVals (f : Val) : List Val → List Val → M (List Val)
    | [], acc => pure acc.reverse
    | x :: xs, acc => do
      let l ← mkListM [x]
      let v ← applyVals f l
      mapVals f xs (v :: acc)
  filterVals (f : Val) : List Val → List Val → M (List Val)
    | [], acc => pure acc.reverse
    | x :: xs, acc => do
      let l ← mkListM [x]
      let v ← applyVals f l
      filterVals f xs (if truthy v then x :: acc else acc)
  reduceVals (f : Val) : Val → List Val → M Val
    | acc, [] => pure acc
    | acc, x :: xs => do
      let l ← mkListM [acc, x]
      let v ← applyVals f l
      reduceVals f v xs
  findVals (f : Val) (dflt : Val) : List Val → M Val
    | [] => pure dflt
    | x :: xs => do
      let l ← mkListM [x]
      let v ← applyVals f l
      if truthy v then pure x else findVals f dflt xs
  assocM (key alist testfn : Val) : M Val :=
    if !alist.isList then M.throw .typeMismatch
    else if testfn.isNil then do
      let c ← M.get
      pure (assocFind (fun k => equalV c k key) alist)
    else do
      let p ← r.eval testfn
      assocLoop p key alist
  assocLoop (p key : Val) : Val → M Val
    | .cons _ item rest =>
      match item with
      | .cons _ k _ => do
        let l ← mkListM [k, key]
        let v ← applyVals p l
        if truthy v then pure item else assocLoop p key rest
      | _ => assocLoop p key rest
    | _ => pure .nil

/-! ## eval / macroexpand steps and the knot -/

/-- `eval_basic` -/
def evalStep (r : Rec) (e : Val) : M Val :=
  match e with
  | .cons _ head args => do
    let f ← r.eval head
    match f with
    | .builtin b => if b.isMacro then funcallVal r true f args else callBuiltin r b args
    | _ => funcallVal r true f args
  | .sym n => getSym n
  | .quote v => pure v
  | .backquote v => evalBackquote r v
  | .unquote _ | .splice _ => M.throw .typeMismatch
  | other => pure other

/-- rebuild a list, expanding every element (the second half of `macroexpand`) -/
def mexpSpine (r : Rec) : Val → Acc → M Acc
  | .cons _ a d, acc => do
    let a' ← r.mexp a
    let acc ← acc.push a'
    match d with
    | .nil => pure acc
    | .cons .. => mexpSpine r d acc
    | other => acc.append other
  | _, acc => pure acc

/-- `macroexpand` -/
def mexpStep (r : Rec) (inp : Val) : M Val :=
  match inp with
  | .cons _ head args => do
    let c ← M.get
    let value : Val := match head with
      | .sym n =>
        let s := c.symD n
        if s.constant then head else match s.get with | some v => v | none => head
      | other => other
    let x ← match value with
      | .builtin b =>
        if b.isMacro then do
          let ex ← callMacro b args
          r.mexp ex
        else pure inp
      | .defmacro _ ps body => do
        let ex ← evalFunction r false ps body args
        r.mexp ex
      | _ => pure inp
    match x with
    | .cons .. => do
      let acc ← mexpSpine r x {}
      acc.build
    | _ => pure x
  | other => pure other

end Tulisp
