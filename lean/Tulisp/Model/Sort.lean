/-
  Model/Sort.lean — the algorithm of the `sort` built-in (src/builtin/functions/sequences.rs
  after the "fix:" commit): a stable merge sort driven by a monadic predicate.
  Import-free.
-/
import Tulisp.Model.Ctx
namespace Tulisp

/-- stable merge of `sort` (see src/builtin/functions/sequences.rs after the fix):
    take from the right only when `(pred r l)` is non-nil. -/
def mergeM (lt : Val → Val → M Bool) : List Val → List Val → Nat → M (List Val)
  | _, _, 0 => M.outOfFuel
  | [], rs, _ => pure rs
  | ls, [], _ => pure ls
  | l :: ls, r' :: rs, k + 1 => do
    if (← lt r' l) then do
      let rest ← mergeM lt (l :: ls) rs k
      pure (r' :: rest)
    else do
      let rest ← mergeM lt ls (r' :: rs) k
      pure (l :: rest)

/-- merge sort: right half first, then left half, then merge -/
def sortM (lt : Val → Val → M Bool) : Nat → List Val → M (List Val)
  | 0, _ => M.outOfFuel
  | k + 1, xs =>
    if xs.length < 2 then pure xs
    else do
      let h := (xs.length + 1) / 2
      let right ← sortM lt k (xs.drop h)
      let left ← sortM lt k (xs.take h)
      mergeM lt left right (xs.length + 1)

end Tulisp
