/-
  Model/Printer.lean — `impl Display for TulispValue` / `fmt_list` / `fmt_string`.
  `none` when the value contains a float whose shortest decimal form the model does not
  compute (see Num.f64ExactDecimal).
  Import-free.
-/
import Tulisp.Model.ListOps
namespace Tulisp

/-- prin1-style string: surrounding quotes, `"` and `\` escaped. -/
def escapeString (s : String) : String :=
  "\"" ++ String.ofList (s.toList.flatMap (fun ch =>
    if ch = '"' || ch = '\\' then ['\\', ch] else [ch])) ++ "\""

/-- `Display` for the values that contain no other value -/
def printAtom (c : Ctx) : Val → Option String
  | .nil => some "nil"
  | .t => some "t"
  | .int n => some (toString n)
  | .float b => f64DisplayLisp b
  | .str _ s => some (escapeString s)
  | .sym n => some (c.symName n)
  | .lambda .. => some "Defun"
  | .defmacro .. => some "Defmacro"
  | .builtin b => some (if b.isMacro then "Macro" else "Func")
  | .table _ => some "BoxedValue"
  | .bounce => some "Bounce"
  | _ => none

mutual
/-- `Display` -/
def printV (c : Ctx) : Val → Option String
  | .cons _ a d => do
    let sa ← printV c a
    let r ← printRest c d
    some ("(" ++ sa ++ r)
  | .quote v => do some ("'" ++ (← printV c v))
  | .backquote v => do some ("`" ++ (← printV c v))
  | .unquote v => do some ("," ++ (← printV c v))
  | .splice v => do some (",@" ++ (← printV c v))
  | other => printAtom c other

/-- what `fmt_list` prints after an element: the rest of the list and the closing paren -/
def printRest (c : Ctx) : Val → Option String
  | .nil => some ")"
  | .cons _ a d => do
    let sa ← printV c a
    let r ← printRest c d
    some (" " ++ sa ++ r)
  | .quote v => do some (" . '" ++ (← printV c v) ++ ")")
  | .backquote v => do some (" . `" ++ (← printV c v) ++ ")")
  | .unquote v => do some (" . ," ++ (← printV c v) ++ ")")
  | .splice v => do some (" . ,@" ++ (← printV c v) ++ ")")
  | other => do some (" . " ++ (← printAtom c other) ++ ")")
end

/-- `fmt_string` (princ style): a string is printed without quotes, everything else as
    `Display` does. -/
def princV (c : Ctx) : Val → Option String
  | .str _ s => some s
  | v => printV c v

end Tulisp
