/-
  Model/Reader.lean — the reader of tulisp (src/parse.rs): tokenizer with (line, col)
  tracking and recursive-descent parser, producing span-annotated syntax trees `Sx`.

  The tokenizer is a fold of a one-character step function over the text (a state machine
  equivalent to the peek/next loops of `Tokenizer`), so it is total by construction.
  The parser recurses on a fuel argument; `Props/C08.lean` proves that fuel
  `tokens.length + 1` always suffices.
  Import-free.
-/
import Tulisp.Model.Value
namespace Tulisp

inductive Tok where
  | open | close | quote | backtick | dot | comma | splice | sharpquote
  | str (s : String)
  | int (n : Int)
  | float (text : String)
  | ident (s : String)
  | err (msg : String)
deriving DecidableEq, Repr, Inhabited

structure Token where
  tok : Tok
  sp : Span
deriving DecidableEq, Repr, Inhabited

/-- What the tokenizer is in the middle of. -/
inductive Mode where
  | normal
  | str (start : Pos) (acc : List Char)      -- inside "…", acc reversed
  | strEsc (start : Pos) (acc : List Char)   -- just after a backslash inside "…"
  | comment
  | hash                                     -- just after '#'
  | comma                                    -- just after ','
  | numIdent (start : Pos) (acc : List Char) (isInt isFloat : Bool)  -- acc reversed, non-empty
deriving DecidableEq, Repr, Inhabited

structure TState where
  file : Nat
  line : Nat := 1
  col  : Nat := 1
  mode : Mode := .normal
  out  : List Token := []     -- reversed
deriving Repr, Inhabited

namespace TState
def here (s : TState) : Pos := ⟨s.line, s.col⟩
/-- `next_char`: advance the position over `c`. -/
def adv (s : TState) (c : Char) : TState :=
  if c = '\n' then { s with line := s.line + 1, col := 1 } else { s with col := s.col + 1 }
def emit (s : TState) (t : Tok) (a b : Pos) : TState :=
  { s with out := ⟨t, ⟨s.file, a, b⟩⟩ :: s.out }
end TState

/-- Is `text` (the characters of a num/ident token) an i64 literal?  `is_int && output != "-"`
    then `parse::<i64>`.  Returns the value if it is in range. -/
def digitsToNat (cs : List Char) : Nat :=
  cs.foldl (fun n c => n * 10 + (c.toNat - '0'.toNat)) 0

def i64Min : Int := -9223372036854775808
def i64Max : Int := 9223372036854775807
def inI64 (n : Int) : Bool := i64Min ≤ n && n ≤ i64Max

def parseIntText (cs : List Char) : Int :=
  match cs with
  | '-' :: ds => - (digitsToNat ds : Int)
  | ds => (digitsToNat ds : Int)

def hasDigit (cs : List Char) : Bool := cs.any Char.isDigit

/-- Classify a finished num/ident token (end of `read_num_ident`). -/
def classify (cs : List Char) (isInt isFloat : Bool) : Tok :=
  if isInt && cs != ['-'] then
    let n := parseIntText cs
    if inI64 n then .int n else .err "Integer literal out of range"
  else if isFloat && hasDigit cs then .float (String.ofList cs)
  else .ident (String.ofList cs)

def isBreak (c : Char) : Bool := c = ')' || c = ' ' || c = '\t' || c = '\n' || c = '\r'

/-- One step of the tokenizer in `normal` mode on character `c` at the current position. -/
def stepNormal (s : TState) (c : Char) : TState :=
  let p := s.here
  let s' := s.adv c
  let q : Pos := ⟨s'.line, s'.col⟩
  if c = '\n' || c = ' ' || c = '\r' || c = '\t' then s'
  else if c = '(' then s'.emit .open p q
  else if c = ')' then s'.emit .close p q
  else if c = '\'' then s'.emit .quote p q
  else if c = '`' then s'.emit .backtick p q
  else if c = '.' then s'.emit .dot p q
  else if c = '#' then { s' with mode := .hash }
  else if c = ',' then { s' with mode := .comma }
  else if c = '"' then { s' with mode := .str q [] }
  else if c = ';' then { s' with mode := .comment }
  else
    -- first character of read_num_ident
    let (isInt, isFloat) :=
      if c = '-' then (true, false)
      else if c.isDigit then (true, false)
      else (false, false)
    { s' with mode := .numIdent p [c] isInt isFloat }

/-- The tokenizer's step function. -/
def tstep (s : TState) (c : Char) : TState :=
  match s.mode with
  | .normal => stepNormal s c
  | .comment =>
    let s' := s.adv c
    if c = '\n' then { s' with mode := .normal } else s'
  | .hash =>
    if c = '\'' then
      let s' := s.adv c
      { s' with mode := .normal }.emit .sharpquote ⟨s'.line, s'.col - 2⟩ ⟨s'.line, s'.col⟩
    else
      -- error token, `c` is not consumed: it is then processed in normal mode
      let s1 := { s with mode := .normal }.emit (.err "Unknown token #.  Did you mean #' ?")
                  ⟨s.line, s.col - 1⟩ ⟨s.line, s.col⟩
      stepNormal s1 c
  | .comma =>
    if c = '@' then
      let s' := s.adv c
      { s' with mode := .normal }.emit .splice ⟨s'.line, s'.col - 2⟩ ⟨s'.line, s'.col⟩
    else
      let s1 := { s with mode := .normal }.emit .comma ⟨s.line, s.col - 1⟩ ⟨s.line, s.col⟩
      stepNormal s1 c
  | .str start acc =>
    let s' := s.adv c
    if c = '\\' then { s' with mode := .strEsc start acc }
    else if c = '"' then
      { s' with mode := .normal }.emit (.str (String.ofList acc.reverse)) start ⟨s'.line, s'.col⟩
    else { s' with mode := .str start (c :: acc) }
  | .strEsc start acc =>
    let s' := s.adv c
    let ok (ch : Char) : TState := { s' with mode := .str start (ch :: acc) }
    if c = 'n' then ok '\n'
    else if c = 't' then ok '\t'
    else if c = '\\' then ok '\\'
    else if c = '"' then ok '"'
    else
      { s' with mode := .normal }.emit (.err ("Unknown escape char " ++ String.singleton c))
        ⟨s'.line, s'.col - 1⟩ ⟨s'.line, s'.col⟩
  | .numIdent start acc isInt isFloat =>
    if isBreak c then
      let s1 := { s with mode := .normal }.emit (classify acc.reverse isInt isFloat) start s.here
      stepNormal s1 c
    else
      let s' := s.adv c
      if c = '-' then { s' with mode := .numIdent start (c :: acc) false false }
      else if c.isDigit then { s' with mode := .numIdent start (c :: acc) isInt isFloat }
      else if c = '.' then
        if isInt && !isFloat then { s' with mode := .numIdent start (c :: acc) false true }
        else { s' with mode := .numIdent start (c :: acc) isInt false }
      else { s' with mode := .numIdent start (c :: acc) false false }

/-- End of input: what the pending mode still yields. -/
def tfinish (s : TState) : List Token :=
  match s.mode with
  | .normal | .comment | .hash | .comma | .strEsc .. => s.out.reverse
  | .str start _ =>
    (s.emit (.err "Incomplete string literal") start s.here).out.reverse
  | .numIdent start acc isInt isFloat =>
    (s.emit (classify acc.reverse isInt isFloat) start s.here).out.reverse

def tokenizeFrom (s : TState) (cs : List Char) : List Token := tfinish (cs.foldl tstep s)

def tokenize (file : Nat) (cs : List Char) : List Token := tokenizeFrom { file := file } cs

/-! ## Syntax trees -/

inductive Sx where
  | int (sp : Span) (n : Int)
  | float (sp : Span) (text : String)
  | str (sp : Span) (s : String)
  | ident (sp : Span) (name : String)
  /-- `(items… . tail)`; `sp` is the extent from `(` to `)`. -/
  | list (sp : Span) (items : List Sx) (tail : Option Sx)
  | quote (sp : Span) (x : Sx)
  | backquote (sp : Span) (x : Sx)
  | unquote (sp : Span) (x : Sx)
  | splice (sp : Span) (x : Sx)
deriving Repr, Inhabited

inductive ParseErr where
  | unclosedList (sp : Span)
  | unexpectedClose (sp : Span)
  | unexpectedEof (sp : Span)
  | unexpectedDot (sp : Span)
  | afterDot
  | token (msg : String) (sp : Span)
deriving Repr, Inhabited, DecidableEq

/-- Outcome of a parser step. `panic` marks the places where the Rust code would `unwrap`
    a value that is absent; `fuel` means the fuel argument ran out. -/
inductive PRes (α : Type) where
  | ok (a : α)
  | eof                 -- parse_value returned Ok(None)
  | err (e : ParseErr)
  | panic (site : String)
  | fuel
deriving Repr, Inhabited

structure PState where
  toks : List Token
  events : List Sx := []     -- completed defun/defmacro lists, most recent first
deriving Repr, Inhabited

def isDefHead : List Sx → Bool
  | .ident _ n :: _ => n = "defun" || n = "defmacro"
  | _ => false

mutual
/-- `Parser::parse_value`. -/
def parseValue : Nat → PState → PRes Sx × PState
  | 0, st => (.fuel, st)
  | fuel + 1, st =>
    match st.toks with
    | [] => (.eof, st)
    | tk :: rest =>
      let st1 := { st with toks := rest }
      match tk.tok with
      | .open => parseListItems fuel tk.sp [] st1
      | .close => (.err (.unexpectedClose tk.sp), st1)
      | .dot => (.err (.unexpectedDot tk.sp), st1)
      | .err msg => (.err (.token msg tk.sp), st1)
      | .str s => (.ok (.str tk.sp s), st1)
      | .int n => (.ok (.int tk.sp n), st1)
      | .float x => (.ok (.float tk.sp x), st1)
      | .ident s => (.ok (.ident tk.sp s), st1)
      | .quote | .sharpquote => wrap fuel tk.sp (Sx.quote tk.sp) st1
      | .backtick => wrap fuel tk.sp (Sx.backquote tk.sp) st1
      | .comma => wrap fuel tk.sp (Sx.unquote tk.sp) st1
      | .splice => wrap fuel tk.sp (Sx.splice tk.sp) st1

/-- The `match self.parse_value()? { Some(next) => wrapper, None => Err(Unexpected EOF) }` arms. -/
def wrap : Nat → Span → (Sx → Sx) → PState → PRes Sx × PState
  | 0, _, _, st => (.fuel, st)
  | fuel + 1, sp, mk, st =>
    match parseValue fuel st with
    | (.ok x, st') => (.ok (mk x), st')
    | (.eof, st') => (.err (.unexpectedEof sp), st')
    | (.err e, st') => (.err e, st')
    | (.panic p, st') => (.panic p, st')
    | (.fuel, st') => (.fuel, st')

/-- The loop of `Parser::parse_list`; `acc` holds the items read so far (reversed). -/
def parseListItems : Nat → Span → List Sx → PState → PRes Sx × PState
  | 0, _, _, st => (.fuel, st)
  | fuel + 1, start, acc, st =>
    match st.toks with
    | [] => (.err (.unclosedList start), st)
    | tk :: rest =>
      match tk.tok with
      | .close =>
        let items := acc.reverse
        let l := Sx.list ⟨start.file, start.s, tk.sp.e⟩ items none
        let st1 := { st with toks := rest }
        (.ok l, if isDefHead items then { st1 with events := l :: st1.events } else st1)
      | .dot =>
        let st1 := { st with toks := rest }
        match parseValue fuel st1 with
        | (.ok next, st2) =>
          match st2.toks with
          | tk2 :: rest2 =>
            if tk2.tok = .close then
              let items := acc.reverse
              let l := Sx.list ⟨start.file, start.s, tk2.sp.e⟩ items (some next)
              let st3 := { st2 with toks := rest2 }
              (.ok l, if isDefHead items then { st3 with events := l :: st3.events } else st3)
            else (.err .afterDot, { st2 with toks := rest2 })
          | [] => (.err .afterDot, st2)
        | (.eof, st2) => (.err (.unexpectedEof tk.sp), st2)   -- after the "fix:" of parse_list
        | (.err e, st2) => (.err e, st2)
        | (.panic p, st2) => (.panic p, st2)
        | (.fuel, st2) => (.fuel, st2)
      | _ =>
        match parseValue fuel st with
        | (.ok x, st') => parseListItems fuel start (x :: acc) st'
        | (.eof, st') => (.panic "parse_list: parse_value()?.unwrap()", st')
        | (.err e, st') => (.err e, st')
        | (.panic p, st') => (.panic p, st')
        | (.fuel, st') => (.fuel, st')
end

/-- `Parser::parse` without the final macro-expansion: all top-level values. -/
def parseAll : Nat → List Sx → PState → PRes (List Sx) × PState
  | 0, _, st => (.fuel, st)
  | fuel + 1, acc, st =>
    match parseValue fuel st with
    | (.ok x, st') => parseAll fuel (x :: acc) st'
    | (.eof, st') => (.ok acc.reverse, st')
    | (.err e, st') => (.err e, st')
    | (.panic p, st') => (.panic p, st')
    | (.fuel, st') => (.fuel, st')

structure ReadResult where
  res : PRes (List Sx)
  /-- defun/defmacro lists completed before the result was reached, in completion order -/
  events : List Sx
deriving Repr, Inhabited

def parseTokens (toks : List Token) : ReadResult :=
  let (r, st) := parseAll (2 * toks.length + 2) [] { toks := toks }
  ⟨r, st.events.reverse⟩

/-- The reader: text to syntax trees. -/
def readText (file : Nat) (cs : List Char) : ReadResult := parseTokens (tokenize file cs)

end Tulisp
