/-
  Model/Ctx.lean — interpreter state of the model and the *shallow binding* store
  (src/value.rs `SymbolBindings`): every symbol carries its own stack of values.

  Symbols are indices into `Ctx.syms`; interned symbols are additionally reachable by name
  through `Ctx.obarray`.  Uninterned symbols (`make-symbol`, `gensym`, the `s` of `if-let`)
  and the closure cells of `lambda` (`TulispValue::LexicalBinding`) are entries without
  obarray name; a cell records the symbol it stands for in `base`.
  Import-free apart from Std.HashMap (part of the toolchain).
-/
import Std.Data.HashMap
import Tulisp.Model.Num
namespace Tulisp

/-- `SymbolBindings` -/
structure SymSt where
  name : String
  constant : Bool := false
  hasGlobal : Bool := false
  /-- the binding stack, innermost (top) first -/
  items : List Val := []
  /-- for a closure cell: the symbol it stands for (`LexicalBinding::symbol`) -/
  base : Option Nat := none
deriving Repr, Inhabited

namespace SymSt

/-- `SymbolBindings::set`: overwrite the innermost binding or create the global one. -/
def set (s : SymSt) (v : Val) : SymSt :=
  match s.items with
  | [] => { s with hasGlobal := true, items := [v] }
  | _ :: rest => { s with items := v :: rest }

/-- replace the last element of a non-empty list -/
def replaceLast : List Val → Val → List Val
  | [], _ => []
  | [_], v => [v]
  | x :: xs, v => x :: replaceLast xs v

/-- `SymbolBindings::set_global` (after the fix): write the bottom entry if it is the global
    one, else insert the global value below the local bindings. -/
def setGlobal (s : SymSt) (v : Val) : SymSt :=
  if s.hasGlobal && !s.items.isEmpty then { s with items := replaceLast s.items v }
  else { s with hasGlobal := true, items := s.items ++ [v] }

/-- `SymbolBindings::set_scope` -/
def push (s : SymSt) (v : Val) : SymSt := { s with items := v :: s.items }

/-- `SymbolBindings::unset`; `none` when there is nothing to pop.  (The `has_global` flag is
    sticky, as in the Rust code.) -/
def pop (s : SymSt) : Option SymSt :=
  match s.items with
  | [] => none
  | _ :: rest => some { s with items := rest }

def get (s : SymSt) : Option Val := s.items.head?

def boundp (s : SymSt) : Bool := !s.items.isEmpty

/-- `TulispValue::is_lexically_bound` for a symbol -/
def lexBound (s : SymSt) : Bool :=
  if s.hasGlobal then s.items.length > 1 else !s.items.isEmpty

end SymSt

inductive ErrKind where
  | notImplemented | parsingError | typeMismatch | undefined | uninitialized
  | syntaxError | missingArgument | outOfRange
deriving DecidableEq, Repr, Inhabited

def ErrKind.name : ErrKind → String
  | .notImplemented => "NotImplemented"
  | .parsingError => "ParsingError"
  | .typeMismatch => "TypeMismatch"
  | .undefined => "Undefined"
  | .uninitialized => "Uninitialized"
  | .syntaxError => "SyntaxError"
  | .missingArgument => "MissingArgument"
  | .outOfRange => "OutOfRange"

structure Ctx where
  syms : Array SymSt := #[]
  obarray : Std.HashMap String Nat := {}
  /-- hash tables: id ↦ association list, most recent first, keys compared with `eql` -/
  tables : List (Nat × List (Val × Val)) := []
  nextId : Nat := 1
  /-- ghost: log of the arguments of `(tick n)` calls, most recent first -/
  ticks : List Int := []
  tickCount : Nat := 0
  failAt : Nat := 0
  /-- virtual file system used by `load` (name, contents) -/
  files : List (String × String) := []
  nfiles : Nat := 1
deriving Inhabited

/-- Outcome of a model computation.  `panic` marks where the Rust code would panic,
    `fuel` that the model gave up (depth or iteration budget exhausted). -/
inductive Res (α : Type) where
  | ok (a : α)
  | err (k : ErrKind)
  | panic (site : String)
  | fuel
deriving Repr, Inhabited

/-- State is always threaded, also out of errors (the context outlives a failed request). -/
abbrev M (α : Type) := Ctx → Res α × Ctx

namespace M
@[inline] def pure (a : α) : M α := fun c => (.ok a, c)
@[inline] def bind (m : M α) (f : α → M β) : M β := fun c =>
  match m c with
  | (.ok a, c') => f a c'
  | (.err k, c') => (.err k, c')
  | (.panic s, c') => (.panic s, c')
  | (.fuel, c') => (.fuel, c')
@[inline] def throw (k : ErrKind) : M α := fun c => (.err k, c)
@[inline] def outOfFuel : M α := fun c => (.fuel, c)
@[inline] def panicAt (s : String) : M α := fun c => (.panic s, c)
@[inline] def get : M Ctx := fun c => (.ok c, c)
@[inline] def modify (f : Ctx → Ctx) : M Unit := fun c => (.ok (), f c)
/-- run `m`, then `fin` whatever the outcome of `m` (ok / err / panic / fuel), then continue
    with the outcome of `m`. -/
@[inline] def finally' (m : M α) (fin : Ctx → Ctx) : M α := fun c =>
  let (r, c') := m c
  (r, fin c')
end M

instance : Monad M where
  pure := M.pure
  bind := M.bind

namespace Ctx

def sym? (c : Ctx) (n : Nat) : Option SymSt := c.syms[n]?

def symD (c : Ctx) (n : Nat) : SymSt := c.syms.getD n { name := "?" }

def symName (c : Ctx) (n : Nat) : String := (c.symD n).name

def modSym (c : Ctx) (n : Nat) (f : SymSt → SymSt) : Ctx :=
  { c with syms := c.syms.modify n f }

/-- A new symbol-table entry (not in the obarray). -/
def newSym (c : Ctx) (s : SymSt) : Nat × Ctx :=
  (c.syms.size, { c with syms := c.syms.push s })

/-- `TulispContext::intern` -/
def intern (c : Ctx) (name : String) : Nat × Ctx :=
  match c.obarray[name]? with
  | some n => (n, c)
  | none =>
    let n := c.syms.size
    (n, { c with syms := c.syms.push { name := name, constant := name.startsWith ":" },
                 obarray := c.obarray.insert name n })

def freshId (c : Ctx) : Nat × Ctx := (c.nextId, { c with nextId := c.nextId + 1 })

/-- Binding depth of a symbol. -/
def depth (c : Ctx) (n : Nat) : Nat := (c.symD n).items.length

end Ctx

/-- allocate a fresh identity -/
def newId : M Nat := fun c => let (i, c') := c.freshId; (.ok i, c')

def mkCons (a d : Val) : M Val := do
  let i ← newId
  return .cons i a d

def mkStr (s : String) : M Val := do
  let i ← newId
  return .str i s

/-- Build a fresh list from elements and a tail. -/
def mkListM (xs : List Val) (tl : Val := .nil) : M Val := fun c =>
  let (v, n') := Val.mkList c.nextId xs tl
  (.ok v, { c with nextId := n' })

def internM (name : String) : M Nat := fun c => let (n, c') := c.intern name; (.ok n, c')

def symVal (name : String) : M Val := do
  let n ← internM name
  return .sym n

/-! ### the symbol operations of src/object.rs / src/value.rs, on values -/

/-- `TulispObject::get` on a symbol index: keyword ↦ itself; unbound ↦ TypeMismatch. -/
def getSym (n : Nat) : M Val := fun c =>
  let s := c.symD n
  if s.constant then (.ok (.sym n), c)
  else match s.get with
    | some v => (.ok v, c)
    | none => (.err .typeMismatch, c)

def notConstant (n : Nat) : M Unit := fun c =>
  if (c.symD n).constant then (.err .undefined, c) else (.ok (), c)

/-- `TulispObject::set` -/
def setV (target v : Val) : M Unit :=
  match target with
  | .sym n => do notConstant n; M.modify (·.modSym n (·.set v))
  | _ => M.throw .typeMismatch

/-- `TulispObject::set_global` -/
def setGlobalV (target v : Val) : M Unit :=
  match target with
  | .sym n => do notConstant n; M.modify (·.modSym n (·.setGlobal v))
  | _ => M.throw .typeMismatch

/-- `TulispObject::set_scope` -/
def pushV (target v : Val) : M Unit :=
  match target with
  | .sym n => do notConstant n; M.modify (·.modSym n (·.push v))
  | _ => M.throw .typeMismatch

/-- `TulispObject::unset` -/
def popV (target : Val) : M Unit :=
  match target with
  | .sym n => fun c =>
    match (c.symD n).pop with
    | some s' => (.ok (), c.modSym n (fun _ => s'))
    | none => (.err .uninitialized, c)
  | _ => M.throw .typeMismatch

/-- pop without failing (used on error paths, where the Rust code pops what it pushed) -/
def popSymCtx (c : Ctx) (n : Nat) : Ctx :=
  match (c.symD n).pop with
  | some s' => c.modSym n (fun _ => s')
  | none => c

end Tulisp
