/-
  Model/Api.lean — the object-level Rust API of tulisp (src/object.rs, src/value.rs,
  src/cons.rs, src/lists.rs, src/macros.rs) on an explicit heap: a `TulispObject` is a
  reference to a mutable cell, `push` and `append` assign cells in place, so several handles
  may observe one mutation.  This is the only part of the model with mutation.
  Import-free.
-/
import Tulisp.Model.Num
namespace Tulisp.Api
open Tulisp

/-- what a cell holds (`TulispValue`, the data variants) -/
inductive Obj where
  | nil | t
  | int (n : Int)
  | float (bits : UInt64)
  | str (s : String)
  | sym (name : String)
  | cons (car cdr : Nat)
deriving DecidableEq, Repr, Inhabited

inductive AErr where
  | typeMismatch | outOfRange | uninitialized | undefined
deriving DecidableEq, Repr, Inhabited

structure Heap where
  cells : Array Obj := #[]
deriving Repr, Inhabited

abbrev Ref := Nat

namespace Heap

def get (h : Heap) (r : Ref) : Obj := h.cells.getD r .nil

def alloc (h : Heap) (o : Obj) : Ref × Heap := (h.cells.size, { cells := h.cells.push o })

def assign (h : Heap) (r : Ref) (o : Obj) : Heap := { cells := h.cells.setIfInBounds r o }

def isCons (h : Heap) (r : Ref) : Bool := match h.get r with | .cons .. => true | _ => false
def isNil (h : Heap) (r : Ref) : Bool := h.get r == .nil

/-- follow cdr links from `r` while they are conses; returns the last cons reached (if any
    step was made) and the final non-cons reference.  `fuel` bounds the walk (cells.size). -/
def walk (h : Heap) : Nat → Option Ref → Ref → Option Ref × Ref
  | 0, prev, r => (prev, r)
  | fuel + 1, prev, r =>
    match h.get r with
    | .cons _ d => walk h fuel (some r) d
    | _ => (prev, r)

/-- the sequence of element references reachable from `r` along cdr links, and the final tail -/
def toList (h : Heap) : Nat → Ref → List Ref × Ref
  | 0, r => ([], r)
  | fuel + 1, r =>
    match h.get r with
    | .cons a d => let (xs, tl) := toList h fuel d; (a :: xs, tl)
    | _ => ([], r)

def elems (h : Heap) (r : Ref) : List Ref := (h.toList (h.cells.size + 1) r).1

/-- `TulispObject::push` -/
def push (h : Heap) (r v : Ref) : Except AErr Heap :=
  match h.get r with
  | .cons _ d =>
    let (_, last) := h.walk (h.cells.size + 1) none d
    if h.isNil last then
      let (n, h1) := h.alloc .nil
      .ok (h1.assign last (.cons v n))
    else .error .typeMismatch
  | .nil =>
    let (n, h1) := h.alloc .nil
    .ok (h1.assign r (.cons v n))
  | _ => .error .typeMismatch

/-- `TulispObject::deep_copy`: a fresh spine; elements that are conses get a fresh top cell
    sharing their car / cdr; atoms are shared; symbols are returned as they are. -/
def deepCopy (h : Heap) (r : Ref) : Ref × Heap :=
  match h.get r with
  | .sym _ => (r, h)
  | .cons .. =>
    let (xs, tl) := h.toList (h.cells.size + 1) r
    -- copy elements
    let (xs', h1) := xs.foldl (fun (acc : List Ref × Heap) x =>
      match acc.2.get x with
      | .cons a d => let (n, h') := acc.2.alloc (.cons a d); (n :: acc.1, h')
      | _ => (x :: acc.1, acc.2)) ([], h)
    -- the tail: `ret.append(rest)`: nil stays nil (a fresh nil cell), an atom is copied
    let (tl', h2) := match h1.get tl with
      | .sym _ => (tl, h1)                 -- a symbol is never copied
      | o => h1.alloc o
    -- build the spine back to front
    let (res, h3) := xs'.foldl (fun (acc : Ref × Heap) x =>
      let (n, h') := acc.2.alloc (.cons x acc.1); (n, h')) (tl', h2)
    (res, h3)
  | o => h.alloc o

/-- `TulispObject::append` -/
def append (h : Heap) (r v : Ref) : Except AErr Heap :=
  match h.get r with
  | .cons _ d =>
    let (lbo, last) := h.walk (h.cells.size + 1) none d
    if h.isNil last then
      let (cp, h1) := h.deepCopy v
      match lbo with
      | some l =>
        match h1.get l with
        | .cons a _ => .ok (h1.assign l (.cons a cp))
        | _ => .ok h1
      | none =>
        match h1.get r with
        | .cons a _ => .ok (h1.assign r (.cons a cp))
        | _ => .ok h1
    else .error .typeMismatch
  | .nil =>
    match h.get v with
    | .nil => .ok h
    | .cons .. =>
      -- after the "fix:": a copy is attached, never the cells of `v` themselves
      let (cp, h1) := h.deepCopy v
      match h1.get cp with
      | .cons a d => .ok (h1.assign r (.cons a d))
      | _ => .ok h1
    | _ =>
      -- an atom: `Cons::new(copy of the atom, nil)`
      let (cp, h0) := h.deepCopy v
      let (n, h1) := h0.alloc .nil
      .ok (h1.assign r (.cons cp n))
  | _ => .error .typeMismatch

/-- `car` / `cdr` (nil-tolerant: nil gives a fresh nil) -/
def car (h : Heap) (r : Ref) : Except AErr (Ref × Heap) :=
  match h.get r with
  | .cons a _ => .ok (a, h)
  | .nil => .ok (h.alloc .nil)
  | _ => .error .typeMismatch

def cdr (h : Heap) (r : Ref) : Except AErr (Ref × Heap) :=
  match h.get r with
  | .cons _ d => .ok (d, h)
  | .nil => .ok (h.alloc .nil)
  | _ => .error .typeMismatch

/-- `eq`: same cell, or both nil / both t -/
def eq (h : Heap) (a b : Ref) : Bool :=
  a == b || (h.get a == .nil && h.get b == .nil) || (h.get a == .t && h.get b == .t)

def fEqBits (a b : UInt64) : Bool :=
  !f64IsNaN a && !f64IsNaN b && (a == b || ((a <<< 1) == 0 && (b <<< 1) == 0))

/-- `equal`: structural; symbols by identity of the interned object (here: name) -/
def equal (h : Heap) : Nat → Ref → Ref → Bool
  | 0, _, _ => false
  | fuel + 1, a, b =>
    match h.get a, h.get b with
    | .sym x, .sym y => x == y
    | .sym _, _ => false
    | .int x, .int y => x == y
    | .float x, .float y => fEqBits x y
    | .int x, .float y => fEqBits (intToF64 x) y
    | .float x, .int y => fEqBits x (intToF64 y)
    | .str x, .str y => x == y
    | .cons a1 d1, .cons a2 d2 => equal h fuel a1 a2 && equal h fuel d1 d2
    | .nil, .nil => true
    | .t, .t => true
    | _, _ => false

/-! ### the list helpers of `src/lists.rs` on heap objects -/

/-- `lists::length`: the number of elements along the cdr chain (a dotted tail is not counted) -/
def length (h : Heap) (r : Ref) : Nat := (h.elems r).length

/-- `lists::nthcdr`: `n` cdr steps, stopping at nil; the cdr of an atom is an error -/
def nthcdr (h : Heap) : Nat → Ref → Except AErr Ref
  | 0, r => .ok r
  | n + 1, r =>
    match h.get r with
    | .nil => .ok r
    | .cons _ d => nthcdr h n d
    | _ => .error .typeMismatch

/-- `lists::nth`: the car of the n-th cdr (nil-tolerant: a fresh nil past the end) -/
def nth (h : Heap) (n : Int) (r : Ref) : Except AErr (Ref × Heap) :=
  match h.nthcdr n.toNat r with
  | .ok x => h.car x
  | .error e => .error e

/-- `lists::last` -/
def last (h : Heap) (r : Ref) (n : Option Int) : Except AErr Ref :=
  match h.get r with
  | .nil => .ok r
  | .cons .. =>
    let len : Int := h.length r
    match n with
    | some k =>
      if k < 0 then .error .outOfRange
      else if k < len then h.nthcdr (len - k).toNat r
      else .ok r
    | none => h.nthcdr (len - 1).toNat r
  | _ => .error .typeMismatch

/-- `lists::assoc` with the default test (`equal`): the first element that is a pair whose car is
    `equal` to the key; elements that are not pairs are skipped; nil (a fresh one) if there is none -/
def assoc (h : Heap) (key r : Ref) : Except AErr (Ref × Heap) :=
  match h.get r with
  | .nil | .cons .. =>
    let found := (h.elems r).find? fun item =>
      match h.get item with
      | .cons a _ => h.equal (h.cells.size + 2) a key
      | _ => false
    match found with
    | some item => .ok (item, h)
    | none => .ok (h.alloc .nil)
  | _ => .error .typeMismatch

/-- `lists::alist_get` with the default test: the cdr of the association found, else the default
    (nil when none is given) -/
def alistGet (h : Heap) (key r : Ref) (dflt : Option Ref) : Except AErr (Ref × Heap) :=
  match h.assoc key r with
  | .error e => .error e
  | .ok (x, h1) =>
    match h1.get x with
    | .cons _ d => .ok (d, h1)
    | _ =>
      match dflt with
      | some d => .ok (d, h1)
      | none => .ok (h1.alloc .nil)

/-- `lists::alist_from`: the pairs `(k . v)` pushed onto an empty list, in order -/
def alistFrom (h : Heap) (kvs : List (Ref × Ref)) : Except AErr (Ref × Heap) :=
  let (l, h0) := h.alloc .nil
  let r := kvs.foldl (fun (acc : Except AErr Heap) kv =>
    match acc with
    | .ok hh => let (p, h1) := hh.alloc (.cons kv.1 kv.2); h1.push l p
    | .error e => .error e) (.ok h0)
  match r with
  | .ok hh => .ok (l, hh)
  | .error e => .error e

/-- `lists::plist_from`: keys and values pushed alternately -/
def plistFrom (h : Heap) (kvs : List (Ref × Ref)) : Except AErr (Ref × Heap) :=
  let (l, h0) := h.alloc .nil
  let r := kvs.foldl (fun (acc : Except AErr Heap) kv =>
    match acc with
    | .ok hh => (match hh.push l kv.1 with | .ok h1 => h1.push l kv.2 | .error e => .error e)
    | .error e => .error e) (.ok h0)
  match r with
  | .ok hh => .ok (l, hh)
  | .error e => .error e

end Heap

/-- binding stacks of the symbol API (`set`, `set_scope`, `unset`, `get`, `boundp`): references -/
structure SymStack where
  items : List Ref := []
deriving Repr, Inhabited

structure State where
  heap : Heap := {}
  handles : Array Ref := #[]
  syms : List (String × List Ref) := []
deriving Repr, Inhabited

namespace State

def stackOf (s : State) (name : String) : List Ref :=
  match s.syms.find? (·.1 == name) with
  | some (_, l) => l
  | none => []

def setStack (s : State) (name : String) (l : List Ref) : State :=
  { s with syms := (name, l) :: s.syms.filter (·.1 != name) }

def isKeyword (name : String) : Bool := name.startsWith ":"

/-- `set`: overwrite the top or create the bottom entry -/
def symSet (s : State) (name : String) (v : Ref) : Except AErr State :=
  if isKeyword name then .error .undefined else
  match s.stackOf name with
  | [] => .ok (s.setStack name [v])
  | _ :: rest => .ok (s.setStack name (v :: rest))

/-- `set_scope`: push -/
def symPush (s : State) (name : String) (v : Ref) : Except AErr State :=
  if isKeyword name then .error .undefined else .ok (s.setStack name (v :: s.stackOf name))

/-- `unset`: pop, error on an empty stack -/
def symPop (s : State) (name : String) : Except AErr State :=
  match s.stackOf name with
  | [] => .error .uninitialized
  | _ :: rest => .ok (s.setStack name rest)

/-- `get`: top of the stack; a keyword is its own value -/
def symGet (s : State) (name : String) : Except AErr (Option Ref) :=
  if isKeyword name then .ok none else
  match s.stackOf name with
  | [] => .error .typeMismatch
  | v :: _ => .ok (some v)

def symBoundp (s : State) (name : String) : Bool := !(s.stackOf name).isEmpty

end State

end Tulisp.Api
