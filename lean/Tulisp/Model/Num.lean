/-
  Model/Num.lean — the numeric tower of tulisp (i64 integers with checked arithmetic,
  IEEE binary64 floats) and the exact decimal <-> binary64 conversions the model needs.

  Integer operations are on `Int` with an explicit i64 range check (after the "fix:" commits
  every integer overflow is an error in both build profiles).  Float operations use Lean's
  `Float` (the same IEEE binary64 hardware operations as Rust's `f64`); the conversions
  decimal -> float, int -> float, float -> int, `fmod` and float -> decimal are computed here
  exactly, on `Nat`/`Int`, because they are runtime-library behaviour on the Rust side.
  Import-free.
-/
import Tulisp.Model.Reader
namespace Tulisp

/-! ## exact binary64 encoding -/

def pow2 (n : Nat) : Nat := 1 <<< n

/-- Round `num / den` (den > 0) to the nearest integer, ties to even. -/
def divRoundEven (num den : Nat) : Nat :=
  let q := num / den
  let r := num % den
  if 2 * r < den then q
  else if 2 * r > den then q + 1
  else if q % 2 = 0 then q else q + 1

/-- Scale: `num/den * 2^(-k)` as a fraction. -/
def scaleFrac (num den : Nat) (k : Int) : Nat × Nat :=
  if k ≥ 0 then (num, den * pow2 k.toNat) else (num * pow2 (-k).toNat, den)

/-- The binary64 bit pattern (without sign) nearest to the positive rational `num/den`
    (round to nearest, ties to even; overflow gives +inf, underflow goes through the
    subnormals to 0). -/
def ratToF64Abs (num den : Nat) : UInt64 :=
  if num = 0 then 0 else
  -- first guess of the exponent k such that num/den / 2^k lies in [2^52, 2^53)
  let k0 : Int := (num.log2 : Int) - (den.log2 : Int) - 52
  let (n0, d0) := scaleFrac num den k0
  let q0 := n0 / d0
  let k : Int := if q0 < pow2 52 then k0 - 1 else if q0 ≥ pow2 53 then k0 + 1 else k0
  -- clamp to the subnormal exponent
  let k : Int := if k < -1074 then -1074 else k
  let (n1, d1) := scaleFrac num den k
  let q := divRoundEven n1 d1
  -- rounding may carry into the next binade
  let (q, k) := if q ≥ pow2 53 then (q / 2, k + 1) else (q, k)
  if q < pow2 52 then
    -- subnormal (k = -1074) or zero
    q.toUInt64
  else
    let e : Int := k + 52 + 1023
    if e ≥ 2047 then 0x7FF0000000000000
    else ((e.toNat <<< 52) + (q - pow2 52)).toUInt64

def signBit : UInt64 := 0x8000000000000000

def ratToF64 (neg : Bool) (num den : Nat) : UInt64 :=
  let b := ratToF64Abs num den
  if neg then b ||| signBit else b

/-- `i as f64`. -/
def intToF64 (i : Int) : UInt64 := ratToF64 (i < 0) i.natAbs 1

/-- Decode finite bits into (negative, mantissa, exponent) with value = ±mantissa * 2^exponent.
    `none` for inf / NaN. -/
def f64Decode (b : UInt64) : Option (Bool × Nat × Int) :=
  let neg := (b &&& signBit) != 0
  let e := ((b >>> 52) &&& 0x7FF).toNat
  let m := (b &&& 0xFFFFFFFFFFFFF).toNat
  if e = 2047 then none
  else if e = 0 then some (neg, m, -1074)
  else some (neg, m + pow2 52, (e : Int) - 1075)

def f64IsNaN (b : UInt64) : Bool :=
  ((b >>> 52) &&& 0x7FF) == 0x7FF && (b &&& 0xFFFFFFFFFFFFF) != 0

def f64IsInf (b : UInt64) : Bool :=
  ((b >>> 52) &&& 0x7FF) == 0x7FF && (b &&& 0xFFFFFFFFFFFFF) == 0

def f64IsNeg (b : UInt64) : Bool := (b &&& signBit) != 0

/-- `f.trunc() as i64`: truncation toward zero, saturating, NaN ↦ 0. -/
def f64ToI64Trunc (b : UInt64) : Int :=
  match f64Decode b with
  | none => if f64IsNaN b then 0 else if f64IsNeg b then i64Min else i64Max
  | some (neg, m, e) =>
    let mag : Nat := if e ≥ 0 then m * pow2 e.toNat else m / pow2 (-e).toNat
    let v : Int := if neg then -(mag : Int) else mag
    if v < i64Min then i64Min else if v > i64Max then i64Max else v

/-- Exact `fmod` (C / Rust `%` on f64): result has the sign of the dividend, |r| < |y|. -/
def f64Fmod (x y : UInt64) : UInt64 :=
  match f64Decode x, f64Decode y with
  | some (nx, mx, ex), some (_, my, ey) =>
    if my = 0 then 0x7FF8000000000000          -- NaN
    else if mx = 0 then x
    else
      -- bring both to the common exponent e = min ex ey
      let e := if ex ≤ ey then ex else ey
      let ax := mx * pow2 (ex - e).toNat
      let ay := my * pow2 (ey - e).toNat
      let r := ax % ay
      if r = 0 then (if nx then signBit else 0)
      else
        let (n, d) := scaleFrac r 1 (-e)       -- r * 2^e as a fraction
        ratToF64 nx n d
  | some _, none => if f64IsNaN y then 0x7FF8000000000000 else x   -- x % ±inf = x
  | none, _ => 0x7FF8000000000000

/-! ## decimal text -/

/-- Value of a float token (`-?digits.digits`): sign, digits without the dot, number of
    digits after the dot. -/
def floatTextParts (s : String) : Bool × Nat × Nat :=
  let cs := s.toList
  let (neg, cs) := match cs with
    | '-' :: r => (true, r)
    | r => (false, r)
  let intPart := cs.takeWhile (· != '.')
  let frac := (cs.dropWhile (· != '.')).drop 1
  (neg, digitsToNat (intPart ++ frac), frac.length)

/-- `str::parse::<f64>` on a float token. -/
def parseFloatText (s : String) : UInt64 :=
  let (neg, m, fd) := floatTextParts s
  ratToF64 neg m (10 ^ fd)

/-- Decimal digits of `n`. -/
def natDigits (n : Nat) : String := toString n

/-- Exact decimal expansion of a finite float when it is short: mantissa*2^e written in
    positional notation, if it has at most 17 significant digits; `none` otherwise (the
    shortest round-trip printing of Rust's `{}` is then not reproduced by the model). -/
def f64ExactDecimal (b : UInt64) : Option String :=
  match f64Decode b with
  | none => none
  | some (neg, m, e) =>
    let sign := if neg then "-" else ""
    if m = 0 then some (sign ++ "0")
    else if e ≥ 0 then
      if e > 70 then none else
      let v := m * pow2 e.toNat
      let s := natDigits v
      -- integers print in full with `{}`; they are shortest-round-trip only when short
      if s.length ≤ 15 then some (sign ++ s) else none
    else
      let k := (-e).toNat
      if k > 60 then none else
      -- m / 2^k = (m * 5^k) / 10^k
      let num := m * 5 ^ k
      let ip := num / 10 ^ k
      let fp := num % 10 ^ k
      let fs := natDigits fp
      let fs := String.ofList (List.replicate (k - fs.length) '0') ++ fs
      -- strip trailing zeros
      let fl := (fs.toList.reverse.dropWhile (· == '0')).reverse
      let ips := natDigits ip
      let sig := (if ip = 0 then 0 else ips.length) + fl.length
      if sig > 15 then none
      else if fl.isEmpty then some (sign ++ ips)
      else some (sign ++ ips ++ "." ++ String.ofList fl)

/-- number of decimal digits of a positive natural number (0 for 0) -/
def decLen (n : Nat) : Nat := if n = 0 then 0 else (natDigits n).length

/-- `d * 10^(-s)` in positional notation (no exponent), `d > 0`; trailing zeros of the fraction
    are removed first. -/
def positional : Nat → Nat → Nat → String
  | 0, d, s => natDigits d ++ String.ofList (List.replicate 0 '0') ++ (if s = 0 then "" else "")
  | fuel + 1, d, s =>
    if s > 0 && d % 10 = 0 && d > 0 then positional fuel (d / 10) (s - 1)
    else if s = 0 then natDigits d
    else
      let ds := natDigits d
      if ds.length > s then
        String.ofList (ds.toList.take (ds.length - s)) ++ "." ++ String.ofList (ds.toList.drop (ds.length - s))
      else "0." ++ String.ofList (List.replicate (s - ds.length) '0') ++ ds

/-- The shortest decimal that reads back as the same float, the closest one to the true value
    among the shortest (what Rust's `{}` prints, in positional notation): for p = 1, 2, … digits
    the two p-digit neighbours of the exact value are tried; the first p at which one of them
    round-trips (under the correctly rounded reading `ratToF64Abs`) is taken.  `num/den` is the
    exact positive value, `t` the decimal exponent of its leading digit. -/
def shortestFrom (bits : UInt64) (num den : Nat) (t : Int) : Nat → Nat → Option String
  | 0, _ => none
  | fuel + 1, p =>
    -- scaled value x = num/den * 10^sh with sh = p - 1 - t
    let sh : Int := (p : Int) - 1 - t
    let (n, d) := if sh ≥ 0 then (num * 10 ^ sh.toNat, den) else (num, den * 10 ^ (-sh).toNat)
    let lo := n / d
    let hi := lo + 1
    let back (c : Nat) : Bool :=
      c > 0 && (if sh ≥ 0 then ratToF64Abs c (10 ^ sh.toNat) else ratToF64Abs (c * 10 ^ (-sh).toNat) 1) == bits
    let okLo := back lo
    let okHi := back hi
    let pick : Option Nat :=
      if okLo && okHi then
        -- the closer one; an exact tie goes up (as Rust's `{}` does: 2^-25 prints …95313)
        (if 2 * (n % d) < d then some lo else some hi)
      else if okLo then some lo else if okHi then some hi else none
    match pick with
    | some c =>
      if sh ≥ 0 then some (positional 400 c sh.toNat)
      else some (natDigits (c * 10 ^ (-sh).toNat))
    | none => shortestFrom bits num den t fuel (p + 1)

/-- decimal exponent of the leading digit of the positive rational `num/den` -/
def decExp (num den : Nat) : Int :=
  if num ≥ den then ((decLen (num / den) : Nat) : Int) - 1
  else
    -- smallest k ≥ 1 with num * 10^k ≥ den
    let rec go : Nat → Nat → Int
      | 0, k => -(k : Int)
      | f + 1, k => if num * 10 ^ k ≥ den then -(k : Int) else go f (k + 1)
    go 400 1

/-- Shortest round-trip printing of a finite non-zero float (without sign). -/
def f64ShortestAbs (b : UInt64) : Option String :=
  match f64Decode b with
  | none => none
  | some (_, m, e) =>
    if m = 0 then none else
    let (num, den) := if e ≥ 0 then (m * pow2 e.toNat, 1) else (m, pow2 (-e).toNat)
    shortestFrom (b &&& ~~~signBit) num den (decExp num den) 20 1

/-- Rust `format!("{}", f)` for floats the model can print (see `f64ExactDecimal`), plus the
    non-finite cases. -/
def f64Display (b : UInt64) : Option String :=
  if f64IsNaN b then some "NaN"
  else if f64IsInf b then some (if f64IsNeg b then "-inf" else "inf")
  else match f64ExactDecimal b with
    | some s => some s
    | none => (f64ShortestAbs b).map fun s => (if f64IsNeg b then "-" else "") ++ s

/-- Is the finite float integral (`fract() == 0.0`)? -/
def f64IsIntegral (b : UInt64) : Bool :=
  match f64Decode b with
  | none => false
  | some (_, m, e) => m = 0 || e ≥ 0 || m % pow2 (-e).toNat = 0

/-- The exact integer value of an integral finite float, in decimal (with sign; "-0" for -0.0). -/
def f64ExactInt (b : UInt64) : Option String :=
  match f64Decode b with
  | none => none
  | some (neg, m, e) =>
    let v := if e ≥ 0 then m * pow2 e.toNat else m / pow2 (-e).toNat
    some ((if neg then "-" else "") ++ natDigits v)

/-- `Display for TulispValue::Float` after the fix: integral finite floats are written with
    `{:.1}` — ALL digits of the integer value, then ".0" —, the others with `{}`. -/
def f64DisplayLisp (b : UInt64) : Option String :=
  if f64IsIntegral b then (f64ExactInt b).map (· ++ ".0") else f64Display b

/-! ## the tower -/

inductive NumErr where
  | type      -- TypeMismatch: not a number
  | range     -- OutOfRange: overflow / division by zero
deriving DecidableEq, Repr, Inhabited

inductive Num where
  | i (n : Int)
  | f (bits : UInt64)
deriving DecidableEq, Repr, Inhabited

def Val.toNum? : Val → Option Num
  | .int n => some (.i n)
  | .float b => some (.f b)
  | _ => none

def Num.toVal : Num → Val
  | .i n => .int n
  | .f b => .float b

/-- `try_float`: a float as it is, an integer converted. -/
def Num.asF64 : Num → UInt64
  | .i n => intToF64 n
  | .f b => b

def chk (n : Int) : Except NumErr Num := if inI64 n then .ok (.i n) else .error .range

inductive ArithOp where
  | add | sub | mul | div | mod
deriving DecidableEq, Repr, Inhabited

def fop (op : ArithOp) (a b : UInt64) : UInt64 :=
  match op with
  | .add => bitsOf (f64 a + f64 b)
  | .sub => bitsOf (f64 a - f64 b)
  | .mul => bitsOf (f64 a * f64 b)
  | .div => bitsOf (f64 a / f64 b)
  | .mod =>
    -- floored: rem takes the sign of the divisor
    let r := f64Fmod a b
    let rf := f64 r
    let bf := f64 b
    if rf != 0.0 && ((rf < 0.0) != (bf < 0.0)) then bitsOf (rf + bf) else r

def iop (op : ArithOp) (a b : Int) : Except NumErr Num :=
  match op with
  | .add => chk (a + b)
  | .sub => chk (a - b)
  | .mul => chk (a * b)
  | .div => if b = 0 then .error .range else chk (Int.tdiv a b)
  | .mod => if b = 0 then .error .range else chk (Int.fmod a b)

/-- `binary_ops!`: float if either operand is a float, else checked integer arithmetic. -/
def arith (op : ArithOp) (a b : Num) : Except NumErr Num :=
  match a, b with
  | .i x, .i y => iop op x y
  | _, _ => .ok (.f (fop op a.asF64 b.asF64))

inductive CmpOp where
  | lt | le | gt | ge
deriving DecidableEq, Repr, Inhabited

def CmpOp.int (op : CmpOp) (a b : Int) : Bool :=
  match op with
  | .lt => a < b | .le => a ≤ b | .gt => a > b | .ge => a ≥ b

def CmpOp.flt (op : CmpOp) (a b : Float) : Bool :=
  match op with
  | .lt => a < b | .le => a ≤ b | .gt => a > b | .ge => a ≥ b

/-- `compare_ops!` -/
def cmpNum (op : CmpOp) (a b : Num) : Bool :=
  match a, b with
  | .i x, .i y => op.int x y
  | _, _ => op.flt (f64 a.asF64) (f64 b.asF64)

/-- `f64::max` / `f64::min`: a NaN operand is ignored. -/
def fmax (a b : UInt64) : UInt64 :=
  if f64IsNaN a then b else if f64IsNaN b then a
  else if f64 a < f64 b then b
  else if f64 b < f64 a then a
  else if f64IsNeg a then b else a      -- equal: prefer +0.0 over -0.0

def fmin (a b : UInt64) : UInt64 :=
  if f64IsNaN a then b else if f64IsNaN b then a
  else if f64 a < f64 b then a
  else if f64 b < f64 a then b
  else if f64IsNeg a then a else b

/-- `max_min_ops!` -/
def maxMin (isMax : Bool) (a b : Num) : Num :=
  match a, b with
  | .i x, .i y => .i (if isMax then (if x ≥ y then x else y) else (if x ≤ y then x else y))
  | _, _ => .f (if isMax then fmax a.asF64 b.asF64 else fmin a.asF64 b.asF64)

/-- `f64::round`: half away from zero. -/
def fround (b : UInt64) : UInt64 := bitsOf (Float.round (f64 b))

/-- `f64::trunc`. -/
def ftrunc (b : UInt64) : UInt64 :=
  let x := f64 b
  let r := if x < 0.0 then Float.ceil x else Float.floor x
  -- keep the sign of zero results as trunc does
  if r == 0.0 && f64IsNeg b then signBit else bitsOf r

end Tulisp
