/-
  Model/ListOps.lean — the list primitives of src/value.rs (cxr family), src/lists.rs and the
  equality predicates of src/object.rs, as pure functions on `Val`.
  Import-free.
-/
import Tulisp.Model.Ctx
namespace Tulisp

abbrev E := Except ErrKind

/-- `TulispValue::car`: nil-tolerant. -/
def carV : Val → E Val
  | .cons _ a _ => .ok a
  | .nil => .ok .nil
  | _ => .error .typeMismatch

def cdrV : Val → E Val
  | .cons _ _ d => .ok d
  | .nil => .ok .nil
  | _ => .error .typeMismatch

/-- A `c[ad]+r` accessor; `path` lists the letters between `c` and `r` left to right
    (`cadr` = `[a, d]`, true = `a`), applied right to left. -/
def cxrV (path : List Bool) (v : Val) : E Val :=
  path.foldr (fun isA acc => do
    let x ← acc
    if isA then carV x else cdrV x) (.ok v)

/-- `lists::nthcdr` -/
def nthcdrNat : Nat → Val → E Val
  | 0, v => .ok v
  | n + 1, v => if v.isNil then .ok v else do
    let d ← cdrV v
    nthcdrNat n d

def nthcdrV (n : Int) (v : Val) : E Val :=
  if n ≤ 0 then .ok v else nthcdrNat n.toNat v

/-- `lists::nth` -/
def nthV (n : Int) (v : Val) : E Val := do
  let r ← nthcdrV n v
  carV r

/-- `lists::length`: number of cons cells along the spine (0 for a non-list). -/
def lengthV (v : Val) : Int := v.len

/-- `lists::last` -/
def lastV (l : Val) (n : Option Int) : E Val :=
  if l.isNil then .ok l
  else if !l.isCons then .error .typeMismatch
  else
    let len := lengthV l
    match n with
    | some n =>
      if n < 0 then .error .outOfRange
      else if n < len then nthcdrV (len - n) l
      else .ok l
    | none => nthcdrV (len - 1) l

/-- Follow `base` links of closure cells to the symbol they stand for. -/
def symRootAux (c : Ctx) : Nat → Nat → Nat
  | 0, n => n
  | fuel + 1, n =>
    match (c.symD n).base with
    | some b => symRootAux c fuel b
    | none => n

def symRoot (c : Ctx) (n : Nat) : Nat := symRootAux c c.syms.size n

/-- `eq` on symbols / cells: same object, or cells of the same symbol. -/
def symEq (c : Ctx) (a b : Nat) : Bool := a == b || symRoot c a == symRoot c b

/-- `TulispObject::eq`: identity.  Numbers are compared by type and value (the model does not
    track the identity of number objects; see DESIGN.md). -/
def eqV (c : Ctx) : Val → Val → Bool
  | .nil, .nil => true
  | .t, .t => true
  | .sym a, .sym b => symEq c a b
  | .int a, .int b => a == b
  | .float a, .float b => a == b
  | .str i _, .str j _ => i == j
  | .cons i _ _, .cons j _ _ => i == j
  | .lambda i _ _, .lambda j _ _ => i == j
  | .defmacro i _ _, .defmacro j _ _ => i == j
  | .builtin a, .builtin b => a == b
  | .table i, .table j => i == j
  | .bounce, .bounce => true
  | _, _ => false

/-- `TulispObject::eql` (after the fix). -/
def eqlV : Val → Val → Bool
  | .int a, .int b => a == b
  | .float a, .float b => a == b          -- same bits
  | .nil, .nil => true
  | .t, .t => true
  | .sym a, .sym b => a == b
  | .str i _, .str j _ => i == j
  | .cons i _ _, .cons j _ _ => i == j
  | .lambda i _ _, .lambda j _ _ => i == j
  | .defmacro i _ _, .defmacro j _ _ => i == j
  | .builtin a, .builtin b => a == b
  | .table i, .table j => i == j
  | _, _ => false

/-- IEEE `==` on binary64 bit patterns, computed on the bits: no NaN involved, and either the
    same bits or two zeros of either sign. -/
def fEq (a b : UInt64) : Bool :=
  !f64IsNaN a && !f64IsNaN b && (a == b || ((a <<< 1) == 0 && (b <<< 1) == 0))

/-- `TulispObject::equal`: structural equality (`PartialEq for TulispValue` / `Cons`). -/
def equalV (c : Ctx) : Val → Val → Bool
  | .sym a, v => (match v with | .sym b => symEq c a b | _ => false)
  | .int a, .int b => a == b
  | .float a, .float b => fEq a b
  | .int a, .float b => fEq (intToF64 a) b
  | .float a, .int b => fEq a (intToF64 b)
  | .str _ a, .str _ b => a == b
  | .cons _ a d, .cons _ a' d' => equalV c a a' && equalV c d d'
  | .quote a, .quote b => equalV c a b
  | .backquote a, .backquote b => equalV c a b
  | .unquote a, .unquote b => equalV c a b
  | .splice a, .splice b => equalV c a b
  | .nil, .nil => true
  | .t, .t => true
  | .bounce, .bounce => true
  | .table _, .table _ => true
  | .lambda .., .lambda .. => true
  | .defmacro .., .defmacro .. => true
  | .builtin a, .builtin b => a.isMacro == b.isMacro
  | _, _ => false

/-- `lists::assoc_find` (after the fix): first cons element whose car satisfies the test;
    non-cons elements are skipped. -/
def assocFind (test : Val → Bool) : Val → Val
  | .cons _ item rest =>
    match item with
    | .cons _ k _ => if test k then item else assocFind test rest
    | _ => assocFind test rest
  | _ => .nil

/-- `lists::plist_get` (after the fix). -/
def plistGet (c : Ctx) (prop : Val) : Val → E Val
  | .cons _ k rest =>
    if eqV c k prop then carV rest
    else match rest with
      | .cons _ _ rest' => plistGet c prop rest'
      | .nil => .ok .nil
      | _ => .error .typeMismatch
  | _ => .ok .nil

end Tulisp
