/-
  Model/Value.lean — values of the tulisp model.

  `id : Nat` fields are allocation identities (what `Rc::ptr_eq` observes in the Rust
  code).  `equal` ignores them.  Symbols are indices into the context's symbol table
  (interned symbols, uninterned symbols and closure cells all live there).
  Floats are carried as their IEEE-754 binary64 bit pattern so that `Val` has decidable
  equality; arithmetic converts with `Float.ofBits`.
  This file is import-free (core Lean only) so that the driver links.
-/
import Tulisp.Model.Builtins
namespace Tulisp

structure Pos where
  line : Nat
  col  : Nat
deriving DecidableEq, Repr, Inhabited

structure Span where
  file : Nat
  s : Pos
  e : Pos
deriving DecidableEq, Repr, Inhabited

/-- Parsed parameter list of a lambda / defmacro (symbol indices). -/
structure Params where
  req  : List Nat
  opt  : List Nat
  rest : Option Nat
deriving DecidableEq, Repr, Inhabited

inductive Val where
  | nil
  | t
  | int (n : Int)
  | float (bits : UInt64)
  | str (id : Nat) (s : String)
  | sym (n : Nat)
  | cons (id : Nat) (car cdr : Val)
  | quote (v : Val)
  | backquote (v : Val)
  | unquote (v : Val)
  | splice (v : Val)
  | lambda (id : Nat) (ps : Params) (body : Val)
  | defmacro (id : Nat) (ps : Params) (body : Val)
  | builtin (b : Bi)
  | table (id : Nat)
  | bounce
deriving DecidableEq, Repr, Inhabited

namespace Val

def isNil : Val → Bool
  | .nil => true
  | _ => false

def isCons : Val → Bool
  | .cons .. => true
  | _ => false

def isList (v : Val) : Bool := v.isNil || v.isCons

def isSym : Val → Bool
  | .sym _ => true
  | _ => false

def isNumber : Val → Bool
  | .int .. => true
  | .float .. => true
  | _ => false

/-- Spine of a value: the elements of the cons chain and the final non-cons tail. -/
def spine : Val → List Val × Val
  | .cons _ a d => let (xs, tl) := spine d; (a :: xs, tl)
  | v => ([], v)

/-- `base_iter().collect()`: elements along the cons chain (tail ignored). -/
def elems : Val → List Val
  | .cons _ a d => a :: elems d
  | _ => []

/-- Build a list value from elements and a tail, allocating ids `nid, nid+1, …`
    (head gets `nid`).  Returns the value and the next free id. -/
def mkList (nid : Nat) : List Val → Val → Val × Nat
  | [], tl => (tl, nid)
  | x :: xs, tl =>
    let (r, n') := mkList (nid + 1) xs tl
    (.cons nid x r, n')

/-- List with all ids 0 (used for specification-level values where identity is irrelevant). -/
def ofList : List Val → Val
  | [] => .nil
  | x :: xs => .cons 0 x (ofList xs)

/-- Number of constructor nodes (a bound for recursions that follow the structure). -/
def size : Val → Nat
  | .cons _ a d => size a + size d + 1
  | .quote v | .backquote v | .unquote v | .splice v => size v + 1
  | _ => 1

/-- Number of cons cells along the spine. -/
def len : Val → Nat
  | .cons _ _ d => len d + 1
  | _ => 0

end Val

/-- A float from its bit pattern. -/
@[inline] def f64 (b : UInt64) : Float := Float.ofBits b
@[inline] def bitsOf (f : Float) : UInt64 := f.toBits

end Tulisp
