/-
  Model/Table.lean — hash tables (src/builtin/functions/hash_table.rs): association lists
  keyed by `eql`, most recent binding first.
  Import-free.
-/
import Tulisp.Model.ListOps
namespace Tulisp


def tableGet (c : Ctx) (id : Nat) : List (Val × Val) :=
  match c.tables.find? (·.1 == id) with
  | some (_, l) => l
  | none => []

def tablePut (c : Ctx) (id : Nat) (k v : Val) : Ctx :=
  let l := tableGet c id
  let l' := (k, v) :: l.filter (fun (k', _) => !eqlV k' k)
  { c with tables := (id, l') :: c.tables.filter (·.1 != id) }

def tableLookup (c : Ctx) (id : Nat) (k : Val) : Val :=
  match (tableGet c id).find? (fun (k', _) => eqlV k' k) with
  | some (_, v) => v
  | none => .nil

end Tulisp
