/-
  Proofs/C16Span.lean — C16: combining the parser side (`Parsed`, Proofs/C16.lean) with the
  tokenizer side (`Chain`, `TokOrdered`, Proofs/C16Tok.lean).
-/
import Tulisp.Proofs.C16
import Tulisp.Proofs.C16Tok
namespace Tulisp.C16
open Tulisp Tulisp.C09

/-! ## Chains: two tokens in order -/

theorem chain_split {f : Nat} {l1 l2 : List Token} : ∀ {a b : List Char},
    Chain f a (l1 ++ l2) b → ∃ m, Chain f a l1 m ∧ Chain f m l2 b := by
  induction l1 with
  | nil => intro a b h; exact ⟨a, ⟨[], by simp⟩, h⟩
  | cons t l1 ih =>
    intro a b h
    simp only [List.cons_append, Chain] at h
    obtain ⟨g, w, hg, hc⟩ := h
    obtain ⟨m, h1, h2⟩ := ih hc
    exact ⟨m, ⟨g, w, hg, h1⟩, h2⟩

/-- Two tokens of a chain, the first before the second: their extents in the text, in order. -/
theorem chain_two {f : Nat} {l1 l2 l3 : List Token} {t1 t2 : Token} {b : List Char}
    (h : Chain f [] (l1 ++ t1 :: (l2 ++ t2 :: l3)) b) :
    ∃ p w1 k w2 r, b = p ++ w1 ++ k ++ w2 ++ r ∧ Good f t1 p w1 ∧ Good f t2 (p ++ w1 ++ k) w2 := by
  obtain ⟨m, _, h2⟩ := chain_split h
  simp only [Chain] at h2
  obtain ⟨g1, w1, hg1, h3⟩ := h2
  obtain ⟨m2, h4, h5⟩ := chain_split h3
  obtain ⟨k1, hk1⟩ := chain_prefix h4
  simp only [Chain] at h5
  obtain ⟨g2, w2, hg2, h6⟩ := h5
  obtain ⟨r, hr⟩ := chain_prefix h6
  subst hk1
  refine ⟨m ++ g1, w1, k1 ++ g2, w2, r, ?_, hg1, ?_⟩
  · rw [hr]; simp
  · have e : m ++ g1 ++ w1 ++ (k1 ++ g2) = m ++ g1 ++ w1 ++ k1 ++ g2 := by simp
    rw [e]; exact hg2

/-! ## Order is inherited by segments -/

theorem tokOrdered_infix {ts seg : List Token} (h : TokOrdered ts) (hs : seg <:+: ts) :
    TokOrdered seg :=
  ⟨fun t ht => h.each t (hs.subset ht), h.pair.sublist hs.sublist⟩

/-- In an ordered segment `o :: (mid ++ [c])`, every token of `mid` lies after `o` and before
    `c`, and `o` lies before `c`. -/
theorem ordered_between {o c : Token} {mid : List Token} (h : TokOrdered (o :: (mid ++ [c]))) :
    PosLe o.sp.e c.sp.s ∧ ∀ t ∈ mid, PosLe o.sp.e t.sp.s ∧ PosLe t.sp.e c.sp.s := by
  have hp := h.pair
  rw [List.pairwise_cons] at hp
  refine ⟨hp.1 c (by simp), fun t ht => ⟨hp.1 t (by simp [ht]), ?_⟩⟩
  have h2 := hp.2
  rw [List.pairwise_append] at h2
  exact h2.2.2 t ht c (by simp)

/-! ## Spans of lists and their sub-forms -/

/-- Start strictly before end, for a list form. -/
theorem list_start_lt_end {sp : Span} {items : List Sx} {tail : Option Sx} {seg : List Token}
    (hs : Parsed (.list sp items tail) seg) (ho : TokOrdered seg) : PosLt sp.s sp.e := by
  simp only [Parsed] at hs
  obtain ⟨o, c, iseg, tseg, rfl, hot, hct, rfl, _, _⟩ := hs
  have e : o :: (iseg ++ (tseg ++ [c])) = o :: ((iseg ++ tseg) ++ [c]) := by simp
  rw [e] at ho
  have h1 := (ordered_between ho).1
  have h2 := (ho.each o (by simp)).2 (by rw [hot]; rfl)
  have h3 := (ho.each c (by simp)).1
  exact PosLt.of_lt_of_le h2 (PosLe.trans h1 h3)

/-- Start strictly before end, for an identifier. -/
theorem ident_start_lt_end {sp : Span} {name : String} {seg : List Token}
    (hs : Parsed (.ident sp name) seg) (ho : TokOrdered seg) : PosLt sp.s sp.e := by
  simp only [Parsed] at hs
  subst hs
  exact (ho.each ⟨.ident name, sp⟩ (by simp)).2 rfl

/-- Every form inside a list (item, dotted tail, anything inside those) has its span strictly
    inside the span of the list. -/
theorem inner_span_within {sp : Span} {items : List Sx} {tail : Option Sx} {seg : List Token}
    {x y : Sx} (hs : Parsed (.list sp items tail) seg) (ho : TokOrdered seg)
    (hx : x ∈ items ∨ tail = some x) (hy : Sub y x) :
    PosLt sp.s y.span.s ∧ PosLt y.span.e sp.e := by
  obtain ⟨o, c, mid, ys, rfl, hot, hct, rfl, hin, hp⟩ := list_inner hs hx hy
  obtain ⟨hd, tl, l, rfl, h1, hl, h2⟩ := parsed_span_ends hp
  have hb := (ordered_between ho).2
  have hhd := hb hd (hin.subset (by simp))
  have hll := hb l (hin.subset hl)
  have ho' := (ho.each o (by simp)).2 (by rw [hot]; rfl)
  have hc' := (ho.each c (by simp)).2 (by rw [hct]; rfl)
  rw [h1, h2]
  exact ⟨PosLt.of_lt_of_le ho' hhd.1, PosLt.of_le_of_lt hll.2 hc'⟩

theorem posLe_of_PosLe {a b : Pos} (h : PosLe a b) : posLe a b = true := by
  unfold posLe
  rcases h with h | ⟨h1, h2⟩
  · simp [h]
  · simp [h1, h2]

theorem PosLe_of_posLe {a b : Pos} (h : posLe a b = true) : PosLe a b := by
  unfold posLe at h
  simp only [Bool.or_eq_true, decide_eq_true_eq, Bool.and_eq_true, beq_iff_eq] at h
  exact h

/-- … in the form of the model's own `spanWithin` test. -/
theorem inner_spanWithin {sp : Span} {items : List Sx} {tail : Option Sx} {seg : List Token}
    {x y : Sx} (hs : Parsed (.list sp items tail) seg) (ho : TokOrdered seg)
    (hx : x ∈ items ∨ tail = some x) (hy : Sub y x) : spanWithin y.span sp = true := by
  obtain ⟨h1, h2⟩ := inner_span_within hs ho hx hy
  simp only [spanWithin, Bool.and_eq_true]
  exact ⟨posLe_of_PosLe h1.le, posLe_of_PosLe h2.le⟩

/-! ## From a text to its forms -/

/-- Every sub-form of a form read from a text is parsed from a contiguous segment of the
    text's tokens. -/
theorem sub_tokens {f : Nat} {cs : List Char} {forms : List Sx} {form y : Sx}
    (h : (readText f cs).res = .ok forms) (hf : form ∈ forms) (hy : Sub y form) :
    ∃ ys, ys <:+: tokenize f cs ∧ Parsed y ys := by
  have hp := parseTokens_parsed (toks := tokenize f cs) h
  obtain ⟨xs, h1, h2⟩ := parsedL_mem hp hf
  obtain ⟨ys, h3, h4⟩ := sub_parsed hy xs h2
  exact ⟨ys, h3.trans h1, h4⟩

/-- The extent of a list form in the text: its span runs from the position of a `(` to the
    position after a later `)`. -/
theorem list_extent {f : Nat} {cs : List Char} {sp : Span} {items : List Sx} {tail : Option Sx}
    {ys : List Token} (hin : ys <:+: tokenize f cs) (hp : Parsed (.list sp items tail) ys) :
    ∃ p k r, cs = p ++ '(' :: (k ++ ')' :: r) ∧ sp.file = f ∧ sp.s = P p ∧
      sp.e = P (p ++ '(' :: (k ++ [')'])) := by
  simp only [Parsed] at hp
  obtain ⟨o, c, iseg, tseg, rfl, hot, hct, rfl, _, _⟩ := hp
  obtain ⟨l1, l3, hl⟩ := hin
  have hc := tokenize_chain f cs
  have e : tokenize f cs = l1 ++ o :: ((iseg ++ tseg) ++ c :: l3) := by rw [← hl]; simp
  rw [e] at hc
  obtain ⟨p, w1, k, w2, r, hb, hg1, hg2⟩ := chain_two hc
  obtain ⟨hs1, _, hw1⟩ := hg1.exact (by rw [hot]; rfl)
  obtain ⟨_, _, hw2⟩ := hg2.exact (by rw [hct]; rfl)
  rw [hot] at hw1; rw [hct] at hw2
  simp only [Written] at hw1 hw2
  subst hw1 hw2
  refine ⟨p, k, r, by rw [hb]; simp, hg1.file, hs1, ?_⟩
  rw [hg2.e]; simp

/-- The extent of an identifier in the text: exactly its name. -/
theorem ident_extent {f : Nat} {cs : List Char} {sp : Span} {name : String}
    {ys : List Token} (hin : ys <:+: tokenize f cs) (hp : Parsed (.ident sp name) ys) :
    ∃ p r, cs = p ++ name.toList ++ r ∧ name.toList ≠ [] ∧ sp.file = f ∧ sp.s = P p ∧
      sp.e = P (p ++ name.toList) := by
  simp only [Parsed] at hp
  subst hp
  have hm : (⟨.ident name, sp⟩ : Token) ∈ tokenize f cs := hin.subset (by simp)
  obtain ⟨p, w, r, h1, hg⟩ := token_extent f cs _ hm
  obtain ⟨hs, _, hw⟩ := hg.exact rfl
  simp only [Written] at hw
  obtain ⟨rfl, hne⟩ := hw
  exact ⟨p, r, h1, hne, hg.file, hs, hg.e⟩

end Tulisp.C16
