/-
  Proofs/Safe.lean — the invariant behind C03 ("temporary bindings are undone on every exit")
  and C10 ("evaluation never panics"): definitions and the store / combinator lemmas.

  The invariant.  `LD c n` is the number of *local* bindings of symbol `n` (stack length minus the
  global entry).  A computation `m` is *safe* when, from every start state,
    * it never yields `.panic _`                                   (unconditionally), and
    * from a *well-formed* start state (`WF`: no symbol has a sticky global flag on an empty
      stack; `Closed`: every symbol index stored anywhere is below the size of the symbol table)
      it leaves `LD` unchanged, keeps the state well-formed, never shrinks the symbol table, and
      its result mentions only existing symbols.
  The well-formedness hypotheses are necessary: see the two counterexamples in Props/C03.lean.
-/
import Tulisp.Model.Eval
import Tulisp.Proofs.SafeAttr
namespace Tulisp

/-! ## local depth -/

def localDepth (s : SymSt) : Int := (s.items.length : Int) - (if s.hasGlobal then 1 else 0)

def LD (c : Ctx) : Nat → Int := fun n => localDepth (c.symD n)

/-- no sticky global flag on an empty stack -/
def WF (c : Ctx) : Prop := ∀ n, 0 ≤ LD c n

/-! ## symbol bounds of values -/

def symsBound : List Nat → Nat
  | [] => 0
  | n :: ns => max (n + 1) (symsBound ns)

/-- one more than the largest symbol index occurring in a value (0 if there is none) -/
def Val.bound : Val → Nat
  | .sym n => n + 1
  | .cons _ a d => max a.bound d.bound
  | .quote v | .backquote v | .unquote v | .splice v => v.bound
  | .lambda _ ps body => max (symsBound ps.all) body.bound
  | .defmacro _ ps body => max (symsBound ps.all) body.bound
  | _ => 0

def valsBound : List Val → Nat
  | [] => 0
  | v :: vs => max v.bound (valsBound vs)

class Bnd (α : Type) where
  bnd : α → Nat
export Bnd (bnd)

instance : Bnd Val := ⟨Val.bound⟩
instance : Bnd (List Val) := ⟨valsBound⟩
instance {α β} [Bnd α] [Bnd β] : Bnd (α × β) := ⟨fun p => max (bnd p.1) (bnd p.2)⟩
instance : Bnd Unit := ⟨fun _ => 0⟩
instance : Bnd String := ⟨fun _ => 0⟩
instance : Bnd Int := ⟨fun _ => 0⟩
instance : Bnd Bool := ⟨fun _ => 0⟩
instance : Bnd Num := ⟨fun _ => 0⟩
/-- a `Nat` result is an allocation identity by default (symbol indices are handled explicitly) -/
instance : Bnd Nat := ⟨fun _ => 0⟩
instance : Bnd (List (String × Nat)) := ⟨fun _ => 0⟩
instance : Bnd (Option Int) := ⟨fun _ => 0⟩
instance : Bnd Acc := ⟨fun a => max (valsBound a.rev) a.tail.bound⟩
instance : Bnd Params := ⟨fun ps => symsBound ps.all⟩
instance : Bnd (List Nat) := ⟨symsBound⟩

def capBound : List (Nat × Nat) → Nat
  | [] => 0
  | (a, b) :: rest => max (max (a + 1) (b + 1)) (capBound rest)
instance : Bnd Captured := ⟨capBound⟩

/-- the standard postcondition: the result mentions only symbols below the table size -/
def bq {α} [Bnd α] : α → Nat → Prop := fun a N => bnd a ≤ N

@[simp, bnd_simp] theorem bnd_val (v : Val) : bnd v = v.bound := rfl
@[simp, bnd_simp] theorem bnd_vals (v : List Val) : bnd v = valsBound v := rfl
@[simp, bnd_simp] theorem bnd_pair {α β} [Bnd α] [Bnd β] (a : α) (b : β) : bnd (a, b) = max (bnd a) (bnd b) := rfl
@[simp, bnd_simp] theorem bnd_pair' {α β} [Bnd α] [Bnd β] (p : α × β) : bnd p = max (bnd p.1) (bnd p.2) := rfl
@[simp, bnd_simp] theorem bnd_unit (v : Unit) : bnd v = 0 := rfl
@[simp, bnd_simp] theorem bnd_string (v : String) : bnd v = 0 := rfl
@[simp, bnd_simp] theorem bnd_int (v : Int) : bnd v = 0 := rfl
@[simp, bnd_simp] theorem bnd_bool (v : Bool) : bnd v = 0 := rfl
@[simp, bnd_simp] theorem bnd_num (v : Num) : bnd v = 0 := rfl
@[simp, bnd_simp] theorem bnd_nat (v : Nat) : bnd v = 0 := rfl
@[simp, bnd_simp] theorem bnd_strtab (v : List (String × Nat)) : bnd v = 0 := rfl
@[simp, bnd_simp] theorem bnd_optInt (v : Option Int) : bnd v = 0 := rfl
@[simp, bnd_simp] theorem bnd_acc (a : Acc) : bnd a = max (valsBound a.rev) a.tail.bound := rfl
@[simp, bnd_simp] theorem bnd_params (ps : Params) : bnd ps = symsBound ps.all := rfl
@[simp, bnd_simp] theorem bnd_syms (ps : List Nat) : bnd ps = symsBound ps := rfl
@[simp, bnd_simp] theorem bnd_cap (ps : Captured) : bnd ps = capBound ps := rfl
@[simp, bnd_simp] theorem bq_def {α} [Bnd α] (a : α) (N : Nat) : bq a N = (bnd a ≤ N) := rfl

@[simp, bnd_simp] theorem bound_nil : Val.nil.bound = 0 := rfl
@[simp, bnd_simp] theorem bound_t : Val.t.bound = 0 := rfl
@[simp, bnd_simp] theorem bound_int (n) : (Val.int n).bound = 0 := rfl
@[simp, bnd_simp] theorem bound_float (n) : (Val.float n).bound = 0 := rfl
@[simp, bnd_simp] theorem bound_str (i s) : (Val.str i s).bound = 0 := rfl
@[simp, bnd_simp] theorem bound_sym (n) : (Val.sym n).bound = n + 1 := rfl
@[simp, bnd_simp] theorem bound_cons (i a d) : (Val.cons i a d).bound = max a.bound d.bound := rfl
@[simp, bnd_simp] theorem bound_quote (v) : (Val.quote v).bound = v.bound := rfl
@[simp, bnd_simp] theorem bound_backquote (v) : (Val.backquote v).bound = v.bound := rfl
@[simp, bnd_simp] theorem bound_unquote (v) : (Val.unquote v).bound = v.bound := rfl
@[simp, bnd_simp] theorem bound_splice (v) : (Val.splice v).bound = v.bound := rfl
@[simp, bnd_simp] theorem bound_lambda (i ps b) : (Val.lambda i ps b).bound = max (symsBound ps.all) b.bound := rfl
@[simp, bnd_simp] theorem bound_defmacro (i ps b) : (Val.defmacro i ps b).bound = max (symsBound ps.all) b.bound := rfl
@[simp, bnd_simp] theorem bound_builtin (b) : (Val.builtin b).bound = 0 := rfl
@[simp, bnd_simp] theorem bound_table (i) : (Val.table i).bound = 0 := rfl
@[simp, bnd_simp] theorem bound_bounce : Val.bounce.bound = 0 := rfl
@[simp, bnd_simp] theorem valsBound_nil : valsBound [] = 0 := rfl
@[simp, bnd_simp] theorem valsBound_cons (v vs) : valsBound (v :: vs) = max v.bound (valsBound vs) := rfl
@[simp, bnd_simp] theorem symsBound_nil : symsBound [] = 0 := rfl
@[simp, bnd_simp] theorem symsBound_cons (v vs) : symsBound (v :: vs) = max (v + 1) (symsBound vs) := rfl
@[simp, bnd_simp] theorem capBound_nil : capBound [] = 0 := rfl
@[simp, bnd_simp] theorem capBound_cons (a b vs) : capBound ((a, b) :: vs) = max (max (a + 1) (b + 1)) (capBound vs) := rfl

@[simp, bnd_simp] theorem valsBound_append (xs ys : List Val) :
    valsBound (xs ++ ys) = max (valsBound xs) (valsBound ys) := by
  induction xs with
  | nil => simp
  | cons x xs ih => simp [ih, Nat.max_assoc]

@[simp, bnd_simp] theorem valsBound_reverse (xs : List Val) : valsBound xs.reverse = valsBound xs := by
  induction xs with
  | nil => rfl
  | cons x xs ih => simp [ih, Nat.max_comm]

@[simp, bnd_simp] theorem symsBound_append (xs ys : List Nat) :
    symsBound (xs ++ ys) = max (symsBound xs) (symsBound ys) := by
  induction xs with
  | nil => simp
  | cons x xs ih => simp [ih, Nat.max_assoc]

theorem valsBound_le_iff {xs : List Val} {N : Nat} : valsBound xs ≤ N ↔ ∀ x ∈ xs, x.bound ≤ N := by
  induction xs with
  | nil => simp
  | cons x xs ih => simp [ih, Nat.max_le]

theorem symsBound_le_iff {xs : List Nat} {N : Nat} : symsBound xs ≤ N ↔ ∀ x ∈ xs, x < N := by
  induction xs with
  | nil => simp
  | cons x xs ih => simp [ih, Nat.max_le]; omega

theorem bound_le_of_mem {xs : List Val} {x : Val} (h : x ∈ xs) : x.bound ≤ valsBound xs :=
  (valsBound_le_iff.1 (Nat.le_refl _)) x h

theorem valsBound_sublist {xs ys : List Val} (h : ∀ x ∈ xs, x ∈ ys) : valsBound xs ≤ valsBound ys :=
  valsBound_le_iff.2 fun x hx => bound_le_of_mem (h x hx)

theorem valsBound_take (n : Nat) (xs : List Val) : valsBound (xs.take n) ≤ valsBound xs :=
  valsBound_sublist fun _ h => List.mem_of_mem_take h

theorem valsBound_drop (n : Nat) (xs : List Val) : valsBound (xs.drop n) ≤ valsBound xs :=
  valsBound_sublist fun _ h => List.mem_of_mem_drop h

/-! ## the symbol table -/

namespace Ctx

theorem symD_eq (c : Ctx) (n : Nat) : c.symD n = (c.syms[n]?).getD { name := "?" } := by
  simp [symD]

theorem symD_of_ge {c : Ctx} {n : Nat} (h : c.syms.size ≤ n) : c.symD n = { name := "?" } := by
  rw [symD_eq, Array.getElem?_eq_none h]; rfl

@[simp] theorem size_modSym (c : Ctx) (n : Nat) (f : SymSt → SymSt) :
    (c.modSym n f).syms.size = c.syms.size := by
  simp [modSym]

theorem symD_modSym (c : Ctx) (n k : Nat) (f : SymSt → SymSt) :
    (c.modSym n f).symD k = if n = k ∧ n < c.syms.size then f (c.symD k) else c.symD k := by
  simp only [symD_eq, modSym, Array.getElem?_modify]
  by_cases h : n = k
  · subst h
    by_cases hn : n < c.syms.size
    · simp [hn]
    · simp [hn, Array.getElem?_eq_none (Nat.le_of_not_lt hn)]
  · simp [h]

@[simp] theorem modSym_obarray (c : Ctx) (n : Nat) (f : SymSt → SymSt) :
    (c.modSym n f).obarray = c.obarray := rfl
@[simp] theorem modSym_tables (c : Ctx) (n : Nat) (f : SymSt → SymSt) :
    (c.modSym n f).tables = c.tables := rfl

@[simp] theorem newSym_fst (c : Ctx) (s : SymSt) : (c.newSym s).1 = c.syms.size := rfl
@[simp] theorem size_newSym (c : Ctx) (s : SymSt) : (c.newSym s).2.syms.size = c.syms.size + 1 := by
  simp [newSym]
@[simp] theorem newSym_obarray (c : Ctx) (s : SymSt) : (c.newSym s).2.obarray = c.obarray := rfl
@[simp] theorem newSym_tables (c : Ctx) (s : SymSt) : (c.newSym s).2.tables = c.tables := rfl

theorem symD_newSym (c : Ctx) (s : SymSt) (k : Nat) :
    (c.newSym s).2.symD k = if k = c.syms.size then s else c.symD k := by
  simp only [symD_eq, newSym, Array.getElem?_push]
  split <;> simp

end Ctx

theorem localDepth_default : localDepth { name := "?" } = 0 := rfl

theorem LD_of_ge {c : Ctx} {n : Nat} (h : c.syms.size ≤ n) : LD c n = 0 := by
  simp [LD, Ctx.symD_of_ge h, localDepth]

theorem LD_modSym (c : Ctx) (n : Nat) (f : SymSt → SymSt) :
    LD (c.modSym n f) = fun k => if n = k ∧ n < c.syms.size then localDepth (f (c.symD k)) else LD c k := by
  funext k
  simp only [LD, Ctx.symD_modSym]
  split <;> rfl

/-- new symbols start (and, by the invariant, stay) at local depth 0 when created without local
    bindings -/
theorem LD_newSym (c : Ctx) (s : SymSt) (hs : localDepth s = 0) : LD (c.newSym s).2 = LD c := by
  funext k
  simp only [LD, Ctx.symD_newSym]
  split
  · next h => subst h; rw [hs]; exact (LD_of_ge (Nat.le_refl _)).symm
  · rfl

/-! ### the `SymSt` operations -/

theorem localDepth_set (s : SymSt) (v : Val) (h : 0 ≤ localDepth s) :
    localDepth (s.set v) = localDepth s := by
  unfold SymSt.set localDepth at *
  cases hi : s.items with
  | nil => rw [hi] at h; cases hg : s.hasGlobal <;> simp_all
  | cons a rest => simp

theorem replaceLast_length (l : List Val) (v : Val) : (SymSt.replaceLast l v).length = l.length := by
  fun_induction SymSt.replaceLast l v <;> simp_all

theorem localDepth_setGlobal (s : SymSt) (v : Val) (h : 0 ≤ localDepth s) :
    localDepth (s.setGlobal v) = localDepth s := by
  unfold SymSt.setGlobal localDepth at *
  cases hg : s.hasGlobal
  · simp
  · cases hi : s.items with
    | nil => rw [hi, hg] at h; simp at h
    | cons a rest => simp [replaceLast_length]

theorem localDepth_push (s : SymSt) (v : Val) : localDepth (s.push v) = localDepth s + 1 := by
  show ((v :: s.items).length : Int) - (if s.hasGlobal then 1 else 0) = _
  unfold localDepth
  rw [List.length_cons]
  split <;> omega

theorem mem_replaceLast {l : List Val} {v x : Val} (h : x ∈ SymSt.replaceLast l v) : x ∈ l ∨ x = v := by
  fun_induction SymSt.replaceLast l v with
  | case1 => simp at h
  | case2 => simp at h; exact Or.inr h
  | case3 y ys _ hne ih =>
    simp only [List.mem_cons] at h ⊢
    rcases h with h | h
    · exact Or.inl (Or.inl h)
    · rcases ih h with h | h
      · exact Or.inl (Or.inr h)
      · exact Or.inr h

theorem mem_set_items {s : SymSt} {v x : Val} (h : x ∈ (s.set v).items) : x ∈ s.items ∨ x = v := by
  unfold SymSt.set at h
  cases hi : s.items with
  | nil => rw [hi] at h; simp at h; exact Or.inr h
  | cons a rest =>
    rw [hi] at h; simp only [List.mem_cons] at h ⊢
    rcases h with h | h
    · exact Or.inr h
    · exact Or.inl (Or.inr h)

theorem mem_setGlobal_items {s : SymSt} {v x : Val} (h : x ∈ (s.setGlobal v).items) :
    x ∈ s.items ∨ x = v := by
  unfold SymSt.setGlobal at h
  split at h
  · exact mem_replaceLast h
  · simp at h; exact h

theorem mem_push_items {s : SymSt} {v x : Val} (h : x ∈ (s.push v).items) : x ∈ s.items ∨ x = v := by
  simp [SymSt.push] at h
  rcases h with h | h
  · exact Or.inr h
  · exact Or.inl h

/-! ## well-formed states -/

structure Closed (c : Ctx) : Prop where
  stk : ∀ n v, v ∈ (c.symD n).items → v.bound ≤ c.syms.size
  oba : ∀ (name : String) (n : Nat), c.obarray[name]? = some n → n < c.syms.size
  tbl : ∀ id l k v, (id, l) ∈ c.tables → (k, v) ∈ l → k.bound ≤ c.syms.size ∧ v.bound ≤ c.syms.size

theorem Closed.modSym {c : Ctx} (hc : Closed c) (n : Nat) (f : SymSt → SymSt)
    (hf : ∀ x, x ∈ (f (c.symD n)).items → x.bound ≤ c.syms.size) : Closed (c.modSym n f) := by
  refine ⟨?_, ?_, ?_⟩
  · intro k v hv
    rw [Ctx.symD_modSym] at hv
    rw [Ctx.size_modSym]
    split at hv
    · next h => obtain ⟨rfl, _⟩ := h; exact hf v hv
    · exact hc.stk k v hv
  · intro name k h; rw [Ctx.size_modSym]; exact hc.oba name k h
  · intro id l k v h1 h2; rw [Ctx.size_modSym]; exact hc.tbl id l k v h1 h2

theorem Closed.get {c : Ctx} (hc : Closed c) {n : Nat} {v : Val} (h : (c.symD n).get = some v) :
    v.bound ≤ c.syms.size := by
  apply hc.stk n v
  unfold SymSt.get at h
  cases hi : (c.symD n).items with
  | nil => rw [hi] at h; simp at h
  | cons a rest => rw [hi] at h; simp at h; simp [h]

theorem Closed.newSym {c : Ctx} (hc : Closed c) (s : SymSt)
    (hs : ∀ x, x ∈ s.items → x.bound ≤ c.syms.size + 1) : Closed (c.newSym s).2 := by
  refine ⟨?_, ?_, ?_⟩
  · intro k v hv
    rw [Ctx.symD_newSym] at hv
    rw [Ctx.size_newSym]
    split at hv
    · exact hs v hv
    · exact Nat.le_succ_of_le (hc.stk k v hv)
  · intro name k h; rw [Ctx.size_newSym]; exact Nat.lt_succ_of_lt (hc.oba name k h)
  · intro id l k v h1 h2; rw [Ctx.size_newSym]
    have := hc.tbl id l k v h1 h2
    exact ⟨Nat.le_succ_of_le this.1, Nat.le_succ_of_le this.2⟩

/-! ## safe computations -/

structure Post {α} (c : Ctx) (Q : α → Nat → Prop) (out : Res α × Ctx) : Prop where
  ld : LD out.2 = LD c
  closed : Closed out.2
  size : c.syms.size ≤ out.2.syms.size
  res : ∀ a, out.1 = .ok a → Q a out.2.syms.size

/-- `m` never panics (unconditionally); and, under the side hypothesis `H` (the facts collected about
    earlier results), run from a well-formed state whose symbol table has exactly `N` entries it
    restores every local depth, keeps the state closed and establishes `Q` for its result. -/
structure SafeH {α} (H : Prop) (N : Nat) (m : M α) (Q : α → Nat → Prop) : Prop where
  run : ∀ c, (∀ s, (m c).1 ≠ .panic s) ∧ (H → WF c → Closed c → c.syms.size = N → Post c Q (m c))

theorem WF_of_LD {c c' : Ctx} (h : LD c' = LD c) (hw : WF c) : WF c' := by
  intro n; rw [h]; exact hw n

theorem SafeH.imp {α} {H H' : Prop} {N : Nat} {m : M α} {Q : α → Nat → Prop} (h : SafeH H N m Q)
    (hh : H' → H) : SafeH H' N m Q :=
  ⟨fun c => ⟨(h.run c).1, fun h' => (h.run c).2 (hh h')⟩⟩

theorem SafeH.of_hyp {α} {H P : Prop} {N : Nat} {m : M α} {Q : α → Nat → Prop} (h : H → P)
    (hs : SafeH (H ∧ P) N m Q) : SafeH H N m Q :=
  hs.imp fun hh => ⟨hh, h hh⟩

theorem SafeH.have {α} {H P : Prop} {N : Nat} {m : M α} {Q : α → Nat → Prop} (hp : P)
    (hs : SafeH (H ∧ P) N m Q) : SafeH H N m Q :=
  hs.imp fun hh => ⟨hh, hp⟩

theorem SafeH.mono {α} {H : Prop} {N : Nat} {m : M α} {Q Q' : α → Nat → Prop} (h : SafeH H N m Q)
    (hq : H → ∀ a N', N ≤ N' → Q a N' → Q' a N') : SafeH H N m Q' := by
  refine ⟨fun c => ?_⟩
  refine ⟨(h.run c).1, fun hh hw hc hn => ?_⟩
  have p := (h.run c).2 hh hw hc hn
  exact ⟨p.ld, p.closed, p.size, fun a ha => hq hh a _ (hn ▸ p.size) (p.res a ha)⟩

theorem SafeH.pure {α} {H : Prop} {N : Nat} {a : α} {Q : α → Nat → Prop} (h : H → Q a N) :
    SafeH H N (pure a : M α) Q := by
  refine ⟨fun c => ?_⟩
  refine ⟨fun s hs => (by cases hs), fun hh _ hc hn => ⟨rfl, hc, Nat.le_refl _, ?_⟩⟩
  intro a' ha
  cases ha
  exact hn ▸ h hh

theorem SafeH.throw {α} {H : Prop} {N : Nat} {k : ErrKind} {Q : α → Nat → Prop} :
    SafeH H N (M.throw k : M α) Q := by
  refine ⟨fun c => ?_⟩
  exact ⟨fun s hs => (by cases hs), fun _ _ hc _ => ⟨rfl, hc, Nat.le_refl _, fun a ha => by cases ha⟩⟩

theorem SafeH.outOfFuel {α} {H : Prop} {N : Nat} {Q : α → Nat → Prop} :
    SafeH H N (M.outOfFuel : M α) Q := by
  refine ⟨fun c => ?_⟩
  exact ⟨fun s hs => (by cases hs), fun _ _ hc _ => ⟨rfl, hc, Nat.le_refl _, fun a ha => by cases ha⟩⟩

/-- `M.get` hands the continuation a state known to be well-formed of the current size -/
theorem SafeH.get {H : Prop} {N : Nat} :
    SafeH H N M.get (fun c0 N' => WF c0 ∧ Closed c0 ∧ c0.syms.size = N') := by
  refine ⟨fun c => ?_⟩
  refine ⟨fun s hs => (by cases hs), fun _ hw hc _ => ⟨rfl, hc, Nat.le_refl _, ?_⟩⟩
  intro a ha
  cases ha
  exact ⟨hw, hc, rfl⟩

theorem SafeH.bind {α β} {H : Prop} {N : Nat} {m : M α} {f : α → M β} {Qm : α → Nat → Prop}
    {Q : β → Nat → Prop} (hm : SafeH H N m Qm)
    (hf : ∀ a N', SafeH (H ∧ N ≤ N' ∧ Qm a N') N' (f a) Q) : SafeH H N (m >>= f) Q := by
  refine ⟨fun c => ?_⟩
  have hmc := hm.run c
  show (∀ s, (M.bind m f c).1 ≠ .panic s) ∧
    (H → WF c → Closed c → c.syms.size = N → Post c Q (M.bind m f c))
  unfold M.bind
  rcases hr : m c with ⟨r, c'⟩
  rw [hr] at hmc
  cases r with
  | ok a =>
    simp only
    refine ⟨((hf a c'.syms.size).run c').1, fun hh hw hc hn => ?_⟩
    have p := hmc.2 hh hw hc hn
    have q := ((hf a c'.syms.size).run c').2 ⟨hh, hn ▸ p.size, p.res a rfl⟩ (WF_of_LD p.ld hw) p.closed rfl
    exact ⟨q.ld.trans p.ld, q.closed, Nat.le_trans p.size q.size, q.res⟩
  | err k =>
    simp only
    refine ⟨fun s hs => (by cases hs), fun hh hw hc hn => ?_⟩
    have p := hmc.2 hh hw hc hn
    exact ⟨p.ld, p.closed, p.size, fun a ha => by cases ha⟩
  | panic s => exact absurd rfl (hmc.1 s)
  | fuel =>
    simp only
    refine ⟨fun s hs => (by cases hs), fun hh hw hc hn => ?_⟩
    have p := hmc.2 hh hw hc hn
    exact ⟨p.ld, p.closed, p.size, fun a ha => by cases ha⟩

/-! ## primitive computations -/

theorem LD_congr {c c' : Ctx} (h : c'.syms = c.syms) : LD c' = LD c := by
  funext k; simp [LD, Ctx.symD, h]

theorem Closed.congr {c c' : Ctx} (hc : Closed c) (h1 : c'.syms = c.syms) (h2 : c'.obarray = c.obarray)
    (h3 : c'.tables = c.tables) : Closed c' := by
  refine ⟨?_, ?_, ?_⟩
  · intro n v hv; rw [h1]; apply hc.stk n v; simpa [Ctx.symD, h1] using hv
  · intro name n h; rw [h1]; apply hc.oba name n; simpa [h2] using h
  · intro id l k v h h'; rw [h1]; exact hc.tbl id l k v (by simpa [h3] using h) h'

/-- a state update that touches neither the symbol table, the obarray nor the tables -/
theorem SafeH.modify_frame {H : Prop} {N : Nat} {f : Ctx → Ctx}
    (h1 : ∀ c, (f c).syms = c.syms) (h2 : ∀ c, (f c).obarray = c.obarray)
    (h3 : ∀ c, (f c).tables = c.tables) : SafeH H N (M.modify f) bq := by
  refine ⟨fun c => ?_⟩
  refine ⟨fun s hs => (by cases hs), fun _ _ hc _ => ⟨LD_congr (h1 c), hc.congr (h1 c) (h2 c) (h3 c), ?_, ?_⟩⟩
  · show c.syms.size ≤ (f c).syms.size
    rw [h1]; exact Nat.le_refl _
  · intro a _; simp

theorem SafeH.modify {H : Prop} {N : Nat} {f : Ctx → Ctx}
    (h : H → ∀ c, WF c → Closed c → c.syms.size = N →
      LD (f c) = LD c ∧ Closed (f c) ∧ c.syms.size ≤ (f c).syms.size) :
    SafeH H N (M.modify f) bq := by
  refine ⟨fun c => ?_⟩
  refine ⟨fun s hs => (by cases hs), fun hh hw hc hn => ?_⟩
  obtain ⟨a, b, d⟩ := h hh c hw hc hn
  exact ⟨a, b, d, fun _ _ => by simp⟩

theorem SafeH.liftE {α} {H : Prop} {N : Nat} {e : E α} {Q : α → Nat → Prop}
    (h : H → ∀ a, e = .ok a → Q a N) : SafeH H N (liftE e) Q := by
  refine ⟨fun c => ?_⟩
  unfold Tulisp.liftE
  cases e with
  | ok a =>
    refine ⟨fun s hs => (by cases hs), fun hh _ hc hn => ⟨rfl, hc, Nat.le_refl _, ?_⟩⟩
    intro a' ha; cases ha; exact hn ▸ h hh a rfl
  | error k =>
    exact ⟨fun s hs => (by cases hs), fun _ _ hc _ => ⟨rfl, hc, Nat.le_refl _, fun a ha => by cases ha⟩⟩

theorem safe_newId {H : Prop} {N : Nat} : SafeH H N newId bq := by
  refine ⟨fun c => ?_⟩
  refine ⟨fun s hs => (by cases hs), fun _ _ hc _ => ⟨LD_congr rfl, hc.congr rfl rfl rfl, Nat.le_refl _, ?_⟩⟩
  intro a _; simp

theorem safe_mkCons {H : Prop} {N : Nat} {a d : Val} (h : H → max a.bound d.bound ≤ N) :
    SafeH H N (mkCons a d) bq := by
  unfold mkCons
  refine SafeH.of_hyp h (SafeH.bind safe_newId fun i N' => SafeH.pure ?_)
  simp only [bq_def, bnd_val, bound_cons]; omega

theorem safe_mkStr {H : Prop} {N : Nat} {s : String} : SafeH H N (mkStr s) bq := by
  unfold mkStr
  refine SafeH.bind safe_newId fun i N' => SafeH.pure ?_
  simp

theorem bound_mkList (n : Nat) (xs : List Val) (tl : Val) :
    (Val.mkList n xs tl).1.bound = max (valsBound xs) tl.bound := by
  induction xs generalizing n with
  | nil => simp [Val.mkList]
  | cons x xs ih => simp [Val.mkList, ih, Nat.max_assoc]

theorem safe_mkListM {H : Prop} {N : Nat} {xs : List Val} {tl : Val}
    (h : H → max (valsBound xs) tl.bound ≤ N) : SafeH H N (mkListM xs tl) bq := by
  refine ⟨fun c => ?_⟩
  refine ⟨fun s hs => (by cases hs), fun hh _ hc hn => ⟨LD_congr rfl, hc.congr rfl rfl rfl, Nat.le_refl _, ?_⟩⟩
  intro a ha
  simp only [mkListM] at ha
  cases ha
  simp only [bq_def, bnd_val, bound_mkList]
  have := h hh
  show _ ≤ c.syms.size
  omega

theorem bound_spine (v : Val) : max (valsBound v.spine.1) v.spine.2.bound ≤ v.bound := by
  induction v with
  | cons i a d _ ihd => simp only [Val.spine, valsBound_cons, bound_cons]; omega
  | _ => simp [Val.spine]

theorem bound_elems (v : Val) : valsBound v.elems ≤ v.bound := by
  induction v with
  | cons i a d _ ihd => simp only [Val.elems, valsBound_cons, bound_cons]; omega
  | _ => simp [Val.elems]

/-- the bound of the elements of a list value, as an opaque quantity below the bound of the value:
    lets `omega` use `bound_elems` without being told -/
def elemsBound (v : Val) : Nat := valsBound v.elems
def tailBound (v : Val) : Nat := v.spine.2.bound

@[bnd_simp] theorem valsBound_elems (v : Val) : valsBound v.elems = min (elemsBound v) v.bound := by
  have := bound_elems v
  unfold elemsBound; omega

theorem spine_fst_eq_elems (v : Val) : v.spine.1 = v.elems := by
  induction v with
  | cons i a d _ ihd => simp [Val.spine, Val.elems, ihd]
  | _ => rfl

@[bnd_simp] theorem valsBound_spine_fst (v : Val) : valsBound v.spine.1 = min (elemsBound v) v.bound := by
  rw [spine_fst_eq_elems]; exact valsBound_elems v

@[bnd_simp] theorem bound_spine_snd (v : Val) : v.spine.2.bound = min (tailBound v) v.bound := by
  have := bound_spine v
  unfold tailBound; omega

/-! ### interning -/

theorem Ctx.intern_spec (c : Ctx) (name : String) (hw : WF c) (hc : Closed c) :
    LD (c.intern name).2 = LD c ∧ Closed (c.intern name).2 ∧
      c.syms.size ≤ (c.intern name).2.syms.size ∧ (c.intern name).1 < (c.intern name).2.syms.size := by
  unfold Ctx.intern
  cases ho : c.obarray[name]? with
  | some n => exact ⟨rfl, hc, Nat.le_refl _, hc.oba name n ho⟩
  | none =>
    simp only
    let s0 : SymSt := { name := name, constant := name.startsWith ":" }
    have e : ({ c with syms := c.syms.push s0, obarray := c.obarray.insert name c.syms.size } : Ctx)
        = { (c.newSym s0).2 with obarray := c.obarray.insert name c.syms.size } := rfl
    show LD ({ c with syms := c.syms.push s0, obarray := c.obarray.insert name c.syms.size } : Ctx) = LD c ∧
      Closed ({ c with syms := c.syms.push s0, obarray := c.obarray.insert name c.syms.size } : Ctx) ∧
      c.syms.size ≤ (c.syms.push s0).size ∧ c.syms.size < (c.syms.push s0).size
    have hcl := hc.newSym s0 (by simp [s0])
    refine ⟨?_, ?_, ?_, ?_⟩
    · rw [e]
      exact (LD_congr rfl).trans (LD_newSym c _ rfl)
    · rw [e]
      refine ⟨?_, ?_, ?_⟩
      · intro n v hv; exact hcl.stk n v hv
      · intro nm n h
        show n < (c.syms.push _).size
        rw [Array.size_push]
        simp only [Std.HashMap.getElem?_insert] at h
        split at h
        · cases h; exact Nat.lt_succ_self _
        · exact Nat.lt_succ_of_lt (hc.oba nm n h)
      · intro id l k v h h'; exact hcl.tbl id l k v h h'
    · simp
    · simp

theorem safe_internM {H : Prop} {N : Nat} {name : String} :
    SafeH H N (internM name) (fun n N' => n < N') := by
  refine ⟨fun c => ?_⟩
  refine ⟨fun s hs => (by cases hs), fun _ hw hc _ => ?_⟩
  obtain ⟨h1, h2, h3, h4⟩ := c.intern_spec name hw hc
  refine ⟨h1, h2, h3, ?_⟩
  intro a ha
  simp only [internM] at ha
  cases ha
  exact h4

theorem safe_symVal {H : Prop} {N : Nat} {name : String} : SafeH H N (symVal name) bq := by
  unfold symVal
  refine SafeH.bind safe_internM fun n N' => SafeH.pure ?_
  simp only [bq_def, bnd_val, bound_sym]; omega

/-! ### reading and writing variables -/

theorem safe_getSym {H : Prop} {N : Nat} {n : Nat} (h : H → n + 1 ≤ N) : SafeH H N (getSym n) bq := by
  refine ⟨fun c => ?_⟩
  unfold getSym
  simp only
  split
  · refine ⟨fun s hs => (by cases hs), fun hh _ hc hn => ⟨rfl, hc, Nat.le_refl _, ?_⟩⟩
    intro a ha; cases ha
    simp only [bq_def, bnd_val, bound_sym]; have := h hh; omega
  · cases hg : (c.symD n).get with
    | some v =>
      refine ⟨fun s hs => (by cases hs), fun _ _ hc _ => ⟨rfl, hc, Nat.le_refl _, ?_⟩⟩
      intro a ha; cases ha
      exact hc.get hg
    | none =>
      exact ⟨fun s hs => (by cases hs), fun _ _ hc _ => ⟨rfl, hc, Nat.le_refl _, fun a ha => by cases ha⟩⟩

theorem safe_notConstant {H : Prop} {N : Nat} {n : Nat} : SafeH H N (notConstant n) bq := by
  refine ⟨fun c => ?_⟩
  unfold notConstant
  split
  · exact ⟨fun s hs => (by cases hs), fun _ _ hc _ => ⟨rfl, hc, Nat.le_refl _, fun a ha => by cases ha⟩⟩
  · exact ⟨fun s hs => (by cases hs), fun _ _ hc _ => ⟨rfl, hc, Nat.le_refl _, fun a _ => by simp⟩⟩

/-- overwriting the innermost binding (or creating the global one) of a symbol -/
theorem modSym_set_spec {c : Ctx} (n : Nat) (v : Val) (hw : WF c) (hc : Closed c)
    (hv : v.bound ≤ c.syms.size) :
    LD (c.modSym n (·.set v)) = LD c ∧ Closed (c.modSym n (·.set v)) ∧
      c.syms.size ≤ (c.modSym n (·.set v)).syms.size := by
  refine ⟨?_, ?_, by simp⟩
  · rw [LD_modSym]; funext k
    split
    · exact localDepth_set _ _ (hw k)
    · rfl
  · apply hc.modSym
    intro x hx
    rcases mem_set_items hx with h | h
    · exact hc.stk n x h
    · exact h ▸ hv

theorem modSym_setGlobal_spec {c : Ctx} (n : Nat) (v : Val) (hw : WF c) (hc : Closed c)
    (hv : v.bound ≤ c.syms.size) :
    LD (c.modSym n (·.setGlobal v)) = LD c ∧ Closed (c.modSym n (·.setGlobal v)) ∧
      c.syms.size ≤ (c.modSym n (·.setGlobal v)).syms.size := by
  refine ⟨?_, ?_, by simp⟩
  · rw [LD_modSym]; funext k
    split
    · exact localDepth_setGlobal _ _ (hw k)
    · rfl
  · apply hc.modSym
    intro x hx
    rcases mem_setGlobal_items hx with h | h
    · exact hc.stk n x h
    · exact h ▸ hv

theorem safe_modSym_set {H : Prop} {N : Nat} {n : Nat} {v : Val} (h : H → v.bound ≤ N) :
    SafeH H N (M.modify (·.modSym n (·.set v))) bq :=
  SafeH.modify fun hh _ hw hc hn => modSym_set_spec n v hw hc (hn ▸ h hh)

theorem safe_setV {H : Prop} {N : Nat} {target v : Val} (h : H → v.bound ≤ N) :
    SafeH H N (setV target v) bq := by
  unfold setV
  split
  · exact SafeH.of_hyp h (SafeH.bind safe_notConstant fun _ N' => safe_modSym_set (by omega))
  · exact SafeH.throw

theorem safe_setGlobalV {H : Prop} {N : Nat} {target v : Val} (h : H → v.bound ≤ N) :
    SafeH H N (setGlobalV target v) bq := by
  unfold setGlobalV
  split
  · exact SafeH.of_hyp h (SafeH.bind safe_notConstant fun _ N' =>
      SafeH.modify fun hh _ hw hc hn => modSym_setGlobal_spec _ v hw hc (by omega))
  · exact SafeH.throw

/-! ## temporary bindings: push … pop -/

/-- `f` with one more local binding for every occurrence in `ns` -/
def shift (f : Nat → Int) (ns : List Nat) : Nat → Int := fun k => f k + (ns.count k : Int)

@[simp] theorem shift_nil (f : Nat → Int) : shift f [] = f := by
  funext k; simp [shift]

theorem shift_cons (f : Nat → Int) (n : Nat) (ns : List Nat) :
    shift f (n :: ns) = fun k => shift f ns k + (if n = k then 1 else 0) := by
  funext k
  simp only [shift, List.count_cons, beq_iff_eq]
  split <;> simp <;> omega

theorem shift_append (f : Nat → Int) (xs ys : List Nat) : shift f (xs ++ ys) = shift (shift f xs) ys := by
  funext k; simp [shift, List.count_append]; omega

theorem shift_nonneg {f : Nat → Int} (hf : ∀ k, 0 ≤ f k) (ns : List Nat) : ∀ k, 0 ≤ shift f ns k := by
  intro k; have := hf k; simp only [shift]; omega

theorem length_pos_of_LD {c : Ctx} {n : Nat} (h : 1 ≤ LD c n) : (c.symD n).items ≠ [] := by
  intro he
  simp only [LD, localDepth, he, List.length_nil] at h
  split at h <;> omega

/-- popping a symbol that has a local binding -/
theorem popSymCtx_spec {c : Ctx} {n : Nat} (hc : Closed c) (h : 1 ≤ LD c n) :
    LD (popSymCtx c n) = (fun k => LD c k - (if n = k then 1 else 0)) ∧ Closed (popSymCtx c n) ∧
      (popSymCtx c n).syms.size = c.syms.size := by
  have hne := length_pos_of_LD h
  have hn : n < c.syms.size := by
    apply Nat.lt_of_not_le; intro hge; rw [LD_of_ge hge] at h; omega
  unfold popSymCtx SymSt.pop
  cases hi : (c.symD n).items with
  | nil => exact absurd hi hne
  | cons a rest =>
    simp only
    refine ⟨?_, ?_, by simp⟩
    · rw [LD_modSym]; funext k
      split
      · next hk =>
        obtain ⟨rfl, _⟩ := hk
        simp only [LD, localDepth, hi, List.length_cons, if_true]
        omega
      · next hk =>
        have : ¬ n = k := fun e => hk ⟨e, hn⟩
        simp [this]
    · apply hc.modSym
      intro x hx
      apply hc.stk n x
      rw [hi]; exact List.mem_cons_of_mem _ hx

/-- undoing a group of temporary bindings restores the depths -/
theorem popAll_spec (f : Nat → Int) (hf : ∀ k, 0 ≤ f k) :
    ∀ (ns : List Nat) (c : Ctx), Closed c → LD c = shift f ns →
      LD (ns.foldl popSymCtx c) = f ∧ Closed (ns.foldl popSymCtx c) ∧
        (ns.foldl popSymCtx c).syms.size = c.syms.size := by
  intro ns
  induction ns with
  | nil => intro c hc h; rw [shift_nil] at h; exact ⟨h, hc, rfl⟩
  | cons n ns ih =>
    intro c hc h
    have h1 : 1 ≤ LD c n := by
      rw [h, shift_cons]; have := shift_nonneg hf ns n; simp; omega
    obtain ⟨p1, p2, p3⟩ := popSymCtx_spec hc h1
    have := ih (popSymCtx c n) p2 (by
      rw [p1, h, shift_cons]; funext k; simp only; omega)
    simp only [List.foldl_cons]
    exact ⟨this.1, this.2.1, this.2.2.trans p3⟩

/-- `pushV` on a symbol: either the symbol is a constant and nothing happens, or it gets one more
    local binding -/
theorem pushV_sym_spec (n : Nat) (v : Val) (c : Ctx) :
    (pushV (.sym n) v c = (.err .undefined, c)) ∨
    (pushV (.sym n) v c = (.ok (), c.modSym n (·.push v))) := by
  show (M.bind (notConstant n) _ c = _) ∨ (M.bind (notConstant n) _ c = _)
  unfold M.bind notConstant
  by_cases hk : (c.symD n).constant = true
  · left; simp [hk]
  · right; simp [hk, M.modify]

theorem modSym_push_spec {c : Ctx} (n : Nat) (v : Val) (hc : Closed c) (hn : n < c.syms.size)
    (hv : v.bound ≤ c.syms.size) :
    LD (c.modSym n (·.push v)) = shift (LD c) [n] ∧ Closed (c.modSym n (·.push v)) ∧
      (c.modSym n (·.push v)).syms.size = c.syms.size := by
  refine ⟨?_, ?_, by simp⟩
  · rw [LD_modSym, shift_cons]; funext k
    split
    · next hk => simp only [hk.1, if_true, shift_nil]; exact localDepth_push _ _
    · next hk =>
      have : ¬ n = k := fun e => hk ⟨e, hn⟩
      simp [this]
  · apply hc.modSym
    intro x hx
    rcases mem_push_items hx with h | h
    · exact hc.stk n x h
    · exact h ▸ hv

theorem pushV_nopanic (t v : Val) (c : Ctx) (s : String) : (pushV t v c).1 ≠ .panic s := by
  cases t with
  | sym n => rcases pushV_sym_spec n v c with h | h <;> rw [h] <;> intro h' <;> cases h'
  | _ => intro h'; cases h'

theorem pushV_nonsym {t : Val} (v : Val) (c : Ctx) (h : t.isSym = false) :
    pushV t v c = (.err .typeMismatch, c) := by
  cases t <;> first | rfl | cases h

/-- run `body` under temporary bindings `ns` that are popped on every exit -/
theorem SafeH.finallyPop {α} {H : Prop} {N : Nat} {body : M α} {Q : α → Nat → Prop}
    (hb : SafeH H N body Q) (ns : List Nat) (c : Ctx) :
    (∀ s, (M.finally' body (fun c => ns.foldl popSymCtx c) c).1 ≠ .panic s) ∧
    (H → ∀ f : Nat → Int, (∀ k, 0 ≤ f k) → Closed c → LD c = shift f ns → c.syms.size = N →
      let out := M.finally' body (fun c => ns.foldl popSymCtx c) c
      LD out.2 = f ∧ Closed out.2 ∧ c.syms.size ≤ out.2.syms.size ∧
        ∀ a, out.1 = .ok a → Q a out.2.syms.size) := by
  unfold M.finally'
  rcases hr : body c with ⟨r, c'⟩
  have hbc := hb.run c
  rw [hr] at hbc
  refine ⟨hbc.1, fun hh f hf hc hld hn => ?_⟩
  have hw : WF c := fun k => by rw [hld]; exact shift_nonneg hf ns k
  have p := hbc.2 hh hw hc hn
  obtain ⟨q1, q2, q3⟩ := popAll_spec f hf ns c' p.closed (p.ld.trans hld)
  simp only
  refine ⟨q1, q2, by rw [q3]; exact p.size, ?_⟩
  intro a ha
  rw [q3]; exact p.res a ha

end Tulisp
