/-
  Proofs/C17.lean — helper definitions and lemmas for property C17 (the `sort` built-in).

  The model of the algorithm is `Tulisp.sortM` / `Tulisp.mergeM` (Model/Sort.lean): a stable
  merge sort driven by a monadic predicate `lt : Val → Val → M Bool`.
  Nothing in Model/* is modified; the equation lemmas below just restate the definitions with
  `M.bind` / `M.pure` instead of `do` notation.
-/
import Tulisp.Model.Sort
namespace Tulisp.C17
open Tulisp

/-! ## vocabulary -/

/-- The ways a model computation can fail. -/
inductive Fail where
  | err (k : ErrKind)
  | panic (site : String)
  | fuel
deriving DecidableEq, Repr

/-- the failure of an outcome, if any -/
def failOf {α : Type} : Res α → Option Fail
  | .ok _ => none
  | .err k => some (.err k)
  | .panic s => some (.panic s)
  | .fuel => some .fuel

/-- `r` (the outcome of running a computation) is the failure `x`, leaving the context `c'`. -/
def FailsWith {α : Type} (r : Res α × Ctx) (x : Fail) (c' : Ctx) : Prop :=
  failOf r.1 = some x ∧ r.2 = c'

/-- a predicate without side effects that never fails -/
def pureLt (p : Val → Val → Bool) : Val → Val → M Bool := fun a b => pure (p a b)

/-- the `le` handed to core's `List.mergeSort`: "b is not strictly before a" -/
def leOf (p : Val → Val → Bool) : Val → Val → Bool := fun a b => !p b a

/-- `p` is a strict weak ordering (on all values). -/
structure StrictWeak (p : Val → Val → Bool) : Prop where
  irrefl : ∀ a, p a a = false
  trans : ∀ a b c, p a b = true → p b c = true → p a c = true
  /-- incomparability (`¬ a < b ∧ ¬ b < a`) is transitive -/
  incomp_trans : ∀ a b c, p a b = false → p b a = false → p b c = false → p c b = false →
    p a c = false ∧ p c a = false

/-- `p` is a strict weak ordering on the elements of `xs` (nothing is asked about other values). -/
structure StrictWeakOn (p : Val → Val → Bool) (xs : List Val) : Prop where
  irrefl : ∀ a ∈ xs, p a a = false
  trans : ∀ a ∈ xs, ∀ b ∈ xs, ∀ c ∈ xs, p a b = true → p b c = true → p a c = true
  incomp_trans : ∀ a ∈ xs, ∀ b ∈ xs, ∀ c ∈ xs,
    p a b = false → p b a = false → p b c = false → p c b = false →
    p a c = false ∧ p c a = false

theorem StrictWeak.on {p} (h : StrictWeak p) (xs : List Val) : StrictWeakOn p xs :=
  ⟨fun a _ => h.irrefl a, fun a _ b _ c _ => h.trans a b c, fun a _ b _ c _ => h.incomp_trans a b c⟩

/-! ## the monad -/

theorem bind_eq_of_ok {α β : Type} {m : M α} {f : α → M β} {c c1 : Ctx} {a : α}
    (h : m c = (.ok a, c1)) : M.bind m f c = f a c1 := by
  simp only [M.bind, h]

theorem bind_ok {α β : Type} {m : M α} {f : α → M β} {c c' : Ctx} {b : β}
    (h : M.bind m f c = (.ok b, c')) : ∃ a c1, m c = (.ok a, c1) ∧ f a c1 = (.ok b, c') := by
  unfold M.bind at h
  cases hm : m c with
  | mk r c1 =>
    rw [hm] at h
    cases r with
    | ok a => exact ⟨a, c1, rfl, h⟩
    | err k => simp at h
    | panic s => simp at h
    | fuel => simp at h

theorem bind_fails {α β : Type} {m : M α} {f : α → M β} {c c' : Ctx} {x : Fail}
    (h : FailsWith (M.bind m f c) x c') :
    FailsWith (m c) x c' ∨ ∃ a c1, m c = (.ok a, c1) ∧ FailsWith (f a c1) x c' := by
  unfold M.bind at h
  cases hm : m c with
  | mk r c1 =>
    rw [hm] at h
    cases r with
    | ok a => exact .inr ⟨a, c1, rfl, h⟩
    | err k => exact .inl h
    | panic s => exact .inl h
    | fuel => exact .inl h

theorem not_failsWith_ok {α : Type} {a : α} {c c' : Ctx} {x : Fail} :
    ¬ FailsWith ((Res.ok a, c) : Res α × Ctx) x c' := by
  intro h; simp [FailsWith, failOf] at h

theorem pure_ok {α : Type} {a b : α} {c c' : Ctx} (h : (M.pure a : M α) c = (.ok b, c')) :
    b = a ∧ c' = c := by
  simp only [M.pure, Prod.mk.injEq, Res.ok.injEq] at h
  exact ⟨h.1.symm, h.2.symm⟩

/-- every outcome is a success or a failure -/
theorem ok_or_fails {α : Type} (r : Res α × Ctx) :
    (∃ a, r = (.ok a, r.2)) ∨ ∃ x, FailsWith r x r.2 := by
  obtain ⟨r, c⟩ := r
  cases r with
  | ok a => exact .inl ⟨a, rfl⟩
  | err k => exact .inr ⟨.err k, rfl, rfl⟩
  | panic s => exact .inr ⟨.panic s, rfl, rfl⟩
  | fuel => exact .inr ⟨.fuel, rfl, rfl⟩

theorem failsWith_err {α : Type} {r : Res α × Ctx} {e : ErrKind} {c' : Ctx} :
    FailsWith r (.err e) c' ↔ r = (.err e, c') := by
  obtain ⟨r, c⟩ := r
  cases r <;> simp [FailsWith, failOf]

theorem failsWith_panic {α : Type} {r : Res α × Ctx} {s : String} {c' : Ctx} :
    FailsWith r (.panic s) c' ↔ r = (.panic s, c') := by
  obtain ⟨r, c⟩ := r
  cases r <;> simp [FailsWith, failOf]

theorem failsWith_fuel {α : Type} {r : Res α × Ctx} {c' : Ctx} :
    FailsWith r .fuel c' ↔ r = (.fuel, c') := by
  obtain ⟨r, c⟩ := r
  cases r <;> simp [FailsWith, failOf]

/-! ## equation lemmas for `mergeM` / `sortM` -/

variable (lt : Val → Val → M Bool)

theorem mergeM_zero (ls rs : List Val) (c : Ctx) : mergeM lt ls rs 0 c = (.fuel, c) := by
  unfold mergeM; rfl

theorem mergeM_nil_left (rs : List Val) (k : Nat) (c : Ctx) :
    mergeM lt [] rs (k + 1) c = (.ok rs, c) := by
  unfold mergeM; rfl

theorem mergeM_nil_right (ls : List Val) (k : Nat) (c : Ctx) :
    mergeM lt ls [] (k + 1) c = (.ok ls, c) := by
  cases ls <;> (unfold mergeM; rfl)

theorem mergeM_cons_cons (l : Val) (ls : List Val) (r : Val) (rs : List Val) (k : Nat) :
    mergeM lt (l :: ls) (r :: rs) (k + 1) =
      M.bind (lt r l) (fun b =>
        if b = true then M.bind (mergeM lt (l :: ls) rs k) (fun rest => M.pure (r :: rest))
        else M.bind (mergeM lt ls (r :: rs) k) (fun rest => M.pure (l :: rest))) := by
  rw [mergeM]; rfl

theorem sortM_zero (xs : List Val) (c : Ctx) : sortM lt 0 xs c = (.fuel, c) := rfl

theorem sortM_small (k : Nat) (xs : List Val) (h : xs.length < 2) (c : Ctx) :
    sortM lt (k + 1) xs c = (.ok xs, c) := by
  simp only [sortM, h, if_true]; rfl

theorem sortM_big (k : Nat) (xs : List Val) (h : ¬ xs.length < 2) :
    sortM lt (k + 1) xs =
      M.bind (sortM lt k (xs.drop ((xs.length + 1) / 2))) (fun right =>
        M.bind (sortM lt k (xs.take ((xs.length + 1) / 2))) (fun left =>
          mergeM lt left right (xs.length + 1))) := by
  simp only [sortM, h, if_false]; rfl

/-! ## 1. permutation — for every predicate whatsoever -/

theorem mergeM_perm_append : ∀ (k : Nat) (ls rs : List Val) (c : Ctx) (ys : List Val) (c' : Ctx),
    mergeM lt ls rs k c = (.ok ys, c') → ys.Perm (ls ++ rs)
  | 0, ls, rs, c, ys, c', h => by
    rw [mergeM_zero] at h; simp at h
  | k + 1, [], rs, c, ys, c', h => by
    rw [mergeM_nil_left] at h
    simp only [Prod.mk.injEq, Res.ok.injEq] at h
    simp [← h.1]
  | k + 1, l :: ls, [], c, ys, c', h => by
    rw [mergeM_nil_right] at h
    simp only [Prod.mk.injEq, Res.ok.injEq] at h
    simp [← h.1]
  | k + 1, l :: ls, r :: rs, c, ys, c', h => by
    rw [mergeM_cons_cons] at h
    obtain ⟨b, c1, _, h⟩ := bind_ok h
    cases b with
    | true =>
      simp only [if_true] at h
      obtain ⟨rest, c2, hr, h⟩ := bind_ok h
      have ih := mergeM_perm_append k (l :: ls) rs c1 rest c2 hr
      obtain ⟨rfl, _⟩ := pure_ok h
      -- r :: rest ~ l :: ls ++ r :: rs
      exact (List.Perm.cons r ih).trans (List.perm_middle.symm)
    | false =>
      simp only [Bool.false_eq_true, if_false] at h
      obtain ⟨rest, c2, hr, h⟩ := bind_ok h
      have ih := mergeM_perm_append k ls (r :: rs) c1 rest c2 hr
      obtain ⟨rfl, _⟩ := pure_ok h
      exact List.Perm.cons l ih

theorem sortM_perm_aux : ∀ (k : Nat) (xs : List Val) (c : Ctx) (ys : List Val) (c' : Ctx),
    sortM lt k xs c = (.ok ys, c') → ys.Perm xs
  | 0, xs, c, ys, c', h => by
    rw [sortM_zero] at h; simp at h
  | k + 1, xs, c, ys, c', h => by
    by_cases hlen : xs.length < 2
    · rw [sortM_small lt k xs hlen] at h
      simp only [Prod.mk.injEq, Res.ok.injEq] at h
      simp [← h.1]
    · rw [sortM_big lt k xs hlen] at h
      obtain ⟨right, c1, hR, h⟩ := bind_ok h
      obtain ⟨left, c2, hL, h⟩ := bind_ok h
      have pR := sortM_perm_aux k _ c right c1 hR
      have pL := sortM_perm_aux k _ c1 left c2 hL
      have pM := mergeM_perm_append lt _ left right c2 ys c' h
      exact pM.trans ((pL.append pR).trans (List.Perm.of_eq (List.take_append_drop _ xs)))

/-! ## 2. failures: every failure of `sort` is a failure of a predicate call, or lack of fuel -/

theorem mergeM_fails : ∀ (k : Nat) (ls rs : List Val) (c : Ctx) (x : Fail) (c' : Ctx),
    FailsWith (mergeM lt ls rs k c) x c' →
    (x = .fuel ∧ k < ls.length + rs.length + 1) ∨
      ∃ a ∈ rs, ∃ b ∈ ls, ∃ c0, FailsWith (lt a b c0) x c'
  | 0, ls, rs, c, x, c', h => by
    rw [mergeM_zero] at h
    simp only [FailsWith, failOf, Option.some.injEq] at h
    exact .inl ⟨h.1.symm, by omega⟩
  | k + 1, [], rs, c, x, c', h => by
    rw [mergeM_nil_left] at h; exact absurd h not_failsWith_ok
  | k + 1, l :: ls, [], c, x, c', h => by
    rw [mergeM_nil_right] at h; exact absurd h not_failsWith_ok
  | k + 1, l :: ls, r :: rs, c, x, c', h => by
    rw [mergeM_cons_cons] at h
    rcases bind_fails h with h | ⟨b, c1, _, h⟩
    · exact .inr ⟨r, List.mem_cons_self, l, List.mem_cons_self, c, h⟩
    · cases b with
      | true =>
        simp only [if_true] at h
        rcases bind_fails h with h | ⟨rest, c2, _, h⟩
        · rcases mergeM_fails k (l :: ls) rs c1 x c' h with ⟨hx, hk⟩ | ⟨a, ha, b, hb, c0, h0⟩
          · refine .inl ⟨hx, ?_⟩
            simp only [List.length_cons] at hk ⊢; omega
          · exact .inr ⟨a, List.mem_cons_of_mem _ ha, b, hb, c0, h0⟩
        · exact absurd h not_failsWith_ok
      | false =>
        simp only [Bool.false_eq_true, if_false] at h
        rcases bind_fails h with h | ⟨rest, c2, _, h⟩
        · rcases mergeM_fails k ls (r :: rs) c1 x c' h with ⟨hx, hk⟩ | ⟨a, ha, b, hb, c0, h0⟩
          · refine .inl ⟨hx, ?_⟩
            simp only [List.length_cons] at hk ⊢; omega
          · exact .inr ⟨a, ha, b, List.mem_cons_of_mem _ hb, c0, h0⟩
        · exact absurd h not_failsWith_ok

theorem half_bounds {n : Nat} (h : ¬ n < 2) :
    (n + 1) / 2 + 1 ≤ n ∧ n - (n + 1) / 2 + 1 ≤ n ∧ (n + 1) / 2 ≤ n := by omega

theorem sortM_fails : ∀ (k : Nat) (xs : List Val) (c : Ctx) (x : Fail) (c' : Ctx),
    FailsWith (sortM lt k xs c) x c' →
    (x = .fuel ∧ k < xs.length + 1) ∨
      ∃ a ∈ xs, ∃ b ∈ xs, ∃ c0, FailsWith (lt a b c0) x c'
  | 0, xs, c, x, c', h => by
    rw [sortM_zero] at h
    simp only [FailsWith, failOf, Option.some.injEq] at h
    exact .inl ⟨h.1.symm, by omega⟩
  | k + 1, xs, c, x, c', h => by
    by_cases hlen : xs.length < 2
    · rw [sortM_small lt k xs hlen] at h; exact absurd h not_failsWith_ok
    · rw [sortM_big lt k xs hlen] at h
      have hb := half_bounds hlen
      rcases bind_fails h with h | ⟨right, c1, hR, h⟩
      · rcases sortM_fails k _ c x c' h with ⟨hx, hk⟩ | ⟨a, ha, b, hb', c0, h0⟩
        · refine .inl ⟨hx, ?_⟩
          simp only [List.length_drop] at hk; omega
        · exact .inr ⟨a, List.mem_of_mem_drop ha, b, List.mem_of_mem_drop hb', c0, h0⟩
      · rcases bind_fails h with h | ⟨left, c2, hL, h⟩
        · rcases sortM_fails k _ c1 x c' h with ⟨hx, hk⟩ | ⟨a, ha, b, hb', c0, h0⟩
          · refine .inl ⟨hx, ?_⟩
            simp only [List.length_take] at hk; omega
          · exact .inr ⟨a, List.mem_of_mem_take ha, b, List.mem_of_mem_take hb', c0, h0⟩
        · have pR := sortM_perm_aux lt k _ c right c1 hR
          have pL := sortM_perm_aux lt k _ c1 left c2 hL
          rcases mergeM_fails lt _ left right c2 x c' h with ⟨_, hk⟩ | ⟨a, ha, b, hb', c0, h0⟩
          · exfalso
            have h1 := pR.length_eq
            have h2 := pL.length_eq
            simp only [List.length_drop] at h1
            simp only [List.length_take] at h2
            omega
          · exact .inr ⟨a, List.mem_of_mem_drop (pR.mem_iff.1 ha), b,
              List.mem_of_mem_take (pL.mem_iff.1 hb'), c0, h0⟩

/-! ## the context: `sort` itself never touches the state, only the predicate calls do -/

section ctx
variable (R : Ctx → Ctx → Prop) (hrefl : ∀ c, R c c) (htrans : ∀ c1 c2 c3, R c1 c2 → R c2 c3 → R c1 c3)
include hrefl htrans

theorem bind_rel {α β : Type} {m : M α} {f : α → M β} {c : Ctx}
    (hm : R c (m c).2) (hf : ∀ a c1, m c = (.ok a, c1) → R c1 (f a c1).2) :
    R c (M.bind m f c).2 := by
  have _ := hrefl
  unfold M.bind
  cases h : m c with
  | mk r c1 =>
    rw [h] at hm
    cases r with
    | ok a => exact htrans _ _ _ hm (hf a c1 h)
    | err k => exact hm
    | panic s => exact hm
    | fuel => exact hm

theorem mergeM_rel (hlt : ∀ a b c, R c (lt a b c).2) :
    ∀ (k : Nat) (ls rs : List Val) (c : Ctx), R c (mergeM lt ls rs k c).2
  | 0, ls, rs, c => by rw [mergeM_zero]; exact hrefl c
  | k + 1, [], rs, c => by rw [mergeM_nil_left]; exact hrefl c
  | k + 1, l :: ls, [], c => by rw [mergeM_nil_right]; exact hrefl c
  | k + 1, l :: ls, r :: rs, c => by
    rw [mergeM_cons_cons]
    refine bind_rel R hrefl htrans (hlt r l c) ?_
    intro b c1 _
    cases b with
    | true =>
      simp only [if_true]
      exact bind_rel R hrefl htrans (mergeM_rel hlt k _ _ c1) (fun a c2 _ => hrefl c2)
    | false =>
      simp only [Bool.false_eq_true, if_false]
      exact bind_rel R hrefl htrans (mergeM_rel hlt k _ _ c1) (fun a c2 _ => hrefl c2)

theorem sortM_rel (hlt : ∀ a b c, R c (lt a b c).2) :
    ∀ (k : Nat) (xs : List Val) (c : Ctx), R c (sortM lt k xs c).2
  | 0, xs, c => by rw [sortM_zero]; exact hrefl c
  | k + 1, xs, c => by
    by_cases hlen : xs.length < 2
    · rw [sortM_small lt k xs hlen]; exact hrefl c
    · rw [sortM_big lt k xs hlen]
      refine bind_rel R hrefl htrans (sortM_rel hlt k _ c) (fun right c1 _ => ?_)
      refine bind_rel R hrefl htrans (sortM_rel hlt k _ c1) (fun left c2 _ => ?_)
      exact mergeM_rel lt R hrefl htrans hlt _ left right c2

end ctx

/-! ## 3. functional predicates: the algorithm is core's `List.mergeSort` -/

theorem mergeSort_small {α : Type} (le : α → α → Bool) (xs : List α) (h : xs.length < 2) :
    xs.mergeSort le = xs := by
  match xs, h with
  | [], _ => simp
  | [a], _ => simp
  | _ :: _ :: _, h => simp at h; omega

theorem mergeSort_big {α : Type} (le : α → α → Bool) (xs : List α) (h : ¬ xs.length < 2) :
    xs.mergeSort le =
      List.merge ((xs.take ((xs.length + 1) / 2)).mergeSort le)
        ((xs.drop ((xs.length + 1) / 2)).mergeSort le) le := by
  match xs, h with
  | [], h => simp at h
  | [a], h => simp at h
  | a :: b :: t, _ =>
    rw [List.mergeSort]
    simp only [List.MergeSort.Internal.splitInTwo_fst, List.MergeSort.Internal.splitInTwo_snd]

variable (p : Val → Val → Bool)

/-- `lt` computes the boolean function `p` on the given elements (it may change the context). -/
def Computes (lt : Val → Val → M Bool) (p : Val → Val → Bool) (as bs : List Val) : Prop :=
  ∀ a ∈ as, ∀ b ∈ bs, ∀ c, ∃ c', lt a b c = (.ok (p a b), c')

theorem mergeM_computes : ∀ (k : Nat) (ls rs : List Val) (c : Ctx),
    Computes lt p rs ls → ls.length + rs.length + 1 ≤ k →
    ∃ c', mergeM lt ls rs k c = (.ok (List.merge ls rs (leOf p)), c')
  | 0, ls, rs, c, _, hk => by omega
  | k + 1, [], rs, c, _, _ => ⟨c, by rw [mergeM_nil_left]; simp⟩
  | k + 1, l :: ls, [], c, _, _ => ⟨c, by rw [mergeM_nil_right]; simp⟩
  | k + 1, l :: ls, r :: rs, c, hlt, hk => by
    obtain ⟨c1, h1⟩ := hlt r List.mem_cons_self l List.mem_cons_self c
    rw [mergeM_cons_cons, bind_eq_of_ok h1, List.cons_merge_cons]
    simp only [List.length_cons] at hk
    cases hp : p r l with
    | true =>
      have hlt' : Computes lt p rs (l :: ls) :=
        fun a ha b hb => hlt a (List.mem_cons_of_mem _ ha) b hb
      obtain ⟨c2, h2⟩ := mergeM_computes k (l :: ls) rs c1 hlt'
        (by simp only [List.length_cons]; omega)
      refine ⟨c2, ?_⟩
      simp only [if_true, leOf, hp, Bool.not_true, Bool.false_eq_true, if_false]
      rw [bind_eq_of_ok h2]; rfl
    | false =>
      have hlt' : Computes lt p (r :: rs) ls :=
        fun a ha b hb => hlt a ha b (List.mem_cons_of_mem _ hb)
      obtain ⟨c2, h2⟩ := mergeM_computes k ls (r :: rs) c1 hlt'
        (by simp only [List.length_cons]; omega)
      refine ⟨c2, ?_⟩
      simp only [Bool.false_eq_true, if_false, leOf, hp, Bool.not_false, if_true]
      rw [bind_eq_of_ok h2]; rfl

theorem sortM_computes : ∀ (k : Nat) (xs : List Val) (c : Ctx),
    Computes lt p xs xs → xs.length + 1 ≤ k →
    ∃ c', sortM lt k xs c = (.ok (xs.mergeSort (leOf p)), c')
  | 0, xs, c, _, hk => by omega
  | k + 1, xs, c, hlt, hk => by
    by_cases hlen : xs.length < 2
    · exact ⟨c, by rw [sortM_small lt k xs hlen, mergeSort_small _ _ hlen]⟩
    · have hb := half_bounds hlen
      have hR : Computes lt p (xs.drop ((xs.length + 1) / 2)) (xs.drop ((xs.length + 1) / 2)) :=
        fun a ha b hb => hlt a (List.mem_of_mem_drop ha) b (List.mem_of_mem_drop hb)
      have hL : Computes lt p (xs.take ((xs.length + 1) / 2)) (xs.take ((xs.length + 1) / 2)) :=
        fun a ha b hb => hlt a (List.mem_of_mem_take ha) b (List.mem_of_mem_take hb)
      obtain ⟨c1, h1⟩ := sortM_computes k _ c hR (by simp only [List.length_drop]; omega)
      obtain ⟨c2, h2⟩ := sortM_computes k _ c1 hL (by simp only [List.length_take]; omega)
      have hM : Computes lt p ((xs.drop ((xs.length + 1) / 2)).mergeSort (leOf p))
          ((xs.take ((xs.length + 1) / 2)).mergeSort (leOf p)) :=
        fun a ha b hb => hlt a (List.mem_of_mem_drop (List.mem_mergeSort.1 ha)) b
          (List.mem_of_mem_take (List.mem_mergeSort.1 hb))
      obtain ⟨c3, h3⟩ := mergeM_computes lt p (xs.length + 1) _ _ c2 hM (by
        simp only [List.length_mergeSort, List.length_take, List.length_drop]; omega)
      refine ⟨c3, ?_⟩
      rw [sortM_big lt k xs hlen, bind_eq_of_ok h1, bind_eq_of_ok h2, h3, mergeSort_big _ _ hlen]

/-! ## 4. strict weak orderings -/

theorem StrictWeak.asymm {p} (h : StrictWeak p) (a b : Val) : p a b = true → p b a = false := by
  intro hab
  cases hba : p b a with
  | false => rfl
  | true => have := h.trans a b a hab hba; rw [h.irrefl a] at this; cases this

/-- `le a b := ¬ b < a` is total -/
theorem StrictWeak.le_total {p} (h : StrictWeak p) (a b : Val) :
    (leOf p a b || leOf p b a) = true := by
  simp only [leOf]
  cases hba : p b a with
  | false => simp
  | true => simp [h.asymm b a hba]

/-- `le a b := ¬ b < a` is transitive -/
theorem StrictWeak.le_trans {p} (h : StrictWeak p) (a b c : Val) :
    leOf p a b = true → leOf p b c = true → leOf p a c = true := by
  simp only [leOf, Bool.not_eq_true']
  intro hba hcb
  cases hca : p c a with
  | false => rfl
  | true =>
    exfalso
    -- if a < b then c < b
    cases hab : p a b with
    | true => have := h.trans c a b hca hab; rw [hcb] at this; cases this
    | false =>
      cases hbc : p b c with
      | true => have := h.trans b c a hbc hca; rw [hba] at this; cases this
      | false =>
        have := (h.incomp_trans a b c hab hba hbc hcb).2
        rw [hca] at this; cases this

/-- Extension of `p` from the elements of `xs` to all values: the values outside `xs` form one
    class below all elements of `xs`. -/
def extend (p : Val → Val → Bool) (xs : List Val) : Val → Val → Bool := fun a b =>
  if a ∈ xs then (if b ∈ xs then p a b else false) else (if b ∈ xs then true else false)

theorem extend_of_mem (p : Val → Val → Bool) {xs : List Val} {a b : Val} (ha : a ∈ xs) (hb : b ∈ xs) :
    extend p xs a b = p a b := by
  simp [extend, ha, hb]

theorem extend_strictWeak {p} {xs : List Val} (h : StrictWeakOn p xs) : StrictWeak (extend p xs) where
  irrefl a := by
    by_cases ha : a ∈ xs
    · simp [extend, ha, h.irrefl a ha]
    · simp [extend, ha]
  trans a b c := by
    by_cases ha : a ∈ xs <;> by_cases hb : b ∈ xs <;> by_cases hc : c ∈ xs <;>
      simp [extend, ha, hb, hc]
    exact h.trans a ha b hb c hc
  incomp_trans a b c := by
    by_cases ha : a ∈ xs <;> by_cases hb : b ∈ xs <;> by_cases hc : c ∈ xs <;>
      simp [extend, ha, hb, hc]
    exact h.incomp_trans a ha b hb c hc

theorem computes_pureLt (p : Val → Val → Bool) (as bs : List Val) : Computes (pureLt p) p as bs :=
  fun _ _ _ _ c => ⟨c, rfl⟩

/-- `List.mergeSort` only looks at the comparison on the elements of the list. -/
theorem mergeSort_congr (p q : Val → Val → Bool) (xs : List Val)
    (h : ∀ a ∈ xs, ∀ b ∈ xs, p a b = q a b) :
    xs.mergeSort (leOf p) = xs.mergeSort (leOf q) := by
  have hq : Computes (pureLt p) q xs xs := fun a ha b hb c => ⟨c, by rw [← h a ha b hb]; rfl⟩
  obtain ⟨c1, h1⟩ := sortM_computes (pureLt p) p (xs.length + 1) xs default
    (computes_pureLt p xs xs) (Nat.le_refl _)
  obtain ⟨c2, h2⟩ := sortM_computes (pureLt p) q (xs.length + 1) xs default hq (Nat.le_refl _)
  rw [h1] at h2
  simp only [Prod.mk.injEq, Res.ok.injEq] at h2
  exact h2.1

theorem mergeSort_sorted_on {p} {xs : List Val} (h : StrictWeakOn p xs) :
    (xs.mergeSort (leOf p)).Pairwise (fun a b => p b a = false) := by
  have hx := extend_strictWeak h
  rw [mergeSort_congr p (extend p xs) xs (fun a ha b hb => (extend_of_mem p ha hb).symm)]
  have hs := List.pairwise_mergeSort (le := leOf (extend p xs)) hx.le_trans hx.le_total xs
  refine hs.imp_of_mem ?_
  intro a b ha hb hab
  rw [List.mem_mergeSort] at ha hb
  simpa [leOf, extend_of_mem p hb ha] using hab

theorem mergeSort_stable_on {p} {xs ys : List Val} (h : StrictWeakOn p xs)
    (hsorted : ys.Pairwise (fun a b => p b a = false)) (hsub : ys.Sublist xs) :
    ys.Sublist (xs.mergeSort (leOf p)) := by
  have hx := extend_strictWeak h
  rw [mergeSort_congr p (extend p xs) xs (fun a ha b hb => (extend_of_mem p ha hb).symm)]
  refine List.sublist_mergeSort (le := leOf (extend p xs)) hx.le_trans hx.le_total ?_ hsub
  refine hsorted.imp_of_mem ?_
  intro a b ha hb hab
  simp [leOf, extend_of_mem p (hsub.subset hb) (hsub.subset ha), hab]

/-! ## 5. a family of strict weak orderings: comparison of an integer key -/

theorem strictWeak_ofKey (key : Val → Int) : StrictWeak (fun a b => decide (key a < key b)) where
  irrefl a := by simp
  trans a b c := by simp only [decide_eq_true_eq]; omega
  incomp_trans a b c := by simp only [decide_eq_false_iff_not]; omega

end Tulisp.C17
