/-
  Proofs/C16Defs.lean — definitions for C16: positions of prefixes of a text, what is written
  between the start and the end of a token (`Written`), the chain of token extents inside a
  text (`Chain`), the tokenizer invariant (`MInv`), token order (`TokOrdered`).
-/
import Tulisp.Proofs.C09Lex
import Tulisp.Model.Load
namespace Tulisp.C16
open Tulisp Tulisp.C09

/-- The position reached after the characters `cs` of a text that starts at line 1, column 1. -/
def P (cs : List Char) : Pos := cs.foldl C08.advPos ⟨1, 1⟩

/-- `a ≤ b` on positions, lexicographically (Prop version of `posLe`). -/
def PosLe (a b : Pos) : Prop := a.line < b.line ∨ (a.line = b.line ∧ a.col ≤ b.col)
/-- `a < b` on positions, lexicographically. -/
def PosLt (a b : Pos) : Prop := a.line < b.line ∨ (a.line = b.line ∧ a.col < b.col)

/-- The characters between the start and the end of a token's span, for each kind of token:
    punctuation is itself, an identifier / float is its name / text, an integer is a literal with
    that value, a string's span starts after the opening quote and covers an encoding of the
    string and the closing quote. -/
def Written : Tok → List Char → Prop
  | .open, w => w = ['(']
  | .close, w => w = [')']
  | .quote, w => w = ['\'']
  | .backtick, w => w = ['`']
  | .dot, w => w = ['.']
  | .comma, w => w = [',']
  | .splice, w => w = [',', '@']
  | .sharpquote, w => w = ['#', '\'']
  | .str s, w => ∃ raw, w = raw ++ ['"'] ∧ StrEnc raw s.toList
  | .int n, w => parseIntText w = n ∧ w ≠ []
  | .float t, w => w = t.toList ∧ w ≠ []
  | .ident s, w => w = s.toList ∧ w ≠ []
  | .err _, _ => True

def isErrTok : Tok → Bool
  | .err _ => true
  | _ => false

/-- `Good f t p w`: token `t` (of file `f`) extends over the characters `w` that follow the
    prefix `p` of the text.  Its end is always the position after `p ++ w`; for every token
    other than an error token its start is the position after `p`, `w` is non-empty and is
    the token as written.  (The start of the "unknown escape" error token is computed as
    "column - 1" and is not a position of the text when the offending character is a newline;
    it still lies between the two positions.) -/
structure Good (f : Nat) (t : Token) (p w : List Char) : Prop where
  file : t.sp.file = f
  e : t.sp.e = P (p ++ w)
  sLo : PosLe (P p) t.sp.s
  sHi : PosLe t.sp.s t.sp.e
  exact : isErrTok t.tok = false → t.sp.s = P p ∧ w ≠ [] ∧ Written t.tok w

/-- `Chain f a ts b`: the tokens `ts`, in order, extend over disjoint consecutive pieces of the
    text between the prefixes `a` and `b` (gaps `g` — whitespace, comments, an opening quote —
    allowed before each). -/
def Chain (f : Nat) (a : List Char) : List Token → List Char → Prop
  | [], b => ∃ g, b = a ++ g
  | t :: ts, b => ∃ g w, Good f t (a ++ g) w ∧ Chain f (a ++ g ++ w) ts b

/-- What the pending mode knows about the consumed text `pre`; `p0` is the part of it that is
    settled (before the pending token). -/
def ModeOk (pre p0 : List Char) : Mode → Prop
  | .normal => True
  | .comment => True
  | .hash => pre = p0 ++ ['#']
  | .comma => pre = p0 ++ [',']
  | .str start acc => ∃ p1 raw, p0 = p1 ++ ['"'] ∧ pre = p0 ++ raw ∧ start = P p0 ∧
      StrEnc raw acc.reverse
  | .strEsc start acc => ∃ p1 raw, p0 = p1 ++ ['"'] ∧ pre = p0 ++ raw ++ ['\\'] ∧ start = P p0 ∧
      StrEnc raw acc.reverse
  | .numIdent start acc _ _ => pre = p0 ++ acc.reverse ∧ start = P p0 ∧ acc ≠ []

/-- The tokenizer invariant after consuming the prefix `pre` of a text of file `f`. -/
structure MInv (f : Nat) (pre : List Char) (s : TState) : Prop where
  file : s.file = f
  pos : (⟨s.line, s.col⟩ : Pos) = P pre
  chain : ∃ p0 g, pre = p0 ++ g ∧ Chain f [] s.out.reverse p0 ∧ ModeOk pre p0 s.mode

/-- Token spans are well-ordered: start ≤ end (strictly for non-error tokens), and every token
    ends before any later token starts. -/
structure TokOrdered (ts : List Token) : Prop where
  each : ∀ t ∈ ts, PosLe t.sp.s t.sp.e ∧ (isErrTok t.tok = false → PosLt t.sp.s t.sp.e)
  pair : ts.Pairwise (fun a b => PosLe a.sp.e b.sp.s)

end Tulisp.C16
