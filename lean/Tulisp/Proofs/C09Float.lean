/-
  Proofs/C09Float.lean — C09, float part: an integral float is printed as `-?digits.0`, and such a
  text is one word that the tokenizer classifies as a float token (never as an integer).
-/
import Tulisp.Proofs.C09Lex
import Tulisp.Proofs.C09Shortest
import Tulisp.Model.Num
namespace Tulisp.C09
open Tulisp

/-! ## lexical side: `-?digits.0` is a float word -/

theorem digit_ne_of_not_digit {c d : Char} (hc : c.isDigit = true) (hd : d.isDigit = false) : c ≠ d := by
  intro h; subst h; rw [hc] at hd; cases hd

theorem digit_not_break {c : Char} (hc : c.isDigit = true) : isBreak c = false := by
  have h1 : c ≠ ')' := digit_ne_of_not_digit hc (by decide)
  have h2 : c ≠ ' ' := digit_ne_of_not_digit hc (by decide)
  have h3 : c ≠ '\t' := digit_ne_of_not_digit hc (by decide)
  have h4 : c ≠ '\n' := digit_ne_of_not_digit hc (by decide)
  have h5 : c ≠ '\r' := digit_ne_of_not_digit hc (by decide)
  simp [isBreak, h1, h2, h3, h4, h5]

theorem digit_not_special {c : Char} (hc : c.isDigit = true) : isSpecialStart c = false := by
  have h1 : c ≠ ')' := digit_ne_of_not_digit hc (by decide)
  have h2 : c ≠ ' ' := digit_ne_of_not_digit hc (by decide)
  have h3 : c ≠ '\t' := digit_ne_of_not_digit hc (by decide)
  have h4 : c ≠ '\n' := digit_ne_of_not_digit hc (by decide)
  have h5 : c ≠ '\r' := digit_ne_of_not_digit hc (by decide)
  have h6 : c ≠ '(' := digit_ne_of_not_digit hc (by decide)
  have h7 : c ≠ '\'' := digit_ne_of_not_digit hc (by decide)
  have h8 : c ≠ '`' := digit_ne_of_not_digit hc (by decide)
  have h9 : c ≠ '.' := digit_ne_of_not_digit hc (by decide)
  have h10 : c ≠ '#' := digit_ne_of_not_digit hc (by decide)
  have h11 : c ≠ ',' := digit_ne_of_not_digit hc (by decide)
  have h12 : c ≠ '"' := digit_ne_of_not_digit hc (by decide)
  have h13 : c ≠ ';' := digit_ne_of_not_digit hc (by decide)
  simp [isSpecialStart, isWs, h1, h2, h3, h4, h5, h6, h7, h8, h9, h10, h11, h12, h13]

theorem flagStep_digit (fl : Bool × Bool) {c : Char} (hc : c.isDigit = true) : flagStep fl c = fl := by
  have h1 : c ≠ '-' := digit_ne_of_not_digit hc (by decide)
  simp [flagStep, h1, hc]

theorem foldl_flagStep_digits_fl (fl : Bool × Bool) (ds : List Char) (h : ∀ c ∈ ds, c.isDigit = true) :
    ds.foldl flagStep fl = fl := by
  induction ds with
  | nil => rfl
  | cons d ds ih =>
    rw [List.foldl_cons, flagStep_digit fl (h d (by simp))]
    exact ih (fun c hc => h c (by simp [hc]))

theorem flag0_digit {c : Char} (hc : c.isDigit = true) : flag0 c = (true, false) := by
  simp [flag0, hc]

/-- flags after a non-empty digit string followed by `.0`, starting from `(true,false)` -/
theorem foldl_flagStep_tail (ds : List Char) (h : ∀ c ∈ ds, c.isDigit = true) :
    (ds ++ ['.', '0']).foldl flagStep (true, false) = (false, true) := by
  rw [List.foldl_append, foldl_flagStep_digits_fl _ _ h]
  decide

theorem digits_wordOk (ds : List Char) (hne : ds ≠ []) (h : ∀ c ∈ ds, c.isDigit = true) (neg : Bool) :
    WordOk ((if neg then ['-'] else []) ++ ds ++ ['.', '0']) := by
  refine ⟨?_, ?_, ?_⟩
  · cases neg <;> simp [hne]
  · cases neg
    · cases ds with
      | nil => exact absurd rfl hne
      | cons d ds =>
        intro c hc
        simp at hc
        subst hc
        exact digit_not_special (h _ (by simp))
    · intro c hc
      simp at hc
      subst hc
      decide
  · intro c hc
    simp only [List.mem_append] at hc
    rcases hc with (hc | hc) | hc
    · cases neg
      · simp at hc
      · simp at hc; subst hc; decide
    · exact digit_not_break (h c hc)
    · simp at hc
      rcases hc with hc | hc <;> subst hc <;> decide

theorem digits_wordTok (ds : List Char) (hne : ds ≠ []) (h : ∀ c ∈ ds, c.isDigit = true) (neg : Bool) :
    wordTok ((if neg then ['-'] else []) ++ ds ++ ['.', '0']) =
      .float (String.ofList ((if neg then ['-'] else []) ++ ds ++ ['.', '0'])) := by
  cases neg
  · cases ds with
    | nil => exact absurd rfl hne
    | cons d ds =>
      have hd : d.isDigit = true := h d (by simp)
      have hds : ∀ c ∈ ds, c.isDigit = true := fun c hc => h c (by simp [hc])
      simp only [Bool.false_eq_true, if_false, List.nil_append, List.cons_append, wordTok]
      rw [flag0_digit hd, foldl_flagStep_tail ds hds]
      simp [classify, hasDigit, hd]
  · simp only [if_true, List.cons_append, List.nil_append, wordTok]
    have : flag0 '-' = (true, false) := by decide
    rw [this, foldl_flagStep_tail ds h]
    cases ds with
    | nil => exact absurd rfl hne
    | cons d ds =>
      have hd : d.isDigit = true := h d (by simp)
      simp [classify, hasDigit, hd]

theorem wordTok_float_shape (neg : Bool) (n : Nat) :
    let w := (if neg then ['-'] else []) ++ Nat.toDigits 10 n ++ ['.', '0']
    WordOk w ∧ wordTok w = .float (String.ofList w) := by
  intro w
  have hne : Nat.toDigits 10 n ≠ [] := Nat.toDigits_ne_nil
  have hd : ∀ c ∈ Nat.toDigits 10 n, c.isDigit = true := fun c hc => Nat.isDigit_of_mem_toDigits (by decide) (by decide) hc
  exact ⟨digits_wordOk _ hne hd neg, digits_wordTok _ hne hd neg⟩


/-! ## printing side: integral floats print as `-?digits.0` -/

theorem frac_zero {m k : Nat} (h : m % pow2 k = 0) : (m * 5 ^ k) % 10 ^ k = 0 := by
  rw [pow2_eq] at h
  obtain ⟨q, rfl⟩ := Nat.dvd_of_mod_eq_zero h
  have : (10 : Nat) ^ k = 2 ^ k * 5 ^ k := by rw [← Nat.mul_pow]
  rw [this, Nat.mul_assoc, Nat.mul_comm q, ← Nat.mul_assoc]
  exact Nat.mul_mod_right _ _

theorem dropWhile_all (p : Char → Bool) (l : List Char) (h : ∀ c ∈ l, p c = true) :
    l.dropWhile p = [] := by
  induction l with
  | nil => rfl
  | cons a l ih =>
    rw [List.dropWhile_cons, if_pos (h a (by simp))]
    exact ih (fun c hc => h c (by simp [hc]))

theorem strip_zeros (l : List Char) (h : ∀ c ∈ l, c = '0') :
    (l.reverse.dropWhile (· == '0')).reverse = [] := by
  rw [List.reverse_eq_nil_iff]
  apply dropWhile_all
  intro c hc
  rw [List.mem_reverse] at hc
  simp [h c hc]

theorem natDigits_toList (n : Nat) : (natDigits n).toList = Nat.toDigits 10 n := by
  simp [natDigits]

theorem natDigits_zero_toList : (natDigits 0).toList = ['0'] := by
  rw [natDigits_toList]; decide

/-- the stripped fractional digits are empty when the fractional part is `0` -/
theorem frac_strip (k : Nat) :
    ((String.ofList (List.replicate (k - (natDigits 0).length) '0') ++ natDigits 0).toList.reverse.dropWhile
        (· == '0')).reverse = [] := by
  apply strip_zeros
  intro c hc
  rw [String.toList_append, String.toList_ofList, natDigits_zero_toList] at hc
  simp at hc
  rcases hc with hc | hc
  · exact hc.2
  · exact hc

/-- decode succeeds for integral floats -/
theorem decode_of_integral {b : UInt64} (hi : f64IsIntegral b = true) :
    ∃ neg m e, f64Decode b = some (neg, m, e) ∧ (m = 0 ∨ e ≥ 0 ∨ m % pow2 (-e).toNat = 0) := by
  unfold f64IsIntegral at hi
  cases hd : f64Decode b with
  | none => rw [hd] at hi; cases hi
  | some t =>
    obtain ⟨neg, m, e⟩ := t
    rw [hd] at hi
    refine ⟨neg, m, e, rfl, ?_⟩
    simpa [or_assoc] using hi

theorem expField_ne {b : UInt64} {t} (hd : f64Decode b = some t) :
    (((b >>> 52) &&& 0x7FF) == 0x7FF) = false := by
  cases hx : (((b >>> 52) &&& 0x7FF) == 0x7FF) with
  | false => rfl
  | true =>
    have hx' : ((b >>> 52) &&& 0x7FF) = 0x7FF := by simpa using hx
    unfold f64Decode at hd
    rw [hx'] at hd
    simp at hd

/-- the sign prefix -/
def signStr (neg : Bool) : String := if neg then "-" else ""

/-- a finite float is displayed by the exact printer where that applies, by the shortest
    round-trip printer (with its sign) otherwise -/
theorem display_of_decode {b : UInt64} {t} (hd : f64Decode b = some t) :
    f64Display b = match f64ExactDecimal b with
      | some s => some s
      | none => (f64ShortestAbs b).map fun s => signStr (f64IsNeg b) ++ s := by
  have := expField_ne hd
  simp [f64Display, f64IsNaN, f64IsInf, this, signStr]
  rfl

/-- **exact printing is kept**: a finite float with a short exact decimal expansion is displayed
    as that expansion -/
theorem f64Display_exact {b : UInt64} {t} (hd : f64Decode b = some t) {s : String}
    (h : f64ExactDecimal b = some s) : f64Display b = some s := by
  rw [display_of_decode hd, h]

/-- **the extension**: every other finite float is displayed by the shortest round-trip printer,
    `-` in front for negative floats -/
theorem f64Display_shortest {b : UInt64} {t} (hd : f64Decode b = some t)
    (h : f64ExactDecimal b = none) :
    f64Display b = (f64ShortestAbs b).map fun s => (if f64IsNeg b then "-" else "") ++ s := by
  rw [display_of_decode hd, h]; rfl

theorem ite_none_some {α : Type} {c : Prop} [Decidable c] {x : Option α} {s : α}
    (h : (if c then none else x) = some s) : x = some s := by
  split at h
  · cases h
  · exact h

theorem exactDecimal_integral {b : UInt64} {neg : Bool} {m : Nat} {e : Int} {s : String}
    (hd : f64Decode b = some (neg, m, e)) (hc : m = 0 ∨ e ≥ 0 ∨ m % pow2 (-e).toNat = 0)
    (h : f64ExactDecimal b = some s) : ∃ n : Nat, s = signStr neg ++ natDigits n := by
  unfold f64ExactDecimal at h
  rw [hd] at h
  dsimp only at h
  by_cases hm : m = 0
  · rw [if_pos hm] at h
    refine ⟨0, ?_⟩
    injection h with h
    rw [← h]; rfl
  · rw [if_neg hm] at h
    by_cases he : e ≥ 0
    · rw [if_pos he] at h
      split at h
      · cases h
      · split at h
        · injection h with h
          exact ⟨_, h.symm⟩
        · cases h
    · rw [if_neg he] at h
      have hz : m % pow2 (-e).toNat = 0 := by
        rcases hc with hc | hc | hc
        · exact absurd hc hm
        · exact absurd hc he
        · exact hc
      rw [frac_zero hz, frac_strip] at h
      have h1 := ite_none_some h
      simp only [List.isEmpty_nil, if_true] at h1
      have h2 := ite_none_some h1
      exact ⟨_, (Option.some.inj h2).symm⟩


theorem signStr_toList (neg : Bool) : (signStr neg).toList = if neg then ['-'] else [] := by
  cases neg <;> rfl

/-- the shortest printer, on an integral float, gives a plain digit string: the precision at which
    the integer value itself is a candidate is reached, and there the value reads back exactly
    (`ratToF64Abs_integral`), so no candidate with a fractional part is ever printed -/
theorem shortestAbs_integral {b : UInt64} {neg : Bool} {m : Nat} {e : Int} {s : String}
    (hd : f64Decode b = some (neg, m, e)) (hc : m = 0 ∨ e ≥ 0 ∨ m % pow2 (-e).toNat = 0)
    (h : f64ShortestAbs b = some s) : ∃ n : Nat, s = natDigits n := by
  unfold f64ShortestAbs at h
  rw [hd] at h
  dsimp only at h
  by_cases hm : m = 0
  · rw [if_pos hm] at h; cases h
  rw [if_neg hm] at h
  have hc' : e ≥ 0 ∨ m % pow2 (-e).toNat = 0 := hc.resolve_left hm
  have hex := ratToF64Abs_integral hd hm hc'
  have hm0 : 0 < m := Nat.pos_of_ne_zero hm
  by_cases he : e ≥ 0
  · rw [if_pos he] at h hex
    dsimp only at h
    have hV : 0 < m * pow2 e.toNat := Nat.mul_pos hm0 (by rw [pow2_eq]; exact Nat.pow_pos (by decide))
    refine shortestFrom_integral _ _ _ _ 20 1 s ?_ ?_ h
    · have := decExp_nonneg (m * pow2 e.toNat) 1 hV (by decide)
      omega
    · simp [backOk, readCand, hex, hV]
  · rw [if_neg he] at h hex
    dsimp only at h
    have hz : m % pow2 (-e).toNat = 0 := hc'.resolve_left he
    have hp : 0 < pow2 (-e).toNat := by rw [pow2_eq]; exact Nat.pow_pos (by decide)
    have hle : pow2 (-e).toNat ≤ m := Nat.le_of_dvd hm0 (Nat.dvd_of_mod_eq_zero hz)
    refine shortestFrom_integral _ _ _ _ 20 1 s ?_ ?_ h
    · have := decExp_nonneg m (pow2 (-e).toNat) hle hp
      omega
    · simp [backOk, readCand, hex, Nat.div_pos hle hp]

/-- the integer value of a decoded finite float (truncated; exact for integral floats) -/
def intVal (m : Nat) (e : Int) : Nat := if e ≥ 0 then m * pow2 e.toNat else m / pow2 (-e).toNat

theorem f64ExactInt_of_decode {b : UInt64} {neg : Bool} {m : Nat} {e : Int}
    (hd : f64Decode b = some (neg, m, e)) :
    f64ExactInt b = some (signStr neg ++ natDigits (intVal m e)) := by
  unfold f64ExactInt
  rw [hd]
  rfl

/-- integral finite floats are printed with all digits of their integer value, then `.0` -/
theorem f64DisplayLisp_integral {b : UInt64} (hi : f64IsIntegral b = true) :
    f64DisplayLisp b = (f64ExactInt b).map (· ++ ".0") := by
  unfold f64DisplayLisp
  rw [if_pos hi]

/-- the other floats (non-integral, infinite, NaN) are printed by `f64Display` -/
theorem f64DisplayLisp_nonintegral {b : UInt64} (hi : f64IsIntegral b = false) :
    f64DisplayLisp b = f64Display b := by
  unfold f64DisplayLisp
  rw [hi]
  rfl

/-- an integral float with decoding `(neg, m, e)` prints as sign, all digits of its integer value,
    `.0` -/
theorem f64DisplayLisp_integral_decode {b : UInt64} {neg : Bool} {m : Nat} {e : Int}
    (hd : f64Decode b = some (neg, m, e)) (hi : f64IsIntegral b = true) :
    f64DisplayLisp b = some (signStr neg ++ natDigits (intVal m e) ++ ".0") := by
  rw [f64DisplayLisp_integral hi, f64ExactInt_of_decode hd]
  rfl

/-- integral floats display as `sign ++ digits ++ ".0"` (all digits of the integer value) -/
theorem f64DisplayLisp_integral_eq (b : UInt64) (s : String) (h : f64DisplayLisp b = some s)
    (hi : f64IsIntegral b = true) :
    ∃ (neg : Bool) (n : Nat), s = signStr neg ++ natDigits n ++ ".0" := by
  obtain ⟨neg, m, e, hd, _⟩ := decode_of_integral hi
  rw [f64DisplayLisp_integral_decode hd hi] at h
  exact ⟨neg, intVal m e, (Option.some.inj h).symm⟩

/-- the printed form of an integral float is `-?digits.0` -/
theorem f64DisplayLisp_integral_shape (b : UInt64) (s : String) (h : f64DisplayLisp b = some s)
    (hi : f64IsIntegral b = true) :
    ∃ (neg : Bool) (n : Nat), s.toList = (if neg then ['-'] else []) ++ Nat.toDigits 10 n ++ ['.', '0'] := by
  obtain ⟨neg, n, rfl⟩ := f64DisplayLisp_integral_eq b s h hi
  refine ⟨neg, n, ?_⟩
  rw [String.toList_append, String.toList_append, signStr_toList, natDigits_toList]
  rfl


/-- an integral float prints as `d.0`, which reads back as one float token with exactly that text,
    and never as an integer token -/
theorem f64DisplayLisp_integral_float (b : UInt64) (s : String) (h : f64DisplayLisp b = some s)
    (hi : f64IsIntegral b = true) :
    (∃ d : String, s = d ++ ".0") ∧ WordOk s.toList ∧ wordTok s.toList = .float s ∧
      ∀ n : Int, wordTok s.toList ≠ .int n := by
  obtain ⟨neg, n, hs⟩ := f64DisplayLisp_integral_shape b s h hi
  obtain ⟨hw, ht⟩ := wordTok_float_shape neg n
  rw [← hs, String.ofList_toList] at ht
  rw [← hs] at hw
  refine ⟨?_, hw, ht, ?_⟩
  · obtain ⟨neg', n', hs'⟩ := f64DisplayLisp_integral_eq b s h hi
    exact ⟨_, hs'⟩
  · intro k hk
    rw [ht] at hk
    cases hk

/-! ## the shortest printer round-trips -/

/-- **Round trip of the shortest printer.**  What `f64ShortestAbs` prints for `b` is the text
    (`renderCand sh c`: the digits of `c` with the point `sh` places from the right, or `c` followed by
    `-sh` zeros) of a positive decimal candidate `c · 10^(-sh)` which the correctly rounded reading
    `ratToF64Abs` maps back to the bits of `b` (sign removed). -/
theorem f64ShortestAbs_roundtrip {b : UInt64} {s : String} (h : f64ShortestAbs b = some s) :
    ∃ (sh : Int) (c : Nat), s = renderCand sh c ∧ 0 < c ∧ readCand sh c = b &&& ~~~signBit := by
  unfold f64ShortestAbs at h
  split at h
  · cases h
  · split at h
    · cases h
    · obtain ⟨q, c, _, _, _, h4, h5, h6, _⟩ := shortestFrom_roundtrip _ _ _ _ _ _ _ h
      exact ⟨_, c, h4, h5, h6⟩

/-- … at the level of `f64Display`: a finite float outside the domain of the exact printer is
    displayed as sign + the text of a decimal candidate that reads back as its bits (sign removed) -/
theorem f64Display_roundtrip {b : UInt64} {t} (hd : f64Decode b = some t)
    (hx : f64ExactDecimal b = none) {s : String} (h : f64Display b = some s) :
    ∃ (sh : Int) (c : Nat), s = signStr (f64IsNeg b) ++ renderCand sh c ∧ 0 < c ∧
      readCand sh c = b &&& ~~~signBit := by
  rw [display_of_decode hd, hx] at h
  cases hy : f64ShortestAbs b with
  | none => rw [hy] at h; cases h
  | some u =>
    rw [hy] at h
    obtain ⟨sh, c, rfl, h2, h3⟩ := f64ShortestAbs_roundtrip hy
    exact ⟨sh, c, (Option.some.inj h).symm, h2, h3⟩

/-! ### examples of the extension (all by kernel evaluation) -/

/-- 0.1 has no short exact expansion; it now prints as `0.1` -/
example : f64ExactDecimal 0x3FB999999999999A = none := by decide
example : f64Display 0x3FB999999999999A = some "0.1" := by decide
/-- -1/3 -/
example : f64Display 0xBFD5555555555555 = some "-0.3333333333333333" := by decide
/-- 2^53 is integral, has 16 digits (outside the exact printer of `{}`), and prints as digits + `.0` -/
example : f64IsIntegral 0x4340000000000000 = true := by decide
example : f64ExactDecimal 0x4340000000000000 = none := by decide
example : f64DisplayLisp 0x4340000000000000 = some "9007199254740992.0" := by decide
/-- -1e16 -/
example : f64DisplayLisp 0xC341C37937E08000 = some "-10000000000000000.0" := by decide
/-- 2^62: all 19 digits of the integer (the shortest round-trip rendering would be 4611686018427388000) -/
example : f64DisplayLisp 0x43D0000000000000 = some "4611686018427387904.0" := by decide
example : f64Display 0x43D0000000000000 = some "4611686018427388000" := by decide
/-- the candidate behind `0.1`: `c = 1` at scale `sh = 1` reads back as the bits of 0.1 -/
example : renderCand 1 1 = "0.1" ∧ readCand 1 1 = 0x3FB999999999999A := by decide

/-! ## non-vacuity: 1.0, -2.0, 0.0 -/

example : f64IsIntegral 0x3FF0000000000000 = true := by decide
example : f64DisplayLisp 0x3FF0000000000000 = some "1.0" := by decide
example : f64IsIntegral 0xC000000000000000 = true := by decide
example : f64DisplayLisp 0xC000000000000000 = some "-2.0" := by decide
example : f64IsIntegral 0 = true := by decide
example : f64DisplayLisp 0 = some "0.0" := by decide
example : f64IsIntegral 0x8000000000000000 = true := by decide
example : f64DisplayLisp 0x8000000000000000 = some "-0.0" := by decide
/-- 0.5 is not integral and prints without the suffix -/
example : f64IsIntegral 0x3FE0000000000000 = false := by decide
example : f64DisplayLisp 0x3FE0000000000000 = some "0.5" := by decide

/-- the theorem instantiated at 1.0: "1.0" reads back as the float token "1.0" -/
example : wordTok "1.0".toList = .float "1.0" :=
  (f64DisplayLisp_integral_float 0x3FF0000000000000 "1.0" (by decide) (by decide)).2.2.1
example : wordTok "-2.0".toList = .float "-2.0" :=
  (f64DisplayLisp_integral_float 0xC000000000000000 "-2.0" (by decide) (by decide)).2.2.1

end Tulisp.C09
