/-
  Proofs/C09Float.lean — C09, float part: an integral float is printed as `-?digits.0`, and such a
  text is one word that the tokenizer classifies as a float token (never as an integer).
-/
import Tulisp.Proofs.C09Lex
import Tulisp.Model.Num
namespace Tulisp.C09
open Tulisp

/-! ## lexical side: `-?digits.0` is a float word -/

theorem digit_ne_of_not_digit {c d : Char} (hc : c.isDigit = true) (hd : d.isDigit = false) : c ≠ d := by
  intro h; subst h; rw [hc] at hd; cases hd

theorem digit_not_break {c : Char} (hc : c.isDigit = true) : isBreak c = false := by
  have h1 : c ≠ ')' := digit_ne_of_not_digit hc (by decide)
  have h2 : c ≠ ' ' := digit_ne_of_not_digit hc (by decide)
  have h3 : c ≠ '\t' := digit_ne_of_not_digit hc (by decide)
  have h4 : c ≠ '\n' := digit_ne_of_not_digit hc (by decide)
  have h5 : c ≠ '\r' := digit_ne_of_not_digit hc (by decide)
  simp [isBreak, h1, h2, h3, h4, h5]

theorem digit_not_special {c : Char} (hc : c.isDigit = true) : isSpecialStart c = false := by
  have h1 : c ≠ ')' := digit_ne_of_not_digit hc (by decide)
  have h2 : c ≠ ' ' := digit_ne_of_not_digit hc (by decide)
  have h3 : c ≠ '\t' := digit_ne_of_not_digit hc (by decide)
  have h4 : c ≠ '\n' := digit_ne_of_not_digit hc (by decide)
  have h5 : c ≠ '\r' := digit_ne_of_not_digit hc (by decide)
  have h6 : c ≠ '(' := digit_ne_of_not_digit hc (by decide)
  have h7 : c ≠ '\'' := digit_ne_of_not_digit hc (by decide)
  have h8 : c ≠ '`' := digit_ne_of_not_digit hc (by decide)
  have h9 : c ≠ '.' := digit_ne_of_not_digit hc (by decide)
  have h10 : c ≠ '#' := digit_ne_of_not_digit hc (by decide)
  have h11 : c ≠ ',' := digit_ne_of_not_digit hc (by decide)
  have h12 : c ≠ '"' := digit_ne_of_not_digit hc (by decide)
  have h13 : c ≠ ';' := digit_ne_of_not_digit hc (by decide)
  simp [isSpecialStart, isWs, h1, h2, h3, h4, h5, h6, h7, h8, h9, h10, h11, h12, h13]

theorem flagStep_digit (fl : Bool × Bool) {c : Char} (hc : c.isDigit = true) : flagStep fl c = fl := by
  have h1 : c ≠ '-' := digit_ne_of_not_digit hc (by decide)
  simp [flagStep, h1, hc]

theorem foldl_flagStep_digits_fl (fl : Bool × Bool) (ds : List Char) (h : ∀ c ∈ ds, c.isDigit = true) :
    ds.foldl flagStep fl = fl := by
  induction ds with
  | nil => rfl
  | cons d ds ih =>
    rw [List.foldl_cons, flagStep_digit fl (h d (by simp))]
    exact ih (fun c hc => h c (by simp [hc]))

theorem flag0_digit {c : Char} (hc : c.isDigit = true) : flag0 c = (true, false) := by
  simp [flag0, hc]

/-- flags after a non-empty digit string followed by `.0`, starting from `(true,false)` -/
theorem foldl_flagStep_tail (ds : List Char) (h : ∀ c ∈ ds, c.isDigit = true) :
    (ds ++ ['.', '0']).foldl flagStep (true, false) = (false, true) := by
  rw [List.foldl_append, foldl_flagStep_digits_fl _ _ h]
  decide

theorem digits_wordOk (ds : List Char) (hne : ds ≠ []) (h : ∀ c ∈ ds, c.isDigit = true) (neg : Bool) :
    WordOk ((if neg then ['-'] else []) ++ ds ++ ['.', '0']) := by
  refine ⟨?_, ?_, ?_⟩
  · cases neg <;> simp [hne]
  · cases neg
    · cases ds with
      | nil => exact absurd rfl hne
      | cons d ds =>
        intro c hc
        simp at hc
        subst hc
        exact digit_not_special (h _ (by simp))
    · intro c hc
      simp at hc
      subst hc
      decide
  · intro c hc
    simp only [List.mem_append] at hc
    rcases hc with (hc | hc) | hc
    · cases neg
      · simp at hc
      · simp at hc; subst hc; decide
    · exact digit_not_break (h c hc)
    · simp at hc
      rcases hc with hc | hc <;> subst hc <;> decide

theorem digits_wordTok (ds : List Char) (hne : ds ≠ []) (h : ∀ c ∈ ds, c.isDigit = true) (neg : Bool) :
    wordTok ((if neg then ['-'] else []) ++ ds ++ ['.', '0']) =
      .float (String.ofList ((if neg then ['-'] else []) ++ ds ++ ['.', '0'])) := by
  cases neg
  · cases ds with
    | nil => exact absurd rfl hne
    | cons d ds =>
      have hd : d.isDigit = true := h d (by simp)
      have hds : ∀ c ∈ ds, c.isDigit = true := fun c hc => h c (by simp [hc])
      simp only [Bool.false_eq_true, if_false, List.nil_append, List.cons_append, wordTok]
      rw [flag0_digit hd, foldl_flagStep_tail ds hds]
      simp [classify, hasDigit, hd]
  · simp only [if_true, List.cons_append, List.nil_append, wordTok]
    have : flag0 '-' = (true, false) := by decide
    rw [this, foldl_flagStep_tail ds h]
    cases ds with
    | nil => exact absurd rfl hne
    | cons d ds =>
      have hd : d.isDigit = true := h d (by simp)
      simp [classify, hasDigit, hd]

theorem wordTok_float_shape (neg : Bool) (n : Nat) :
    let w := (if neg then ['-'] else []) ++ Nat.toDigits 10 n ++ ['.', '0']
    WordOk w ∧ wordTok w = .float (String.ofList w) := by
  intro w
  have hne : Nat.toDigits 10 n ≠ [] := Nat.toDigits_ne_nil
  have hd : ∀ c ∈ Nat.toDigits 10 n, c.isDigit = true := fun c hc => Nat.isDigit_of_mem_toDigits (by decide) (by decide) hc
  exact ⟨digits_wordOk _ hne hd neg, digits_wordTok _ hne hd neg⟩


/-! ## printing side: integral floats print as `-?digits.0` -/

theorem pow2_eq (k : Nat) : pow2 k = 2 ^ k := by
  simp [pow2, Nat.shiftLeft_eq]

theorem frac_zero {m k : Nat} (h : m % pow2 k = 0) : (m * 5 ^ k) % 10 ^ k = 0 := by
  rw [pow2_eq] at h
  obtain ⟨q, rfl⟩ := Nat.dvd_of_mod_eq_zero h
  have : (10 : Nat) ^ k = 2 ^ k * 5 ^ k := by rw [← Nat.mul_pow]
  rw [this, Nat.mul_assoc, Nat.mul_comm q, ← Nat.mul_assoc]
  exact Nat.mul_mod_right _ _

theorem dropWhile_all (p : Char → Bool) (l : List Char) (h : ∀ c ∈ l, p c = true) :
    l.dropWhile p = [] := by
  induction l with
  | nil => rfl
  | cons a l ih =>
    rw [List.dropWhile_cons, if_pos (h a (by simp))]
    exact ih (fun c hc => h c (by simp [hc]))

theorem strip_zeros (l : List Char) (h : ∀ c ∈ l, c = '0') :
    (l.reverse.dropWhile (· == '0')).reverse = [] := by
  rw [List.reverse_eq_nil_iff]
  apply dropWhile_all
  intro c hc
  rw [List.mem_reverse] at hc
  simp [h c hc]

theorem natDigits_toList (n : Nat) : (natDigits n).toList = Nat.toDigits 10 n := by
  simp [natDigits]

theorem natDigits_zero_toList : (natDigits 0).toList = ['0'] := by
  rw [natDigits_toList]; decide

/-- the stripped fractional digits are empty when the fractional part is `0` -/
theorem frac_strip (k : Nat) :
    ((String.ofList (List.replicate (k - (natDigits 0).length) '0') ++ natDigits 0).toList.reverse.dropWhile
        (· == '0')).reverse = [] := by
  apply strip_zeros
  intro c hc
  rw [String.toList_append, String.toList_ofList, natDigits_zero_toList] at hc
  simp at hc
  rcases hc with hc | hc
  · exact hc.2
  · exact hc

/-- decode succeeds for integral floats -/
theorem decode_of_integral {b : UInt64} (hi : f64IsIntegral b = true) :
    ∃ neg m e, f64Decode b = some (neg, m, e) ∧ (m = 0 ∨ e ≥ 0 ∨ m % pow2 (-e).toNat = 0) := by
  unfold f64IsIntegral at hi
  cases hd : f64Decode b with
  | none => rw [hd] at hi; cases hi
  | some t =>
    obtain ⟨neg, m, e⟩ := t
    rw [hd] at hi
    refine ⟨neg, m, e, rfl, ?_⟩
    simpa [or_assoc] using hi

theorem expField_ne {b : UInt64} {t} (hd : f64Decode b = some t) :
    (((b >>> 52) &&& 0x7FF) == 0x7FF) = false := by
  cases hx : (((b >>> 52) &&& 0x7FF) == 0x7FF) with
  | false => rfl
  | true =>
    have hx' : ((b >>> 52) &&& 0x7FF) = 0x7FF := by simpa using hx
    unfold f64Decode at hd
    rw [hx'] at hd
    simp at hd

theorem display_of_decode {b : UInt64} {t} (hd : f64Decode b = some t) :
    f64Display b = f64ExactDecimal b := by
  have := expField_ne hd
  simp [f64Display, f64IsNaN, f64IsInf, this]


theorem ite_none_some {α : Type} {c : Prop} [Decidable c] {x : Option α} {s : α}
    (h : (if c then none else x) = some s) : x = some s := by
  split at h
  · cases h
  · exact h

/-- the sign prefix -/
def signStr (neg : Bool) : String := if neg then "-" else ""

theorem exactDecimal_integral {b : UInt64} {neg : Bool} {m : Nat} {e : Int} {s : String}
    (hd : f64Decode b = some (neg, m, e)) (hc : m = 0 ∨ e ≥ 0 ∨ m % pow2 (-e).toNat = 0)
    (h : f64ExactDecimal b = some s) : ∃ n : Nat, s = signStr neg ++ natDigits n := by
  unfold f64ExactDecimal at h
  rw [hd] at h
  dsimp only at h
  by_cases hm : m = 0
  · rw [if_pos hm] at h
    refine ⟨0, ?_⟩
    injection h with h
    rw [← h]; rfl
  · rw [if_neg hm] at h
    by_cases he : e ≥ 0
    · rw [if_pos he] at h
      split at h
      · cases h
      · split at h
        · injection h with h
          exact ⟨_, h.symm⟩
        · cases h
    · rw [if_neg he] at h
      have hz : m % pow2 (-e).toNat = 0 := by
        rcases hc with hc | hc | hc
        · exact absurd hc hm
        · exact absurd hc he
        · exact hc
      rw [frac_zero hz, frac_strip] at h
      have h1 := ite_none_some h
      simp only [List.isEmpty_nil, if_true] at h1
      have h2 := ite_none_some h1
      exact ⟨_, (Option.some.inj h2).symm⟩


theorem signStr_toList (neg : Bool) : (signStr neg).toList = if neg then ['-'] else [] := by
  cases neg <;> rfl

/-- integral floats display as `sign ++ digits ++ ".0"` -/
theorem f64DisplayLisp_integral_eq (b : UInt64) (s : String) (h : f64DisplayLisp b = some s)
    (hi : f64IsIntegral b = true) :
    ∃ (neg : Bool) (n : Nat), s = signStr neg ++ natDigits n ++ ".0" := by
  obtain ⟨neg, m, e, hd, hc⟩ := decode_of_integral hi
  unfold f64DisplayLisp at h
  rw [display_of_decode hd, hi] at h
  cases hx : f64ExactDecimal b with
  | none => rw [hx] at h; cases h
  | some t =>
    rw [hx] at h
    obtain ⟨n, rfl⟩ := exactDecimal_integral hd hc hx
    simp only [if_true] at h
    exact ⟨neg, n, (Option.some.inj h).symm⟩

/-- the printed form of an integral float is `-?digits.0` -/
theorem f64DisplayLisp_integral_shape (b : UInt64) (s : String) (h : f64DisplayLisp b = some s)
    (hi : f64IsIntegral b = true) :
    ∃ (neg : Bool) (n : Nat), s.toList = (if neg then ['-'] else []) ++ Nat.toDigits 10 n ++ ['.', '0'] := by
  obtain ⟨neg, n, rfl⟩ := f64DisplayLisp_integral_eq b s h hi
  refine ⟨neg, n, ?_⟩
  rw [String.toList_append, String.toList_append, signStr_toList, natDigits_toList]
  rfl


/-- an integral float prints as `d.0`, which reads back as one float token with exactly that text,
    and never as an integer token -/
theorem f64DisplayLisp_integral_float (b : UInt64) (s : String) (h : f64DisplayLisp b = some s)
    (hi : f64IsIntegral b = true) :
    (∃ d : String, s = d ++ ".0") ∧ WordOk s.toList ∧ wordTok s.toList = .float s ∧
      ∀ n : Int, wordTok s.toList ≠ .int n := by
  obtain ⟨neg, n, hs⟩ := f64DisplayLisp_integral_shape b s h hi
  obtain ⟨hw, ht⟩ := wordTok_float_shape neg n
  rw [← hs, String.ofList_toList] at ht
  rw [← hs] at hw
  refine ⟨?_, hw, ht, ?_⟩
  · obtain ⟨neg', n', hs'⟩ := f64DisplayLisp_integral_eq b s h hi
    exact ⟨_, hs'⟩
  · intro k hk
    rw [ht] at hk
    cases hk

/-! ## non-vacuity: 1.0, -2.0, 0.0 -/

example : f64IsIntegral 0x3FF0000000000000 = true := by decide
example : f64DisplayLisp 0x3FF0000000000000 = some "1.0" := by decide
example : f64IsIntegral 0xC000000000000000 = true := by decide
example : f64DisplayLisp 0xC000000000000000 = some "-2.0" := by decide
example : f64IsIntegral 0 = true := by decide
example : f64DisplayLisp 0 = some "0.0" := by decide
example : f64IsIntegral 0x8000000000000000 = true := by decide
example : f64DisplayLisp 0x8000000000000000 = some "-0.0" := by decide
/-- 0.5 is not integral and prints without the suffix -/
example : f64IsIntegral 0x3FE0000000000000 = false := by decide
example : f64DisplayLisp 0x3FE0000000000000 = some "0.5" := by decide

/-- the theorem instantiated at 1.0: "1.0" reads back as the float token "1.0" -/
example : wordTok "1.0".toList = .float "1.0" :=
  (f64DisplayLisp_integral_float 0x3FF0000000000000 "1.0" (by decide) (by decide)).2.2.1
example : wordTok "-2.0".toList = .float "-2.0" :=
  (f64DisplayLisp_integral_float 0xC000000000000000 "-2.0" (by decide) (by decide)).2.2.1

end Tulisp.C09
