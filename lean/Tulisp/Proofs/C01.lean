/-
  Proofs/C01.lean — definitions and helper lemmas for property C01 (core evaluation semantics).

  * specification-side definitions: `eraseIds`, `prognSpec`, `evalSeq`, `letVars`;
  * inversion lemmas for the monad `M`, `onFail`, `M.finally'`;
  * run lemmas of the symbol operations on a context (`symD_modSym`, `setV_run`, …);
  * lemmas about `SymSt.setGlobal`;
  * induction proofs for `evalProgn`, `letBind`, `whileLoop`, `dolistLoop`, `dotimesLoop`;
  * PART B: the deep-binding store `Deep`, the abstraction `absStack`, the commutation lemmas
    and the refinement of operation sequences (on an abstract store `Nat → SymSt` and on `Ctx`).
-/
import Tulisp.Proofs.C12
import Tulisp.Model.Load
namespace Tulisp.C01
open Tulisp

/-! ## identities -/

/-- Set every allocation identity (of cons cells, strings, closures) to 0.  The `id` of a hash table
    is kept: it is the address of the table in `Ctx.tables`, not an identity that can be ignored. -/
def eraseIds : Val → Val
  | .str _ s => .str 0 s
  | .cons _ a d => .cons 0 (eraseIds a) (eraseIds d)
  | .quote v => .quote (eraseIds v)
  | .backquote v => .backquote (eraseIds v)
  | .unquote v => .unquote (eraseIds v)
  | .splice v => .splice (eraseIds v)
  | .lambda _ ps b => .lambda 0 ps (eraseIds b)
  | .defmacro _ ps b => .defmacro 0 ps (eraseIds b)
  | v => v

/-! ## the monad: inversion and run lemmas -/

theorem bind_run {α β} (m : M α) (f : α → M β) (c : Ctx) :
    (m >>= f) c = match m c with
      | (.ok a, c') => f a c'
      | (.err k, c') => (.err k, c')
      | (.panic s, c') => (.panic s, c')
      | (.fuel, c') => (.fuel, c') := rfl

theorem bind_ok_inv {α β} {m : M α} {f : α → M β} {c c' : Ctx} {b : β}
    (h : (m >>= f) c = (.ok b, c')) : ∃ a c1, m c = (.ok a, c1) ∧ f a c1 = (.ok b, c') := by
  rw [bind_run] at h
  rcases hm : m c with ⟨res, c1⟩
  rw [hm] at h
  cases res with
  | ok a => exact ⟨a, c1, rfl, h⟩
  | err k => simp at h
  | panic s => simp at h
  | fuel => simp at h

theorem bind_panic {α β} {m : M α} {c c' : Ctx} {s : String} (f : α → M β)
    (h : m c = (.panic s, c')) : (m >>= f) c = (.panic s, c') := by
  rw [bind_run, h]

theorem bind_fuel {α β} {m : M α} {c c' : Ctx} (f : α → M β)
    (h : m c = (.fuel, c')) : (m >>= f) c = (.fuel, c') := by
  rw [bind_run, h]

/-- outcome of a computation that did not deliver a value, at another result type -/
def resCast {α β} : Res α → Res β
  | .ok _ => .fuel
  | .err k => .err k
  | .panic s => .panic s
  | .fuel => .fuel

def resOk {α} : Res α → Bool
  | .ok _ => true
  | _ => false

/-- a failing first computation stops the sequence: the continuation is not run -/
theorem bind_fail {α β} {m : M α} {c c' : Ctx} {res : Res α} (f : α → M β)
    (h : m c = (res, c')) (hr : resOk res = false) : (m >>= f) c = (resCast res, c') := by
  rw [bind_run, h]
  cases res <;> first | rfl | simp [resOk] at hr

theorem onFail_ok {α} {m : M α} {cl : Ctx → Ctx} {c c' : Ctx} {a : α} (h : m c = (.ok a, c')) :
    onFail m cl c = (.ok a, c') := by
  simp only [onFail, h]

theorem onFail_fail {α} {m : M α} {cl : Ctx → Ctx} {c c' : Ctx} {res : Res α} (h : m c = (res, c'))
    (hr : resOk res = false) : onFail m cl c = (res, cl c') := by
  simp only [onFail, h]
  cases res <;> first | rfl | simp [resOk] at hr

theorem onFail_ok_inv {α} {m : M α} {cl : Ctx → Ctx} {c c' : Ctx} {a : α}
    (h : onFail m cl c = (.ok a, c')) : m c = (.ok a, c') := by
  rcases hm : m c with ⟨res, c1⟩
  cases res with
  | ok b => rw [onFail_ok hm] at h; exact h
  | err k => rw [onFail_fail hm rfl] at h; simp at h
  | panic s => rw [onFail_fail hm rfl] at h; simp at h
  | fuel => rw [onFail_fail hm rfl] at h; simp at h

theorem onFail_throw {α} (k : ErrKind) (cl : Ctx → Ctx) (c : Ctx) :
    onFail (M.throw k : M α) cl c = (.err k, cl c) := rfl

theorem finally_run {α} (m : M α) (fin : Ctx → Ctx) (c : Ctx) :
    M.finally' m fin c = ((m c).1, fin (m c).2) := rfl

/-! ## symbol operations on a context -/

theorem symD_modSym (c : Ctx) (n : Nat) (f : SymSt → SymSt) (m : Nat) (h : n < c.syms.size) :
    (c.modSym n f).symD m = if m = n then f (c.symD n) else c.symD m := by
  unfold Ctx.symD Ctx.modSym
  simp only [Array.getD_eq_getD_getElem?, Array.getElem?_modify]
  by_cases hm : m = n
  · subst hm
    simp [h]
  · have : ¬ n = m := fun e => hm e.symm
    simp [hm, this]

theorem size_modSym (c : Ctx) (n : Nat) (f : SymSt → SymSt) :
    (c.modSym n f).syms.size = c.syms.size := by
  simp [Ctx.modSym]

theorem notConstant_run {c : Ctx} {n : Nat} (h : (c.symD n).constant = false) :
    notConstant n c = (.ok (), c) := by
  simp [notConstant, h]

theorem notConstant_const {c : Ctx} {n : Nat} (h : (c.symD n).constant = true) :
    notConstant n c = (.err .undefined, c) := by
  simp [notConstant, h]

theorem setV_run {c : Ctx} {n : Nat} (v : Val) (h : (c.symD n).constant = false) :
    setV (.sym n) v c = (.ok (), c.modSym n (·.set v)) := by
  show (notConstant n >>= fun _ => M.modify (·.modSym n (·.set v))) c = _
  rw [C12.bind_ok _ (notConstant_run h)]; rfl

theorem setGlobalV_run {c : Ctx} {n : Nat} (v : Val) (h : (c.symD n).constant = false) :
    setGlobalV (.sym n) v c = (.ok (), c.modSym n (·.setGlobal v)) := by
  show (notConstant n >>= fun _ => M.modify (·.modSym n (·.setGlobal v))) c = _
  rw [C12.bind_ok _ (notConstant_run h)]; rfl

theorem pushV_run {c : Ctx} {n : Nat} (v : Val) (h : (c.symD n).constant = false) :
    pushV (.sym n) v c = (.ok (), c.modSym n (·.push v)) := by
  show (notConstant n >>= fun _ => M.modify (·.modSym n (·.push v))) c = _
  rw [C12.bind_ok _ (notConstant_run h)]; rfl

theorem setV_const {c : Ctx} {n : Nat} (v : Val) (h : (c.symD n).constant = true) :
    setV (.sym n) v c = (.err .undefined, c) := by
  show (notConstant n >>= fun _ => M.modify (·.modSym n (·.set v))) c = _
  rw [C12.bind_err _ (notConstant_const h)]

theorem popV_run {c : Ctx} {n : Nat} {s' : SymSt} (h : (c.symD n).pop = some s') :
    popV (.sym n) c = (.ok (), c.modSym n (fun _ => s')) := by
  simp [popV, h]

theorem popV_empty {c : Ctx} {n : Nat} (h : (c.symD n).pop = none) :
    popV (.sym n) c = (.err .uninitialized, c) := by
  simp [popV, h]

theorem getSym_const {c : Ctx} {n : Nat} (h : (c.symD n).constant = true) :
    getSym n c = (.ok (.sym n), c) := by
  simp [getSym, h]

theorem getSym_var {c : Ctx} {n : Nat} (h : (c.symD n).constant = false) :
    getSym n c = (match (c.symD n).get with
      | some v => (.ok v, c)
      | none => (.err .typeMismatch, c)) := by
  simp only [getSym, h]
  rfl

/-! ## `SymSt` -/

/-- what the binding discipline observes of a symbol: its value stack and the global flag -/
def view (s : SymSt) : List Val × Bool := (s.items, s.hasGlobal)

/-- the local (non-global) bindings of a symbol, innermost first -/
def localsOf (s : SymSt) : List Val :=
  if s.hasGlobal && !s.items.isEmpty then s.items.dropLast else s.items

theorem replaceLast_eq (xs : List Val) (v : Val) (h : xs ≠ []) :
    SymSt.replaceLast xs v = xs.dropLast ++ [v] := by
  induction xs with
  | nil => exact absurd rfl h
  | cons x xs ih =>
    cases xs with
    | nil => rfl
    | cons y ys =>
      have := ih (by simp)
      simp only [SymSt.replaceLast, List.dropLast_cons_cons, List.cons_append, this]

theorem setGlobal_items (s : SymSt) (v : Val) : (s.setGlobal v).items = localsOf s ++ [v] := by
  unfold SymSt.setGlobal localsOf
  by_cases h : (s.hasGlobal && !s.items.isEmpty) = true
  · simp only [h, if_true]
    have hne : s.items ≠ [] := by
      intro e; simp [e] at h
    exact replaceLast_eq _ _ hne
  · simp only [h]
    rfl

theorem setGlobal_hasGlobal (s : SymSt) (v : Val) : (s.setGlobal v).hasGlobal = true := by
  unfold SymSt.setGlobal
  by_cases h : (s.hasGlobal && !s.items.isEmpty) = true
  · simp only [h, if_true]
    simp only [Bool.and_eq_true] at h
    exact h.1
  · simp only [h]
    rfl

/-! ## progn -/

/-- `progn` on a Lean list of forms -/
def prognSpec (r : Rec) : List Val → M Val
  | [] => pure .nil
  | [a] => r.eval a
  | a :: b :: rest => r.eval a >>= fun _ => prognSpec r (b :: rest)

/-- evaluate forms left to right for effect -/
def evalSeq (r : Rec) : List Val → M Unit
  | [] => pure ()
  | a :: rest => r.eval a >>= fun _ => evalSeq r rest

theorem prognSpec_cons (r : Rec) (a : Val) {rest : List Val} (h : rest ≠ []) :
    prognSpec r (a :: rest) = r.eval a >>= fun _ => prognSpec r rest := by
  cases rest with
  | nil => exact absurd rfl h
  | cons b rest => rfl

theorem evalProgn_eq_elems (r : Rec) (v : Val) : evalProgn r v = prognSpec r v.elems := by
  induction v with
  | cons i a d _ ihd =>
    cases d with
    | cons j b rest =>
      rw [evalProgn]
      simp only [Val.elems] at ihd ⊢
      rw [prognSpec, ihd]
    | _ => rfl
  | _ => rfl

theorem prognSpec_append (r : Rec) (xs : List Val) {ys : List Val} (h : ys ≠ []) :
    prognSpec r (xs ++ ys) = evalSeq r xs >>= fun _ => prognSpec r ys := by
  induction xs with
  | nil => rfl
  | cons a xs ih =>
    have hne : xs ++ ys ≠ [] := by simp [h]
    rw [List.cons_append, prognSpec_cons r a hne, ih, evalSeq, bind_assoc]

/-! ## let -/

/-- the variables of a `let` variable list, in order -/
def letVars : Val → List Nat
  | .cons _ item rest =>
    match item with
    | .sym n => n :: letVars rest
    | .cons _ (.sym n) _ => n :: letVars rest
    | _ => letVars rest
  | _ => []

theorem pushV_nonsym_fail (name v : Val) (h : name.isSym = false) (c : Ctx) :
    pushV name v c = (.err .typeMismatch, c) := by
  cases name <;> first | rfl | simp [Val.isSym] at h

/-- the value form of a binding `(name . irest)`: `(x v)` ↦ `v`, `(x)` ↦ `nil` -/
def letValForm (irest : Val) : Val := match irest with | .cons _ v _ => v | _ => .nil
/-- what follows the value form in a binding (must be nil) -/
def letExtra (irest : Val) : Val := match irest with | .cons _ _ e => e | _ => .nil
/-- a dotted binding `(x . 5)` -/
def letMalformed (irest : Val) : Bool := match irest with | .cons .. => false | .nil => false | _ => true

theorem letBind_pair (r : Rec) (i j : Nat) (name irest rest : Val) (done : List Nat) :
    letBind r (.cons i (.cons j name irest) rest) done =
      if letMalformed irest then onFail (M.throw .typeMismatch) (fun c => done.foldl popSymCtx c)
      else if name.isNil then onFail (M.throw .undefined) (fun c => done.foldl popSymCtx c)
      else if !(letExtra irest).isNil then onFail (M.throw .undefined) (fun c => done.foldl popSymCtx c)
      else
        onFail (r.eval (letValForm irest)) (fun c => done.foldl popSymCtx c) >>= fun v =>
        onFail (pushV name v) (fun c => done.foldl popSymCtx c) >>= fun _ =>
        match name with
        | .sym n => letBind r rest (n :: done)
        | _ => letBind r rest done := by
  cases irest <;> rfl

/-- when `letBind` succeeds, the list it returns is exactly the variables of the variable list,
    last bound first, on top of what was passed in -/
theorem letBind_done (r : Rec) (vl : Val) : ∀ (done : List Nat) (c : Ctx) (d' : List Nat) (c' : Ctx),
    letBind r vl done c = (.ok d', c') → d' = (letVars vl).reverse ++ done := by
  induction vl with
  | cons i item rest _ ihr =>
    intro done c d' c' h
    cases item with
    | sym n =>
      rw [letBind] at h
      obtain ⟨_, c1, _, h2⟩ := bind_ok_inv h
      have := ihr _ _ _ _ h2
      simp [letVars, this]
    | cons j name irest =>
      rw [letBind_pair] at h
      split at h
      · rw [onFail_throw] at h; simp at h
      · split at h
        · rw [onFail_throw] at h; simp at h
        · split at h
          · rw [onFail_throw] at h; simp at h
          · obtain ⟨v, c1, _, h2⟩ := bind_ok_inv h
            obtain ⟨_, c2, h3, h4⟩ := bind_ok_inv h2
            cases name with
            | sym n =>
              have := ihr _ _ _ _ h4
              simp [letVars, this]
            | _ =>
              have h5 := onFail_ok_inv h3
              rw [pushV_nonsym_fail _ _ rfl] at h5
              simp at h5
    | _ =>
      have h' : onFail (M.throw .syntaxError : M (List Nat)) (fun c => done.foldl popSymCtx c) c
          = (.ok d', c') := h
      rw [onFail_throw] at h'
      simp at h'
  | _ =>
    intro done c d' c' h
    have h' : ((.ok done, c) : Res (List Nat) × Ctx) = (.ok d', c') := h
    injection h' with h1 _
    injection h1 with h1
    simp [letVars, ← h1]

/-! ## loops -/

/-- `while` can only deliver nil, and it stops right after a test that came out nil -/
theorem whileLoop_exit (r : Rec) (cond body : Val) : ∀ (k : Nat) (c c' : Ctx) (v : Val),
    whileLoop r cond body k c = (.ok v, c') →
      v = .nil ∧ ∃ c1, r.eval cond c1 = (.ok .nil, c') := by
  intro k
  induction k with
  | zero =>
    intro c c' v h
    have h' : ((.fuel, c) : Res Val × Ctx) = (.ok v, c') := h
    simp at h'
  | succ k ih =>
    intro c c' v h
    rw [whileLoop] at h
    obtain ⟨cv, c1, h1, h2⟩ := bind_ok_inv h
    by_cases hcv : cv.isNil = true
    · simp only [hcv, if_true] at h2
      have h2' : ((.ok .nil, c1) : Res Val × Ctx) = (.ok v, c') := h2
      injection h2' with ha hb
      injection ha with ha
      subst hb
      refine ⟨ha.symm, c, ?_⟩
      cases cv <;> first | exact h1 | simp [Val.isNil] at hcv
    · simp only [hcv] at h2
      obtain ⟨_, c2, _, h4⟩ := bind_ok_inv h2
      exact ih _ _ _ h4

theorem carV_of_proper {d : Val} (h : d.spine.2 = .nil) : ∃ x, carV d = .ok x := by
  cases d with
  | cons i a d => exact ⟨a, rfl⟩
  | nil => exact ⟨.nil, rfl⟩
  | _ => simp [Val.spine] at h

/-- If every evaluation of the body succeeds and advances an observer `cnt` of the state by one
    (under an invariant `I` that the assignment of the loop variable preserves), `dolist` over a
    proper list advances it by the length of the list: the body runs once per element. -/
theorem dolistLoop_count (r : Rec) (n : Nat) (body : Val) (cnt : Ctx → Nat) (I : Ctx → Prop)
    (hbody : ∀ c, I c → ∃ v c', evalProgn r body c = (.ok v, c') ∧ I c' ∧ cnt c' = cnt c + 1)
    (hset : ∀ c v, I c → I (c.modSym n (·.set v)) ∧ cnt (c.modSym n (·.set v)) = cnt c)
    (l : Val) : l.spine.2 = .nil → ∀ c, I c →
      ∃ c', dolistLoop r n body l c = (.ok (), c') ∧ I c' ∧ cnt c' = cnt c + l.len := by
  induction l with
  | cons i a d _ ihd =>
    intro hl c hc
    have hd : d.spine.2 = .nil := by simpa [Val.spine] using hl
    obtain ⟨x, hx⟩ := carV_of_proper hd
    obtain ⟨v, c1, hb, hI1, hc1⟩ := hbody c hc
    obtain ⟨hI2, hc2⟩ := hset c1 x hI1
    obtain ⟨c3, h3, hI3, hc3⟩ := ihd hd _ hI2
    refine ⟨c3, ?_, hI3, ?_⟩
    · rw [dolistLoop, C12.bind_ok _ hb, hx]
      exact h3
    · rw [hc3, hc2, hc1]
      simp only [Val.len]
      omega
  | nil => intro _ c hc; exact ⟨c, rfl, hc, rfl⟩
  | _ => intro hl; simp [Val.spine] at hl

/-- `dotimes` runs the body `count - i` times from index `i` (budget permitting). -/
theorem dotimesLoop_count (r : Rec) (n : Nat) (body : Val) (cnt : Ctx → Nat) (I : Ctx → Prop)
    (hbody : ∀ c, I c → ∃ v c', evalProgn r body c = (.ok v, c') ∧ I c' ∧ cnt c' = cnt c + 1)
    (hset : ∀ c v, I c → I (c.modSym n (·.set v)) ∧ cnt (c.modSym n (·.set v)) = cnt c)
    (count : Int) : ∀ (k : Nat) (i : Int) (c : Ctx), i ≤ count → count - i < k → I c →
      ∃ c', dotimesLoop r n body count k i c = (.ok (), c') ∧ I c' ∧
        cnt c' = cnt c + (count - i).toNat := by
  intro k
  induction k with
  | zero => intro i c h1 h2; omega
  | succ k ih =>
    intro i c h1 h2 hc
    rw [dotimesLoop]
    by_cases hi : i ≥ count
    · simp only [hi, if_true]
      refine ⟨c, rfl, hc, ?_⟩
      have : count - i = 0 := by omega
      simp [this]
    · simp only [hi, if_false]
      obtain ⟨hI1, hc1⟩ := hset c (.int i) hc
      obtain ⟨v, c2, hb, hI2, hc2⟩ := hbody _ hI1
      obtain ⟨c3, h3, hI3, hc3⟩ := ih (i + 1) c2 (by omega) (by omega) hI2
      refine ⟨c3, ?_, hI3, ?_⟩
      · have hm : (M.modify (·.modSym n (·.set (.int i))) : M Unit) c
            = (.ok (), c.modSym n (·.set (.int i))) := rfl
        rw [C12.bind_ok _ hm, C12.bind_ok _ hb]
        exact h3
      · rw [hc3, hc2, hc1]
        have : (count - i).toNat = (count - (i + 1)).toNat + 1 := by omega
        omega

/-! ## PART B: deep binding -/

/-- The textbook store of a dynamically scoped Lisp: one association stack of bindings
    (innermost first) and a table of global values. -/
structure Deep where
  stack : List (Nat × Val)
  globals : Nat → Option Val

namespace Deep

/-- the innermost binding of `x` on the stack, else its global value -/
def lookup (d : Deep) (x : Nat) : Option Val :=
  match d.stack.find? (fun p => p.1 == x) with
  | some p => some p.2
  | none => d.globals x

def hasBinding (d : Deep) (x : Nat) : Bool := d.stack.any (fun p => p.1 == x)

def bind (d : Deep) (x : Nat) (v : Val) : Deep := { d with stack := (x, v) :: d.stack }

/-- remove the innermost binding of `x` -/
def unbindL (x : Nat) : List (Nat × Val) → List (Nat × Val)
  | [] => []
  | p :: ps => if p.1 == x then ps else p :: unbindL x ps

/-- replace the value of the innermost binding of `x` -/
def assignL (x : Nat) (v : Val) : List (Nat × Val) → List (Nat × Val)
  | [] => []
  | p :: ps => if p.1 == x then (x, v) :: ps else p :: assignL x v ps

def unbind (d : Deep) (x : Nat) : Deep := { d with stack := unbindL x d.stack }

def setGlobal (d : Deep) (x : Nat) (v : Val) : Deep :=
  { d with globals := fun y => if y = x then some v else d.globals y }

/-- `setq`: the innermost binding if there is one, else the global value -/
def assign (d : Deep) (x : Nat) (v : Val) : Deep :=
  if d.hasBinding x then { d with stack := assignL x v d.stack } else d.setGlobal x v

end Deep

/-- the values of the bindings of `x` on an association stack, innermost first -/
def bindingsOf (x : Nat) : List (Nat × Val) → List Val
  | [] => []
  | p :: ps => if p.1 == x then p.2 :: bindingsOf x ps else bindingsOf x ps

/-- The abstraction function: what the shallow-binding value stack of symbol `x` must contain
    for the deep store `d` — the values of the bindings of `x`, innermost first, followed by the
    global value if there is one; and whether there is a global value. -/
def absStack (d : Deep) (x : Nat) : List Val × Bool :=
  (bindingsOf x d.stack ++ (d.globals x).toList, (d.globals x).isSome)

/-- the canonical `SymSt` with a given view -/
def mkSym (p : List Val × Bool) : SymSt := { name := "", hasGlobal := p.2, items := p.1 }

theorem view_mkSym (p : List Val × Bool) : view (mkSym p) = p := rfl

/-! ### association-list lemmas -/

theorem bindingsOf_nil_iff (x : Nat) (st : List (Nat × Val)) :
    bindingsOf x st = [] ↔ st.any (fun p => p.1 == x) = false := by
  induction st with
  | nil => simp [bindingsOf]
  | cons p ps ih =>
    by_cases h : (p.1 == x) = true
    · simp [bindingsOf, h]
    · simp [bindingsOf, h, ih]

theorem head_bindingsOf (x : Nat) (st : List (Nat × Val)) :
    (bindingsOf x st).head? = (st.find? (fun p => p.1 == x)).map (·.2) := by
  induction st with
  | nil => rfl
  | cons p ps ih =>
    by_cases h : (p.1 == x) = true
    · simp [bindingsOf, h]
    · simp [bindingsOf, h, ih]

theorem bindingsOf_unbindL_same (x : Nat) (st : List (Nat × Val)) :
    bindingsOf x (Deep.unbindL x st) = (bindingsOf x st).tail := by
  induction st with
  | nil => rfl
  | cons p ps ih =>
    by_cases h : (p.1 == x) = true
    · simp [bindingsOf, Deep.unbindL, h]
    · simp [bindingsOf, Deep.unbindL, h, ih]

theorem bindingsOf_unbindL_other {x y : Nat} (hxy : y ≠ x) (st : List (Nat × Val)) :
    bindingsOf y (Deep.unbindL x st) = bindingsOf y st := by
  induction st with
  | nil => rfl
  | cons p ps ih =>
    by_cases h : (p.1 == x) = true
    · have hy : (p.1 == y) = false := by
        simp only [beq_iff_eq] at h
        simp only [beq_eq_false_iff_ne, h]
        exact fun e => hxy e.symm
      simp [bindingsOf, Deep.unbindL, h, hy]
    · by_cases hy : (p.1 == y) = true
      · simp [bindingsOf, Deep.unbindL, h, hy, ih]
      · simp [bindingsOf, Deep.unbindL, h, hy, ih]

theorem bindingsOf_assignL_same (x : Nat) (v : Val) (st : List (Nat × Val)) :
    bindingsOf x (Deep.assignL x v st) =
      (match bindingsOf x st with | [] => [] | _ :: rest => v :: rest) := by
  induction st with
  | nil => rfl
  | cons p ps ih =>
    by_cases h : (p.1 == x) = true
    · simp [bindingsOf, Deep.assignL, h]
    · simp [bindingsOf, Deep.assignL, h, ih]

theorem bindingsOf_assignL_other {x y : Nat} (hxy : y ≠ x) (v : Val) (st : List (Nat × Val)) :
    bindingsOf y (Deep.assignL x v st) = bindingsOf y st := by
  induction st with
  | nil => rfl
  | cons p ps ih =>
    by_cases h : (p.1 == x) = true
    · have hy : (p.1 == y) = false := by
        simp only [beq_iff_eq] at h
        simp only [beq_eq_false_iff_ne, h]
        exact fun e => hxy e.symm
      have hy' : (x == y) = false := by
        simp only [beq_eq_false_iff_ne]; exact fun e => hxy e.symm
      simp [bindingsOf, Deep.assignL, h, hy, hy']
    · by_cases hy : (p.1 == y) = true
      · simp [bindingsOf, Deep.assignL, h, hy, ih]
      · simp [bindingsOf, Deep.assignL, h, hy, ih]

/-! ### commutation of the `SymSt` operations with the deep-binding operations

Relational form: `s` is *any* symbol state whose view is the abstraction of `d` at `x`
(so the lemmas apply to the symbol table of a context, whatever the names are). -/

theorem view_split {s : SymSt} {d : Deep} {x : Nat} (h : view s = absStack d x) :
    s.items = bindingsOf x d.stack ++ (d.globals x).toList ∧ s.hasGlobal = (d.globals x).isSome :=
  ⟨congrArg Prod.fst h, congrArg Prod.snd h⟩

theorem get_refines {s : SymSt} {d : Deep} {x : Nat} (h : view s = absStack d x) :
    s.get = d.lookup x := by
  obtain ⟨hi, _⟩ := view_split h
  unfold SymSt.get Deep.lookup
  rw [hi]
  have hh := head_bindingsOf x d.stack
  cases hf : d.stack.find? (fun p => p.1 == x) with
  | some p =>
    rw [hf] at hh
    cases hb : bindingsOf x d.stack with
    | nil => rw [hb] at hh; simp at hh
    | cons b bs => rw [hb] at hh; simpa using hh
  | none =>
    rw [hf] at hh
    cases hb : bindingsOf x d.stack with
    | nil => cases d.globals x <;> rfl
    | cons b bs => rw [hb] at hh; simp at hh

theorem push_refines {s : SymSt} {d : Deep} {x : Nat} (v : Val) (h : view s = absStack d x) :
    view (s.push v) = absStack (d.bind x v) x := by
  obtain ⟨hi, hg⟩ := view_split h
  simp [view, absStack, SymSt.push, Deep.bind, bindingsOf, hi, hg]

theorem absStack_bind_other {x y : Nat} (hxy : y ≠ x) (d : Deep) (v : Val) :
    absStack (d.bind x v) y = absStack d y := by
  have : (x == y) = false := by simp only [beq_eq_false_iff_ne]; exact fun e => hxy e.symm
  simp [absStack, Deep.bind, bindingsOf, this]

theorem pop_refines {s : SymSt} {d : Deep} {x : Nat} (h : view s = absStack d x)
    (hb : d.hasBinding x = true) :
    ∃ s', s.pop = some s' ∧ view s' = absStack (d.unbind x) x ∧
      s'.name = s.name ∧ s'.constant = s.constant ∧ s'.base = s.base := by
  obtain ⟨hi, hg⟩ := view_split h
  cases hbs : bindingsOf x d.stack with
  | nil =>
    rw [bindingsOf_nil_iff] at hbs
    rw [Deep.hasBinding, hbs] at hb
    simp at hb
  | cons b bs =>
    rw [hbs] at hi
    refine ⟨{ s with items := bs ++ (d.globals x).toList }, ?_, ?_, rfl, rfl, rfl⟩
    · simp [SymSt.pop, hi]
    · simp [view, absStack, Deep.unbind, bindingsOf_unbindL_same, hbs, hg]

theorem absStack_unbind_other {x y : Nat} (hxy : y ≠ x) (d : Deep) :
    absStack (d.unbind x) y = absStack d y := by
  simp [absStack, Deep.unbind, bindingsOf_unbindL_other hxy]

theorem set_refines {s : SymSt} {d : Deep} {x : Nat} (v : Val) (h : view s = absStack d x) :
    view (s.set v) = absStack (d.assign x v) x := by
  obtain ⟨hi, hg⟩ := view_split h
  cases hbs : bindingsOf x d.stack with
  | nil =>
    have hb : d.hasBinding x = false := (bindingsOf_nil_iff x d.stack).1 hbs
    rw [hbs] at hi
    cases hgl : d.globals x with
    | none =>
      rw [hgl] at hi
      simp [view, absStack, SymSt.set, Deep.assign, Deep.setGlobal, hb, hi, hbs]
    | some g =>
      rw [hgl] at hi hg
      simp [view, absStack, SymSt.set, Deep.assign, Deep.setGlobal, hb, hi, hbs, hg]
  | cons b bs =>
    have hb : d.hasBinding x = true := by
      cases hh : d.hasBinding x with
      | true => rfl
      | false => rw [Deep.hasBinding, ← bindingsOf_nil_iff, hbs] at hh; simp at hh
    rw [hbs] at hi
    simp [view, absStack, SymSt.set, Deep.assign, hb, hi, bindingsOf_assignL_same, hbs, hg]

theorem absStack_assign_other {x y : Nat} (hxy : y ≠ x) (d : Deep) (v : Val) :
    absStack (d.assign x v) y = absStack d y := by
  unfold Deep.assign
  split
  · simp [absStack, bindingsOf_assignL_other hxy]
  · simp [absStack, Deep.setGlobal, hxy]

theorem localsOf_of_view {s : SymSt} {d : Deep} {x : Nat} (h : view s = absStack d x) :
    localsOf s = bindingsOf x d.stack := by
  obtain ⟨hi, hg⟩ := view_split h
  unfold localsOf
  cases hgl : d.globals x with
  | none => rw [hgl] at hi hg; simp [hi, hg]
  | some g => rw [hgl] at hi hg; simp [hi, hg]

theorem setGlobal_refines {s : SymSt} {d : Deep} {x : Nat} (v : Val) (h : view s = absStack d x) :
    view (s.setGlobal v) = absStack (d.setGlobal x v) x := by
  simp [view, absStack, setGlobal_items, setGlobal_hasGlobal, localsOf_of_view h, Deep.setGlobal]

theorem absStack_setGlobal_other {x y : Nat} (hxy : y ≠ x) (d : Deep) (v : Val) :
    absStack (d.setGlobal x v) y = absStack d y := by
  simp [absStack, Deep.setGlobal, hxy]

/-! ### sequences of store operations -/

/-- the operations the evaluator performs on the variable store -/
inductive Op where
  | bind (x : Nat) (v : Val)        -- `let`, parameter binding, loop variables: `pushV`
  | unbind (x : Nat)                -- leaving the scope: `popV` / `popSymCtx`
  | assign (x : Nat) (v : Val)      -- `setq`, `set`: `setV`
  | setGlobal (x : Nat) (v : Val)   -- `defun`, `defmacro`: `setGlobalV`

def Op.var : Op → Nat
  | .bind x _ | .unbind x | .assign x _ | .setGlobal x _ => x

namespace Deep

def step (d : Deep) : Op → Deep
  | .bind x v => d.bind x v
  | .unbind x => d.unbind x
  | .assign x v => d.assign x v
  | .setGlobal x v => d.setGlobal x v

def run (d : Deep) : List Op → Deep
  | [] => d
  | op :: ops => (d.step op).run ops

/-- precondition of one operation: `unbind x` needs a binding of `x` on the stack -/
def ok (d : Deep) : Op → Prop
  | .unbind x => d.hasBinding x = true
  | _ => True

/-- a sequence of operations never unbinds a variable that has no binding on the stack -/
def valid (d : Deep) : List Op → Prop
  | [] => True
  | op :: ops => d.ok op ∧ (d.step op).valid ops

end Deep

/-- the shallow-binding store, abstractly: a value stack per symbol -/
abbrev Store := Nat → SymSt

namespace Store

def upd (σ : Store) (x : Nat) (s : SymSt) : Store := fun y => if y = x then s else σ y

/-- one operation with the `SymSt` primitives of the model; `none` when `pop` finds nothing -/
def step (σ : Store) : Op → Option Store
  | .bind x v => some (σ.upd x ((σ x).push v))
  | .unbind x => (σ x).pop.map (σ.upd x)
  | .assign x v => some (σ.upd x ((σ x).set v))
  | .setGlobal x v => some (σ.upd x ((σ x).setGlobal v))

def run (σ : Store) : List Op → Option Store
  | [] => some σ
  | op :: ops => (σ.step op).bind (fun σ' => run σ' ops)

end Store

/-- the refinement relation: every symbol's stack is the abstraction of the deep store -/
def Rel (d : Deep) (σ : Store) : Prop := ∀ x, view (σ x) = absStack d x

theorem rel_upd {d d' : Deep} {σ : Store} {x : Nat} {s' : SymSt} (h : Rel d σ)
    (hx : view s' = absStack d' x) (hother : ∀ y, y ≠ x → absStack d' y = absStack d y) :
    Rel d' (σ.upd x s') := by
  intro y
  by_cases hy : y = x
  · subst hy; simpa [Store.upd] using hx
  · simp only [Store.upd, hy, if_false]
    rw [hother y hy]; exact h y

theorem step_refines {d : Deep} {σ : Store} (op : Op) (h : Rel d σ) (hok : d.ok op) :
    ∃ σ', σ.step op = some σ' ∧ Rel (d.step op) σ' ∧
      ∀ y, (σ' y).constant = (σ y).constant := by
  cases op with
  | bind x v =>
    refine ⟨_, rfl, rel_upd h (push_refines v (h x)) (fun y hy => absStack_bind_other hy d v), ?_⟩
    intro y; by_cases hy : y = x
    · subst hy; simp [Store.upd, SymSt.push]
    · simp [Store.upd, hy]
  | unbind x =>
    obtain ⟨s', hp, hv, _, hc, _⟩ := pop_refines (h x) hok
    refine ⟨σ.upd x s', by simp [Store.step, hp],
      rel_upd h hv (fun y hy => absStack_unbind_other hy d), ?_⟩
    intro y; by_cases hy : y = x
    · subst hy; simp [Store.upd, hc]
    · simp [Store.upd, hy]
  | assign x v =>
    refine ⟨_, rfl, rel_upd h (set_refines v (h x)) (fun y hy => absStack_assign_other hy d v), ?_⟩
    intro y; by_cases hy : y = x
    · subst hy; simp only [Store.upd, if_true, SymSt.set]; split <;> rfl
    · simp [Store.upd, hy]
  | setGlobal x v =>
    refine ⟨_, rfl, rel_upd h (setGlobal_refines v (h x))
      (fun y hy => absStack_setGlobal_other hy d v), ?_⟩
    intro y; by_cases hy : y = x
    · subst hy; simp only [Store.upd, if_true, SymSt.setGlobal]; split <;> rfl
    · simp [Store.upd, hy]

/-- Shallow binding refines deep binding on every finite sequence of store operations. -/
theorem run_refines (ops : List Op) : ∀ (d : Deep) (σ : Store), Rel d σ → d.valid ops →
    ∃ σ', σ.run ops = some σ' ∧ Rel (d.run ops) σ' := by
  induction ops with
  | nil => intro d σ h _; exact ⟨σ, rfl, h⟩
  | cons op ops ih =>
    intro d σ h hv
    obtain ⟨σ1, h1, hr1, _⟩ := step_refines op h hv.1
    obtain ⟨σ2, h2, hr2⟩ := ih _ _ hr1 hv.2
    exact ⟨σ2, by simp [Store.run, h1, h2], hr2⟩

/-! ### the same on contexts, with the operations of the model (`pushV`, `popV`, `setV`, `setGlobalV`) -/

def opM : Op → M Unit
  | .bind x v => pushV (.sym x) v
  | .unbind x => popV (.sym x)
  | .assign x v => setV (.sym x) v
  | .setGlobal x v => setGlobalV (.sym x) v

def runM : List Op → M Unit
  | [] => pure ()
  | op :: ops => opM op >>= fun _ => runM ops

theorem symD_modSym_fun (c : Ctx) (n : Nat) (f : SymSt → SymSt) (h : n < c.syms.size) :
    (c.modSym n f).symD = Store.upd c.symD n (f (c.symD n)) := by
  funext m
  rw [symD_modSym c n f m h]
  rfl

/-- a model operation on an in-range, non-constant symbol is the abstract store step -/
theorem opM_step {c : Ctx} {op : Op} {σ' : Store} (hx : op.var < c.syms.size)
    (hc : (c.symD op.var).constant = false) (h : Store.step c.symD op = some σ') :
    ∃ c', opM op c = (.ok (), c') ∧ c'.symD = σ' ∧ c'.syms.size = c.syms.size := by
  cases op with
  | bind x v =>
    replace hx : x < c.syms.size := hx
    replace hc : (c.symD x).constant = false := hc
    refine ⟨_, pushV_run v hc, ?_, size_modSym _ _ _⟩
    rw [symD_modSym_fun _ _ _ hx]
    simpa [Store.step] using h
  | unbind x =>
    replace hx : x < c.syms.size := hx
    cases hp : (c.symD x).pop with
    | none => simp [Store.step, hp] at h
    | some s' =>
      refine ⟨_, popV_run hp, ?_, size_modSym _ _ _⟩
      rw [symD_modSym_fun _ _ _ hx]
      simpa [Store.step, hp] using h
  | assign x v =>
    replace hx : x < c.syms.size := hx
    replace hc : (c.symD x).constant = false := hc
    refine ⟨_, setV_run v hc, ?_, size_modSym _ _ _⟩
    rw [symD_modSym_fun _ _ _ hx]
    simpa [Store.step] using h
  | setGlobal x v =>
    replace hx : x < c.syms.size := hx
    replace hc : (c.symD x).constant = false := hc
    refine ⟨_, setGlobalV_run v hc, ?_, size_modSym _ _ _⟩
    rw [symD_modSym_fun _ _ _ hx]
    simpa [Store.step] using h

theorem runM_refines (ops : List Op) : ∀ (d : Deep) (c : Ctx), Rel d c.symD → d.valid ops →
    (∀ op ∈ ops, op.var < c.syms.size ∧ (c.symD op.var).constant = false) →
    ∃ c', runM ops c = (.ok (), c') ∧ Rel (d.run ops) c'.symD ∧
      ∀ y, (c'.symD y).constant = (c.symD y).constant := by
  induction ops with
  | nil => intro d c h _ _; exact ⟨c, rfl, h, fun _ => rfl⟩
  | cons op ops ih =>
    intro d c h hv hin
    obtain ⟨σ1, h1, hr1, hk1⟩ := step_refines op h hv.1
    obtain ⟨hx, hc⟩ := hin op (by simp)
    obtain ⟨c1, hrun1, hs1, hsz1⟩ := opM_step hx hc h1
    have hin' : ∀ op' ∈ ops, op'.var < c1.syms.size ∧ (c1.symD op'.var).constant = false := by
      intro op' hm
      obtain ⟨a, b⟩ := hin op' (by simp [hm])
      refine ⟨by omega, ?_⟩
      rw [hs1, hk1]; exact b
    obtain ⟨c2, hrun2, hr2, hk2⟩ := ih (d.step op) c1 (by rw [hs1]; exact hr1) hv.2 hin'
    refine ⟨c2, ?_, hr2, ?_⟩
    · rw [runM, C12.bind_ok _ hrun1]; exact hrun2
    · intro y; rw [hk2, hs1, hk1]

end Tulisp.C01
