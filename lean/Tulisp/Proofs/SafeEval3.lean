/-
  Proofs/SafeEval3.lean — the invariant of Proofs/Safe.lean for `callMacro`, the loops, `funcall`,
  `let` and `sort`.
-/
import Tulisp.Proofs.SafeEval2
namespace Tulisp

theorem safe_threadForms_elems {first : Bool} {forms x : Val} {H : Prop} {N : Nat}
    (h : H → max x.bound forms.bound ≤ N) : SafeH H N (threadForms first x forms.elems) bq := by
  apply safe_threadForms
  have := bound_elems forms
  intro hh; have := h hh; omega

macro_rules | `(tactic| safe_leaf) => `(tactic| ((with_reducible apply safe_threadForms_elems); safe_side))

theorem safe_callMacro {b : Bi} {args : Val} {H : Prop} {N : Nat} (h : H → args.bound ≤ N) :
    SafeH H N (callMacro b args) bq := by
  refine SafeH.of_hyp h ?_
  unfold callMacro
  safe_tac

macro_rules | `(tactic| safe_leaf) => `(tactic| ((with_reducible apply safe_callMacro); safe_side))

/-! ## loops -/

theorem safe_quoteArgs_elems {v : Val} {H : Prop} {N : Nat} (h : H → v.bound ≤ N) :
    SafeH H N (quoteArgs v.elems) bq := by
  apply safe_quoteArgs
  have := bound_elems v
  intro hh; have := h hh; omega

macro_rules | `(tactic| safe_leaf) => `(tactic| ((with_reducible apply safe_quoteArgs_elems); safe_side))

section
variable {r : Rec} (hr : SafeRec r)
include hr

theorem safe_whileLoop {cond body : Val} {k : Nat} : ∀ {H : Prop} {N : Nat},
    (H → max cond.bound body.bound ≤ N) → SafeH H N (whileLoop r cond body k) bq := by
  induction k with
  | zero => intro H N h; unfold whileLoop; safe_tac
  | succ k ih => intro H N h; refine SafeH.of_hyp h ?_; unfold whileLoop; safe_tac

theorem safe_dolistLoop {var : Nat} {body l : Val} : ∀ {H : Prop} {N : Nat},
    (H → max body.bound l.bound ≤ N) → SafeH H N (dolistLoop r var body l) bq := by
  induction l with
  | cons i a rest _ ih => intro H N h; refine SafeH.of_hyp h ?_; unfold dolistLoop; safe_tac
  | _ => intro H N h; unfold dolistLoop; safe_tac

theorem safe_dotimesLoop {var : Nat} {body : Val} {count : Int} {k : Nat} :
    ∀ {i : Int} {H : Prop} {N : Nat}, (H → body.bound ≤ N) →
      SafeH H N (dotimesLoop r var body count k i) bq := by
  induction k with
  | zero => intro i H N h; unfold dotimesLoop; safe_tac
  | succ k ih => intro i H N h; refine SafeH.of_hyp h ?_; unfold dotimesLoop; safe_tac

theorem safe_funcallVal {evaluate : Bool} {f args : Val} {H : Prop} {N : Nat}
    (h : H → max f.bound args.bound ≤ N) : SafeH H N (funcallVal r evaluate f args) bq := by
  refine SafeH.of_hyp h ?_
  unfold funcallVal
  safe_tac

end

macro_rules | `(tactic| safe_leaf) => `(tactic| ((with_reducible apply safe_whileLoop (by assumption)); safe_side))
macro_rules | `(tactic| safe_leaf) => `(tactic| ((with_reducible apply safe_dolistLoop (by assumption)); safe_side))
macro_rules | `(tactic| safe_leaf) => `(tactic| ((with_reducible apply safe_dotimesLoop (by assumption)); safe_side))
macro_rules | `(tactic| safe_leaf) => `(tactic| ((with_reducible apply safe_funcallVal (by assumption)); safe_side))

/-! ## `let`: relative specifications -/

/-- Relative specification: started with local depths `pre` in a closed state of size `N`, `m` ends
    in a closed state; on success `P result size depths` holds, on any other outcome the depths are
    `fail`. -/
structure Tri {α} (H : Prop) (N : Nat) (pre : Nat → Int) (m : M α)
    (P : α → Nat → (Nat → Int) → Prop) (fail : Nat → Int) : Prop where
  run : ∀ c, (∀ s, (m c).1 ≠ .panic s) ∧
    (H → Closed c → LD c = pre → c.syms.size = N →
      Closed (m c).2 ∧ c.syms.size ≤ (m c).2.syms.size ∧
      (∀ a, (m c).1 = .ok a → P a (m c).2.syms.size (LD (m c).2)) ∧
      ((∀ a, (m c).1 ≠ .ok a) → LD (m c).2 = fail))

theorem Tri.imp {α} {H H' : Prop} {N : Nat} {pre : Nat → Int} {m : M α}
    {P : α → Nat → (Nat → Int) → Prop} {fail : Nat → Int} (h : Tri H N pre m P fail) (hh : H' → H) :
    Tri H' N pre m P fail :=
  ⟨fun c => ⟨(h.run c).1, fun h' => (h.run c).2 (hh h')⟩⟩

theorem Tri.of_pre_eq {α} {H : Prop} {N : Nat} {pre pre' : Nat → Int} {m : M α}
    {P : α → Nat → (Nat → Int) → Prop} {fail : Nat → Int} (he : H → pre' = pre)
    (h : Tri H N pre m P fail) : Tri H N pre' m P fail :=
  ⟨fun c => ⟨(h.run c).1, fun hh hc hld hn => (h.run c).2 hh hc (hld.trans (he hh)) hn⟩⟩

theorem Tri.pure {α} {H : Prop} {N : Nat} {pre : Nat → Int} {a : α}
    {P : α → Nat → (Nat → Int) → Prop} {fail : Nat → Int} (h : H → P a N pre) :
    Tri H N pre (pure a : M α) P fail := by
  refine ⟨fun c => ⟨fun s hs => (by cases hs), fun hh hc hld hn => ⟨hc, Nat.le_refl _, ?_, ?_⟩⟩⟩
  · intro a' ha; cases ha; exact hn ▸ hld ▸ h hh
  · intro hne; exact absurd rfl (hne a)

theorem Tri.bind {α β} {H : Prop} {N : Nat} {pre : Nat → Int} {m : M α} {g : α → M β}
    {P : α → Nat → (Nat → Int) → Prop} {P' : β → Nat → (Nat → Int) → Prop} {fail : Nat → Int}
    (hm : Tri H N pre m P fail)
    (hg : ∀ a N' pre', Tri (H ∧ N ≤ N' ∧ P a N' pre') N' pre' (g a) P' fail) :
    Tri H N pre (m >>= g) P' fail := by
  refine ⟨fun c => ?_⟩
  have hmc := hm.run c
  show (∀ s, (M.bind m g c).1 ≠ .panic s) ∧ (H → Closed c → LD c = pre → c.syms.size = N →
      Closed (M.bind m g c).2 ∧ c.syms.size ≤ (M.bind m g c).2.syms.size ∧
      (∀ a, (M.bind m g c).1 = .ok a → P' a (M.bind m g c).2.syms.size (LD (M.bind m g c).2)) ∧
      ((∀ a, (M.bind m g c).1 ≠ .ok a) → LD (M.bind m g c).2 = fail))
  unfold M.bind
  rcases hr : m c with ⟨r, c'⟩
  rw [hr] at hmc
  cases r with
  | ok a =>
    simp only
    refine ⟨((hg a c'.syms.size (LD c')).run c').1, fun hh hc hld hn => ?_⟩
    obtain ⟨p1, p2, p3, _⟩ := hmc.2 hh hc hld hn
    obtain ⟨q1, q2, q3, q4⟩ := ((hg a c'.syms.size (LD c')).run c').2 ⟨hh, hn ▸ p2, p3 a rfl⟩ p1 rfl rfl
    exact ⟨q1, Nat.le_trans p2 q2, q3, q4⟩
  | err k =>
    simp only
    refine ⟨fun s hs => (by cases hs), fun hh hc hld hn => ?_⟩
    obtain ⟨p1, p2, _, p4⟩ := hmc.2 hh hc hld hn
    exact ⟨p1, p2, fun a ha => (by cases ha), fun _ => p4 (fun a ha => by cases ha)⟩
  | panic s => exact absurd rfl (hmc.1 s)
  | fuel =>
    simp only
    refine ⟨fun s hs => (by cases hs), fun hh hc hld hn => ?_⟩
    obtain ⟨p1, p2, _, p4⟩ := hmc.2 hh hc hld hn
    exact ⟨p1, p2, fun a ha => (by cases ha), fun _ => p4 (fun a ha => by cases ha)⟩

/-- a safe computation guarded by "on failure release `done`" -/
theorem Tri.onFail_safe {α} {H : Prop} {N : Nat} {m : M α} {Q : α → Nat → Prop} {f : Nat → Int}
    (hf : ∀ k, 0 ≤ f k) (done : List Nat) (hm : SafeH H N m Q) :
    Tri H N (shift f done) (onFail m (fun c => done.foldl popSymCtx c))
      (fun a N' ld => ld = shift f done ∧ Q a N') f := by
  refine ⟨fun c => ?_⟩
  have hmc := hm.run c
  unfold onFail
  rcases hr : m c with ⟨r, c'⟩
  rw [hr] at hmc
  have key : ∀ (hh : H) (hc : Closed c) (hld : LD c = shift f done) (hn : c.syms.size = N),
      Post c Q (r, c') := fun hh hc hld hn =>
    hmc.2 hh (fun k => by rw [hld]; exact shift_nonneg hf done k) hc hn
  cases r with
  | ok a =>
    simp only
    refine ⟨fun s hs => (by cases hs), fun hh hc hld hn => ?_⟩
    have p := key hh hc hld hn
    refine ⟨p.closed, p.size, ?_, fun hne => absurd rfl (hne a)⟩
    intro a' ha; cases ha
    exact ⟨p.ld.trans hld, p.res a rfl⟩
  | err k =>
    simp only
    refine ⟨fun s hs => (by cases hs), fun hh hc hld hn => ?_⟩
    have p := key hh hc hld hn
    obtain ⟨q1, q2, q3⟩ := popAll_spec f hf done c' p.closed (p.ld.trans hld)
    exact ⟨q2, by rw [q3]; exact p.size, fun a ha => (by cases ha), fun _ => q1⟩
  | panic s => exact absurd rfl (hmc.1 s)
  | fuel =>
    simp only
    refine ⟨fun s hs => (by cases hs), fun hh hc hld hn => ?_⟩
    have p := key hh hc hld hn
    obtain ⟨q1, q2, q3⟩ := popAll_spec f hf done c' p.closed (p.ld.trans hld)
    exact ⟨q2, by rw [q3]; exact p.size, fun a ha => (by cases ha), fun _ => q1⟩

/-- a new temporary binding guarded by "on failure release `done`" -/
theorem Tri.onFail_push {H : Prop} {N : Nat} {name v : Val} {f : Nat → Int}
    (hf : ∀ k, 0 ≤ f k) (done : List Nat) (h : H → max name.bound v.bound ≤ N) :
    Tri H N (shift f done) (onFail (pushV name v) (fun c => done.foldl popSymCtx c))
      (fun _ N' ld => N' = N ∧ ∃ n, name = .sym n ∧ ld = shift f (n :: done)) f := by
  refine ⟨fun c => ?_⟩
  unfold onFail
  have hfail : ∀ k, (∀ s, ((Res.err k : Res Unit), List.foldl popSymCtx c done).1 ≠ .panic s) ∧
      (H → Closed c → LD c = shift f done → c.syms.size = N →
        Closed (List.foldl popSymCtx c done) ∧ c.syms.size ≤ (List.foldl popSymCtx c done).syms.size ∧
        (∀ a, (Res.err k : Res Unit) = .ok a →
          (List.foldl popSymCtx c done).syms.size = N ∧
            ∃ n, name = .sym n ∧ LD (List.foldl popSymCtx c done) = shift f (n :: done)) ∧
        ((∀ a, (Res.err k : Res Unit) ≠ .ok a) → LD (List.foldl popSymCtx c done) = f)) := by
    intro k
    refine ⟨fun s hs => (by cases hs), fun hh hc hld hn => ?_⟩
    obtain ⟨q1, q2, q3⟩ := popAll_spec f hf done c hc hld
    exact ⟨q2, by rw [q3]; exact Nat.le_refl _, fun a ha => (by cases ha), fun _ => q1⟩
  by_cases hs : name.isSym = true
  · cases name with
    | sym n =>
      rcases pushV_sym_spec n v c with e | e <;> rw [e] <;> simp only
      · exact hfail _
      · refine ⟨fun s hs => (by cases hs), fun hh hc hld hn => ?_⟩
        have hb := h hh
        simp only [bound_sym] at hb
        obtain ⟨q1, q2, q3⟩ := modSym_push_spec n v hc (by omega) (by omega)
        refine ⟨q2, by rw [q3]; exact Nat.le_refl _, ?_, fun hne => absurd rfl (hne ())⟩
        intro _ _
        refine ⟨by rw [q3]; exact hn, n, rfl, ?_⟩
        rw [q1, hld, shift_cons, shift_cons]; funext k; simp
    | _ => cases hs
  · rw [pushV_nonsym v c (by simpa using hs)]
    exact hfail _

theorem Tri.mono {α} {H : Prop} {N : Nat} {pre : Nat → Int} {m : M α}
    {P P' : α → Nat → (Nat → Int) → Prop} {fail : Nat → Int} (h : Tri H N pre m P fail)
    (hp : H → ∀ a N' ld, P a N' ld → P' a N' ld) : Tri H N pre m P' fail :=
  ⟨fun c => ⟨(h.run c).1, fun hh hc hld hn =>
    have p := (h.run c).2 hh hc hld hn
    ⟨p.1, p.2.1, fun a ha => hp hh a _ _ (p.2.2.1 a ha), p.2.2.2⟩⟩⟩

theorem Tri.onFail_throw {α} {H : Prop} {N : Nat} {k : ErrKind} {f : Nat → Int}
    (hf : ∀ k, 0 ≤ f k) (done : List Nat) {P : α → Nat → (Nat → Int) → Prop} :
    Tri H N (shift f done) (onFail (M.throw k : M α) (fun c => done.foldl popSymCtx c)) P f :=
  (Tri.onFail_safe hf done (SafeH.throw (Q := fun _ _ => False))).mono
    fun _ _ _ _ hp => hp.2.elim

section
variable {r : Rec} (hr : SafeRec r)
include hr

theorem letBind_item {f : Nat → Int} (hf : ∀ k, 0 ≤ f k) {name valF rest : Val} {done : List Nat}
    {H : Prop} {N : Nat}
    (ih : ∀ (done : List Nat) (H : Prop) (N : Nat), (H → rest.bound ≤ N) →
      Tri H N (shift f done) (letBind r rest done) (fun d _ ld => ld = shift f d) f)
    (h : H → max name.bound (max valF.bound rest.bound) ≤ N) :
    Tri H N (shift f done)
      (do
        let v ← onFail (r.eval valF) (fun c => done.foldl popSymCtx c)
        onFail (pushV name v) (fun c => done.foldl popSymCtx c)
        match name with
        | .sym n => letBind r rest (n :: done)
        | _ => letBind r rest done)
      (fun d _ ld => ld = shift f d) f := by
  refine Tri.bind (Tri.onFail_safe hf done (hr.eval H N valF (fun hh => by have := h hh; omega))) ?_
  intro v N1 pre1
  refine Tri.bind (Tri.of_pre_eq (pre := shift f done) (fun hh => hh.2.2.1)
    (Tri.onFail_push hf done (fun hh => by
      obtain ⟨hh, hN, _, hq⟩ := hh
      have := h hh; simp only [bq_def, bnd_val] at hq; omega))) ?_
  intro _ N2 pre2
  cases name with
  | sym n =>
    simp only
    refine Tri.of_pre_eq (pre := shift f (n :: done)) ?_ (ih (n :: done) _ _ ?_)
    · rintro ⟨_, _, _, n', hn', e⟩; cases hn'; exact e
    · rintro ⟨⟨hh, hN, _⟩, hN2, _⟩; have := h hh; omega
  | _ =>
    simp only
    refine (Tri.of_pre_eq (pre := shift f done) (H := False) False.elim
      (ih done False N2 False.elim)).imp ?_
    rintro ⟨_, _, _, n', hn', _⟩
    cases hn'

theorem letBind_tri {f : Nat → Int} (hf : ∀ k, 0 ≤ f k) (varlist : Val) :
    ∀ (done : List Nat) (H : Prop) (N : Nat), (H → varlist.bound ≤ N) →
      Tri H N (shift f done) (letBind r varlist done) (fun d _ ld => ld = shift f d) f := by
  induction varlist with
  | cons i item rest _ ih =>
    intro done H N h
    have h' : H → max item.bound rest.bound ≤ N := fun hh => by have := h hh; simpa using this
    cases item with
    | sym n =>
      simp only [letBind]
      apply Tri.bind (Tri.onFail_push hf done (fun hh => by have := h' hh; simp at this ⊢; omega))
      intro _ N' pre'
      refine Tri.of_pre_eq (pre := shift f (n :: done)) ?_ (ih (n :: done) _ _ ?_)
      · rintro ⟨_, _, _, n', hn', e⟩; cases hn'; exact e
      · rintro ⟨hh, hN, _⟩; have := h' hh; omega
    | cons j name irest =>
      cases irest with
      | cons j2 v e =>
        simp only [letBind]
        rw [if_neg (by simp)]
        split
        · exact Tri.onFail_throw hf done
        · split
          · exact Tri.onFail_throw hf done
          · exact letBind_item hr hf ih (fun hh => by have := h' hh; simp at this ⊢; omega)
      | nil =>
        simp only [letBind]
        rw [if_neg (by simp)]
        split
        · exact Tri.onFail_throw hf done
        · split
          · exact Tri.onFail_throw hf done
          · exact letBind_item hr hf ih (fun hh => by have := h' hh; simp at this ⊢; omega)
      | _ => simp only [letBind]; exact Tri.onFail_throw hf done
    | _ => simp only [letBind]; exact Tri.onFail_throw hf done
  | _ =>
    intro done H N h
    unfold letBind
    exact Tri.pure fun _ => rfl

/-- `let` / `let*`: bind the variables, run the body, release them on every exit -/
theorem safe_let {varlist : Val} {α} {body : M α} {Q : α → Nat → Prop} {H : Prop} {N : Nat}
    (hb : ∀ N', SafeH (H ∧ N ≤ N') N' body Q) (h : H → varlist.bound ≤ N) :
    SafeH H N (letBind r varlist [] >>= fun done =>
      M.finally' body (fun c => done.foldl popSymCtx c)) Q := by
  refine ⟨fun c => ?_⟩
  show (∀ s, (M.bind (letBind r varlist []) _ c).1 ≠ .panic s) ∧
    (H → WF c → Closed c → c.syms.size = N → Post c Q (M.bind (letBind r varlist []) _ c))
  unfold M.bind
  have hnp := ((letBind_tri hr (f := fun _ => 0) (fun _ => Int.le_refl _) varlist [] False 0
    False.elim).run c).1
  have hspec := fun (hh : H) (hw : WF c) (hc : Closed c) (hn : c.syms.size = N) =>
    ((letBind_tri hr (f := LD c) hw varlist [] H N h).run c).2 hh hc (by simp) hn
  rcases hr' : letBind r varlist [] c with ⟨res, c'⟩
  rw [hr'] at hnp hspec
  cases res with
  | ok d =>
    simp only
    refine ⟨((hb c'.syms.size).finallyPop d c').1, fun hh hw hc hn => ?_⟩
    obtain ⟨s1, s2, s3, _⟩ := hspec hh hw hc hn
    simp only at s1 s2 s3
    have := ((hb c'.syms.size).finallyPop d c').2 ⟨hh, by omega⟩ (LD c) hw s1 (s3 d rfl) rfl
    simp only at this
    exact ⟨this.1, this.2.1, by omega, this.2.2.2⟩
  | err k =>
    simp only
    refine ⟨fun s hs => (by cases hs), fun hh hw hc hn => ?_⟩
    obtain ⟨s1, s2, _, s4⟩ := hspec hh hw hc hn
    exact ⟨s4 (fun u hu => by cases hu), s1, s2, fun a ha => by cases ha⟩
  | panic s => exact absurd rfl (hnp s)
  | fuel =>
    simp only
    refine ⟨fun s hs => (by cases hs), fun hh hw hc hn => ?_⟩
    obtain ⟨s1, s2, _, s4⟩ := hspec hh hw hc hn
    exact ⟨s4 (fun u hu => by cases hu), s1, s2, fun a ha => by cases ha⟩

end

/-! ## `dolist` / `dotimes`: one temporary binding around a loop -/

theorem finallyPop_bind {α β} {H : Prop} {N : Nat} {body : M α} {rest : α → M β}
    {Qb : α → Nat → Prop} {Q : β → Nat → Prop} (hb : SafeH H N body Qb)
    (hrest : ∀ a N', SafeH (H ∧ N ≤ N' ∧ Qb a N') N' (rest a) Q) (ns : List Nat) (c : Ctx) :
    (∀ s, ((M.finally' body (fun c => ns.foldl popSymCtx c) >>= rest) c).1 ≠ .panic s) ∧
    (H → ∀ f : Nat → Int, (∀ k, 0 ≤ f k) → Closed c → LD c = shift f ns → c.syms.size = N →
      let out := (M.finally' body (fun c => ns.foldl popSymCtx c) >>= rest) c
      LD out.2 = f ∧ Closed out.2 ∧ c.syms.size ≤ out.2.syms.size ∧
        ∀ a, out.1 = .ok a → Q a out.2.syms.size) := by
  have hfp := hb.finallyPop ns c
  show (∀ s, (M.bind (M.finally' body _) rest c).1 ≠ .panic s) ∧
    (H → ∀ f : Nat → Int, (∀ k, 0 ≤ f k) → Closed c → LD c = shift f ns → c.syms.size = N →
      let out := M.bind (M.finally' body _) rest c
      LD out.2 = f ∧ Closed out.2 ∧ c.syms.size ≤ out.2.syms.size ∧
        ∀ a, out.1 = .ok a → Q a out.2.syms.size)
  unfold M.bind
  rcases hr : M.finally' body (fun c => ns.foldl popSymCtx c) c with ⟨res, c'⟩
  rw [hr] at hfp
  cases res with
  | ok a =>
    simp only
    refine ⟨((hrest a c'.syms.size).run c').1, fun hh f hf hc hld hn => ?_⟩
    obtain ⟨p1, p2, p3, p4⟩ := hfp.2 hh f hf hc hld hn
    simp only at p1 p2 p3 p4
    have q := ((hrest a c'.syms.size).run c').2 ⟨hh, by omega, p4 a rfl⟩
      (fun k => by rw [p1]; exact hf k) p2 rfl
    exact ⟨q.ld.trans p1, q.closed, Nat.le_trans p3 q.size, q.res⟩
  | err k =>
    simp only
    refine ⟨fun s hs => (by cases hs), fun hh f hf hc hld hn => ?_⟩
    obtain ⟨p1, p2, p3, _⟩ := hfp.2 hh f hf hc hld hn
    exact ⟨p1, p2, p3, fun a ha => by cases ha⟩
  | panic s => exact absurd rfl (hfp.1 s)
  | fuel =>
    simp only
    refine ⟨fun s hs => (by cases hs), fun hh f hf hc hld hn => ?_⟩
    obtain ⟨p1, p2, p3, _⟩ := hfp.2 hh f hf hc hld hn
    exact ⟨p1, p2, p3, fun a ha => by cases ha⟩

/-- the shape of `dolist` / `dotimes`: push the loop variable, loop, pop on every exit, continue -/
theorem safe_pushThen {α β} {H : Prop} {N : Nat} {var v : Val} {loop : Nat → M α} {rest : α → M β}
    {Qb : α → Nat → Prop} {Q : β → Nat → Prop} (hl : ∀ n, SafeH H N (loop n) Qb)
    (hrest : ∀ a N', SafeH (H ∧ N ≤ N' ∧ Qb a N') N' (rest a) Q)
    (h : H → max var.bound v.bound ≤ N) :
    SafeH H N (pushV var v >>= fun _ =>
      match var with
      | .sym n => M.finally' (loop n) (fun c => popSymCtx c n) >>= rest
      | _ => M.throw .typeMismatch) Q := by
  refine ⟨fun c => ?_⟩
  show (∀ s, (M.bind (pushV var v) _ c).1 ≠ .panic s) ∧
    (H → WF c → Closed c → c.syms.size = N → Post c Q (M.bind (pushV var v) _ c))
  unfold M.bind
  by_cases hs : var.isSym = true
  · cases var with
    | sym n =>
      have key := finallyPop_bind (hl n) hrest [n] (c.modSym n (·.push v))
      simp only [List.foldl_cons, List.foldl_nil] at key
      rcases pushV_sym_spec n v c with e | e <;> rw [e] <;> simp only
      · exact ⟨fun s hs => (by cases hs), fun _ _ hc _ => ⟨rfl, hc, Nat.le_refl _, fun a ha => by cases ha⟩⟩
      · refine ⟨key.1, fun hh hw hc hn => ?_⟩
        have hb := h hh
        simp only [bound_sym] at hb
        obtain ⟨q1, q2, q3⟩ := modSym_push_spec n v hc (by omega) (by omega)
        have := key.2 hh (LD c) hw q2 q1 (by omega)
        exact ⟨this.1, this.2.1, by omega, this.2.2.2⟩
    | _ => cases hs
  · rw [pushV_nonsym v c (by simpa using hs)]
    exact ⟨fun s hs => (by cases hs), fun _ _ hc _ => ⟨rfl, hc, Nat.le_refl _, fun a ha => by cases ha⟩⟩

/-- `safe_tac` recognises the two binding constructs -/
macro_rules
  | `(tactic| safe_step) =>
    `(tactic| ((with_reducible (show SafeH _ _ (pushV _ _ >>= _) _));
               apply safe_pushThen (Qb := bq) <;> try safe_side))
macro_rules
  | `(tactic| safe_step) =>
    `(tactic| ((with_reducible (show SafeH _ _ (letBind _ _ [] >>= _) _));
               apply safe_let (by assumption) <;> try safe_side))

/-! ## `sort` -/

/-- a comparison predicate that is safe once the table has at least `B` entries (`B` bounds the
    symbols of the function value it calls) -/
def SafeLt (B : Nat) (lt : Val → Val → M Bool) : Prop :=
  ∀ (H : Prop) (N : Nat) (a b : Val), (H → max B (max a.bound b.bound) ≤ N) → SafeH H N (lt a b) bq

theorem safe_mergeM {B : Nat} {lt : Val → Val → M Bool} (hlt : SafeLt B lt) (ls rs : List Val) (k : Nat) :
    ∀ {H : Prop} {N : Nat}, (H → max B (max (valsBound ls) (valsBound rs)) ≤ N) →
      SafeH H N (mergeM lt ls rs k) bq := by
  fun_induction mergeM lt ls rs k with
  | case1 => intro H N h; safe_tac
  | case2 => intro H N h; refine SafeH.of_hyp h ?_; safe_tac
  | case3 => intro H N h; refine SafeH.of_hyp h ?_; safe_tac
  | case4 l ls r' rs k ih1 ih2 =>
    intro H N h
    refine SafeH.of_hyp h ?_
    apply SafeH.bind
    · apply hlt; safe_side
    · intro b N'
      safe_tac

theorem safe_sortM {B : Nat} {lt : Val → Val → M Bool} (hlt : SafeLt B lt) (k : Nat) :
    ∀ {xs : List Val} {H : Prop} {N : Nat}, (H → max B (valsBound xs) ≤ N) →
      SafeH H N (sortM lt k xs) bq := by
  induction k with
  | zero => intro xs H N h; unfold sortM; safe_tac
  | succ k ih =>
    intro xs H N h
    refine SafeH.of_hyp h ?_
    unfold sortM
    split
    · safe_tac
    · have h1 := valsBound_take ((xs.length + 1) / 2) xs
      have h2 := valsBound_drop ((xs.length + 1) / 2) xs
      refine SafeH.have (P := _ ∧ _) ⟨h1, h2⟩ ?_
      dsimp only
      apply SafeH.bind
      · apply ih; safe_side
      · intro right N1
        apply SafeH.bind
        · apply ih; safe_side
        · intro left N2
          apply safe_mergeM hlt; safe_side

end Tulisp
