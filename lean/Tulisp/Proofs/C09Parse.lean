/-
  Proofs/C09Parse.lean — C09 part A, top level: `parseTokens` inverts `toksAll`.
-/
import Tulisp.Proofs.C09
namespace Tulisp.C09
open Tulisp

/-- The parser reads the tokens of `ds` (any spans; `#'` may stand for `'`) as trees denoting
    exactly `ds`. -/
theorem parseTokens_toksN (ds : List D) (tks : List Token) (h : tks.map tokN = toksAll ds) :
    ∃ ss, (parseTokens tks).res = .ok ss ∧ eraseL ss = ds := by
  have hf := C08.fuel_suffices tks
  obtain ⟨ss, ev', h1, h2⟩ := pad_all (2 * tks.length + 2) ds tks [] [] h hf
  refine ⟨ss, ?_, h2⟩
  unfold parseTokens
  rw [h1]
  simp

theorem parseTokens_toks (ds : List D) (tks : List Token) (h : tks.map Token.tok = toksAll ds) :
    ∃ ss, (parseTokens tks).res = .ok ss ∧ eraseL ss = ds :=
  parseTokens_toksN ds tks (map_tokN_of_map_tok h)

theorem eraseL_singleton {ss : List Sx} {d : D} (h : eraseL ss = [d]) :
    ∃ s, ss = [s] ∧ erase s = d := by
  cases ss with
  | nil => simp [eraseL] at h
  | cons s ss =>
    cases ss with
    | nil => simp only [eraseL, List.cons.injEq, and_true] at h; exact ⟨s, rfl, h⟩
    | cons s' ss => simp [eraseL] at h

theorem toksAll_singleton (d : D) : toksAll [d] = toks d := by
  simp [toksAll, toksItems]

/-- One datum: its tokens read as one tree denoting it. -/
theorem parseTokens_toks_one (d : D) (tks : List Token) (h : tks.map Token.tok = toks d) :
    ∃ s, (parseTokens tks).res = .ok [s] ∧ erase s = d := by
  obtain ⟨ss, h1, h2⟩ := parseTokens_toks [d] tks (by rw [toksAll_singleton]; exact h)
  obtain ⟨s, rfl, h3⟩ := eraseL_singleton h2
  exact ⟨s, h1, h3⟩

end Tulisp.C09
