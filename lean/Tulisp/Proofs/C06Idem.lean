/-
  Proofs/C06Idem.lean — the result of macro expansion contains no macro call (for classes of forms
  closed under macro application, in which no macro call stands in the head position of a list),
  hence expanding it again changes nothing.
-/
import Tulisp.Proofs.C06NoMacro
namespace Tulisp.C06
open Tulisp Tulisp.C12

/-- what applying the macro `value` to the argument forms does (first half of `expandHead`) -/
def applyMacro (r : Rec) (value args : Val) : M Val :=
  match value with
  | .builtin b => callMacro b args
  | .defmacro _ ps body => evalFunction r false ps body args
  | _ => pure .nil

theorem expandHead_macro (r : Rec) (inp args value : Val) (h : isMacroValue value = true) :
    expandHead r inp args value = applyMacro r value args >>= r.mexp := by
  cases value <;> simp_all [isMacroValue, expandHead, applyMacro]

/-- A class `Cl` of forms (relative to a context) and a relation `Rel` between contexts such that
    * `Rel` is a preorder containing "only the id counter advanced" and preserving what heads denote
      (so: the macro table is the same),
    * a list of the class that is not a macro call has elements in the class and its head, if it
      is a list, is not a macro call,
    * applying the macro of a macro call of the class to the argument forms (at any depth budget)
      yields a form of the class in a `Rel`-related context. -/
structure ClosedClass (Rel : Ctx → Ctx → Prop) (Cl : Ctx → Val → Prop) : Prop where
  refl : ∀ c, Rel c c
  trans : ∀ {c c' c''}, Rel c c' → Rel c' c'' → Rel c c''
  heads : ∀ {c c'}, Rel c c' → ∀ h, headValue c' h = headValue c h
  ids : ∀ {c c'}, OnlyIds c c' → Rel c c'
  stable : ∀ {c c' v}, Rel c c' → Cl c v → Cl c' v
  elems : ∀ {c i h args}, Cl c (.cons i h args) → MacroHead c (.cons i h args) = false →
    (∀ e ∈ (Val.cons i h args).elems, Cl c e) ∧ (h.isCons = true → MacroHead c h = false)
  apply : ∀ {c i h args}, Cl c (.cons i h args) → MacroHead c (.cons i h args) = true →
    ∀ d ex c1, applyMacro (Rec.ofDepth d) (headValue c h) args c = (.ok ex, c1) → Rel c c1 ∧ Cl c1 ex

section
variable {Rel : Ctx → Ctx → Prop} {Cl : Ctx → Val → Prop}

theorem ClosedClass.noMacro (hcl : ClosedClass Rel Cl) {c c' : Ctx} (h : Rel c c') {v : Val}
    (hv : NoMacro c v) : NoMacro c' v := hv.congr (hcl.heads h)

theorem ClosedClass.stable' (hcl : ClosedClass Rel Cl) {c c' : Ctx} (h : Rel c c') {v : Val}
    (hv : Cl c v ∨ NoMacro c v) : Cl c' v ∨ NoMacro c' v :=
  hv.imp (hcl.stable h) (hcl.noMacro h)

theorem ClosedClass.elems' (hcl : ClosedClass Rel Cl) {c : Ctx} {i : Nat} {h args : Val}
    (hv : Cl c (.cons i h args) ∨ NoMacro c (.cons i h args))
    (hm : MacroHead c (.cons i h args) = false) :
    (∀ e ∈ (Val.cons i h args).elems, Cl c e ∨ NoMacro c e) ∧
      (h.isCons = true → MacroHead c h = false) := by
  rcases hv with hv | hv
  · obtain ⟨h1, h2⟩ := hcl.elems hv hm
    exact ⟨fun e he => .inl (h1 e he), h2⟩
  · refine ⟨fun e he => .inr (hv.elems e he), fun hc => ?_⟩
    have hh : NoMacro c h := hv.elems h (by simp [Val.elems])
    cases hh with
    | atom ha => rw [ha] at hc; cases hc
    | list hm' _ => exact hm'

/-- the element loop, given the induction hypothesis for `r` -/
theorem mexpList_noMacro (hcl : ClosedClass Rel Cl) (r : Rec)
    (hr : ∀ c v v' c', (Cl c v ∨ NoMacro c v) → r.mexp v c = (.ok v', c') → Rel c c' ∧ NoMacro c' v')
    (xs ys : List Val) (c c' : Ctx) (hx : ∀ e ∈ xs, Cl c e ∨ NoMacro c e)
    (h : mexpList r xs c = (.ok ys, c')) : Rel c c' ∧ ∀ y ∈ ys, NoMacro c' y := by
  induction xs generalizing ys c with
  | nil => cases h; exact ⟨hcl.refl _, fun y hy => by cases hy⟩
  | cons x xs ih =>
    rw [mexpList] at h
    obtain ⟨y, c1, h1, h2⟩ := bind_eq_ok h
    obtain ⟨ys', c2, h3, h4⟩ := bind_eq_ok h2
    cases h4
    obtain ⟨r1, n1⟩ := hr c x y c1 (hx x (by simp)) h1
    obtain ⟨r2, n2⟩ := ih ys' c1 (fun e he => hcl.stable' r1 (hx e (by simp [he]))) h3
    refine ⟨hcl.trans r1 r2, fun z hz => ?_⟩
    rcases List.mem_cons.mp hz with rfl | hz
    · exact hcl.noMacro r2 n1
    · exact n2 z hz

/-- rebuilding a list that is not a macro call yields a macro-free list -/
theorem expandSpine_noMacro (hcl : ClosedClass Rel Cl) (r : Rec)
    (hr : ∀ c v v' c', (Cl c v ∨ NoMacro c v) → r.mexp v c = (.ok v', c') → Rel c c' ∧ NoMacro c' v')
    (ha : ∀ c h h' c', h.isCons = false → r.mexp h c = (.ok h', c') → h' = h)
    (hh : ∀ c h h' c', h.isCons = true → MacroHead c h = false → r.mexp h c = (.ok h', c') →
      h'.isCons = true)
    (i : Nat) (h args v' : Val) (c c' : Ctx)
    (hv : Cl c (.cons i h args) ∨ NoMacro c (.cons i h args))
    (hm : MacroHead c (.cons i h args) = false)
    (hrun : expandSpine r (.cons i h args) c = (.ok v', c')) : Rel c c' ∧ NoMacro c' v' := by
  obtain ⟨hel, hhead⟩ := hcl.elems' hv hm
  unfold expandSpine at hrun
  obtain ⟨ys, c2, h1, h2⟩ := bind_eq_ok hrun
  rw [mkListM_run] at h2
  cases h2
  simp only [Val.elems, mexpList] at h1
  obtain ⟨h', c1, h3, h4⟩ := bind_eq_ok h1
  obtain ⟨ys', c2', h5, h6⟩ := bind_eq_ok h4
  cases h6
  obtain ⟨r1, n1⟩ := hr c h h' c1 (hel h (by simp [Val.elems])) h3
  obtain ⟨r2, n2⟩ := mexpList_noMacro hcl r hr args.elems ys' c1 c2
    (fun e he => hcl.stable' r1 (hel e (by simp [Val.elems, he]))) h5
  have r3 : Rel c2 { c2 with nextId := c2.nextId + (h' :: ys').length } :=
    hcl.ids ⟨rfl, Nat.le_add_right _ _⟩
  have r02 := hcl.trans r1 r2
  refine ⟨hcl.trans r02 r3, ?_⟩
  simp only [Val.mkList]
  refine .list ?_ ?_
  · -- the head of the result is not a macro
    simp only [MacroHead]
    rw [hcl.heads (hcl.trans r02 r3)]
    cases hc : h.isCons
    · rw [ha c h h' c1 hc h3]; simpa [MacroHead] using hm
    · have : h'.isCons = true := hh c h h' c1 hc (hhead hc) h3
      cases h' <;> simp [Val.isCons] at this
      rfl
  · intro e he
    have : (Val.cons c2.nextId h' (Val.mkList (c2.nextId + 1) ys' (Val.cons i h args).spine.2).1).elems
        = h' :: ys' := by
      have := congrArg Prod.fst (mkList_spine (c2.nextId) (h' :: ys') (Val.cons i h args).spine.2)
      rw [spine_fst] at this
      simpa [Val.mkList, spine_of_not_cons (spine_snd_not_cons _)] using this
    rw [this] at he
    rcases List.mem_cons.mp he with rfl | he
    · exact hcl.noMacro (hcl.trans r2 r3) n1
    · exact hcl.noMacro r3 (n2 e he)

theorem ofDepth_mexp_atom (d : Nat) (c : Ctx) (h h' : Val) (c' : Ctx) (hc : h.isCons = false)
    (hrun : (Rec.ofDepth d).mexp h c = (.ok h', c')) : h' = h := by
  cases d with
  | zero => cases hrun
  | succ d =>
    change mexpStep _ h c = _ at hrun
    rw [mexpStep_atom _ _ hc] at hrun
    cases hrun; rfl

/-- a list that is not a macro call expands to a list -/
theorem ofDepth_mexp_cons (d : Nat) (c : Ctx) (h h' : Val) (c' : Ctx) (hc : h.isCons = true)
    (hm : MacroHead c h = false) (hrun : (Rec.ofDepth d).mexp h c = (.ok h', c')) :
    h'.isCons = true := by
  cases d with
  | zero => cases hrun
  | succ d =>
    cases h with
    | cons i a dd =>
      change mexpStep (Rec.ofDepth d) (.cons i a dd) c = (.ok h', c') at hrun
      rw [mexpStep_cons, expandHead_not_macro _ _ _ _ (by simpa [MacroHead] using hm), pure_bind] at hrun
      simp only [finishExpand, expandSpine] at hrun
      obtain ⟨ys, c2, h1, h2⟩ := bind_eq_ok hrun
      rw [mkListM_run] at h2
      cases h2
      have hl := mexpList_length h1
      cases ys with
      | nil => simp [Val.elems] at hl
      | cons y ys => rfl
    | _ => simp [Val.isCons] at hc

/-- **the result of macro expansion is macro-free**, for forms of a closed class -/
theorem ofDepth_result_noMacro (hcl : ClosedClass Rel Cl) (d : Nat) (c c' : Ctx) (v v' : Val)
    (hv : Cl c v ∨ NoMacro c v) (hrun : (Rec.ofDepth d).mexp v c = (.ok v', c')) :
    Rel c c' ∧ NoMacro c' v' := by
  induction d generalizing c c' v v' with
  | zero => cases hrun
  | succ d ih =>
    change mexpStep (Rec.ofDepth d) v c = _ at hrun
    have hr : ∀ c v v' c', (Cl c v ∨ NoMacro c v) → (Rec.ofDepth d).mexp v c = (.ok v', c') →
        Rel c c' ∧ NoMacro c' v' := fun c v v' c' hv h => ih c c' v v' hv h
    cases v with
    | cons i h args =>
      rw [mexpStep_cons] at hrun
      cases hm : MacroHead c (.cons i h args)
      · rw [expandHead_not_macro _ _ _ _ (by simpa [MacroHead] using hm), pure_bind] at hrun
        exact expandSpine_noMacro hcl _ hr (ofDepth_mexp_atom d) (ofDepth_mexp_cons d)
          i h args v' c c' hv hm hrun
      · have hcv : Cl c (.cons i h args) := by
          rcases hv with hv | hv
          · exact hv
          · cases hv with
            | atom ha => cases ha
            | list hm' _ => rw [hm] at hm'; cases hm'
        rw [expandHead_macro _ _ _ _ (by simpa [MacroHead] using hm)] at hrun
        obtain ⟨x, c2, h1, h2⟩ := bind_eq_ok hrun
        obtain ⟨ex, c1, h3, h4⟩ := bind_eq_ok h1
        obtain ⟨r1, hex⟩ := hcl.apply hcv hm d ex c1 h3
        obtain ⟨r2, hx⟩ := hr c1 ex x c2 (.inl hex) h4
        cases x with
        | cons j a dd =>
          have hmx : MacroHead c2 (.cons j a dd) = false := by
            cases hx with
            | atom ha => cases ha
            | list hm' _ => exact hm'
          obtain ⟨r3, hv'⟩ := expandSpine_noMacro hcl _ hr (ofDepth_mexp_atom d) (ofDepth_mexp_cons d)
            j a dd v' c2 c' (.inr hx) hmx h2
          exact ⟨hcl.trans (hcl.trans r1 r2) r3, hv'⟩
        | _ =>
          cases h2
          exact ⟨hcl.trans r1 r2, hx⟩
    | _ =>
      cases hrun
      exact ⟨hcl.refl c, .atom rfl⟩

end

end Tulisp.C06
