/-
  Proofs/C16Tok.lean — the tokenizer invariant for C16: `MInv` is preserved by `tstep`
  (`tstep_inv`), hence the tokens of `tokenize f cs` form a `Chain` over `cs`
  (`tokenize_chain`), are well ordered (`tokenize_ordered`) and each token extends over a
  piece of the text (`token_extent`).
-/
import Tulisp.Proofs.C16Defs
namespace Tulisp.C16
open Tulisp Tulisp.C09 Tulisp.C08

/-! ## Order on positions -/

theorem PosLe.refl (a : Pos) : PosLe a a := Or.inr ⟨rfl, Nat.le_refl _⟩

theorem PosLe.trans {a b c : Pos} : PosLe a b → PosLe b c → PosLe a c := by
  unfold PosLe; omega

theorem PosLt.of_lt_of_le {a b c : Pos} : PosLt a b → PosLe b c → PosLt a c := by
  unfold PosLe PosLt; omega

theorem PosLt.of_le_of_lt {a b c : Pos} : PosLe a b → PosLt b c → PosLt a c := by
  unfold PosLe PosLt; omega

theorem PosLt.le {a b : Pos} : PosLt a b → PosLe a b := by
  unfold PosLe PosLt; omega

/-! ## Positions of prefixes -/

theorem P_nil : P [] = ⟨1, 1⟩ := rfl

theorem P_append (a b : List Char) : P (a ++ b) = b.foldl advPos (P a) := by
  simp only [P, List.foldl_append]

theorem P_snoc (a : List Char) (c : Char) : P (a ++ [c]) = advPos (P a) c := by
  simp only [P, List.foldl_append, List.foldl_cons, List.foldl_nil]

theorem P_snoc_ne (a : List Char) (c : Char) (h : c ≠ '\n') :
    P (a ++ [c]) = ⟨(P a).line, (P a).col + 1⟩ := by
  rw [P_snoc, advPos_ne _ _ h]

theorem advPos_lt (p : Pos) (c : Char) : PosLt p (advPos p c) := by
  unfold advPos PosLt
  split
  · left; show p.line < p.line + 1; omega
  · right; exact ⟨rfl, Nat.lt_succ_self _⟩

theorem foldl_advPos_le (b : List Char) : ∀ p : Pos, PosLe p (b.foldl advPos p) := by
  induction b with
  | nil => intro p; exact PosLe.refl p
  | cons c b ih =>
    intro p
    exact PosLe.trans (advPos_lt p c).le (ih (advPos p c))

theorem P_append_le (a b : List Char) : PosLe (P a) (P (a ++ b)) := by
  rw [P_append]; exact foldl_advPos_le b (P a)

theorem P_append_lt (a b : List Char) (h : b ≠ []) : PosLt (P a) (P (a ++ b)) := by
  rw [P_append]
  cases b with
  | nil => exact absurd rfl h
  | cons c b => exact PosLt.of_lt_of_le (advPos_lt (P a) c) (foldl_advPos_le b _)

/-! ## `StrEnc` -/

theorem strEnc_append {a x b y : List Char} (h1 : StrEnc a x) (h2 : StrEnc b y) :
    StrEnc (a ++ b) (x ++ y) := by
  induction h1 with
  | nil => exact h2
  | plain c h1 h2 _ ih => exact StrEnc.plain c h1 h2 ih
  | escN _ ih => exact StrEnc.escN ih
  | escT _ ih => exact StrEnc.escT ih
  | escB _ ih => exact StrEnc.escB ih
  | escQ _ ih => exact StrEnc.escQ ih

/-! ## `classify` -/

theorem classify_written (w : List Char) (i fl : Bool) (hw : w ≠ [])
    (h : isErrTok (classify w i fl) = false) : Written (classify w i fl) w := by
  unfold classify at h ⊢
  split
  next h1 =>
    rw [if_pos h1] at h
    dsimp only at h ⊢
    split
    next => exact ⟨rfl, hw⟩
    next h2 => rw [if_neg h2] at h; exact absurd h (by decide)
  next =>
    split
    next => exact ⟨String.toList_ofList.symm, hw⟩
    next => exact ⟨String.toList_ofList.symm, hw⟩

/-! ## Chains -/

theorem chain_weaken {f : Nat} {ts : List Token} : ∀ {a b : List Char} (g : List Char),
    Chain f a ts b → Chain f a ts (b ++ g) := by
  induction ts with
  | nil =>
    intro a b g h
    obtain ⟨g0, rfl⟩ := h
    exact ⟨g0 ++ g, by rw [List.append_assoc]⟩
  | cons t ts ih =>
    intro a b g h
    obtain ⟨g0, w, hg, hc⟩ := h
    exact ⟨g0, w, hg, ih g hc⟩

theorem chain_snoc {f : Nat} {t : Token} {ts : List Token} :
    ∀ {a b : List Char} {g w : List Char},
    Chain f a ts b → Good f t (b ++ g) w → Chain f a (ts ++ [t]) (b ++ g ++ w) := by
  induction ts with
  | nil =>
    intro a b g w h hg
    obtain ⟨g0, rfl⟩ := h
    refine ⟨g0 ++ g, w, ?_, ⟨[], ?_⟩⟩
    · rw [← List.append_assoc]; exact hg
    · simp only [List.append_assoc, List.append_nil]
  | cons t' ts ih =>
    intro a b g w h hg
    obtain ⟨g0, w0, hg0, hc⟩ := h
    exact ⟨g0, w0, hg0, ih hc hg⟩

theorem chain_prefix {f : Nat} {ts : List Token} : ∀ {a b : List Char},
    Chain f a ts b → ∃ r, b = a ++ r := by
  induction ts with
  | nil => intro a b h; exact h
  | cons t ts ih =>
    intro a b h
    obtain ⟨g, w, _, hc⟩ := h
    obtain ⟨r, rfl⟩ := ih hc
    exact ⟨g ++ w ++ r, by simp only [List.append_assoc]⟩

/-- Emitting a token: the chain of the reversed output grows at its end. -/
theorem chain_emit {f : Nat} {t : Token} {out : List Token} {pre p0 g w : List Char}
    (hpre : pre = p0 ++ g) (hc : Chain f [] out.reverse p0) (hg : Good f t pre w) :
    Chain f [] (t :: out).reverse (pre ++ w) := by
  subst hpre
  rw [List.reverse_cons]
  exact chain_snoc hc hg

/-! ## Building the invariant -/

theorem adv_file (s : TState) (c : Char) : (s.adv c).file = s.file := by
  unfold TState.adv; split <;> rfl

theorem adv_P {s : TState} {pre : List Char} (c : Char)
    (hp : (⟨s.line, s.col⟩ : Pos) = P pre) :
    (⟨(s.adv c).line, (s.adv c).col⟩ : Pos) = P (pre ++ [c]) := by
  rw [adv_pos, hp, P_snoc]

/-- A state that has just emitted a token and is in normal mode. -/
theorem inv_emit {f : Nat} {pre' : List Char} {s' : TState} {t : Tok} {a b : Pos}
    (hf : s'.file = f) (hp : (⟨s'.line, s'.col⟩ : Pos) = P pre') (hm : s'.mode = .normal)
    (hc : Chain f [] ((⟨t, ⟨f, a, b⟩⟩ : Token) :: s'.out).reverse pre') :
    MInv f pre' (s'.emit t a b) := by
  refine ⟨hf, hp, pre', [], (List.append_nil _).symm, ?_, ?_⟩
  · show Chain f [] ((⟨t, ⟨s'.file, a, b⟩⟩ : Token) :: s'.out).reverse pre'
    rw [hf]; exact hc
  · show ModeOk pre' pre' s'.mode
    rw [hm]; trivial

/-- A state whose mode has just been set. -/
theorem inv_mode {f : Nat} {pre' : List Char} {s' : TState} {m : Mode} (p0 g : List Char)
    (hf : s'.file = f) (hp : (⟨s'.line, s'.col⟩ : Pos) = P pre')
    (hpre : pre' = p0 ++ g) (hc : Chain f [] s'.out.reverse p0) (hm : ModeOk pre' p0 m) :
    MInv f pre' { s' with mode := m } :=
  ⟨hf, hp, p0, g, hpre, hc, hm⟩

/-- A non-error token whose span is exactly the piece `w` after `pre`. -/
theorem good_exact {f : Nat} {t : Tok} {pre w : List Char} (hw : w ≠ []) (hW : Written t w) :
    Good f ⟨t, ⟨f, P pre, P (pre ++ w)⟩⟩ pre w :=
  ⟨rfl, rfl, PosLe.refl _, P_append_le _ _, fun _ => ⟨rfl, hw, hW⟩⟩

/-- The one-character tokens of `stepNormal`. -/
theorem inv_punct {f : Nat} {pre : List Char} {s : TState} (c : Char) (t : Tok)
    (h : MInv f pre s) (hm : s.mode = .normal) (hW : Written t [c]) :
    MInv f (pre ++ [c]) ((s.adv c).emit t s.here ⟨(s.adv c).line, (s.adv c).col⟩) := by
  obtain ⟨hf, hp, p0, g, hpre, hc, _⟩ := h
  have hh : s.here = P pre := hp
  rw [adv_P c hp, hh]
  refine inv_emit ((adv_file s c).trans hf) (adv_P c hp) ((adv_mode s c).trans hm) ?_
  rw [adv_out]
  exact chain_emit hpre hc (good_exact (List.cons_ne_nil _ _) hW)

theorem stepNormal_inv {f : Nat} {pre : List Char} {s : TState} (c : Char)
    (h : MInv f pre s) (hm : s.mode = .normal) : MInv f (pre ++ [c]) (stepNormal s c) := by
  have h' := h
  obtain ⟨hf, hp, p0, g, hpre, hc, _⟩ := h'
  have hf' := (adv_file s c).trans hf
  have hp' := adv_P c hp
  have hc' : Chain f [] (s.adv c).out.reverse p0 := by rw [adv_out]; exact hc
  have hcpre : Chain f [] (s.adv c).out.reverse pre := by
    rw [hpre]; exact chain_weaken g hc'
  unfold stepNormal
  conv => zeta
  by_cases h1 : (decide (c = '\n') || decide (c = ' ') || decide (c = '\r') || decide (c = '\t')) = true
  · -- whitespace
    rw [if_pos h1]
    refine ⟨hf', hp', p0, g ++ [c], by rw [hpre, List.append_assoc], hc', ?_⟩
    rw [adv_mode, hm]; trivial
  rw [if_neg h1]
  by_cases h2 : c = '('
  · rw [if_pos h2]; subst h2; exact inv_punct _ _ h hm rfl
  rw [if_neg h2]
  by_cases h3 : c = ')'
  · rw [if_pos h3]; subst h3; exact inv_punct _ _ h hm rfl
  rw [if_neg h3]
  by_cases h4 : c = '\''
  · rw [if_pos h4]; subst h4; exact inv_punct _ _ h hm rfl
  rw [if_neg h4]
  by_cases h5 : c = '`'
  · rw [if_pos h5]; subst h5; exact inv_punct _ _ h hm rfl
  rw [if_neg h5]
  by_cases h6 : c = '.'
  · rw [if_pos h6]; subst h6; exact inv_punct _ _ h hm rfl
  rw [if_neg h6]
  by_cases h7 : c = '#'
  · rw [if_pos h7]; subst h7
    exact inv_mode pre ['#'] hf' hp' rfl hcpre rfl
  rw [if_neg h7]
  by_cases h8 : c = ','
  · rw [if_pos h8]; subst h8
    exact inv_mode pre [','] hf' hp' rfl hcpre rfl
  rw [if_neg h8]
  by_cases h9 : c = '"'
  · rw [if_pos h9]; subst h9
    refine inv_mode (pre ++ ['"']) [] hf' hp' (List.append_nil _).symm (chain_weaken _ hcpre) ?_
    exact ⟨pre, [], rfl, (List.append_nil _).symm, hp', StrEnc.nil⟩
  rw [if_neg h9]
  by_cases h10 : c = ';'
  · rw [if_pos h10]
    exact inv_mode p0 (g ++ [c]) hf' hp' (by rw [hpre, List.append_assoc]) hc' trivial
  rw [if_neg h10]
  generalize (if c = '-' then (true, false) else if c.isDigit = true then (true, false)
      else (false, false) : Bool × Bool) = fl
  obtain ⟨i, fl⟩ := fl
  exact inv_mode pre [c] hf' hp' rfl hcpre ⟨rfl, hp, List.cons_ne_nil _ _⟩

/-! ## Positions computed by subtraction -/

theorem pos_back1 {l k : Nat} {x : List Char} {a : Char} (ha : a ≠ '\n')
    (h : (⟨l, k⟩ : Pos) = P (x ++ [a])) : (⟨l, k - 1⟩ : Pos) = P x := by
  rw [P_snoc_ne _ _ ha] at h
  generalize P x = q at h ⊢
  obtain ⟨ql, qc⟩ := q
  simp only [Pos.mk.injEq] at h ⊢
  omega

theorem pos_back2 {l k : Nat} {x : List Char} {a b : Char} (ha : a ≠ '\n') (hb : b ≠ '\n')
    (h : (⟨l, k⟩ : Pos) = P (x ++ [a] ++ [b])) : (⟨l, k - 2⟩ : Pos) = P x := by
  rw [P_snoc_ne _ _ hb, P_snoc_ne _ _ ha] at h
  generalize P x = q at h ⊢
  obtain ⟨ql, qc⟩ := q
  simp only [Pos.mk.injEq] at h ⊢
  omega

theorem esc_pos {q : Pos} {c : Char} {l k : Nat} (h : (⟨l, k⟩ : Pos) = advPos q c) :
    PosLe q ⟨l, k - 1⟩ ∧ PosLe ⟨l, k - 1⟩ ⟨l, k⟩ := by
  obtain ⟨ql, qc⟩ := q
  unfold advPos at h
  split at h <;> simp only [Pos.mk.injEq] at h <;> simp only [PosLe, true_and] <;> omega

/-- A token whose start is the position after `pre` and whose end is the position after
    `pre ++ w`. -/
theorem good_of {f : Nat} {t : Tok} {a b : Pos} {pre w : List Char} (hs : a = P pre)
    (he : b = P (pre ++ w)) (hx : isErrTok t = false → w ≠ [] ∧ Written t w) :
    Good f ⟨t, ⟨f, a, b⟩⟩ pre w := by
  subst hs he
  exact ⟨rfl, rfl, PosLe.refl _, P_append_le _ _, fun h => ⟨rfl, hx h⟩⟩

/-! ## The modes `hash` and `comma` -/

/-- `#'` and `,@`. -/
theorem inv_two {f : Nat} {pre p0 : List Char} {s : TState} (a c : Char) (t : Tok)
    (hf : s.file = f) (hp : (⟨s.line, s.col⟩ : Pos) = P pre) (hpre : pre = p0 ++ [a])
    (hc : Chain f [] s.out.reverse p0) (ha : a ≠ '\n') (hcn : c ≠ '\n') (hW : Written t [a, c]) :
    MInv f (pre ++ [c]) ({ s.adv c with mode := .normal }.emit t
      ⟨(s.adv c).line, (s.adv c).col - 2⟩ ⟨(s.adv c).line, (s.adv c).col⟩) := by
  have hp' := adv_P c hp
  refine inv_emit ((adv_file s c).trans hf) hp' rfl ?_
  show Chain f [] (_ :: (s.adv c).out).reverse (pre ++ [c])
  rw [adv_out]
  have e : pre ++ [c] = p0 ++ [a, c] := by rw [hpre, List.append_assoc]; rfl
  rw [e]
  refine chain_emit (List.append_nil p0).symm hc (good_of ?_ ?_ fun _ => ⟨List.cons_ne_nil _ _, hW⟩)
  · rw [hpre] at hp'; exact pos_back2 ha hcn hp'
  · rw [hp', e]

/-- The token that a pending `#` or `,` yields when the next character does not extend it. -/
theorem inv_one {f : Nat} {pre p0 : List Char} {s : TState} (a : Char) (t : Tok)
    (hf : s.file = f) (hp : (⟨s.line, s.col⟩ : Pos) = P pre) (hpre : pre = p0 ++ [a])
    (hc : Chain f [] s.out.reverse p0) (ha : a ≠ '\n') (hW : isErrTok t = false → Written t [a]) :
    MInv f pre ({ s with mode := .normal }.emit t ⟨s.line, s.col - 1⟩ ⟨s.line, s.col⟩) := by
  refine inv_emit hf hp rfl ?_
  show Chain f [] (_ :: s.out).reverse pre
  rw [hpre]
  refine chain_emit (List.append_nil p0).symm hc
    (good_of ?_ ?_ fun h => ⟨List.cons_ne_nil _ _, hW h⟩)
  · rw [hpre] at hp; exact pos_back1 ha hp
  · rw [hp, hpre]

theorem tstep_inv_hash {f : Nat} {pre : List Char} {s : TState} (c : Char) (h : MInv f pre s)
    (hm : s.mode = .hash) : MInv f (pre ++ [c]) (tstep s c) := by
  obtain ⟨hf, hp, p0, g, hpre, hc, hmo⟩ := h
  rw [hm] at hmo
  have hpre' : pre = p0 ++ ['#'] := hmo
  unfold tstep
  rw [hm]
  show MInv f (pre ++ [c]) (if c = '\'' then _ else _)
  by_cases h1 : c = '\''
  · rw [if_pos h1]; subst h1
    exact inv_two '#' '\'' .sharpquote hf hp hpre' hc (by decide) (by decide) rfl
  · rw [if_neg h1]
    exact stepNormal_inv c
      (inv_one '#' _ hf hp hpre' hc (by decide) (fun h => Bool.noConfusion h)) rfl

theorem tstep_inv_comma {f : Nat} {pre : List Char} {s : TState} (c : Char) (h : MInv f pre s)
    (hm : s.mode = .comma) : MInv f (pre ++ [c]) (tstep s c) := by
  obtain ⟨hf, hp, p0, g, hpre, hc, hmo⟩ := h
  rw [hm] at hmo
  have hpre' : pre = p0 ++ [','] := hmo
  unfold tstep
  rw [hm]
  show MInv f (pre ++ [c]) (if c = '@' then _ else _)
  by_cases h1 : c = '@'
  · rw [if_pos h1]; subst h1
    exact inv_two ',' '@' .splice hf hp hpre' hc (by decide) (by decide) rfl
  · rw [if_neg h1]
    exact stepNormal_inv c (inv_one ',' .comma hf hp hpre' hc (by decide) (fun _ => rfl)) rfl

/-! ## The other modes -/

theorem tstep_inv_comment {f : Nat} {pre : List Char} {s : TState} (c : Char) (h : MInv f pre s)
    (hm : s.mode = .comment) : MInv f (pre ++ [c]) (tstep s c) := by
  obtain ⟨hf, hp, p0, g, hpre, hc, _⟩ := h
  have hf' := (adv_file s c).trans hf
  have hp' := adv_P c hp
  have hc' : Chain f [] (s.adv c).out.reverse p0 := by rw [adv_out]; exact hc
  have e : pre ++ [c] = p0 ++ (g ++ [c]) := by rw [hpre, List.append_assoc]
  unfold tstep
  rw [hm]
  show MInv f (pre ++ [c]) (if c = '\n' then _ else _)
  by_cases h1 : c = '\n'
  · rw [if_pos h1]
    exact inv_mode p0 (g ++ [c]) hf' hp' e hc' trivial
  · rw [if_neg h1]
    refine ⟨hf', hp', p0, g ++ [c], e, hc', ?_⟩
    rw [adv_mode, hm]; trivial

theorem tstep_inv_str {f : Nat} {pre : List Char} {s : TState} (c : Char) (h : MInv f pre s)
    {start : Pos} {acc : List Char} (hm : s.mode = .str start acc) :
    MInv f (pre ++ [c]) (tstep s c) := by
  obtain ⟨hf, hp, p0, g, hpre, hc, hmo⟩ := h
  rw [hm] at hmo
  obtain ⟨p1, raw, hp0, hpre', hstart, henc⟩ := hmo
  have hf' := (adv_file s c).trans hf
  have hp' := adv_P c hp
  have hc' : Chain f [] (s.adv c).out.reverse p0 := by rw [adv_out]; exact hc
  have e : pre ++ [c] = p0 ++ (raw ++ [c]) := by rw [hpre', List.append_assoc]
  unfold tstep
  rw [hm]
  show MInv f (pre ++ [c]) (if c = '\\' then _ else if c = '"' then _ else _)
  by_cases h1 : c = '\\'
  · rw [if_pos h1]
    refine inv_mode p0 (raw ++ [c]) hf' hp' e hc' ?_
    subst h1
    exact ⟨p1, raw, hp0, by rw [hpre'], hstart, henc⟩
  rw [if_neg h1]
  by_cases h2 : c = '"'
  · rw [if_pos h2]
    subst h2
    refine inv_emit hf' hp' rfl ?_
    show Chain f [] (_ :: (s.adv '"').out).reverse (pre ++ ['"'])
    rw [adv_out, e]
    refine chain_emit (List.append_nil p0).symm hc (good_of hstart ?_ fun _ => ⟨?_, raw, rfl, ?_⟩)
    · rw [hp', e]
    · exact fun h => List.cons_ne_nil _ _ (List.append_eq_nil_iff.mp h).2
    · rw [String.toList_ofList]; exact henc
  · rw [if_neg h2]
    refine inv_mode p0 (raw ++ [c]) hf' hp' e hc' ⟨p1, raw ++ [c], hp0, e, hstart, ?_⟩
    rw [List.reverse_cons]
    exact strEnc_append henc (StrEnc.plain c h1 h2 StrEnc.nil)

theorem tstep_inv_strEsc {f : Nat} {pre : List Char} {s : TState} (c : Char) (h : MInv f pre s)
    {start : Pos} {acc : List Char} (hm : s.mode = .strEsc start acc) :
    MInv f (pre ++ [c]) (tstep s c) := by
  obtain ⟨hf, hp, p0, g, hpre, hc, hmo⟩ := h
  rw [hm] at hmo
  obtain ⟨p1, raw, hp0, hpre', hstart, henc⟩ := hmo
  have hf' := (adv_file s c).trans hf
  have hp' := adv_P c hp
  have hc' : Chain f [] (s.adv c).out.reverse p0 := by rw [adv_out]; exact hc
  have e : pre ++ [c] = p0 ++ (raw ++ ['\\', c]) := by
    rw [hpre']; simp only [List.append_assoc, List.cons_append, List.nil_append]
  -- the four valid escapes
  have ok : ∀ ch : Char, StrEnc ['\\', c] [ch] →
      MInv f (pre ++ [c]) { s.adv c with mode := .str start (ch :: acc) } := by
    intro ch hch
    refine inv_mode p0 (raw ++ ['\\', c]) hf' hp' e hc' ⟨p1, raw ++ ['\\', c], hp0, e, hstart, ?_⟩
    rw [List.reverse_cons]
    exact strEnc_append henc hch
  unfold tstep
  rw [hm]
  show MInv f (pre ++ [c]) (if c = 'n' then _ else if c = 't' then _ else if c = '\\' then _
    else if c = '"' then _ else _)
  by_cases h1 : c = 'n'
  · rw [if_pos h1]; exact ok _ (by rw [h1]; exact StrEnc.escN StrEnc.nil)
  rw [if_neg h1]
  by_cases h2 : c = 't'
  · rw [if_pos h2]; exact ok _ (by rw [h2]; exact StrEnc.escT StrEnc.nil)
  rw [if_neg h2]
  by_cases h3 : c = '\\'
  · rw [if_pos h3]; exact ok _ (by rw [h3]; exact StrEnc.escB StrEnc.nil)
  rw [if_neg h3]
  by_cases h4 : c = '"'
  · rw [if_pos h4]; exact ok _ (by rw [h4]; exact StrEnc.escQ StrEnc.nil)
  rw [if_neg h4]
  -- the error token
  refine inv_emit hf' hp' rfl ?_
  show Chain f [] (_ :: (s.adv c).out).reverse (pre ++ [c])
  rw [adv_out]
  have hpre2 : pre = p0 ++ (raw ++ ['\\']) := by rw [hpre', List.append_assoc]
  have hq : (⟨(s.adv c).line, (s.adv c).col⟩ : Pos) = advPos (P pre) c := by rw [hp', P_snoc]
  refine chain_emit hpre2 hc ⟨rfl, hp', ?_, ?_, fun h => Bool.noConfusion h⟩
  · exact (esc_pos hq).1
  · exact (esc_pos hq).2

theorem tstep_inv_numIdent {f : Nat} {pre : List Char} {s : TState} (c : Char) (h : MInv f pre s)
    {start : Pos} {acc : List Char} {isInt isFloat : Bool}
    (hm : s.mode = .numIdent start acc isInt isFloat) :
    MInv f (pre ++ [c]) (tstep s c) := by
  obtain ⟨hf, hp, p0, g, hpre, hc, hmo⟩ := h
  rw [hm] at hmo
  obtain ⟨hpre', hstart, hne⟩ := hmo
  have hf' := (adv_file s c).trans hf
  have hp' := adv_P c hp
  have hc' : Chain f [] (s.adv c).out.reverse p0 := by rw [adv_out]; exact hc
  have e : pre ++ [c] = p0 ++ (c :: acc).reverse := by
    rw [hpre', List.reverse_cons, List.append_assoc]
  have more : ∀ i fl : Bool,
      MInv f (pre ++ [c]) { s.adv c with mode := .numIdent start (c :: acc) i fl } :=
    fun i fl => inv_mode p0 _ hf' hp' e hc' ⟨e, hstart, List.cons_ne_nil _ _⟩
  unfold tstep
  rw [hm]
  show MInv f (pre ++ [c]) (if isBreak c = true then _ else if c = '-' then _
    else if c.isDigit = true then _ else if c = '.' then (if (isInt && !isFloat) = true then _ else _)
    else _)
  by_cases h1 : isBreak c = true
  · rw [if_pos h1]
    refine stepNormal_inv c (inv_emit hf hp rfl ?_) rfl
    show Chain f [] (_ :: s.out).reverse pre
    rw [hpre']
    refine chain_emit (List.append_nil p0).symm hc (good_of hstart ?_ fun hx => ?_)
    · show (⟨s.line, s.col⟩ : Pos) = _
      rw [hp, hpre']
    · have hw : acc.reverse ≠ [] := fun h => hne (List.reverse_eq_nil_iff.mp h)
      exact ⟨hw, classify_written _ _ _ hw hx⟩
  rw [if_neg h1]
  by_cases h2 : c = '-'
  · rw [if_pos h2]; exact more _ _
  rw [if_neg h2]
  by_cases h3 : c.isDigit = true
  · rw [if_pos h3]; exact more _ _
  rw [if_neg h3]
  by_cases h4 : c = '.'
  · rw [if_pos h4]
    by_cases h5 : (isInt && !isFloat) = true
    · rw [if_pos h5]; exact more _ _
    · rw [if_neg h5]; exact more _ _
  · rw [if_neg h4]; exact more _ _

/-! ## The invariant -/

/-- `MInv` is preserved by every step of the tokenizer. -/
theorem tstep_inv {f : Nat} {pre : List Char} {s : TState} (c : Char) (h : MInv f pre s) :
    MInv f (pre ++ [c]) (tstep s c) := by
  cases hm : s.mode with
  | normal => unfold tstep; rw [hm]; exact stepNormal_inv c h hm
  | comment => exact tstep_inv_comment c h hm
  | hash => exact tstep_inv_hash c h hm
  | comma => exact tstep_inv_comma c h hm
  | str start acc => exact tstep_inv_str c h hm
  | strEsc start acc => exact tstep_inv_strEsc c h hm
  | numIdent start acc i fl => exact tstep_inv_numIdent c h hm

theorem init_inv (f : Nat) : MInv f [] { file := f } :=
  ⟨rfl, rfl, [], [], rfl, ⟨[], rfl⟩, trivial⟩

theorem foldl_inv {f : Nat} (cs : List Char) : ∀ {pre : List Char} {s : TState},
    MInv f pre s → MInv f (pre ++ cs) (cs.foldl tstep s) := by
  induction cs with
  | nil => intro pre s h; rw [List.append_nil]; exact h
  | cons c cs ih =>
    intro pre s h
    have := ih (tstep_inv c h)
    rw [List.append_assoc] at this
    exact this

theorem run_inv (f : Nat) (cs : List Char) : MInv f cs (cs.foldl tstep { file := f }) :=
  foldl_inv cs (init_inv f)

/-! ## End of input -/

theorem tfinish_chain {f : Nat} {cs : List Char} {s : TState} (h : MInv f cs s) :
    Chain f [] (tfinish s) cs := by
  obtain ⟨hf, hp, p0, g, hpre, hc, hmo⟩ := h
  have plain : Chain f [] s.out.reverse cs := by rw [hpre]; exact chain_weaken g hc
  cases hm : s.mode with
  | normal => unfold tfinish; rw [hm]; exact plain
  | comment => unfold tfinish; rw [hm]; exact plain
  | hash => unfold tfinish; rw [hm]; exact plain
  | comma => unfold tfinish; rw [hm]; exact plain
  | strEsc start acc => unfold tfinish; rw [hm]; exact plain
  | str start acc =>
    rw [hm] at hmo
    obtain ⟨p1, raw, hp0, hpre', hstart, henc⟩ := hmo
    unfold tfinish; rw [hm]
    show Chain f [] ((⟨_, ⟨s.file, start, s.here⟩⟩ : Token) :: s.out).reverse cs
    rw [hf, hpre']
    refine chain_emit (List.append_nil p0).symm hc (good_of hstart ?_ fun hx => Bool.noConfusion hx)
    show (⟨s.line, s.col⟩ : Pos) = _
    rw [hp, hpre']
  | numIdent start acc i fl =>
    rw [hm] at hmo
    obtain ⟨hpre', hstart, hne⟩ := hmo
    unfold tfinish; rw [hm]
    show Chain f [] ((⟨_, ⟨s.file, start, s.here⟩⟩ : Token) :: s.out).reverse cs
    rw [hf, hpre']
    refine chain_emit (List.append_nil p0).symm hc (good_of hstart ?_ fun hx => ?_)
    · show (⟨s.line, s.col⟩ : Pos) = _
      rw [hp, hpre']
    · have hw : acc.reverse ≠ [] := fun h => hne (List.reverse_eq_nil_iff.mp h)
      exact ⟨hw, classify_written _ _ _ hw hx⟩

/-- The tokens of a text extend, in order, over disjoint consecutive pieces of it. -/
theorem tokenize_chain (f : Nat) (cs : List Char) : Chain f [] (tokenize f cs) cs :=
  tfinish_chain (run_inv f cs)

/-! ## Consequences of `Chain` -/

theorem chain_mem {f : Nat} {a : List Char} {ts : List Token} {b : List Char} {t : Token}
    (h : Chain f a ts b) (ht : t ∈ ts) :
    ∃ g w r, Good f t (a ++ g) w ∧ b = a ++ g ++ w ++ r := by
  induction ts generalizing a with
  | nil => cases ht
  | cons t' ts ih =>
    obtain ⟨g, w, hg, hc⟩ := h
    rcases List.mem_cons.mp ht with rfl | ht'
    · obtain ⟨r, hr⟩ := chain_prefix hc
      exact ⟨g, w, r, hg, hr⟩
    · obtain ⟨g', w', r', hg', hb⟩ := ih hc ht'
      refine ⟨g ++ w ++ g', w', r', ?_, ?_⟩
      · have e : a ++ (g ++ w ++ g') = a ++ g ++ w ++ g' := by simp only [List.append_assoc]
        rw [e]; exact hg'
      · rw [hb]; simp only [List.append_assoc]

theorem good_le {f : Nat} {t : Token} {p w : List Char} (h : Good f t p w) :
    PosLe t.sp.s t.sp.e ∧ (isErrTok t.tok = false → PosLt t.sp.s t.sp.e) := by
  refine ⟨h.sHi, fun hx => ?_⟩
  obtain ⟨hs, hw, _⟩ := h.exact hx
  rw [hs, h.e]
  exact P_append_lt p w hw

theorem chain_pair {f : Nat} {ts : List Token} : ∀ {a b : List Char}, Chain f a ts b →
    ts.Pairwise (fun x y => PosLe x.sp.e y.sp.s) := by
  induction ts with
  | nil => intro a b _; exact List.Pairwise.nil
  | cons t ts ih =>
    intro a b h
    obtain ⟨g, w, hg, hc⟩ := h
    refine List.Pairwise.cons (fun t' ht' => ?_) (ih hc)
    obtain ⟨g', w', r', hg', _⟩ := chain_mem hc ht'
    rw [hg.e]
    exact PosLe.trans (P_append_le _ g') hg'.sLo

theorem chain_ordered {f : Nat} {a : List Char} {ts : List Token} {b : List Char}
    (h : Chain f a ts b) : TokOrdered ts := by
  refine ⟨fun t ht => ?_, chain_pair h⟩
  obtain ⟨g, w, r, hg, _⟩ := chain_mem h ht
  exact good_le hg

/-- Token spans of a tokenized text are well ordered. -/
theorem tokenize_ordered (f : Nat) (cs : List Char) : TokOrdered (tokenize f cs) :=
  chain_ordered (tokenize_chain f cs)

/-- Every token of a tokenized text extends over a piece `w` of it (after a prefix `p`). -/
theorem token_extent (f : Nat) (cs : List Char) (t : Token) (ht : t ∈ tokenize f cs) :
    ∃ p w r, cs = p ++ w ++ r ∧ Good f t p w := by
  obtain ⟨g, w, r, hg, hb⟩ := chain_mem (tokenize_chain f cs) ht
  rw [List.nil_append] at hg hb
  exact ⟨g, w, r, hb, hg⟩

/-! ## Non-vacuity -/

/-- The hypothesis of `tstep_inv` holds initially … -/
example : MInv 7 [] { file := 7 } := init_inv 7
/-- … and after any text, e.g. in the middle of a string literal. -/
example : MInv 7 ['(', '"', 'a', '\\'] (['(', '"', 'a', '\\'].foldl tstep { file := 7 }) :=
  run_inv 7 _
/-- A concrete chain: `(a` is an open parenthesis followed by an identifier. -/
example : Chain 0 [] (tokenize 0 ['(', 'a']) ['(', 'a'] := tokenize_chain 0 _

end Tulisp.C16
