/-
  Proofs/C09Print.lean — C09 part C: the printed form of a data value is a valid layout of the
  tokens of the datum it denotes, hence reading it back gives a tree denoting the same value.
-/
import Tulisp.Proofs.C09Parse
import Tulisp.Proofs.C09Tok
import Tulisp.Model.Printer
namespace Tulisp.C09
open Tulisp

/-! ## Data values and the data they denote -/

/-- A symbol name that prints readably: reads back as that identifier, is not one of the
    constants, and does not start with `@` (`,@foo` is a splice, not `,` followed by `@foo`). -/
structure SymOk (name : String) : Prop where
  ident : IdentOk name.toList
  notT : name ≠ "t"
  notNil : name ≠ "nil"
  noAt : ∀ c ∈ name.toList.head?, c ≠ '@'

/-- Data values of the float-free fragment: integers, strings, symbols with readable names,
    `nil`, `t`, conses (proper and dotted lists) and the four shorthands. -/
inductive PVal (c : Ctx) : Val → Prop
  | nil : PVal c .nil
  | t : PVal c .t
  | int (n : Int) : inI64 n = true → PVal c (.int n)
  | str (i : Nat) (s : String) : PVal c (.str i s)
  | sym (n : Nat) : SymOk (c.symName n) → PVal c (.sym n)
  | cons (i : Nat) {a d : Val} : PVal c a → PVal c d → PVal c (.cons i a d)
  | quote {v : Val} : PVal c v → PVal c (.quote v)
  | backquote {v : Val} : PVal c v → PVal c (.backquote v)
  | unquote {v : Val} : PVal c v → PVal c (.unquote v)
  | splice {v : Val} : PVal c v → PVal c (.splice v)

/-- The datum an atom is written as. -/
def atomD (c : Ctx) : Val → D
  | .nil => .sym "nil"
  | .t => .sym "t"
  | .int n => .int n
  | .str _ s => .str s
  | .sym n => .sym (c.symName n)
  | _ => .sym "?"

mutual
/-- The datum a value is written as: a cons chain is a list of its elements, with a dotted tail
    unless the chain ends in `nil`. -/
def dOf (c : Ctx) : Val → D
  | .cons _ a d => .list (dOf c a :: itemsOf c d) (tailOf c d)
  | .quote v => .quote (dOf c v)
  | .backquote v => .backquote (dOf c v)
  | .unquote v => .unquote (dOf c v)
  | .splice v => .splice (dOf c v)
  | other => atomD c other
def itemsOf (c : Ctx) : Val → List D
  | .cons _ a d => dOf c a :: itemsOf c d
  | _ => []
def tailOf (c : Ctx) : Val → Option D
  | .cons _ _ d => tailOf c d
  | .nil => none
  | .quote v => some (.quote (dOf c v))
  | .backquote v => some (.backquote (dOf c v))
  | .unquote v => some (.unquote (dOf c v))
  | .splice v => some (.splice (dOf c v))
  | other => some (atomD c other)
end


/-! ## The printed text as a layout -/

/-- nothing, or something starting with a character that ends a number/identifier -/
def BreakStart (l : List Char) : Prop := l = [] ∨ ∃ c r, l = c :: r ∧ isBreak c = true
/-- non-empty and not starting with `@` -/
def FirstOk (l : List Char) : Prop := ∃ c r, l = c :: r ∧ c ≠ '@'

/-- What we need to know about the printed form of a value in element position. -/
def LayV (c : Ctx) (v : Val) : Prop :=
  ∃ str, printV c v = some str ∧ FirstOk str.toList ∧
    ∀ sep after, Sep sep → BreakStart (sep ++ after) →
      ∃ items, str.toList ++ (sep ++ after) = layout items after ∧ Valid items after ∧
        items.map Item.tok = toks (dOf c v)

/-- … and in rest-of-list position (`printRest`): a leading separator `sep0`, then a layout of
    the remaining items, the dotted tail and the closing parenthesis. -/
def LayR (c : Ctx) (d : Val) : Prop :=
  ∃ r sep0, printRest c d = some r ∧ Sep sep0 ∧
    (∃ ch rr, r.toList = ch :: rr ∧ isBreak ch = true) ∧
    ∀ sep after, Sep sep →
      ∃ items, r.toList ++ (sep ++ after) = sep0 ++ layout items after ∧ Valid items after ∧
        items.map Item.tok = toksItems (itemsOf c d) ++ (toksTail (tailOf c d) ++ [.close])

/-- What we need to know about an atom. -/
structure AtomLay (c : Ctx) (v : Val) (w : List Char) (t : Tok) : Prop where
  print : printAtom c v = some (String.ofList w)
  rend : Renders t w
  toks : toks (atomD c v) = [t]
  first : FirstOk w
  compat : ∀ X, BreakStart X → Compat t X

theorem sep_space : Sep [' '] := Sep.ws ' ' (by decide) Sep.nil

theorem renderInt_head (n : Int) : ∃ ch r, renderInt n = ch :: r ∧ (ch = '-' ∨ ch.isDigit = true) := by
  cases n with
  | ofNat m =>
    simp only [renderInt, digits]
    cases h : Nat.toDigits 10 m with
    | nil => exact (Nat.toDigits_ne_nil h).elim
    | cons ch r =>
      exact ⟨ch, r, rfl, Or.inr (Nat.isDigit_of_mem_toDigits (b := 10) (n := m) (by decide) (by decide)
        (by rw [h]; simp))⟩
  | negSucc m => exact ⟨'-', _, rfl, Or.inl rfl⟩

theorem atomLay_nil (c : Ctx) : AtomLay c .nil ['n', 'i', 'l'] (.ident "nil") where
  print := rfl
  rend := by
    have h := Renders.word ['n', 'i', 'l'] ⟨by simp, by decide, by decide⟩
    exact h
  toks := rfl
  first := ⟨'n', _, rfl, by decide⟩
  compat := fun X h => h

theorem atomLay_t (c : Ctx) : AtomLay c .t ['t'] (.ident "t") where
  print := rfl
  rend := by
    have h := Renders.word ['t'] ⟨by simp, by decide, by decide⟩
    exact h
  toks := rfl
  first := ⟨'t', _, rfl, by decide⟩
  compat := fun X h => h

theorem atomLay_int (c : Ctx) (n : Int) (h : inI64 n = true) :
    AtomLay c (.int n) (renderInt n) (.int n) where
  print := by
    simp only [printAtom]
    rw [← toString_int_toList, String.ofList_toList]
  rend := renders_render (.int n) h
  toks := rfl
  first := by
    obtain ⟨ch, r, h1, h2⟩ := renderInt_head n
    refine ⟨ch, r, h1, ?_⟩
    rcases h2 with rfl | h2
    · decide
    · intro e; subst e; simp at h2
  compat := fun X h => h

theorem atomLay_str (c : Ctx) (i : Nat) (s : String) :
    AtomLay c (.str i s) (renderString s) (.str s) where
  print := by
    simp only [printAtom]
    rw [← escapeString_toList, String.ofList_toList]
  rend := renders_render (.str s) trivial
  toks := rfl
  first := ⟨'"', _, rfl, by decide⟩
  compat := fun X _ => trivial

theorem atomLay_sym (c : Ctx) (n : Nat) (h : SymOk (c.symName n)) :
    AtomLay c (.sym n) (c.symName n).toList (.ident (c.symName n)) where
  print := by simp only [printAtom, String.ofList_toList]
  rend := renders_render (.ident (c.symName n)) h.ident
  toks := rfl
  first := by
    have hne := h.ident.1.ne
    cases hw : (c.symName n).toList with
    | nil => exact (hne hw).elim
    | cons ch r => exact ⟨ch, r, rfl, h.noAt ch (by rw [hw]; simp)⟩
  compat := fun X h => h

theorem layV_of_atom {c : Ctx} {v : Val} {w : List Char} {t : Tok} (ha : AtomLay c v w t)
    (hp : printV c v = printAtom c v) (hd : dOf c v = atomD c v) : LayV c v := by
  refine ⟨String.ofList w, by rw [hp, ha.print], by rw [String.toList_ofList]; exact ha.first, ?_⟩
  intro sep after hs hb
  refine ⟨[⟨t, w, sep⟩], by simp [layout], ?_, by rw [hd, ha.toks]; rfl⟩
  simp only [Valid, layout, and_true]
  exact ⟨ha.rend, hs, ha.compat _ hb⟩

theorem layR_of_atom {c : Ctx} {v : Val} {w : List Char} {t : Tok} (ha : AtomLay c v w t)
    (hp : printRest c v = (printAtom c v).bind (fun a => some (" . " ++ a ++ ")")))
    (hi : itemsOf c v = []) (ht : tailOf c v = some (atomD c v)) : LayR c v := by
  refine ⟨" . " ++ String.ofList w ++ ")", [' '], by rw [hp, ha.print]; rfl, sep_space,
    ⟨' ', _, by simp [String.toList_append]; rfl, by decide⟩, ?_⟩
  intro sep after hs
  refine ⟨[⟨.dot, ['.'], [' ']⟩, ⟨t, w, []⟩, ⟨.close, [')'], sep⟩], ?_, ?_, ?_⟩
  · simp [layout, String.toList_append]
  · simp only [Valid, layout, and_true, List.nil_append]
    exact ⟨Renders.dot, sep_space, trivial, ha.rend, Sep.nil,
      ha.compat _ (Or.inr ⟨')', _, rfl, by decide⟩), Renders.close, hs, trivial⟩
  · rw [hi, ht]; simp [toksItems, toksTail, ha.toks]


theorem breakStart_of_head {r X : List Char} (h : ∃ ch rr, r = ch :: rr ∧ isBreak ch = true) :
    BreakStart (r ++ X) := by
  obtain ⟨ch, rr, rfl, hb⟩ := h
  exact Or.inr ⟨ch, rr ++ X, rfl, hb⟩

theorem layV_cons {c : Ctx} (i : Nat) {a d : Val} (ha : LayV c a) (hd : LayR c d) :
    LayV c (.cons i a d) := by
  obtain ⟨sa, hpa, _, hla⟩ := ha
  obtain ⟨r, sep0, hpr, hs0, hbr, hlr⟩ := hd
  refine ⟨"(" ++ sa ++ r, by simp [printV, hpa, hpr], ⟨'(', _, by simp [String.toList_append]; rfl, by decide⟩, ?_⟩
  intro sep after hs _
  obtain ⟨ir, h1, h2, h3⟩ := hlr sep after hs
  obtain ⟨ia, h4, h5, h6⟩ := hla sep0 (layout ir after) hs0 (by rw [← h1]; exact breakStart_of_head hbr)
  refine ⟨⟨.open, ['('], []⟩ :: (ia ++ ir), ?_, ?_, ?_⟩
  · simp only [layout, layout_append, ← h4, ← h1, String.toList_append]
    simp
  · simp only [Valid, valid_append]
    exact ⟨Renders.open, Sep.nil, trivial, h5, h2⟩
  · simp only [List.map_cons, List.map_append, h6, h3, dOf, toks, toksItems, List.append_assoc]

theorem layR_cons {c : Ctx} (i : Nat) {a d : Val} (ha : LayV c a) (hd : LayR c d) :
    LayR c (.cons i a d) := by
  obtain ⟨sa, hpa, _, hla⟩ := ha
  obtain ⟨r, sep0, hpr, hs0, hbr, hlr⟩ := hd
  refine ⟨" " ++ sa ++ r, [' '], by simp [printRest, hpa, hpr], sep_space,
    ⟨' ', _, by simp [String.toList_append]; rfl, by decide⟩, ?_⟩
  intro sep after hs
  obtain ⟨ir, h1, h2, h3⟩ := hlr sep after hs
  obtain ⟨ia, h4, h5, h6⟩ := hla sep0 (layout ir after) hs0 (by rw [← h1]; exact breakStart_of_head hbr)
  refine ⟨ia ++ ir, ?_, ?_, ?_⟩
  · simp only [layout_append, ← h4, ← h1, String.toList_append]
    simp
  · simp only [valid_append]
    exact ⟨h5, h2⟩
  · simp only [List.map_append, h6, h3, itemsOf, tailOf, toksItems, List.append_assoc]

theorem layR_nil (c : Ctx) : LayR c .nil := by
  refine ⟨")", [], rfl, Sep.nil, ⟨')', [], rfl, by decide⟩, ?_⟩
  intro sep after hs
  exact ⟨[⟨.close, [')'], sep⟩], rfl, ⟨Renders.close, hs, trivial, trivial⟩, rfl⟩

/-- shorthand in element position: `'x`, `` `x ``, `,x`, `,@x` -/
theorem layV_wrap {c : Ctx} {v w : Val} (pre : String) (t : Tok) (mk : D → D)
    (hr : Renders t pre.toList) (hne : FirstOk pre.toList)
    (hc : ∀ X, FirstOk X → Compat t X)
    (hp : ∀ sv, printV c v = some sv → printV c w = some (pre ++ sv))
    (hd : dOf c w = mk (dOf c v)) (ht : ∀ d, toks (mk d) = t :: toks d)
    (hv : LayV c v) : LayV c w := by
  obtain ⟨sv, hpv, hfv, hlv⟩ := hv
  refine ⟨pre ++ sv, hp sv hpv, ?_, ?_⟩
  · obtain ⟨ch, r, h1, h2⟩ := hne
    exact ⟨ch, r ++ sv.toList, by simp [String.toList_append, h1], h2⟩
  intro sep after hs hb
  obtain ⟨iv, h1, h2, h3⟩ := hlv sep after hs hb
  refine ⟨⟨t, pre.toList, []⟩ :: iv, ?_, ?_, ?_⟩
  · simp only [layout, ← h1, String.toList_append]; simp
  · simp only [Valid, List.nil_append]
    refine ⟨hr, Sep.nil, hc _ ?_, h2⟩
    rw [← h1]
    obtain ⟨ch, r, h4, h5⟩ := hfv
    exact ⟨ch, r ++ (sep ++ after), by simp [h4], h5⟩
  · simp only [List.map_cons, h3, hd, ht]

/-- shorthand in dotted-tail position: ` . 'x)` etc. -/
theorem layR_wrap {c : Ctx} {v w : Val} (pre : String) (t : Tok) (mk : D → D)
    (hr : Renders t pre.toList)
    (hc : ∀ X, FirstOk X → Compat t X)
    (hp : ∀ sv, printV c v = some sv → printRest c w = some (" . " ++ pre ++ sv ++ ")"))
    (hi : itemsOf c w = []) (hd : tailOf c w = some (mk (dOf c v)))
    (ht : ∀ d, toks (mk d) = t :: toks d)
    (hv : LayV c v) : LayR c w := by
  obtain ⟨sv, hpv, hfv, hlv⟩ := hv
  refine ⟨" . " ++ pre ++ sv ++ ")", [' '], hp sv hpv, sep_space,
    ⟨' ', _, by simp [String.toList_append]; rfl, by decide⟩, ?_⟩
  intro sep after hs
  obtain ⟨iv, h1, h2, h3⟩ := hlv [] (')' :: (sep ++ after)) Sep.nil
    (Or.inr ⟨')', _, rfl, by decide⟩)
  simp only [List.nil_append] at h1
  have hl : layout [⟨.close, [')'], sep⟩] after = ')' :: (sep ++ after) := rfl
  refine ⟨⟨.dot, ['.'], [' ']⟩ :: ⟨t, pre.toList, []⟩ :: (iv ++ [⟨.close, [')'], sep⟩]), ?_, ?_, ?_⟩
  · simp only [layout, layout_append, String.toList_append]; simpa using h1
  · simp only [Valid, valid_append, List.nil_append, layout_append, hl]
    refine ⟨Renders.dot, sep_space, trivial, hr, Sep.nil, hc _ ?_, h2, Renders.close, hs, trivial, trivial⟩
    rw [← h1]
    obtain ⟨ch, r, h4, h5⟩ := hfv
    exact ⟨ch, r ++ ')' :: (sep ++ after), by simp [h4], h5⟩
  · simp only [List.map_cons, List.map_append, List.map_nil, h3, hi, hd, ht, toksItems, toksTail,
      List.nil_append, List.cons_append]

theorem firstOk_compat_any {t : Tok} (h : ∀ X, Compat t X) : ∀ X, FirstOk X → Compat t X :=
  fun X _ => h X

/-- The printed form of every data value is a valid layout of its tokens, in both positions. -/
theorem lay_all {c : Ctx} {v : Val} (h : PVal c v) : LayV c v ∧ LayR c v := by
  induction h with
  | nil => exact ⟨layV_of_atom (atomLay_nil c) rfl rfl, layR_nil c⟩
  | t => exact ⟨layV_of_atom (atomLay_t c) rfl rfl, layR_of_atom (atomLay_t c) rfl rfl rfl⟩
  | int n hn =>
    exact ⟨layV_of_atom (atomLay_int c n hn) rfl rfl, layR_of_atom (atomLay_int c n hn) rfl rfl rfl⟩
  | str i s =>
    exact ⟨layV_of_atom (atomLay_str c i s) rfl rfl, layR_of_atom (atomLay_str c i s) rfl rfl rfl⟩
  | sym n hn =>
    exact ⟨layV_of_atom (atomLay_sym c n hn) rfl rfl, layR_of_atom (atomLay_sym c n hn) rfl rfl rfl⟩
  | cons i _ _ iha ihd => exact ⟨layV_cons i iha.1 ihd.2, layR_cons i iha.1 ihd.2⟩
  | quote _ ih =>
    exact ⟨layV_wrap "'" .quote D.quote Renders.quote ⟨'\'', [], rfl, by decide⟩ (fun _ _ => trivial)
        (fun sv h => by simp [printV, h]) (by simp [dOf]) (fun d => by simp [toks]) ih.1,
      layR_wrap "'" .quote D.quote Renders.quote (fun _ _ => trivial)
        (fun sv h => by simp [printRest, h]) (by simp [itemsOf]) (by simp [tailOf])
        (fun d => by simp [toks]) ih.1⟩
  | backquote _ ih =>
    exact ⟨layV_wrap "`" .backtick D.backquote Renders.backtick ⟨'`', [], rfl, by decide⟩ (fun _ _ => trivial)
        (fun sv h => by simp [printV, h]) (by simp [dOf]) (fun d => by simp [toks]) ih.1,
      layR_wrap "`" .backtick D.backquote Renders.backtick (fun _ _ => trivial)
        (fun sv h => by simp [printRest, h]) (by simp [itemsOf]) (by simp [tailOf])
        (fun d => by simp [toks]) ih.1⟩
  | unquote _ ih =>
    exact ⟨layV_wrap "," .comma D.unquote Renders.comma ⟨',', [], rfl, by decide⟩ (fun _ h => h)
        (fun sv h => by simp [printV, h]) (by simp [dOf]) (fun d => by simp [toks]) ih.1,
      layR_wrap "," .comma D.unquote Renders.comma (fun _ h => h)
        (fun sv h => by simp [printRest, h]) (by simp [itemsOf]) (by simp [tailOf])
        (fun d => by simp [toks]) ih.1⟩
  | splice _ ih =>
    exact ⟨layV_wrap ",@" .splice D.splice Renders.splice ⟨',', ['@'], rfl, by decide⟩ (fun _ _ => trivial)
        (fun sv h => by simp [printV, h]) (by simp [dOf]) (fun d => by simp [toks]) ih.1,
      layR_wrap ",@" .splice D.splice Renders.splice (fun _ _ => trivial)
        (fun sv h => by simp [printRest, h]) (by simp [itemsOf]) (by simp [tailOf])
        (fun d => by simp [toks]) ih.1⟩


/-! ## What a syntax tree denotes, as a value -/

mutual
/-- `Denotes c s v`: the tree `s` denotes the value `v` (spans and allocation identities
    ignored, symbols by name, the constants `nil` / `t` as the identifiers `nil` / `t`). -/
inductive Denotes (c : Ctx) : Sx → Val → Prop
  | nil (sp : Span) : Denotes c (.ident sp "nil") .nil
  | t (sp : Span) : Denotes c (.ident sp "t") .t
  | int (sp : Span) (n : Int) : Denotes c (.int sp n) (.int n)
  | str (sp : Span) (s : String) (i : Nat) : Denotes c (.str sp s) (.str i s)
  | sym (sp : Span) (n : Nat) : c.symName n ≠ "nil" → c.symName n ≠ "t" →
      Denotes c (.ident sp (c.symName n)) (.sym n)
  | list (sp : Span) {x : Sx} {xs : List Sx} {tl : Option Sx} (i : Nat) {a d : Val} :
      Denotes c x a → DenotesRest c xs tl d → Denotes c (.list sp (x :: xs) tl) (.cons i a d)
  | quote (sp : Span) {x : Sx} {v : Val} : Denotes c x v → Denotes c (.quote sp x) (.quote v)
  | backquote (sp : Span) {x : Sx} {v : Val} : Denotes c x v → Denotes c (.backquote sp x) (.backquote v)
  | unquote (sp : Span) {x : Sx} {v : Val} : Denotes c x v → Denotes c (.unquote sp x) (.unquote v)
  | splice (sp : Span) {x : Sx} {v : Val} : Denotes c x v → Denotes c (.splice sp x) (.splice v)
/-- the remaining items and the dotted tail of a list against the rest of a cons chain -/
inductive DenotesRest (c : Ctx) : List Sx → Option Sx → Val → Prop
  | nil : DenotesRest c [] none .nil
  | cons {x : Sx} {xs : List Sx} {tl : Option Sx} (i : Nat) {a d : Val} :
      Denotes c x a → DenotesRest c xs tl d → DenotesRest c (x :: xs) tl (.cons i a d)
  | dotted {t : Sx} {v : Val} : v ≠ .nil → (∀ i a d, v ≠ .cons i a d) → Denotes c t v →
      DenotesRest c [] (some t) v
end

theorem eraseL_nil {xs : List Sx} (h : eraseL xs = []) : xs = [] := by
  cases xs <;> simp_all [eraseL]

theorem eraseL_cons {xs : List Sx} {d : D} {ds : List D} (h : eraseL xs = d :: ds) :
    ∃ x xs', xs = x :: xs' ∧ erase x = d ∧ eraseL xs' = ds := by
  cases xs with
  | nil => simp [eraseL] at h
  | cons x xs' => simp only [eraseL, List.cons.injEq] at h; exact ⟨x, xs', rfl, h.1, h.2⟩

theorem eraseO_none {tl : Option Sx} (h : eraseO tl = none) : tl = none := by
  cases tl <;> simp_all [eraseO]

theorem eraseO_some {tl : Option Sx} {d : D} (h : eraseO tl = some d) :
    ∃ t, tl = some t ∧ erase t = d := by
  cases tl with
  | none => simp [eraseO] at h
  | some t => simp only [eraseO, Option.some.injEq] at h; exact ⟨t, rfl, h⟩

theorem rest_of_nonlist {c : Ctx} {v : Val} {d : D} (hn : v ≠ .nil) (hc : ∀ i a d, v ≠ .cons i a d)
    (hi : itemsOf c v = []) (ht : tailOf c v = some d)
    (hV : ∀ s, erase s = d → Denotes c s v) :
    ∀ xs tl, eraseL xs = itemsOf c v → eraseO tl = tailOf c v → DenotesRest c xs tl v := by
  intro xs tl h1 h2
  rw [hi] at h1; rw [ht] at h2
  obtain rfl := eraseL_nil h1
  obtain ⟨t, rfl, h3⟩ := eraseO_some h2
  exact DenotesRest.dotted hn hc (hV t h3)

/-- A tree whose erasure is the datum of a data value denotes that value. -/
theorem denotes_of_erase {c : Ctx} {v : Val} (h : PVal c v) :
    (∀ s, erase s = dOf c v → Denotes c s v) ∧
    (∀ xs tl, eraseL xs = itemsOf c v → eraseO tl = tailOf c v → DenotesRest c xs tl v) := by
  induction h with
  | nil =>
    refine ⟨?_, ?_⟩
    · intro s hs
      cases s <;> simp [erase, dOf, atomD] at hs
      subst hs; exact Denotes.nil _
    · intro xs tl h1 h2
      obtain rfl := eraseL_nil h1
      obtain rfl := eraseO_none h2
      exact DenotesRest.nil
  | t =>
    have hV : ∀ s, erase s = dOf c .t → Denotes c s .t := by
      intro s hs
      cases s <;> simp [erase, dOf, atomD] at hs
      subst hs; exact Denotes.t _
    exact ⟨hV, rest_of_nonlist (by simp) (by simp) rfl rfl hV⟩
  | int n _ =>
    have hV : ∀ s, erase s = dOf c (.int n) → Denotes c s (.int n) := by
      intro s hs
      cases s <;> simp [erase, dOf, atomD] at hs
      subst hs; exact Denotes.int _ _
    exact ⟨hV, rest_of_nonlist (by simp) (by simp) rfl rfl hV⟩
  | str i s0 =>
    have hV : ∀ s, erase s = dOf c (.str i s0) → Denotes c s (.str i s0) := by
      intro s hs
      cases s <;> simp [erase, dOf, atomD] at hs
      subst hs; exact Denotes.str _ _ _
    exact ⟨hV, rest_of_nonlist (by simp) (by simp) rfl rfl hV⟩
  | sym n hn =>
    have hV : ∀ s, erase s = dOf c (.sym n) → Denotes c s (.sym n) := by
      intro s hs
      cases s <;> simp [erase, dOf, atomD] at hs
      subst hs; exact Denotes.sym _ _ hn.notNil hn.notT
    exact ⟨hV, rest_of_nonlist (by simp) (by simp) rfl rfl hV⟩
  | cons i _ _ iha ihd =>
    refine ⟨?_, ?_⟩
    · intro s hs
      cases s <;> simp only [erase, dOf, reduceCtorEq, D.list.injEq] at hs
      obtain ⟨x, xs', rfl, h1, h2⟩ := eraseL_cons hs.1
      exact Denotes.list _ i (iha.1 x h1) (ihd.2 xs' _ h2 hs.2)
    · intro xs tl h1 h2
      simp only [itemsOf] at h1
      simp only [tailOf] at h2
      obtain ⟨x, xs', rfl, h3, h4⟩ := eraseL_cons h1
      exact DenotesRest.cons i (iha.1 x h3) (ihd.2 xs' tl h4 h2)
  | @quote v _ ih =>
    have hV : ∀ s, erase s = dOf c (.quote v) → Denotes c s (.quote v) := by
      intro s hs
      cases s <;> simp only [erase, dOf, reduceCtorEq, D.quote.injEq] at hs
      exact Denotes.quote _ (ih.1 _ hs)
    exact ⟨hV, rest_of_nonlist (by simp) (by simp) (by simp [itemsOf]) (by simp [tailOf, dOf]) hV⟩
  | @backquote v _ ih =>
    have hV : ∀ s, erase s = dOf c (.backquote v) → Denotes c s (.backquote v) := by
      intro s hs
      cases s <;> simp only [erase, dOf, reduceCtorEq, D.backquote.injEq] at hs
      exact Denotes.backquote _ (ih.1 _ hs)
    exact ⟨hV, rest_of_nonlist (by simp) (by simp) (by simp [itemsOf]) (by simp [tailOf, dOf]) hV⟩
  | @unquote v _ ih =>
    have hV : ∀ s, erase s = dOf c (.unquote v) → Denotes c s (.unquote v) := by
      intro s hs
      cases s <;> simp only [erase, dOf, reduceCtorEq, D.unquote.injEq] at hs
      exact Denotes.unquote _ (ih.1 _ hs)
    exact ⟨hV, rest_of_nonlist (by simp) (by simp) (by simp [itemsOf]) (by simp [tailOf, dOf]) hV⟩
  | @splice v _ ih =>
    have hV : ∀ s, erase s = dOf c (.splice v) → Denotes c s (.splice v) := by
      intro s hs
      cases s <;> simp only [erase, dOf, reduceCtorEq, D.splice.injEq] at hs
      exact Denotes.splice _ (ih.1 _ hs)
    exact ⟨hV, rest_of_nonlist (by simp) (by simp) (by simp [itemsOf]) (by simp [tailOf, dOf]) hV⟩

/-! ## The round trip -/

/-- Printing a data value and reading the text back gives exactly one tree, and it denotes
    the value. -/
theorem print_read_denotes (c : Ctx) (f : Nat) {v : Val} (h : PVal c v) :
    ∃ str s, printV c v = some str ∧ (readText f str.toList).res = .ok [s] ∧
      erase s = dOf c v ∧ Denotes c s v := by
  obtain ⟨str, hp, _, hl⟩ := (lay_all h).1
  obtain ⟨items, h1, h2, h3⟩ := hl [] [] Sep.nil (Or.inl rfl)
  simp only [List.append_nil] at h1
  have ht := tokenize_layout f [] items [] Sep.nil h2 Trailer.nil
  rw [List.nil_append, ← h1, h3] at ht
  obtain ⟨s, h4, h5⟩ := parseTokens_toks_one (dOf c v) _ ht
  exact ⟨str, s, hp, h4, h5, (denotes_of_erase h).1 s h5⟩

end Tulisp.C09
