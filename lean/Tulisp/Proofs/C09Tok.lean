/-
  Proofs/C09Tok.lean — C09 part B (character level): the tokenizer inverts token rendering,
  with arbitrary whitespace and `;`-comments between the tokens.

  Main theorem `tokenize_layout`: for every valid layout (`Valid`: each token written by some
  `Renders` text, separators are `Sep`, no token fuses with what follows — `Compat`), the tokens
  of the text are exactly the laid-out tokens.  Structure of the proof:
    (R) `run_renders`       — after the text of a token the *flushed* state (`fl`) is in normal
                              mode and has emitted exactly that token;
    (C) `tokenizeFrom_flush` — before a compatible continuation a pending word / comma behaves
                              like its flush;
    (S) `run_sep`, `run_trailer` — separators and the trailer emit nothing.
  Then `render` (the printer's way of writing a token) is shown to satisfy `Renders`
  (`renders_render`, with `toString_int_toList`, `escapeString_toList` linking it to the
  printer), and the single-token round trips `tokenize_string`, `tokenize_int`, … follow.
-/
import Tulisp.Proofs.C09Lex
import Tulisp.Model.Printer
namespace Tulisp.C09
open Tulisp

/-- The pending flush of a tokenizer state. -/
def fl (s : TState) : TState :=
  match s.mode with
  | .numIdent start acc i fi =>
      { s with mode := .normal }.emit (classify acc.reverse i fi) start s.here
  | .comma => { s with mode := .normal }.emit .comma ⟨s.line, s.col - 1⟩ ⟨s.line, s.col⟩
  | _ => s

@[simp] theorem adv_mode (s : TState) (c : Char) : (s.adv c).mode = s.mode := by
  unfold TState.adv; split <;> rfl
@[simp] theorem adv_out (s : TState) (c : Char) : (s.adv c).out = s.out := by
  unfold TState.adv; split <;> rfl
@[simp] theorem emit_mode (s : TState) (t : Tok) (a b : Pos) : (s.emit t a b).mode = s.mode := rfl
@[simp] theorem emit_out (s : TState) (t : Tok) (a b : Pos) :
    (s.emit t a b).out = ⟨t, ⟨s.file, a, b⟩⟩ :: s.out := rfl

theorem fl_normal {s : TState} (h : s.mode = .normal) : fl s = s := by
  simp only [fl, h]

theorem stepNormal_ws (s : TState) (c : Char) (h : isWs c = true) :
    stepNormal s c = s.adv c := by
  have : (c = '\n' || c = ' ' || c = '\r' || c = '\t') = true := by
    simp only [isWs, Bool.or_eq_true, decide_eq_true_eq] at h ⊢
    rcases h with ((h | h) | h) | h <;> simp [h]
  simp only [stepNormal, this, if_true]

theorem stepNormal_word (s : TState) (c : Char) (h : isSpecialStart c = false) :
    stepNormal s c = { s.adv c with mode := .numIdent s.here [c] (flag0 c).1 (flag0 c).2 } := by
  simp only [isSpecialStart, isWs, Bool.or_eq_false_iff, decide_eq_false_iff_not] at h
  obtain ⟨⟨⟨⟨⟨⟨⟨⟨⟨⟨⟨⟨h1, h2⟩, h3⟩, h4⟩, h5⟩, h6⟩, h7⟩, h8⟩, h9⟩, h10⟩, h11⟩, h12⟩, h13⟩ := h
  simp only [stepNormal, h1, h2, h3, h4, h5, h6, h7, h8, h9, h10, h11, h12, h13, flag0,
    decide_false, Bool.or_false, if_false, Bool.false_eq_true]

/-! ## Steps in the other modes -/

theorem tstep_normal {s : TState} (h : s.mode = .normal) (c : Char) : tstep s c = stepNormal s c := by
  simp only [tstep, h]

theorem tstep_numIdent {s : TState} {st : Pos} {acc : List Char} {i fi : Bool}
    (h : s.mode = .numIdent st acc i fi) {c : Char} (hb : isBreak c = false) :
    tstep s c = { s.adv c with mode := .numIdent st (c :: acc) (flagStep (i, fi) c).1 (flagStep (i, fi) c).2 } := by
  simp only [tstep, h, hb, Bool.false_eq_true, if_false, flagStep]
  by_cases h1 : c = '-'
  · simp only [h1, if_true]
  · simp only [h1, if_false]
    cases h2 : c.isDigit
    · simp only [Bool.false_eq_true, if_false]
      by_cases h3 : c = '.'
      · simp only [h3, if_true]
        cases h4 : (i && !fi) <;> simp
      · simp only [h3, if_false]
    · simp only [if_true]

theorem tstep_numIdent_break {s : TState} {st : Pos} {acc : List Char} {i fi : Bool}
    (h : s.mode = .numIdent st acc i fi) {c : Char} (hb : isBreak c = true) :
    tstep s c = tstep (fl s) c := by
  have h2 : (fl s).mode = .normal := by simp only [fl, h]; rfl
  rw [tstep_normal h2]
  simp only [tstep, h, hb, if_true, fl]

theorem tstep_comma {s : TState} (h : s.mode = .comma) {c : Char} (hc : c ≠ '@') :
    tstep s c = tstep (fl s) c := by
  have h2 : (fl s).mode = .normal := by simp only [fl, h]; rfl
  rw [tstep_normal h2]
  simp only [tstep, h, hc, if_false, fl]

theorem tfinish_numIdent {s : TState} {st : Pos} {acc : List Char} {i fi : Bool}
    (h : s.mode = .numIdent st acc i fi) : tfinish s = tfinish (fl s) := by
  have h2 : (fl s).mode = .normal := by simp only [fl, h]; rfl
  simp only [tfinish, h2]
  simp only [h, fl]
  rfl


/-! ## Words -/

theorem run_numIdent (r : List Char) : ∀ (s : TState) (st : Pos) (acc : List Char) (i fi : Bool),
    s.mode = .numIdent st acc i fi → (∀ c ∈ r, isBreak c = false) →
    (run s r).mode = .numIdent st (r.reverse ++ acc) (r.foldl flagStep (i, fi)).1 (r.foldl flagStep (i, fi)).2
      ∧ (run s r).out = s.out := by
  induction r with
  | nil => intro s st acc i fi h _; exact ⟨by simpa [run] using h, rfl⟩
  | cons c r ih =>
    intro s st acc i fi h hb
    have hc : isBreak c = false := hb c (List.mem_cons_self)
    have hstep := tstep_numIdent h hc
    have hm : (tstep s c).mode = .numIdent st (c :: acc) (flagStep (i, fi) c).1 (flagStep (i, fi) c).2 := by
      rw [hstep]
    have ho : (tstep s c).out = s.out := by rw [hstep]; simp
    obtain ⟨h1, h2⟩ := ih (tstep s c) st (c :: acc) _ _ hm (fun d hd => hb d (List.mem_cons_of_mem _ hd))
    rw [run_cons]
    refine ⟨?_, h2.trans ho⟩
    rw [h1]; simp

theorem run_word (s : TState) (hs : s.mode = .normal) (w : List Char) (hw : WordOk w) :
    ∃ st acc i fi, (run s w).mode = .numIdent st acc i fi ∧ classify acc.reverse i fi = wordTok w
      ∧ (run s w).out = s.out := by
  obtain ⟨hne, hhead, hnb⟩ := hw
  cases w with
  | nil => exact absurd rfl hne
  | cons c r =>
    have hc : isSpecialStart c = false := hhead c (by simp)
    have hstep : tstep s c = _ := (tstep_normal hs c).trans (stepNormal_word s c hc)
    have hm : (tstep s c).mode = .numIdent s.here [c] (flag0 c).1 (flag0 c).2 := by rw [hstep]
    have ho : (tstep s c).out = s.out := by rw [hstep]; simp
    obtain ⟨h1, h2⟩ := run_numIdent r (tstep s c) _ _ _ _ hm (fun d hd => hnb d (List.mem_cons_of_mem _ hd))
    refine ⟨_, _, _, _, h1, ?_, h2.trans ho⟩
    simp [wordTok]

/-! ## Strings -/

theorem tstep_str_plain {s : TState} {st : Pos} {acc : List Char} (h : s.mode = .str st acc)
    {c : Char} (h1 : c ≠ '\\') (h2 : c ≠ '"') :
    tstep s c = { s.adv c with mode := .str st (c :: acc) } := by
  simp only [tstep, h, h1, h2, if_false]

theorem tstep_str_bs {s : TState} {st : Pos} {acc : List Char} (h : s.mode = .str st acc) :
    tstep s '\\' = { s.adv '\\' with mode := .strEsc st acc } := by
  simp only [tstep, h, if_true]

theorem tstep_str_quote {s : TState} {st : Pos} {acc : List Char} (h : s.mode = .str st acc) :
    (tstep s '"').mode = .normal ∧
    (tstep s '"').out.map Token.tok = .str (String.ofList acc.reverse) :: s.out.map Token.tok := by
  have : tstep s '"' = { s.adv '"' with mode := .normal }.emit (.str (String.ofList acc.reverse)) st
      ⟨(s.adv '"').line, (s.adv '"').col⟩ := by
    simp only [tstep, h]; rfl
  rw [this]; simp

theorem tstep_strEsc {s : TState} {st : Pos} {acc : List Char} (h : s.mode = .strEsc st acc)
    (c d : Char) (hcd : (c = 'n' ∧ d = '\n') ∨ (c = 't' ∧ d = '\t') ∨ (c = '\\' ∧ d = '\\') ∨ (c = '"' ∧ d = '"')) :
    tstep s c = { s.adv c with mode := .str st (d :: acc) } := by
  rcases hcd with ⟨rfl, rfl⟩ | ⟨rfl, rfl⟩ | ⟨rfl, rfl⟩ | ⟨rfl, rfl⟩ <;> simp only [tstep, h] <;> rfl

/-- `\\` followed by one of `n t \\ "` appends the denoted character. -/
theorem run_esc {s : TState} {st : Pos} {acc : List Char} (h : s.mode = .str st acc)
    (c d : Char) (hcd : (c = 'n' ∧ d = '\n') ∨ (c = 't' ∧ d = '\t') ∨ (c = '\\' ∧ d = '\\') ∨ (c = '"' ∧ d = '"')) :
    (run s ['\\', c]).mode = .str st (d :: acc) ∧ (run s ['\\', c]).out = s.out := by
  have hm : (tstep s '\\').mode = .strEsc st acc := by rw [tstep_str_bs h]
  have ho : (tstep s '\\').out = s.out := by rw [tstep_str_bs h]; simp
  have := tstep_strEsc hm c d hcd
  simp only [run, List.foldl_cons, List.foldl_nil]
  rw [this]
  exact ⟨rfl, by simpa using ho⟩

theorem run_str_esc {raw cs : List Char}
    (ih : ∀ (s : TState) (st : Pos) (acc : List Char), s.mode = .str st acc →
      (run s (raw ++ ['"'])).mode = .normal ∧
      (run s (raw ++ ['"'])).out.map Token.tok =
        .str (String.ofList (acc.reverse ++ cs)) :: s.out.map Token.tok)
    (c d : Char) (hcd : (c = 'n' ∧ d = '\n') ∨ (c = 't' ∧ d = '\t') ∨ (c = '\\' ∧ d = '\\') ∨ (c = '"' ∧ d = '"'))
    (s : TState) (st : Pos) (acc : List Char) (hm : s.mode = .str st acc) :
    (run s (('\\' :: c :: raw) ++ ['"'])).mode = .normal ∧
    (run s (('\\' :: c :: raw) ++ ['"'])).out.map Token.tok =
      .str (String.ofList (acc.reverse ++ d :: cs)) :: s.out.map Token.tok := by
  obtain ⟨hm', ho⟩ := run_esc hm c d hcd
  have := ih _ st _ hm'
  have e : ('\\' :: c :: raw) ++ ['"'] = ['\\', c] ++ (raw ++ ['"']) := rfl
  rw [e, run_append]
  simpa [ho] using this

theorem run_str {raw cs : List Char} (h : StrEnc raw cs) : ∀ (s : TState) (st : Pos) (acc : List Char),
    s.mode = .str st acc →
    (run s (raw ++ ['"'])).mode = .normal ∧
    (run s (raw ++ ['"'])).out.map Token.tok =
      .str (String.ofList (acc.reverse ++ cs)) :: s.out.map Token.tok := by
  induction h with
  | nil => intro s st acc hm; simpa [run] using tstep_str_quote hm
  | plain c h1 h2 _ ih =>
    intro s st acc hm
    have hstep := tstep_str_plain hm h1 h2
    have hm' : (tstep s c).mode = .str st (c :: acc) := by rw [hstep]
    have ho : (tstep s c).out = s.out := by rw [hstep]; simp
    have := ih (tstep s c) st (c :: acc) hm'
    simpa [run_cons, ho] using this
  | escN _ ih => exact run_str_esc ih 'n' '\n' (by simp)
  | escT _ ih => exact run_str_esc ih 't' '\t' (by simp)
  | escB _ ih => exact run_str_esc ih '\\' '\\' (by simp)
  | escQ _ ih => exact run_str_esc ih '"' '"' (by simp)


/-! ## (R): running over the text of one token -/

/-- A state in normal mode whose output is the old one plus token `t`. -/
def Emitted (s s' : TState) (t : Tok) : Prop :=
  s'.mode = .normal ∧ s'.out.map Token.tok = t :: s.out.map Token.tok

theorem emitted_fl {s s' : TState} {t : Tok} (h : Emitted s s' t) : Emitted s (fl s') t := by
  rw [fl_normal h.1]; exact h

theorem run_open (s : TState) (hs : s.mode = .normal) : Emitted s (run s ['(']) .open := by
  have : run s ['('] = (s.adv '(').emit .open s.here ⟨(s.adv '(').line, (s.adv '(').col⟩ := by
    rw [run_cons, run_nil, tstep_normal hs]; rfl
  rw [this]; exact ⟨by simpa using hs, by simp⟩

theorem run_close (s : TState) (hs : s.mode = .normal) : Emitted s (run s [')']) .close := by
  have : run s [')'] = (s.adv ')').emit .close s.here ⟨(s.adv ')').line, (s.adv ')').col⟩ := by
    rw [run_cons, run_nil, tstep_normal hs]; rfl
  rw [this]; exact ⟨by simpa using hs, by simp⟩

theorem run_quote (s : TState) (hs : s.mode = .normal) : Emitted s (run s ['\'']) .quote := by
  have : run s ['\''] = (s.adv '\'').emit .quote s.here ⟨(s.adv '\'').line, (s.adv '\'').col⟩ := by
    rw [run_cons, run_nil, tstep_normal hs]; rfl
  rw [this]; exact ⟨by simpa using hs, by simp⟩

theorem run_backtick (s : TState) (hs : s.mode = .normal) : Emitted s (run s ['`']) .backtick := by
  have : run s ['`'] = (s.adv '`').emit .backtick s.here ⟨(s.adv '`').line, (s.adv '`').col⟩ := by
    rw [run_cons, run_nil, tstep_normal hs]; rfl
  rw [this]; exact ⟨by simpa using hs, by simp⟩

theorem run_dot (s : TState) (hs : s.mode = .normal) : Emitted s (run s ['.']) .dot := by
  have : run s ['.'] = (s.adv '.').emit .dot s.here ⟨(s.adv '.').line, (s.adv '.').col⟩ := by
    rw [run_cons, run_nil, tstep_normal hs]; rfl
  rw [this]; exact ⟨by simpa using hs, by simp⟩

theorem run_comma (s : TState) (hs : s.mode = .normal) :
    (run s [',']).mode = .comma ∧ (run s [',']).out = s.out := by
  have : run s [','] = { s.adv ',' with mode := .comma } := by
    rw [run_cons, run_nil, tstep_normal hs]; rfl
  rw [this]; exact ⟨rfl, by simp⟩

theorem run_splice (s : TState) (hs : s.mode = .normal) : Emitted s (run s [',', '@']) .splice := by
  obtain ⟨hm, ho⟩ := run_comma s hs
  have e : [',', '@'] = [','] ++ ['@'] := rfl
  rw [e, run_append]
  generalize run s [','] = s1 at hm ho
  have : run s1 ['@'] = { s1.adv '@' with mode := .normal }.emit .splice
      ⟨(s1.adv '@').line, (s1.adv '@').col - 2⟩ ⟨(s1.adv '@').line, (s1.adv '@').col⟩ := by
    rw [run_cons, run_nil]; simp only [tstep, hm]; rfl
  rw [this]; exact ⟨rfl, by simp [ho]⟩

theorem run_sharpquote (s : TState) (hs : s.mode = .normal) :
    Emitted s (run s ['#', '\'']) .sharpquote := by
  have h1 : run s ['#'] = { s.adv '#' with mode := .hash } := by
    rw [run_cons, run_nil, tstep_normal hs]; rfl
  have e : ['#', '\''] = ['#'] ++ ['\''] := rfl
  rw [e, run_append, h1]
  generalize hs1 : ({ s.adv '#' with mode := .hash } : TState) = s1
  have hm : s1.mode = .hash := by rw [← hs1]
  have ho : s1.out = s.out := by rw [← hs1]; simp
  have : run s1 ['\''] = { s1.adv '\'' with mode := .normal }.emit .sharpquote
      ⟨(s1.adv '\'').line, (s1.adv '\'').col - 2⟩ ⟨(s1.adv '\'').line, (s1.adv '\'').col⟩ := by
    rw [run_cons, run_nil]; simp only [tstep, hm]; rfl
  rw [this]; exact ⟨rfl, by simp [ho]⟩

theorem run_string (s : TState) (hs : s.mode = .normal) {raw cs : List Char} (h : StrEnc raw cs) :
    Emitted s (run s ('"' :: (raw ++ ['"']))) (.str (String.ofList cs)) := by
  have h1 : tstep s '"' = { s.adv '"' with mode := .str ⟨(s.adv '"').line, (s.adv '"').col⟩ [] } := by
    rw [tstep_normal hs]; rfl
  rw [run_cons]
  have hm : (tstep s '"').mode = .str ⟨(s.adv '"').line, (s.adv '"').col⟩ [] := by rw [h1]
  have ho : (tstep s '"').out = s.out := by rw [h1]; simp
  have := run_str h _ _ _ hm
  simpa [Emitted, ho] using this

theorem fl_numIdent {s : TState} {st : Pos} {acc : List Char} {i fi : Bool}
    (h : s.mode = .numIdent st acc i fi) :
    (fl s).mode = .normal ∧ (fl s).out.map Token.tok = classify acc.reverse i fi :: s.out.map Token.tok := by
  simp only [fl, h]; exact ⟨rfl, by simp⟩

theorem fl_comma {s : TState} (h : s.mode = .comma) :
    (fl s).mode = .normal ∧ (fl s).out.map Token.tok = .comma :: s.out.map Token.tok := by
  simp only [fl, h]; exact ⟨rfl, by simp⟩

/-- (R) After the text of a token, the flushed state is in normal mode and has emitted exactly
    this token. -/
theorem run_renders {t : Tok} {w : List Char} (h : Renders t w) (s : TState) (hs : s.mode = .normal) :
    Emitted s (fl (run s w)) t := by
  cases h with
  | «open» => exact emitted_fl (run_open s hs)
  | close => exact emitted_fl (run_close s hs)
  | quote => exact emitted_fl (run_quote s hs)
  | backtick => exact emitted_fl (run_backtick s hs)
  | dot => exact emitted_fl (run_dot s hs)
  | comma =>
    obtain ⟨hm, ho⟩ := run_comma s hs
    have := fl_comma hm
    rw [ho] at this; exact this
  | splice => exact emitted_fl (run_splice s hs)
  | sharpquote => exact emitted_fl (run_sharpquote s hs)
  | str raw cs h => exact emitted_fl (run_string s hs h)
  | word w hw =>
    obtain ⟨st, acc, i, fi, hm, hcl, ho⟩ := run_word s hs w hw
    have := fl_numIdent hm
    rw [ho, hcl] at this; exact this


/-! ## (C): a pending word or comma behaves like its flush before a compatible continuation -/

theorem flush_numIdent {s : TState} {st : Pos} {acc : List Char} {i fi : Bool}
    (h : s.mode = .numIdent st acc i fi) (rest : List Char)
    (hc : rest = [] ∨ ∃ c r, rest = c :: r ∧ isBreak c = true) :
    tokenizeFrom s rest = tokenizeFrom (fl s) rest := by
  rcases hc with rfl | ⟨c, r, rfl, hb⟩
  · exact tfinish_numIdent h
  · simp only [tokenizeFrom_eq, run_cons, tstep_numIdent_break h hb]

theorem flush_comma {s : TState} (h : s.mode = .comma) (rest : List Char)
    (hc : ∃ c r, rest = c :: r ∧ c ≠ '@') :
    tokenizeFrom s rest = tokenizeFrom (fl s) rest := by
  obtain ⟨c, r, rfl, hb⟩ := hc
  simp only [tokenizeFrom_eq, run_cons, tstep_comma h hb]

theorem compat_classify (cs : List Char) (i fi : Bool) (rest : List Char) :
    Compat (classify cs i fi) rest ↔ (rest = [] ∨ ∃ c r, rest = c :: r ∧ isBreak c = true) := by
  unfold classify
  split
  · simp only []
    split <;> exact Iff.rfl
  · split <;> exact Iff.rfl

theorem compat_wordTok (w : List Char) (rest : List Char) :
    Compat (wordTok w) rest ↔ (rest = [] ∨ ∃ c r, rest = c :: r ∧ isBreak c = true) := by
  cases w with
  | nil => exact Iff.rfl
  | cons c r => exact compat_classify _ _ _ _

/-- (C) -/
theorem tokenizeFrom_flush {t : Tok} {w : List Char} (h : Renders t w) (s : TState)
    (hs : s.mode = .normal) (rest : List Char) (hc : Compat t rest) :
    tokenizeFrom (run s w) rest = tokenizeFrom (fl (run s w)) rest := by
  cases h with
  | «open» => rw [fl_normal (run_open s hs).1]
  | close => rw [fl_normal (run_close s hs).1]
  | quote => rw [fl_normal (run_quote s hs).1]
  | backtick => rw [fl_normal (run_backtick s hs).1]
  | dot => rw [fl_normal (run_dot s hs).1]
  | comma => exact flush_comma (run_comma s hs).1 rest hc
  | splice => rw [fl_normal (run_splice s hs).1]
  | sharpquote => rw [fl_normal (run_sharpquote s hs).1]
  | str raw cs h => rw [fl_normal (run_string s hs h).1]
  | word w hw =>
    obtain ⟨st, acc, i, fi, hm, _, _⟩ := run_word s hs w hw
    exact flush_numIdent hm rest ((compat_wordTok w rest).1 hc)

/-! ## (S): separators and the trailer -/

theorem run_comment (body : List Char) : ∀ (s : TState), s.mode = .comment → '\n' ∉ body →
    (run s body).mode = .comment ∧ (run s body).out = s.out := by
  induction body with
  | nil => intro s h _; exact ⟨h, rfl⟩
  | cons c r ih =>
    intro s h hn
    have hc : c ≠ '\n' := fun e => hn (e ▸ List.mem_cons_self)
    have hstep : tstep s c = s.adv c := by simp only [tstep, h, hc, if_false]
    obtain ⟨h1, h2⟩ := ih (tstep s c) (by rw [hstep]; simpa using h)
      (fun hh => hn (List.mem_cons_of_mem _ hh))
    rw [run_cons]
    exact ⟨h1, h2.trans (by rw [hstep]; simp)⟩

theorem run_sep {sep : List Char} (h : Sep sep) : ∀ (s : TState), s.mode = .normal →
    (run s sep).mode = .normal ∧ (run s sep).out = s.out := by
  induction h with
  | nil => intro s hs; exact ⟨hs, rfl⟩
  | ws c hc _ ih =>
    intro s hs
    have hstep : tstep s c = s.adv c := (tstep_normal hs c).trans (stepNormal_ws s c hc)
    obtain ⟨h1, h2⟩ := ih (tstep s c) (by rw [hstep]; simpa using hs)
    rw [run_cons]
    exact ⟨h1, h2.trans (by rw [hstep]; simp)⟩
  | comment body hb _ ih =>
    intro s hs
    have h1 : tstep s ';' = { s.adv ';' with mode := .comment } := by
      rw [tstep_normal hs]; rfl
    rw [run_cons, run_append, run_cons]
    obtain ⟨hm, ho⟩ := run_comment body (tstep s ';') (by rw [h1]) hb
    have ho' : (run (tstep s ';') body).out = s.out := ho.trans (by rw [h1]; simp)
    generalize run (tstep s ';') body = s2 at hm ho'
    have h2 : tstep s2 '\n' = { s2.adv '\n' with mode := .normal } := by
      simp only [tstep, hm, if_true]
    obtain ⟨h3, h4⟩ := ih (tstep s2 '\n') (by rw [h2])
    exact ⟨h3, h4.trans (by rw [h2]; simpa using ho')⟩

theorem tfinish_normal {s : TState} (h : s.mode = .normal) : tfinish s = s.out.reverse := by
  simp only [tfinish, h]

theorem run_trailer {tr : List Char} (h : Trailer tr) (s : TState) (hs : s.mode = .normal) :
    tfinish (run s tr) = s.out.reverse := by
  cases h with
  | nil => exact tfinish_normal hs
  | comment body hb =>
    have h1 : tstep s ';' = { s.adv ';' with mode := .comment } := by
      rw [tstep_normal hs]; rfl
    obtain ⟨hm, ho⟩ := run_comment body (tstep s ';') (by rw [h1]) hb
    have ho' : (run (tstep s ';') body).out = s.out := ho.trans (by rw [h1]; simp)
    rw [run_cons]
    generalize run (tstep s ';') body = s2 at hm ho'
    simp only [tfinish, hm, ho']

/-! ## The main theorem -/

theorem tokenizeFrom_append (s : TState) (a b : List Char) :
    tokenizeFrom s (a ++ b) = tokenizeFrom (run s a) b := by
  simp only [tokenizeFrom_eq, run_append]

theorem tokenizeFrom_layout (tr : List Char) (ht : Trailer tr) : ∀ (items : List Item) (s : TState),
    s.mode = .normal → Valid items tr →
    (tokenizeFrom s (layout items tr)).map Token.tok =
      s.out.reverse.map Token.tok ++ items.map Item.tok := by
  intro items
  induction items with
  | nil =>
    intro s hs _
    simp only [layout, tokenizeFrom_eq, run_trailer ht s hs, List.map_nil, List.append_nil]
  | cons it r ih =>
    intro s hs hv
    obtain ⟨hr, hsep, hc, hv'⟩ := hv
    obtain ⟨hm1, ho1⟩ := run_renders hr s hs
    simp only [layout]
    rw [tokenizeFrom_append, tokenizeFrom_flush hr s hs _ hc, tokenizeFrom_append]
    obtain ⟨hm2, ho2⟩ := run_sep hsep _ hm1
    rw [ih _ hm2 hv', ho2]
    simp only [List.map_reverse, ho1, List.reverse_cons, List.map_cons, List.append_assoc,
      List.singleton_append]

theorem tokenize_layout (f : Nat) (sep0 : List Char) (items : List Item) (tr : List Char)
    (h0 : Sep sep0) (hv : Valid items tr) (ht : Trailer tr) :
    (tokenize f (sep0 ++ layout items tr)).map Token.tok = items.map Item.tok := by
  unfold tokenize
  rw [tokenizeFrom_append]
  obtain ⟨hm, ho⟩ := run_sep h0 { file := f } rfl
  rw [tokenizeFrom_layout tr ht items _ hm hv, ho]
  rfl

/-! ## `render` is correct -/

theorem digitsToNat_eq_ofDigitChars (cs : List Char) (init : Nat) :
    cs.foldl (fun n c => n * 10 + (c.toNat - '0'.toNat)) init = Nat.ofDigitChars 10 cs init := by
  induction cs generalizing init with
  | nil => simp [Nat.ofDigitChars]
  | cons c r ih => simp only [List.foldl_cons, Nat.ofDigitChars_cons, ih, Nat.mul_comm]

theorem digitsToNat_digits (n : Nat) : digitsToNat (digits n) = n := by
  unfold digitsToNat digits
  rw [digitsToNat_eq_ofDigitChars, Nat.ofDigitChars_ten_toDigits]

theorem isDigit_of_mem_digits {n : Nat} {c : Char} (h : c ∈ digits n) : c.isDigit = true :=
  Nat.isDigit_of_mem_toDigits (by decide) (by decide) h

theorem digits_ne_nil (n : Nat) : digits n ≠ [] := Nat.toDigits_ne_nil

theorem ne_minus_of_isDigit {c : Char} (h : c.isDigit = true) : c ≠ '-' := by
  rintro rfl; revert h; decide

theorem parseIntText_of_head {cs : List Char} (h : ∀ c ∈ cs.head?, c ≠ '-') :
    parseIntText cs = (digitsToNat cs : Int) := by
  unfold parseIntText
  split
  · exact absurd rfl (h '-' (by simp))
  · rfl

theorem head_digits_isDigit (n : Nat) : ∀ c ∈ (digits n).head?, c.isDigit = true := by
  intro c hc
  exact isDigit_of_mem_digits (List.mem_of_mem_head? hc)

theorem parseIntText_renderInt (n : Int) : parseIntText (renderInt n) = n := by
  cases n with
  | ofNat m =>
    simp only [renderInt]
    rw [parseIntText_of_head (fun c hc => ne_minus_of_isDigit (head_digits_isDigit m c hc)),
      digitsToNat_digits]
    rfl
  | negSucc m =>
    simp only [renderInt, parseIntText, digitsToNat_digits]
    rfl



theorem not_special_of_isDigit {c : Char} (h : c.isDigit = true) : isSpecialStart c = false := by
  simp only [isSpecialStart, isWs, Bool.or_eq_false_iff, decide_eq_false_iff_not]
  refine ⟨⟨⟨⟨⟨⟨⟨⟨⟨⟨⟨⟨?_, ?_⟩, ?_⟩, ?_⟩, ?_⟩, ?_⟩, ?_⟩, ?_⟩, ?_⟩, ?_⟩, ?_⟩, ?_⟩, ?_⟩ <;>
    (rintro rfl; revert h; decide)

theorem not_break_of_isDigit {c : Char} (h : c.isDigit = true) : isBreak c = false := by
  simp only [isBreak, Bool.or_eq_false_iff, decide_eq_false_iff_not]
  refine ⟨⟨⟨⟨?_, ?_⟩, ?_⟩, ?_⟩, ?_⟩ <;> (rintro rfl; revert h; decide)

theorem wordOk_digits (n : Nat) : WordOk (digits n) where
  ne := digits_ne_nil n
  head := fun c hc => not_special_of_isDigit (head_digits_isDigit n c hc)
  noBreak := fun _ hc => not_break_of_isDigit (isDigit_of_mem_digits hc)

theorem wordOk_renderInt (n : Int) : WordOk (renderInt n) := by
  cases n with
  | ofNat m => exact wordOk_digits m
  | negSucc m =>
    refine ⟨by simp [renderInt], ?_, ?_⟩
    · intro c hc
      simp only [renderInt, List.head?_cons, Option.mem_def, Option.some.injEq] at hc
      subst hc; decide
    · intro c hc
      simp only [renderInt, List.mem_cons] at hc
      rcases hc with rfl | hc
      · decide
      · exact not_break_of_isDigit (isDigit_of_mem_digits hc)

theorem flagStep_isDigit (fl : Bool × Bool) {c : Char} (h : c.isDigit = true) : flagStep fl c = fl := by
  simp only [flagStep, ne_minus_of_isDigit h, h, if_true, if_false]

theorem foldl_flagStep_digits (r : List Char) (fl : Bool × Bool) (h : ∀ c ∈ r, c.isDigit = true) :
    r.foldl flagStep fl = fl := by
  induction r with
  | nil => rfl
  | cons c r ih =>
    rw [List.foldl_cons, flagStep_isDigit fl (h c List.mem_cons_self)]
    exact ih (fun d hd => h d (List.mem_cons_of_mem _ hd))

/-- A word made of an optional `-` and digits has flags `(true, false)`. -/
theorem wordTok_intlike (c : Char) (r : List Char) (hc : c = '-' ∨ c.isDigit = true)
    (hr : ∀ d ∈ r, d.isDigit = true) : wordTok (c :: r) = classify (c :: r) true false := by
  have h0 : flag0 c = (true, false) := by
    rcases hc with rfl | hc
    · rfl
    · simp only [flag0, hc, if_true, ite_self]
  simp only [wordTok, h0, foldl_flagStep_digits r _ hr]

theorem wordTok_renderInt_classify (n : Int) :
    wordTok (renderInt n) = classify (renderInt n) true false := by
  cases n with
  | ofNat m =>
    simp only [renderInt]
    cases hd : digits m with
    | nil => exact absurd hd (digits_ne_nil m)
    | cons c r =>
      have hall : ∀ d ∈ c :: r, d.isDigit = true := by
        intro d h; rw [← hd] at h; exact isDigit_of_mem_digits h
      exact wordTok_intlike c r (Or.inr (hall c List.mem_cons_self))
        (fun d h => hall d (List.mem_cons_of_mem _ h))
  | negSucc m =>
    exact wordTok_intlike '-' _ (Or.inl rfl) (fun d h => isDigit_of_mem_digits h)

theorem renderInt_ne_minus (n : Int) : renderInt n ≠ ['-'] := by
  cases n with
  | ofNat m =>
    intro h
    have : '-' ∈ digits m := by simp only [renderInt] at h; rw [h]; simp
    exact ne_minus_of_isDigit (isDigit_of_mem_digits this) rfl
  | negSucc m =>
    intro h
    simp only [renderInt, List.cons.injEq, true_and] at h
    exact digits_ne_nil _ h

theorem wordTok_renderInt (n : Int) (h : inI64 n = true) : wordTok (renderInt n) = .int n := by
  rw [wordTok_renderInt_classify]
  have hne : (renderInt n != ['-']) = true := by
    simp only [bne_iff_ne, ne_eq]; exact renderInt_ne_minus n
  simp only [classify, hne, Bool.and_self, if_true, parseIntText_renderInt, h]

theorem toString_int_toList (n : Int) : (toString n).toList = renderInt n := by
  cases n with
  | ofNat m =>
    show (Int.repr (Int.ofNat m)).toList = _
    simp only [Int.repr, Nat.toList_repr, renderInt, digits]
  | negSucc m =>
    show (Int.repr (Int.negSucc m)).toList = _
    simp only [Int.repr, renderInt, digits, String.toList_append, Nat.toList_repr]
    rfl

theorem strEnc_encode (cs : List Char) : StrEnc (cs.flatMap encChar) cs := by
  induction cs with
  | nil => exact StrEnc.nil
  | cons c r ih =>
    rw [List.flatMap_cons]
    by_cases h1 : c = '"'
    · subst h1; exact StrEnc.escQ ih
    · by_cases h2 : c = '\\'
      · subst h2; exact StrEnc.escB ih
      · have : encChar c = [c] := by simp [encChar, h1, h2]
        rw [this]; exact StrEnc.plain c h2 h1 ih

theorem escapeString_toList (s : String) : (escapeString s).toList = renderString s := by
  unfold escapeString renderString
  simp only [String.toList_append, String.toList_ofList]
  rfl

theorem renders_render (t : Tok) (h : Renderable t) : Renders t (render t) := by
  cases t with
  | «open» => exact Renders.open
  | close => exact Renders.close
  | quote => exact Renders.quote
  | backtick => exact Renders.backtick
  | dot => exact Renders.dot
  | comma => exact Renders.comma
  | splice => exact Renders.splice
  | sharpquote => exact Renders.sharpquote
  | str s =>
    have := Renders.str _ _ (strEnc_encode s.toList)
    rw [String.ofList_toList] at this
    exact this
  | int n =>
    have := Renders.word _ (wordOk_renderInt n)
    rw [wordTok_renderInt n h] at this
    exact this
  | float x =>
    have := Renders.word _ h.1
    rw [h.2] at this
    exact this
  | ident x =>
    have := Renders.word _ h.1
    rw [h.2, String.ofList_toList] at this
    exact this
  | err m => exact absurd h (by simp [Renderable])

theorem flagStep_ff (c : Char) : flagStep (false, false) c = (false, false) := by
  simp only [flagStep, Bool.false_and, Bool.false_eq_true, if_false, ite_self]

theorem foldl_flagStep_ff (r : List Char) : r.foldl flagStep (false, false) = (false, false) := by
  induction r with
  | nil => rfl
  | cons c r ih => rw [List.foldl_cons, flagStep_ff, ih]

theorem identOk_of_first (w : List Char) (hw : WordOk w)
    (h : ∀ c ∈ w.head?, c ≠ '-' ∧ c.isDigit = false) : IdentOk w := by
  refine ⟨hw, ?_⟩
  cases w with
  | nil => exact absurd rfl hw.ne
  | cons c r =>
    obtain ⟨h1, h2⟩ := h c (by simp)
    have h0 : flag0 c = (false, false) := by
      simp only [flag0, h1, h2, if_false, Bool.false_eq_true]
    simp only [wordTok, h0, foldl_flagStep_ff]
    simp [classify]


/-! ## Round trips of single tokens -/

/-- One token between two separators. -/
theorem tokenize_one (f : Nat) (t : Tok) (w a b : List Char) (hr : Renders t w)
    (ha : Sep a) (hb : Sep b) (hc : Compat t b) :
    (tokenize f (a ++ w ++ b)).map Token.tok = [t] := by
  have hv : Valid [⟨t, w, b⟩] [] := ⟨hr, hb, by simpa [layout] using hc, trivial⟩
  have := tokenize_layout f a [⟨t, w, b⟩] [] ha hv Trailer.nil
  simpa [layout] using this

theorem tokenize_string_enc (f : Nat) (raw cs a b : List Char) (h : StrEnc raw cs)
    (ha : Sep a) (hb : Sep b) :
    (tokenize f (a ++ '"' :: (raw ++ '"' :: b))).map Token.tok = [.str (String.ofList cs)] := by
  have := tokenize_one f _ _ a b (Renders.str raw cs h) ha hb trivial
  simpa using this

theorem tokenize_string (f : Nat) (s : String) (a b : List Char) (ha : Sep a) (hb : Sep b) :
    (tokenize f (a ++ renderString s ++ b)).map Token.tok = [.str s] :=
  tokenize_one f _ _ a b (renders_render (.str s) trivial) ha hb trivial

theorem tokenize_int (f : Nat) (n : Int) (h : inI64 n = true) (a b : List Char) (ha : Sep a)
    (hb : Sep b) (hc : Compat (.int n) b) :
    (tokenize f (a ++ renderInt n ++ b)).map Token.tok = [.int n] :=
  tokenize_one f _ _ a b (renders_render (.int n) h) ha hb hc

theorem tokenize_ident (f : Nat) (w a b : List Char) (h : IdentOk w) (ha : Sep a) (hb : Sep b)
    (hc : Compat (.ident (String.ofList w)) b) :
    (tokenize f (a ++ w ++ b)).map Token.tok = [.ident (String.ofList w)] := by
  have hr : Renders (.ident (String.ofList w)) w := by
    have := Renders.word w h.1
    rw [h.2] at this; exact this
  exact tokenize_one f _ _ a b hr ha hb hc

/-- The eight punctuation tokens `( ) ' \` . , ,@ #'`. -/
def IsPunct : Tok → Prop
  | .open | .close | .quote | .backtick | .dot | .comma | .splice | .sharpquote => True
  | _ => False

theorem renderable_of_isPunct {t : Tok} (h : IsPunct t) : Renderable t := by
  cases t <;> first | trivial | exact h.elim

/-- Every punctuation token reads back as itself between separators (`Compat` is `True` except
    for `,`, which must be followed by some character other than `@`, e.g. a non-empty `b`). -/
theorem tokenize_punct (f : Nat) (t : Tok) (hp : IsPunct t) (a b : List Char) (ha : Sep a)
    (hb : Sep b) (hc : Compat t b) :
    (tokenize f (a ++ render t ++ b)).map Token.tok = [t] :=
  tokenize_one f _ _ a b (renders_render t (renderable_of_isPunct hp)) ha hb hc

/-- Before whitespace `Compat` holds for every token. -/
theorem compat_of_ws (t : Tok) (c : Char) (r : List Char) (h : isWs c = true) : Compat t (c :: r) := by
  have h1 : c ≠ '@' := by rintro rfl; revert h; decide
  have h2 : isBreak c = true := by
    simp only [isWs, Bool.or_eq_true, decide_eq_true_eq] at h
    rcases h with ((h | h) | h) | h <;> subst h <;> decide
  cases t <;> first | trivial | exact ⟨c, r, rfl, h1⟩ | exact Or.inr ⟨c, r, rfl, h2⟩

/-- A `,` may be followed by any non-empty separator. -/
theorem compat_comma_of_sep {b : List Char} (hb : Sep b) (hne : b ≠ []) : Compat .comma b := by
  cases hb with
  | nil => exact absurd rfl hne
  | ws c h _ => exact compat_of_ws .comma c _ h
  | comment body h _ => exact ⟨';', _, rfl, by decide⟩

theorem tokenize_comma (f : Nat) (a b : List Char) (ha : Sep a) (hb : Sep b) (hne : b ≠ []) :
    (tokenize f (a ++ [','] ++ b)).map Token.tok = [.comma] :=
  tokenize_punct f .comma trivial a b ha hb (compat_comma_of_sep hb hne)

/-! ## Non-vacuity: concrete instances -/

/-- `(a . "x\"y") ; c` -/
example : (tokenize 0 ['(', 'a', ' ', '.', ' ', '"', 'x', '\\', '"', 'y', '"', ')', ' ', ';', ' ', 'c']).map Token.tok
    = [.open, .ident "a", .dot, .str "x\"y", .close] := by decide

/-- `,@x ,y #'f -12 3.5` -/
example : (tokenize 0 [',', '@', 'x', ' ', ',', 'y', ' ', '#', '\'', 'f', ' ', '-', '1', '2', ' ', '3', '.', '5']).map
    Token.tok = [.splice, .ident "x", .comma, .ident "y", .sharpquote, .ident "f", .int (-12), .float "3.5"] := by
  decide

/-- A `,` at the very end of the input is dropped by the tokenizer: the reason for `Compat .comma`. -/
example : (tokenize 0 ['a', ' ', ',']).map Token.tok = [.ident "a"] := by decide

/-- A word followed directly by `;` swallows the comment: the reason for `Compat (.ident _)`. -/
example : (tokenize 0 ['a', ';', 'b']).map Token.tok = [.ident "a;b"] := by decide

example : StrEnc ['x', '\\', '"', 'y', '\\', 'n', '\n'] ['x', '"', 'y', '\n', '\n'] :=
  .plain 'x' (by decide) (by decide) (.escQ (.plain 'y' (by decide) (by decide) (.escN
    (.plain '\n' (by decide) (by decide) .nil))))

example : Sep [' ', ';', 'c', ';', '\n', '\t'] :=
  .ws ' ' rfl (.comment ['c', ';'] (by decide) (.ws '\t' rfl .nil))

example : IdentOk ['f', 'o', 'o', '-', '1', '.', '5'] :=
  identOk_of_first _ ⟨by simp, by decide, by decide⟩ (by decide)

example : IdentOk ['-'] := ⟨⟨by simp, by decide, by decide⟩, by decide⟩

/-- A concrete valid 3-item layout: `(` `foo` `)` written as `(foo ; c⏎)` with trailer `;end`. -/
example : Valid [⟨.open, ['('], []⟩, ⟨.ident "foo", ['f', 'o', 'o'], [' ', ';', 'c', '\n']⟩,
    ⟨.close, [')'], [' ']⟩] [';', 'e', 'n', 'd'] := by
  refine ⟨Renders.open, Sep.nil, trivial, ?_, .ws ' ' rfl (.comment ['c'] (by decide) .nil), ?_,
    Renders.close, .ws ' ' rfl .nil, trivial, trivial⟩
  · exact Renders.word ['f', 'o', 'o'] ⟨by simp, by decide, by decide⟩
  · exact Or.inr ⟨' ', _, rfl, rfl⟩

example : Trailer [';', 'e', 'n', 'd'] := .comment ['e', 'n', 'd'] (by decide)

example : Renderable (.int (-9223372036854775808)) := by show inI64 _ = true; decide
example : Compat (.int 5) [] := Or.inl rfl

/-- Instances of the round-trip theorems. -/
example (f : Nat) : (tokenize f ([' ', '\n'] ++ renderInt (-42) ++ [])).map Token.tok = [.int (-42)] :=
  tokenize_int f (-42) (by decide) _ _ (.ws ' ' rfl (.ws '\n' rfl .nil)) .nil (Or.inl rfl)

example (f : Nat) (s : String) :
    (tokenize f ([';', 'x', '\n'] ++ renderString s ++ ['\t'])).map Token.tok = [.str s] :=
  tokenize_string f s _ _ (.comment ['x'] (by decide) .nil) (.ws '\t' rfl .nil)

end Tulisp.C09
