/-
  Proofs/C02.lean — helper definitions and lemmas for property C02 (function application:
  argument evaluation, parameter binding, arity errors).
-/
import Tulisp.Model.Load
import Tulisp.Proofs.C12
namespace Tulisp.C02
open Tulisp

/-! ## small monad facts -/

theorem throw_bind {α β} (k : ErrKind) (f : α → M β) : ((M.throw k : M α) >>= f) = M.throw k := rfl

theorem bind_throw_bind {α β γ} (m : M α) (k : ErrKind) (f : β → M γ) :
    ((m >>= fun _ => (M.throw k : M β)) >>= f) = (m >>= fun _ => (M.throw k : M γ)) := by
  rw [bind_assoc]; rfl

/-- relation `I` holds between the state before and after `m`, from every start state -/
def Respects {α} (I : Ctx → Ctx → Prop) (m : M α) : Prop := ∀ c, I c (m c).2

theorem Respects.pure {α} {I : Ctx → Ctx → Prop} (hrefl : ∀ c, I c c) (a : α) :
    Respects I (pure a : M α) := fun c => hrefl c

theorem Respects.throw {α} {I : Ctx → Ctx → Prop} (hrefl : ∀ c, I c c) (k : ErrKind) :
    Respects I (M.throw k : M α) := fun c => hrefl c

theorem Respects.bind {α β} {I : Ctx → Ctx → Prop}
    (htrans : ∀ c1 c2 c3, I c1 c2 → I c2 c3 → I c1 c3) {m : M α} {f : α → M β}
    (hm : Respects I m) (hf : ∀ a, Respects I (f a)) : Respects I (m >>= f) := by
  intro c
  show I c (M.bind m f c).2
  have h1 := hm c
  unfold M.bind
  rcases h : m c with ⟨res, c'⟩
  rw [h] at h1
  cases res with
  | ok a => exact htrans _ _ _ h1 (hf a c')
  | err k => exact h1
  | panic s => exact h1
  | fuel => exact h1

/-! ## `evalEach` and its list version -/

/-- evaluate a list of forms left to right, each exactly once, threading the state, stopping at the
    first failure -/
def evalForms (r : Rec) : List Val → M (List Val)
  | [] => pure []
  | a :: as => do
    let v ← r.eval a
    let vs ← evalForms r as
    pure (v :: vs)

theorem evalEach_eq_evalForms (r : Rec) (v : Val) : evalEach r v = evalForms r v.elems := by
  induction v with
  | cons i a d _ ihd => simp only [evalEach, Val.elems, evalForms, ihd]
  | _ => rfl

theorem evalForms_append (r : Rec) (xs ys : List Val) :
    evalForms r (xs ++ ys) =
      (evalForms r xs >>= fun a => evalForms r ys >>= fun b => pure (a ++ b)) := by
  induction xs with
  | nil => simp [evalForms]
  | cons x xs ih => simp [evalForms, ih]

/-- the argument values: evaluated forms (`evaluate = true`) or the values as they are -/
def argVals (r : Rec) (evaluate : Bool) (forms : List Val) : M (List Val) :=
  if evaluate then evalForms r forms else pure forms

theorem argVals_nil (r : Rec) (ev : Bool) : argVals r ev [] = pure [] := by
  cases ev <;> rfl

theorem argVals_cons (r : Rec) (ev : Bool) (a : Val) (as : List Val) :
    argVals r ev (a :: as) =
      ((if ev then r.eval a else pure a) >>= fun v => argVals r ev as >>= fun vs => pure (v :: vs)) := by
  cases ev <;> simp [argVals, evalForms]

/-- continuations that agree on lists of the right length are interchangeable after `argVals` -/
theorem argVals_bind_congr {β} (r : Rec) (ev : Bool) (forms : List Val) (f g : List Val → M β)
    (h : ∀ vs : List Val, vs.length = forms.length → f vs = g vs) :
    (argVals r ev forms >>= f) = (argVals r ev forms >>= g) := by
  induction forms generalizing f g with
  | nil => simp only [argVals_nil, pure_bind]; exact h [] rfl
  | cons a as ih =>
    simp only [argVals_cons, bind_assoc, pure_bind]
    congr 1; funext v
    exact ih _ _ (fun vs hl => h (v :: vs) (by simp [hl]))

/-! ## distribution of positional values over required / optional / rest parameters -/

/-- The pure value distribution of a call: `req` required and `opt` optional parameters, with or
    without `&rest`, applied to the values `vs`.  Result: the positional values (one per required
    and optional parameter, missing optionals padded with `nil`) and the surplus values (the elements
    of the `&rest` list); `none` when the number of values does not fit. -/
def distribute (req opt : Nat) (hasRest : Bool) (vs : List Val) : Option (List Val × List Val) :=
  if vs.length < req then none
  else if hasRest = false ∧ req + opt < vs.length then none
  else some (vs.take (req + opt) ++ List.replicate (req + opt - vs.length) Val.nil,
             vs.drop (req + opt))

/-- put one more positional value in front -/
def consPos (v : Val) (o : Option (List Val × List Val)) : Option (List Val × List Val) :=
  o.map fun d => (v :: d.1, d.2)

theorem distribute_succ_nil (req opt : Nat) (h : Bool) : distribute (req + 1) opt h [] = none := by
  simp [distribute]

theorem distribute_succ_cons (req opt : Nat) (h : Bool) (v : Val) (vs : List Val) :
    distribute (req + 1) opt h (v :: vs) = consPos v (distribute req opt h vs) := by
  simp only [distribute, consPos, List.length_cons, Nat.add_lt_add_iff_right]
  have e1 : req + 1 + opt = (req + opt) + 1 := by omega
  rw [e1]
  by_cases h1 : vs.length < req
  · simp [h1]
  · by_cases h2 : h = false ∧ req + opt < vs.length
    · simp [h1, h2]
    · simp [h1, h2]

theorem distribute_zero_succ_cons (opt : Nat) (h : Bool) (v : Val) (vs : List Val) :
    distribute 0 (opt + 1) h (v :: vs) = consPos v (distribute 0 opt h vs) := by
  simp only [distribute, consPos, List.length_cons, Nat.not_lt_zero, if_false, Nat.zero_add,
    Nat.add_lt_add_iff_right]
  by_cases h2 : h = false ∧ opt < vs.length
  · simp [h2]
  · simp [h2]

theorem distribute_zero_succ_nil (opt : Nat) (h : Bool) :
    distribute 0 (opt + 1) h [] = consPos .nil (distribute 0 opt h []) := by
  simp [distribute, consPos, List.replicate_succ]

theorem distribute_zero_zero_rest (vs : List Val) : distribute 0 0 true vs = some ([], vs) := by
  simp [distribute]

theorem distribute_zero_zero_nil (h : Bool) : distribute 0 0 h [] = some ([], []) := by
  simp [distribute]

theorem distribute_zero_zero_cons (v : Val) (vs : List Val) :
    distribute 0 0 false (v :: vs) = none := by
  simp [distribute]

/-- hand the distributed values to the callee: the positional values, followed (with `&rest`) by one
    fresh list holding the surplus; a misfit is the arity error -/
def deliver (rest : Option Nat) : Option (List Val × List Val) → M (List Val)
  | none => M.throw .typeMismatch
  | some (pos, surplus) =>
    match rest with
    | some _ => mkListM surplus >>= fun l => pure (pos ++ [l])
    | none => pure pos

theorem deliver_consPos (rest : Option Nat) (v : Val) (o : Option (List Val × List Val)) :
    deliver rest (consPos v o) = (deliver rest o >>= fun vs => pure (v :: vs)) := by
  cases o with
  | none => rfl
  | some d =>
    obtain ⟨pos, surplus⟩ := d
    cases rest with
    | none => rfl
    | some x => simp [deliver, consPos]

/-! ## `collectArgs` -/

theorem collectArgs_req_cons (r : Rec) (ev : Bool) (p : Nat) (req opt : List Nat) (rest : Option Nat)
    (i : Nat) (a d : Val) :
    collectArgs r ev (p :: req) opt rest (.cons i a d) =
      ((if ev then r.eval a else pure a) >>= fun v =>
        collectArgs r ev req opt rest d >>= fun vs => pure (v :: vs)) := by
  rw [collectArgs]; cases ev <;> rfl

theorem collectArgs_req_atom (r : Rec) (ev : Bool) (p : Nat) (req opt : List Nat) (rest : Option Nat)
    (args : Val) (h : args.isCons = false) :
    collectArgs r ev (p :: req) opt rest args = M.throw .typeMismatch := by
  cases args <;> first | (simp [Val.isCons] at h; done) | (rw [collectArgs]; intros; simp_all)

theorem collectArgs_opt_cons (r : Rec) (ev : Bool) (p : Nat) (opt : List Nat) (rest : Option Nat)
    (i : Nat) (a d : Val) :
    collectArgs r ev [] (p :: opt) rest (.cons i a d) =
      ((if ev then r.eval a else pure a) >>= fun v =>
        collectArgs r ev [] opt rest d >>= fun vs => pure (v :: vs)) := by
  rw [collectArgs]; cases ev <;> rfl

theorem collectArgs_opt_atom (r : Rec) (ev : Bool) (p : Nat) (opt : List Nat) (rest : Option Nat)
    (args : Val) (h : args.isCons = false) :
    collectArgs r ev [] (p :: opt) rest args =
      (collectArgs r ev [] opt rest args >>= fun vs => pure (.nil :: vs)) := by
  cases args <;> first | (simp [Val.isCons] at h; done) | (rw [collectArgs]; intros; simp_all)

theorem collectArgs_rest (r : Rec) (ev : Bool) (x : Nat) (args : Val) :
    collectArgs r ev [] [] (some x) args =
      ((if ev then evalEach r args else pure args.elems) >>= fun vs =>
        mkListM vs >>= fun l => pure [l]) := by
  rw [collectArgs]; cases ev <;> rfl

theorem collectArgs_none_cons (r : Rec) (ev : Bool) (i : Nat) (a d : Val) :
    collectArgs r ev [] [] none (.cons i a d) = M.throw .typeMismatch := by
  rw [collectArgs]

theorem collectArgs_none_atom (r : Rec) (ev : Bool) (args : Val) (h : args.isCons = false) :
    collectArgs r ev [] [] none args = pure [] := by
  cases args <;> first | (simp [Val.isCons] at h; done) | (rw [collectArgs]; intros; simp_all)


theorem elems_of_atom {v : Val} (h : v.isCons = false) : v.elems = [] := by
  cases v <;> first | rfl | simp [Val.isCons] at h

theorem isCons_cases (v : Val) : (∃ i a d, v = .cons i a d) ∨ v.isCons = false := by
  cases v <;> simp [Val.isCons]

/-- the surplus part: no required and no optional parameter left -/
theorem collectArgs_tail (r : Rec) (ev : Bool) (rest : Option Nat) (args : Val)
    (h : rest.isSome = true ∨ args.elems.length ≤ 0) :
    collectArgs r ev [] [] rest args =
      (argVals r ev args.elems >>= fun vs => deliver rest (distribute 0 0 rest.isSome vs)) := by
  cases rest with
  | some x =>
    rw [collectArgs_rest]
    cases ev
    · simp [argVals, deliver, distribute_zero_zero_rest]
    · simp [argVals, deliver, distribute_zero_zero_rest, evalEach_eq_evalForms]
  | none =>
    rcases isCons_cases args with ⟨i, a, d, rfl⟩ | hc
    · simp [Val.elems] at h
    · rw [collectArgs_none_atom _ _ _ hc, elems_of_atom hc, argVals_nil, pure_bind,
        distribute_zero_zero_nil]
      rfl

/-- optional parameters, no required one left -/
theorem collectArgs_opts (r : Rec) (ev : Bool) (opt : List Nat) (rest : Option Nat) (args : Val)
    (h : rest.isSome = true ∨ args.elems.length ≤ opt.length) :
    collectArgs r ev [] opt rest args =
      (argVals r ev args.elems >>= fun vs =>
        deliver rest (distribute 0 opt.length rest.isSome vs)) := by
  induction opt generalizing args with
  | nil => exact collectArgs_tail r ev rest args h
  | cons p opt ih =>
    rcases isCons_cases args with ⟨i, a, d, rfl⟩ | hc
    · have h' : rest.isSome = true ∨ d.elems.length ≤ opt.length := by
        rcases h with h | h
        · exact .inl h
        · exact .inr (by simpa [Val.elems] using h)
      rw [collectArgs_opt_cons, ih d h']
      simp only [Val.elems, argVals_cons, bind_assoc, pure_bind, List.length_cons,
        distribute_zero_succ_cons, deliver_consPos]
    · have h' : rest.isSome = true ∨ args.elems.length ≤ opt.length := by
        rcases h with h | _
        · exact .inl h
        · exact .inr (by simp [elems_of_atom hc])
      rw [collectArgs_opt_atom _ _ _ _ _ _ hc, ih args h']
      simp only [elems_of_atom hc, argVals_nil, pure_bind, List.length_cons,
        distribute_zero_succ_nil, deliver_consPos]

/-- General form: unless there are too many arguments, `collectArgs` obtains the argument values
    (all of them, in order) and then distributes them. -/
theorem collectArgs_eq (r : Rec) (ev : Bool) (req opt : List Nat) (rest : Option Nat) (args : Val)
    (h : rest.isSome = true ∨ args.elems.length ≤ req.length + opt.length) :
    collectArgs r ev req opt rest args =
      (argVals r ev args.elems >>= fun vs =>
        deliver rest (distribute req.length opt.length rest.isSome vs)) := by
  induction req generalizing args with
  | nil => simpa using collectArgs_opts r ev opt rest args (by simpa using h)
  | cons p req ih =>
    rcases isCons_cases args with ⟨i, a, d, rfl⟩ | hc
    · have h' : rest.isSome = true ∨ d.elems.length ≤ req.length + opt.length := by
        rcases h with h | h
        · exact .inl h
        · exact .inr (by simp [Val.elems] at h; omega)
      rw [collectArgs_req_cons, ih d h']
      simp only [Val.elems, argVals_cons, bind_assoc, pure_bind, List.length_cons,
        distribute_succ_cons, deliver_consPos]
    · rw [collectArgs_req_atom _ _ _ _ _ _ _ hc, elems_of_atom hc, argVals_nil, pure_bind,
        List.length_cons, distribute_succ_nil]
      rfl

/-- too few arguments: those that are there are evaluated, then the arity error -/
theorem collectArgs_too_few (r : Rec) (ev : Bool) (req opt : List Nat) (rest : Option Nat)
    (args : Val) (h : args.elems.length < req.length) :
    collectArgs r ev req opt rest args =
      (argVals r ev args.elems >>= fun _ => M.throw .typeMismatch) := by
  induction req generalizing args with
  | nil => simp at h
  | cons p req ih =>
    rcases isCons_cases args with ⟨i, a, d, rfl⟩ | hc
    · have h' : d.elems.length < req.length := by simpa [Val.elems] using h
      rw [collectArgs_req_cons, ih d h']
      simp only [Val.elems, argVals_cons, bind_assoc, pure_bind]
      rfl
    · rw [collectArgs_req_atom _ _ _ _ _ _ _ hc, elems_of_atom hc, argVals_nil]
      rfl

theorem collectArgs_too_many_opts (r : Rec) (ev : Bool) (opt : List Nat)
    (args : Val) (h : opt.length < args.elems.length) :
    collectArgs r ev [] opt none args =
      (argVals r ev (args.elems.take opt.length) >>= fun _ => M.throw .typeMismatch) := by
  induction opt generalizing args with
  | nil =>
    rcases isCons_cases args with ⟨i, a, d, rfl⟩ | hc
    · rw [collectArgs_none_cons]; simp [argVals_nil]
    · simp [elems_of_atom hc] at h
  | cons p opt ih =>
    rcases isCons_cases args with ⟨i, a, d, rfl⟩ | hc
    · have h' : opt.length < d.elems.length := by simpa [Val.elems] using h
      rw [collectArgs_opt_cons, ih d h']
      simp only [Val.elems, List.length_cons, List.take_succ_cons, argVals_cons, bind_assoc,
        pure_bind]
      rfl
    · simp [elems_of_atom hc] at h

/-- too many arguments (no `&rest`): the arguments in parameter positions are evaluated, then the
    arity error; the surplus arguments are not evaluated -/
theorem collectArgs_too_many (r : Rec) (ev : Bool) (req opt : List Nat)
    (args : Val) (h : req.length + opt.length < args.elems.length) :
    collectArgs r ev req opt none args =
      (argVals r ev (args.elems.take (req.length + opt.length)) >>= fun _ =>
        M.throw .typeMismatch) := by
  induction req generalizing args with
  | nil => simpa using collectArgs_too_many_opts r ev opt args (by simpa using h)
  | cons p req ih =>
    rcases isCons_cases args with ⟨i, a, d, rfl⟩ | hc
    · have h' : req.length + opt.length < d.elems.length := by
        simp [Val.elems] at h; omega
      rw [collectArgs_req_cons, ih d h']
      have e : (p :: req).length + opt.length = (req.length + opt.length) + 1 := by
        simp; omega
      simp only [Val.elems, e, List.take_succ_cons, argVals_cons, bind_assoc, pure_bind]
      rfl
    · simp [elems_of_atom hc] at h


/-! ## `collectArgs` does not bind: every state change comes from the argument forms -/

theorem evalForms_respects (r : Rec) (I : Ctx → Ctx → Prop) (hrefl : ∀ c, I c c)
    (htrans : ∀ c1 c2 c3, I c1 c2 → I c2 c3 → I c1 c3) (forms : List Val)
    (heval : ∀ a ∈ forms, Respects I (r.eval a)) : Respects I (evalForms r forms) := by
  induction forms with
  | nil => exact Respects.pure hrefl _
  | cons a as ih =>
    refine Respects.bind htrans (heval a (by simp)) fun v => ?_
    refine Respects.bind htrans (ih fun x hx => heval x (by simp [hx])) fun vs => ?_
    exact Respects.pure hrefl _

theorem argVals_respects (r : Rec) (ev : Bool) (I : Ctx → Ctx → Prop) (hrefl : ∀ c, I c c)
    (htrans : ∀ c1 c2 c3, I c1 c2 → I c2 c3 → I c1 c3) (forms : List Val)
    (heval : ev = true → ∀ a ∈ forms, Respects I (r.eval a)) : Respects I (argVals r ev forms) := by
  cases ev with
  | false => exact Respects.pure hrefl _
  | true => exact evalForms_respects r I hrefl htrans forms (heval rfl)

theorem collectArgs_respects (r : Rec) (ev : Bool) (I : Ctx → Ctx → Prop) (hrefl : ∀ c, I c c)
    (htrans : ∀ c1 c2 c3, I c1 c2 → I c2 c3 → I c1 c3)
    (hmk : ∀ xs, Respects I (mkListM xs))
    (req opt : List Nat) (rest : Option Nat) (args : Val)
    (heval : ev = true → ∀ a ∈ args.elems, Respects I (r.eval a)) :
    Respects I (collectArgs r ev req opt rest args) := by
  have hstep : ∀ a, (ev = true → Respects I (r.eval a)) →
      Respects I (if ev then r.eval a else pure a) := by
    intro a ha
    cases ev with
    | false => exact Respects.pure hrefl _
    | true => exact ha rfl
  induction req generalizing args with
  | cons p req ih =>
    rcases isCons_cases args with ⟨i, a, d, rfl⟩ | hc
    · rw [collectArgs_req_cons]
      refine Respects.bind htrans (hstep a fun h => heval h a (by simp [Val.elems])) fun v => ?_
      refine Respects.bind htrans (ih d fun h x hx => heval h x (by simp [Val.elems, hx])) fun vs => ?_
      exact Respects.pure hrefl _
    · rw [collectArgs_req_atom _ _ _ _ _ _ _ hc]; exact Respects.throw hrefl _
  | nil =>
    induction opt generalizing args with
    | cons p opt ih =>
      rcases isCons_cases args with ⟨i, a, d, rfl⟩ | hc
      · rw [collectArgs_opt_cons]
        refine Respects.bind htrans (hstep a fun h => heval h a (by simp [Val.elems])) fun v => ?_
        refine Respects.bind htrans (ih d fun h x hx => heval h x (by simp [Val.elems, hx]))
          fun vs => ?_
        exact Respects.pure hrefl _
      · rw [collectArgs_opt_atom _ _ _ _ _ _ hc]
        exact Respects.bind htrans (ih args heval) fun vs => Respects.pure hrefl _
    | nil =>
      cases rest with
      | some x =>
        rw [collectArgs_rest]
        have h1 : Respects I (if ev then evalEach r args else pure args.elems) := by
          have := argVals_respects r ev I hrefl htrans args.elems heval
          cases ev with
          | false => exact this
          | true => rw [if_pos rfl, evalEach_eq_evalForms]; exact this
        refine Respects.bind htrans h1 fun vs => ?_
        exact Respects.bind htrans (hmk vs) fun l => Respects.pure hrefl _
      | none =>
        rcases isCons_cases args with ⟨i, a, d, rfl⟩ | hc
        · rw [collectArgs_none_cons]; exact Respects.throw hrefl _
        · rw [collectArgs_none_atom _ _ _ hc]; exact Respects.pure hrefl _

/-- `mkListM` only advances the id counter -/
theorem mkListM_symD (xs : List Val) (tl : Val) (c : Ctx) (p : Nat) :
    (mkListM xs tl c).2.symD p = c.symD p := by
  rw [C12.mkListM_run]; rfl

/-- with `evaluate = false` the evaluator is not consulted at all -/
theorem collectArgs_false_indep (r r' : Rec) (req opt : List Nat) (rest : Option Nat) (args : Val) :
    collectArgs r false req opt rest args = collectArgs r' false req opt rest args := by
  induction req generalizing args with
  | cons p req ih =>
    rcases isCons_cases args with ⟨i, a, d, rfl⟩ | hc
    · rw [collectArgs_req_cons, collectArgs_req_cons, ih]; rfl
    · rw [collectArgs_req_atom _ _ _ _ _ _ _ hc, collectArgs_req_atom _ _ _ _ _ _ _ hc]
  | nil =>
    induction opt generalizing args with
    | cons p opt ih =>
      rcases isCons_cases args with ⟨i, a, d, rfl⟩ | hc
      · rw [collectArgs_opt_cons, collectArgs_opt_cons, ih]; rfl
      · rw [collectArgs_opt_atom _ _ _ _ _ _ hc, collectArgs_opt_atom _ _ _ _ _ _ hc, ih]
    | nil =>
      cases rest with
      | some x => rw [collectArgs_rest, collectArgs_rest]; rfl
      | none =>
        rcases isCons_cases args with ⟨i, a, d, rfl⟩ | hc
        · rw [collectArgs_none_cons, collectArgs_none_cons]
        · rw [collectArgs_none_atom _ _ _ hc, collectArgs_none_atom _ _ _ hc]


/-! ## `evalFunction`: a failure of argument collection is the outcome of the call -/

theorem evalFunction_factor' (r : Rec) (ev : Bool) (ps : Params) (body args : Val) :
    evalFunction r ev ps body args =
      (collectArgs r ev ps.req ps.opt ps.rest args >>= fun vals =>
        bindParams ps.all vals [] >>= fun _ =>
          M.finally' (evalProgn r body) (fun c => ps.all.foldl popSymCtx c)) := rfl

theorem bind_of_err {α β} (m : M α) (f : α → M β) (c c' : Ctx) (k : ErrKind)
    (h : m c = (.err k, c')) : (m >>= f) c = (.err k, c') := by
  show M.bind m f c = _
  simp [M.bind, h]

theorem bind_of_panic {α β} (m : M α) (f : α → M β) (c c' : Ctx) (s : String)
    (h : m c = (.panic s, c')) : (m >>= f) c = (.panic s, c') := by
  show M.bind m f c = _
  simp [M.bind, h]

theorem bind_of_fuel {α β} (m : M α) (f : α → M β) (c c' : Ctx)
    (h : m c = (.fuel, c')) : (m >>= f) c = (.fuel, c') := by
  show M.bind m f c = _
  simp [M.bind, h]

/-! ## symbol table facts -/

theorem symD_modSym (c : Ctx) (p q : Nat) (f : SymSt → SymSt) :
    (c.modSym p f).symD q = if p = q ∧ q < c.syms.size then f (c.symD q) else c.symD q := by
  simp only [Ctx.symD, Ctx.modSym, Array.getD_eq_getD_getElem?, Array.getElem?_modify]
  by_cases hpq : p = q
  · subst hpq
    by_cases hlt : p < c.syms.size
    · simp [hlt]
    · simp [hlt]
  · simp [hpq]

theorem modSym_of_ge (c : Ctx) (p : Nat) (f : SymSt → SymSt) (h : c.syms.size ≤ p) :
    c.modSym p f = c := by
  have : c.syms.modify p f = c.syms := by
    apply Array.ext_getElem?
    intro i
    rw [Array.getElem?_modify]
    split
    · next hpi => subst hpi; simp [Array.getElem?_eq_none h]
    · rfl
  simp [Ctx.modSym, this]

theorem modSym_modSym_restore (c : Ctx) (p : Nat) (f : SymSt → SymSt) :
    (c.modSym p f).modSym p (fun _ => c.symD p) = c := by
  have : (c.syms.modify p f).modify p (fun _ => c.symD p) = c.syms := by
    apply Array.ext_getElem?
    intro i
    simp only [Array.getElem?_modify, Ctx.symD, Array.getD_eq_getD_getElem?]
    by_cases hpi : p = i
    · subst hpi
      cases h : c.syms[p]? <;> simp
    · simp [hpi]
  simp [Ctx.modSym, this]

/-- popping what has just been pushed restores the state exactly -/
theorem popSymCtx_push (c : Ctx) (p : Nat) (v : Val) :
    popSymCtx (c.modSym p (·.push v)) p = c := by
  by_cases hlt : p < c.syms.size
  · have hs : (c.modSym p (·.push v)).symD p = (c.symD p).push v := by
      rw [symD_modSym]; simp [hlt]
    have hp : ((c.symD p).push v).pop = some (c.symD p) := by
      simp [SymSt.push, SymSt.pop]
    simp only [popSymCtx, hs, hp]
    exact modSym_modSym_restore c p _
  · have hge : c.syms.size ≤ p := Nat.le_of_not_lt hlt
    rw [modSym_of_ge c p _ hge]
    have hs : c.symD p = { name := "?" } := by
      simp [Ctx.symD, Array.getD_eq_getD_getElem?, Array.getElem?_eq_none hge]
    simp [popSymCtx, hs, SymSt.pop]

theorem pushV_sym (p : Nat) (v : Val) (c : Ctx) :
    pushV (.sym p) v c =
      if (c.symD p).constant then (.err .undefined, c) else (.ok (), c.modSym p (·.push v)) := by
  show M.bind (notConstant p) (fun _ => M.modify (·.modSym p (·.push v))) c = _
  unfold M.bind notConstant
  by_cases h : (c.symD p).constant = true
  · simp [h]
  · simp [h, M.modify]

/-- the state after pushing the values on the stacks of the parameters, pairwise, in order -/
def pushAll (c : Ctx) (l : List (Nat × Val)) : Ctx :=
  l.foldl (fun c pv => c.modSym pv.1 (·.push pv.2)) c

theorem pushAll_cons (c : Ctx) (p : Nat) (v : Val) (l : List (Nat × Val)) :
    pushAll c ((p, v) :: l) = pushAll (c.modSym p (·.push v)) l := rfl

theorem constant_push (c : Ctx) (p q : Nat) (v : Val) :
    ((c.modSym p (·.push v)).symD q).constant = (c.symD q).constant := by
  rw [symD_modSym]; split <;> rfl

/-- Exact outcome of `bindParams`: either every parameter (paired with a value) is bindable and
    all values are pushed, or the first constant parameter makes it fail with the pushes of this
    call (and those recorded in `done`) undone. -/
theorem bindParams_run (ps : List Nat) (vals : List Val) (done : List Nat) (c : Ctx) :
    bindParams ps vals done c =
      if (ps.zip vals).all (fun pv => !(c.symD pv.1).constant) then
        (.ok (), pushAll c (ps.zip vals))
      else (.err .undefined, done.foldl popSymCtx c) := by
  induction ps generalizing vals done c with
  | nil => simp [bindParams, pushAll]; rfl
  | cons p ps ih =>
    cases vals with
    | nil => simp [bindParams, pushAll]; rfl
    | cons v vs =>
      rw [bindParams]
      show (match pushV (Val.sym p) v c with
        | (Res.ok PUnit.unit, c') => bindParams ps vs (p :: done) c'
        | (Res.err k, c') => (Res.err k, List.foldl popSymCtx c' done)
        | (Res.panic s, c') => (Res.panic s, c')
        | (Res.fuel, c') => (Res.fuel, c')) = _
      rw [pushV_sym]
      by_cases hc : (c.symD p).constant = true
      · simp [hc]
      · simp only [hc, Bool.false_eq_true, if_false, List.zip_cons_cons, List.all_cons,
          Bool.not_false, Bool.true_and, pushAll_cons]
        rw [ih]
        simp only [constant_push, List.foldl_cons, popSymCtx_push]


theorem modSym_size (c : Ctx) (p : Nat) (f : SymSt → SymSt) :
    (c.modSym p f).syms.size = c.syms.size := by
  simp [Ctx.modSym]

theorem pushAll_size (c : Ctx) (l : List (Nat × Val)) : (pushAll c l).syms.size = c.syms.size := by
  induction l generalizing c with
  | nil => rfl
  | cons pv l ih => obtain ⟨p, v⟩ := pv; rw [pushAll_cons, ih, modSym_size]

theorem pushAll_frame (c : Ctx) (l : List (Nat × Val)) :
    pushAll c l = { c with syms := (pushAll c l).syms } := by
  induction l generalizing c with
  | nil => rfl
  | cons pv l ih =>
    obtain ⟨p, v⟩ := pv
    rw [pushAll_cons]
    generalize hc1 : c.modSym p (·.push v) = c1
    have h1 := ih c1
    have h2 : c1 = { c with syms := c1.syms } := by rw [← hc1]; rfl
    rw [h1]; rw [h2]

theorem pushAll_symD_not_mem (c : Ctx) (l : List (Nat × Val)) (q : Nat)
    (h : ∀ pv ∈ l, pv.1 ≠ q) : (pushAll c l).symD q = c.symD q := by
  induction l generalizing c with
  | nil => rfl
  | cons pv l ih =>
    obtain ⟨p, v⟩ := pv
    rw [pushAll_cons, ih _ (fun x hx => h x (by simp [hx])), symD_modSym]
    have : p ≠ q := h (p, v) (by simp)
    simp [this]

theorem pushAll_symD_nodup (c : Ctx) (l : List (Nat × Val)) (p : Nat) (v : Val)
    (hnd : (l.map Prod.fst).Nodup) (hmem : (p, v) ∈ l) (hlt : p < c.syms.size) :
    (pushAll c l).symD p = (c.symD p).push v := by
  induction l generalizing c with
  | nil => simp at hmem
  | cons qw l ih =>
    obtain ⟨q, w⟩ := qw
    rw [pushAll_cons]
    simp only [List.map_cons, List.nodup_cons] at hnd
    rcases List.mem_cons.1 hmem with heq | hin
    · cases heq
      rw [pushAll_symD_not_mem, symD_modSym]
      · simp [hlt]
      · intro x hx hxp
        exact hnd.1 (by rw [← hxp]; exact List.mem_map_of_mem hx)
    · have hne : q ≠ p := by
        intro hqp
        exact hnd.1 (by rw [hqp]; exact List.mem_map_of_mem (f := Prod.fst) hin)
      rw [ih _ hnd.2 hin (by rw [modSym_size]; exact hlt), symD_modSym]
      simp [hne]

/-! ## `quoteArgs` and evaluation at positive depth -/

/-- the protection applied by `quoteArgs` to one value -/
def protect (v : Val) : Val := if selfEvaluating v then v else .quote v

theorem quoteArgs_eq (vals : List Val) : quoteArgs vals = mkListM (vals.map protect) := rfl

theorem eval_quote (d : Nat) (v : Val) (c : Ctx) :
    (Rec.ofDepth (d + 1)).eval (.quote v) c = (.ok v, c) := rfl

theorem eval_selfEvaluating (d : Nat) (v : Val) (c : Ctx) (h : selfEvaluating v = true) :
    (Rec.ofDepth (d + 1)).eval v c = (.ok v, c) := by
  cases v <;> first | rfl | simp [selfEvaluating] at h

theorem eval_protect (d : Nat) (v : Val) : (Rec.ofDepth (d + 1)).eval (protect v) = pure v := by
  funext c
  unfold protect
  by_cases h : selfEvaluating v = true
  · rw [if_pos h]; exact eval_selfEvaluating d v c h
  · rw [if_neg h]; rfl

theorem evalForms_protect (d : Nat) (vals : List Val) :
    evalForms (Rec.ofDepth (d + 1)) (vals.map protect) = pure vals := by
  induction vals with
  | nil => rfl
  | cons v vs ih => simp only [List.map_cons, evalForms, eval_protect, ih, pure_bind]

theorem elems_mkList (n : Nat) (xs : List Val) : (Val.mkList n xs .nil).1.elems = xs := by
  rw [← C12.spine_fst, C12.mkList_spine]; simp [Val.spine]

theorem quoteArgs_run (vals : List Val) (c : Ctx) :
    quoteArgs vals c = (.ok (Val.mkList c.nextId (vals.map protect) .nil).1,
      { c with nextId := c.nextId + vals.length }) := by
  rw [quoteArgs_eq, C12.mkListM_run]; simp

theorem mkCons_run (a d : Val) (c : Ctx) :
    mkCons a d c = (.ok (.cons c.nextId a d), { c with nextId := c.nextId + 1 }) := rfl


/-! ## parameter lists -/

/-- the section of a parameter list the parser is in -/
inductive Section where
  | required | optional | rest
deriving DecidableEq, Repr

/-- the `mode` number used by `parseParamsAux` -/
def Section.toNat : Section → Nat
  | .required => 0
  | .optional => 1
  | .rest => 2

/-- The grammar of parameter lists, on the list of parameter symbols (`nm` gives the name of a
    symbol): `Grammar nm s ns req opt rest` — read from section `s` on, the names `ns` declare the
    required parameters `req`, the optional parameters `opt` and the rest parameter `rest`.
    Canonical lists `req* [&optional opt*] [&rest r]` are derivations (`grammar_canonical`); the
    relation also records what else the parser accepts: a marker may be repeated, `&optional` may
    follow `&rest`, and a trailing `&rest` without a name declares no rest parameter. -/
inductive Grammar (nm : Nat → String) : Section → List Nat → List Nat → List Nat → Option Nat → Prop
  | nil (s : Section) : Grammar nm s [] [] [] none
  | optMarker {s n ns req opt rest} : nm n = "&optional" →
      Grammar nm .optional ns req opt rest → Grammar nm s (n :: ns) req opt rest
  | restMarker {s n ns req opt rest} : nm n ≠ "&optional" → nm n = "&rest" →
      Grammar nm .rest ns req opt rest → Grammar nm s (n :: ns) req opt rest
  | req {n ns req opt rest} : nm n ≠ "&optional" → nm n ≠ "&rest" →
      Grammar nm .required ns req opt rest → Grammar nm .required (n :: ns) (n :: req) opt rest
  | opt {n ns req opt rest} : nm n ≠ "&optional" → nm n ≠ "&rest" →
      Grammar nm .optional ns req opt rest → Grammar nm .optional (n :: ns) req (n :: opt) rest
  | rest {n} : nm n ≠ "&optional" → nm n ≠ "&rest" → Grammar nm .rest [n] [] [] (some n)

theorem aux_atom (c : Ctx) (v : Val) (mode : Nat) (acc : Params) (h : v.isCons = false) :
    parseParamsAux c v mode acc = .ok acc := by
  cases v <;> first | (simp [Val.isCons] at h; done) | rfl

theorem aux_nonsym (c : Ctx) (i : Nat) (p rest : Val) (mode : Nat) (acc : Params)
    (h : p.isSym = false) :
    parseParamsAux c (.cons i p rest) mode acc = .error .typeMismatch := by
  cases p <;> first | (simp [Val.isSym] at h; done) | rfl

theorem aux_optMarker (c : Ctx) (i n : Nat) (rest : Val) (mode : Nat) (acc : Params)
    (h : c.symName n = "&optional") :
    parseParamsAux c (.cons i (.sym n) rest) mode acc = parseParamsAux c rest 1 acc := by
  rw [parseParamsAux.eq_def]; simp [h]

theorem aux_restMarker (c : Ctx) (i n : Nat) (rest : Val) (mode : Nat) (acc : Params)
    (h1 : c.symName n ≠ "&optional") (h : c.symName n = "&rest") :
    parseParamsAux c (.cons i (.sym n) rest) mode acc = parseParamsAux c rest 2 acc := by
  rw [parseParamsAux.eq_def]; dsimp only; rw [if_neg h1, if_pos h]

theorem aux_rest_last (c : Ctx) (i n : Nat) (rest : Val) (acc : Params)
    (h1 : c.symName n ≠ "&optional") (h2 : c.symName n ≠ "&rest") (hr : rest.isCons = false) :
    parseParamsAux c (.cons i (.sym n) rest) 2 acc = .ok { acc with rest := some n } := by
  rw [parseParamsAux.eq_def]; simp only [h1, h2, if_false, if_true]
  cases rest <;> first | (simp [Val.isCons] at hr; done) | rfl

theorem aux_rest_more (c : Ctx) (i n j : Nat) (x y : Val) (acc : Params)
    (h1 : c.symName n ≠ "&optional") (h2 : c.symName n ≠ "&rest") :
    parseParamsAux c (.cons i (.sym n) (.cons j x y)) 2 acc = .error .typeMismatch := by
  rw [parseParamsAux.eq_def]; simp only [h1, h2, if_false, if_true]

theorem aux_opt (c : Ctx) (i n : Nat) (rest : Val) (acc : Params)
    (h1 : c.symName n ≠ "&optional") (h2 : c.symName n ≠ "&rest") :
    parseParamsAux c (.cons i (.sym n) rest) 1 acc =
      parseParamsAux c rest 1 { acc with opt := acc.opt ++ [n] } := by
  rw [parseParamsAux.eq_def]; simp [h1, h2]

theorem aux_req (c : Ctx) (i n : Nat) (rest : Val) (acc : Params)
    (h1 : c.symName n ≠ "&optional") (h2 : c.symName n ≠ "&rest") :
    parseParamsAux c (.cons i (.sym n) rest) 0 acc =
      parseParamsAux c rest 0 { acc with req := acc.req ++ [n] } := by
  rw [parseParamsAux.eq_def]; simp [h1, h2]

theorem elems_eq_nil {v : Val} (h : v.elems = []) : v.isCons = false := by
  cases v <;> first | rfl | simp [Val.elems] at h

theorem elems_eq_cons {v x : Val} {xs : List Val} (h : v.elems = x :: xs) :
    ∃ i d, v = .cons i x d ∧ d.elems = xs := by
  cases v <;> first | (simp [Val.elems] at h; done) | skip
  rename_i i a d
  simp only [Val.elems, List.cons.injEq] at h
  exact ⟨i, d, by rw [h.1], h.2⟩

/-- result of a successful parse, from the accumulator and what the rest of the list declares -/
def extendParams (acc : Params) (req opt : List Nat) (rest : Option Nat) : Params :=
  ⟨acc.req ++ req, acc.opt ++ opt, rest.or acc.rest⟩

theorem aux_complete (c : Ctx) (s : Section) (ns req opt : List Nat) (rest : Option Nat)
    (g : Grammar c.symName s ns req opt rest) (v : Val) (hv : v.elems = ns.map .sym)
    (acc : Params) : parseParamsAux c v s.toNat acc = .ok (extendParams acc req opt rest) := by
  induction g generalizing v acc with
  | nil s =>
    rw [aux_atom c v _ acc (elems_eq_nil hv)]
    simp [extendParams]
  | optMarker h _ ih =>
    obtain ⟨i, d, rfl, hd⟩ := elems_eq_cons hv
    rw [aux_optMarker c i _ d _ acc h]; exact ih d hd acc
  | restMarker h1 h _ ih =>
    obtain ⟨i, d, rfl, hd⟩ := elems_eq_cons hv
    rw [aux_restMarker c i _ d _ acc h1 h]; exact ih d hd acc
  | @req n ns req opt rest h1 h2 _ ih =>
    obtain ⟨i, d, rfl, hd⟩ := elems_eq_cons hv
    show parseParamsAux c _ 0 acc = _
    rw [aux_req c i _ d acc h1 h2]
    have := ih d hd { acc with req := acc.req ++ [n] }
    simpa [extendParams, Section.toNat] using this
  | @opt n ns req opt rest h1 h2 _ ih =>
    obtain ⟨i, d, rfl, hd⟩ := elems_eq_cons hv
    show parseParamsAux c _ 1 acc = _
    rw [aux_opt c i _ d acc h1 h2]
    have := ih d hd { acc with opt := acc.opt ++ [n] }
    simpa [extendParams, Section.toNat] using this
  | rest h1 h2 =>
    obtain ⟨i, d, rfl, hd⟩ := elems_eq_cons hv
    show parseParamsAux c _ 2 acc = _
    rw [aux_rest_last c i _ d acc h1 h2 (elems_eq_nil hd)]
    simp [extendParams]

theorem aux_sound (c : Ctx) (v : Val) (s : Section) (acc res : Params)
    (h : parseParamsAux c v s.toNat acc = .ok res) :
    ∃ ns req opt rest, v.elems = ns.map .sym ∧ Grammar c.symName s ns req opt rest ∧
      res = extendParams acc req opt rest := by
  induction v generalizing s acc with
  | cons i p d _ ihd =>
    cases p with
    | sym n =>
      by_cases ho : c.symName n = "&optional"
      · rw [aux_optMarker c i n d _ acc ho] at h
        obtain ⟨ns, req, opt, rest, h1, h2, h3⟩ := ihd .optional acc h
        exact ⟨n :: ns, req, opt, rest, by simp [Val.elems, h1], .optMarker ho h2, h3⟩
      · by_cases hr : c.symName n = "&rest"
        · rw [aux_restMarker c i n d _ acc ho hr] at h
          obtain ⟨ns, req, opt, rest, h1, h2, h3⟩ := ihd .rest acc h
          exact ⟨n :: ns, req, opt, rest, by simp [Val.elems, h1], .restMarker ho hr h2, h3⟩
        · cases s with
          | required =>
            rw [show Section.required.toNat = 0 from rfl, aux_req c i n d acc ho hr] at h
            obtain ⟨ns, req, opt, rest, h1, h2, h3⟩ := ihd .required _ h
            exact ⟨n :: ns, n :: req, opt, rest, by simp [Val.elems, h1], .req ho hr h2,
              by simpa [extendParams] using h3⟩
          | optional =>
            rw [show Section.optional.toNat = 1 from rfl, aux_opt c i n d acc ho hr] at h
            obtain ⟨ns, req, opt, rest, h1, h2, h3⟩ := ihd .optional _ h
            exact ⟨n :: ns, req, n :: opt, rest, by simp [Val.elems, h1], .opt ho hr h2,
              by simpa [extendParams] using h3⟩
          | rest =>
            rcases isCons_cases d with ⟨j, x, y, rfl⟩ | hc
            · rw [show Section.rest.toNat = 2 from rfl, aux_rest_more c i n j x y acc ho hr] at h
              cases h
            · rw [show Section.rest.toNat = 2 from rfl, aux_rest_last c i n d acc ho hr hc] at h
              cases h
              exact ⟨[n], [], [], some n, by simp [Val.elems, elems_of_atom hc], .rest ho hr,
                by simp [extendParams]⟩
    | _ => rw [aux_nonsym c i _ d _ acc rfl] at h; cases h
  | _ =>
    rw [aux_atom c _ _ acc rfl] at h
    cases h
    exact ⟨[], [], [], none, rfl, .nil s, by simp [extendParams]⟩

/-- every error of the parameter parser proper is a type mismatch -/
theorem aux_error (c : Ctx) (v : Val) (mode : Nat) (acc : Params) (k : ErrKind)
    (h : parseParamsAux c v mode acc = .error k) : k = .typeMismatch := by
  induction v generalizing mode acc with
  | cons i p d _ ihd =>
    cases p with
    | sym n =>
      rw [parseParamsAux.eq_def] at h
      simp only at h
      split at h
      · exact ihd _ _ h
      · split at h
        · exact ihd _ _ h
        · split at h
          · split at h
            · cases h; rfl
            · cases h
          · split at h
            · exact ihd _ _ h
            · exact ihd _ _ h
    | _ => rw [aux_nonsym c i _ d _ acc rfl] at h; cases h; rfl
  | _ => rw [aux_atom c _ _ acc rfl] at h; cases h


/-- a symbol whose name is not one of the two markers -/
def Plain (nm : Nat → String) (n : Nat) : Prop := nm n ≠ "&optional" ∧ nm n ≠ "&rest"

/-- the `[&rest r]` part of a canonical parameter list (`rs` is the `&rest` symbol) -/
def restPart (rs : Nat) : Option Nat → List Nat
  | some r => [rs, r]
  | none => []

theorem rest_ne_optional : ("&rest" : String) ≠ "&optional" := by decide

theorem grammar_restPart (nm : Nat → String) (s : Section) (rs : Nat) (hrs : nm rs = "&rest")
    (rest : Option Nat) (hp : ∀ r, rest = some r → Plain nm r) :
    Grammar nm s (restPart rs rest) [] [] rest := by
  cases rest with
  | none => exact .nil s
  | some r =>
    have := hp r rfl
    exact .restMarker (by rw [hrs]; exact rest_ne_optional) hrs (.rest this.1 this.2)

theorem grammar_opts (nm : Nat → String) (opt : List Nat) (hp : ∀ n ∈ opt, Plain nm n)
    (ns req opt' : List Nat) (rest : Option Nat) (g : Grammar nm .optional ns req opt' rest) :
    Grammar nm .optional (opt ++ ns) req (opt ++ opt') rest := by
  induction opt with
  | nil => exact g
  | cons n opt ih =>
    have h := hp n (by simp)
    exact .opt h.1 h.2 (ih fun m hm => hp m (by simp [hm]))

theorem grammar_reqs (nm : Nat → String) (req : List Nat) (hp : ∀ n ∈ req, Plain nm n)
    (ns req' opt : List Nat) (rest : Option Nat) (g : Grammar nm .required ns req' opt rest) :
    Grammar nm .required (req ++ ns) (req ++ req') opt rest := by
  induction req with
  | nil => exact g
  | cons n req ih =>
    have h := hp n (by simp)
    exact .req h.1 h.2 (ih fun m hm => hp m (by simp [hm]))

/-- the grammar is functional: a list of names declares at most one parameter structure -/
theorem grammar_unique (nm : Nat → String) (s : Section) (ns : List Nat)
    {req opt : List Nat} {rest : Option Nat} {req' opt' : List Nat} {rest' : Option Nat}
    (g : Grammar nm s ns req opt rest) (g' : Grammar nm s ns req' opt' rest') :
    req = req' ∧ opt = opt' ∧ rest = rest' := by
  induction g generalizing req' opt' rest' with
  | nil s => cases g'; exact ⟨rfl, rfl, rfl⟩
  | optMarker h _ ih =>
    cases g' with
    | optMarker _ g2 => exact ih g2
    | restMarker h1 _ _ => exact absurd h h1
    | req h1 _ _ => exact absurd h h1
    | opt h1 _ _ => exact absurd h h1
    | rest h1 _ => exact absurd h h1
  | restMarker h1 h _ ih =>
    cases g' with
    | optMarker h' _ => exact absurd h' h1
    | restMarker _ _ g2 => exact ih g2
    | req _ h2 _ => exact absurd h h2
    | opt _ h2 _ => exact absurd h h2
    | rest _ h2 => exact absurd h h2
  | req h1 h2 _ ih =>
    cases g' with
    | optMarker h' _ => exact absurd h' h1
    | restMarker _ h' _ => exact absurd h' h2
    | req _ _ g2 =>
      obtain ⟨a, b, c⟩ := ih g2
      exact ⟨by rw [a], b, c⟩
  | opt h1 h2 _ ih =>
    cases g' with
    | optMarker h' _ => exact absurd h' h1
    | restMarker _ h' _ => exact absurd h' h2
    | opt _ _ g2 =>
      obtain ⟨a, b, c⟩ := ih g2
      exact ⟨a, by rw [b], c⟩
  | rest h1 h2 =>
    cases g' with
    | optMarker h' _ => exact absurd h' h1
    | restMarker _ h' _ => exact absurd h' h2
    | rest _ _ => exact ⟨rfl, rfl, rfl⟩


theorem bind_eq_ok {α β} {m : M α} {f : α → M β} {c c' : Ctx} {b : β}
    (h : (m >>= f) c = (.ok b, c')) : ∃ a c1, m c = (.ok a, c1) ∧ f a c1 = (.ok b, c') := by
  change M.bind m f c = _ at h
  unfold M.bind at h
  rcases h1 : m c with ⟨res, c1⟩
  rw [h1] at h
  cases res with
  | ok a => exact ⟨a, c1, rfl, h⟩
  | err k => simp at h
  | panic s => simp at h
  | fuel => simp at h


/-! ## list facts for `bindParams` -/

theorem zip_fst_sublist (ps : List Nat) (vals : List Val) :
    ((ps.zip vals).map Prod.fst).Sublist ps := by
  induction ps generalizing vals with
  | nil => simp
  | cons p ps ih =>
    cases vals with
    | nil => simp
    | cons v vs => simpa using ih vs

theorem fst_mem_of_mem_zip {ps : List Nat} {vals : List Val} {pv : Nat × Val}
    (h : pv ∈ ps.zip vals) : pv.1 ∈ ps :=
  (zip_fst_sublist ps vals).subset (List.mem_map_of_mem h)

theorem getElem_mem_zip (ps : List Nat) (vals : List Val) (i : Nat) (hi : i < ps.length)
    (hv : i < vals.length) : (ps[i], vals[i]) ∈ ps.zip vals := by
  induction ps generalizing vals i with
  | nil => simp at hi
  | cons p ps ih =>
    cases vals with
    | nil => simp at hv
    | cons v vs =>
      cases i with
      | zero => simp
      | succ i =>
        simp only [List.getElem_cons_succ, List.zip_cons_cons, List.mem_cons]
        exact .inr (ih vs i (by simpa using hi) (by simpa using hv))

/-- `Grammar` has no derivation for two names after `&rest`. -/
theorem grammar_no_second_rest_name (nm : Nat → String) (req : List Nat)
    (rs a b : Nat) (more : List Nat) (hreq : ∀ n ∈ req, Plain nm n) (hrs : nm rs = "&rest")
    (ha : Plain nm a) {rq op : List Nat} {rt : Option Nat}
    (g : Grammar nm .required (req ++ rs :: a :: b :: more) rq op rt) : False := by
  induction req generalizing rq with
  | cons n req ih =>
    have hn := hreq n (by simp)
    cases g with
    | optMarker h _ => exact hn.1 h
    | restMarker _ h _ => exact hn.2 h
    | req _ _ g2 => exact ih (fun m hm => hreq m (by simp [hm])) g2
  | nil =>
    cases g with
    | optMarker h _ => rw [hrs] at h; exact rest_ne_optional h
    | req _ h2 _ => exact h2 hrs
    | restMarker _ _ g2 =>
      cases g2 with
      | optMarker h _ => exact ha.1 h
      | restMarker _ h _ => exact ha.2 h

end Tulisp.C02

