/-
  Proofs/C09Lex.lean — definitions for the character level of C09 (part B) shared with C16:
  how tokens are written (`Renders`, `render`), string-literal encodings (`StrEnc`),
  separators (`Sep`), laid-out token sequences (`layout`, `Valid`).
  Only definitions and a few immediate facts; the proofs are in Proofs/C09Tok.lean.
-/
import Tulisp.Proofs.C09
namespace Tulisp.C09
open Tulisp

/-- Run the tokenizer's step function over some characters. -/
def run (s : TState) (cs : List Char) : TState := cs.foldl tstep s

theorem run_append (s : TState) (a b : List Char) : run s (a ++ b) = run (run s a) b := by
  simp [run, List.foldl_append]

theorem run_cons (s : TState) (c : Char) (r : List Char) : run s (c :: r) = run (tstep s c) r := rfl
theorem run_nil (s : TState) : run s [] = s := rfl

theorem tokenizeFrom_eq (s : TState) (cs : List Char) : tokenizeFrom s cs = tfinish (run s cs) := rfl

/-! ## String literals -/

/-- `StrEnc raw cs`: `raw` (the characters between the quotes of a string literal) encodes the
    characters `cs`: every character stands for itself except `"` and `\`, which must be
    escaped; newline and tab may be written raw or as `\n`, `\t`. -/
inductive StrEnc : List Char → List Char → Prop
  | nil : StrEnc [] []
  | plain (c : Char) {raw cs : List Char} (h1 : c ≠ '\\') (h2 : c ≠ '"') :
      StrEnc raw cs → StrEnc (c :: raw) (c :: cs)
  | escN {raw cs : List Char} : StrEnc raw cs → StrEnc ('\\' :: 'n' :: raw) ('\n' :: cs)
  | escT {raw cs : List Char} : StrEnc raw cs → StrEnc ('\\' :: 't' :: raw) ('\t' :: cs)
  | escB {raw cs : List Char} : StrEnc raw cs → StrEnc ('\\' :: '\\' :: raw) ('\\' :: cs)
  | escQ {raw cs : List Char} : StrEnc raw cs → StrEnc ('\\' :: '"' :: raw) ('"' :: cs)

/-- The printer's encoding of one character (`escapeString`). -/
def encChar (c : Char) : List Char := if c = '"' || c = '\\' then ['\\', c] else [c]

/-- A string literal as the printer writes it. -/
def renderString (s : String) : List Char := '"' :: (s.toList.flatMap encChar ++ ['"'])

/-! ## Words: integers, floats, identifiers -/

def isWs (c : Char) : Bool := c = ' ' || c = '\t' || c = '\n' || c = '\r'

/-- Characters that cannot start a number/identifier token. -/
def isSpecialStart (c : Char) : Bool :=
  isWs c || c = '(' || c = ')' || c = '\'' || c = '`' || c = '.' || c = '#' || c = ',' ||
  c = '"' || c = ';'

/-- `(is_int, is_float)` after the first character of `read_num_ident`. -/
def flag0 (c : Char) : Bool × Bool :=
  if c = '-' then (true, false) else if c.isDigit then (true, false) else (false, false)

/-- `(is_int, is_float)` after one more (non-break) character. -/
def flagStep (fl : Bool × Bool) (c : Char) : Bool × Bool :=
  if c = '-' then (false, false)
  else if c.isDigit then fl
  else if c = '.' then (if fl.1 && !fl.2 then (false, true) else (fl.1, false))
  else (false, false)

/-- The token a complete word (maximal run of non-break characters) is classified as. -/
def wordTok : List Char → Tok
  | [] => .ident ""
  | c :: r => let fl := r.foldl flagStep (flag0 c); classify (c :: r) fl.1 fl.2

/-- A word: non-empty, does not start with a special character, contains no break character. -/
structure WordOk (w : List Char) : Prop where
  ne : w ≠ []
  head : ∀ c ∈ w.head?, isSpecialStart c = false
  noBreak : ∀ c ∈ w, isBreak c = false

/-- Characters that read back as the identifier with exactly these characters. -/
def IdentOk (cs : List Char) : Prop := WordOk cs ∧ wordTok cs = .ident (String.ofList cs)

/-- Decimal digits of a natural number (what `toString` prints). -/
def digits (n : Nat) : List Char := Nat.toDigits 10 n

/-- An integer literal as the printer writes it. -/
def renderInt : Int → List Char
  | .ofNat m => digits m
  | .negSucc m => '-' :: digits (m + 1)

/-! ## How tokens are written -/

/-- `Renders t w`: the characters `w` are a way of writing token `t`. -/
inductive Renders : Tok → List Char → Prop
  | open : Renders .open ['(']
  | close : Renders .close [')']
  | quote : Renders .quote ['\'']
  | backtick : Renders .backtick ['`']
  | dot : Renders .dot ['.']
  | comma : Renders .comma [',']
  | splice : Renders .splice [',', '@']
  | sharpquote : Renders .sharpquote ['#', '\'']
  | str (raw cs : List Char) : StrEnc raw cs → Renders (.str (String.ofList cs)) ('"' :: (raw ++ ['"']))
  | word (w : List Char) : WordOk w → Renders (wordTok w) w

/-- The canonical way of writing a token (the printer's). -/
def render : Tok → List Char
  | .open => ['(']
  | .close => [')']
  | .quote => ['\'']
  | .backtick => ['`']
  | .dot => ['.']
  | .comma => [',']
  | .splice => [',', '@']
  | .sharpquote => ['#', '\'']
  | .str s => renderString s
  | .int n => renderInt n
  | .float t => t.toList
  | .ident s => s.toList
  | .err _ => []

/-- Tokens that `render` writes faithfully. -/
def Renderable : Tok → Prop
  | .int n => inI64 n = true
  | .float t => WordOk t.toList ∧ wordTok t.toList = .float t
  | .ident s => IdentOk s.toList
  | .err _ => False
  | _ => True

/-! ## Separators and layout -/

/-- Separators: whitespace and `;`-comments (each comment ends with its newline). -/
inductive Sep : List Char → Prop
  | nil : Sep []
  | ws (c : Char) {r : List Char} (h : isWs c = true) : Sep r → Sep (c :: r)
  | comment (body : List Char) {r : List Char} (h : '\n' ∉ body) : Sep r → Sep (';' :: (body ++ '\n' :: r))

/-- What may follow the last separator: nothing, or a comment that the end of input terminates. -/
inductive Trailer : List Char → Prop
  | nil : Trailer []
  | comment (body : List Char) (h : '\n' ∉ body) : Trailer (';' :: body)

/-- What must follow a token so that it does not fuse with its successor:
    a number/identifier ends only at `)`/whitespace/end of input; a `,` must be followed by
    something other than `@`. -/
def Compat : Tok → List Char → Prop
  | .comma, rest => ∃ c r, rest = c :: r ∧ c ≠ '@'
  | .int _, rest | .float _, rest | .ident _, rest | .err _, rest =>
      rest = [] ∨ ∃ c r, rest = c :: r ∧ isBreak c = true
  | _, _ => True

/-- A laid-out item: a token, the characters it is written with, the separator after it. -/
structure Item where
  tok : Tok
  text : List Char
  sep : List Char

/-- The text of a sequence of items followed by `after`. -/
def layout : List Item → List Char → List Char
  | [], after => after
  | it :: r, after => it.text ++ (it.sep ++ layout r after)

/-- Every item is written correctly, separators are separators, and no token fuses with what
    follows it. -/
def Valid : List Item → List Char → Prop
  | [], _ => True
  | it :: r, after => Renders it.tok it.text ∧ Sep it.sep ∧ Compat it.tok (it.sep ++ layout r after) ∧
      Valid r after

theorem layout_append (xs ys : List Item) (after : List Char) :
    layout (xs ++ ys) after = layout xs (layout ys after) := by
  induction xs with
  | nil => rfl
  | cons x xs ih => simp [layout, ih]

theorem valid_append (xs ys : List Item) (after : List Char) :
    Valid (xs ++ ys) after ↔ Valid xs (layout ys after) ∧ Valid ys after := by
  induction xs with
  | nil => simp [Valid]
  | cons x xs ih => simp [Valid, ih, layout_append, and_assoc]

end Tulisp.C09
