/-
  Proofs/C13.lean — helper lemmas for property C13 (the numeric tower).

  Integer facts about `inI64`, truncating division `Int.tdiv` / `Int.tmod`, floored remainder
  `Int.fmod`, and small unfolding lemmas for the monad `M` used in Props/C13.lean.
  Core Lean only.
-/
import Tulisp.Model.Eval
namespace Tulisp.C13
open Tulisp

/-! ## the i64 range -/

theorem inI64_iff (n : Int) :
    inI64 n = true ↔ (-9223372036854775808 ≤ n ∧ n ≤ 9223372036854775807) := by
  unfold inI64 i64Min i64Max
  rw [Bool.and_eq_true, decide_eq_true_iff, decide_eq_true_iff]

theorem inI64_eq_false_iff (n : Int) :
    inI64 n = false ↔ (n < -9223372036854775808 ∨ 9223372036854775807 < n) := by
  rw [← Bool.not_eq_true, inI64_iff]; omega

/-! ## truncating division -/

/-- remainder of truncating division has the sign of the dividend (or is zero) -/
theorem tmod_sign (a b : Int) :
    (0 ≤ a → 0 ≤ Int.tmod a b) ∧ (a ≤ 0 → Int.tmod a b ≤ 0) := by
  refine ⟨fun h => Int.tmod_nonneg b h, fun h => ?_⟩
  have h1 : 0 ≤ Int.tmod (-a) b := Int.tmod_nonneg b (by omega)
  rw [Int.neg_tmod] at h1
  omega

theorem natAbs_tmod_lt (a : Int) {b : Int} (hb : b ≠ 0) :
    (Int.tmod a b).natAbs < b.natAbs := by
  rw [Int.natAbs_tmod]
  exact Nat.mod_lt _ (by omega)

theorem natAbs_tdiv_le (a b : Int) : (Int.tdiv a b).natAbs ≤ a.natAbs :=
  Int.natAbs_tdiv_le_natAbs a b

/-- `|a / b| ≤ |a| / 2` as soon as `|b| ≥ 2` -/
theorem natAbs_tdiv_le_half (a b : Int) (hb : 2 ≤ b.natAbs) :
    (Int.tdiv a b).natAbs ≤ a.natAbs / 2 := by
  rw [Int.natAbs_tdiv]
  exact Nat.div_le_div_left hb (by omega)

theorem tdiv_neg_one (a : Int) : Int.tdiv a (-1) = -a := by
  rw [Int.tdiv_neg, Int.tdiv_one]

/-- The only overflowing i64 quotient is `i64::MIN / -1`. -/
theorem tdiv_inI64_iff {a b : Int} (ha : inI64 a = true) (_hb : inI64 b = true) (hb0 : b ≠ 0) :
    inI64 (Int.tdiv a b) = true ↔ ¬ (a = i64Min ∧ b = -1) := by
  rw [inI64_iff] at ha
  rw [inI64_iff]
  simp only [i64Min]
  by_cases h1 : b = -1
  · subst h1
    rw [tdiv_neg_one]
    omega
  · by_cases h2 : b = 1
    · subst h2
      rw [Int.tdiv_one]
      omega
    · have h3 := natAbs_tdiv_le_half a b (by omega)
      omega

/-! ## floored remainder -/

theorem fmod_bounds (a : Int) {b : Int} (hb : b ≠ 0) :
    (0 ≤ Int.fmod a b ∧ Int.fmod a b < b) ∨ (b < Int.fmod a b ∧ Int.fmod a b ≤ 0) := by
  by_cases hpos : 0 < b
  · exact Or.inl ⟨Int.fmod_nonneg_of_pos a hpos, Int.fmod_lt_of_pos a hpos⟩
  · have hneg : 0 < -b := by omega
    have h1 := Int.fmod_nonneg_of_pos (-a) hneg
    have h2 := Int.fmod_lt_of_pos (-a) hneg
    rw [Int.neg_fmod_neg] at h1 h2
    exact Or.inr ⟨by omega, by omega⟩

theorem fmod_decomp (a b : Int) : ∃ q, a = b * q + Int.fmod a b :=
  ⟨Int.fdiv a b, (Int.mul_fdiv_add_fmod a b).symm⟩

theorem fmod_inI64 {a b : Int} (_ha : inI64 a = true) (hb : inI64 b = true) (hb0 : b ≠ 0) :
    inI64 (Int.fmod a b) = true := by
  rw [inI64_iff] at hb
  rw [inI64_iff]
  have := fmod_bounds a hb0
  omega


/-! ## uniqueness of quotient and remainder -/

theorem eq_zero_of_mul_small {b k d : Int} (h : b * k = d) (hd : d.natAbs < b.natAbs) : k = 0 := by
  by_cases hk : k = 0
  · exact hk
  · have h1 : (b * k).natAbs = b.natAbs * k.natAbs := Int.natAbs_mul b k
    have hk' : 0 < k.natAbs := by omega
    have h2 : b.natAbs ≤ b.natAbs * k.natAbs := Nat.le_mul_of_pos_right _ hk'
    rw [h] at h1
    omega

/-- Truncation toward zero determines quotient and remainder. -/
theorem tdiv_tmod_unique {a b q r : Int} (hb : b ≠ 0) (h : a = b * q + r)
    (hr : r.natAbs < b.natAbs) (hpos : 0 ≤ a → 0 ≤ r) (hneg : a ≤ 0 → r ≤ 0) :
    q = Int.tdiv a b ∧ r = Int.tmod a b := by
  have h' := (Int.mul_tdiv_add_tmod a b).symm
  have hr' := natAbs_tmod_lt a hb
  have hs := tmod_sign a b
  have hk : b * (q - Int.tdiv a b) = Int.tmod a b - r := by
    rw [Int.mul_sub]; omega
  have hq : q - Int.tdiv a b = 0 := eq_zero_of_mul_small hk (by omega)
  have hq' : q = Int.tdiv a b := by omega
  refine ⟨hq', ?_⟩
  subst hq'
  omega

/-- The floored remainder is the only representative of `a` modulo `b` between `0` and `b`. -/
theorem fmod_unique {a b q r : Int} (hb : b ≠ 0) (h : a = b * q + r)
    (hr : (0 ≤ r ∧ r < b) ∨ (b < r ∧ r ≤ 0)) : r = Int.fmod a b := by
  have h' := (Int.mul_fdiv_add_fmod a b).symm
  have hr' := fmod_bounds a hb
  have hk : b * (q - Int.fdiv a b) = Int.fmod a b - r := by
    rw [Int.mul_sub]; omega
  have hq : q - Int.fdiv a b = 0 := eq_zero_of_mul_small hk (by omega)
  have hq' : q = Int.fdiv a b := by omega
  subst hq'
  omega

/-! ## the monad -/

@[simp] theorem bind_apply {α β} (m : M α) (f : α → M β) (c : Ctx) :
    (m >>= f) c = M.bind m f c := rfl

@[simp] theorem pure_apply {α} (a : α) (c : Ctx) : (pure a : M α) c = (.ok a, c) := rfl

theorem M.bind_ok {α β} {m : M α} {f : α → M β} {c c' : Ctx} {a : α} (h : m c = (.ok a, c')) :
    M.bind m f c = f a c' := by
  simp only [M.bind, h]

theorem M.bind_err {α β} {m : M α} {f : α → M β} {c c' : Ctx} {k : ErrKind}
    (h : m c = (.err k, c')) : M.bind m f c = (.err k, c') := by
  simp only [M.bind, h]

/-- associativity of `M.bind` -/
theorem M.bind_assoc {α β γ} (m : M α) (f : α → M β) (g : β → M γ) :
    M.bind (M.bind m f) g = M.bind m (fun a => M.bind (f a) g) := by
  funext c
  simp only [M.bind]
  cases h : m c with
  | mk r c' => cases r <;> simp

theorem M.pure_bind {α β} (a : α) (f : α → M β) : M.bind (M.pure a) f = f a := by
  funext c; simp [M.bind, M.pure]

theorem M.bind_pure {α} (m : M α) : M.bind m M.pure = m := by
  funext c
  simp only [M.bind, M.pure]
  cases h : m c with
  | mk r c' => cases r <;> simp

/-- a thrown error skips the continuation -/
theorem M.throw_bind {α β} (k : ErrKind) (f : α → M β) : M.bind (M.throw k) f = M.throw k := by
  funext c; simp [M.bind, M.throw]

/-! ## spines: `v.spine = (elements, final tail)`; `v` is a proper list iff `v.spine.2 = .nil` -/

theorem spine_cons (i : Nat) (a d : Val) :
    (Val.cons i a d).spine = (a :: d.spine.1, d.spine.2) := rfl

theorem spine_atom {v : Val} (h : v.isCons = false) : v.spine = ([], v) := by
  cases v <;> first | rfl | simp [Val.isCons] at h

/-- the final tail of a spine is never a cons -/
theorem spine_snd_not_cons (v : Val) : v.spine.2.isCons = false := by
  induction v with
  | cons i a d _ ih => simpa [spine_cons] using ih
  | _ => rfl

/-! ## `numOf` -/

theorem numOf_some {v : Val} {n : Num} (h : v.toNum? = some n) (c : Ctx) :
    numOf v c = (.ok n, c) := by
  simp [numOf, h]

theorem numOf_none {v : Val} (h : v.toNum? = none) (c : Ctx) :
    numOf v c = (.err .typeMismatch, c) := by
  simp [numOf, h, M.throw]

theorem numOf_cases (v : Val) (c : Ctx) :
    (∃ n, v.toNum? = some n ∧ numOf v c = (.ok n, c)) ∨
    (v.toNum? = none ∧ numOf v c = (.err .typeMismatch, c)) := by
  cases h : v.toNum? with
  | some n => exact Or.inl ⟨n, rfl, numOf_some h c⟩
  | none => exact Or.inr ⟨rfl, numOf_none h c⟩

theorem toNum?_none_iff (v : Val) : v.toNum? = none ↔ v.isNumber = false := by
  cases v <;> simp [Val.toNum?, Val.isNumber]

end Tulisp.C13
