/-
  Proofs/C20.lean — helper definitions and lemmas for property C20 (object API on the heap model,
  symbol API as a stack machine).  Part 1: heaps, `ListAt`, `Chain`, walking, `push`.
-/
import Tulisp.Model.Api
namespace Tulisp.C20
open Tulisp Tulisp.Api

/-! ## cells -/

/-- the object is not a cons cell -/
def NotCons (o : Obj) : Prop := ∀ a d, o ≠ .cons a d

theorem notCons_nil : NotCons .nil := by intro a d h; cases h
theorem notCons_of_eq_nil {o : Obj} (h : o = .nil) : NotCons o := by subst h; exact notCons_nil

abbrev size (h : Heap) : Nat := h.cells.size

/-- every cons cell points into the heap -/
def WF (h : Heap) : Prop := ∀ i a d : Nat, h.get i = .cons a d → a < h.cells.size ∧ d < h.cells.size

theorem get_of_lt {h : Heap} {i : Nat} (hi : i < h.cells.size) : h.get i = h.cells[i] := by
  simp [Heap.get, hi]

theorem get_of_ge {h : Heap} {i : Nat} (hi : h.cells.size ≤ i) : h.get i = .nil := by
  simp [Heap.get, Array.getD, Nat.not_lt.mpr hi]

theorem lt_of_get_cons {h : Heap} {i a d : Nat} (hg : h.get i = .cons a d) : i < h.cells.size := by
  apply Nat.lt_of_not_le; intro hle; rw [get_of_ge hle] at hg; cases hg

theorem lt_of_get_ne_nil {h : Heap} {i : Nat} (hg : h.get i ≠ .nil) : i < h.cells.size := by
  apply Nat.lt_of_not_le; intro hle; exact hg (get_of_ge hle)

/-! ### alloc / assign -/

@[simp] theorem alloc_fst (h : Heap) (o : Obj) : (h.alloc o).1 = h.cells.size := rfl
@[simp] theorem alloc_size (h : Heap) (o : Obj) : (h.alloc o).2.cells.size = h.cells.size + 1 := by
  simp [Heap.alloc]
@[simp] theorem assign_size (h : Heap) (r : Nat) (o : Obj) : (h.assign r o).cells.size = h.cells.size := by
  simp [Heap.assign]

theorem alloc_get_old {h : Heap} {o : Obj} {i : Nat} (hi : i < h.cells.size) :
    (h.alloc o).2.get i = h.get i := by
  simp [Heap.alloc, Heap.get, Array.getD, hi, Nat.lt_succ_of_lt hi, Array.getElem_push]

theorem alloc_get_new (h : Heap) (o : Obj) : (h.alloc o).2.get h.cells.size = o := by
  simp [Heap.alloc, Heap.get, Array.getD]

theorem alloc_get_gt {h : Heap} {o : Obj} {i : Nat} (hi : h.cells.size < i) :
    (h.alloc o).2.get i = .nil := by
  apply get_of_ge; simp; omega

theorem assign_get_same {h : Heap} {r : Nat} {o : Obj} (hr : r < h.cells.size) :
    (h.assign r o).get r = o := by
  simp [Heap.assign, Heap.get, Array.getD, hr]

theorem assign_get_other {h : Heap} {r i : Nat} {o : Obj} (hne : i ≠ r) :
    (h.assign r o).get i = h.get i := by
  simp [Heap.assign, Heap.get, Array.getElem?_setIfInBounds_ne (Ne.symm hne)]

/-- heap extension: old cells are kept, new cells may be appended -/
def Ext (h h' : Heap) : Prop :=
  h.cells.size ≤ h'.cells.size ∧ ∀ i : Nat, i < h.cells.size → h'.get i = h.get i

theorem Ext.refl (h : Heap) : Ext h h := ⟨Nat.le_refl _, fun _ _ => rfl⟩
theorem Ext.trans {a b c : Heap} (h1 : Ext a b) (h2 : Ext b c) : Ext a c :=
  ⟨Nat.le_trans h1.1 h2.1, fun i hi => by rw [h2.2 i (Nat.lt_of_lt_of_le hi h1.1), h1.2 i hi]⟩
theorem ext_alloc (h : Heap) (o : Obj) : Ext h (h.alloc o).2 :=
  ⟨by simp, fun _ hi => alloc_get_old hi⟩

theorem wf_alloc {h : Heap} {o : Obj} (hw : WF h)
    (ho : ∀ a d, o = .cons a d → a < h.cells.size ∧ d < h.cells.size) : WF (h.alloc o).2 := by
  intro i a d hg
  rw [alloc_size]
  rcases Nat.lt_trichotomy i h.cells.size with hi | hi | hi
  · rw [alloc_get_old hi] at hg; have := hw i a d hg; omega
  · subst hi; rw [alloc_get_new] at hg; have := ho a d hg; omega
  · rw [alloc_get_gt hi] at hg; cases hg

theorem wf_assign {h : Heap} {r : Nat} {o : Obj} (hw : WF h)
    (ho : ∀ a d, o = .cons a d → a < h.cells.size ∧ d < h.cells.size) : WF (h.assign r o) := by
  intro i a d hg
  rw [assign_size]
  by_cases hi : i = r
  · subst hi
    by_cases hr : i < h.cells.size
    · rw [assign_get_same hr] at hg; exact ho a d hg
    · have hge : (h.assign i o).cells.size ≤ i := by rw [assign_size]; omega
      rw [get_of_ge hge] at hg; cases hg
  · rw [assign_get_other hi] at hg; exact hw i a d hg

/-- a decidable check of `WF` (for concrete heaps) -/
def wfb (h : Heap) : Bool :=
  (List.range h.cells.size).all (fun i =>
    match h.get i with
    | .cons a d => decide (a < h.cells.size) && decide (d < h.cells.size)
    | _ => true)

theorem wf_of_wfb {h : Heap} (hb : wfb h = true) : WF h := by
  intro i a d hg
  have hi := lt_of_get_cons hg
  unfold wfb at hb
  rw [List.all_eq_true] at hb
  have := hb i (List.mem_range.mpr hi)
  rw [hg] at this
  simpa using this

theorem notCons_of_isCons {h : Heap} {r : Nat} (hc : h.isCons r = false) : NotCons (h.get r) := by
  intro a d hg; simp [Heap.isCons, hg] at hc

/-! ## lists on the heap -/

/-- `ListAt h r xs tl`: following cdr links from `r` passes the cons cells whose cars are `xs`
    and ends in the non-cons reference `tl`.  A (finite) derivation is acyclicity of that chain. -/
inductive ListAt (h : Heap) : Nat → List Nat → Nat → Prop
  | done {r : Nat} : NotCons (h.get r) → ListAt h r [] r
  | step {r a d : Nat} {xs : List Nat} {tl : Nat} :
      h.get r = .cons a d → ListAt h d xs tl → ListAt h r (a :: xs) tl

/-- the same with the spine: `cs` are the cons cells of the chain, in order -/
inductive Chain (h : Heap) : Nat → List Nat → List Nat → Nat → Prop
  | done {r : Nat} : NotCons (h.get r) → Chain h r [] [] r
  | step {r a d : Nat} {cs xs : List Nat} {tl : Nat} :
      h.get r = .cons a d → Chain h d cs xs tl → Chain h r (r :: cs) (a :: xs) tl

theorem Chain.listAt {h : Heap} {r : Nat} {cs xs : List Nat} {tl : Nat} (c : Chain h r cs xs tl) :
    ListAt h r xs tl := by
  induction c with
  | done hn => exact .done hn
  | step hg _ ih => exact .step hg ih

theorem ListAt.chain {h : Heap} {r : Nat} {xs : List Nat} {tl : Nat} (l : ListAt h r xs tl) :
    ∃ cs, Chain h r cs xs tl := by
  induction l with
  | done hn => exact ⟨[], .done hn⟩
  | step hg _ ih => obtain ⟨cs, hc⟩ := ih; exact ⟨_ :: cs, .step hg hc⟩

theorem Chain.length_eq {h : Heap} {r : Nat} {cs xs : List Nat} {tl : Nat} (c : Chain h r cs xs tl) :
    cs.length = xs.length := by
  induction c with
  | done => rfl
  | step _ _ ih => simp [ih]

theorem Chain.tail_notCons {h : Heap} {r : Nat} {cs xs : List Nat} {tl : Nat} (c : Chain h r cs xs tl) :
    NotCons (h.get tl) := by
  induction c with
  | done hn => exact hn
  | step _ _ ih => exact ih

theorem ListAt.tail_notCons {h : Heap} {r : Nat} {xs : List Nat} {tl : Nat} (l : ListAt h r xs tl) :
    NotCons (h.get tl) := by
  obtain ⟨cs, c⟩ := l.chain; exact c.tail_notCons

/-- every spine cell is a cons cell (hence in range) -/
theorem Chain.spine_cons {h : Heap} {r : Nat} {cs xs : List Nat} {tl : Nat} (c : Chain h r cs xs tl) :
    ∀ x ∈ cs, ∃ a d, h.get x = .cons a d := by
  induction c with
  | done => intro x hx; cases hx
  | step hg _ ih =>
    intro x hx
    rcases List.mem_cons.mp hx with rfl | hx
    · exact ⟨_, _, hg⟩
    · exact ih x hx

theorem Chain.spine_lt {h : Heap} {r : Nat} {cs xs : List Nat} {tl : Nat} (c : Chain h r cs xs tl) :
    ∀ x ∈ cs, x < h.cells.size := by
  intro x hx; obtain ⟨a, d, hg⟩ := c.spine_cons x hx; exact lt_of_get_cons hg

/-- functionality -/
theorem Chain.functional {h : Heap} {r : Nat} {cs xs cs' xs' : List Nat} {tl tl' : Nat}
    (c : Chain h r cs xs tl) (c' : Chain h r cs' xs' tl') : cs = cs' ∧ xs = xs' ∧ tl = tl' := by
  induction c generalizing cs' xs' tl' with
  | done hn =>
    cases c' with
    | done => exact ⟨rfl, rfl, rfl⟩
    | step hg _ => exact absurd hg (hn _ _)
  | step hg _ ih =>
    cases c' with
    | done hn => exact absurd hg (hn _ _)
    | step hg' c2 =>
      rw [hg] at hg'; cases hg'
      obtain ⟨h1, h2, h3⟩ := ih c2
      subst h1; subst h2; subst h3; exact ⟨rfl, rfl, rfl⟩

theorem ListAt.functional {h : Heap} {r : Nat} {xs xs' : List Nat} {tl tl' : Nat}
    (l : ListAt h r xs tl) (l' : ListAt h r xs' tl') : xs = xs' ∧ tl = tl' := by
  obtain ⟨cs, c⟩ := l.chain
  obtain ⟨cs', c'⟩ := l'.chain
  exact (c.functional c').2

/-- the chain from any spine cell is a suffix of the chain -/
theorem Chain.suffix_of_mem {h : Heap} {r : Nat} {cs xs : List Nat} {tl : Nat} (c : Chain h r cs xs tl)
    {x : Nat} (hx : x ∈ cs) :
    ∃ cs1 cs2 xs2, cs = cs1 ++ x :: cs2 ∧ Chain h x (x :: cs2) xs2 tl := by
  induction c with
  | done => cases hx
  | @step r a d cs xs tl hg c ih =>
    rcases List.mem_cons.mp hx with rfl | hx
    · exact ⟨[], cs, a :: xs, rfl, .step hg c⟩
    · obtain ⟨cs1, cs2, xs2, he, hc⟩ := ih hx
      exact ⟨r :: cs1, cs2, xs2, by simp [he], hc⟩

/-- acyclicity: no cell occurs twice on a spine -/
theorem Chain.nodup {h : Heap} {r : Nat} {cs xs : List Nat} {tl : Nat} (c : Chain h r cs xs tl) :
    cs.Nodup := by
  induction c with
  | done => exact List.nodup_nil
  | @step r a d cs xs tl hg c ih =>
    refine List.nodup_cons.mpr ⟨?_, ih⟩
    intro hmem
    obtain ⟨cs1, cs2, xs2, he, hc⟩ := c.suffix_of_mem hmem
    have := ((Chain.step hg c).functional hc).1
    have hl := congrArg List.length this
    rw [he] at hl; simp at hl; omega

/-- pigeonhole: a chain has at most `cells.size` cons cells -/
theorem Chain.length_le {h : Heap} {r : Nat} {cs xs : List Nat} {tl : Nat} (c : Chain h r cs xs tl) :
    xs.length ≤ h.cells.size := by
  rw [← c.length_eq]
  have := List.Nodup.length_le_of_subset (l₂ := List.range h.cells.size) c.nodup
    (fun x hx => List.mem_range.mpr (c.spine_lt x hx))
  simpa using this

theorem ListAt.length_le {h : Heap} {r : Nat} {xs : List Nat} {tl : Nat} (l : ListAt h r xs tl) :
    xs.length ≤ h.cells.size := by
  obtain ⟨cs, c⟩ := l.chain; exact c.length_le

/-! ### `toList`, `elems`, `walk` -/

theorem toList_spec {h : Heap} {r : Nat} {xs : List Nat} {tl : Nat} (l : ListAt h r xs tl) :
    ∀ fuel, xs.length < fuel → h.toList fuel r = (xs, tl) := by
  induction l with
  | @done r hn =>
    intro fuel hf
    cases fuel with
    | zero => rfl
    | succ f =>
      unfold Heap.toList
      cases hg : h.get r with
      | cons a d => exact absurd hg (hn a d)
      | _ => rfl
  | @step r a d xs tl hg _ ih =>
    intro fuel hf
    cases fuel with
    | zero => simp at hf
    | succ f =>
      unfold Heap.toList
      rw [hg]; simp only
      rw [ih f (by simpa using hf)]

/-- converse (used to build `ListAt` facts about concrete heaps by computation) -/
theorem toList_sound {h : Heap} : ∀ (fuel : Nat) (r : Nat) (xs : List Nat) (tl : Nat),
    h.toList fuel r = (xs, tl) → h.isCons tl = false → ListAt h r xs tl := by
  intro fuel
  induction fuel with
  | zero =>
    intro r xs tl he hn
    simp [Heap.toList] at he
    obtain ⟨rfl, rfl⟩ := he
    refine .done ?_
    intro a d hg; simp [Heap.isCons, hg] at hn
  | succ f ih =>
    intro r xs tl he hn
    unfold Heap.toList at he
    cases hg : h.get r with
    | cons a d =>
      rw [hg] at he; simp only at he
      cases hr : h.toList f d with
      | mk ys t =>
        rw [hr] at he; simp at he
        obtain ⟨rfl, rfl⟩ := he
        exact .step hg (ih d ys t hr hn)
    | _ =>
      rw [hg] at he; simp at he
      obtain ⟨rfl, rfl⟩ := he
      refine .done ?_
      intro a d hg'; rw [hg] at hg'; cases hg'

theorem elems_spec {h : Heap} {r : Nat} {xs : List Nat} {tl : Nat} (l : ListAt h r xs tl) :
    h.elems r = xs := by
  unfold Heap.elems
  rw [toList_spec l _ (Nat.lt_succ_of_le l.length_le)]

/-- the last cons cell of a spine, or `prev` when the spine is empty -/
def lastOr (prev : Option Nat) : List Nat → Option Nat
  | [] => prev
  | c :: cs => lastOr (some c) cs

theorem lastOr_cons_some (prev : Option Nat) (c : Nat) (cs : List Nat) :
    lastOr prev (c :: cs) = some ((c :: cs).getLast (by simp)) := by
  induction cs generalizing prev c with
  | nil => rfl
  | cons c' cs ih =>
    show lastOr (some c) (c' :: cs) = _
    rw [ih]; simp [List.getLast_cons]

theorem walk_spec {h : Heap} {r : Nat} {cs xs : List Nat} {tl : Nat} (c : Chain h r cs xs tl) :
    ∀ fuel prev, xs.length < fuel → h.walk fuel prev r = (lastOr prev cs, tl) := by
  induction c with
  | @done r hn =>
    intro fuel prev hf
    cases fuel with
    | zero => rfl
    | succ f =>
      unfold Heap.walk
      cases hg : h.get r with
      | cons a d => exact absurd hg (hn a d)
      | _ => rfl
  | @step r a d cs xs tl hg _ ih =>
    intro fuel prev hf
    cases fuel with
    | zero => simp at hf
    | succ f =>
      unfold Heap.walk
      rw [hg]; simp only
      rw [ih f (some r) (by simpa using hf)]
      rfl

/-! ### frame lemmas for chains -/

/-- a chain survives heap extension when its tail is an old cell -/
theorem Chain.ext {h h' : Heap} {r : Nat} {cs xs : List Nat} {tl : Nat} (c : Chain h r cs xs tl)
    (he : Ext h h') (htl : tl < h.cells.size) : Chain h' r cs xs tl := by
  induction c with
  | @done r hn => exact .done (by rw [he.2 r htl]; exact hn)
  | @step r a d cs xs tl hg _ ih =>
    exact .step (by rw [he.2 r (lt_of_get_cons hg)]; exact hg) (ih htl)

theorem ListAt.ext {h h' : Heap} {r : Nat} {xs : List Nat} {tl : Nat} (l : ListAt h r xs tl)
    (he : Ext h h') (htl : tl < h.cells.size) : ListAt h' r xs tl := by
  obtain ⟨cs, c⟩ := l.chain; exact (c.ext he htl).listAt

/-- a chain survives an assignment to a cell that is neither on its spine nor its tail -/
theorem Chain.assign_frame {h : Heap} {r : Nat} {cs xs : List Nat} {tl : Nat} (c : Chain h r cs xs tl)
    {l : Nat} {o : Obj} (hl : l ∉ cs) (hlt : l ≠ tl) : Chain (h.assign l o) r cs xs tl := by
  induction c with
  | @done r hn => exact .done (by rw [assign_get_other (Ne.symm hlt)]; exact hn)
  | @step r a d cs xs tl hg _ ih =>
    have h1 : r ≠ l := fun e => hl (by simp [e])
    have h2 : l ∉ cs := fun e => hl (by simp [e])
    exact .step (by rw [assign_get_other h1]; exact hg) (ih h2 hlt)

/-- under `WF`, the tail of a chain starting at a cons is in range -/
theorem Chain.tail_lt {h : Heap} (hw : WF h) {r : Nat} {cs xs : List Nat} {tl : Nat}
    (c : Chain h r cs xs tl) (hr : r < h.cells.size) : tl < h.cells.size := by
  induction c with
  | done => exact hr
  | step hg _ ih => exact ih (hw _ _ _ hg).2

/-- under `WF`, the elements of a chain are in range -/
theorem Chain.elems_lt {h : Heap} (hw : WF h) {r : Nat} {cs xs : List Nat} {tl : Nat}
    (c : Chain h r cs xs tl) : ∀ x ∈ xs, x < h.cells.size := by
  induction c with
  | done => intro x hx; cases hx
  | step hg _ ih =>
    intro x hx
    rcases List.mem_cons.mp hx with rfl | hx
    · exact (hw _ _ _ hg).1
    · exact ih x hx

/-! ## `push` -/

/-- the heap after a successful `push` of `v` on a list whose terminating nil cell is `tl` -/
def pushed (h : Heap) (tl v : Nat) : Heap := (h.alloc .nil).2.assign tl (.cons v h.cells.size)

theorem pushed_size (h : Heap) (tl v : Nat) : (pushed h tl v).cells.size = h.cells.size + 1 := by
  simp [pushed]

theorem pushed_get_tl {h : Heap} {tl v : Nat} (htl : tl < h.cells.size) :
    (pushed h tl v).get tl = .cons v h.cells.size := by
  unfold pushed; exact assign_get_same (by rw [alloc_size]; omega)

theorem pushed_get_new {h : Heap} {tl v : Nat} (htl : tl < h.cells.size) :
    (pushed h tl v).get h.cells.size = .nil := by
  unfold pushed; rw [assign_get_other (Nat.ne_of_gt htl)]; exact alloc_get_new h .nil

theorem pushed_get_other {h : Heap} {tl v i : Nat} (hi : i ≠ tl) (hlt : i < h.cells.size) :
    (pushed h tl v).get i = h.get i := by
  unfold pushed; rw [assign_get_other hi]; exact alloc_get_old hlt

theorem pushed_get_ge {h : Heap} {tl v i : Nat} (htl : tl < h.cells.size) (hi : h.cells.size ≤ i) :
    (pushed h tl v).get i = .nil := by
  rcases Nat.eq_or_lt_of_le hi with rfl | hlt
  · exact pushed_get_new htl
  · apply get_of_ge; rw [pushed_size]; omega

/-- `push` computes `pushed` on a proper list -/
theorem push_eq {h : Heap} {r : Nat} {xs : List Nat} {tl : Nat} (l : ListAt h r xs tl)
    (hnil : h.get tl = .nil) (v : Nat) : h.push r v = .ok (pushed h tl v) := by
  cases l with
  | done hn => unfold Heap.push; rw [hnil]; rfl
  | @step r a d xs tl hg l' =>
    obtain ⟨cs, c⟩ := l'.chain
    unfold Heap.push
    rw [hg]; simp only
    rw [walk_spec c _ none (Nat.lt_succ_of_le c.length_le)]
    simp only [Heap.isNil, hnil, beq_self_eq_true, if_true]
    rfl

/-- effect of the assignment made by `push` on every chain of the heap:
    chains ending in `tl` grow by `v`, the others are unchanged -/
theorem Chain.pushed {h : Heap} {tl v : Nat} (htl : tl < h.cells.size) (hnil : h.get tl = .nil)
    {r2 : Nat} {cs ys : List Nat} {tl2 : Nat} (c : Chain h r2 cs ys tl2) :
    (tl2 = tl → Chain (pushed h tl v) r2 (cs ++ [tl]) (ys ++ [v]) h.cells.size) ∧
    (tl2 ≠ tl → Chain (pushed h tl v) r2 cs ys tl2) := by
  induction c with
  | @done r hn =>
    constructor
    · intro e; subst e
      exact .step (pushed_get_tl htl) (.done (by rw [pushed_get_new htl]; exact notCons_nil))
    · intro hne
      refine .done ?_
      by_cases hlt : r < h.cells.size
      · rw [pushed_get_other hne hlt]; exact hn
      · rw [pushed_get_ge htl (Nat.le_of_not_lt hlt)]; exact notCons_nil
  | @step r a d cs xs tl2 hg _ ih =>
    have hr : r ≠ tl := by intro e; rw [e, hnil] at hg; cases hg
    have hg' : (Tulisp.C20.pushed h tl v).get r = .cons a d := by
      rw [pushed_get_other hr (lt_of_get_cons hg)]; exact hg
    exact ⟨fun e => .step hg' (ih.1 e), fun e => .step hg' (ih.2 e)⟩

theorem wf_pushed {h : Heap} {tl v : Nat} (hw : WF h) (hv : v < h.cells.size) : WF (pushed h tl v) := by
  unfold pushed
  apply wf_assign
  · exact wf_alloc hw (fun a d e => by cases e)
  · intro a d e; cases e; simp; omega

end Tulisp.C20
