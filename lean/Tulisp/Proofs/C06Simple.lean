/-
  Proofs/C06Simple.lean — an instance of `ClosedClass`: forms whose only macros are the built-in
  macros `when`, `unless`, `->`, `->>`, `thread-first`, `thread-last`, `quote`, with no macro call
  in the head position of a list.
-/
import Tulisp.Proofs.C06Idem
namespace Tulisp.C06
open Tulisp Tulisp.C12
set_option linter.unusedSimpArgs false

/-- the built-in macros whose expansion only rearranges the argument forms -/
def simpleMacro : Bi → Bool
  | .when_ | .unless_ | .threadFirstArrow | .threadFirst | .threadLastArrow | .threadLast
  | .quote_ => true
  | _ => false

theorem simpleMacro_isMacro {b : Bi} (h : simpleMacro b = true) : b.isMacro = true := by
  cases b <;> first | rfl | simp [simpleMacro] at h

/-- if `h` denotes a macro at all, it is one of the simple built-in macros -/
def HeadOK (c : Ctx) (h : Val) : Prop :=
  isMacroValue (headValue c h) = true → ∃ b, headValue c h = .builtin b ∧ simpleMacro b = true

/-- forms in which every macro mentioned is a simple built-in macro, every macro call has
    `Simple` arguments, and no macro call is the head of a list -/
inductive Simple (c : Ctx) : Val → Prop
  | atom {v : Val} : v.isCons = false → HeadOK c v → Simple c v
  | call {i : Nat} {h args : Val} {b : Bi} : headValue c h = .builtin b → simpleMacro b = true →
      (∀ e ∈ args.elems, Simple c e) → Simple c (.cons i h args)
  | list {i : Nat} {h args : Val} : MacroHead c (.cons i h args) = false →
      (h.isCons = true → MacroHead c h = false) →
      (∀ e ∈ (Val.cons i h args).elems, Simple c e) → Simple c (.cons i h args)

theorem Simple.congr {c c' : Ctx} (hc : ∀ h, headValue c' h = headValue c h) {v : Val}
    (hv : Simple c v) : Simple c' v := by
  induction hv with
  | atom h ho => exact .atom h (by simpa [HeadOK, hc] using ho)
  | call hb hs _ ih => exact .call (by rw [hc]; exact hb) hs ih
  | list hm hh _ ih =>
    refine .list (by simpa [MacroHead, hc] using hm) (fun hcons => ?_) ih
    have := hh hcons
    rename_i h args _
    cases h <;> simp_all [MacroHead]

theorem Simple.nil (c : Ctx) : Simple c .nil := .atom rfl (fun h => by cases h)

theorem Simple.elems_cdrD {c : Ctx} {args : Val} (h : ∀ e ∈ args.elems, Simple c e) :
    ∀ e ∈ (cdrD args).elems, Simple c e := by
  cases args <;> simp_all [cdrD, Val.elems]

theorem Simple.carD {c : Ctx} {args : Val} (h : ∀ e ∈ args.elems, Simple c e) :
    Simple c (carD args) := by
  cases args <;> first | exact Simple.nil c | skip
  exact h _ (by simp [Val.elems])

/-- `(name . body)` for a name that is not a macro -/
theorem Simple.cons_sym {c : Ctx} (i n : Nat) (body : Val)
    (hn : isMacroValue (headValue c (.sym n)) = false) (hb : ∀ e ∈ body.elems, Simple c e) :
    Simple c (.cons i (.sym n) body) := by
  refine .list (by simpa [MacroHead] using hn) (fun h => by cases h) fun e he => ?_
  simp only [Val.elems, List.mem_cons] at he
  rcases he with rfl | he
  · exact .atom rfl (fun h => by rw [hn] at h; cases h)
  · exact hb e he

/-! ### `Simple` does not depend on cell identities -/

theorem eq_builtin_of_eraseIds {x : Val} {b : Bi} (h : eraseIds x = .builtin b) : x = .builtin b := by
  cases x <;> simp_all [eraseIds]

theorem headValue_eq_builtin_congr (c : Ctx) {h h' : Val} (he : eraseIds h' = eraseIds h) (b : Bi)
    (hb : headValue c h = .builtin b) : headValue c h' = .builtin b := by
  cases hs : h'.isSym
  · have hs' : h.isSym = false := by rw [← eraseIds_isSym, ← he, eraseIds_isSym, hs]
    rw [headValue_of_not_sym c hs'] at hb
    rw [headValue_of_not_sym c hs]
    subst hb
    exact eq_builtin_of_eraseIds he
  · cases h' <;> simp [Val.isSym] at hs
    rename_i n
    have : h = .sym n := eq_sym_of_eraseIds (by rw [← he]; rfl)
    rw [← this]; exact hb

theorem HeadOK.of_eraseIds {c : Ctx} {v w : Val} (he : eraseIds v = eraseIds w) (hw : HeadOK c w) :
    HeadOK c v := by
  intro hm
  rw [isMacroValue_headValue_congr c he] at hm
  obtain ⟨b, hb, hs⟩ := hw hm
  exact ⟨b, headValue_eq_builtin_congr c he b hb, hs⟩

theorem Simple.of_eraseIds {c : Ctx} {v w : Val} (he : eraseIds v = eraseIds w) (hw : Simple c w) :
    Simple c v := by
  induction hw generalizing v with
  | atom h ho =>
    exact .atom (by rw [← eraseIds_isCons, he, eraseIds_isCons, h]) (ho.of_eraseIds he)
  | @call i h args b hb hs _ ih =>
    cases v with
    | cons i' h' args' =>
      simp only [eraseIds_cons, Val.cons.injEq, true_and] at he
      refine .call (headValue_eq_builtin_congr c he.1 b hb) hs fun e' he' => ?_
      have hmap : args'.elems.map eraseIds = args.elems.map eraseIds := by
        rw [← elems_eraseIds, ← elems_eraseIds, he.2]
      obtain ⟨e, hmem, hee⟩ := exists_of_map_eq eraseIds hmap e' he'
      exact ih e hmem hee
    | _ => simp [eraseIds] at he
  | @list i h args hm hh _ ih =>
    cases v with
    | cons i' h' args' =>
      simp only [eraseIds_cons, Val.cons.injEq, true_and] at he
      refine .list ?_ ?_ ?_
      · simp only [MacroHead] at hm ⊢
        rw [isMacroValue_headValue_congr c he.1, hm]
      · intro hc'
        have hc : h.isCons = true := by rw [← eraseIds_isCons, ← he.1, eraseIds_isCons, hc']
        have := hh hc
        cases h' with
        | cons j a d =>
          cases h with
          | cons j' a' d' =>
            simp only [eraseIds_cons, Val.cons.injEq, true_and] at he
            simp only [MacroHead] at this ⊢
            rw [isMacroValue_headValue_congr c he.1.1, this]
          | _ => simp [Val.isCons] at hc
        | _ => simp [Val.isCons] at hc'
      · intro e' he'
        have hmap : (Val.cons i' h' args').elems.map eraseIds = (Val.cons i h args).elems.map eraseIds := by
          rw [← elems_eraseIds, ← elems_eraseIds]; simp [he.1, he.2]
        obtain ⟨e, hmem, hee⟩ := exists_of_map_eq eraseIds hmap e' he'
        exact ih e hmem hee
    | _ => simp [eraseIds] at he

/-! ### the simple macros map `Simple` arguments to `Simple` forms -/

theorem callMacro_when_isList {args ex : Val} {c c1 : Ctx}
    (h : callMacro .when_ args c = (.ok ex, c1)) : args.isList = true := by
  cases args <;> first | rfl | cases h

theorem callMacro_unless_isList {args ex : Val} {c c1 : Ctx}
    (h : callMacro .unless_ args c = (.ok ex, c1)) : args.isList = true := by
  cases args <;> first | rfl | cases h

theorem simple_when {c c1 : Ctx} {args ex : Val} (hif : NonMacroName c "if")
    (hpr : NonMacroName c "progn") (hargs : ∀ e ∈ args.elems, Simple c e)
    (h : callMacro .when_ args c = (.ok ex, c1)) : Simple c1 ex := by
  obtain ⟨v, c', hrun, he, hv⟩ := run_when args (callMacro_when_isList h) c
  rw [h] at hrun; cases hrun
  have hargs1 : ∀ e ∈ args.elems, Simple c1 e := fun e hm => (hargs e hm).congr he.headValue
  refine Simple.of_eraseIds hv ?_
  refine Simple.cons_sym 0 _ _ (hif.mono he).S fun e hm => ?_
  simp only [listTl, List.foldr, Val.elems, List.mem_cons, List.not_mem_nil, or_false] at hm
  rcases hm with rfl | rfl
  · exact Simple.carD hargs1
  · exact Simple.cons_sym 0 _ _ (hpr.mono he).S (Simple.elems_cdrD hargs1)

theorem simple_unless {c c1 : Ctx} {args ex : Val} (hif : NonMacroName c "if")
    (hargs : ∀ e ∈ args.elems, Simple c e)
    (h : callMacro .unless_ args c = (.ok ex, c1)) : Simple c1 ex := by
  obtain ⟨v, c', hrun, he, hv⟩ := run_unless args (callMacro_unless_isList h) c
  rw [h] at hrun; cases hrun
  have hargs1 : ∀ e ∈ args.elems, Simple c1 e := fun e hm => (hargs e hm).congr he.headValue
  refine Simple.of_eraseIds hv ?_
  refine Simple.cons_sym 0 _ _ (hif.mono he).S fun e hm => ?_
  simp only [listTl, List.foldr, Val.elems, List.mem_cons] at hm
  rcases hm with rfl | rfl | hm
  · exact Simple.carD hargs1
  · exact Simple.nil c1
  · exact Simple.elems_cdrD hargs1 e hm

theorem threadStepM_ok_ThreadOK {first : Bool} {x form s : Val} {c c1 : Ctx}
    (h : threadStepM first x form c = (.ok s, c1)) : ThreadOK first form := by
  cases first with
  | true => exact .inl rfl
  | false =>
    cases form with
    | cons i fh fargs =>
      refine .inr (.inr ?_)
      simp only [threadStepM, Bool.false_eq_true, if_false] at h
      rw [append_eq_pure _ _ rfl rfl, pure_bind] at h
      cases ht : (Val.cons i fh fargs).spine.2 with
      | nil => rfl
      | cons _ _ _ =>
        have := spine_snd_not_cons (Val.cons i fh fargs)
        rw [ht] at this; cases this
      | _ =>
        rw [ht] at h
        cases h
    | _ => exact .inr (.inl rfl)

theorem simple_threadStep {c : Ctx} (first : Bool) {x f : Val} (hx : Simple c x) (hf : Simple c f)
    (hn : f.isNil = false) : Simple c (threadStep first x f) := by
  cases hf with
  | @atom v ha ho =>
    have hts : threadStep first x f = .cons 0 f (.cons 0 x .nil) := by
      cases f <;> first | rfl | simp [Val.isCons] at ha
    rw [hts]
    cases hm : isMacroValue (headValue c f)
    · refine .list (by simpa [MacroHead] using hm) (fun h => by rw [ha] at h; cases h) fun e he => ?_
      simp only [Val.elems, List.mem_cons, List.not_mem_nil, or_false] at he
      rcases he with rfl | rfl
      · exact .atom ha ho
      · exact hx
    · obtain ⟨b, hb, hs⟩ := ho hm
      refine .call hb hs fun e he => ?_
      simp only [Val.elems, List.mem_cons, List.not_mem_nil, or_false] at he
      subst he; exact hx
  | @call i h args b hb hs hargs =>
    cases first with
    | true =>
      refine .call hb hs fun e he => ?_
      simp only [Val.elems, List.mem_cons] at he
      rcases he with rfl | he
      · exact hx
      · exact hargs e he
    | false =>
      have hts : threadStep false x (.cons i h args) = .cons 0 h (listTl (args.elems ++ [x]) .nil) := rfl
      rw [hts]
      refine .call hb hs fun e he => ?_
      rw [elems_listTl _ (rfl : Val.nil.isCons = false)] at he
      simp only [List.mem_append, List.mem_cons, List.not_mem_nil, or_false] at he
      rcases he with he | rfl
      · exact hargs e he
      · exact hx
  | @list i h args hm hh hel =>
    cases first with
    | true =>
      refine .list (by simpa [MacroHead] using hm) hh fun e he => ?_
      simp only [Val.elems, List.mem_cons] at he
      rcases he with rfl | rfl | he
      · exact hel _ (by simp [Val.elems])
      · exact hx
      · exact hel e (by simp [Val.elems, he])
    | false =>
      have hts : threadStep false x (.cons i h args) = .cons 0 h (listTl (args.elems ++ [x]) .nil) := rfl
      rw [hts]
      refine .list (by simpa [MacroHead] using hm) hh fun e he => ?_
      have : (Val.cons 0 h (listTl (args.elems ++ [x]) .nil)).elems = h :: (args.elems ++ [x]) := by
        simp only [Val.elems]
        rw [elems_listTl _ (rfl : Val.nil.isCons = false)]
      rw [this] at he
      simp only [List.mem_cons, List.mem_append, List.not_mem_nil, or_false] at he
      rcases he with rfl | he | rfl
      · exact hel _ (by simp [Val.elems])
      · exact hel e (by simp [Val.elems, he])
      · exact hx

theorem simple_threadForms (first : Bool) (forms : List Val) (x ex : Val) (c c1 : Ctx)
    (hx : Simple c x) (hf : ∀ f ∈ forms, Simple c f)
    (h : threadForms first x forms c = (.ok ex, c1)) : Simple c1 ex ∧ Ext c c1 := by
  induction forms generalizing x c with
  | nil => cases h; exact ⟨hx, Ext.refl _⟩
  | cons f fs ih =>
    cases hn : f.isNil
    · rw [threadForms_cons _ _ _ _ hn] at h
      obtain ⟨s, c', h1, h2⟩ := bind_eq_ok h
      obtain ⟨v, c'', hrun, he, hv⟩ := run_threadStepM first x f (threadStepM_ok_ThreadOK h1) c
      rw [h1] at hrun; cases hrun
      have hs : Simple c' s :=
        ((simple_threadStep first hx (hf f (by simp)) hn).of_eraseIds hv).congr he.headValue
      obtain ⟨r1, r2⟩ := ih s c' hs (fun g hg => (hf g (by simp [hg])).congr he.headValue) h2
      exact ⟨r1, he.trans r2⟩
    · rw [threadForms_cons_nil _ _ _ _ hn] at h
      cases h; exact ⟨hx, Ext.refl _⟩

theorem simple_thread {b : Bi} {first : Bool} (hb : threadKind b = some first) {c c1 : Ctx}
    {args ex : Val} (hargs : ∀ e ∈ args.elems, Simple c e)
    (h : callMacro b args c = (.ok ex, c1)) : Simple c1 ex := by
  have hl : args.isList = true := by
    cases args <;> first | rfl | (cases b <;> simp only [threadKind] at hb <;> cases hb <;> cases h)
  have key : callMacro b args =
      if (cdrD args).spine.2.isNil then threadForms first (carD args) (cdrD args).elems
      else M.throw .typeMismatch := by
    cases b <;> simp only [threadKind] at hb <;> cases hb <;>
      simp [callMacro, carV_list hl, cdrV_list hl]
  rw [key] at h
  split at h
  · exact (simple_threadForms first _ _ _ c c1 (Simple.carD hargs) (Simple.elems_cdrD hargs) h).1
  · cases h

theorem simple_quote {c c1 : Ctx} {args ex : Val} (h : callMacro .quote_ args c = (.ok ex, c1)) :
    Simple c1 ex := by
  simp only [callMacro] at h
  split at h
  · cases h; exact .atom rfl (fun hm => by cases hm)
  · cases h

/-- the class: `if` and `progn` do not name macros, and the form is `Simple` -/
def SimpleForm (c : Ctx) (v : Val) : Prop :=
  NonMacroName c "if" ∧ NonMacroName c "progn" ∧ Simple c v

theorem simple_closed : ClosedClass Ext SimpleForm where
  refl := Ext.refl
  trans := Ext.trans
  heads := fun h => h.headValue
  ids := fun h => h.ext
  stable := fun h ⟨h1, h2, h3⟩ => ⟨h1.mono h, h2.mono h, h3.congr h.headValue⟩
  elems := by
    intro c i h args ⟨h1, h2, h3⟩ hm
    cases h3 with
    | atom ha => cases ha
    | call hb hs _ =>
      simp only [MacroHead, hb, isMacroValue, simpleMacro_isMacro hs] at hm
      cases hm
    | list _ hh hel => exact ⟨fun e he => ⟨h1, h2, hel e he⟩, hh⟩
  apply := by
    intro c i h args ⟨h1, h2, h3⟩ hm d ex c1 hrun
    cases h3 with
    | atom ha => cases ha
    | list hm' _ _ => rw [hm] at hm'; cases hm'
    | @call _ _ _ b hb hs hargs =>
      rw [hb] at hrun
      simp only [applyMacro] at hrun
      have he : Ext c c1 := by
        have := grows_callMacro b args c
        rw [hrun] at this; exact this
      refine ⟨he, h1.mono he, h2.mono he, ?_⟩
      cases b <;> simp only [simpleMacro, Bool.false_eq_true] at hs
      · exact simple_when h1 h2 hargs hrun
      · exact simple_unless h1 hargs hrun
      · exact simple_thread (first := true) rfl hargs hrun
      · exact simple_thread (first := true) rfl hargs hrun
      · exact simple_thread (first := false) rfl hargs hrun
      · exact simple_thread (first := false) rfl hargs hrun
      · exact simple_quote hrun

end Tulisp.C06
