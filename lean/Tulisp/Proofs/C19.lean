/-
  Proofs/C19.lean — helper lemmas for property C19 (context isolation, load = eval of contents).

  Part 1: the reader never inspects the file id: `readText` is equivariant under any renaming
          `g` of file ids (`Sx.mapFile`, `ReadResult.mapFile`).
  Part 2: `internSx` / `internList` ignore spans altogether; `maximalEvents` ignores the file id.
  Part 3: `loadText r f text` does not depend on `f`.
-/
import Tulisp.Model.Load
namespace Tulisp.C19
open Tulisp

/-! ## renaming file ids -/

def mapSpan (g : Nat → Nat) (sp : Span) : Span := { sp with file := g sp.file }

def mapToken (g : Nat → Nat) (t : Token) : Token := { t with sp := mapSpan g t.sp }

def mapTState (g : Nat → Nat) (s : TState) : TState :=
  { s with file := g s.file, out := s.out.map (mapToken g) }

mutual
/-- rename the file id in every span of a syntax tree -/
def mapSx (g : Nat → Nat) : Sx → Sx
  | .int sp n => .int (mapSpan g sp) n
  | .float sp t => .float (mapSpan g sp) t
  | .str sp s => .str (mapSpan g sp) s
  | .ident sp s => .ident (mapSpan g sp) s
  | .list sp items tail => .list (mapSpan g sp) (mapSxList g items) (mapSxOpt g tail)
  | .quote sp x => .quote (mapSpan g sp) (mapSx g x)
  | .backquote sp x => .backquote (mapSpan g sp) (mapSx g x)
  | .unquote sp x => .unquote (mapSpan g sp) (mapSx g x)
  | .splice sp x => .splice (mapSpan g sp) (mapSx g x)
def mapSxList (g : Nat → Nat) : List Sx → List Sx
  | [] => []
  | x :: xs => mapSx g x :: mapSxList g xs
def mapSxOpt (g : Nat → Nat) : Option Sx → Option Sx
  | none => none
  | some x => some (mapSx g x)
end

theorem mapSxList_eq_map (g : Nat → Nat) (xs : List Sx) : mapSxList g xs = xs.map (mapSx g) := by
  induction xs with
  | nil => rfl
  | cons x xs ih => simp [mapSxList, ih]

theorem mapSxOpt_eq_map (g : Nat → Nat) (o : Option Sx) : mapSxOpt g o = o.map (mapSx g) := by
  cases o <;> rfl

def mapErr (g : Nat → Nat) : ParseErr → ParseErr
  | .unclosedList sp => .unclosedList (mapSpan g sp)
  | .unexpectedClose sp => .unexpectedClose (mapSpan g sp)
  | .unexpectedEof sp => .unexpectedEof (mapSpan g sp)
  | .unexpectedDot sp => .unexpectedDot (mapSpan g sp)
  | .afterDot => .afterDot
  | .token msg sp => .token msg (mapSpan g sp)

def mapPRes {α} (g : Nat → Nat) (f : α → α) : PRes α → PRes α
  | .ok a => .ok (f a)
  | .eof => .eof
  | .err e => .err (mapErr g e)
  | .panic s => .panic s
  | .fuel => .fuel

def mapPState (g : Nat → Nat) (st : PState) : PState :=
  { toks := st.toks.map (mapToken g), events := st.events.map (mapSx g) }

def mapRead (g : Nat → Nat) (rr : ReadResult) : ReadResult :=
  { res := mapPRes g (List.map (mapSx g)) rr.res, events := rr.events.map (mapSx g) }

/-! ## the tokenizer is equivariant -/

@[simp] theorem mapTState_mode (g) (s : TState) : (mapTState g s).mode = s.mode := rfl
@[simp] theorem mapTState_line (g) (s : TState) : (mapTState g s).line = s.line := rfl
@[simp] theorem mapTState_col (g) (s : TState) : (mapTState g s).col = s.col := rfl
@[simp] theorem mapTState_here (g) (s : TState) : (mapTState g s).here = s.here := rfl

theorem adv_map (g) (s : TState) (c : Char) : (mapTState g s).adv c = mapTState g (s.adv c) := by
  unfold TState.adv; split <;> rfl

theorem emit_map (g) (s : TState) (t : Tok) (a b : Pos) :
    (mapTState g s).emit t a b = mapTState g (s.emit t a b) := rfl

theorem setMode_map (g) (s : TState) (m : Mode) :
    { mapTState g s with mode := m } = mapTState g { s with mode := m } := rfl

theorem stepNormal_map (g) (s : TState) (c : Char) :
    stepNormal (mapTState g s) c = mapTState g (stepNormal s c) := by
  unfold stepNormal
  simp only [adv_map, mapTState_here, mapTState_line, mapTState_col, emit_map,
    apply_ite (mapTState g)]
  rfl

theorem tstep_map (g) (s : TState) (c : Char) :
    tstep (mapTState g s) c = mapTState g (tstep s c) := by
  unfold tstep
  simp only [mapTState_mode]
  split
  · exact stepNormal_map g s c
  · simp only [adv_map, apply_ite (mapTState g)]; rfl
  · simp only [adv_map, mapTState_line, mapTState_col, apply_ite (mapTState g)]
    split
    · rfl
    · exact stepNormal_map g
        ({ s with mode := .normal }.emit (.err "Unknown token #.  Did you mean #' ?")
          ⟨s.line, s.col - 1⟩ ⟨s.line, s.col⟩) c
  · simp only [adv_map, mapTState_line, mapTState_col, apply_ite (mapTState g)]
    split
    · rfl
    · exact stepNormal_map g
        ({ s with mode := .normal }.emit .comma ⟨s.line, s.col - 1⟩ ⟨s.line, s.col⟩) c
  · simp only [adv_map, mapTState_line, mapTState_col, apply_ite (mapTState g)]
    rfl
  · simp only [adv_map, mapTState_line, mapTState_col, apply_ite (mapTState g)]
    rfl
  · rename_i start acc isInt isFloat _
    simp only [adv_map, mapTState_here, apply_ite (mapTState g)]
    split
    · exact stepNormal_map g
        ({ s with mode := .normal }.emit (classify acc.reverse isInt isFloat) start s.here) c
    · rfl

theorem foldl_tstep_map (g) (cs : List Char) (s : TState) :
    cs.foldl tstep (mapTState g s) = mapTState g (cs.foldl tstep s) := by
  induction cs generalizing s with
  | nil => rfl
  | cons c cs ih => simp only [List.foldl_cons, tstep_map, ih]

theorem tfinish_map (g) (s : TState) :
    tfinish (mapTState g s) = (tfinish s).map (mapToken g) := by
  unfold tfinish
  simp only [mapTState_mode]
  split <;> simp [mapTState, TState.emit, TState.here, mapToken, mapSpan]

theorem tokenize_map (g : Nat → Nat) (f : Nat) (cs : List Char) :
    tokenize (g f) cs = (tokenize f cs).map (mapToken g) := by
  unfold tokenize tokenizeFrom
  have : ({ file := g f } : TState) = mapTState g { file := f } := rfl
  rw [this, foldl_tstep_map, tfinish_map]


/-! ## the parser is equivariant -/

@[simp] theorem mapToken_tok (g) (t : Token) : (mapToken g t).tok = t.tok := rfl
@[simp] theorem mapToken_sp (g) (t : Token) : (mapToken g t).sp = mapSpan g t.sp := rfl

theorem isDefHead_map (g) (items : List Sx) : isDefHead (items.map (mapSx g)) = isDefHead items := by
  cases items with
  | nil => rfl
  | cons x xs => cases x <;> simp [isDefHead, mapSx]

/-- the result of a parser step, renamed -/
def mapStep (g : Nat → Nat) (p : PRes Sx × PState) : PRes Sx × PState :=
  (mapPRes g (mapSx g) p.1, mapPState g p.2)

theorem mapPState_toks (g) (st : PState) : (mapPState g st).toks = st.toks.map (mapToken g) := rfl

theorem mapPState_setToks (g) (st : PState) (rest : List Token) :
    { mapPState g st with toks := rest.map (mapToken g) } = mapPState g { st with toks := rest } := rfl

theorem mapPState_addEvent (g) (st : PState) (l : Sx) :
    { mapPState g st with events := mapSx g l :: (mapPState g st).events } =
      mapPState g { st with events := l :: st.events } := rfl

/-- statement of equivariance for the three mutually recursive parser functions at fuel `n` -/
def ParserEquivariant (g : Nat → Nat) (n : Nat) : Prop :=
  (∀ st, parseValue n (mapPState g st) = mapStep g (parseValue n st)) ∧
  (∀ sp mk mk' st, (∀ x, mk' (mapSx g x) = mapSx g (mk x)) →
      wrap n (mapSpan g sp) mk' (mapPState g st) = mapStep g (wrap n sp mk st)) ∧
  (∀ start acc st, parseListItems n (mapSpan g start) (acc.map (mapSx g)) (mapPState g st) =
      mapStep g (parseListItems n start acc st))

theorem parser_equivariant_zero (g) : ParserEquivariant g 0 := by
  refine ⟨?_, ?_, ?_⟩
  · intro st; simp [parseValue, mapStep, mapPRes]
  · intro sp mk mk' st _; simp [wrap, mapStep, mapPRes]
  · intro start acc st; simp [parseListItems, mapStep, mapPRes]

theorem parseValue_succ_map (g) (n : Nat) (ih : ParserEquivariant g n) (st : PState) :
    parseValue (n + 1) (mapPState g st) = mapStep g (parseValue (n + 1) st) := by
  obtain ⟨_, ihW, ihL⟩ := ih
  rw [parseValue, parseValue]
  rcases st with ⟨toks, events⟩
  cases toks with
  | nil => simp [mapPState, mapStep, mapPRes]
  | cons tk rest =>
    simp only [mapPState_toks, List.map_cons, mapToken_tok, mapToken_sp]
    have hst : ({ mapPState g ⟨tk :: rest, events⟩ with toks := rest.map (mapToken g) } : PState) =
        mapPState g ⟨rest, events⟩ := rfl
    rw [hst]
    cases tk.tok with
    | «open» => simpa using ihL tk.sp [] ⟨rest, events⟩
    | close => simp [mapStep, mapPRes, mapErr]
    | dot => simp [mapStep, mapPRes, mapErr]
    | err msg => simp [mapStep, mapPRes, mapErr]
    | str s => simp [mapStep, mapPRes, mapSx]
    | int k => simp [mapStep, mapPRes, mapSx]
    | float x => simp [mapStep, mapPRes, mapSx]
    | ident s => simp [mapStep, mapPRes, mapSx]
    | quote => exact ihW tk.sp _ _ ⟨rest, events⟩ (fun x => by simp [mapSx])
    | sharpquote => exact ihW tk.sp _ _ ⟨rest, events⟩ (fun x => by simp [mapSx])
    | backtick => exact ihW tk.sp _ _ ⟨rest, events⟩ (fun x => by simp [mapSx])
    | comma => exact ihW tk.sp _ _ ⟨rest, events⟩ (fun x => by simp [mapSx])
    | splice => exact ihW tk.sp _ _ ⟨rest, events⟩ (fun x => by simp [mapSx])

theorem wrap_succ_map (g) (n : Nat) (ih : ParserEquivariant g n) (sp : Span) (mk mk' : Sx → Sx)
    (st : PState) (hmk : ∀ x, mk' (mapSx g x) = mapSx g (mk x)) :
    wrap (n + 1) (mapSpan g sp) mk' (mapPState g st) = mapStep g (wrap (n + 1) sp mk st) := by
  obtain ⟨ihV, _, _⟩ := ih
  rw [wrap, wrap, ihV st]
  rcases parseValue n st with ⟨res, st'⟩
  cases res <;> simp [mapStep, mapPRes, mapErr, hmk]


theorem mapSx_list (g) (sp : Span) (items : List Sx) (tail : Option Sx) :
    mapSx g (.list sp items tail) = .list (mapSpan g sp) (items.map (mapSx g)) (tail.map (mapSx g)) := by
  rw [mapSx, mapSxList_eq_map, mapSxOpt_eq_map]

theorem parseListItems_succ_map (g) (n : Nat) (ih : ParserEquivariant g n) (start : Span)
    (acc : List Sx) (st : PState) :
    parseListItems (n + 1) (mapSpan g start) (acc.map (mapSx g)) (mapPState g st) =
      mapStep g (parseListItems (n + 1) start acc st) := by
  obtain ⟨ihV, _, ihL⟩ := ih
  rw [parseListItems, parseListItems]
  rcases st with ⟨toks, events⟩
  cases toks with
  | nil => simp [mapPState, mapStep, mapPRes, mapErr]
  | cons tk rest =>
    simp only [mapPState_toks, List.map_cons, mapToken_tok, mapToken_sp]
    have hst : ({ mapPState g ⟨tk :: rest, events⟩ with toks := rest.map (mapToken g) } : PState) =
        mapPState g ⟨rest, events⟩ := rfl
    cases htok : tk.tok with
    | close =>
      simp only [← List.map_reverse, isDefHead_map, hst]
      split <;> simp [mapStep, mapPRes, mapSx_list, mapSpan, mapPState]
    | dot =>
      simp only [hst, ihV]
      rcases parseValue n ⟨rest, events⟩ with ⟨res, st2⟩
      cases res with
      | ok next =>
        rcases st2 with ⟨toks2, ev2⟩
        cases toks2 with
        | nil => simp [mapStep, mapPRes, mapPState, mapErr]
        | cons tk2 rest2 =>
          simp only [mapStep, mapPRes, mapPState, List.map_cons, mapToken_tok, mapToken_sp,
            ← List.map_reverse, isDefHead_map]
          split
          · split <;> simp [mapSx_list, mapSpan]
          · simp [mapErr]
      | _ => simp [mapStep, mapPRes, mapErr, mapSpan]
    | _ =>
      simp only [ihV]
      rcases parseValue n ⟨tk :: rest, events⟩ with ⟨res, st'⟩
      cases res with
      | ok x => simpa [mapStep, mapPRes] using ihL start (x :: acc) st'
      | _ => simp [mapStep, mapPRes]


theorem parser_equivariant (g : Nat → Nat) : ∀ n, ParserEquivariant g n
  | 0 => parser_equivariant_zero g
  | n + 1 =>
    have ih := parser_equivariant g n
    ⟨parseValue_succ_map g n ih,
     fun sp mk mk' st h => wrap_succ_map g n ih sp mk mk' st h,
     parseListItems_succ_map g n ih⟩

theorem parseAll_map (g : Nat → Nat) (n : Nat) (acc : List Sx) (st : PState) :
    parseAll n (acc.map (mapSx g)) (mapPState g st) =
      (mapPRes g (List.map (mapSx g)) (parseAll n acc st).1, mapPState g (parseAll n acc st).2) := by
  induction n generalizing acc st with
  | zero => simp [parseAll, mapPRes]
  | succ n ih =>
    rw [parseAll, parseAll, (parser_equivariant g n).1 st]
    rcases parseValue n st with ⟨res, st'⟩
    cases res with
    | ok x => simpa [mapStep, mapPRes] using ih (x :: acc) st'
    | _ => simp [mapStep, mapPRes]

theorem parseTokens_map (g : Nat → Nat) (toks : List Token) :
    parseTokens (toks.map (mapToken g)) = mapRead g (parseTokens toks) := by
  unfold parseTokens
  have h := parseAll_map g (2 * toks.length + 2) [] { toks := toks }
  simp only [List.map_nil] at h
  have hst : ({ toks := toks.map (mapToken g) } : PState) = mapPState g { toks := toks } := rfl
  simp only [List.length_map, hst, h]
  simp [mapRead, mapPState]

/-- **The reader never inspects the file id**: reading the same characters under a renamed file id
    yields the same result with every span's `file` field renamed (and nothing else changed). -/
theorem readText_map (g : Nat → Nat) (f : Nat) (cs : List Char) :
    readText (g f) cs = mapRead g (readText f cs) := by
  unfold readText
  rw [tokenize_map, parseTokens_map]

/-! ## interning ignores spans -/

mutual
theorem internSx_map (r : Rec) (g : Nat → Nat) : ∀ (s : Sx) (tab : StrTab),
    internSx r (mapSx g s) tab = internSx r s tab
  | .int _ _, _ => by simp [mapSx, internSx]
  | .float _ _, _ => by simp [mapSx, internSx]
  | .str _ _, _ => by simp [mapSx, internSx]
  | .ident _ _, _ => by simp [mapSx, internSx]
  | .quote _ x, tab => by simp only [mapSx, internSx, internSx_map r g x]
  | .backquote _ x, tab => by simp only [mapSx, internSx, internSx_map r g x]
  | .unquote _ x, tab => by simp only [mapSx, internSx, internSx_map r g x]
  | .splice _ x, tab => by simp only [mapSx, internSx, internSx_map r g x]
  | .list _ items tail, tab => by
    rw [mapSx, internSx, internSx, internList_map r g items]
    cases tail with
    | none => rfl
    | some x =>
      simp only [mapSxOpt]
      congr 1; funext p
      rw [internSx_map r g x]
theorem internList_map (r : Rec) (g : Nat → Nat) : ∀ (xs : List Sx) (tab : StrTab),
    internList r (mapSxList g xs) tab = internList r xs tab
  | [], _ => by simp [mapSxList, internList]
  | x :: xs, tab => by
    simp only [mapSxList, internList, internSx_map r g x]
    congr 1; funext p
    rw [internList_map r g xs]
end

theorem internList_map' (r : Rec) (g : Nat → Nat) (xs : List Sx) (tab : StrTab) :
    internList r (xs.map (mapSx g)) tab = internList r xs tab := by
  rw [← mapSxList_eq_map, internList_map]

/-! ## `maximalEvents` compares positions only -/

theorem span_mapSx (g) (x : Sx) : (mapSx g x).span = mapSpan g x.span := by
  cases x <;> simp [mapSx, Sx.span]

theorem spanWithin_map (g) (a b : Span) : spanWithin (mapSpan g a) (mapSpan g b) = spanWithin a b := rfl

theorem maximalEvents_map (g) (es : List Sx) :
    maximalEvents (es.map (mapSx g)) = (maximalEvents es).map (mapSx g) := by
  induction es with
  | nil => rfl
  | cons e rest ih =>
    simp only [List.map_cons, maximalEvents, List.any_map, Function.comp_def, span_mapSx,
      spanWithin_map, ih]
    split <;> simp

/-! ## `loadText` does not depend on the file id -/

theorem loadText_map (r : Rec) (g : Nat → Nat) (f : Nat) (text : String) :
    loadText r (g f) text = loadText r f text := by
  unfold loadText
  simp only [readText_map]
  rcases readText f text.toList with ⟨res, events⟩
  cases res <;> simp [mapRead, mapPRes, internList_map', maximalEvents_map]

/-- the file id handed to `loadText` is irrelevant -/
theorem loadText_any_file (r : Rec) (f1 f2 : Nat) (text : String) :
    loadText r f1 text = loadText r f2 text := by
  have h := loadText_map r (fun _ => f1) f2 text
  simpa using h

end Tulisp.C19
