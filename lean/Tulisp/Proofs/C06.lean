/-
  Proofs/C06.lean — helper definitions and lemmas for property C06 (macro expansion).

  * `eraseIds` : forms up to cell identity;  `listTl` / `L` : specification-level lists (ids 0)
  * `Ext c c'` : the context only grew (fresh ids, newly interned / created unbound symbols);
    `Run m c Q` : `m` succeeds from `c`, the context only grows, and `Q` holds of the result
  * specifications of the primitive steps of `callMacro`
  * `mexpList` / `expandSpine` : the second half of `macroexpand` as a left-to-right traversal
-/
import Tulisp.Proofs.C12
import Tulisp.Model.Load
namespace Tulisp.C06
open Tulisp Tulisp.C12
set_option linter.unusedSimpArgs false

/-! ## forms up to cell identity -/

/-- every cons-cell identity set to 0 (through list structure, quote wrappers and the bodies of
    function / macro objects); all other identities (strings, function objects, tables) kept -/
def eraseIds : Val → Val
  | .cons _ a d => .cons 0 (eraseIds a) (eraseIds d)
  | .quote v => .quote (eraseIds v)
  | .backquote v => .backquote (eraseIds v)
  | .unquote v => .unquote (eraseIds v)
  | .splice v => .splice (eraseIds v)
  | .lambda i ps b => .lambda i ps (eraseIds b)
  | .defmacro i ps b => .defmacro i ps (eraseIds b)
  | v => v

/-- `xs` followed by the tail `tl`, all cell ids 0: `(x1 … xn . tl)` -/
def listTl (xs : List Val) (tl : Val) : Val := xs.foldr (Val.cons 0) tl

/-- the proper list `(x1 … xn)`, all cell ids 0 -/
abbrev L (xs : List Val) : Val := listTl xs .nil

@[simp] theorem listTl_nil (tl : Val) : listTl [] tl = tl := rfl
@[simp] theorem listTl_cons (x : Val) (xs : List Val) (tl : Val) :
    listTl (x :: xs) tl = .cons 0 x (listTl xs tl) := rfl

@[simp] theorem eraseIds_cons (i : Nat) (a d : Val) :
    eraseIds (.cons i a d) = .cons 0 (eraseIds a) (eraseIds d) := rfl
@[simp] theorem eraseIds_nil : eraseIds .nil = .nil := rfl
@[simp] theorem eraseIds_t : eraseIds .t = .t := rfl
@[simp] theorem eraseIds_sym (n : Nat) : eraseIds (.sym n) = .sym n := rfl
@[simp] theorem eraseIds_int (n : Int) : eraseIds (.int n) = .int n := rfl
@[simp] theorem eraseIds_quote (v : Val) : eraseIds (.quote v) = .quote (eraseIds v) := rfl
@[simp] theorem eraseIds_builtin (b : Bi) : eraseIds (.builtin b) = .builtin b := rfl

theorem eraseIds_idem (v : Val) : eraseIds (eraseIds v) = eraseIds v := by
  induction v <;> simp_all [eraseIds]

theorem eraseIds_listTl (xs : List Val) (tl : Val) :
    eraseIds (listTl xs tl) = listTl (xs.map eraseIds) (eraseIds tl) := by
  induction xs <;> simp_all

theorem eraseIds_mkList (n : Nat) (xs : List Val) (tl : Val) :
    eraseIds (Val.mkList n xs tl).1 = listTl (xs.map eraseIds) (eraseIds tl) := by
  induction xs generalizing n with
  | nil => rfl
  | cons x xs ih => simp [Val.mkList, ih]

theorem eraseIds_isCons (v : Val) : (eraseIds v).isCons = v.isCons := by
  cases v <;> rfl

theorem eraseIds_isNil (v : Val) : (eraseIds v).isNil = v.isNil := by
  cases v <;> rfl

/-- a value is the list of its elements followed by its tail -/
theorem eraseIds_eq_listTl_spine (v : Val) :
    eraseIds v = listTl (v.elems.map eraseIds) (eraseIds v.spine.2) := by
  induction v with
  | cons i a d _ ihd => simp [Val.elems, Val.spine, ← ihd]
  | _ => rfl

theorem elems_listTl (xs : List Val) {tl : Val} (h : tl.isCons = false) :
    (listTl xs tl).elems = xs := by
  induction xs with
  | nil => exact elems_of_not_cons h
  | cons x xs ih => simp [Val.elems, ih]

theorem spine_listTl (xs : List Val) {tl : Val} (h : tl.isCons = false) :
    (listTl xs tl).spine = (xs, tl) := by
  induction xs with
  | nil => exact spine_of_not_cons h
  | cons x xs ih => simp [Val.spine, ih]

/-! ## the context only grows -/

/-- `c'` is `c` plus fresh cell ids, newly interned names and new *unbound* symbols:
    every existing symbol entry (name, flags, value stack) is untouched. -/
structure Ext (c c' : Ctx) : Prop where
  size_le : c.syms.size ≤ c'.syms.size
  old : ∀ n, n < c.syms.size → c'.syms[n]? = c.syms[n]?
  fresh : ∀ n, c.syms.size ≤ n → (c'.symD n).items = []
  ob : ∀ (k : String) (n : Nat), c.obarray[k]? = some n → c'.obarray[k]? = some n
  obNew : ∀ (k : String) (n : Nat), c'.obarray[k]? = some n →
    c.obarray[k]? = some n ∨ (c.syms.size ≤ n ∧ n < c'.syms.size)
  nextId_le : c.nextId ≤ c'.nextId
  rest : c'.tables = c.tables ∧ c'.ticks = c.ticks ∧ c'.tickCount = c.tickCount ∧
    c'.failAt = c.failAt ∧ c'.files = c.files ∧ c'.nfiles = c.nfiles

theorem symD_eq_of_getElem? {c c' : Ctx} {n : Nat} (h : c'.syms[n]? = c.syms[n]?) :
    c'.symD n = c.symD n := by
  simp [Ctx.symD, Array.getD_eq_getD_getElem?, h]

theorem symD_of_size_le {c : Ctx} {n : Nat} (h : c.syms.size ≤ n) : c.symD n = { name := "?" } := by
  simp [Ctx.symD, Array.getD_eq_getD_getElem?, Array.getElem?_eq_none h]

theorem Ext.refl (c : Ctx) : Ext c c :=
  ⟨Nat.le_refl _, fun _ _ => rfl, fun n h => by rw [symD_of_size_le h], fun _ _ h => h,
    fun _ _ h => .inl h, Nat.le_refl _, rfl, rfl, rfl, rfl, rfl, rfl⟩

theorem Ext.symD_old {c c' : Ctx} (h : Ext c c') {n : Nat} (hn : n < c.syms.size) :
    c'.symD n = c.symD n := symD_eq_of_getElem? (h.old n hn)

theorem Ext.trans {c c' c'' : Ctx} (h : Ext c c') (h' : Ext c' c'') : Ext c c'' where
  size_le := Nat.le_trans h.size_le h'.size_le
  old n hn := by rw [h'.old n (Nat.lt_of_lt_of_le hn h.size_le), h.old n hn]
  fresh n hn := by
    by_cases h2 : n < c'.syms.size
    · rw [h'.symD_old h2]; exact h.fresh n hn
    · exact h'.fresh n (Nat.le_of_not_lt h2)
  ob k n hk := h'.ob k n (h.ob k n hk)
  obNew k n hk := by
    have s1 := h.size_le
    have s2 := h'.size_le
    rcases h'.obNew k n hk with h1 | ⟨h1, h2⟩
    · rcases h.obNew k n h1 with h3 | ⟨h3, h4⟩
      · exact .inl h3
      · exact .inr ⟨h3, by omega⟩
    · exact .inr ⟨by omega, h2⟩
  nextId_le := Nat.le_trans h.nextId_le h'.nextId_le
  rest := by
    obtain ⟨a1, a2, a3, a4, a5, a6⟩ := h.rest
    obtain ⟨b1, b2, b3, b4, b5, b6⟩ := h'.rest
    exact ⟨b1.trans a1, b2.trans a2, b3.trans a3, b4.trans a4, b5.trans a5, b6.trans a6⟩

/-- the value stack of every symbol index is the same before and after -/
theorem Ext.items {c c' : Ctx} (h : Ext c c') (n : Nat) : (c'.symD n).items = (c.symD n).items := by
  by_cases hn : n < c.syms.size
  · rw [h.symD_old hn]
  · have hn := Nat.le_of_not_lt hn
    rw [h.fresh n hn, symD_of_size_le hn]

theorem Ext.get {c c' : Ctx} (h : Ext c c') (n : Nat) : (c'.symD n).get = (c.symD n).get := by
  simp [SymSt.get, h.items n]

theorem Ext.nextId (c : Ctx) {k : Nat} (hk : c.nextId ≤ k) : Ext c { c with nextId := k } :=
  { Ext.refl c with nextId_le := hk }

theorem Ext.newSym (c : Ctx) (s : SymSt) (hs : s.items = []) : Ext c (c.newSym s).2 where
  size_le := by simp [Ctx.newSym]
  old n hn := by simp [Ctx.newSym, Array.getElem?_push, Nat.ne_of_lt hn]
  fresh n hn := by
    simp only [Ctx.newSym, Ctx.symD, Array.getD_eq_getD_getElem?, Array.getElem?_push]
    split
    · simpa using hs
    · simp [Array.getElem?_eq_none hn]
  ob _ _ hk := hk
  obNew _ _ hk := .inl hk
  nextId_le := Nat.le_refl _
  rest := ⟨rfl, rfl, rfl, rfl, rfl, rfl⟩

theorem Ext.intern (c : Ctx) (name : String) : Ext c (c.intern name).2 := by
  unfold Ctx.intern
  split
  · exact Ext.refl c
  · rename_i hnone
    refine ⟨by simp, ?_, ?_, ?_, ?_, Nat.le_refl _, rfl, rfl, rfl, rfl, rfl, rfl⟩
    rotate_left 3
    · intro k n hk
      simp only [Std.HashMap.getElem?_insert] at hk
      split at hk
      · cases hk; exact .inr ⟨Nat.le_refl _, by simp⟩
      · exact .inl hk
    · intro n hn; simp [Array.getElem?_push, Nat.ne_of_lt hn]
    · intro n hn
      simp only [Ctx.symD, Array.getD_eq_getD_getElem?, Array.getElem?_push]
      split
      · rfl
      · simp [Array.getElem?_eq_none hn]
    · intro k n hk
      simp only [Std.HashMap.getElem?_insert]
      split
      · rename_i heq
        have : name = k := by simpa using heq
        subst this
        rw [hnone] at hk; cases hk
      · exact hk

/-- `name` is interned as symbol `n` -/
def Interned (c : Ctx) (name : String) (n : Nat) : Prop := c.obarray[name]? = some n

theorem Interned.mono {c c' : Ctx} {name : String} {n : Nat} (h : Interned c name n)
    (he : Ext c c') : Interned c' name n := he.ob _ _ h

theorem interned_intern (c : Ctx) (name : String) :
    Interned (c.intern name).2 name (c.intern name).1 := by
  unfold Ctx.intern Interned
  split
  · assumption
  · simp

/-- the symbol `name` denotes in `c` (the index `intern` returns) -/
def S (c : Ctx) (name : String) : Nat := (c.intern name).1

theorem Interned.S_eq {c : Ctx} {name : String} {n : Nat} (h : Interned c name n) : S c name = n := by
  unfold Interned at h
  simp [S, Ctx.intern, h]

/-! ## `Run`: success with a context that only grows -/

/-- `m` started in `c` succeeds with some result `a` in a context `c'` that extends `c`, and
    `Q a c'` holds -/
def Run {α} (m : M α) (c : Ctx) (Q : α → Ctx → Prop) : Prop :=
  ∃ a c', m c = (.ok a, c') ∧ Ext c c' ∧ Q a c'

theorem Run.pure {α} {a : α} {c : Ctx} {Q : α → Ctx → Prop} (h : Q a c) : Run (pure a) c Q :=
  ⟨a, c, rfl, Ext.refl c, h⟩

theorem Run.bind {α β} {m : M α} {f : α → M β} {c : Ctx} {Q : β → Ctx → Prop}
    (h : Run m c (fun a c1 => Run (f a) c1 (fun b c2 => Ext c c2 → Q b c2))) : Run (m >>= f) c Q := by
  obtain ⟨a, c1, hm, he1, b, c2, hf, he2, hq⟩ := h
  exact ⟨b, c2, by rw [bind_ok f hm, hf], he1.trans he2, hq (he1.trans he2)⟩

theorem Run.mono {α} {m : M α} {c : Ctx} {Q Q' : α → Ctx → Prop} (h : Run m c Q)
    (hq : ∀ a c', Ext c c' → Q a c' → Q' a c') : Run m c Q' := by
  obtain ⟨a, c', hm, he, q⟩ := h
  exact ⟨a, c', hm, he, hq a c' he q⟩

/-- sequencing rule: use a specification of `m`, continue with `f` -/
theorem Run.seq {α β} {m : M α} {f : α → M β} {c : Ctx} {P : α → Ctx → Prop} {Q : β → Ctx → Prop}
    (hm : Run m c P)
    (hf : ∀ a c1, Ext c c1 → P a c1 → Run (f a) c1 (fun b c2 => Ext c c2 → Q b c2)) :
    Run (m >>= f) c Q :=
  Run.bind (hm.mono hf)

theorem Run.liftE_ok {α} {a : α} {c : Ctx} {Q : α → Ctx → Prop} (h : Q a c) :
    Run (liftE (.ok a)) c Q := ⟨a, c, rfl, Ext.refl c, h⟩

/-! ### the primitive steps -/

theorem run_symVal (name : String) (c : Ctx) :
    Run (symVal name) c (fun v c' => ∃ n, v = .sym n ∧ Interned c' name n) :=
  ⟨_, _, rfl, Ext.intern c name, _, rfl, interned_intern c name⟩

theorem run_mkCons (a d : Val) (c : Ctx) :
    Run (mkCons a d) c (fun v _ => ∃ i, v = .cons i a d) :=
  ⟨_, _, rfl, Ext.nextId c (Nat.le_succ _), _, rfl⟩

theorem run_mkListM (xs : List Val) (tl : Val) (c : Ctx) :
    Run (mkListM xs tl) c (fun v _ => v = (Val.mkList c.nextId xs tl).1) :=
  ⟨_, _, mkListM_run xs tl c, Ext.nextId c (Nat.le_add_right _ _), rfl⟩

theorem run_mkListM' (xs : List Val) (tl : Val) (c : Ctx) :
    Run (mkListM xs tl) c (fun v _ => eraseIds v = listTl (xs.map eraseIds) (eraseIds tl) ∧
      v.spine = (xs ++ tl.spine.1, tl.spine.2)) :=
  (run_mkListM xs tl c).mono fun _ _ _ h => by subst h; exact ⟨eraseIds_mkList _ _ _, mkList_spine _ _ _⟩

theorem run_deepCopy (v : Val) (c : Ctx) :
    Run (deepCopy v) c (fun w _ => eraseIds w = eraseIds v ∧ w.spine = v.spine) := by
  cases v with
  | cons i a d =>
    refine (run_mkListM (Val.cons i a d).spine.1 (Val.cons i a d).spine.2 c :
      Run (deepCopy (Val.cons i a d)) c _).mono fun w _ _ h => ?_
    subst h
    refine ⟨?_, mkList_of_spine _ _⟩
    rw [eraseIds_mkList, spine_fst, ← eraseIds_eq_listTl_spine]
  | _ => exact Run.pure ⟨rfl, rfl⟩

/-! ## the second half of `macroexpand`: every element, left to right -/

/-- expand the elements of a list, left to right -/
def mexpList (r : Rec) : List Val → M (List Val)
  | [] => pure []
  | x :: xs => do
    let x' ← r.mexp x
    let xs' ← mexpList r xs
    pure (x' :: xs')

/-- rebuild a cons form from the expansions of its elements; the tail is kept verbatim -/
def expandSpine (r : Rec) (x : Val) : M Val := do
  let ys ← mexpList r x.elems
  mkListM ys x.spine.2

theorem mexpSpine_cons (r : Rec) (i : Nat) (a d : Val) (acc : Acc) :
    mexpSpine r (.cons i a d) acc = (do
      let a' ← r.mexp a
      let acc ← acc.push a'
      match d with
      | .nil => pure acc
      | .cons .. => mexpSpine r d acc
      | other => acc.append other) := by
  rw [mexpSpine]
  congr 1

theorem mexpSpine_atom (r : Rec) (v : Val) (acc : Acc) (h : v.isCons = false) :
    mexpSpine r v acc = pure acc := by
  cases v <;> first | rfl | simp [Val.isCons] at h

theorem push_eq_pure (acc : Acc) (x : Val) (h : acc.tail = .nil) :
    acc.push x = pure { rev := x :: acc.rev, tail := .nil } := by
  funext c; exact Acc.push_ok acc x c h

theorem mexpSpine_spec (r : Rec) (v : Val) (acc : Acc) (hv : v.isCons = true) (ha : acc.tail = .nil) :
    mexpSpine r v acc = (do
      let ys ← mexpList r v.elems
      pure { rev := ys.reverse ++ acc.rev, tail := v.spine.2 }) := by
  induction v generalizing acc with
  | cons i a d _ ihd =>
    rw [mexpSpine_cons]
    simp only [Val.elems, mexpList, bind_assoc, pure_bind]
    congr 1; funext a'
    rw [push_eq_pure _ _ ha, pure_bind]
    cases d with
    | nil => simp [Val.elems, mexpList, Val.spine]
    | cons j b e =>
      simp only []
      rw [ihd _ rfl rfl]
      simp [Val.spine]
    | _ =>
      simp only [Val.elems, mexpList, pure_bind]
      funext c
      rw [Acc.append_atom _ _ _ rfl rfl (by simp)]
      rfl
  | _ => simp [Val.isCons] at hv

theorem mexpSpine_build (r : Rec) (x : Val) (hx : x.isCons = true) :
    (mexpSpine r x {} >>= fun acc => acc.build) = expandSpine r x := by
  rw [mexpSpine_spec r x {} hx rfl]
  simp [expandSpine, Acc.build]

/-! ## the first half of `macroexpand`: the head -/

/-- what the head of a form denotes for `macroexpand`: the current value of a (non-keyword,
    bound) symbol, else the head itself -/
def headValue (c : Ctx) : Val → Val
  | .sym n =>
    let s := c.symD n
    if s.constant then .sym n else match s.get with | some v => v | none => .sym n
  | other => other

/-- macro values: built-in macros and `defmacro` objects -/
def isMacroValue : Val → Bool
  | .builtin b => b.isMacro
  | .defmacro .. => true
  | _ => false

/-- application of the macro `value` (if it is one) to the unevaluated `args`, the result being
    expanded again; a non-macro leaves the form `inp` alone -/
def expandHead (r : Rec) (inp args value : Val) : M Val :=
  match value with
  | .builtin b =>
    if b.isMacro then do
      let ex ← callMacro b args
      r.mexp ex
    else pure inp
  | .defmacro _ ps body => do
    let ex ← evalFunction r false ps body args
    r.mexp ex
  | _ => pure inp

theorem expandHead_not_macro (r : Rec) (inp args value : Val) (h : isMacroValue value = false) :
    expandHead r inp args value = pure inp := by
  cases value <;> simp_all [expandHead, isMacroValue]

/-- the rebuilding step applied to the head-expanded form `x` -/
def finishExpand (r : Rec) (x : Val) : M Val :=
  match x with
  | .cons .. => expandSpine r x
  | _ => pure x

theorem finishExpand_eq (r : Rec) (x : Val) :
    (match x with
      | .cons .. => (mexpSpine r x {} >>= fun acc => acc.build)
      | _ => pure x) = finishExpand r x := by
  cases x <;> first | rfl | exact mexpSpine_build r _ rfl

/-- the body of `mexpStep` after the head's value has been looked up (verbatim) -/
def mexpBody (r : Rec) (inp args value : Val) : M Val := do
  let x ← match value with
    | .builtin b =>
      if b.isMacro then do
        let ex ← callMacro b args
        r.mexp ex
      else pure inp
    | .defmacro _ ps body => do
      let ex ← evalFunction r false ps body args
      r.mexp ex
    | _ => pure inp
  match x with
  | .cons .. => do
    let acc ← mexpSpine r x {}
    acc.build
  | _ => pure x

theorem mexpStep_eq_body (r : Rec) (i : Nat) (head args : Val) (c : Ctx) :
    mexpStep r (.cons i head args) c = mexpBody r (.cons i head args) args (headValue c head) c := by
  cases head <;> rfl

theorem mexpBody_eq (r : Rec) (inp args value : Val) :
    mexpBody r inp args value = expandHead r inp args value >>= finishExpand r := by
  unfold mexpBody
  simp only [finishExpand_eq]
  cases value <;> simp only [expandHead, bind_assoc, pure_bind]
  split <;> simp only [bind_assoc, pure_bind]

/-- `macroexpand` of a cons form, decomposed -/
theorem mexpStep_cons (r : Rec) (i : Nat) (head args : Val) (c : Ctx) :
    mexpStep r (.cons i head args) c =
      (expandHead r (.cons i head args) args (headValue c head) >>= finishExpand r) c := by
  rw [mexpStep_eq_body, mexpBody_eq]

/-- a successful bind decomposes -/
theorem bind_eq_ok {α β} {m : M α} {f : α → M β} {c c' : Ctx} {b : β}
    (h : (m >>= f) c = (.ok b, c')) : ∃ a c1, m c = (.ok a, c1) ∧ f a c1 = (.ok b, c') := by
  change M.bind m f c = _ at h
  unfold M.bind at h
  rcases h1 : m c with ⟨res, c1⟩
  rw [h1] at h
  cases res with
  | ok a => exact ⟨a, c1, rfl, h⟩
  | _ => cases h

theorem mexpList_length {r : Rec} {xs ys : List Val} {c c' : Ctx}
    (h : mexpList r xs c = (.ok ys, c')) : ys.length = xs.length := by
  induction xs generalizing ys c with
  | nil => cases h; rfl
  | cons x xs ih =>
    rw [mexpList] at h
    obtain ⟨y, c1, _, h2⟩ := bind_eq_ok h
    obtain ⟨ys', c2, h3, h4⟩ := bind_eq_ok h2
    cases h4
    simp [ih h3]

/-! ## macro arguments are passed as forms -/

/-- `collectArgs … false` without the evaluator: the argument *forms*, one per parameter -/
def collectForms : (req opt : List Nat) → (rest : Option Nat) → Val → M (List Val)
  | _ :: req, opt, rest, .cons _ a d => do
    let vs ← collectForms req opt rest d
    return a :: vs
  | _ :: _, _, _, _ => M.throw .typeMismatch
  | [], _ :: opt, rest, .cons _ a d => do
    let vs ← collectForms [] opt rest d
    return a :: vs
  | [], _ :: opt, rest, other => do
    let vs ← collectForms [] opt rest other
    return .nil :: vs
  | [], [], some _, args => do
    let l ← mkListM args.elems
    return [l]
  | [], [], none, .cons .. => M.throw .typeMismatch
  | [], [], none, _ => pure []

theorem collectArgs_false (r : Rec) (req opt : List Nat) (rest : Option Nat) (args : Val) :
    collectArgs r false req opt rest args = collectForms req opt rest args := by
  fun_induction collectForms req opt rest args <;> simp_all [collectArgs, collectForms]

end Tulisp.C06
