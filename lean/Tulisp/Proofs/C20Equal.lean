/-
  Proofs/C20Equal.lean — `equal` on the heap model (helper lemmas for C20).
-/
import Tulisp.Proofs.C20Copy
namespace Tulisp.C20
open Tulisp Tulisp.Api

theorem beq_comm' {α : Type} [BEq α] [LawfulBEq α] (a b : α) : (a == b) = (b == a) := by
  rw [Bool.eq_iff_iff, beq_iff_eq, beq_iff_eq]; exact eq_comm

theorem fEqBits_comm (a b : UInt64) : Heap.fEqBits a b = Heap.fEqBits b a := by
  unfold Heap.fEqBits
  rw [beq_comm' a b]
  cases f64IsNaN a <;> cases f64IsNaN b <;> cases (b == a) <;> cases (a <<< 1 == 0) <;>
    cases (b <<< 1 == 0) <;> rfl

/-- `equal` is symmetric, for all references and every fuel -/
theorem equal_symm (h : Heap) : ∀ (fuel a b : Nat), h.equal fuel a b = h.equal fuel b a := by
  intro fuel
  induction fuel with
  | zero => intro a b; rfl
  | succ f ih =>
    intro a b
    rw [Heap.equal, Heap.equal]
    generalize h.get a = oa
    generalize h.get b = ob
    cases oa <;> cases ob <;> simp only [] <;>
      first
        | rfl
        | exact beq_comm' _ _
        | exact fEqBits_comm _ _
        | (congr 1 <;> exact ih _ _)

/-- comparing with an atom does not need more than one unit of fuel -/
theorem equal_atom_left {h : Heap} {a : Nat} (ha : NotCons (h.get a)) (f : Nat) (b : Nat) :
    h.equal (f + 1) a b = h.equal 1 a b := by
  rw [Heap.equal, Heap.equal]
  revert ha
  generalize h.get a = oa
  generalize h.get b = ob
  intro ha
  cases oa <;> cases ob <;> simp only [] <;> exact absurd rfl (ha _ _)

/-- an object that `equal`s itself: anything but a cons and a NaN -/
def SelfEqual (o : Obj) : Prop :=
  match o with
  | .float b => f64IsNaN b = false
  | .cons .. => False
  | _ => True

theorem equal_self_atom {h : Heap} {x : Nat} (hx : SelfEqual (h.get x)) : h.equal 1 x x = true := by
  rw [Heap.equal]
  revert hx
  generalize h.get x = o
  intro hx
  cases o <;> simp only [SelfEqual] at hx <;> simp [Heap.fEqBits, hx]

theorem Pointwise.refl {R : Nat → Nat → Prop} : ∀ (xs : List Nat), (∀ x ∈ xs, R x x) → Pointwise R xs xs
  | [], _ => .nil
  | x :: xs, h => .cons (h x (by simp)) (Pointwise.refl xs (fun y hy => h y (by simp [hy])))

/-- `equal` on two proper lists whose (left) elements are atoms: same length and element-wise `equal` -/
theorem equal_lists {h : Heap} {a : Nat} {xs : List Nat} {tla : Nat} (la : ListAt h a xs tla)
    (ha : h.get tla = .nil) (hxs : ∀ x ∈ xs, NotCons (h.get x)) :
    ∀ {b : Nat} {ys : List Nat} {tlb : Nat}, ListAt h b ys tlb → h.get tlb = .nil →
    ∀ fuel, xs.length < fuel →
      (h.equal fuel a b = true ↔ Pointwise (fun x y => h.equal 1 x y = true) xs ys) := by
  induction la with
  | @done r hn =>
    intro b ys tlb lb hb fuel hf
    cases fuel with
    | zero => simp at hf
    | succ f =>
      rw [Heap.equal, ha]
      cases lb with
      | done _ => rw [hb]; simp only []; exact ⟨fun _ => .nil, fun _ => by trivial⟩
      | step hg _ =>
        rw [hg]; simp only []
        exact ⟨fun e => (by cases e), fun p => (by cases p)⟩
  | @step r a1 d1 xs tla hg _ ih =>
    intro b ys tlb lb hb fuel hf
    cases fuel with
    | zero => simp at hf
    | succ f =>
      rw [Heap.equal, hg]
      cases lb with
      | done hn =>
        rw [hb]; simp only []
        exact ⟨fun e => (by cases e), fun p => (by cases p)⟩
      | @step _ b1 d2 ys' _ hg' lb' =>
        rw [hg']; simp only []
        cases f with
        | zero => simp at hf
        | succ f' =>
          rw [equal_atom_left (hxs a1 (by simp)), Bool.and_eq_true,
            ih ha (fun x hx => hxs x (by simp [hx])) lb' hb (f' + 1) (by simpa using hf)]
          constructor
          · rintro ⟨e, p⟩; exact .cons e p
          · intro p; cases p with | cons e p => exact ⟨e, p⟩

end Tulisp.C20
