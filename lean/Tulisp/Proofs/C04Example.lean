/-
  Proofs/C04Example.lean — a concrete tail-recursive function run at constant depth
  (non-vacuity of the constant-depth theorems of C04).
-/
import Tulisp.Proofs.C04
namespace Tulisp.C04
open Tulisp
open Tulisp.C12 (mkListM_run mkList_spine mkList_next spine_cons spine_fst elems_ofList)

/-! ## a real tail-recursive function at constant depth

  `(defun f (n) (if n (f (cdr n)) t))`: walks down the list `n`.  After `markTailCalls` its body is
  `((if n (<evalEach> <bounce> (cdr n)) t))`.  We run it in ANY context in which the symbols `if`
  and `cdr` have their built-in values and `n` is an ordinary symbol. -/

theorem symD_modSym_self {c : Ctx} {n : Nat} (h : n < c.syms.size) (f : SymSt → SymSt) :
    (c.modSym n f).symD n = f (c.symD n) := by
  simp [Ctx.modSym, Ctx.symD, Array.getElem_modify, h]

theorem symD_modSym_ne {c : Ctx} {n x : Nat} (h : x ≠ n) (f : SymSt → SymSt) :
    (c.modSym n f).symD x = c.symD x := by
  simp [Ctx.modSym, Ctx.symD, Array.getElem?_modify, Ne.symm h]

theorem modSym_modSym_restore {c : Ctx} {n : Nat} (h : n < c.syms.size) (f : SymSt → SymSt)
    (s : SymSt) (hs : s = c.symD n) : (c.modSym n f).modSym n (fun _ => s) = c := by
  subst hs
  have : (c.syms.modify n f).modify n (fun _ => c.symD n) = c.syms := by
    apply Array.ext
    · simp
    · intro i h1 h2
      simp only [Array.getElem_modify]
      split
      · subst_vars; simp [Ctx.symD, h]
      · rfl
  simp only [Ctx.modSym, this]

theorem push_then_pop {c : Ctx} {n : Nat} (h : n < c.syms.size) (v : Val) (k : Nat) :
    popSymCtx { c.modSym n (·.push v) with nextId := k } n = { c with nextId := k } := by
  have h1 : ({ c.modSym n (·.push v) with nextId := k } : Ctx).symD n = (c.symD n).push v :=
    symD_modSym_self h _
  unfold popSymCtx
  rw [h1]
  simp only [SymSt.push, SymSt.pop]
  have := modSym_modSym_restore (c := c) h (·.push v) (c.symD n) rfl
  show ({ c.modSym n (·.push v) with nextId := k } : Ctx).modSym n (fun _ => c.symD n) = _
  simp only [Ctx.modSym] at this ⊢
  rw [Ctx.mk.injEq] at this
  simp only [this.1]

abbrev L (xs : List Val) : Val := Val.ofList xs

/-- what the example needs from the context -/
structure CdCtx (ifS cdrS nS : Nat) (c : Ctx) : Prop where
  ifB : (c.symD ifS).get = some (.builtin .if_)
  ifC : (c.symD ifS).constant = false
  cdrB : (c.symD cdrS).get = some (.builtin .cdr)
  cdrC : (c.symD cdrS).constant = false
  nLt : nS < c.syms.size
  nC : (c.symD nS).constant = false
  ne1 : nS ≠ ifS
  ne2 : nS ≠ cdrS

theorem CdCtx.frame {ifS cdrS nS : Nat} {c : Ctx} (h : CdCtx ifS cdrS nS c) (k : Nat) :
    CdCtx ifS cdrS nS { c with nextId := k } :=
  ⟨h.ifB, h.ifC, h.cdrB, h.cdrC, h.nLt, h.nC, h.ne1, h.ne2⟩

/-- parameter list `(n)` -/
def cdParams (nS : Nat) : Params := ⟨[nS], [], none⟩
/-- `(<evalEach> <bounce> (cdr n))` -/
def cdThen (cdrS nS : Nat) : Val := tailForm 0 0 (L [L [.sym cdrS, .sym nS]])
/-- `((if n (<evalEach> <bounce> (cdr n)) t))` -/
def cdBody (ifS cdrS nS : Nat) : Val := L [L [.sym ifS, .sym nS, cdThen cdrS nS, .t]]

theorem eval_sym (d n : Nat) : (Rec.ofDepth (d + 1)).eval (.sym n) = getSym n := rfl

/-- `(cdr n)` where `n` is bound to `l` -/
theorem eval_cdr_n (d cdrS nS : Nat) (c1 : Ctx) (l dl : Val)
    (hc1 : (c1.symD cdrS).get = some (.builtin .cdr)) (hc2 : (c1.symD cdrS).constant = false)
    (hn1 : (c1.symD nS).get = some l) (hn2 : (c1.symD nS).constant = false)
    (hl : cdrV l = .ok dl) :
    (Rec.ofDepth (d + 2)).eval (L [.sym cdrS, .sym nS]) c1 = (.ok dl, c1) := by
  rw [ofDepth_succ_eval]
  show M.bind ((Rec.ofDepth (d + 1)).eval (.sym cdrS)) _ c1 = _
  rw [C13.M.bind_ok (show (Rec.ofDepth (d + 1)).eval (.sym cdrS) c1 = _ from getSym_bound hc2 hc1)]
  show M.bind (nextArg (Rec.ofDepth (d + 1)) (L [.sym nS])) _ c1 = _
  have h1 : nextArg (Rec.ofDepth (d + 1)) (L [.sym nS]) c1 = (.ok (l, .nil), c1) := by
    show M.bind ((Rec.ofDepth (d + 1)).eval (.sym nS)) _ c1 = _
    rw [C13.M.bind_ok (show (Rec.ofDepth (d + 1)).eval (.sym nS) c1 = _ from getSym_bound hn2 hn1)]
    rfl
  rw [C13.M.bind_ok h1]
  show liftE (cxrV [false] l) c1 = _
  have : cxrV [false] l = cdrV l := by
    simp only [cxrV, List.foldr]; rfl
  rw [this, hl]; rfl

/-- the then-branch: the bounce request carrying `(cdr n)` -/
theorem eval_cdThen (d cdrS nS : Nat) (c1 : Ctx) (l dl : Val)
    (hc1 : (c1.symD cdrS).get = some (.builtin .cdr)) (hc2 : (c1.symD cdrS).constant = false)
    (hn1 : (c1.symD nS).get = some l) (hn2 : (c1.symD nS).constant = false)
    (hl : cdrV l = .ok dl) :
    (Rec.ofDepth (d + 3)).eval (cdThen cdrS nS) c1
      = (.ok (.cons c1.nextId .bounce (.cons (c1.nextId + 1) dl .nil)),
         { c1 with nextId := c1.nextId + 2 }) := by
  rw [ofDepth_succ_eval]
  have h : evalEach (Rec.ofDepth (d + 2)) (L [L [.sym cdrS, .sym nS]]) c1 = (.ok [dl], c1) := by
    show M.bind ((Rec.ofDepth (d + 2)).eval (L [.sym cdrS, .sym nS])) _ c1 = _
    rw [C13.M.bind_ok (eval_cdr_n d cdrS nS c1 l dl hc1 hc2 hn1 hn2 hl)]
    rfl
  exact evalStep_tailForm_ok (Rec.ofDepth (d + 2)) (selfEval_ofDepth (d + 1)) 0 0 _ c1 c1 [dl] h

/-- the whole `if` form -/
theorem eval_cdIf (d ifS cdrS nS : Nat) (c1 : Ctx) (l : Val)
    (hi1 : (c1.symD ifS).get = some (.builtin .if_)) (hi2 : (c1.symD ifS).constant = false)
    (hn1 : (c1.symD nS).get = some l) (hn2 : (c1.symD nS).constant = false) :
    (Rec.ofDepth (d + 4)).eval (L [.sym ifS, .sym nS, cdThen cdrS nS, .t]) c1
      = if truthy l then (Rec.ofDepth (d + 3)).eval (cdThen cdrS nS) c1 else (.ok .t, c1) := by
  rw [ofDepth_succ_eval]
  show M.bind ((Rec.ofDepth (d + 3)).eval (.sym ifS)) _ c1 = _
  rw [C13.M.bind_ok (show (Rec.ofDepth (d + 3)).eval (.sym ifS) c1 = _ from getSym_bound hi2 hi1)]
  show M.bind ((Rec.ofDepth (d + 3)).eval (.sym nS)) _ c1 = _
  rw [C13.M.bind_ok (show (Rec.ofDepth (d + 3)).eval (.sym nS) c1 = _ from getSym_bound hn2 hn1)]
  by_cases ht : truthy l = true
  · simp only [ht, if_true]
  · simp only [ht, if_false, Bool.false_eq_true]
    rfl

theorem pushV_run {c : Ctx} {n : Nat} (h : (c.symD n).constant = false) (v : Val) :
    pushV (.sym n) v c = (.ok (), c.modSym n (·.push v)) := by
  show M.bind (notConstant n) _ c = _
  have : notConstant n c = (.ok (), c) := by simp [notConstant, h]
  rw [C13.M.bind_ok this]; rfl

/-- One pass through the body, in any good context, at any depth ≥ 4: on a non-empty list the
    bounce request for its `cdr`, on the empty list the final value `t`.  The variable state is
    restored exactly; only cell ids are consumed. -/
theorem cd_pass (d ifS cdrS nS : Nat) (c : Ctx) (hc : CdCtx ifS cdrS nS c) (vals l dl : Val)
    (hv : vals.elems = [l]) (hl : cdrV l = .ok dl) :
    evalFunction (Rec.ofDepth (d + 4)) false (cdParams nS) (cdBody ifS cdrS nS) vals c
      = if truthy l then
          (.ok (.cons c.nextId .bounce (.cons (c.nextId + 1) dl .nil)),
           { c with nextId := c.nextId + 2 })
        else (.ok .t, c) := by
  rw [evalFunction_false, hv]
  unfold applyFn
  show M.bind (pure [l]) _ c = _
  rw [C13.M.bind_ok (show (pure [l] : M (List Val)) c = (.ok [l], c) from rfl)]
  show M.bind (bindParams [nS] [l] []) _ c = _
  have hb : bindParams [nS] [l] [] c = (.ok (), c.modSym nS (·.push l)) := by
    rw [bindParams]
    simp only [pushV_run hc.nC]
    rfl
  rw [C13.M.bind_ok hb]
  -- the state with `n` bound
  have hi1 : ((c.modSym nS (·.push l)).symD ifS).get = some (.builtin .if_) := by
    rw [symD_modSym_ne (Ne.symm hc.ne1)]; exact hc.ifB
  have hi2 : ((c.modSym nS (·.push l)).symD ifS).constant = false := by
    rw [symD_modSym_ne (Ne.symm hc.ne1)]; exact hc.ifC
  have hc1 : ((c.modSym nS (·.push l)).symD cdrS).get = some (.builtin .cdr) := by
    rw [symD_modSym_ne (Ne.symm hc.ne2)]; exact hc.cdrB
  have hc2 : ((c.modSym nS (·.push l)).symD cdrS).constant = false := by
    rw [symD_modSym_ne (Ne.symm hc.ne2)]; exact hc.cdrC
  have hn1 : ((c.modSym nS (·.push l)).symD nS).get = some l := by
    rw [symD_modSym_self hc.nLt]; rfl
  have hn2 : ((c.modSym nS (·.push l)).symD nS).constant = false := by
    rw [symD_modSym_self hc.nLt]; exact hc.nC
  show M.finally' ((Rec.ofDepth (d + 4)).eval (L [.sym ifS, .sym nS, cdThen cdrS nS, .t]))
    (fun c' => popSymCtx c' nS) (c.modSym nS (·.push l)) = _
  simp only [M.finally', eval_cdIf d ifS cdrS nS _ l hi1 hi2 hn1 hn2]
  by_cases ht : truthy l = true
  · simp only [ht, if_true, eval_cdThen d cdrS nS _ l dl hc1 hc2 hn1 hn2 hl]
    rw [show ((c.modSym nS (·.push l)).nextId) = c.nextId from rfl, push_then_pop hc.nLt]
  · simp only [ht, if_false, Bool.false_eq_true]
    have := push_then_pop hc.nLt l c.nextId
    rw [show ({ c.modSym nS (·.push l) with nextId := c.nextId } : Ctx) = c.modSym nS (·.push l) from rfl,
      show ({ c with nextId := c.nextId } : Ctx) = c from rfl] at this
    rw [this]

/-- a proper (nil-terminated) list -/
def proper : Val → Bool
  | .nil => true
  | .cons _ _ d => proper d
  | _ => false

/-- The trampoline walks down a list of ANY length at the SAME depth `d + 4`: started on the
    bounce request for the proper list `l`, with an iteration budget of at least `len l + 2`, it
    returns `t`; the variable state is the initial one, `2 · len l` cell ids have been used. -/
theorem cd_loop (d ifS cdrS nS : Nat) : ∀ (l : Val), proper l = true →
    ∀ (c : Ctx), CdCtx ifS cdrS nS c → ∀ (vals : Val) (i k : Nat), vals.elems = [l] →
      l.len + 2 ≤ k →
      bounceLoop (Rec.ofDepth (d + 4)) (cdParams nS) (cdBody ifS cdrS nS) k (.cons i .bounce vals) c
        = (.ok .t, { c with nextId := c.nextId + 2 * l.len }) := by
  intro l
  induction l with
  | nil =>
    intro _ c hc vals i k hv hk
    obtain ⟨k', rfl⟩ : ∃ k', k = k' + 2 := ⟨k - 2, by simp [Val.len] at hk; omega⟩
    rw [bounceLoop_bounce_eq]
    show M.bind _ _ c = _
    rw [C13.M.bind_ok (cd_pass d ifS cdrS nS c hc vals .nil .nil hv rfl)]
    rfl
  | cons j a dl _ ih =>
    intro hp c hc vals i k hv hk
    simp only [Val.len] at hk
    obtain ⟨k', rfl⟩ : ∃ k', k = k' + 1 := ⟨k - 1, by omega⟩
    rw [bounceLoop_bounce_eq]
    show M.bind _ _ c = _
    rw [C13.M.bind_ok (cd_pass d ifS cdrS nS c hc vals (.cons j a dl) dl hv rfl)]
    rw [ih hp _ (hc.frame _) _ _ _ rfl (by omega)]
    simp only [Val.len]
    congr 2
    show c.nextId + 2 + 2 * dl.len = c.nextId + 2 * (dl.len + 1)
    omega
  | _ => intro hp; simp [proper] at hp

theorem loopBudget_eq : loopBudget = 3999999999 + 1 := rfl

/-- Calling the function (with a value, as `funcall`/`mapcar` do) on a proper list of ANY length
    below the iteration budget succeeds at depth `d + 4`, for every `d`: the depth needed does not
    grow with the number of iterations. -/
theorem cd_call (d ifS cdrS nS id : Nat) (l : Val) (hp : proper l = true) (c : Ctx)
    (hc : CdCtx ifS cdrS nS c) (hlen : l.len + 1 ≤ loopBudget) :
    funcallVal (Rec.ofDepth (d + 4)) false (.lambda id (cdParams nS) (cdBody ifS cdrS nS)) (L [l]) c
      = (.ok .t, { c with nextId := c.nextId + 2 * l.len }) := by
  rw [funcallVal_lambda, evalLambda_unfold_eq]
  show M.bind _ _ c = _
  cases l with
  | nil =>
    rw [C13.M.bind_ok (cd_pass d ifS cdrS nS c hc (L [.nil]) .nil .nil rfl rfl)]
    rfl
  | cons j a dl =>
    rw [C13.M.bind_ok (cd_pass d ifS cdrS nS c hc (L [.cons j a dl]) (.cons j a dl) dl rfl rfl)]
    simp only [Val.len] at hlen
    show bounceLoop _ _ _ _ _ _ = _
    rw [cd_loop d ifS cdrS nS dl hp _ (hc.frame _) _ _ _ rfl (by omega)]
    simp only [Val.len]
    congr 2
    show c.nextId + 2 + 2 * dl.len = c.nextId + 2 * (dl.len + 1)
    omega
  | _ => simp [proper] at hp
