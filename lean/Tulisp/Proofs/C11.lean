/-
  Proofs/C11.lean — helper lemmas for property C11 (evaluation never modifies the program, quoted
  constants or argument lists).

  * `Pres R m` : running `m` relates the state before to the state after by the preorder `R`,
    whatever the outcome; instances `MonoM` (allocation counter never decreases) and `KeepSyms`
    (symbol table unchanged).  Compositional lemmas for the argument-evaluation helpers.
  * `MonoRec r` and monotonicity of `funcallVal` (calls of lambdas, macros, built-ins), of the
    loops of `mapcar` / `seq-filter` / `sort`.
-/
import Tulisp.Proofs.C07
import Tulisp.Proofs.C17
set_option linter.constructorNameAsVariable false
namespace Tulisp.C11
open Tulisp Tulisp.Fresh

/-! ## state relations preserved by monadic programs -/

/-- a reflexive, transitive relation on states that holds whenever only the allocation counter
    grows -/
structure StRel (R : Ctx → Ctx → Prop) : Prop where
  refl : ∀ c, R c c
  trans : ∀ c1 c2 c3, R c1 c2 → R c2 c3 → R c1 c3
  alloc : ∀ c c', OnlyNextId c c' → R c c'

def Pres {α} (R : Ctx → Ctx → Prop) (m : M α) : Prop := ∀ c, R c (m c).2

/-- the counter never decreases -/
def leId (c c' : Ctx) : Prop := c.nextId ≤ c'.nextId
/-- the symbol table is the same -/
def sameSyms (c c' : Ctx) : Prop := c'.syms = c.syms

theorem leId_stRel : StRel leId :=
  ⟨fun _ => Nat.le_refl _, fun _ _ _ => Nat.le_trans, fun _ _ h => h.2⟩

theorem sameSyms_stRel : StRel sameSyms :=
  ⟨fun _ => rfl, fun _ _ _ h1 h2 => h2.trans h1, fun _ _ h => h.syms⟩

theorem monoM_iff {α} (m : M α) : MonoM m ↔ Pres leId m := Iff.rfl
theorem keepSyms_iff {α} (m : M α) : KeepSyms m ↔ Pres sameSyms m := Iff.rfl

section generic
variable {R : Ctx → Ctx → Prop} (hR : StRel R)
include hR

theorem Pres.bind {α β} {m : M α} {f : α → M β} (hm : Pres R m) (hf : ∀ a, Pres R (f a)) :
    Pres R (m >>= f) := by
  intro c
  rcases bind_snd_cases m f c with ⟨a, c1, h1, h2⟩ | ⟨_, _, h2, _⟩
  · rw [h2]
    have := hm c; rw [h1] at this
    exact hR.trans _ _ _ this (hf a c1)
  · rw [h2]; exact hm c

theorem Pres.of_idOnly {α} {m : M α} (h : IdOnly m) : Pres R m := fun c => hR.alloc _ _ (h c)

theorem Pres.pure {α} (a : α) : Pres R (pure a : M α) := Pres.of_idOnly hR (IdOnly.pure a)
theorem Pres.throw {α} (k : ErrKind) : Pres R (M.throw k : M α) :=
  Pres.of_idOnly hR (IdOnly.throw k)
theorem Pres.liftE {α} (e : E α) : Pres R (liftE e) := Pres.of_idOnly hR (IdOnly.liftE e)
theorem Pres.get : Pres R M.get := Pres.of_idOnly hR IdOnly.get

theorem pres_evalEach (r : Rec) (hr : ∀ v, Pres R (r.eval v)) (args : Val) :
    Pres R (evalEach r args) := by
  induction args with
  | cons i a d _ ihd =>
    show Pres R (r.eval a >>= fun v => evalEach r d >>= fun vs => Pure.pure (v :: vs))
    exact Pres.bind hR (hr a) (fun _ => Pres.bind hR ihd (fun _ => Pres.pure hR _))
  | _ => exact Pres.pure hR _

theorem pres_nextArg (r : Rec) (hr : ∀ v, Pres R (r.eval v)) (args : Val) :
    Pres R (nextArg r args) := by
  cases args <;> first
    | exact Pres.bind hR (hr _) (fun _ => Pres.pure hR _)
    | exact Pres.pure hR _
    | exact Pres.throw hR _

theorem pres_nextArgOpt (r : Rec) (hr : ∀ v, Pres R (r.eval v)) (args : Val) :
    Pres R (nextArgOpt r args) := by
  cases args <;> first
    | exact Pres.bind hR (hr _) (fun _ => Pres.pure hR _)
    | exact Pres.pure hR _

theorem pres_intOf (v : Val) : Pres R (intOf v) := by
  cases v <;> first | exact Pres.pure hR _ | exact Pres.throw hR _

theorem pres_strOf (v : Val) : Pres R (strOf v) := by
  cases v <;> first | exact Pres.pure hR _ | exact Pres.throw hR _

theorem pres_numOf (v : Val) : Pres R (numOf v) := by
  unfold numOf
  split
  · exact Pres.pure hR _
  · exact Pres.throw hR _

theorem pres_printOrSkip (o : Option String) : Pres R (printOrSkip o) := by
  cases o
  · exact Pres.of_idOnly hR (fun c => OnlyNextId.refl c)
  · exact Pres.pure hR _

theorem pres_formatLoop (c0 : Ctx) (cs : List Char) (args : List Val) (out : String) :
    Pres R (formatLoop c0 cs args out) := by
  fun_induction formatLoop c0 cs args out with
  | case1 => exact Pres.pure hR _
  | case2 => exact Pres.pure hR _
  | case3 _ _ _ ih => exact ih
  | case4 => exact Pres.throw hR _
  | case5 _ _ _ _ _ ih =>
    exact Pres.bind hR (pres_printOrSkip hR _) (fun s => ih s)
  | case6 _ _ _ _ _ _ ih =>
    exact Pres.bind hR (pres_printOrSkip hR _) (fun s => ih s)
  | case7 _ _ _ _ _ _ _ ih =>
    exact Pres.bind hR (pres_numOf hR _) (fun n => ih n)
  | case8 _ _ _ _ _ _ _ _ ih =>
    exact Pres.bind hR (pres_numOf hR _)
      (fun n => Pres.bind hR (pres_printOrSkip hR _) (fun s => ih s))
  | case9 => exact Pres.throw hR _
  | case10 _ _ _ _ _ ih => exact ih

theorem pres_evalProgn (r : Rec) (hr : ∀ v, Pres R (r.eval v)) (body : Val) :
    Pres R (evalProgn r body) := by
  fun_induction evalProgn r body with
  | case1 i a j a' d ih => exact Pres.bind hR (hr a) (fun _ => ih)
  | case2 i a x hx => exact hr a
  | case3 t ht => exact Pres.pure hR _

theorem pres_appendStep (acc : Acc) (v : Val) : Pres R (C12.appendStep acc v) :=
  Pres.of_idOnly hR (IdOnly.bind (IdOnly.deepCopy v) (fun _ => IdOnly.append _ _))

theorem pres_foldlM {α β} (f : β → α → M β) (hf : ∀ b a, Pres R (f b a)) (xs : List α) (b : β) :
    Pres R (xs.foldlM f b) := by
  induction xs generalizing b with
  | nil => exact Pres.pure hR _
  | cons x xs ih =>
    rw [List.foldlM_cons]
    exact Pres.bind hR (hf b x) (fun b' => ih b')

theorem pres_appendVals (first : Val) (others : List Val) :
    Pres R (C12.appendVals first others) := by
  unfold C12.appendVals
  refine Pres.bind hR (Pres.of_idOnly hR (IdOnly.deepCopy _)) (fun firstCp => ?_)
  split
  · split
    · exact Pres.pure hR _
    · exact Pres.throw hR _
  · exact Pres.bind hR (pres_foldlM hR _ (fun b a => pres_appendStep hR b a) _ _)
      (fun _ => Pres.of_idOnly hR (IdOnly.build _))

end generic

/-! ## monotone evaluators; calling functions -/

/-- the evaluator and the macro expander of the next smaller depth never decrease the
    allocation counter -/
structure MonoRec (r : Rec) : Prop where
  eval : ∀ v, MonoM (r.eval v)
  mexp : ∀ v, MonoM (r.mexp v)

theorem MonoRec.toC07 {r : Rec} (h : MonoRec r) : C07.RecMono r := h.eval

theorem modSym_nextId (c : Ctx) (n : Nat) (f : SymSt → SymSt) : (c.modSym n f).nextId = c.nextId :=
  rfl

theorem popSymCtx_nextId (c : Ctx) (n : Nat) : (popSymCtx c n).nextId = c.nextId := by
  unfold popSymCtx
  split <;> rfl

theorem foldl_popSymCtx_nextId (ns : List Nat) (c : Ctx) :
    (ns.foldl popSymCtx c).nextId = c.nextId := by
  induction ns generalizing c with
  | nil => rfl
  | cons n ns ih => rw [List.foldl_cons, ih, popSymCtx_nextId]

theorem pushV_nextId (target v : Val) (c : Ctx) : (pushV target v c).2.nextId = c.nextId := by
  cases target with
  | sym n =>
    show ((notConstant n >>= fun _ => M.modify (·.modSym n (·.push v))) c).2.nextId = _
    by_cases hc : (c.symD n).constant = true
    · have : notConstant n c = (.err .undefined, c) := by simp [notConstant, hc]
      rw [C12.bind_err _ this]
    · have : notConstant n c = (.ok (), c) := by simp [notConstant, hc]
      rw [C12.bind_ok _ this]
      rfl
  | _ => rfl

theorem monoM_finally {α} {m : M α} (hm : MonoM m) (fin : Ctx → Ctx)
    (hfin : ∀ c, (fin c).nextId = c.nextId) : MonoM (M.finally' m fin) := by
  intro c
  show c.nextId ≤ (fin (m c).2).nextId
  rw [hfin]
  exact hm c

theorem monoM_bindParams (ps : List Nat) (vs : List Val) (done : List Nat) :
    MonoM (bindParams ps vs done) := by
  fun_induction bindParams ps vs done with
  | case1 p ps v vs done ih =>
    intro c
    have hp := pushV_nextId (.sym p) v c
    rcases hpush : pushV (.sym p) v c with ⟨res, c1⟩
    rw [hpush] at hp
    simp only at hp
    show c.nextId ≤ (match pushV (.sym p) v c with
      | (.ok (), c') => bindParams ps vs (p :: done) c'
      | (.err k, c') => (.err k, done.foldl popSymCtx c')
      | (.panic s, c') => (.panic s, c')
      | (.fuel, c') => (.fuel, c')).2.nextId
    rw [hpush]
    cases res with
    | ok u =>
      have := ih c1
      show c.nextId ≤ (bindParams ps vs (p :: done) c1).2.nextId
      omega
    | err k =>
      show c.nextId ≤ (done.foldl popSymCtx c1).nextId
      rw [foldl_popSymCtx_nextId]
      omega
    | panic s => show c.nextId ≤ c1.nextId; omega
    | fuel => show c.nextId ≤ c1.nextId; omega
  | case2 t x d h => exact MonoM.pure _

theorem monoM_collectArgs (r : Rec) (hr : ∀ v, MonoM (r.eval v)) (evaluate : Bool)
    (req opt : List Nat) (rest : Option Nat) (args : Val) :
    MonoM (collectArgs r evaluate req opt rest args) := by
  fun_induction collectArgs r evaluate req opt rest args <;> first
    | exact MonoM.throw _
    | exact MonoM.pure _
    | exact MonoM.bind (hr _) (fun _ => MonoM.bind (by assumption) (fun _ => MonoM.pure _))
    | exact MonoM.bind (MonoM.pure _) (fun _ => MonoM.bind (by assumption) (fun _ => MonoM.pure _))
    | exact MonoM.bind (by assumption) (fun _ => MonoM.pure _)
    | exact MonoM.bind ((monoM_iff _).2 (pres_evalEach leId_stRel r hr _))
        (fun _ => MonoM.bind (IdOnly.mkListM _ _).mono (fun _ => MonoM.pure _))
    | exact MonoM.bind (MonoM.pure _)
        (fun _ => MonoM.bind (IdOnly.mkListM _ _).mono (fun _ => MonoM.pure _))

theorem monoM_evalFunction (r : Rec) (hr : ∀ v, MonoM (r.eval v)) (evaluate : Bool) (ps : Params)
    (body args : Val) : MonoM (evalFunction r evaluate ps body args) := by
  unfold evalFunction
  refine MonoM.bind (monoM_collectArgs r hr evaluate _ _ _ _) (fun vals => ?_)
  refine MonoM.bind (monoM_bindParams _ _ _) (fun _ => ?_)
  exact monoM_finally ((monoM_iff _).2 (pres_evalProgn leId_stRel r hr body)) _
    (fun c => foldl_popSymCtx_nextId _ c)

theorem monoM_bounceLoop (r : Rec) (hr : ∀ v, MonoM (r.eval v)) (ps : Params) (body : Val)
    (k : Nat) (res : Val) : MonoM (bounceLoop r ps body k res) := by
  induction k generalizing res with
  | zero => exact fun c => Nat.le_refl _
  | succ k ih =>
    unfold bounceLoop
    split
    · exact MonoM.bind (monoM_evalFunction r hr false ps body _) (fun res' => ih res')
    · exact MonoM.pure _

theorem monoM_evalLambda (r : Rec) (hr : ∀ v, MonoM (r.eval v)) (evaluate : Bool) (ps : Params)
    (body args : Val) : MonoM (evalLambda r evaluate ps body args) :=
  MonoM.bind (monoM_evalFunction r hr evaluate ps body args)
    (fun res => monoM_bounceLoop r hr ps body _ res)

theorem monoM_funcallVal (r : Rec) (hr : MonoRec r) (evaluate : Bool) (f args : Val) :
    MonoM (funcallVal r evaluate f args) := by
  have hmacro : MonoM (deepCopy args >>= fun cp => mkCons f cp >>= fun form =>
      r.mexp form >>= fun ex => r.eval ex) :=
    MonoM.bind (IdOnly.deepCopy _).mono (fun _ => MonoM.bind (IdOnly.mkCons _ _).mono
      (fun _ => MonoM.bind (hr.mexp _) (fun _ => hr.eval _)))
  cases f with
  | builtin b =>
    unfold funcallVal
    simp only
    split
    · exact hmacro
    · split
      · exact MonoM.bind (IdOnly.mkCons _ _).mono (fun _ => hr.eval _)
      · exact MonoM.bind (IdOnly.mkListM _ _).mono
          (fun _ => MonoM.bind (IdOnly.mkCons _ _).mono (fun _ => hr.eval _))
  | lambda i ps body => exact monoM_evalLambda r hr.eval evaluate ps body args
  | defmacro i ps body => exact hmacro
  | _ => exact MonoM.throw _

theorem monoM_app1 (r : Rec) (hr : MonoRec r) (f x : Val) : MonoM (C12.app1 r f x) :=
  MonoM.bind (IdOnly.mkListM _ _).mono (fun _ => monoM_funcallVal r hr false f _)

theorem monoM_mapVals (r : Rec) (hr : MonoRec r) (f : Val) (xs acc : List Val) :
    MonoM (callBuiltin.mapVals r f xs acc) := by
  induction xs generalizing acc with
  | nil => exact MonoM.pure _
  | cons x xs ih =>
    rw [C12.mapVals_cons]
    exact MonoM.bind (monoM_app1 r hr f x) (fun _ => ih _)

theorem monoM_filterVals (r : Rec) (hr : MonoRec r) (f : Val) (xs acc : List Val) :
    MonoM (callBuiltin.filterVals r f xs acc) := by
  induction xs generalizing acc with
  | nil => exact MonoM.pure _
  | cons x xs ih =>
    rw [C12.filterVals_cons]
    exact MonoM.bind (monoM_app1 r hr f x) (fun _ => ih _)

/-- the comparison function `sort` hands to the merge sort -/
def sortLt (r : Rec) (p : Val) : Val → Val → M Bool := fun a b => do
  let l ← mkListM [a, b]
  let v ← callBuiltin.applyVals r p l
  pure (truthy v)

theorem monoM_sortLt (r : Rec) (hr : MonoRec r) (p a b : Val) : MonoM (sortLt r p a b) :=
  MonoM.bind (IdOnly.mkListM _ _).mono
    (fun _ => MonoM.bind (monoM_funcallVal r hr false p _) (fun _ => MonoM.pure _))

theorem monoM_sortM (r : Rec) (hr : MonoRec r) (p : Val) (k : Nat) (xs : List Val) :
    MonoM (sortM (sortLt r p) k xs) := by
  intro c
  exact C17.sortM_rel (sortLt r p) leId leId_stRel.refl leId_stRel.trans
    (fun a b c => monoM_sortLt r hr p a b c) k xs c

/-! ## a fresh list at the end -/

/-- a program that ends by building a list from computed elements returns a list all of whose
    spine cells were allocated during the run -/
theorem fresh_of_bind_mkListM {m : M (List Val)} (hm : MonoM m) {c c' : Ctx} {w : Val}
    (h : (m >>= fun xs => mkListM xs) c = (.ok w, c')) :
    SpineIn c.nextId c'.nextId w ∧ ∃ xs c1, m c = (.ok xs, c1) ∧ w.spine = (xs, .nil) := by
  obtain ⟨xs, c1, h1, h2⟩ := bind_ok_inv h
  obtain ⟨w', c2, h3, _, h4, h5⟩ := mkListM_spineIn xs (tl := .nil) rfl c1
  rw [h3] at h2
  injection h2 with hw hc
  injection hw with hw
  subst hw; subst hc
  have := hm c
  rw [h1] at this
  exact ⟨h4.mono this (Nat.le_refl _), xs, c1, h1, h5⟩

/-- the accumulator of `append` never gets a cons as tail -/
theorem appendLoop_tail (vs : List Val) :
    ∀ (a : Acc) (c : Ctx) (a' : Acc) (c' : Ctx), a.tail.isCons = false →
      vs.foldlM C12.appendStep a c = (.ok a', c') → a'.tail.isCons = false := by
  induction vs with
  | nil =>
    intro a c a' c' ht h
    obtain ⟨e, _⟩ := C05_pure_inv h
    rw [← e]; exact ht
  | cons v vs ih =>
    intro a c a' c' _ h
    rw [List.foldlM_cons] at h
    obtain ⟨a1, c1, h1, h2⟩ := bind_ok_inv h
    unfold C12.appendStep at h1
    obtain ⟨cp, c0, _, h4⟩ := bind_ok_inv h1
    exact ih a1 c1 a' c' (Acc.append_tail_notCons h4).1 h2
where
  C05_pure_inv {α} {a b : α} {c c' : Ctx} (h : (pure a : M α) c = (.ok b, c')) :
      a = b ∧ c = c' := by
    injection h with h1 h2
    injection h1 with h1
    exact ⟨h1, h2⟩

theorem appendStart_tail (v : Val) : (C12.appendStart v).tail.isCons = false := by
  cases v <;> first | rfl | exact C12.spine_snd_not_cons _

/-- the value of `appendVals`: whatever it is, its spine is fresh -/
theorem appendVals_fresh (first : Val) (others : List Val) (c c' : Ctx) (w : Val)
    (h : C12.appendVals first others c = (.ok w, c')) : SpineIn c.nextId c'.nextId w := by
  unfold C12.appendVals at h
  obtain ⟨fc, c1, h1, h2⟩ := bind_ok_inv h
  obtain ⟨fc', c1', hd, ho, hsp, _, _⟩ := deepCopy_fresh first c
  rw [hd] at h1
  injection h1 with e1 e2
  injection e1 with e1
  subst e1; subst e2
  split at h2
  · split at h2
    · obtain ⟨e1, e2⟩ := appendLoop_tail.C05_pure_inv h2
      subst e1; subst e2
      exact hsp
    · injection h2 with h2 _; cases h2
  · obtain ⟨acc, c2, h3, h4⟩ := bind_ok_inv h2
    have ht := appendLoop_tail others _ _ _ _ (appendStart_tail fc') h3
    obtain ⟨w', c3, hb, _, hs, _, _⟩ := Acc.build_fresh acc ht c2
    rw [hb] at h4
    injection h4 with e1 e2
    injection e1 with e1
    subst e1; subst e2
    have m1 : c1'.nextId ≤ c2.nextId := by
      have := (monoM_iff _).2 (pres_foldlM leId_stRel _
        (fun b a => pres_appendStep leId_stRel b a) others (C12.appendStart fc')) c1'
      rw [h3] at this
      exact this
    exact hs.mono (Nat.le_trans ho.2 m1) (Nat.le_refl _)


/-- `append` of proper lists: the concatenation, as a proper list (as in Props/C12) -/
theorem appendVals_proper (first : Val) (others : List Val) (c : Ctx)
    (hf : first.spine.2 = .nil) (ho : ∀ v ∈ others, v.spine.2 = .nil) :
    ∃ w c', C12.appendVals first others c = (.ok w, c') ∧
      w.spine = (first.elems ++ others.flatMap Val.elems, .nil) := by
  obtain ⟨fc, c1, hfc, hs⟩ := C12.deepCopy_spec first c
  have hfl : fc.isList = true := by
    rw [C12.isList_of_spine_eq hs, C12.isList_iff_spine]; exact Or.inr hf
  obtain ⟨c2, h2⟩ := C12.appendLoop_proper others (C12.appendStart fc) c1
    (by rw [C12.appendStart_list fc hfl, hs]; exact hf) ho
  obtain ⟨w, c3, h3, hw⟩ := C12.Acc.build_spec
    { rev := (others.flatMap Val.elems).reverse ++ (C12.appendStart fc).rev, tail := .nil } c2
  refine ⟨w, c3, ?_, ?_⟩
  · unfold C12.appendVals
    rw [C12.bind_ok _ hfc]
    simp only [hfl, Bool.not_true, Bool.false_eq_true, if_false]
    rw [C12.bind_ok _ h2]
    exact h3
  · rw [hw, C12.appendStart_list fc hfl, hs]
    simp [C12.spine_fst, C12.spine_nil]

/-- `appendVals` changes nothing but the allocation counter -/
theorem idOnly_appendVals (first : Val) (others : List Val) :
    IdOnly (C12.appendVals first others) := by
  unfold C12.appendVals
  refine IdOnly.bind (IdOnly.deepCopy _) (fun firstCp => ?_)
  split
  · split
    · exact IdOnly.pure _
    · exact IdOnly.throw _
  · refine IdOnly.bind ?_ (fun _ => IdOnly.build _)
    generalize C12.appendStart firstCp = a
    induction others generalizing a with
    | nil => exact IdOnly.pure _
    | cons v vs ih =>
      rw [List.foldlM_cons]
      exact IdOnly.bind (IdOnly.bind (IdOnly.deepCopy _) (fun _ => IdOnly.append _ _))
        (fun a' => ih a')

end Tulisp.C11
