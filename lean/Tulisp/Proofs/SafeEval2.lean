/-
  Proofs/SafeEval2.lean — the invariant of Proofs/Safe.lean for backquote, closures, tail-call
  marking, the built-in macros, loops, `funcall`, `let` and `sort`.
-/
import Tulisp.Proofs.SafeEval
namespace Tulisp

macro_rules | `(tactic| safe_leaf) => `(tactic| ((with_reducible apply safe_collectArgs (by assumption)); safe_side))
macro_rules | `(tactic| safe_leaf) => `(tactic| ((with_reducible apply safe_evalFunction (by assumption)); safe_side))
macro_rules | `(tactic| safe_leaf) => `(tactic| ((with_reducible apply safe_evalLambda (by assumption)); safe_side))

/-! ## backquote -/

section
variable {r : Rec} (hr : SafeRec r)
include hr

theorem safe_backquote (v : Val) :
    (∀ {H : Prop} {N : Nat}, (H → v.bound ≤ N) → SafeH H N (evalBackquote r v) bq) ∧
    (∀ {acc : Acc} {H : Prop} {N : Nat}, (H → max (bnd acc) v.bound ≤ N) →
      SafeH H N (bqRest r v acc) bq) := by
  induction v with
  | cons i first rest ihf ihr =>
    obtain ⟨ihf1, _⟩ := ihf
    obtain ⟨_, ihr2⟩ := ihr
    constructor
    · intro H N h
      refine SafeH.of_hyp h ?_
      unfold evalBackquote
      safe_tac
    · intro acc H N h
      refine SafeH.of_hyp h ?_
      unfold bqRest
      safe_tac
  | quote v ih =>
    obtain ⟨ih1, _⟩ := ih
    constructor
    · intro H N h; refine SafeH.of_hyp h ?_; unfold evalBackquote; safe_tac
    · intro acc H N h; refine SafeH.of_hyp h ?_; unfold bqRest; safe_tac
  | _ =>
    constructor
    · intro H N h; refine SafeH.of_hyp h ?_; unfold evalBackquote; safe_tac
    · intro acc H N h; refine SafeH.of_hyp h ?_; unfold bqRest; safe_tac

theorem safe_evalBackquote {v : Val} {H : Prop} {N : Nat} (h : H → v.bound ≤ N) :
    SafeH H N (evalBackquote r v) bq := (safe_backquote hr v).1 h

end

/-! ## closures -/

theorem capBound_find {cap : Captured} {p : Nat × Nat → Bool} {a b : Nat}
    (h : cap.find? p = some (a, b)) : max (a + 1) (b + 1) ≤ capBound cap := by
  induction cap with
  | nil => simp at h
  | cons x xs ih =>
    obtain ⟨x1, x2⟩ := x
    simp only [List.find?_cons] at h
    split at h
    · cases h; simp only [capBound_cons]; omega
    · have := ih h; simp only [capBound_cons]; omega

theorem safe_captureSymbol {excl : List Nat} {n : Nat} {cap : Captured} {H : Prop} {N : Nat}
    (h : H → max (n + 1) (capBound cap) ≤ N) : SafeH H N (captureSymbol excl n cap) bq := by
  refine ⟨fun c => ?_⟩
  unfold captureSymbol
  simp only
  split
  · refine ⟨fun s hs => (by cases hs), fun hh _ hc hn => ⟨rfl, hc, Nat.le_refl _, ?_⟩⟩
    intro a ha; cases ha; have := h hh; simp only [bnd_simp]; omega
  · split
    · refine ⟨fun s hs => (by cases hs), fun hh _ hc hn => ⟨rfl, hc, Nat.le_refl _, ?_⟩⟩
      intro a ha; cases ha; have := h hh; simp only [bnd_simp]; omega
    · split
      · next x cell hf =>
        refine ⟨fun s hs => (by cases hs), fun hh _ hc hn => ⟨rfl, hc, Nat.le_refl _, ?_⟩⟩
        intro a ha; cases ha; have := h hh; have := capBound_find hf
        simp only [bnd_simp]; omega
      · cases hg : (c.symD n).get with
        | none =>
          exact ⟨fun s hs => (by cases hs), fun _ _ hc _ => ⟨rfl, hc, Nat.le_refl _, fun a ha => by cases ha⟩⟩
        | some v =>
          simp only
          refine ⟨fun s hs => (by cases hs), fun hh _ hc hn => ⟨?_, ?_, ?_, ?_⟩⟩
          · exact LD_newSym c _ rfl
          · apply hc.newSym
            intro x hx
            simp only [List.mem_singleton] at hx
            subst hx
            exact Nat.le_succ_of_le (hc.get hg)
          · simp
          · intro a ha; cases ha; have := h hh
            simp only [bnd_simp, Ctx.size_newSym, Ctx.newSym_fst]; omega

macro_rules | `(tactic| safe_leaf) => `(tactic| ((with_reducible apply safe_captureSymbol); safe_side))

theorem safe_capture (excl : List Nat) (v : Val) :
    (∀ {cap : Captured} {H : Prop} {N : Nat}, (H → max v.bound (capBound cap) ≤ N) →
      SafeH H N (captureVars excl v cap) bq) ∧
    (∀ {acc : Acc} {cap : Captured} {H : Prop} {N : Nat},
      (H → max v.bound (max (bnd acc) (capBound cap)) ≤ N) →
      SafeH H N (captureRest excl v acc cap) bq) := by
  induction v with
  | cons i a d iha ihd =>
    obtain ⟨iha1, _⟩ := iha
    obtain ⟨_, ihd2⟩ := ihd
    constructor
    · intro cap H N h; refine SafeH.of_hyp h ?_; unfold captureVars; safe_tac
    · intro acc cap H N h; refine SafeH.of_hyp h ?_; unfold captureRest; safe_tac
  | quote v ih | backquote v ih | unquote v ih | splice v ih =>
    obtain ⟨ih1, _⟩ := ih
    constructor
    · intro cap H N h; refine SafeH.of_hyp h ?_; unfold captureVars; safe_tac
    · intro acc cap H N h; refine SafeH.of_hyp h ?_; unfold captureRest; safe_tac
  | _ =>
    constructor
    · intro cap H N h; refine SafeH.of_hyp h ?_; unfold captureVars; safe_tac
    · intro acc cap H N h; refine SafeH.of_hyp h ?_; unfold captureRest; safe_tac

theorem safe_captureVars {excl : List Nat} {v : Val} {cap : Captured} {H : Prop} {N : Nat}
    (h : H → max v.bound (capBound cap) ≤ N) : SafeH H N (captureVars excl v cap) bq :=
  (safe_capture excl v).1 h

macro_rules | `(tactic| safe_leaf) => `(tactic| ((with_reducible apply safe_captureVars); safe_side))

/-! ## tail-call marking -/

theorem splitLast_bound {forms ini : List Val} {tail : Val} (h : splitLast forms = some (ini, tail)) :
    max (valsBound ini) tail.bound ≤ valsBound forms := by
  fun_induction splitLast forms generalizing ini tail with
  | case1 => cases h
  | case2 x => cases h; simp
  | case3 x xs hne ini' l hs ih =>
    cases h
    have := ih hs
    simp only [valsBound_cons]; omega
  | case4 x xs hne hs => cases h

theorem safe_markTail (fname : Nat) (fuel : Nat) :
    (∀ {v : Val} {H : Prop} {N : Nat}, (H → v.bound ≤ N) → SafeH H N (markTailCalls fname fuel v) bq) ∧
    (∀ {v : Val} {H : Prop} {N : Nat}, (H → v.bound ≤ N) → SafeH H N (markClauses fname fuel v) bq) := by
  induction fuel with
  | zero =>
    constructor
    · intro v H N h; unfold markTailCalls; safe_tac
    · intro v H N h; unfold markClauses; safe_tac
  | succ fuel ih =>
    obtain ⟨ih1, ih2⟩ := ih
    constructor
    · intro v H N h
      refine SafeH.of_hyp h ?_
      cases v with
      | cons i a d =>
        simp only [markTailCalls]
        apply SafeH.bind SafeH.get
        intro c N'
        have hb := bound_elems (Val.cons i a d)
        split
        · safe_tac
        · next ini tail hs =>
          have := splitLast_bound hs
          refine SafeH.have (P := max (valsBound ini) tail.bound ≤ (Val.cons i a d).bound) (by omega) ?_
          safe_tac
      | _ => simp only [markTailCalls]; safe_tac
    · intro v H N h
      refine SafeH.of_hyp h ?_
      cases v with
      | cons i a d => simp only [markClauses]; safe_tac
      | _ => simp only [markClauses]; safe_tac

theorem safe_markTailCalls {fname fuel : Nat} {v : Val} {H : Prop} {N : Nat} (h : H → v.bound ≤ N) :
    SafeH H N (markTailCalls fname fuel v) bq := (safe_markTail fname fuel).1 h

macro_rules | `(tactic| safe_leaf) => `(tactic| ((with_reducible apply safe_markTailCalls); safe_side))

/-! ## built-in macros -/

section
variable {H : Prop} {N : Nat}

/-- a fresh uninterned symbol without bindings -/
theorem safe_newSym_plain {s : SymSt} (hs : s.items = []) (hg : s.hasGlobal = false) :
    SafeH H N (fun c => let (n, c') := c.newSym s; (Res.ok (n, ()), c') : M (Nat × Unit))
      (fun p N' => p.1 < N') := by
  refine ⟨fun c => ⟨fun s hs => (by cases hs), fun _ _ hc _ => ⟨?_, ?_, ?_, ?_⟩⟩⟩
  · exact LD_newSym c s (by simp [localDepth, hs, hg])
  · exact hc.newSym s (by simp [hs])
  · simp
  · intro a ha; cases ha; simp

end
macro_rules | `(tactic| safe_leaf) => `(tactic| with_reducible exact safe_newSym_plain rfl rfl)
section
variable {H : Prop} {N : Nat}

theorem safe_buildBinding {binding prevVar : Val} (h : H → max binding.bound prevVar.bound ≤ N) :
    SafeH H N (buildBinding binding prevVar) bq := by
  refine SafeH.of_hyp h ?_
  unfold buildBinding
  safe_tac

theorem safe_buildBindings {v : Val} : ∀ {prev : Val} {H : Prop} {N : Nat},
    (H → max v.bound prev.bound ≤ N) → SafeH H N (buildBindings v prev) bq := by
  induction v with
  | cons i b rest _ ih =>
    intro prev H N h
    refine SafeH.of_hyp h ?_
    unfold buildBindings
    apply SafeH.bind
    · apply safe_buildBinding; safe_side
    · intro p N'
      safe_tac
  | _ => intro prev H N h; unfold buildBindings; safe_tac

theorem safe_prognOnRest {rest : Val} (h : H → rest.bound ≤ N) : SafeH H N (prognOnRest rest) bq := by
  refine SafeH.of_hyp h ?_
  unfold prognOnRest
  safe_tac

theorem safe_threadForms {first : Bool} {forms : List Val} : ∀ {x : Val} {H : Prop} {N : Nat},
    (H → max x.bound (valsBound forms) ≤ N) → SafeH H N (threadForms first x forms) bq := by
  induction forms with
  | nil => intro x H N h; refine SafeH.of_hyp h ?_; unfold threadForms; safe_tac
  | cons form more ih =>
    intro x H N h
    refine SafeH.of_hyp h ?_
    unfold threadForms
    safe_tac

end

macro_rules | `(tactic| safe_leaf) => `(tactic| ((with_reducible apply safe_buildBindings); safe_side))
macro_rules | `(tactic| safe_leaf) => `(tactic| ((with_reducible apply safe_prognOnRest); safe_side))
macro_rules | `(tactic| safe_leaf) => `(tactic| ((with_reducible apply safe_threadForms); safe_side))

end Tulisp
