/-
  Proofs/SafeLoad.lean — the invariant of Proofs/Safe.lean for `evalStep`, `mexpStep`, the loader,
  and the knot: every `Rec.ofDepth d` satisfies it.
-/
import Tulisp.Proofs.SafeCallBuiltin
import Tulisp.Props.C08
import Tulisp.Model.Load
namespace Tulisp

macro_rules | `(tactic| safe_leaf) => `(tactic| ((with_reducible apply safe_callBuiltin (by assumption)); safe_side))
macro_rules | `(tactic| safe_leaf) => `(tactic| ((with_reducible apply safe_evalBackquote (by assumption)); safe_side))

section
variable {r : Rec} (hr : SafeRec r)
include hr

theorem safe_evalStep {e : Val} {H : Prop} {N : Nat} (h : H → e.bound ≤ N) :
    SafeH H N (evalStep r e) bq := by
  refine SafeH.of_hyp h ?_
  unfold evalStep
  safe_tac

theorem safe_mexpSpine {v : Val} : ∀ {acc : Acc} {H : Prop} {N : Nat},
    (H → max v.bound (bnd acc) ≤ N) → SafeH H N (mexpSpine r v acc) bq := by
  induction v with
  | cons i a d _ ih =>
    intro acc H N h; refine SafeH.of_hyp h ?_; unfold mexpSpine; safe_tac
  | _ => intro acc H N h; refine SafeH.of_hyp h ?_; unfold mexpSpine; safe_tac

end

macro_rules | `(tactic| safe_leaf) => `(tactic| ((with_reducible apply safe_mexpSpine (by assumption)); safe_side))

/-- the value a macro-call head stands for (the `value` of `mexpStep`) -/
def headValue (c : Ctx) (head : Val) : Val :=
  match head with
  | .sym n =>
    let s := c.symD n
    if s.constant then head else match s.get with | some v => v | none => head
  | other => other

/-- `mexpStep` after the head has been looked up -/
def mexpCore (r : Rec) (inp value args : Val) : M Val := do
  let x ← match value with
    | .builtin b =>
      if b.isMacro then do
        let ex ← callMacro b args
        r.mexp ex
      else pure inp
    | .defmacro _ ps body => do
      let ex ← evalFunction r false ps body args
      r.mexp ex
    | _ => pure inp
  match x with
  | .cons .. => do
    let acc ← mexpSpine r x {}
    acc.build
  | _ => pure x

theorem mexpStep_cons (r : Rec) (i : Nat) (head args : Val) :
    mexpStep r (.cons i head args) =
      (M.get >>= fun c => mexpCore r (.cons i head args) (headValue c head) args) := rfl

theorem headValue_bound {c : Ctx} (hc : Closed c) (head : Val) (hh : head.bound ≤ c.syms.size) :
    (headValue c head).bound ≤ c.syms.size := by
  unfold headValue
  split
  · next n =>
    dsimp only
    split
    · exact hh
    · split
      · next v hg => exact hc.get hg
      · exact hh
  · exact hh

section
variable {r : Rec} (hr : SafeRec r)
include hr

theorem safe_mexpCore {inp value args : Val} {H : Prop} {N : Nat}
    (h : H → max inp.bound (max value.bound args.bound) ≤ N) :
    SafeH H N (mexpCore r inp value args) bq := by
  refine SafeH.of_hyp h ?_
  unfold mexpCore
  safe_tac

theorem safe_mexpStep {e : Val} {H : Prop} {N : Nat} (h : H → e.bound ≤ N) :
    SafeH H N (mexpStep r e) bq := by
  refine SafeH.of_hyp h ?_
  cases e with
  | cons i head args =>
    rw [mexpStep_cons]
    apply SafeH.bind SafeH.get
    intro c N'
    apply safe_mexpCore hr
    rintro ⟨⟨_, hb⟩, hN, _, hc, hs⟩
    have := headValue_bound hc head (by simp only [bound_cons] at hb; omega)
    simp only [bound_cons] at hb ⊢
    omega
  | _ => unfold mexpStep; safe_tac

end

/-! ## the loader -/

section
variable {r : Rec} (hr : SafeRec r)
include hr

theorem safe_intern :
    (∀ (x : Sx) (tab : StrTab), ∀ {H : Prop} {N : Nat}, SafeH H N (internSx r x tab) bq) ∧
    (∀ (xs : List Sx) (tab : StrTab), ∀ {H : Prop} {N : Nat}, SafeH H N (internList r xs tab) bq) := by
  apply internSx.mutual_induct
    (motive_1 := fun x tab => ∀ {H : Prop} {N : Nat}, SafeH H N (internSx r x tab) bq)
    (motive_2 := fun xs tab => ∀ {H : Prop} {N : Nat}, SafeH H N (internList r xs tab) bq)
  case case1 => intro sp n tab H N; unfold internSx; safe_tac
  case case2 => intro sp n tab H N; unfold internSx; safe_tac
  case case3 => intro sp s tab fst i hf H N; unfold internSx; rw [hf]; safe_tac
  case case4 => intro sp s tab hf H N; unfold internSx; rw [hf]; safe_tac
  case case5 => intro sp tab H N; unfold internSx; safe_tac
  case case6 => intro sp tab _ H N; unfold internSx; safe_tac
  case case7 => intro sp name tab h1 h2 H N; unfold internSx; rw [if_neg h1, if_neg h2]; safe_tac
  case case8 => intro sp x tab ih H N; unfold internSx; safe_tac
  case case9 => intro sp x tab ih H N; unfold internSx; safe_tac
  case case10 => intro sp x tab ih H N; unfold internSx; safe_tac
  case case11 => intro sp x tab ih H N; unfold internSx; safe_tac
  case case12 =>
    intro sp items tail tab ih1 ih2 H N
    unfold internSx
    cases tail with
    | none => safe_tac
    | some x =>
      have ih2' : ∀ (tab : StrTab) {H : Prop} {N : Nat}, SafeH H N (internSx r x tab) bq :=
        fun tab => ih2 tab
      safe_tac
  case case13 => intro tab H N; unfold internList; safe_tac
  case case14 => intro x xs tab ih1 ih2 H N; unfold internList; safe_tac

theorem safe_internList {xs : List Sx} {tab : StrTab} {H : Prop} {N : Nat} :
    SafeH H N (internList r xs tab) bq := (safe_intern hr).2 xs tab

theorem safe_loadText {file : Nat} {text : String} {H : Prop} {N : Nat} :
    SafeH H N (loadText r file text) bq := by
  unfold loadText
  dsimp only
  rcases Tulisp.C08.reader_classification file text.toList with ⟨forms, hf⟩ | ⟨e, hf⟩
  · rw [hf]
    dsimp only
    apply SafeH.bind (safe_internList hr)
    intro p N'
    safe_tac
  · rw [hf]
    dsimp only
    apply SafeH.bind (safe_internList hr)
    intro p N'
    safe_tac

theorem safe_loadFile {name : String} {H : Prop} {N : Nat} : SafeH H N (loadFile r name) bq := by
  unfold loadFile
  apply SafeH.bind SafeH.get
  intro c N'
  split
  · safe_tac
  · dsimp only
    refine SafeH.bind (SafeH.modify_frame (fun _ => rfl) (fun _ => rfl) (fun _ => rfl)) ?_
    intro _ N1
    apply SafeH.bind (safe_loadText hr)
    intro prog N2
    safe_tac

end

/-! ## the knot -/

theorem safeRec_ofDepth : ∀ d, SafeRec (Rec.ofDepth d) := by
  intro d
  induction d with
  | zero =>
    exact ⟨fun _ _ _ _ => SafeH.outOfFuel, fun _ _ _ _ => SafeH.outOfFuel, fun _ _ _ => SafeH.outOfFuel⟩
  | succ d ih =>
    exact ⟨fun _ _ _ h => safe_evalStep ih h, fun _ _ _ h => safe_mexpStep ih h,
      fun _ _ _ => safe_loadFile ih⟩

theorem safe_evalString (d : Nat) (text : String) {H : Prop} {N : Nat} :
    SafeH H N (evalString d text) bq := by
  unfold evalString
  have hr := safeRec_ofDepth d
  dsimp only
  apply SafeH.bind (safe_loadText hr)
  intro prog N'
  safe_tac

end Tulisp
