/-
  Proofs/Fresh.lean — freshness of allocation (shared by C05, C07, C11).

  * `ids v`       : all allocation identities occurring in a value (cons cells, strings, lambdas,
                    macros, tables), `maxId v` the largest one (0 if none), `IdsBelow n v`.
  * `spineIds v`  : the identities of the cons cells on the top-level spine of `v`;
                    `SpineFresh n v` (all ≥ n), `SpineIn lo hi v` (all in `[lo, hi)`).
  * `eraseIds v`  : `v` with the identity of every cons cell set to 0 (structure without identity).
  * `OnlyNextId c c'` : `c'` is `c` except for a larger-or-equal `nextId`.
  * exact run equations for `newId`, `mkCons`, `mkListM`, `Acc.build`, `deepCopy`, and what the
    results look like: new spine cells are exactly `c.nextId … c'.nextId - 1`.
-/
import Tulisp.Proofs.C12
namespace Tulisp.Fresh
open Tulisp

/-! ## identities occurring in a value -/

/-- every allocation identity occurring in a value -/
def ids : Val → List Nat
  | .str i _ => [i]
  | .cons i a d => i :: (ids a ++ ids d)
  | .quote v | .backquote v | .unquote v | .splice v => ids v
  | .lambda i _ b | .defmacro i _ b => i :: ids b
  | .table i => [i]
  | _ => []

/-- the largest identity occurring in a value (0 if there is none) -/
def maxId : Val → Nat
  | .str i _ => i
  | .cons i a d => max i (max (maxId a) (maxId d))
  | .quote v | .backquote v | .unquote v | .splice v => maxId v
  | .lambda i _ b | .defmacro i _ b => max i (maxId b)
  | .table i => i
  | _ => 0

/-- every identity in `v` is `< n` -/
def IdsBelow (n : Nat) (v : Val) : Prop := ∀ i ∈ ids v, i < n

theorem le_maxId {v : Val} {i : Nat} (h : i ∈ ids v) : i ≤ maxId v := by
  induction v with
  | cons j a d iha ihd =>
    simp only [ids, List.mem_cons, List.mem_append] at h
    simp only [maxId]
    rcases h with h | h | h
    · omega
    · have := iha h; omega
    · have := ihd h; omega
  | lambda j ps b ih =>
    simp only [ids, List.mem_cons] at h
    simp only [maxId]
    rcases h with h | h
    · omega
    · have := ih h; omega
  | defmacro j ps b ih =>
    simp only [ids, List.mem_cons] at h
    simp only [maxId]
    rcases h with h | h
    · omega
    · have := ih h; omega
  | quote v ih => exact ih h
  | backquote v ih => exact ih h
  | unquote v ih => exact ih h
  | splice v ih => exact ih h
  | str j s => simp only [ids, List.mem_singleton] at h; simp [maxId, h]
  | table j => simp only [ids, List.mem_singleton] at h; simp [maxId, h]
  | _ => simp [ids] at h

theorem idsBelow_succ_maxId (v : Val) : IdsBelow (maxId v + 1) v :=
  fun _ h => Nat.lt_succ_of_le (le_maxId h)

theorem IdsBelow.mono {n m : Nat} {v : Val} (h : IdsBelow n v) (hnm : n ≤ m) : IdsBelow m v :=
  fun i hi => Nat.lt_of_lt_of_le (h i hi) hnm

theorem maxId_eq_zero_of_ids_nil {v : Val} (h : ids v = []) : maxId v = 0 := by
  induction v with
  | quote v ih => exact ih h
  | backquote v ih => exact ih h
  | unquote v ih => exact ih h
  | splice v ih => exact ih h
  | _ => first | rfl | simp [ids] at h

private theorem max_cases (a b : Nat) : max a b = a ∧ b ≤ a ∨ max a b = b ∧ a ≤ b := by omega

/-- the maximum is attained -/
theorem maxId_mem {v : Val} (hne : ids v ≠ []) : maxId v ∈ ids v := by
  induction v with
  | cons j a d iha ihd =>
    simp only [ids, maxId, List.mem_cons, List.mem_append]
    have ha : maxId a = 0 ∨ maxId a ∈ ids a := by
      by_cases h : ids a = []
      · exact Or.inl (maxId_eq_zero_of_ids_nil h)
      · exact Or.inr (iha h)
    have hd : maxId d = 0 ∨ maxId d ∈ ids d := by
      by_cases h : ids d = []
      · exact Or.inl (maxId_eq_zero_of_ids_nil h)
      · exact Or.inr (ihd h)
    rcases max_cases (maxId a) (maxId d) with ⟨e1, l1⟩ | ⟨e1, l1⟩ <;>
    rcases max_cases j (max (maxId a) (maxId d)) with ⟨e2, l2⟩ | ⟨e2, l2⟩
    · exact Or.inl e2
    · rw [e2, e1]
      rcases ha with ha | ha
      · left; omega
      · exact Or.inr (Or.inl ha)
    · exact Or.inl e2
    · rw [e2, e1]
      rcases hd with hd | hd
      · left; omega
      · exact Or.inr (Or.inr hd)
  | lambda j ps b ih =>
    simp only [ids, maxId, List.mem_cons]
    have hb : maxId b = 0 ∨ maxId b ∈ ids b := by
      by_cases h : ids b = []
      · exact Or.inl (maxId_eq_zero_of_ids_nil h)
      · exact Or.inr (ih h)
    rcases max_cases j (maxId b) with ⟨e, l⟩ | ⟨e, l⟩
    · exact Or.inl e
    · rw [e]
      rcases hb with hb | hb
      · left; omega
      · exact Or.inr hb
  | defmacro j ps b ih =>
    simp only [ids, maxId, List.mem_cons]
    have hb : maxId b = 0 ∨ maxId b ∈ ids b := by
      by_cases h : ids b = []
      · exact Or.inl (maxId_eq_zero_of_ids_nil h)
      · exact Or.inr (ih h)
    rcases max_cases j (maxId b) with ⟨e, l⟩ | ⟨e, l⟩
    · exact Or.inl e
    · rw [e]
      rcases hb with hb | hb
      · left; omega
      · exact Or.inr hb
  | quote v ih => exact ih hne
  | backquote v ih => exact ih hne
  | unquote v ih => exact ih hne
  | splice v ih => exact ih hne
  | str j s => simp [ids, maxId]
  | table j => simp [ids, maxId]
  | _ => simp [ids] at hne

theorem idsBelow_iff_maxId {n : Nat} {v : Val} (hne : ids v ≠ []) : IdsBelow n v ↔ maxId v < n :=
  ⟨fun h => h _ (maxId_mem hne), fun h _ hi => Nat.lt_of_le_of_lt (le_maxId hi) h⟩

/-! ## the spine -/

/-- identities of the cons cells along the top-level spine -/
def spineIds : Val → List Nat
  | .cons i _ d => i :: spineIds d
  | _ => []

/-- every cons cell on the top-level spine has identity `≥ n` -/
def SpineFresh (n : Nat) (v : Val) : Prop := ∀ i ∈ spineIds v, n ≤ i

/-- every cons cell on the top-level spine has its identity in `[lo, hi)` -/
def SpineIn (lo hi : Nat) (v : Val) : Prop := ∀ i ∈ spineIds v, lo ≤ i ∧ i < hi

theorem spineIds_cons (i : Nat) (a d : Val) : spineIds (.cons i a d) = i :: spineIds d := rfl

theorem spineIds_of_not_cons {v : Val} (h : v.isCons = false) : spineIds v = [] := by
  cases v <;> first | rfl | simp [Val.isCons] at h

theorem spineIds_length (v : Val) : (spineIds v).length = v.len := by
  induction v with
  | cons i a d _ ih => simp [spineIds, Val.len, ih]
  | _ => rfl

theorem spineIds_subset_ids {v : Val} {i : Nat} (h : i ∈ spineIds v) : i ∈ ids v := by
  induction v with
  | cons j a d _ ihd =>
    simp only [spineIds, List.mem_cons] at h
    simp only [ids, List.mem_cons, List.mem_append]
    rcases h with h | h
    · exact Or.inl h
    · exact Or.inr (Or.inr (ihd h))
  | _ => simp [spineIds] at h

theorem SpineIn.fresh {lo hi : Nat} {v : Val} (h : SpineIn lo hi v) : SpineFresh lo v :=
  fun i hi' => (h i hi').1

theorem SpineFresh.mono {n m : Nat} {v : Val} (h : SpineFresh n v) (hmn : m ≤ n) : SpineFresh m v :=
  fun i hi => Nat.le_trans hmn (h i hi)

theorem SpineIn.mono {lo hi lo' hi' : Nat} {v : Val} (h : SpineIn lo hi v) (h1 : lo' ≤ lo)
    (h2 : hi ≤ hi') : SpineIn lo' hi' v :=
  fun i hi'' => ⟨Nat.le_trans h1 (h i hi'').1, Nat.lt_of_lt_of_le (h i hi'').2 h2⟩

/-- A value all of whose identities are old shares no spine cell with a value whose spine is
    fresh. -/
theorem fresh_disjoint_old {n : Nat} {old new : Val} (ho : IdsBelow n old) (hn : SpineFresh n new) :
    ∀ i ∈ spineIds new, i ∉ ids old := by
  intro i hi hio
  have := ho i hio
  have := hn i hi
  omega

/-- Two values whose spines lie in disjoint intervals share no spine cell. -/
theorem spineIn_disjoint {lo hi lo' hi' : Nat} {v w : Val} (hv : SpineIn lo hi v)
    (hw : SpineIn lo' hi' w) (h : hi ≤ lo') : ∀ i ∈ spineIds v, i ∉ spineIds w := by
  intro i hi1 hi2
  have := hv i hi1
  have := hw i hi2
  omega

/-! ## structure without identity -/

/-- the value with the identity of every cons cell erased (strings, lambdas and tables are atoms
    and keep theirs) -/
def eraseIds : Val → Val
  | .cons _ a d => .cons 0 (eraseIds a) (eraseIds d)
  | .quote v => .quote (eraseIds v)
  | .backquote v => .backquote (eraseIds v)
  | .unquote v => .unquote (eraseIds v)
  | .splice v => .splice (eraseIds v)
  | v => v

/-- a list value with all spine identities 0 -/
def consList (xs : List Val) (tl : Val) : Val := xs.foldr (Val.cons 0) tl

@[simp] theorem consList_nil (tl : Val) : consList [] tl = tl := rfl
@[simp] theorem consList_cons (x : Val) (xs : List Val) (tl : Val) :
    consList (x :: xs) tl = .cons 0 x (consList xs tl) := rfl

theorem consList_append (xs ys : List Val) (tl : Val) :
    consList (xs ++ ys) tl = consList xs (consList ys tl) := by
  simp [consList, List.foldr_append]

theorem eraseIds_idem (v : Val) : eraseIds (eraseIds v) = eraseIds v := by
  induction v <;> simp_all [eraseIds]

theorem eraseIds_consList (xs : List Val) (tl : Val) :
    eraseIds (consList xs tl) = consList (xs.map eraseIds) (eraseIds tl) := by
  induction xs with
  | nil => rfl
  | cons x xs ih => simp [eraseIds, ih]

theorem consList_spine (xs : List Val) {tl : Val} (h : tl.isCons = false) :
    (consList xs tl).spine = (xs, tl) := by
  induction xs with
  | nil => exact C12.spine_of_not_cons h
  | cons x xs ih => simp [C12.spine_cons, ih]

/-- a value is, up to the identities of its spine cells, the list of its elements and tail -/
theorem eraseIds_eq_consList_spine (v : Val) :
    eraseIds v = consList (v.spine.1.map eraseIds) (eraseIds v.spine.2) := by
  induction v with
  | cons i a d _ ihd => simp [eraseIds, C12.spine_cons, ← ihd]
  | _ => rfl

/-! ## `mkList` -/

/-- `mkList n xs tl` uses exactly the identities `n, n+1, …, n + xs.length - 1`, in this order,
    for the new spine cells; then the spine continues into `tl`. -/
theorem spineIds_mkList (n : Nat) (xs : List Val) (tl : Val) :
    spineIds (Val.mkList n xs tl).1 = List.range' n xs.length ++ spineIds tl := by
  induction xs generalizing n with
  | nil => simp [Val.mkList]
  | cons x xs ih => simp [Val.mkList, spineIds, ih, List.range'_succ]

/-- the counter returned by `mkList` -/
theorem mkList_next (n : Nat) (xs : List Val) (tl : Val) :
    (Val.mkList n xs tl).2 = n + xs.length := C12.mkList_next n xs tl

/-- the elements and the tail handed to `mkList` are in the result untouched -/
theorem eraseIds_mkList (n : Nat) (xs : List Val) (tl : Val) :
    eraseIds (Val.mkList n xs tl).1 = consList (xs.map eraseIds) (eraseIds tl) := by
  induction xs generalizing n with
  | nil => simp [Val.mkList]
  | cons x xs ih => simp [Val.mkList, eraseIds, ih]

theorem mkList_spine (n : Nat) (xs : List Val) {tl : Val} (h : tl.isCons = false) :
    (Val.mkList n xs tl).1.spine = (xs, tl) := C12.mkList_spine_atom n xs h

theorem mkList_elems (n : Nat) (xs : List Val) {tl : Val} (h : tl.isCons = false) :
    (Val.mkList n xs tl).1.elems = xs := by
  rw [← C12.spine_fst, mkList_spine n xs h]

theorem mkList_isCons (n : Nat) (xs : List Val) (tl : Val) (h : xs ≠ []) :
    (Val.mkList n xs tl).1.isCons = true := by
  cases xs with
  | nil => exact absurd rfl h
  | cons x xs => rfl

theorem spineIn_mkList (n : Nat) (xs : List Val) {tl : Val} (h : tl.isCons = false) :
    SpineIn n (n + xs.length) (Val.mkList n xs tl).1 := by
  intro i hi
  rw [spineIds_mkList, spineIds_of_not_cons h, List.append_nil, List.mem_range'_1] at hi
  exact hi

/-! ## states that differ only in the allocation counter -/

/-- `c'` is `c` with a larger-or-equal allocation counter; nothing else differs -/
def OnlyNextId (c c' : Ctx) : Prop := c' = { c with nextId := c'.nextId } ∧ c.nextId ≤ c'.nextId

theorem OnlyNextId.refl (c : Ctx) : OnlyNextId c c := ⟨rfl, Nat.le_refl _⟩

theorem OnlyNextId.trans {a b c : Ctx} (h1 : OnlyNextId a b) (h2 : OnlyNextId b c) :
    OnlyNextId a c := by
  obtain ⟨e1, l1⟩ := h1
  obtain ⟨e2, l2⟩ := h2
  refine ⟨?_, Nat.le_trans l1 l2⟩
  rw [e2, e1]

theorem OnlyNextId.syms {c c' : Ctx} (h : OnlyNextId c c') : c'.syms = c.syms := by
  rw [h.1]
theorem OnlyNextId.tables {c c' : Ctx} (h : OnlyNextId c c') : c'.tables = c.tables := by
  rw [h.1]
theorem OnlyNextId.ticks {c c' : Ctx} (h : OnlyNextId c c') : c'.ticks = c.ticks := by
  rw [h.1]
theorem OnlyNextId.obarray {c c' : Ctx} (h : OnlyNextId c c') : c'.obarray = c.obarray := by
  rw [h.1]
theorem OnlyNextId.le {c c' : Ctx} (h : OnlyNextId c c') : c.nextId ≤ c'.nextId := h.2

theorem onlyNextId_set (c : Ctx) (k : Nat) (h : c.nextId ≤ k) : OnlyNextId c { c with nextId := k } :=
  ⟨rfl, h⟩

/-! ## the allocating operations -/

/-- `newId` returns the counter and increments it -/
theorem newId_run (c : Ctx) : newId c = (.ok c.nextId, { c with nextId := c.nextId + 1 }) := rfl

/-- `mkCons` allocates exactly one cell, with the identity `c.nextId` -/
theorem mkCons_run (a d : Val) (c : Ctx) :
    mkCons a d c = (.ok (.cons c.nextId a d), { c with nextId := c.nextId + 1 }) := rfl

theorem mkStr_run (s : String) (c : Ctx) :
    mkStr s c = (.ok (.str c.nextId s), { c with nextId := c.nextId + 1 }) := rfl

theorem mkListM_run (xs : List Val) (tl : Val) (c : Ctx) :
    mkListM xs tl c
      = (.ok (Val.mkList c.nextId xs tl).1, { c with nextId := c.nextId + xs.length }) :=
  C12.mkListM_run xs tl c

theorem Acc.build_run (a : Acc) (c : Ctx) :
    a.build c = (.ok (Val.mkList c.nextId a.rev.reverse a.tail).1,
                 { c with nextId := c.nextId + a.rev.length }) := by
  unfold Acc.build
  rw [mkListM_run, List.length_reverse]

theorem deepCopy_run_cons (i : Nat) (a d : Val) (c : Ctx) :
    deepCopy (.cons i a d) c
      = (.ok (Val.mkList c.nextId (Val.cons i a d).spine.1 (Val.cons i a d).spine.2).1,
         { c with nextId := c.nextId + (Val.cons i a d).len }) := by
  have : deepCopy (.cons i a d) c
      = mkListM (Val.cons i a d).spine.1 (Val.cons i a d).spine.2 c := rfl
  rw [this, mkListM_run, C12.len_eq_length_spine]

theorem deepCopy_run_atom {v : Val} (h : v.isCons = false) (c : Ctx) :
    deepCopy v c = (.ok v, c) := by
  cases v <;> first | rfl | simp [Val.isCons] at h

/-- `deep_copy` in one statement: a copy with the same elements and tail, whose spine cells are
    exactly `c.nextId … c.nextId + len - 1`; only the counter changes. -/
theorem deepCopy_run (v : Val) (c : Ctx) :
    ∃ w, deepCopy v c = (.ok w, { c with nextId := c.nextId + v.len }) ∧ w.spine = v.spine ∧
      spineIds w = List.range' c.nextId v.len ∧ eraseIds w = eraseIds v ∧
      w.isCons = v.isCons := by
  cases hv : v.isCons with
  | false =>
    have hlen : v.len = 0 := by cases v <;> first | rfl | simp [Val.isCons] at hv
    refine ⟨v, ?_, rfl, ?_, rfl, hv⟩
    · rw [deepCopy_run_atom hv, hlen]; rfl
    · rw [spineIds_of_not_cons hv, hlen]; rfl
  | true =>
    cases v with
    | cons i a d =>
      refine ⟨_, deepCopy_run_cons i a d c, C12.mkList_of_spine _ _, ?_, ?_, ?_⟩
      · rw [spineIds_mkList, spineIds_of_not_cons (C12.spine_snd_not_cons _), List.append_nil,
          C12.len_eq_length_spine]
      · rw [eraseIds_mkList, ← eraseIds_eq_consList_spine]
      · exact mkList_isCons _ _ _ (by simp [C12.spine_cons])
    | _ => simp [Val.isCons] at hv

/-! ### summary statements: fresh spine, monotone counter, nothing else touched -/

theorem newId_fresh (c : Ctx) :
    ∃ c', newId c = (.ok c.nextId, c') ∧ c'.nextId = c.nextId + 1 ∧ OnlyNextId c c' :=
  ⟨_, rfl, rfl, onlyNextId_set c _ (Nat.le_succ _)⟩

theorem mkCons_fresh (a d : Val) (c : Ctx) :
    ∃ c', mkCons a d c = (.ok (.cons c.nextId a d), c') ∧ c'.nextId = c.nextId + 1 ∧
      OnlyNextId c c' :=
  ⟨_, rfl, rfl, onlyNextId_set c _ (Nat.le_succ _)⟩

/-- `mkListM`: the new spine cells are `c.nextId … c'.nextId - 1`; elements and tail untouched. -/
theorem mkListM_fresh (xs : List Val) (tl : Val) (c : Ctx) :
    ∃ w c', mkListM xs tl c = (.ok w, c') ∧ OnlyNextId c c' ∧
      c'.nextId = c.nextId + xs.length ∧
      spineIds w = List.range' c.nextId xs.length ++ spineIds tl ∧
      eraseIds w = consList (xs.map eraseIds) (eraseIds tl) ∧
      w.spine = (xs ++ tl.spine.1, tl.spine.2) :=
  ⟨_, _, mkListM_run xs tl c, onlyNextId_set c _ (Nat.le_add_right _ _), rfl,
    spineIds_mkList _ _ _, eraseIds_mkList _ _ _, C12.mkList_spine _ _ _⟩

/-- with a tail that is not a cons the whole spine of the result is fresh -/
theorem mkListM_spineIn (xs : List Val) {tl : Val} (h : tl.isCons = false) (c : Ctx) :
    ∃ w c', mkListM xs tl c = (.ok w, c') ∧ OnlyNextId c c' ∧ SpineIn c.nextId c'.nextId w ∧
      w.spine = (xs, tl) :=
  ⟨_, _, mkListM_run xs tl c, onlyNextId_set c _ (Nat.le_add_right _ _), spineIn_mkList _ _ h,
    C12.mkList_spine_atom _ _ h⟩

theorem Acc.build_fresh (a : Acc) (h : a.tail.isCons = false) (c : Ctx) :
    ∃ w c', a.build c = (.ok w, c') ∧ OnlyNextId c c' ∧ SpineIn c.nextId c'.nextId w ∧
      w.spine = (a.rev.reverse, a.tail) ∧
      eraseIds w = consList (a.rev.reverse.map eraseIds) (eraseIds a.tail) := by
  refine ⟨_, _, Acc.build_run a c, onlyNextId_set c _ (Nat.le_add_right _ _), ?_,
    C12.mkList_spine_atom _ _ h, eraseIds_mkList _ _ _⟩
  have := spineIn_mkList c.nextId a.rev.reverse h
  rwa [List.length_reverse] at this

theorem deepCopy_fresh (v : Val) (c : Ctx) :
    ∃ w c', deepCopy v c = (.ok w, c') ∧ OnlyNextId c c' ∧ SpineIn c.nextId c'.nextId w ∧
      w.spine = v.spine ∧ eraseIds w = eraseIds v := by
  obtain ⟨w, hrun, hsp, hids, her, _⟩ := deepCopy_run v c
  refine ⟨w, _, hrun, onlyNextId_set c _ (Nat.le_add_right _ _), ?_, hsp, her⟩
  intro i hi
  rw [hids, List.mem_range'_1] at hi
  exact hi

/-! ## monad plumbing used by the property files -/

/-- inversion of a successful bind -/
theorem bind_ok_inv {α β} {m : M α} {f : α → M β} {c c' : Ctx} {b : β}
    (h : (m >>= f) c = (.ok b, c')) : ∃ a c1, m c = (.ok a, c1) ∧ f a c1 = (.ok b, c') := by
  change M.bind m f c = _ at h
  unfold M.bind at h
  rcases hm : m c with ⟨r, c1⟩
  rw [hm] at h
  cases r with
  | ok a => exact ⟨a, c1, rfl, h⟩
  | err k => simp at h
  | panic s => simp at h
  | fuel => simp at h

theorem bind_run {α β} (m : M α) (f : α → M β) (c : Ctx) :
    (m >>= f) c = match m c with
      | (.ok a, c') => f a c'
      | (.err k, c') => (.err k, c')
      | (.panic s, c') => (.panic s, c')
      | (.fuel, c') => (.fuel, c') := rfl

theorem pure_run {α} (a : α) (c : Ctx) : (pure a : M α) c = (.ok a, c) := rfl

theorem throw_run {α} (k : ErrKind) (c : Ctx) : (M.throw k : M α) c = (.err k, c) := rfl


/-! ## compositional state properties of monadic programs

  `MonoM m`    : running `m` never decreases the allocation counter (whatever the outcome);
  `KeepSyms m` : running `m` leaves the symbol table exactly as it was (whatever the outcome);
  `IdOnly m`   : running `m` changes nothing but (possibly) increases the allocation counter. -/

def MonoM {α} (m : M α) : Prop := ∀ c, c.nextId ≤ (m c).2.nextId
def KeepSyms {α} (m : M α) : Prop := ∀ c, (m c).2.syms = c.syms
def IdOnly {α} (m : M α) : Prop := ∀ c, OnlyNextId c (m c).2

theorem IdOnly.mono {α} {m : M α} (h : IdOnly m) : MonoM m := fun c => (h c).2
theorem IdOnly.keepSyms {α} {m : M α} (h : IdOnly m) : KeepSyms m := fun c => (h c).syms

theorem bind_snd_cases {α β} (m : M α) (f : α → M β) (c : Ctx) :
    (∃ a c1, m c = (.ok a, c1) ∧ (m >>= f) c = f a c1) ∨
    (∃ (r : Res α), (m c).1 = r ∧ ((m >>= f) c).2 = (m c).2 ∧ ∀ a, r ≠ .ok a) := by
  change (∃ a c1, m c = (.ok a, c1) ∧ M.bind m f c = f a c1) ∨
    (∃ (r : Res α), (m c).1 = r ∧ (M.bind m f c).2 = (m c).2 ∧ ∀ a, r ≠ .ok a)
  unfold M.bind
  rcases hm : m c with ⟨r, c1⟩
  cases r with
  | ok a => exact Or.inl ⟨a, c1, rfl, rfl⟩
  | err k => exact Or.inr ⟨_, rfl, rfl, by simp⟩
  | panic s => exact Or.inr ⟨_, rfl, rfl, by simp⟩
  | fuel => exact Or.inr ⟨_, rfl, rfl, by simp⟩

theorem MonoM.bind {α β} {m : M α} {f : α → M β} (hm : MonoM m) (hf : ∀ a, MonoM (f a)) :
    MonoM (m >>= f) := by
  intro c
  rcases bind_snd_cases m f c with ⟨a, c1, h1, h2⟩ | ⟨r, _, h2, _⟩
  · rw [h2]
    have := hm c; rw [h1] at this
    exact Nat.le_trans this (hf a c1)
  · rw [h2]; exact hm c

theorem KeepSyms.bind {α β} {m : M α} {f : α → M β} (hm : KeepSyms m) (hf : ∀ a, KeepSyms (f a)) :
    KeepSyms (m >>= f) := by
  intro c
  rcases bind_snd_cases m f c with ⟨a, c1, h1, h2⟩ | ⟨r, _, h2, _⟩
  · rw [h2]
    have := hm c; rw [h1] at this
    rw [hf a c1, this]
  · rw [h2]; exact hm c

theorem IdOnly.bind {α β} {m : M α} {f : α → M β} (hm : IdOnly m) (hf : ∀ a, IdOnly (f a)) :
    IdOnly (m >>= f) := by
  intro c
  rcases bind_snd_cases m f c with ⟨a, c1, h1, h2⟩ | ⟨r, _, h2, _⟩
  · rw [h2]
    have := hm c; rw [h1] at this
    exact this.trans (hf a c1)
  · rw [h2]; exact hm c

theorem IdOnly.pure {α} (a : α) : IdOnly (pure a : M α) := fun c => OnlyNextId.refl c
theorem IdOnly.throw {α} (k : ErrKind) : IdOnly (M.throw k : M α) := fun c => OnlyNextId.refl c
theorem MonoM.pure {α} (a : α) : MonoM (pure a : M α) := (IdOnly.pure a).mono
theorem MonoM.throw {α} (k : ErrKind) : MonoM (M.throw k : M α) := (IdOnly.throw k).mono
theorem KeepSyms.pure {α} (a : α) : KeepSyms (pure a : M α) := (IdOnly.pure a).keepSyms
theorem KeepSyms.throw {α} (k : ErrKind) : KeepSyms (M.throw k : M α) := (IdOnly.throw k).keepSyms

theorem IdOnly.liftE {α} (e : E α) : IdOnly (liftE e) := by
  intro c; cases e <;> exact OnlyNextId.refl c
theorem IdOnly.get : IdOnly M.get := fun c => OnlyNextId.refl c

theorem IdOnly.newId : IdOnly newId := fun c => onlyNextId_set c _ (Nat.le_succ _)
theorem IdOnly.mkCons (a d : Val) : IdOnly (mkCons a d) :=
  fun c => onlyNextId_set c _ (Nat.le_succ _)
theorem IdOnly.mkStr (s : String) : IdOnly (mkStr s) :=
  fun c => onlyNextId_set c _ (Nat.le_succ _)
theorem IdOnly.mkListM (xs : List Val) (tl : Val) : IdOnly (mkListM xs tl) := by
  intro c; rw [mkListM_run]; exact onlyNextId_set c _ (Nat.le_add_right _ _)
theorem IdOnly.build (a : Acc) : IdOnly a.build := IdOnly.mkListM _ _
theorem IdOnly.deepCopy (v : Val) : IdOnly (deepCopy v) := by
  intro c
  obtain ⟨w, h, _⟩ := deepCopy_run v c
  rw [h]; exact onlyNextId_set c _ (Nat.le_add_right _ _)

theorem Acc.push_run (a : Acc) (x : Val) (c : Ctx) :
    a.push x c = if a.tail.isNil then (.ok { a with rev := x :: a.rev }, c)
                 else (.err .typeMismatch, c) := by
  unfold Acc.push; split <;> rfl

/-- pushing onto a list that already has an improper tail is an error -/
theorem Acc.push_tail_error (a : Acc) (x : Val) (c : Ctx) (h : a.tail.isNil = false) :
    a.push x c = (.err .typeMismatch, c) := by
  rw [Acc.push_run, h]; rfl

theorem IdOnly.push (a : Acc) (x : Val) : IdOnly (a.push x) := by
  intro c; rw [Acc.push_run]; split <;> exact OnlyNextId.refl c

/-- `append` never touches the state -/
theorem Acc.append_state (a : Acc) (v : Val) (c : Ctx) : (a.append v c).2 = c := by
  unfold Acc.append
  split
  · rfl
  · split
    · rfl
    · rfl
    · split <;> rfl

theorem IdOnly.append (a : Acc) (v : Val) : IdOnly (a.append v) := by
  intro c; rw [Acc.append_state]; exact OnlyNextId.refl c

/-- the tail of an accumulator never becomes a cons -/
theorem Acc.push_tail {a a' : Acc} {x : Val} {c c' : Ctx} (h : a.push x c = (.ok a', c')) :
    a'.tail = .nil ∧ a.tail = .nil ∧ a'.rev = x :: a.rev ∧ c' = c := by
  rw [Acc.push_run] at h
  split at h
  · rename_i ht
    injection h with h1 h2
    injection h1 with h1
    subst h1
    have : a.tail = .nil := by
      cases hh : a.tail <;> simp_all [Val.isNil]
    exact ⟨this, this, rfl, h2.symm⟩
  · injection h with h1; cases h1

theorem Acc.append_tail_notCons {a a' : Acc} {v : Val} {c c' : Ctx}
    (h : a.append v c = (.ok a', c')) : a'.tail.isCons = false ∧ a.tail = .nil ∧ c' = c := by
  unfold Acc.append at h
  split at h
  · injection h with h1; cases h1
  · rename_i ht
    have htl : a.tail = .nil := by
      cases hh : a.tail <;> simp_all [Val.isNil]
    split at h
    · injection h with h1 h2; injection h1 with h1; subst h1
      exact ⟨by rw [htl]; rfl, htl, h2.symm⟩
    · injection h with h1 h2; injection h1 with h1; subst h1
      exact ⟨C12.spine_snd_not_cons _, htl, h2.symm⟩
    · rename_i atom hn hc
      split at h
      · injection h with h1 h2; injection h1 with h1; subst h1
        exact ⟨by show a.tail.isCons = false; rw [htl]; rfl, htl, h2.symm⟩
      · injection h with h1 h2; injection h1 with h1; subst h1
        refine ⟨?_, htl, h2.symm⟩
        show v.isCons = false
        cases v <;> first | rfl | simp_all

end Tulisp.Fresh
