/-
  Proofs/C05.lean — helper definitions and lemmas for property C05 (closures capture the
  lexically bound variables of their body in private cells).

  1. frame lemmas for the symbol table (`modSym`, `newSym`, `setV`, `getSym`)
  2. `WF` (cells are younger than the symbol they stand for), stability of `symRoot` / `symEq`
     when the table grows, `symEq` is an equivalence
  3. `captureSymbol` by cases
  4. the invariant `Inv` of a capture run and the relation `CapRel` between a body and its
     captured version; the main induction `capture_aux`
-/
import Tulisp.Proofs.Fresh
import Tulisp.Model.Load
set_option linter.constructorNameAsVariable false
namespace Tulisp.C05
open Tulisp Tulisp.Fresh

/-! ## 1. the symbol table -/

theorem symD_def (c : Ctx) (n : Nat) : c.symD n = (c.syms[n]?).getD { name := "?" } := by
  simp [Ctx.symD]

theorem symD_of_ge {c : Ctx} {n : Nat} (h : c.syms.size ≤ n) : c.symD n = { name := "?" } := by
  rw [symD_def, Array.getElem?_eq_none h]; rfl

/-- frame lemma: modifying the entry of `n` leaves every other entry alone -/
theorem symD_modSym_ne (c : Ctx) (n m : Nat) (f : SymSt → SymSt) (h : m ≠ n) :
    (c.modSym n f).symD m = c.symD m := by
  simp only [symD_def, Ctx.modSym, Array.getElem?_modify]
  rw [if_neg (Ne.symm h)]

theorem symD_modSym_self (c : Ctx) (n : Nat) (f : SymSt → SymSt) (h : n < c.syms.size) :
    (c.modSym n f).symD n = f (c.symD n) := by
  simp only [symD_def, Ctx.modSym, Array.getElem?_modify, if_true]
  rw [Array.getElem?_eq_getElem h]; rfl

theorem size_modSym (c : Ctx) (n : Nat) (f : SymSt → SymSt) :
    (c.modSym n f).syms.size = c.syms.size := by
  simp [Ctx.modSym]

theorem symD_push_old (c : Ctx) (s : SymSt) (n : Nat) (h : n < c.syms.size) :
    ({ c with syms := c.syms.push s } : Ctx).symD n = c.symD n := by
  simp only [symD_def, Array.getElem?_push]
  rw [if_neg (Nat.ne_of_lt h)]

theorem symD_push_new (c : Ctx) (s : SymSt) :
    ({ c with syms := c.syms.push s } : Ctx).symD c.syms.size = s := by
  simp only [symD_def, Array.getElem?_push, if_true]; rfl

/-- creating a new entry leaves the old ones alone -/
theorem symD_newSym_old (c : Ctx) (s : SymSt) (n : Nat) (h : n < c.syms.size) :
    (c.newSym s).2.symD n = c.symD n := symD_push_old c s n h

theorem symD_newSym_new (c : Ctx) (s : SymSt) : (c.newSym s).2.symD (c.newSym s).1 = s :=
  symD_push_new c s

theorem newSym_fst (c : Ctx) (s : SymSt) : (c.newSym s).1 = c.syms.size := rfl

/-! ### assignment and lookup -/

theorem setV_run (n : Nat) (v : Val) (c : Ctx) (h : (c.symD n).constant = false) :
    setV (.sym n) v c = (.ok (), c.modSym n (·.set v)) := by
  show (notConstant n >>= fun _ => M.modify (·.modSym n (·.set v))) c = _
  have : notConstant n c = (.ok (), c) := by simp [notConstant, h]
  rw [C12.bind_ok _ this]; rfl

theorem getSym_run (n : Nat) (c : Ctx) (v : Val) (h : (c.symD n).constant = false)
    (hv : (c.symD n).get = some v) : getSym n c = (.ok v, c) := by
  simp [getSym, h, hv]

theorem SymSt.get_set (s : SymSt) (v : Val) : (s.set v).get = some v := by
  unfold SymSt.set SymSt.get
  split <;> rfl

theorem SymSt.constant_set (s : SymSt) (v : Val) : (s.set v).constant = s.constant := by
  unfold SymSt.set
  split <;> rfl

theorem SymSt.base_set (s : SymSt) (v : Val) : (s.set v).base = s.base := by
  unfold SymSt.set
  split <;> rfl

/-! ## 2. roots -/

/-- a cell is younger than (has a larger index than) the symbol it stands for -/
def WF (c : Ctx) : Prop := ∀ n b, (c.symD n).base = some b → b < n

/-- the table `c'` agrees with `c` on the entries `≤ a`, where `c` is well-formed: the root of `a`
    is the same in both, whatever (sufficient) fuel is used -/
theorem symRootAux_stable (c c' : Ctx) (hwf : WF c) :
    ∀ (a f f' : Nat), a < f → a < f' → (∀ n, n ≤ a → c'.symD n = c.symD n) →
      symRootAux c' f' a = symRootAux c f a := by
  intro a
  induction a using Nat.strongRecOn with
  | ind a ih =>
    intro f f' hf hf' hag
    obtain ⟨f, rfl⟩ : ∃ k, f = k + 1 := ⟨f - 1, by omega⟩
    obtain ⟨f', rfl⟩ : ∃ k, f' = k + 1 := ⟨f' - 1, by omega⟩
    simp only [symRootAux]
    rw [hag a (Nat.le_refl a)]
    cases hb : (c.symD a).base with
    | none => rfl
    | some b =>
      have hlt := hwf a b hb
      exact ih b hlt f f' (by omega) (by omega) (fun n hn => hag n (by omega))

theorem symRoot_of_ge {c : Ctx} {n : Nat} (h : c.syms.size ≤ n) : symRoot c n = n := by
  unfold symRoot
  cases hs : c.syms.size with
  | zero => rfl
  | succ k =>
    simp only [symRootAux]
    rw [symD_of_ge h]

/-- old entries keep their root when the table grows -/
theorem symRoot_stable {c c' : Ctx} (hwf : WF c) (hsize : c.syms.size ≤ c'.syms.size)
    (hold : ∀ n, n < c.syms.size → c'.symD n = c.symD n) {a : Nat} (ha : a < c.syms.size) :
    symRoot c' a = symRoot c a :=
  symRootAux_stable c c' hwf a _ _ ha (by omega) (fun n hn => hold n (by omega))

theorem symEq_stable {c c' : Ctx} (hwf : WF c) (hsize : c.syms.size ≤ c'.syms.size)
    (hold : ∀ n, n < c.syms.size → c'.symD n = c.symD n) {a b : Nat} (ha : a < c.syms.size)
    (hb : b < c.syms.size) : symEq c' a b = symEq c a b := by
  unfold symEq
  rw [symRoot_stable hwf hsize hold ha, symRoot_stable hwf hsize hold hb]

theorem symEq_iff (c : Ctx) (a b : Nat) : symEq c a b = true ↔ symRoot c a = symRoot c b := by
  unfold symEq
  simp only [Bool.or_eq_true, beq_iff_eq]
  constructor
  · rintro (h | h)
    · rw [h]
    · exact h
  · exact Or.inr

theorem symEq_refl (c : Ctx) (a : Nat) : symEq c a a = true := (symEq_iff c a a).2 rfl
theorem symEq_symm {c : Ctx} {a b : Nat} (h : symEq c a b = true) : symEq c b a = true :=
  (symEq_iff c b a).2 ((symEq_iff c a b).1 h).symm
theorem symEq_trans {c : Ctx} {a b d : Nat} (h1 : symEq c a b = true) (h2 : symEq c b d = true) :
    symEq c a d = true :=
  (symEq_iff c a d).2 (((symEq_iff c a b).1 h1).trans ((symEq_iff c b d).1 h2))
theorem symEq_comm (c : Ctx) (a b : Nat) : symEq c a b = symEq c b a := by
  rw [Bool.eq_iff_iff, symEq_iff, symEq_iff]; exact eq_comm

/-- a cell is `eq` to the (root) symbol it stands for -/
theorem symEq_cell_root (c : Ctx) (cell n : Nat) (hcell : (c.symD cell).base = some n)
    (hroot : (c.symD n).base = none) (hlt : cell < c.syms.size) : symEq c cell n = true := by
  rw [symEq_iff]
  have hn : ∀ f, symRootAux c f n = n := by
    intro f
    cases f with
    | zero => rfl
    | succ k => simp only [symRootAux]; rw [hroot]
  unfold symRoot
  obtain ⟨k, hk⟩ : ∃ k, c.syms.size = k + 1 := ⟨c.syms.size - 1, by omega⟩
  rw [hk]
  conv => lhs; simp only [symRootAux]
  rw [hcell]
  simp only
  rw [hn k, hn (k + 1)]

/-! ## 3. `captureSymbol` by cases -/

/-- a symbol that `lambda` captures when it occurs in a body: it has a local binding, or it is
    itself already a cell -/
def capturable (c : Ctx) (n : Nat) : Bool := (c.symD n).base.isSome || (c.symD n).lexBound

/-- the symbol is (`eq` to) one of the parameters -/
def excluded (c : Ctx) (excl : List Nat) (n : Nat) : Bool := excl.any (fun p => symEq c p n)

/-- the closure cell created for the symbol `n` whose current value is `v` -/
def cellFor (c : Ctx) (n : Nat) (v : Val) : SymSt :=
  { name := (c.symD n).name, hasGlobal := true, items := [v], base := some n }

theorem not_capturable_of_ge {c : Ctx} {n : Nat} (h : c.syms.size ≤ n) : capturable c n = false := by
  unfold capturable
  rw [symD_of_ge h]; rfl

theorem captureSymbol_skip (excl : List Nat) (n : Nat) (cap : Captured) (c : Ctx)
    (h : capturable c n = false ∨ excluded c excl n = true) :
    captureSymbol excl n cap c = (.ok (.sym n, cap), c) := by
  unfold captureSymbol
  simp only
  by_cases h1 : capturable c n = false
  · unfold capturable at h1
    rw [if_pos (by rw [h1]; rfl)]
  · have h1' : capturable c n = true := by simpa using h1
    unfold capturable at h1'
    rw [if_neg (by rw [h1']; decide)]
    have h2 : excluded c excl n = true := by
      rcases h with h | h
      · exact absurd h h1
      · exact h
    unfold excluded at h2
    rw [if_pos h2]

theorem captureSymbol_found (excl : List Nat) (n : Nat) (cap : Captured) (c : Ctx)
    (h1 : capturable c n = true) (h2 : excluded c excl n = false) (p : Nat × Nat)
    (h3 : cap.find? (fun (fromSym, _) => symEq c n fromSym) = some p) :
    captureSymbol excl n cap c = (.ok (.sym p.2, cap), c) := by
  unfold captureSymbol
  simp only
  unfold capturable at h1
  unfold excluded at h2
  rw [if_neg (by rw [h1]; decide), if_neg (by rw [h2]; decide), h3]

theorem captureSymbol_new (excl : List Nat) (n : Nat) (cap : Captured) (c : Ctx)
    (h1 : capturable c n = true) (h2 : excluded c excl n = false)
    (h3 : cap.find? (fun (fromSym, _) => symEq c n fromSym) = none) (v : Val)
    (h4 : (c.symD n).get = some v) :
    captureSymbol excl n cap c = (.ok (.sym c.syms.size, (n, c.syms.size) :: cap),
      { c with syms := c.syms.push (cellFor c n v) }) := by
  unfold captureSymbol
  simp only
  unfold capturable at h1
  unfold excluded at h2
  rw [if_neg (by rw [h1]; decide), if_neg (by rw [h2]; decide), h3]
  simp only [h4]
  rfl

theorem captureSymbol_unbound (excl : List Nat) (n : Nat) (cap : Captured) (c : Ctx)
    (h1 : capturable c n = true) (h2 : excluded c excl n = false)
    (h3 : cap.find? (fun (fromSym, _) => symEq c n fromSym) = none)
    (h4 : (c.symD n).get = none) :
    captureSymbol excl n cap c = (.err .typeMismatch, c) := by
  unfold captureSymbol
  simp only
  unfold capturable at h1
  unfold excluded at h2
  rw [if_neg (by rw [h1]; decide), if_neg (by rw [h2]; decide), h3]
  simp only [h4]

/-! ## 4. unfolding equations of `captureVars` / `captureRest` -/

theorem captureVars_sym (excl : List Nat) (n : Nat) (cap : Captured) :
    captureVars excl (.sym n) cap = captureSymbol excl n cap := by rw [captureVars]

theorem captureVars_cons (excl : List Nat) (i : Nat) (a d : Val) (cap : Captured) :
    captureVars excl (.cons i a d) cap = (do
      let (x, cap) ← captureVars excl a cap
      let (acc, cap) ← captureRest excl d { rev := [x] } cap
      let v ← acc.build
      pure (v, cap)) := by rw [captureVars]

theorem captureVars_quote (excl : List Nat) (v : Val) (cap : Captured) :
    captureVars excl (.quote v) cap = (do
      let (x, cap) ← captureVars excl v cap; pure (.quote x, cap)) := by rw [captureVars]
theorem captureVars_backquote (excl : List Nat) (v : Val) (cap : Captured) :
    captureVars excl (.backquote v) cap = (do
      let (x, cap) ← captureVars excl v cap; pure (.backquote x, cap)) := by rw [captureVars]
theorem captureVars_unquote (excl : List Nat) (v : Val) (cap : Captured) :
    captureVars excl (.unquote v) cap = (do
      let (x, cap) ← captureVars excl v cap; pure (.unquote x, cap)) := by rw [captureVars]
theorem captureVars_splice (excl : List Nat) (v : Val) (cap : Captured) :
    captureVars excl (.splice v) cap = (do
      let (x, cap) ← captureVars excl v cap; pure (.splice x, cap)) := by rw [captureVars]

/-- nil, t, numbers, strings, functions, tables: the values `capture` neither enters nor changes -/
def plain : Val → Bool
  | .nil | .t | .int _ | .float _ | .str .. | .lambda .. | .defmacro .. | .builtin _ | .table _
  | .bounce => true
  | _ => false

theorem captureVars_plain (excl : List Nat) (v : Val) (h : plain v = true) (cap : Captured) :
    captureVars excl v cap = pure (v, cap) := by
  cases v <;> first | (simp only [captureVars]; done) | (simp [plain] at h; done)

theorem captureRest_nil (excl : List Nat) (acc : Acc) (cap : Captured) :
    captureRest excl .nil acc cap = pure (acc, cap) := by rw [captureRest]

theorem captureRest_cons (excl : List Nat) (i : Nat) (a d : Val) (acc : Acc) (cap : Captured) :
    captureRest excl (.cons i a d) acc cap = (do
      let (x, cap) ← captureVars excl a cap
      let acc ← acc.push x
      captureRest excl d acc cap) := by rw [captureRest]

theorem captureRest_sym (excl : List Nat) (n : Nat) (acc : Acc) (cap : Captured) :
    captureRest excl (.sym n) acc cap = (do
      let (x, cap) ← captureSymbol excl n cap
      let acc ← acc.append x
      pure (acc, cap)) := by rw [captureRest]

theorem captureRest_quote (excl : List Nat) (v : Val) (acc : Acc) (cap : Captured) :
    captureRest excl (.quote v) acc cap = (do
      let (x, cap) ← captureVars excl v cap
      let acc ← acc.append (.quote x)
      pure (acc, cap)) := by rw [captureRest]
theorem captureRest_backquote (excl : List Nat) (v : Val) (acc : Acc) (cap : Captured) :
    captureRest excl (.backquote v) acc cap = (do
      let (x, cap) ← captureVars excl v cap
      let acc ← acc.append (.backquote x)
      pure (acc, cap)) := by rw [captureRest]
theorem captureRest_unquote (excl : List Nat) (v : Val) (acc : Acc) (cap : Captured) :
    captureRest excl (.unquote v) acc cap = (do
      let (x, cap) ← captureVars excl v cap
      let acc ← acc.append (.unquote x)
      pure (acc, cap)) := by rw [captureRest]
theorem captureRest_splice (excl : List Nat) (v : Val) (acc : Acc) (cap : Captured) :
    captureRest excl (.splice v) acc cap = (do
      let (x, cap) ← captureVars excl v cap
      let acc ← acc.append (.splice x)
      pure (acc, cap)) := by rw [captureRest]

theorem captureRest_plain (excl : List Nat) (v : Val) (h : plain v = true) (hn : v ≠ .nil)
    (acc : Acc) (cap : Captured) :
    captureRest excl v acc cap = (do let acc ← acc.append v; pure (acc, cap)) := by
  cases v <;> first
    | (simp only [captureRest]; done)
    | (simp [plain] at h; done)
    | exact absurd rfl hn

/-! ## 5. the relation between a body and its captured version -/

/-- `w` is `v` with every symbol occurrence `n` replaced by some `m` with `P n m`, up to the
    identities of cons cells; everything that is not a symbol, a cons or a quote-like wrapper is
    unchanged -/
def CapRel (P : Nat → Nat → Prop) : Val → Val → Prop
  | .sym n, w => ∃ m, w = .sym m ∧ P n m
  | .cons _ a d, w => ∃ j a' d', w = .cons j a' d' ∧ CapRel P a a' ∧ CapRel P d d'
  | .quote a, w => ∃ a', w = .quote a' ∧ CapRel P a a'
  | .backquote a, w => ∃ a', w = .backquote a' ∧ CapRel P a a'
  | .unquote a, w => ∃ a', w = .unquote a' ∧ CapRel P a a'
  | .splice a, w => ∃ a', w = .splice a' ∧ CapRel P a a'
  | v, w => w = v

/-- the same for the rest of a spine, against the list of elements and the tail built so far -/
def RestRel (P : Nat → Nat → Prop) : Val → List Val → Val → Prop
  | .cons _ a d, xs, tl => ∃ x xs', xs = x :: xs' ∧ CapRel P a x ∧ RestRel P d xs' tl
  | d, xs, tl => xs = [] ∧ CapRel P d tl

theorem CapRel.plain {P : Nat → Nat → Prop} {v w : Val} (h : plain v = true) :
    CapRel P v w ↔ w = v := by
  cases v <;> first | (simp only [CapRel]; done) | (simp [C05.plain] at h; done)

theorem CapRel.mono {P P' : Nat → Nat → Prop} (hpp : ∀ n m, P n m → P' n m) {v w : Val}
    (h : CapRel P v w) : CapRel P' v w := by
  induction v generalizing w with
  | sym n =>
    simp only [CapRel] at h ⊢
    obtain ⟨m, hw, hp⟩ := h
    exact ⟨m, hw, hpp n m hp⟩
  | cons i a d iha ihd =>
    simp only [CapRel] at h ⊢
    obtain ⟨j, a', d', hw, h1, h2⟩ := h
    exact ⟨j, a', d', hw, iha h1, ihd h2⟩
  | quote v ih =>
    simp only [CapRel] at h ⊢
    obtain ⟨a', hw, h1⟩ := h
    exact ⟨a', hw, ih h1⟩
  | backquote v ih =>
    simp only [CapRel] at h ⊢
    obtain ⟨a', hw, h1⟩ := h
    exact ⟨a', hw, ih h1⟩
  | unquote v ih =>
    simp only [CapRel] at h ⊢
    obtain ⟨a', hw, h1⟩ := h
    exact ⟨a', hw, ih h1⟩
  | splice v ih =>
    simp only [CapRel] at h ⊢
    obtain ⟨a', hw, h1⟩ := h
    exact ⟨a', hw, ih h1⟩
  | _ => simpa only [CapRel] using h

theorem RestRel.mono {P P' : Nat → Nat → Prop} (hpp : ∀ n m, P n m → P' n m) {d : Val}
    {xs : List Val} {tl : Val} (h : RestRel P d xs tl) : RestRel P' d xs tl := by
  induction d generalizing xs with
  | cons i a d _ ihd =>
    simp only [RestRel] at h ⊢
    obtain ⟨x, xs', hx, h1, h2⟩ := h
    exact ⟨x, xs', hx, h1.mono hpp, ihd h2⟩
  | _ =>
    simp only [RestRel] at h ⊢
    exact ⟨h.1, h.2.mono hpp⟩

/-- building the list from the collected elements and tail gives a related value -/
theorem RestRel.mkList {P : Nat → Nat → Prop} {d : Val} {xs : List Val} {tl : Val}
    (h : RestRel P d xs tl) (n : Nat) : CapRel P d (Val.mkList n xs tl).1 := by
  induction d generalizing xs n with
  | cons i a d _ ihd =>
    simp only [RestRel] at h
    obtain ⟨x, xs', hx, h1, h2⟩ := h
    subst hx
    simp only [CapRel, Val.mkList]
    exact ⟨n, x, _, rfl, h1, ihd h2 (n + 1)⟩
  | _ =>
    simp only [RestRel] at h
    obtain ⟨hx, h1⟩ := h
    subst hx
    exact h1

/-- every symbol index in the value is a valid index (`< k`) -/
def SymsBelow (k : Nat) : Val → Prop
  | .sym n => n < k
  | .cons _ a d => SymsBelow k a ∧ SymsBelow k d
  | .quote v | .backquote v | .unquote v | .splice v => SymsBelow k v
  | _ => True

/-- where `capture` sends the symbol `n`: a capturable symbol that is not a parameter goes to a
    cell recorded (for a symbol `eq` to it) in `cap`; every other symbol stays -/
def SymMap (c0 : Ctx) (excl : List Nat) (cap : Captured) (n m : Nat) : Prop :=
  if capturable c0 n = true ∧ excluded c0 excl n = false then
    ∃ f, (f, m) ∈ cap ∧ symEq c0 n f = true
  else m = n

theorem SymMap.mono {c0 : Ctx} {excl : List Nat} {cap cap' : Captured}
    (hsub : ∀ p, p ∈ cap → p ∈ cap') {n m : Nat} (h : SymMap c0 excl cap n m) :
    SymMap c0 excl cap' n m := by
  unfold SymMap at h ⊢
  split
  · rename_i hc
    rw [if_pos hc] at h
    obtain ⟨f, hf, he⟩ := h
    exact ⟨f, hsub _ hf, he⟩
  · rename_i hc
    rw [if_neg hc] at h
    exact h

/-- the symbol occurrences of a value, in the positions `capture` visits -/
def symOccs : Val → List Nat
  | .sym n => [n]
  | .cons _ a d => symOccs a ++ symOccs d
  | .quote v | .backquote v | .unquote v | .splice v => symOccs v
  | _ => []

theorem symOccs_plain {v : Val} (h : plain v = true) : symOccs v = [] := by
  cases v <;> first | rfl | (simp [plain] at h; done)

/-- `cap'` extends `cap` at the front by entries for symbols from `S` -/
def Sfx (S : List Nat) (cap cap' : Captured) : Prop :=
  ∃ new, cap' = new ++ cap ∧ ∀ p ∈ new, p.1 ∈ S

theorem Sfx.refl (S : List Nat) (cap : Captured) : Sfx S cap cap :=
  ⟨[], rfl, fun _ h => by simp at h⟩

theorem Sfx.mem {S : List Nat} {cap cap' : Captured} (h : Sfx S cap cap') :
    ∀ p, p ∈ cap → p ∈ cap' := by
  obtain ⟨new, rfl, _⟩ := h
  intro p hp
  exact List.mem_append_right _ hp

theorem Sfx.trans {S1 S2 S : List Nat} {cap cap1 cap2 : Captured} (h1 : Sfx S1 cap cap1)
    (h2 : Sfx S2 cap1 cap2) (hs1 : ∀ n ∈ S1, n ∈ S) (hs2 : ∀ n ∈ S2, n ∈ S) : Sfx S cap cap2 := by
  obtain ⟨n1, rfl, m1⟩ := h1
  obtain ⟨n2, rfl, m2⟩ := h2
  refine ⟨n2 ++ n1, by simp, fun p hp => ?_⟩
  rcases List.mem_append.1 hp with hp | hp
  · exact hs2 _ (m2 p hp)
  · exact hs1 _ (m1 p hp)

theorem Sfx.weaken {S S' : List Nat} {cap cap' : Captured} (h : Sfx S cap cap')
    (hs : ∀ n ∈ S, n ∈ S') : Sfx S' cap cap' := by
  obtain ⟨new, e, m⟩ := h
  exact ⟨new, e, fun p hp => hs _ (m p hp)⟩

/-! ## 6. the invariant of a capture run that started in `c0` with nothing captured -/

structure Inv (c0 : Ctx) (excl : List Nat) (c : Ctx) (cap : Captured) : Prop where
  size : c0.syms.size ≤ c.syms.size
  /-- the entries that existed at the start are untouched -/
  old : ∀ n, n < c0.syms.size → c.symD n = c0.symD n
  obarray : c.obarray = c0.obarray
  tables : c.tables = c0.tables
  ticks : c.ticks = c0.ticks
  tickCount : c.tickCount = c0.tickCount
  failAt : c.failAt = c0.failAt
  files : c.files = c0.files
  nfiles : c.nfiles = c0.nfiles
  nextId : c0.nextId ≤ c.nextId
  /-- every new entry is the cell of an old, capturable, non-parameter symbol, initialised with
      that symbol's value, and recorded in `cap` -/
  cells : ∀ k, c0.syms.size ≤ k → k < c.syms.size → ∃ n v, n < c0.syms.size ∧
    (c0.symD n).get = some v ∧ capturable c0 n = true ∧ excluded c0 excl n = false ∧
    c.symD k = cellFor c0 n v ∧ (n, k) ∈ cap
  /-- everything recorded in `cap` is such a new cell -/
  capd : ∀ p, p ∈ cap → p.1 < c0.syms.size ∧ c0.syms.size ≤ p.2 ∧ p.2 < c.syms.size ∧
    (c.symD p.2).base = some p.1
  /-- one cell per symbol (up to `eq`) -/
  distinct : cap.Pairwise (fun p q => symEq c0 p.1 q.1 = false)

theorem Inv.init (c0 : Ctx) (excl : List Nat) : Inv c0 excl c0 [] where
  size := Nat.le_refl _
  old := fun _ _ => rfl
  obarray := rfl
  tables := rfl
  ticks := rfl
  tickCount := rfl
  failAt := rfl
  files := rfl
  nfiles := rfl
  nextId := Nat.le_refl _
  cells := fun k h1 h2 => absurd h2 (by omega)
  capd := fun p hp => by simp at hp
  distinct := List.Pairwise.nil

theorem Inv.alloc {c0 : Ctx} {excl : List Nat} {c c' : Ctx} {cap : Captured}
    (h : Inv c0 excl c cap) (ho : OnlyNextId c c') : Inv c0 excl c' cap := by
  have hs : c'.syms = c.syms := ho.syms
  have hd : ∀ n, c'.symD n = c.symD n := fun n => by simp [Ctx.symD, hs]
  have e := ho.1
  exact {
    size := by rw [hs]; exact h.size
    old := fun n hn => by rw [hd]; exact h.old n hn
    obarray := by rw [e]; exact h.obarray
    tables := by rw [e]; exact h.tables
    ticks := by rw [e]; exact h.ticks
    tickCount := by rw [e]; exact h.tickCount
    failAt := by rw [e]; exact h.failAt
    files := by rw [e]; exact h.files
    nfiles := by rw [e]; exact h.nfiles
    nextId := Nat.le_trans h.nextId ho.2
    cells := fun k h1 h2 => by
      rw [hs] at h2
      obtain ⟨n, v, a1, a2, a3, a4, a5, a6⟩ := h.cells k h1 h2
      exact ⟨n, v, a1, a2, a3, a4, by rw [hd]; exact a5, a6⟩
    capd := fun p hp => by
      obtain ⟨a1, a2, a3, a4⟩ := h.capd p hp
      exact ⟨a1, a2, by rw [hs]; exact a3, by rw [hd]; exact a4⟩
    distinct := h.distinct }

theorem Inv.capturable_eq {c0 : Ctx} {excl : List Nat} {c : Ctx} {cap : Captured}
    (h : Inv c0 excl c cap) {n : Nat} (hn : n < c0.syms.size) :
    capturable c n = capturable c0 n := by
  unfold capturable; rw [h.old n hn]

theorem Inv.symEq_eq {c0 : Ctx} {excl : List Nat} {c : Ctx} {cap : Captured}
    (h : Inv c0 excl c cap) (hwf : WF c0) {a b : Nat} (ha : a < c0.syms.size)
    (hb : b < c0.syms.size) : symEq c a b = symEq c0 a b :=
  symEq_stable hwf h.size h.old ha hb

theorem Inv.excluded_eq {c0 : Ctx} {excl : List Nat} {c : Ctx} {cap : Captured}
    (h : Inv c0 excl c cap) (hwf : WF c0) (hexcl : ∀ p ∈ excl, p < c0.syms.size) {n : Nat}
    (hn : n < c0.syms.size) : excluded c excl n = excluded c0 excl n := by
  unfold excluded
  rw [Bool.eq_iff_iff, List.any_eq_true, List.any_eq_true]
  constructor
  · rintro ⟨p, hp, he⟩
    exact ⟨p, hp, by rw [← h.symEq_eq hwf (hexcl p hp) hn]; exact he⟩
  · rintro ⟨p, hp, he⟩
    exact ⟨p, hp, by rw [h.symEq_eq hwf (hexcl p hp) hn]; exact he⟩

/-- one symbol occurrence -/
theorem captureSymbol_inv {c0 : Ctx} {excl : List Nat} (hwf : WF c0)
    (hexcl : ∀ p ∈ excl, p < c0.syms.size) {n : Nat} (hn : n < c0.syms.size)
    {c : Ctx} {cap : Captured} (inv : Inv c0 excl c cap) {x : Val} {cap' : Captured} {c' : Ctx}
    (hrun : captureSymbol excl n cap c = (.ok (x, cap'), c')) :
    Inv c0 excl c' cap' ∧ Sfx [n] cap cap' ∧ c'.nextId = c.nextId ∧
      ∃ m, x = .sym m ∧ SymMap c0 excl cap' n m := by
  have hcap := inv.capturable_eq hn
  have hexc := inv.excluded_eq hwf hexcl hn
  by_cases hskip : capturable c0 n = true ∧ excluded c0 excl n = false
  · obtain ⟨h1, h2⟩ := hskip
    cases hfind : cap.find? (fun (fromSym, _) => symEq c n fromSym) with
    | some p =>
      rw [captureSymbol_found excl n cap c (hcap ▸ h1) (hexc ▸ h2) p hfind] at hrun
      injection hrun with hr hc
      injection hr with hr
      injection hr with hx hcap'
      subst hx; subst hcap'; subst hc
      refine ⟨inv, Sfx.refl _ _, rfl, p.2, rfl, ?_⟩
      have hmem := List.mem_of_find?_eq_some hfind
      have hp := List.find?_some hfind
      have hp' : symEq c n p.1 = true := hp
      rw [inv.symEq_eq hwf hn (inv.capd p hmem).1] at hp'
      unfold SymMap
      rw [if_pos ⟨h1, h2⟩]
      exact ⟨p.1, hmem, hp'⟩
    | none =>
      cases hget : (c.symD n).get with
      | none =>
        rw [captureSymbol_unbound excl n cap c (hcap ▸ h1) (hexc ▸ h2) hfind hget] at hrun
        injection hrun with hr _
        cases hr
      | some v =>
        rw [captureSymbol_new excl n cap c (hcap ▸ h1) (hexc ▸ h2) hfind v hget] at hrun
        injection hrun with hr hc
        injection hr with hr
        injection hr with hx hcap'
        subst hx; subst hcap'; subst hc
        have hnone : ∀ q ∈ cap, symEq c0 n q.1 = false := by
          intro q hq
          have := (List.find?_eq_none.1 hfind) q hq
          have h' : ¬ symEq c n q.1 = true := this
          rw [inv.symEq_eq hwf hn (inv.capd q hq).1] at h'
          simpa using h'
        have hcell : cellFor c n v = cellFor c0 n v := by
          unfold cellFor; rw [inv.old n hn]
        have hget0 : (c0.symD n).get = some v := by rw [← inv.old n hn]; exact hget
        have hnc : n < c.syms.size := Nat.lt_of_lt_of_le hn inv.size
        refine ⟨?_, ⟨[(n, c.syms.size)], rfl, fun p hp => by simp at hp; simp [hp]⟩, rfl, c.syms.size, rfl, ?_⟩
        · exact {
            size := by simp only [Array.size_push]; exact Nat.le_succ_of_le inv.size
            old := fun k hk => by
              rw [symD_push_old c _ k (Nat.lt_of_lt_of_le hk inv.size)]; exact inv.old k hk
            obarray := inv.obarray
            tables := inv.tables
            ticks := inv.ticks
            tickCount := inv.tickCount
            failAt := inv.failAt
            files := inv.files
            nfiles := inv.nfiles
            nextId := inv.nextId
            cells := fun k h1' h2' => by
              simp only [Array.size_push] at h2'
              by_cases hk : k < c.syms.size
              · obtain ⟨n', v', a1, a2, a3, a4, a5, a6⟩ := inv.cells k h1' hk
                exact ⟨n', v', a1, a2, a3, a4, by rw [symD_push_old c _ k hk]; exact a5,
                  List.mem_cons_of_mem _ a6⟩
              · have : k = c.syms.size := by omega
                subst this
                exact ⟨n, v, hn, hget0, h1, h2, by rw [symD_push_new, hcell],
                  List.mem_cons_self⟩
            capd := fun p hp => by
              simp only [Array.size_push]
              rcases List.mem_cons.1 hp with hp | hp
              · subst hp
                exact ⟨hn, inv.size, Nat.lt_succ_self _, by rw [symD_push_new]; rfl⟩
              · obtain ⟨a1, a2, a3, a4⟩ := inv.capd p hp
                exact ⟨a1, a2, Nat.lt_succ_of_lt a3, by rw [symD_push_old c _ _ a3]; exact a4⟩
            distinct := List.pairwise_cons.2 ⟨hnone, inv.distinct⟩ }
        · unfold SymMap
          rw [if_pos ⟨h1, h2⟩]
          exact ⟨n, List.mem_cons_self, symEq_refl c0 n⟩
  · have hs : capturable c n = false ∨ excluded c excl n = true := by
      rw [hcap, hexc]
      by_cases h1 : capturable c0 n = true
      · right
        by_cases h2 : excluded c0 excl n = true
        · exact h2
        · exact absurd ⟨h1, by simpa using h2⟩ hskip
      · left; simpa using h1
    rw [captureSymbol_skip excl n cap c hs] at hrun
    injection hrun with hr hc
    injection hr with hr
    injection hr with hx hcap'
    subst hx; subst hcap'; subst hc
    refine ⟨inv, Sfx.refl _ _, rfl, n, rfl, ?_⟩
    unfold SymMap
    rw [if_neg hskip]

/-! ## 7. the main induction -/

theorem pure_ok_inv {α} {a b : α} {c c' : Ctx} (h : (pure a : M α) c = (.ok b, c')) :
    a = b ∧ c = c' := by
  injection h with h1 h2
  injection h1 with h1
  exact ⟨h1, h2⟩

/-- appending a non-list atom to a non-empty accumulator without tail -/
theorem append_atom_inv {acc acc' : Acc} {v : Val} {c c' : Ctx} (ht : acc.tail = .nil)
    (hne : acc.rev ≠ []) (hv : v.isList = false) (h : acc.append v c = (.ok acc', c')) :
    acc'.rev = acc.rev ∧ acc'.tail = v ∧ c' = c := by
  rw [C12.Acc.append_atom acc v c ht hv hne] at h
  injection h with h1 h2
  injection h1 with h1
  subst h1
  exact ⟨rfl, rfl, h2.symm⟩

def PV (c0 : Ctx) (excl : List Nat) (v : Val) : Prop :=
  SymsBelow c0.syms.size v → ∀ (cap : Captured) (c : Ctx) (v' : Val) (cap' : Captured) (c' : Ctx),
    Inv c0 excl c cap → captureVars excl v cap c = (.ok (v', cap'), c') →
    Inv c0 excl c' cap' ∧ Sfx (symOccs v) cap cap' ∧ CapRel (SymMap c0 excl cap') v v'

def PR (c0 : Ctx) (excl : List Nat) (d : Val) : Prop :=
  SymsBelow c0.syms.size d →
    ∀ (acc : Acc) (cap : Captured) (c : Ctx) (acc' : Acc) (cap' : Captured) (c' : Ctx),
    Inv c0 excl c cap → acc.tail = .nil → acc.rev ≠ [] →
    captureRest excl d acc cap c = (.ok (acc', cap'), c') →
    Inv c0 excl c' cap' ∧ Sfx (symOccs d) cap cap' ∧
      ∃ xs, acc'.rev = xs.reverse ++ acc.rev ∧ acc'.tail.isCons = false ∧
        RestRel (SymMap c0 excl cap') d xs acc'.tail

theorem wrapper_case {c0 : Ctx} {excl : List Nat} (K : Val → Val)
    (hV : ∀ v cap, captureVars excl (K v) cap = (do
      let (x, cap) ← captureVars excl v cap; pure (K x, cap)))
    (hR : ∀ v acc cap, captureRest excl (K v) acc cap = (do
      let (x, cap) ← captureVars excl v cap
      let acc ← acc.append (K x)
      pure (acc, cap)))
    (hC : ∀ (P : Nat → Nat → Prop) v w, CapRel P (K v) w ↔ ∃ a', w = K a' ∧ CapRel P v a')
    (hRR : ∀ (P : Nat → Nat → Prop) v xs tl, RestRel P (K v) xs tl ↔ xs = [] ∧ CapRel P (K v) tl)
    (hL : ∀ x, (K x).isList = false) (hCo : ∀ x, (K x).isCons = false)
    (hS : ∀ k v, SymsBelow k (K v) ↔ SymsBelow k v) (hO : ∀ v, symOccs (K v) = symOccs v)
    (v : Val) (ih : PV c0 excl v) : PV c0 excl (K v) ∧ PR c0 excl (K v) := by
  constructor
  · intro hs cap c v' cap' c' inv hrun
    rw [hV] at hrun
    obtain ⟨⟨x, cap1⟩, c1, h1, hrun⟩ := bind_ok_inv hrun
    dsimp only at hrun
    obtain ⟨e1, e2⟩ := pure_ok_inv hrun
    injection e1 with e1 e3
    subst e1; subst e3; subst e2
    obtain ⟨i1, s1, r1⟩ := ih ((hS _ _).1 hs) cap c x cap1 c1 inv h1
    exact ⟨i1, by rw [hO]; exact s1, (hC _ _ _).2 ⟨x, rfl, r1⟩⟩
  · intro hs acc cap c acc' cap' c' inv ht hne hrun
    rw [hR] at hrun
    obtain ⟨⟨x, cap1⟩, c1, h1, hrun⟩ := bind_ok_inv hrun
    dsimp only at hrun
    obtain ⟨acc1, c2, h2, hrun⟩ := bind_ok_inv hrun
    obtain ⟨e1, e2⟩ := pure_ok_inv hrun
    injection e1 with e1 e3
    subst e1; subst e3; subst e2
    obtain ⟨i1, s1, r1⟩ := ih ((hS _ _).1 hs) cap c x cap1 c1 inv h1
    obtain ⟨a1, a2, a3⟩ := append_atom_inv ht hne (hL x) h2
    subst a3
    refine ⟨i1, by rw [hO]; exact s1, [], by simpa using a1, by rw [a2]; exact hCo x, ?_⟩
    rw [a2]
    exact (hRR _ _ _ _).2 ⟨rfl, (hC _ _ _).2 ⟨x, rfl, r1⟩⟩

theorem plain_case {c0 : Ctx} {excl : List Nat} (v : Val) (hp : plain v = true) :
    PV c0 excl v ∧ PR c0 excl v := by
  constructor
  · intro _ cap c v' cap' c' inv hrun
    rw [captureVars_plain excl v hp] at hrun
    obtain ⟨e1, e2⟩ := pure_ok_inv hrun
    injection e1 with e1 e3
    subst e1; subst e3; subst e2
    exact ⟨inv, Sfx.refl _ _, (CapRel.plain hp).2 rfl⟩
  · intro _ acc cap c acc' cap' c' inv ht hne hrun
    by_cases hn : v = .nil
    · subst hn
      rw [captureRest_nil] at hrun
      obtain ⟨e1, e2⟩ := pure_ok_inv hrun
      injection e1 with e1 e3
      subst e1; subst e3; subst e2
      refine ⟨inv, Sfx.refl _ _, [], by simp, by rw [ht]; rfl, ?_⟩
      rw [ht]
      simp [RestRel, CapRel]
    · rw [captureRest_plain excl v hp hn] at hrun
      obtain ⟨acc1, c2, h2, hrun⟩ := bind_ok_inv hrun
      obtain ⟨e1, e2⟩ := pure_ok_inv hrun
      injection e1 with e1 e3
      subst e1; subst e3; subst e2
      have hl : v.isList = false := by
        cases v <;> first | rfl | exact absurd rfl hn | (simp [plain] at hp; done)
      have hc : v.isCons = false := by
        cases v <;> first | rfl | (simp [plain] at hp; done)
      obtain ⟨a1, a2, a3⟩ := append_atom_inv ht hne hl h2
      subst a3
      refine ⟨inv, Sfx.refl _ _, [], by simpa using a1, by rw [a2]; exact hc, ?_⟩
      rw [a2]
      have : RestRel (SymMap c0 excl cap) v [] v ↔ ([] : List Val) = [] ∧ CapRel (SymMap c0 excl cap) v v := by
        cases v <;> first | (simp only [RestRel]; done) | (simp [plain] at hp; done)
      exact this.2 ⟨rfl, (CapRel.plain hp).2 rfl⟩

theorem capture_aux {c0 : Ctx} {excl : List Nat} (hwf : WF c0)
    (hexcl : ∀ p ∈ excl, p < c0.syms.size) (v : Val) : PV c0 excl v ∧ PR c0 excl v := by
  induction v with
  | cons i a d iha ihd =>
    constructor
    · intro hs cap c v' cap' c' inv hrun
      obtain ⟨hsa, hsd⟩ := hs
      rw [captureVars_cons] at hrun
      obtain ⟨⟨x, cap1⟩, c1, h1, hrun⟩ := bind_ok_inv hrun
      dsimp only at hrun
      obtain ⟨⟨acc, cap2⟩, c2, h2, hrun⟩ := bind_ok_inv hrun
      dsimp only at hrun
      obtain ⟨w, c3, h3, hrun⟩ := bind_ok_inv hrun
      obtain ⟨e1, e2⟩ := pure_ok_inv hrun
      injection e1 with e1 e3
      subst e1; subst e3; subst e2
      obtain ⟨i1, s1, r1⟩ := iha.1 hsa cap c x cap1 c1 inv h1
      obtain ⟨i2, s2, xs, hrev, htl, r2⟩ :=
        ihd.2 hsd { rev := [x] } cap1 c1 acc cap2 c2 i1 rfl (by simp) h2
      rw [Acc.build_run] at h3
      injection h3 with hw hc3
      injection hw with hw
      subst hw; subst hc3
      refine ⟨i2.alloc (onlyNextId_set c2 _ (Nat.le_add_right _ _)),
        s1.trans s2 (fun n h => by simp [symOccs, h]) (fun n h => by simp [symOccs, h]), ?_⟩
      have hr : acc.rev.reverse = x :: xs := by rw [hrev]; simp
      rw [hr]
      simp only [Val.mkList, CapRel]
      exact ⟨_, x, _, rfl, r1.mono (fun n m h => h.mono s2.mem), r2.mkList _⟩
    · intro hs acc cap c acc' cap' c' inv ht hne hrun
      obtain ⟨hsa, hsd⟩ := hs
      rw [captureRest_cons] at hrun
      obtain ⟨⟨x, cap1⟩, c1, h1, hrun⟩ := bind_ok_inv hrun
      dsimp only at hrun
      obtain ⟨acc1, c2, h2, hrun2⟩ := bind_ok_inv hrun
      obtain ⟨i1, s1, r1⟩ := iha.1 hsa cap c x cap1 c1 inv h1
      obtain ⟨p1, _, p3, p4⟩ := Acc.push_tail h2
      rw [p4] at hrun2
      obtain ⟨i2, s2, xs, hrev, htl, r2⟩ :=
        ihd.2 hsd acc1 cap1 c1 acc' cap' c' i1 p1 (by rw [p3]; simp) hrun2
      refine ⟨i2, s1.trans s2 (fun n h => by simp [symOccs, h]) (fun n h => by simp [symOccs, h]),
        x :: xs, by rw [hrev, p3]; simp, htl, ?_⟩
      simp only [RestRel]
      exact ⟨x, xs, rfl, r1.mono (fun n m h => h.mono s2.mem), r2⟩
  | sym n =>
    constructor
    · intro hs cap c v' cap' c' inv hrun
      rw [captureVars_sym] at hrun
      obtain ⟨i1, s1, _, m, hm, r1⟩ := captureSymbol_inv hwf hexcl hs inv hrun
      exact ⟨i1, s1, by simp only [CapRel]; exact ⟨m, hm, r1⟩⟩
    · intro hs acc cap c acc' cap' c' inv ht hne hrun
      rw [captureRest_sym] at hrun
      obtain ⟨⟨x, cap1⟩, c1, h1, hrun⟩ := bind_ok_inv hrun
      dsimp only at hrun
      obtain ⟨acc1, c2, h2, hrun⟩ := bind_ok_inv hrun
      obtain ⟨e1, e2⟩ := pure_ok_inv hrun
      injection e1 with e1 e3
      subst e1; subst e3; subst e2
      obtain ⟨i1, s1, _, m, hm, r1⟩ := captureSymbol_inv hwf hexcl hs inv h1
      subst hm
      obtain ⟨a1, a2, a3⟩ := append_atom_inv ht hne rfl h2
      subst a3
      refine ⟨i1, s1, [], by simpa using a1, by rw [a2]; rfl, ?_⟩
      rw [a2]
      simp only [RestRel, CapRel, true_and]
      exact ⟨m, rfl, r1⟩
  | quote v ih =>
    exact wrapper_case .quote (captureVars_quote excl) (captureRest_quote excl)
      (fun P v w => by simp only [CapRel]) (fun P v xs tl => by simp only [RestRel])
      (fun _ => rfl) (fun _ => rfl) (fun k v => by simp only [SymsBelow]) (fun _ => rfl) v ih.1
  | backquote v ih =>
    exact wrapper_case .backquote (captureVars_backquote excl) (captureRest_backquote excl)
      (fun P v w => by simp only [CapRel]) (fun P v xs tl => by simp only [RestRel])
      (fun _ => rfl) (fun _ => rfl) (fun k v => by simp only [SymsBelow]) (fun _ => rfl) v ih.1
  | unquote v ih =>
    exact wrapper_case .unquote (captureVars_unquote excl) (captureRest_unquote excl)
      (fun P v w => by simp only [CapRel]) (fun P v xs tl => by simp only [RestRel])
      (fun _ => rfl) (fun _ => rfl) (fun k v => by simp only [SymsBelow]) (fun _ => rfl) v ih.1
  | splice v ih =>
    exact wrapper_case .splice (captureVars_splice excl) (captureRest_splice excl)
      (fun P v w => by simp only [CapRel]) (fun P v xs tl => by simp only [RestRel])
      (fun _ => rfl) (fun _ => rfl) (fun k v => by simp only [SymsBelow]) (fun _ => rfl) v ih.1
  | _ => exact plain_case _ rfl

/-! ## 8. consequences -/

/-- every symbol of the captured body comes from a symbol of the body … -/
theorem CapRel.occ_back {P : Nat → Nat → Prop} {v w : Val} (h : CapRel P v w) :
    ∀ m ∈ symOccs w, ∃ n ∈ symOccs v, P n m := by
  induction v generalizing w with
  | sym n =>
    simp only [CapRel] at h
    obtain ⟨m, rfl, hp⟩ := h
    intro m' hm'
    simp only [symOccs, List.mem_singleton] at hm'
    subst hm'
    exact ⟨n, by simp [symOccs], hp⟩
  | cons i a d iha ihd =>
    simp only [CapRel] at h
    obtain ⟨j, a', d', rfl, h1, h2⟩ := h
    intro m hm
    simp only [symOccs, List.mem_append] at hm ⊢
    rcases hm with hm | hm
    · obtain ⟨n, hn, hp⟩ := iha h1 m hm
      exact ⟨n, Or.inl hn, hp⟩
    · obtain ⟨n, hn, hp⟩ := ihd h2 m hm
      exact ⟨n, Or.inr hn, hp⟩
  | quote v ih =>
    simp only [CapRel] at h
    obtain ⟨a', rfl, h1⟩ := h
    simp only [symOccs]
    exact ih h1
  | backquote v ih =>
    simp only [CapRel] at h
    obtain ⟨a', rfl, h1⟩ := h
    simp only [symOccs]
    exact ih h1
  | unquote v ih =>
    simp only [CapRel] at h
    obtain ⟨a', rfl, h1⟩ := h
    simp only [symOccs]
    exact ih h1
  | splice v ih =>
    simp only [CapRel] at h
    obtain ⟨a', rfl, h1⟩ := h
    simp only [symOccs]
    exact ih h1
  | _ =>
    simp only [CapRel] at h
    subst h
    intro m hm
    simp [symOccs] at hm

/-- … and every symbol of the body has its image in the captured body -/
theorem CapRel.occ_forth {P : Nat → Nat → Prop} {v w : Val} (h : CapRel P v w) :
    ∀ n ∈ symOccs v, ∃ m ∈ symOccs w, P n m := by
  induction v generalizing w with
  | sym n =>
    simp only [CapRel] at h
    obtain ⟨m, rfl, hp⟩ := h
    intro n' hn'
    simp only [symOccs, List.mem_singleton] at hn'
    subst hn'
    exact ⟨m, by simp [symOccs], hp⟩
  | cons i a d iha ihd =>
    simp only [CapRel] at h
    obtain ⟨j, a', d', rfl, h1, h2⟩ := h
    intro n hn
    simp only [symOccs, List.mem_append] at hn ⊢
    rcases hn with hn | hn
    · obtain ⟨m, hm, hp⟩ := iha h1 n hn
      exact ⟨m, Or.inl hm, hp⟩
    · obtain ⟨m, hm, hp⟩ := ihd h2 n hn
      exact ⟨m, Or.inr hm, hp⟩
  | quote v ih =>
    simp only [CapRel] at h
    obtain ⟨a', rfl, h1⟩ := h
    simp only [symOccs]
    exact ih h1
  | backquote v ih =>
    simp only [CapRel] at h
    obtain ⟨a', rfl, h1⟩ := h
    simp only [symOccs]
    exact ih h1
  | unquote v ih =>
    simp only [CapRel] at h
    obtain ⟨a', rfl, h1⟩ := h
    simp only [symOccs]
    exact ih h1
  | splice v ih =>
    simp only [CapRel] at h
    obtain ⟨a', rfl, h1⟩ := h
    simp only [symOccs]
    exact ih h1
  | _ =>
    intro n hn
    simp [symOccs] at hn

/-- rename the symbols of a value (in the positions `capture` visits) -/
def mapSyms (σ : Nat → Nat) : Val → Val
  | .sym n => .sym (σ n)
  | .cons i a d => .cons i (mapSyms σ a) (mapSyms σ d)
  | .quote v => .quote (mapSyms σ v)
  | .backquote v => .backquote (mapSyms σ v)
  | .unquote v => .unquote (mapSyms σ v)
  | .splice v => .splice (mapSyms σ v)
  | v => v

/-- the `eraseIds` form of the relation, for a functional symbol map -/
theorem CapRel.eraseIds_eq {P : Nat → Nat → Prop} {σ : Nat → Nat} {v w : Val}
    (hσ : ∀ n ∈ symOccs v, ∀ m, P n m → m = σ n) (h : CapRel P v w) :
    eraseIds w = eraseIds (mapSyms σ v) := by
  induction v generalizing w with
  | sym n =>
    simp only [CapRel] at h
    obtain ⟨m, rfl, hp⟩ := h
    rw [hσ n (by simp [symOccs]) m hp]
    rfl
  | cons i a d iha ihd =>
    simp only [CapRel] at h
    obtain ⟨j, a', d', rfl, h1, h2⟩ := h
    simp only [mapSyms, eraseIds]
    rw [iha (fun n hn => hσ n (by simp [symOccs, hn])) h1,
      ihd (fun n hn => hσ n (by simp [symOccs, hn])) h2]
  | quote v ih =>
    simp only [CapRel] at h
    obtain ⟨a', rfl, h1⟩ := h
    simp only [mapSyms, eraseIds]
    rw [ih hσ h1]
  | backquote v ih =>
    simp only [CapRel] at h
    obtain ⟨a', rfl, h1⟩ := h
    simp only [mapSyms, eraseIds]
    rw [ih hσ h1]
  | unquote v ih =>
    simp only [CapRel] at h
    obtain ⟨a', rfl, h1⟩ := h
    simp only [mapSyms, eraseIds]
    rw [ih hσ h1]
  | splice v ih =>
    simp only [CapRel] at h
    obtain ⟨a', rfl, h1⟩ := h
    simp only [mapSyms, eraseIds]
    rw [ih hσ h1]
  | _ =>
    simp only [CapRel] at h
    subst h
    rfl

theorem pairwise_mem_ne {α} {R : α → α → Prop} (hsym : ∀ a b, R a b → R b a) {l : List α}
    (h : l.Pairwise R) {p q : α} (hp : p ∈ l) (hq : q ∈ l) (hne : p ≠ q) : R p q := by
  induction l with
  | nil => simp at hp
  | cons x l ih =>
    rw [List.pairwise_cons] at h
    rcases List.mem_cons.1 hp with hp | hp <;> rcases List.mem_cons.1 hq with hq | hq
    · exact absurd (hp.trans hq.symm) hne
    · rw [hp]; exact h.1 q hq
    · rw [hq]; exact hsym _ _ (h.1 p hp)
    · exact ih h.2 hp hq

/-- with one cell per symbol, two entries of `cap` for `eq` symbols are the same entry -/
theorem Inv.cap_unique {c0 : Ctx} {excl : List Nat} {c : Ctx} {cap : Captured}
    (h : Inv c0 excl c cap) {p q : Nat × Nat} (hp : p ∈ cap) (hq : q ∈ cap)
    (he : symEq c0 p.1 q.1 = true) : p = q := by
  by_cases hne : p = q
  · exact hne
  · have := pairwise_mem_ne (R := fun p q : Nat × Nat => symEq c0 p.1 q.1 = false)
      (fun a b hab => by rw [symEq_comm]; exact hab) h.distinct hp hq hne
    rw [he] at this
    cases this

/-- the symbol map as a function: the cell recorded for the first entry that is `eq` -/
def capFun (c0 : Ctx) (excl : List Nat) (cap : Captured) (n : Nat) : Nat :=
  if capturable c0 n = true ∧ excluded c0 excl n = false then
    match cap.find? (fun p => symEq c0 n p.1) with
    | some p => p.2
    | none => n
  else n

theorem Inv.symMap_fun {c0 : Ctx} {excl : List Nat} {c : Ctx} {cap : Captured}
    (h : Inv c0 excl c cap) {n m : Nat} (hm : SymMap c0 excl cap n m) :
    m = capFun c0 excl cap n := by
  unfold SymMap at hm
  unfold capFun
  split
  · rename_i hc
    rw [if_pos hc] at hm
    obtain ⟨f, hf, he⟩ := hm
    cases hfind : cap.find? (fun p => symEq c0 n p.1) with
    | none =>
      have := (List.find?_eq_none.1 hfind) (f, m) hf
      exact absurd he this
    | some p =>
      have hp := List.mem_of_find?_eq_some hfind
      have hpe : symEq c0 n p.1 = true :=
        List.find?_some (p := fun p : Nat × Nat => symEq c0 n p.1) hfind
      have : p = (f, m) := h.cap_unique hp hf (symEq_trans (symEq_symm hpe) he)
      rw [this]
  · rename_i hc
    rw [if_neg hc] at hm
    exact hm

/-- well-formedness is preserved by a capture run -/
theorem Inv.wf {c0 : Ctx} {excl : List Nat} {c : Ctx} {cap : Captured}
    (h : Inv c0 excl c cap) (hwf : WF c0) : WF c := by
  intro k b hb
  by_cases h1 : k < c0.syms.size
  · rw [h.old k h1] at hb
    exact hwf k b hb
  · by_cases h2 : k < c.syms.size
    · obtain ⟨n, v, a1, _, _, _, a5, _⟩ := h.cells k (by omega) h2
      rw [a5] at hb
      simp only [cellFor, Option.some.injEq] at hb
      omega
    · rw [symD_of_ge (by omega)] at hb
      cases hb

/-! ### well-formedness of the states the interpreter builds -/

theorem wf_empty : WF {} := by
  intro n b h
  rw [symD_of_ge (by simp)] at h
  cases h

/-- a new entry whose base (if any) is an existing entry -/
theorem wf_push {c : Ctx} (h : WF c) (s : SymSt) (hs : ∀ b, s.base = some b → b < c.syms.size) :
    WF { c with syms := c.syms.push s } := by
  intro n b hb
  by_cases h1 : n < c.syms.size
  · rw [symD_push_old c s n h1] at hb
    exact h n b hb
  · by_cases h2 : n = c.syms.size
    · subst h2
      rw [symD_push_new] at hb
      exact hs b hb
    · rw [symD_of_ge (by simp only [Array.size_push]; omega)] at hb
      cases hb

/-- changing an entry without touching its `base` (set, push, pop, set-global) -/
theorem wf_modSym {c : Ctx} (h : WF c) (n : Nat) (f : SymSt → SymSt)
    (hf : ∀ s, (f s).base = s.base) : WF (c.modSym n f) := by
  intro m b hb
  by_cases hmn : m = n
  · subst hmn
    by_cases hlt : m < c.syms.size
    · rw [symD_modSym_self c m f hlt, hf] at hb
      exact h m b hb
    · rw [symD_of_ge (by rw [size_modSym]; omega)] at hb
      cases hb
  · rw [symD_modSym_ne c n m f hmn] at hb
    exact h m b hb

theorem wf_intern {c : Ctx} (h : WF c) (name : String) : WF (c.intern name).2 := by
  unfold Ctx.intern
  split
  · exact h
  · intro n b hb
    have := wf_push h { name := name, constant := name.startsWith ":" } (by intro b hb; cases hb)
    exact this n b hb

theorem wf_newSym_plain {c : Ctx} (h : WF c) (s : SymSt) (hs : s.base = none) :
    WF (c.newSym s).2 :=
  wf_push h s (by intro b hb; rw [hs] at hb; cases hb)

/-- the initial state (all built-ins bound) is well-formed -/
theorem wf_initial : WF Ctx.initial := by
  unfold Ctx.initial
  generalize Bi.all = l
  have : ∀ (l : List Bi) (c : Ctx), WF c → WF (l.foldl (fun c b =>
      let (n, c) := c.intern b.name
      c.modSym n (fun s => { s with items := [.builtin b], hasGlobal := !b.isScoped })) c) := by
    intro l
    induction l with
    | nil => intro c h; exact h
    | cons b l ih =>
      intro c h
      rw [List.foldl_cons]
      exact ih _ (wf_modSym (wf_intern h b.name) _ _ (fun _ => rfl))
  exact this l {} wf_empty

/-- the run as a whole, from the empty capture list -/
theorem capture_run {c : Ctx} {excl : List Nat} (hwf : WF c)
    (hexcl : ∀ p ∈ excl, p < c.syms.size) {body body' : Val} {cap : Captured} {c' : Ctx}
    (hbody : SymsBelow c.syms.size body)
    (hrun : captureVars excl body [] c = (.ok (body', cap), c')) :
    Inv c excl c' cap ∧ CapRel (SymMap c excl cap) body body' ∧
      ∀ p ∈ cap, p.1 ∈ symOccs body := by
  obtain ⟨i1, ⟨new, e, hm⟩, r1⟩ :=
    (capture_aux hwf hexcl body).1 hbody [] c body' cap c' (Inv.init c excl) hrun
  rw [List.append_nil] at e
  subst e
  exact ⟨i1, r1, hm⟩

/-! ### frame lemmas for the binding operations -/

theorem pushV_frame (n cell : Nat) (v : Val) (c : Ctx) (h : cell ≠ n) :
    (pushV (.sym n) v c).2.symD cell = c.symD cell := by
  show ((notConstant n >>= fun _ => M.modify (·.modSym n (·.push v))) c).2.symD cell = _
  by_cases hc : (c.symD n).constant = true
  · have : notConstant n c = (.err .undefined, c) := by simp [notConstant, hc]
    rw [C12.bind_err _ this]
  · have : notConstant n c = (.ok (), c) := by simp [notConstant, hc]
    rw [C12.bind_ok _ this]
    exact symD_modSym_ne c n cell _ h

theorem setV_frame (n cell : Nat) (v : Val) (c : Ctx) (h : cell ≠ n) :
    (setV (.sym n) v c).2.symD cell = c.symD cell := by
  show ((notConstant n >>= fun _ => M.modify (·.modSym n (·.set v))) c).2.symD cell = _
  by_cases hc : (c.symD n).constant = true
  · have : notConstant n c = (.err .undefined, c) := by simp [notConstant, hc]
    rw [C12.bind_err _ this]
  · have : notConstant n c = (.ok (), c) := by simp [notConstant, hc]
    rw [C12.bind_ok _ this]
    exact symD_modSym_ne c n cell _ h

theorem setGlobalV_frame (n cell : Nat) (v : Val) (c : Ctx) (h : cell ≠ n) :
    (setGlobalV (.sym n) v c).2.symD cell = c.symD cell := by
  show ((notConstant n >>= fun _ => M.modify (·.modSym n (·.setGlobal v))) c).2.symD cell = _
  by_cases hc : (c.symD n).constant = true
  · have : notConstant n c = (.err .undefined, c) := by simp [notConstant, hc]
    rw [C12.bind_err _ this]
  · have : notConstant n c = (.ok (), c) := by simp [notConstant, hc]
    rw [C12.bind_ok _ this]
    exact symD_modSym_ne c n cell _ h

theorem popV_frame (n cell : Nat) (c : Ctx) (h : cell ≠ n) :
    (popV (.sym n) c).2.symD cell = c.symD cell := by
  simp only [popV]
  split
  · exact symD_modSym_ne c n cell _ h
  · rfl

theorem popSymCtx_frame (n cell : Nat) (c : Ctx) (h : cell ≠ n) :
    (popSymCtx c n).symD cell = c.symD cell := by
  unfold popSymCtx
  split
  · exact symD_modSym_ne c n cell _ h
  · rfl

end Tulisp.C05
