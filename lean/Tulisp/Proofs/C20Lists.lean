/-
  Proofs/C20Lists.lean — helper lemmas for section 10 of property C20: the list helpers of
  `src/lists.rs` on heap objects (`length`, `nthcdr`, `nth`, `last`, `assoc`, `alistGet`,
  `alistFrom`, `plistFrom` of Model/Api.lean) refine the obvious sequence model.
-/
import Tulisp.Proofs.C20
namespace Tulisp.C20
open Tulisp Tulisp.Api

/-! ## `length` -/

theorem length_eq {h : Heap} {r : Nat} {xs : List Nat} {tl : Nat} (l : ListAt h r xs tl) :
    h.length r = xs.length := by
  unfold Heap.length; rw [elems_spec l]

/-! ## `nthcdr` -/

theorem nthcdr_zero' (h : Heap) (r : Nat) : h.nthcdr 0 r = .ok r := by
  unfold Heap.nthcdr; rfl

theorem nthcdr_succ_cons {h : Heap} {r a d : Nat} (hg : h.get r = .cons a d) (n : Nat) :
    h.nthcdr (n + 1) r = h.nthcdr n d := by
  rw [Heap.nthcdr]; rw [hg]

/-- on a nil cell `nthcdr` stays there, whatever `n` -/
theorem nthcdr_of_nil {h : Heap} {r : Nat} (hg : h.get r = .nil) (n : Nat) : h.nthcdr n r = .ok r := by
  cases n with
  | zero => exact nthcdr_zero' h r
  | succ n => rw [Heap.nthcdr]; rw [hg]

/-- one step on an atom other than nil is an error -/
theorem nthcdr_succ_atom {h : Heap} {r : Nat} (hn : NotCons (h.get r)) (hnn : h.get r ≠ .nil) (n : Nat) :
    h.nthcdr (n + 1) r = .error .typeMismatch := by
  rw [Heap.nthcdr]
  cases hc : h.get r with
  | cons a d => exact absurd hc (hn a d)
  | nil => exact absurd hc hnn
  | _ => rfl

/-- in range: `n` steps along a chain reach the cell whose chain is `xs.drop n` -/
theorem nthcdr_in_range {h : Heap} {r : Nat} {xs : List Nat} {tl : Nat} (l : ListAt h r xs tl) :
    ∀ n, n ≤ xs.length → ∃ r', h.nthcdr n r = .ok r' ∧ ListAt h r' (xs.drop n) tl := by
  induction l with
  | @done r hn =>
    intro n hle
    have : n = 0 := by simpa using hle
    subst this
    exact ⟨r, nthcdr_zero' h r, .done hn⟩
  | @step r a d xs tl hg l' ih =>
    intro n hle
    cases n with
    | zero => exact ⟨r, nthcdr_zero' h r, .step hg l'⟩
    | succ n =>
      obtain ⟨r', e, l2⟩ := ih n (by simpa using hle)
      exact ⟨r', by rw [nthcdr_succ_cons hg]; exact e, by simpa using l2⟩

/-- the same, naming the cell: it is the `n`-th entry of the spine followed by the tail cell -/
theorem nthcdr_chain {h : Heap} {r : Nat} {cs xs : List Nat} {tl : Nat} (c : Chain h r cs xs tl) :
    ∀ n, n ≤ xs.length → (cs ++ [tl])[n]? = some ((cs ++ [tl])[n]?.getD 0) ∧
      h.nthcdr n r = .ok ((cs ++ [tl])[n]?.getD 0) := by
  induction c with
  | @done r hn =>
    intro n hle
    have : n = 0 := by simpa using hle
    subst this
    exact ⟨rfl, nthcdr_zero' h r⟩
  | @step r a d cs xs tl hg c' ih =>
    intro n hle
    cases n with
    | zero => exact ⟨rfl, nthcdr_zero' h r⟩
    | succ n =>
      obtain ⟨e1, e2⟩ := ih n (by simpa using hle)
      refine ⟨by simpa using e1, ?_⟩
      rw [nthcdr_succ_cons hg, e2]; simp

/-- at or past the end of a proper list: the terminating nil cell -/
theorem nthcdr_past_proper {h : Heap} {r : Nat} {xs : List Nat} {tl : Nat} (l : ListAt h r xs tl)
    (hnil : h.get tl = .nil) : ∀ n, xs.length ≤ n → h.nthcdr n r = .ok tl := by
  induction l with
  | @done r hn => intro n _; exact nthcdr_of_nil hnil n
  | @step r a d xs tl hg l' ih =>
    intro n hle
    cases n with
    | zero => simp at hle
    | succ n => rw [nthcdr_succ_cons hg]; exact ih hnil n (by simpa using hle)

/-- past the end of a dotted list (the chain ends in an atom other than nil): an error -/
theorem nthcdr_past_dotted {h : Heap} {r : Nat} {xs : List Nat} {tl : Nat} (l : ListAt h r xs tl)
    (hnn : h.get tl ≠ .nil) : ∀ n, xs.length < n → h.nthcdr n r = .error .typeMismatch := by
  induction l with
  | @done r hn =>
    intro n hlt
    cases n with
    | zero => simp at hlt
    | succ n => exact nthcdr_succ_atom hn hnn n
  | @step r a d xs tl hg l' ih =>
    intro n hlt
    cases n with
    | zero => simp at hlt
    | succ n => rw [nthcdr_succ_cons hg]; exact ih hnn n (by simpa using hlt)

/-- composition, on every heap: `m + n` steps are `m` steps followed by `n` steps -/
theorem nthcdr_add' (h : Heap) : ∀ (m n r : Nat),
    h.nthcdr (m + n) r = (match h.nthcdr m r with | .ok r' => h.nthcdr n r' | .error e => .error e) := by
  intro m
  induction m with
  | zero => intro n r; rw [nthcdr_zero']; simp
  | succ m ih =>
    intro n r
    have e : m + 1 + n = (m + n) + 1 := by omega
    rw [e]
    cases hc : h.get r with
    | cons a d => rw [nthcdr_succ_cons hc, nthcdr_succ_cons hc]; exact ih n d
    | nil => rw [nthcdr_of_nil hc, nthcdr_of_nil hc]; simp only; rw [nthcdr_of_nil hc]
    | _ =>
      have hn : NotCons (h.get r) := by intro a d e'; rw [hc] at e'; cases e'
      have hnn : h.get r ≠ .nil := by rw [hc]; intro e'; cases e'
      rw [nthcdr_succ_atom hn hnn, nthcdr_succ_atom hn hnn]

/-! ## `nth` -/

/-- by definition `nth n l = car (nthcdr n l)` (in the `Except` monad) -/
theorem nth_def' (h : Heap) (n : Int) (r : Nat) :
    h.nth n r = (h.nthcdr n.toNat r >>= fun x => h.car x) := by
  unfold Heap.nth
  cases h.nthcdr n.toNat r <;> rfl

theorem nth_in_range' {h : Heap} {r : Nat} {xs : List Nat} {tl : Nat} (l : ListAt h r xs tl)
    (n : Int) (hn : n.toNat < xs.length) : h.nth n r = .ok (xs[n.toNat], h) := by
  obtain ⟨r', e, l2⟩ := nthcdr_in_range l n.toNat (Nat.le_of_lt hn)
  unfold Heap.nth
  rw [e]; simp only
  rw [List.drop_eq_getElem_cons hn] at l2
  cases l2 with
  | step hg _ => simp only [Heap.car, hg]

theorem nth_past_proper' {h : Heap} {r : Nat} {xs : List Nat} {tl : Nat} (l : ListAt h r xs tl)
    (hnil : h.get tl = .nil) (n : Int) (hn : xs.length ≤ n.toNat) : h.nth n r = .ok (h.alloc .nil) := by
  unfold Heap.nth
  rw [nthcdr_past_proper l hnil _ hn]; simp only [Heap.car, hnil]

theorem nth_past_dotted' {h : Heap} {r : Nat} {xs : List Nat} {tl : Nat} (l : ListAt h r xs tl)
    (hnn : h.get tl ≠ .nil) (n : Int) (hn : xs.length ≤ n.toNat) : h.nth n r = .error .typeMismatch := by
  unfold Heap.nth
  rcases Nat.eq_or_lt_of_le hn with he | hlt
  · obtain ⟨r', e, l2⟩ := nthcdr_in_range l n.toNat (Nat.le_of_eq he.symm)
    rw [e]; simp only
    rw [← he, List.drop_length] at l2
    cases l2 with
    | done hnc =>
      unfold Heap.car
      cases hc : h.get tl with
      | cons a d => exact absurd hc (hnc a d)
      | nil => exact absurd hc hnn
      | _ => rfl
  · rw [nthcdr_past_dotted l hnn _ hlt]

/-! ## `last` -/

theorem drop_length_pred {xs : List Nat} (hne : xs ≠ []) : xs.drop (xs.length - 1) = [xs.getLast hne] := by
  have hl : xs.length - 1 < xs.length := by
    cases xs with
    | nil => exact absurd rfl hne
    | cons => simp
  rw [List.drop_eq_getElem_cons hl, List.getLast_eq_getElem]
  have : xs.length - 1 + 1 = xs.length := by omega
  rw [this, List.drop_length]

theorem last_of_nil {h : Heap} {r : Nat} (hg : h.get r = .nil) (n : Option Int) : h.last r n = .ok r := by
  unfold Heap.last; rw [hg]

theorem last_of_atom {h : Heap} {r : Nat} (hn : NotCons (h.get r)) (hnn : h.get r ≠ .nil) (n : Option Int) :
    h.last r n = .error .typeMismatch := by
  unfold Heap.last
  cases hc : h.get r with
  | cons a d => exact absurd hc (hn a d)
  | nil => exact absurd hc hnn
  | _ => rfl

/-- `last` on a cons cell, unfolded, with the length of the chain put in -/
theorem last_of_cons {h : Heap} {r : Nat} {xs : List Nat} {tl : Nat} (l : ListAt h r xs tl)
    (hne : xs ≠ []) (n : Option Int) :
    h.last r n =
      (match n with
       | some k =>
         if k < 0 then .error .outOfRange
         else if k < (xs.length : Int) then h.nthcdr (xs.length - k.toNat) r
         else .ok r
       | none => h.nthcdr (xs.length - 1) r) := by
  cases l with
  | done => exact absurd rfl hne
  | @step _ a d xs' _ hg l' =>
    have hl : h.length r = (a :: xs').length := length_eq (.step hg l')
    unfold Heap.last
    rw [hg]; simp only [hl]
    cases n with
    | none =>
      simp only
      congr 1; simp only [List.length_cons]; omega
    | some k =>
      simp only
      split
      · rfl
      · split
        · congr 1; omega
        · rfl

/-! ## `assoc` / `alistGet` -/

/-- the object is a list: nil or a cons cell -/
def IsListObj (o : Obj) : Prop := o = .nil ∨ ∃ a d, o = .cons a d

/-- the test `assoc` applies to each element: a cons cell whose car is `equal` to the key
    (with the fuel `cells.size + 2` the model uses) -/
def assocPred (h : Heap) (key : Nat) (item : Nat) : Bool :=
  match h.get item with
  | .cons a _ => h.equal (h.cells.size + 2) a key
  | _ => false

theorem assocPred_iff {h : Heap} {key item : Nat} :
    assocPred h key item = true ↔ ∃ a d, h.get item = .cons a d ∧ h.equal (h.cells.size + 2) a key = true := by
  unfold assocPred
  cases hc : h.get item <;> simp

theorem assocPred_of_notCons {h : Heap} {key item : Nat} (hn : NotCons (h.get item)) :
    assocPred h key item = false := by
  unfold assocPred
  cases hc : h.get item with
  | cons a d => exact absurd hc (hn a d)
  | _ => rfl

/-- `assoc` on a list object, unfolded over the chain -/
theorem assoc_eq {h : Heap} {r : Nat} {xs : List Nat} {tl : Nat} (l : ListAt h r xs tl)
    (hl : IsListObj (h.get r)) (key : Nat) :
    h.assoc key r =
      (match xs.find? (assocPred h key) with
       | some item => .ok (item, h)
       | none => .ok (h.alloc .nil)) := by
  have he := elems_spec l
  unfold Heap.assoc
  rcases hl with hg | ⟨a, d, hg⟩
  · rw [hg]; simp only [he]; rfl
  · rw [hg]; simp only [he]; rfl

theorem assoc_of_atom {h : Heap} {r : Nat} (hn : NotCons (h.get r)) (hnn : h.get r ≠ .nil) (key : Nat) :
    h.assoc key r = .error .typeMismatch := by
  unfold Heap.assoc
  cases hc : h.get r with
  | cons a d => exact absurd hc (hn a d)
  | nil => exact absurd hc hnn
  | _ => rfl

/-- elements that are not cons cells do not matter -/
theorem find_assocPred_filter (h : Heap) (key : Nat) (xs : List Nat) :
    xs.find? (assocPred h key) = (xs.filter (fun x => h.isCons x)).find? (assocPred h key) := by
  induction xs with
  | nil => rfl
  | cons x xs ih =>
    by_cases hc : h.isCons x = true
    · rw [List.filter_cons_of_pos hc, List.find?_cons, List.find?_cons, ih]
    · have hc' : h.isCons x = false := by simpa using hc
      rw [List.filter_cons_of_neg hc, List.find?_cons, assocPred_of_notCons (notCons_of_isCons hc')]
      exact ih

/-- `alistGet`, unfolded over the chain -/
theorem alistGet_found {h : Heap} {r : Nat} {xs : List Nat} {tl : Nat} (l : ListAt h r xs tl)
    (hl : IsListObj (h.get r)) (key : Nat) (dflt : Option Nat) {p a d : Nat}
    (hf : xs.find? (assocPred h key) = some p) (hg : h.get p = .cons a d) :
    h.alistGet key r dflt = .ok (d, h) := by
  unfold Heap.alistGet
  rw [assoc_eq l hl key, hf]; simp only [hg]

theorem alistGet_missing {h : Heap} {r : Nat} {xs : List Nat} {tl : Nat} (l : ListAt h r xs tl)
    (hl : IsListObj (h.get r)) (key : Nat) (dflt : Option Nat)
    (hf : xs.find? (assocPred h key) = none) :
    h.alistGet key r dflt =
      (match dflt with
       | some d => .ok (d, (h.alloc .nil).2)
       | none => .ok ((h.alloc .nil).2.alloc .nil)) := by
  unfold Heap.alistGet
  rw [assoc_eq l hl key, hf]
  have : (h.alloc .nil).2.get (h.alloc .nil).1 = .nil := alloc_get_new h .nil
  simp only [this]
  cases dflt <;> rfl

/-! ## `alistFrom` / `plistFrom`: a list under construction -/

/-- the loop invariant of the builders: `l` (allocated after `h`) denotes `ps` in `hh`, its
    terminating nil cell `tl` is a cell allocated after `h`, and the cells of `h` are untouched -/
structure BuildInv (h : Heap) (l : Nat) (hh : Heap) (ps : List Nat) (tl : Nat) : Prop where
  list : ListAt hh l ps tl
  nil : hh.get tl = .nil
  tl_lt : tl < hh.cells.size
  tl_ge : h.cells.size ≤ tl
  ext : Ext h hh

theorem BuildInv.init (h : Heap) : BuildInv h h.cells.size (h.alloc .nil).2 [] h.cells.size :=
  ⟨.done (by rw [alloc_get_new]; exact notCons_nil), alloc_get_new h .nil, by simp, Nat.le_refl _,
   ext_alloc h .nil⟩

theorem BuildInv.alloc {h : Heap} {l : Nat} {hh : Heap} {ps : List Nat} {tl : Nat}
    (b : BuildInv h l hh ps tl) (o : Obj) : BuildInv h l (hh.alloc o).2 ps tl :=
  ⟨b.list.ext (ext_alloc hh o) b.tl_lt, by rw [alloc_get_old b.tl_lt]; exact b.nil,
   by rw [alloc_size]; exact Nat.lt_succ_of_lt b.tl_lt, b.tl_ge, b.ext.trans (ext_alloc hh o)⟩

theorem BuildInv.push {h : Heap} {l : Nat} {hh : Heap} {ps : List Nat} {tl : Nat}
    (b : BuildInv h l hh ps tl) (v : Nat) :
    hh.push l v = .ok (pushed hh tl v) ∧ BuildInv h l (pushed hh tl v) (ps ++ [v]) hh.cells.size := by
  obtain ⟨cs, c⟩ := b.list.chain
  refine ⟨push_eq b.list b.nil v, ((c.pushed b.tl_lt b.nil).1 rfl).listAt, pushed_get_new b.tl_lt,
    by rw [pushed_size]; exact Nat.lt_succ_self _, Nat.le_trans b.tl_ge (Nat.le_of_lt b.tl_lt), ?_⟩
  refine ⟨by rw [pushed_size]; exact Nat.le_succ_of_le b.ext.1, fun i hi => ?_⟩
  have h1 : i < hh.cells.size := Nat.lt_of_lt_of_le hi b.ext.1
  have h2 : i ≠ tl := by have := b.tl_ge; omega
  rw [pushed_get_other h2 h1]; exact b.ext.2 i hi

/-- the step functions of the two loops -/
def alistStep (l : Nat) (acc : Except AErr Heap) (kv : Nat × Nat) : Except AErr Heap :=
  match acc with
  | .ok hh => let (p, h1) := hh.alloc (.cons kv.1 kv.2); h1.push l p
  | .error e => .error e

def plistStep (l : Nat) (acc : Except AErr Heap) (kv : Nat × Nat) : Except AErr Heap :=
  match acc with
  | .ok hh => (match hh.push l kv.1 with | .ok h1 => h1.push l kv.2 | .error e => .error e)
  | .error e => .error e

theorem alistFrom_eq (h : Heap) (kvs : List (Nat × Nat)) :
    h.alistFrom kvs =
      (match kvs.foldl (alistStep h.cells.size) (.ok (h.alloc .nil).2) with
       | .ok hh => .ok (h.cells.size, hh)
       | .error e => .error e) := rfl

theorem plistFrom_eq (h : Heap) (kvs : List (Nat × Nat)) :
    h.plistFrom kvs =
      (match kvs.foldl (plistStep h.cells.size) (.ok (h.alloc .nil).2) with
       | .ok hh => .ok (h.cells.size, hh)
       | .error e => .error e) := rfl

/-- the `alistFrom` loop from any state satisfying the invariant -/
theorem alist_fold {h : Heap} {l : Nat} : ∀ (kvs : List (Nat × Nat)) {hh : Heap} {ps : List Nat} {tl : Nat},
    BuildInv h l hh ps tl →
    ∃ (h' : Heap) (ps' : List Nat) (tl' : Nat),
      kvs.foldl (alistStep l) (.ok hh) = .ok h' ∧
      BuildInv h l h' (ps ++ ps') tl' ∧
      ps'.map h'.get = kvs.map (fun kv => Obj.cons kv.1 kv.2) ∧
      (∀ q ∈ ps', hh.cells.size ≤ q ∧ q < h'.cells.size) ∧
      ps'.Pairwise (· < ·) ∧
      hh.cells.size ≤ h'.cells.size ∧
      (∀ i : Nat, i < hh.cells.size → i ≠ tl → h'.get i = hh.get i) ∧
      (WF hh → (∀ kv ∈ kvs, kv.1 < hh.cells.size ∧ kv.2 < hh.cells.size) → WF h') := by
  intro kvs
  induction kvs with
  | nil =>
    intro hh ps tl b
    exact ⟨hh, [], tl, rfl, by simpa using b, rfl, by simp, List.Pairwise.nil, Nat.le_refl _,
      fun _ _ _ => rfl, fun w _ => w⟩
  | cons kv kvs ih =>
    intro hh ps tl b
    have b1 := b.alloc (.cons kv.1 kv.2)
    obtain ⟨e2, b2⟩ := b1.push hh.cells.size
    have hs1 : (hh.alloc (.cons kv.1 kv.2)).2.cells.size = hh.cells.size + 1 := alloc_size _ _
    rw [hs1] at b2
    have hs2 : (pushed (hh.alloc (.cons kv.1 kv.2)).2 tl hh.cells.size).cells.size = hh.cells.size + 2 := by
      rw [pushed_size, hs1]
    have htl := b.tl_lt
    obtain ⟨h', ps', tl', ef, b', hm, hq, hp, hsz, hfr, hwf⟩ := ih b2
    rw [hs2] at hq hsz hfr
    have hgp : h'.get hh.cells.size = .cons kv.1 kv.2 := by
      rw [hfr hh.cells.size (by omega) (by omega),
        pushed_get_other (by omega) (by rw [hs1]; omega)]
      exact alloc_get_new hh _
    refine ⟨h', hh.cells.size :: ps', tl', ?_, by simpa using b', ?_, ?_, ?_, by omega, ?_, ?_⟩
    · rw [List.foldl_cons]
      show kvs.foldl (alistStep l) ((hh.alloc (.cons kv.1 kv.2)).2.push l hh.cells.size) = _
      rw [e2]; exact ef
    · simp only [List.map_cons, hgp, hm]
    · intro q hq'
      rcases List.mem_cons.mp hq' with rfl | hq'
      · exact ⟨Nat.le_refl _, by omega⟩
      · have := hq q hq'; omega
    · refine List.pairwise_cons.mpr ⟨fun q hq' => ?_, hp⟩
      have := hq q hq'; omega
    · intro i hi hne
      rw [hfr i (by omega) (by omega), pushed_get_other hne (by rw [hs1]; omega)]
      exact alloc_get_old hi
    · intro w hkv
      have hk := hkv kv (by simp)
      apply hwf
      · exact wf_pushed (wf_alloc w (fun a d e => by cases e; exact hk)) (by rw [hs1]; omega)
      · intro kv' hkv'
        have := hkv kv' (by simp [hkv'])
        rw [hs2]; omega

/-- the `plistFrom` loop from any state satisfying the invariant -/
theorem plist_fold {h : Heap} {l : Nat} : ∀ (kvs : List (Nat × Nat)) {hh : Heap} {ps : List Nat} {tl : Nat},
    BuildInv h l hh ps tl →
    ∃ (h' : Heap) (tl' : Nat),
      kvs.foldl (plistStep l) (.ok hh) = .ok h' ∧
      BuildInv h l h' (ps ++ kvs.flatMap (fun kv => [kv.1, kv.2])) tl' ∧
      h'.cells.size = hh.cells.size + 2 * kvs.length ∧
      (∀ i : Nat, i < hh.cells.size → i ≠ tl → h'.get i = hh.get i) ∧
      (WF hh → (∀ kv ∈ kvs, kv.1 < hh.cells.size ∧ kv.2 < hh.cells.size) → WF h') := by
  intro kvs
  induction kvs with
  | nil =>
    intro hh ps tl b
    exact ⟨hh, tl, rfl, by simpa using b, by simp, fun _ _ _ => rfl, fun w _ => w⟩
  | cons kv kvs ih =>
    intro hh ps tl b
    obtain ⟨e1, b1⟩ := b.push kv.1
    obtain ⟨e2, b2⟩ := b1.push kv.2
    have hs1 : (pushed hh tl kv.1).cells.size = hh.cells.size + 1 := pushed_size _ _ _
    rw [hs1] at b2
    have hs2 : (pushed (pushed hh tl kv.1) hh.cells.size kv.2).cells.size = hh.cells.size + 2 := by
      rw [pushed_size, hs1]
    have htl := b.tl_lt
    obtain ⟨h', tl', ef, b', hsz, hfr, hwf⟩ := ih b2
    rw [hs2] at hsz hfr
    refine ⟨h', tl', ?_, by simpa using b', by simp only [List.length_cons]; omega, ?_, ?_⟩
    · rw [List.foldl_cons]
      show kvs.foldl (plistStep l)
        (match hh.push l kv.1 with | .ok h1 => h1.push l kv.2 | .error e => .error e) = _
      rw [e1]; simp only; rw [e2]; exact ef
    · intro i hi hne
      rw [hfr i (by omega) (by omega), pushed_get_other (by omega) (by rw [hs1]; omega),
        pushed_get_other hne hi]
    · intro w hkv
      have hk := hkv kv (by simp)
      apply hwf
      · exact wf_pushed (wf_pushed w hk.1) (by rw [hs1]; omega)
      · intro kv' hkv'
        have := hkv kv' (by simp [hkv'])
        rw [hs2]; omega

end Tulisp.C20
