/-
  Proofs/C18.lean — helper lemmas for property C18 (no list operation recurses once per element
  along the spine): success of the element loops for lists of any length under ONE evaluator `r`.
-/
import Tulisp.Model.Load
import Tulisp.Proofs.C12
import Tulisp.Proofs.C17
namespace Tulisp.C18
open Tulisp

/-- `m` succeeds from every context -/
def Succeeds {α : Type} (m : M α) : Prop := ∀ c, ∃ a c', m c = (.ok a, c')

theorem Succeeds.pure {α : Type} (a : α) : Succeeds (pure a : M α) := fun c => ⟨a, c, rfl⟩

theorem Succeeds.bind {α β : Type} {m : M α} {f : α → M β} (hm : Succeeds m)
    (hf : ∀ a, Succeeds (f a)) : Succeeds (m >>= f) := by
  intro c
  obtain ⟨a, c1, h1⟩ := hm c
  obtain ⟨b, c2, h2⟩ := hf a c1
  exact ⟨b, c2, by rw [C12.bind_ok _ h1, h2]⟩

/-- … with a postcondition on the intermediate value -/
theorem bind_ok_of {α β : Type} {m : M α} {f : α → M β} {c : Ctx} (P : α → Prop)
    (hm : ∃ a c', m c = (.ok a, c') ∧ P a)
    (hf : ∀ a, P a → ∀ c, ∃ b c', f a c = (.ok b, c')) : ∃ b c', (m >>= f) c = (.ok b, c') := by
  obtain ⟨a, c1, h1, hp⟩ := hm
  obtain ⟨b, c2, h2⟩ := hf a hp c1
  exact ⟨b, c2, by rw [C12.bind_ok _ h1, h2]⟩

/-- if a sequence succeeds, so did its first part -/
theorem ok_of_bind_ok {α β : Type} {m : M α} {f : α → M β} {c c' : Ctx} {b : β}
    (h : (m >>= f) c = (.ok b, c')) : ∃ a c1, m c = (.ok a, c1) ∧ f a c1 = (.ok b, c') :=
  C17.bind_ok (m := m) (f := f) h

theorem succeeds_mkListM (xs : List Val) (tl : Val) : Succeeds (mkListM xs tl) :=
  fun c => ⟨_, _, C12.mkListM_run xs tl c⟩

/-! ## the higher-order loops -/

theorem mapVals_succeeds (r : Rec) (f : Val) (xs : List Val)
    (h : ∀ x ∈ xs, Succeeds (C12.app1 r f x)) (acc : List Val) :
    Succeeds (callBuiltin.mapVals r f xs acc) := by
  induction xs generalizing acc with
  | nil => exact Succeeds.pure _
  | cons x xs ih =>
    rw [C12.mapVals_cons]
    exact (h x (by simp)).bind (fun v => ih (fun y hy => h y (by simp [hy])) _)

theorem filterVals_succeeds (r : Rec) (f : Val) (xs : List Val)
    (h : ∀ x ∈ xs, Succeeds (C12.app1 r f x)) (acc : List Val) :
    Succeeds (callBuiltin.filterVals r f xs acc) := by
  induction xs generalizing acc with
  | nil => exact Succeeds.pure _
  | cons x xs ih =>
    rw [C12.filterVals_cons]
    exact (h x (by simp)).bind (fun v => ih (fun y hy => h y (by simp [hy])) _)

theorem findVals_succeeds (r : Rec) (f dflt : Val) (xs : List Val)
    (h : ∀ x ∈ xs, Succeeds (C12.app1 r f x)) :
    Succeeds (callBuiltin.findVals r f dflt xs) := by
  induction xs with
  | nil => exact Succeeds.pure _
  | cons x xs ih =>
    rw [C12.findVals_cons]
    refine (h x (by simp)).bind (fun v => ?_)
    split
    · exact Succeeds.pure _
    · exact ih (fun y hy => h y (by simp [hy]))

/-- `seq-reduce`, with an invariant `A` on the accumulator -/
theorem reduceVals_succeeds (r : Rec) (f : Val) (A : Val → Prop) (xs : List Val)
    (h : ∀ a, A a → ∀ x ∈ xs, ∀ c, ∃ v c', C12.app2 r f a x c = (.ok v, c') ∧ A v)
    (a : Val) (ha : A a) (c : Ctx) :
    ∃ v c', callBuiltin.reduceVals r f a xs c = (.ok v, c') ∧ A v := by
  induction xs generalizing a c with
  | nil => exact ⟨a, c, rfl, ha⟩
  | cons x xs ih =>
    rw [C12.reduceVals_cons]
    obtain ⟨v, c1, h1, hv⟩ := h a ha x (by simp) c
    obtain ⟨w, c2, h2, hw⟩ := ih (fun a ha y hy => h a ha y (by simp [hy])) v hv c1
    exact ⟨w, c2, by rw [C12.bind_ok _ h1, h2], hw⟩

theorem assocLoop_cons_cons (r : Rec) (p key : Val) (i j : Nat) (k d rest : Val) :
    callBuiltin.assocLoop r p key (.cons i (.cons j k d) rest) =
      (C12.app2 r p k key >>= fun v =>
        if truthy v then pure (.cons j k d) else callBuiltin.assocLoop r p key rest) := by
  rw [callBuiltin.assocLoop, C12.app2, bind_assoc]

/-- `assoc` with a test function: one application of the test per cons element -/
theorem assocLoop_succeeds (r : Rec) (p key : Val) (l : Val)
    (h : ∀ item ∈ l.elems, ∀ i k d, item = .cons i k d → Succeeds (C12.app2 r p k key)) :
    Succeeds (callBuiltin.assocLoop r p key l) := by
  induction l with
  | cons i item rest _ ih =>
    have hrest := ih (fun it hit => h it (by simp [Val.elems, hit]))
    cases item with
    | cons j k d =>
      rw [assocLoop_cons_cons]
      refine (h _ (by simp [Val.elems]) j k d rfl).bind (fun v => ?_)
      split
      · exact Succeeds.pure _
      · exact hrest
    | _ => simpa [callBuiltin.assocLoop] using hrest
  | _ => simpa [callBuiltin.assocLoop] using Succeeds.pure (α := Val) Val.nil

/-! ## the argument / body loops of the evaluator -/

theorem evalEach_succeeds (r : Rec) (l : Val) (h : ∀ x ∈ l.elems, Succeeds (r.eval x)) :
    Succeeds (evalEach r l) := by
  induction l with
  | cons i a d _ ih =>
    rw [evalEach]
    refine (h a (by simp [Val.elems])).bind (fun v => ?_)
    exact (ih (fun x hx => h x (by simp [Val.elems, hx]))).bind (fun vs => Succeeds.pure _)
  | _ => simpa [evalEach] using Succeeds.pure (α := List Val) []

theorem evalProgn_succeeds (r : Rec) (l : Val) (h : ∀ x ∈ l.elems, Succeeds (r.eval x)) :
    Succeeds (evalProgn r l) := by
  induction l with
  | cons i a d _ ih =>
    have ha := h a (by simp [Val.elems])
    have hd := ih (fun x hx => h x (by simp [Val.elems, hx]))
    cases d <;> first
      | (simpa [evalProgn] using ha)
      | (rw [evalProgn]; exact ha.bind (fun _ => hd))
  | _ => simpa [evalProgn] using Succeeds.pure (α := Val) Val.nil

/-- `dolist` over a proper list: the body is evaluated once per element, all with the same `r` -/
theorem dolistLoop_succeeds (r : Rec) (var : Nat) (body : Val) (l : Val)
    (hbody : Succeeds (evalProgn r body)) (hl : l.spine.2 = .nil) :
    Succeeds (dolistLoop r var body l) := by
  induction l with
  | cons i a d _ ih =>
    have hd : d.spine.2 = .nil := by simpa [Val.spine] using hl
    have hcar : ∃ x, carV d = .ok x := by
      cases d <;> simp_all [carV, Val.spine]
    obtain ⟨x, hx⟩ := hcar
    rw [dolistLoop]
    refine hbody.bind (fun _ => ?_)
    refine Succeeds.bind (m := liftE (carV d)) (fun c => ⟨x, c, by simp [liftE, hx]⟩) (fun _ => ?_)
    exact Succeeds.bind (m := M.modify _) (fun c => ⟨(), _, rfl⟩) (fun _ => ih hd)
  | _ => simpa [dolistLoop] using Succeeds.pure (α := Unit) ()

/-! ## sort -/

/-- the merge sort of `sort` succeeds on a list of any length with the fuel the built-in hands it,
    provided every call of the predicate succeeds -/
theorem sortM_succeeds (lt : Val → Val → M Bool) (xs : List Val)
    (h : ∀ a ∈ xs, ∀ b ∈ xs, Succeeds (lt a b)) : Succeeds (sortM lt (xs.length + 1) xs) := by
  intro c
  rcases C17.ok_or_fails (sortM lt (xs.length + 1) xs c) with ⟨ys, hy⟩ | ⟨x, hx⟩
  · exact ⟨ys, _, hy⟩
  · exfalso
    rcases C17.sortM_fails lt _ xs c x _ hx with ⟨_, hk⟩ | ⟨a, ha, b, hb, c0, h0⟩
    · omega
    · obtain ⟨v, c1, hv⟩ := h a ha b hb c0
      rw [hv] at h0
      exact C17.not_failsWith_ok h0

end Tulisp.C18
