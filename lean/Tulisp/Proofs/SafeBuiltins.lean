/-
  Proofs/SafeBuiltins.lean — the invariant of Proofs/Safe.lean for the local functions of
  `callBuiltin` and for hash tables.
-/
import Tulisp.Proofs.SafeEval3
namespace Tulisp

/-! ## hash tables -/

theorem Closed.tableGet {c : Ctx} (hc : Closed c) (id : Nat) {k v : Val}
    (h : (k, v) ∈ tableGet c id) : k.bound ≤ c.syms.size ∧ v.bound ≤ c.syms.size := by
  unfold Tulisp.tableGet at h
  split at h
  · next l hf =>
    exact hc.tbl _ l k v (List.mem_of_find?_eq_some hf) h
  · simp at h

theorem Closed.tableLookup {c : Ctx} (hc : Closed c) (id : Nat) (k : Val) :
    (tableLookup c id k).bound ≤ c.syms.size := by
  unfold Tulisp.tableLookup
  split
  · next k' v hf =>
    exact (hc.tableGet id (List.mem_of_find?_eq_some hf)).2
  · simp

theorem safe_tableLookup {H : Prop} {N : Nat} {c : Ctx} {id : Nat} {k : Val}
    (h : H → Closed c ∧ c.syms.size ≤ N) : SafeH H N (pure (tableLookup c id k) : M Val) bq := by
  apply SafeH.pure
  intro hh
  have := (h hh).1.tableLookup id k
  have := (h hh).2
  simp only [bq_def, bnd_val]; omega

theorem safe_tablePut {H : Prop} {N : Nat} {id : Nat} {k v : Val} (h : H → max k.bound v.bound ≤ N) :
    SafeH H N (M.modify (fun c => tablePut c id k v)) bq := by
  apply SafeH.modify
  intro hh c _ hc hn
  have hb := h hh
  refine ⟨LD_congr rfl, ⟨hc.stk, hc.oba, ?_⟩, Nat.le_refl _⟩
  intro id' l k' v' hm hkv
  show k'.bound ≤ c.syms.size ∧ v'.bound ≤ c.syms.size
  simp only [tablePut, List.mem_cons] at hm
  rcases hm with hm | hm
  · cases hm
    simp only [List.mem_cons, List.mem_filter] at hkv
    rcases hkv with hkv | hkv
    · cases hkv; constructor <;> omega
    · exact hc.tableGet id hkv.1
  · exact hc.tbl id' l k' v' (List.mem_filter.1 hm).1 hkv

macro_rules | `(tactic| safe_leaf) => `(tactic| ((with_reducible apply safe_tablePut); safe_side))

/-! ## the local functions of `callBuiltin` -/

section
variable {H : Prop} {N : Nat}

theorem safe_stripDoc {rest : Val} (h : H → rest.bound ≤ N) :
    SafeH H N (callBuiltin.stripDoc rest) bq := by
  refine SafeH.of_hyp h ?_
  unfold callBuiltin.stripDoc
  safe_tac

theorem safe_makeSymbolM {name : String} : SafeH H N (callBuiltin.makeSymbolM name) bq := by
  refine ⟨fun c => ⟨fun s hs => (by cases hs), fun _ _ hc _ => ⟨?_, ?_, ?_, ?_⟩⟩⟩
  · exact LD_newSym c _ rfl
  · exact hc.newSym _ (by simp)
  · simp [callBuiltin.makeSymbolM]
  · intro a ha; cases ha; simp [callBuiltin.makeSymbolM]

theorem safe_concat_go {vs : List Val} : ∀ {acc : String} {H : Prop} {N : Nat},
    SafeH H N (callBuiltin.go vs acc) bq := by
  induction vs with
  | nil => intro acc H N; unfold callBuiltin.go; safe_tac
  | cons v vs ih => intro acc H N; unfold callBuiltin.go; safe_tac

/-- the harness's `tick`: log the argument, possibly fail -/
theorem safe_tick {v : Val} :
    (H → v.bound ≤ N) → SafeH H N (fun c =>
      let n : Int := match v with | .int n => n | _ => -1
      let c' := { c with ticks := n :: c.ticks, tickCount := c.tickCount + 1 }
      if c'.failAt != 0 && c'.tickCount == c'.failAt then (.err .undefined, c') else (.ok v, c')) bq := by
  intro h
  refine ⟨fun c => ?_⟩
  simp only
  split
  · exact ⟨fun s hs => (by cases hs), fun _ _ hc _ =>
      ⟨LD_congr rfl, hc.congr rfl rfl rfl, Nat.le_refl _, fun a ha => by cases ha⟩⟩
  · refine ⟨fun s hs => (by cases hs), fun hh _ hc hn =>
      ⟨LD_congr rfl, hc.congr rfl rfl rfl, Nat.le_refl _, ?_⟩⟩
    intro a ha; cases ha
    have := h hh
    show v.bound ≤ c.syms.size
    omega

end

macro_rules | `(tactic| safe_leaf) => `(tactic| ((with_reducible apply safe_stripDoc); safe_side))
macro_rules | `(tactic| safe_leaf) => `(tactic| with_reducible exact safe_makeSymbolM)
macro_rules | `(tactic| safe_leaf) => `(tactic| with_reducible exact safe_concat_go)
macro_rules | `(tactic| safe_leaf) => `(tactic| ((with_reducible apply safe_tick); safe_side))

section
variable {r : Rec} (hr : SafeRec r)
include hr

theorem safe_condLoop {v : Val} : ∀ {H : Prop} {N : Nat}, (H → v.bound ≤ N) →
    SafeH H N (callBuiltin.condLoop r v) bq := by
  induction v with
  | cons i clause rest _ ih =>
    intro H N h; refine SafeH.of_hyp h ?_; unfold callBuiltin.condLoop; safe_tac
  | _ => intro H N h; unfold callBuiltin.condLoop; safe_tac

theorem safe_andLoop {v : Val} : ∀ {last : Val} {H : Prop} {N : Nat},
    (H → max v.bound last.bound ≤ N) → SafeH H N (callBuiltin.andLoop r v last) bq := by
  induction v with
  | cons i a d _ ih =>
    intro last H N h; refine SafeH.of_hyp h ?_; unfold callBuiltin.andLoop; safe_tac
  | _ => intro last H N h; refine SafeH.of_hyp h ?_; unfold callBuiltin.andLoop; safe_tac

theorem safe_orLoop {v : Val} : ∀ {H : Prop} {N : Nat}, (H → v.bound ≤ N) →
    SafeH H N (callBuiltin.orLoop r v) bq := by
  induction v with
  | cons i a d _ ih =>
    intro H N h; refine SafeH.of_hyp h ?_; unfold callBuiltin.orLoop; safe_tac
  | _ => intro H N h; unfold callBuiltin.orLoop; safe_tac

theorem safe_applyVals {f vals : Val} {H : Prop} {N : Nat} (h : H → max f.bound vals.bound ≤ N) :
    SafeH H N (callBuiltin.applyVals r f vals) bq := by
  unfold callBuiltin.applyVals
  exact safe_funcallVal hr h

end

macro_rules | `(tactic| safe_leaf) => `(tactic| ((with_reducible apply safe_condLoop (by assumption)); safe_side))
macro_rules | `(tactic| safe_leaf) => `(tactic| ((with_reducible apply safe_andLoop (by assumption)); safe_side))
macro_rules | `(tactic| safe_leaf) => `(tactic| ((with_reducible apply safe_orLoop (by assumption)); safe_side))
macro_rules | `(tactic| safe_leaf) => `(tactic| ((with_reducible apply safe_applyVals (by assumption)); safe_side))

section
variable {r : Rec} (hr : SafeRec r)
include hr

theorem safe_mapVals {f : Val} {xs : List Val} : ∀ {acc : List Val} {H : Prop} {N : Nat},
    (H → max f.bound (max (valsBound xs) (valsBound acc)) ≤ N) →
      SafeH H N (callBuiltin.mapVals r f xs acc) bq := by
  induction xs with
  | nil => intro acc H N h; refine SafeH.of_hyp h ?_; unfold callBuiltin.mapVals; safe_tac
  | cons x xs ih =>
    intro acc H N h; refine SafeH.of_hyp h ?_; unfold callBuiltin.mapVals; safe_tac

theorem safe_filterVals {f : Val} {xs : List Val} : ∀ {acc : List Val} {H : Prop} {N : Nat},
    (H → max f.bound (max (valsBound xs) (valsBound acc)) ≤ N) →
      SafeH H N (callBuiltin.filterVals r f xs acc) bq := by
  induction xs with
  | nil => intro acc H N h; refine SafeH.of_hyp h ?_; unfold callBuiltin.filterVals; safe_tac
  | cons x xs ih =>
    intro acc H N h; refine SafeH.of_hyp h ?_; unfold callBuiltin.filterVals; safe_tac

theorem safe_reduceVals {f : Val} {xs : List Val} : ∀ {acc : Val} {H : Prop} {N : Nat},
    (H → max f.bound (max (valsBound xs) acc.bound) ≤ N) →
      SafeH H N (callBuiltin.reduceVals r f acc xs) bq := by
  induction xs with
  | nil => intro acc H N h; refine SafeH.of_hyp h ?_; unfold callBuiltin.reduceVals; safe_tac
  | cons x xs ih =>
    intro acc H N h; refine SafeH.of_hyp h ?_; unfold callBuiltin.reduceVals; safe_tac

theorem safe_findVals {f dflt : Val} {xs : List Val} : ∀ {H : Prop} {N : Nat},
    (H → max f.bound (max (valsBound xs) dflt.bound) ≤ N) →
      SafeH H N (callBuiltin.findVals r f dflt xs) bq := by
  induction xs with
  | nil => intro H N h; refine SafeH.of_hyp h ?_; unfold callBuiltin.findVals; safe_tac
  | cons x xs ih =>
    intro H N h; refine SafeH.of_hyp h ?_; unfold callBuiltin.findVals; safe_tac

theorem safe_assocLoop {p key : Val} {l : Val} : ∀ {H : Prop} {N : Nat},
    (H → max p.bound (max key.bound l.bound) ≤ N) →
      SafeH H N (callBuiltin.assocLoop r p key l) bq := by
  induction l with
  | cons i item rest _ ih =>
    intro H N h; refine SafeH.of_hyp h ?_; unfold callBuiltin.assocLoop; safe_tac
  | _ => intro H N h; unfold callBuiltin.assocLoop; safe_tac

end

macro_rules | `(tactic| safe_leaf) => `(tactic| ((with_reducible apply safe_mapVals (by assumption)); safe_side))
macro_rules | `(tactic| safe_leaf) => `(tactic| ((with_reducible apply safe_filterVals (by assumption)); safe_side))
macro_rules | `(tactic| safe_leaf) => `(tactic| ((with_reducible apply safe_reduceVals (by assumption)); safe_side))
macro_rules | `(tactic| safe_leaf) => `(tactic| ((with_reducible apply safe_findVals (by assumption)); safe_side))
macro_rules | `(tactic| safe_leaf) => `(tactic| ((with_reducible apply safe_assocLoop (by assumption)); safe_side))
macro_rules | `(tactic| safe_leaf) => `(tactic| ((with_reducible apply safe_reduceWith (by assumption) (safeMethod_arithV _)); safe_side))
macro_rules | `(tactic| safe_leaf) => `(tactic| ((with_reducible apply safe_reduceWith (by assumption) (safeMethod_maxMinV _)); safe_side))
macro_rules | `(tactic| safe_leaf) => `(tactic| ((with_reducible apply safe_foldVals (safeMethod_arithV _)); safe_side))

/-! ## parameter lists -/

theorem all_bound (ps : Params) :
    symsBound ps.all = max (symsBound ps.req) (max (symsBound ps.opt)
      (match ps.rest with | some r => r + 1 | none => 0)) := by
  unfold Params.all
  cases ps.rest <;> simp <;> omega

theorem bound_parseParamsAux {c : Ctx} {v : Val} {mode : Nat} {acc ps : Params}
    (h : parseParamsAux c v mode acc = .ok ps) : symsBound ps.all ≤ max v.bound (symsBound acc.all) := by
  fun_induction parseParamsAux c v mode acc <;>
    first
    | (cases h; done)
    | (cases h
       simp only [all_bound, bound_cons, bound_sym, symsBound_append, symsBound_cons, symsBound_nil] at *
       omega)
    | (rename_i ih
       have := ih h
       simp only [all_bound, bound_cons, bound_sym, symsBound_append, symsBound_cons, symsBound_nil] at *
       omega)

theorem bound_parseParams {c : Ctx} {v : Val} {ps : Params} (h : parseParams c v = .ok ps) :
    symsBound ps.all ≤ v.bound := by
  unfold parseParams at h
  split at h
  · cases h
  · have := bound_parseParamsAux h
    have e : symsBound (Params.all ⟨[], [], none⟩) = 0 := rfl
    rw [e] at this
    omega

theorem safe_liftE_parseParams {H : Prop} {N : Nat} {c : Ctx} {v : Val} (h : H → v.bound ≤ N) :
    SafeH H N (liftE (parseParams c v)) bq :=
  SafeH.liftE fun hh a ha => Nat.le_trans (bound_parseParams ha) (h hh)

macro_rules | `(tactic| safe_leaf) => `(tactic| ((with_reducible apply safe_liftE_parseParams); safe_side))

/-! ## `assoc`, `append`, `gethash` -/

theorem safe_pure_assocFind {H : Prop} {N : Nat} {t : Val → Bool} {v : Val} (h : H → v.bound ≤ N) :
    SafeH H N (pure (assocFind t v) : M Val) bq := by
  apply SafeH.pure
  have := bound_assocFind t v
  intro hh; have := h hh
  simp only [bq_def, bnd_val]; omega

macro_rules | `(tactic| safe_leaf) => `(tactic| ((with_reducible apply safe_pure_assocFind); safe_side))

theorem safe_assocM {r : Rec} (hr : SafeRec r) {key alist testfn : Val} {H : Prop} {N : Nat}
    (h : H → max key.bound (max alist.bound testfn.bound) ≤ N) :
    SafeH H N (callBuiltin.assocM r key alist testfn) bq := by
  refine SafeH.of_hyp h ?_
  unfold callBuiltin.assocM
  safe_tac

macro_rules | `(tactic| safe_leaf) => `(tactic| ((with_reducible apply safe_assocM (by assumption)); safe_side))

theorem safe_appendFold {others : List Val} : ∀ {start : Acc} {H : Prop} {N : Nat},
    (H → max (bnd start) (valsBound others) ≤ N) →
      SafeH H N (others.foldlM (fun (acc : Acc) v => do
        let cp ← deepCopy v
        acc.append cp) start) bq := by
  induction others with
  | nil => intro start H N h; refine SafeH.of_hyp h ?_; simp only [List.foldlM_nil]; safe_tac
  | cons v vs ih =>
    intro start H N h
    refine SafeH.of_hyp h ?_
    simp only [List.foldlM_cons]
    safe_tac

macro_rules | `(tactic| safe_leaf) => `(tactic| ((with_reducible apply safe_appendFold); safe_side))

end Tulisp
