/-
  Proofs/C08.lean — helper lemmas for C08 (the reader is total) and C16 (positions).
-/
import Tulisp.Model.Reader
namespace Tulisp.C08
open Tulisp

/-! ## Parser: joint invariant -/

/-- Post-condition of a parser call started with `n` tokens left: it never panics, it leaves at
    most `n` tokens (strictly fewer on success), it may answer `eof` only if `eofOk` and `fuel`
    only if `fuelOk`. -/
def Post {α : Type} (n : Nat) (eofOk fuelOk : Prop) : PRes α × PState → Prop
  | (.ok _, st) => st.toks.length < n
  | (.eof, st) => eofOk ∧ st.toks.length ≤ n
  | (.err _, st) => st.toks.length ≤ n
  | (.panic _, _) => False
  | (.fuel, st) => fuelOk ∧ st.toks.length ≤ n

section
variable {α : Type} {n : Nat} {e fu : Prop} {st : PState}
theorem post_ok {a : α} : Post n e fu (PRes.ok a, st) ↔ st.toks.length < n := Iff.rfl
theorem post_eof : Post (α := α) n e fu (PRes.eof, st) ↔ e ∧ st.toks.length ≤ n := Iff.rfl
theorem post_err {x : ParseErr} : Post (α := α) n e fu (PRes.err x, st) ↔ st.toks.length ≤ n := Iff.rfl
theorem post_panic {p : String} : Post (α := α) n e fu (PRes.panic p, st) ↔ False := Iff.rfl
theorem post_fuel : Post (α := α) n e fu (PRes.fuel, st) ↔ fu ∧ st.toks.length ≤ n := Iff.rfl
end

theorem Post.mono {α : Type} {m n : Nat} {e e' fu fu' : Prop} {r : PRes α × PState}
    (h : Post m e fu r) (hmn : m ≤ n) (he : e → e') (hf : fu → fu') : Post n e' fu' r := by
  rcases r with ⟨r, st⟩
  cases r <;> simp only [Post] at h ⊢
  · omega
  · exact ⟨he h.1, by omega⟩
  · omega
  · exact ⟨hf h.1, by omega⟩

def PV (f : Nat) : Prop := ∀ st : PState,
  Post st.toks.length (st.toks = []) (f < 2 * st.toks.length + 1) (parseValue f st)
def PW (f : Nat) : Prop := ∀ (sp : Span) (mk : Sx → Sx) (st : PState),
  Post st.toks.length False (f < 2 * st.toks.length + 2) (wrap f sp mk st)
def PL (f : Nat) : Prop := ∀ (start : Span) (acc : List Sx) (st : PState),
  Post st.toks.length False (f < 2 * st.toks.length + 2) (parseListItems f start acc st)

theorem pv_step {f : Nat} (hW : PW f) (hL : PL f) : PV (f + 1) := by
  intro st
  rcases st with ⟨toks, ev⟩
  cases toks with
  | nil => simp [parseValue, Post]
  | cons tk rest =>
    rcases tk with ⟨tok, sp⟩
    cases tok <;> simp only [parseValue, List.length_cons]
    case «open» =>
      exact (hL sp [] ⟨rest, ev⟩).mono (by simp) (fun h => h.elim) (by simp only; omega)
    case quote =>
      exact (hW sp _ ⟨rest, ev⟩).mono (by simp) (fun h => h.elim) (by simp only; omega)
    case sharpquote =>
      exact (hW sp _ ⟨rest, ev⟩).mono (by simp) (fun h => h.elim) (by simp only; omega)
    case backtick =>
      exact (hW sp _ ⟨rest, ev⟩).mono (by simp) (fun h => h.elim) (by simp only; omega)
    case comma =>
      exact (hW sp _ ⟨rest, ev⟩).mono (by simp) (fun h => h.elim) (by simp only; omega)
    case splice =>
      exact (hW sp _ ⟨rest, ev⟩).mono (by simp) (fun h => h.elim) (by simp only; omega)
    all_goals simp [Post]

theorem pw_step {f : Nat} (hV : PV f) : PW (f + 1) := by
  intro sp mk st
  have h := hV st
  simp only [wrap]
  rcases hr : parseValue f st with ⟨r, st'⟩
  rw [hr] at h
  cases r <;> simp only [Post] at h ⊢
  · exact h
  · omega
  · exact h
  · exact ⟨by omega, h.2⟩

theorem pl_step {f : Nat} (hV : PV f) (hL : PL f) : PL (f + 1) := by
  intro start acc st
  rcases st with ⟨toks, ev⟩
  cases toks with
  | nil => simp [parseListItems, Post]
  | cons tk rest =>
    cases htok : tk.tok <;> simp only [parseListItems, htok, List.length_cons]
    case close =>
      split <;> simp [Post]
    case dot =>
      have h := hV ⟨rest, ev⟩
      rcases hr : parseValue f ⟨rest, ev⟩ with ⟨r, st2⟩
      rw [hr] at h
      cases r <;> simp only [post_ok, post_eof, post_err, post_panic, post_fuel] at h ⊢
      · rcases st2 with ⟨toks2, ev2⟩
        cases toks2 with
        | nil => simp [post_err]
        | cons tk2 rest2 =>
          simp only [List.length_cons] at h ⊢
          split
          · split <;> simp only [post_ok] <;> omega
          · simp only [post_err]; omega
      · omega
      · omega
      · exact ⟨by omega, by omega⟩
    all_goals
      have h := hV ⟨tk :: rest, ev⟩
      rcases hr : parseValue f ⟨tk :: rest, ev⟩ with ⟨r, st'⟩
      rw [hr] at h
      cases r <;> simp only [post_ok, post_eof, post_err, post_panic, post_fuel, List.length_cons] at h ⊢
      · exact (hL _ _ st').mono (by omega) id (by omega)
      · exact (List.cons_ne_nil _ _ h.1).elim
      · exact h
      · exact ⟨by omega, h.2⟩

/-- The joint invariant holds for every fuel. -/
theorem inv_all (f : Nat) : PV f ∧ PW f ∧ PL f := by
  induction f with
  | zero =>
    refine ⟨?_, ?_, ?_⟩
    · intro st; simp only [parseValue, post_fuel]; omega
    · intro sp mk st; simp only [wrap, post_fuel]; omega
    · intro start acc st; simp only [parseListItems, post_fuel]; omega
  | succ f ih =>
    exact ⟨pv_step ih.2.1 ih.2.2, pw_step ih.1, pl_step ih.1 ih.2.2⟩

theorem pv_all (f : Nat) : PV f := (inv_all f).1
theorem pw_all (f : Nat) : PW f := (inv_all f).2.1
theorem pl_all (f : Nat) : PL f := (inv_all f).2.2

/-- Post-condition of the top-level loop: a program or an error; `fuel` only if `fuelOk`. -/
def PostAll (fuelOk : Prop) : PRes (List Sx) × PState → Prop
  | (.ok _, _) => True
  | (.eof, _) => False
  | (.err _, _) => True
  | (.panic _, _) => False
  | (.fuel, _) => fuelOk

theorem pa_all (f : Nat) : ∀ (acc : List Sx) (st : PState),
    PostAll (f < 2 * st.toks.length + 2) (parseAll f acc st) := by
  induction f with
  | zero => intro acc st; simp only [parseAll, PostAll]; omega
  | succ f ih =>
    intro acc st
    have h := pv_all f st
    simp only [parseAll]
    rcases hr : parseValue f st with ⟨r, st'⟩
    rw [hr] at h
    cases r <;> simp only [post_ok, post_eof, post_err, post_panic, post_fuel] at h ⊢
    · rename_i x
      have h2 := ih (x :: acc) st'
      revert h2
      generalize parseAll f (x :: acc) st' = q
      rcases q with ⟨q, st''⟩
      cases q <;> simp only [PostAll] <;> first | exact id | (intro h2; omega)
    · trivial
    · trivial
    · simp only [PostAll]; omega

/-! ## Tokenizer: positions -/

/-- Advance a position over one character: what `next_char` is meant to do. -/
def advPos (p : Pos) (c : Char) : Pos :=
  if c = '\n' then ⟨p.line + 1, 1⟩ else ⟨p.line, p.col + 1⟩

theorem adv_pos (s : TState) (c : Char) :
    (⟨(s.adv c).line, (s.adv c).col⟩ : Pos) = advPos ⟨s.line, s.col⟩ c := by
  unfold TState.adv advPos
  split <;> rfl

/-- Tokens that the pending mode will still emit at the latest when the input ends. -/
def pending : Mode → Nat
  | .normal => 0
  | .comment => 0
  | _ => 1

/-- Emitted tokens plus the one the pending mode still owes. -/
def wt (s : TState) : Nat := s.out.length + pending s.mode

theorem ite_le {c : Prop} [Decidable c] {a b k : Nat} (ha : a ≤ k) (hb : b ≤ k) :
    (if c then a else b) ≤ k := by split <;> assumption

theorem adv_out (s : TState) (c : Char) : (s.adv c).out = s.out := by
  unfold TState.adv; split <;> rfl
theorem adv_mode (s : TState) (c : Char) : (s.adv c).mode = s.mode := by
  unfold TState.adv; split <;> rfl

theorem adv_line (s : TState) (c : Char) :
    (s.adv c).line = (advPos ⟨s.line, s.col⟩ c).line := by
  unfold TState.adv advPos; split <;> rfl
theorem adv_col (s : TState) (c : Char) :
    (s.adv c).col = (advPos ⟨s.line, s.col⟩ c).col := by
  unfold TState.adv advPos; split <;> rfl

theorem stepNormal_line (s : TState) (c : Char) :
    (stepNormal s c).line = (advPos ⟨s.line, s.col⟩ c).line := by
  unfold stepNormal
  simp only [apply_ite TState.line, TState.emit, ite_self, adv_line]

theorem stepNormal_col (s : TState) (c : Char) :
    (stepNormal s c).col = (advPos ⟨s.line, s.col⟩ c).col := by
  unfold stepNormal
  simp only [apply_ite TState.col, TState.emit, ite_self, adv_col]

/-- A normal-mode step emits or begins at most one token. -/
theorem stepNormal_wt (s : TState) (c : Char) (hm : s.mode = .normal) :
    wt (stepNormal s c) ≤ s.out.length + 1 := by
  unfold stepNormal
  simp only [apply_ite wt, TState.emit]
  simp only [wt, adv_out, adv_mode, hm, pending, List.length_cons]
  repeat' apply ite_le
  all_goals omega

theorem tstep_line (s : TState) (c : Char) :
    (tstep s c).line = (advPos ⟨s.line, s.col⟩ c).line := by
  unfold tstep
  split <;> simp only [apply_ite TState.line, TState.emit, stepNormal_line, adv_line, ite_self]

theorem tstep_col (s : TState) (c : Char) :
    (tstep s c).col = (advPos ⟨s.line, s.col⟩ c).col := by
  unfold tstep
  split <;> simp only [apply_ite TState.col, TState.emit, stepNormal_col, adv_col, ite_self]

/-- Every tokenizer step advances the position over exactly the character it is given. -/
theorem tstep_pos (s : TState) (c : Char) :
    (⟨(tstep s c).line, (tstep s c).col⟩ : Pos) = advPos ⟨s.line, s.col⟩ c := by
  rw [tstep_line, tstep_col]

theorem stepNormal_wt' (s : TState) (c : Char) (k : Nat) (hm : s.mode = .normal)
    (hk : s.out.length + 1 ≤ k) : wt (stepNormal s c) ≤ k :=
  Nat.le_trans (stepNormal_wt s c hm) hk

/-- Amortised token count: a step raises "emitted + owed" by at most one. -/
theorem tstep_wt (s : TState) (c : Char) : wt (tstep s c) ≤ wt s + 1 := by
  unfold tstep
  split
  next hm => exact stepNormal_wt' s c _ hm (by simp only [wt, hm, pending]; omega)
  next hm =>
    simp only [apply_ite wt]
    simp only [wt, hm, pending, adv_out, adv_mode]
    repeat' apply ite_le
    all_goals omega
  next hm =>
    simp only [apply_ite wt]
    apply ite_le
    · simp only [wt, hm, pending, TState.emit, adv_out, List.length_cons]; omega
    · apply stepNormal_wt' _ c _ rfl
      simp only [wt, hm, pending, TState.emit, List.length_cons]; omega
  next hm =>
    simp only [apply_ite wt]
    apply ite_le
    · simp only [wt, hm, pending, TState.emit, adv_out, List.length_cons]; omega
    · apply stepNormal_wt' _ c _ rfl
      simp only [wt, hm, pending, TState.emit, List.length_cons]; omega
  next hm =>
    simp only [apply_ite wt]
    repeat' apply ite_le
    all_goals (simp only [wt, hm, pending, TState.emit, adv_out, List.length_cons]; omega)
  next hm =>
    simp only [apply_ite wt]
    repeat' apply ite_le
    all_goals (simp only [wt, hm, pending, TState.emit, adv_out, List.length_cons]; omega)
  next hm =>
    simp only [apply_ite wt]
    apply ite_le
    · apply stepNormal_wt' _ c _ rfl
      simp only [wt, hm, pending, TState.emit, List.length_cons]; omega
    · repeat' apply ite_le
      all_goals (simp only [wt, hm, pending, adv_out]; omega)

theorem foldl_tstep_wt (cs : List Char) : ∀ s : TState,
    wt (cs.foldl tstep s) ≤ wt s + cs.length := by
  induction cs with
  | nil => intro s; simp
  | cons c cs ih =>
    intro s
    have h1 := ih (tstep s c)
    have h2 := tstep_wt s c
    simp only [List.foldl_cons, List.length_cons]
    omega

theorem tfinish_length (s : TState) : (tfinish s).length ≤ wt s := by
  unfold tfinish
  split <;> rename_i hm <;>
    simp only [wt, hm, pending, TState.emit, List.length_reverse, List.length_cons] <;> omega

theorem foldl_tstep_pos (cs : List Char) : ∀ s : TState,
    (⟨(cs.foldl tstep s).line, (cs.foldl tstep s).col⟩ : Pos) = cs.foldl advPos ⟨s.line, s.col⟩ := by
  induction cs with
  | nil => intro s; rfl
  | cons c cs ih =>
    intro s
    simp only [List.foldl_cons]
    rw [ih (tstep s c), tstep_pos]

/-! ## `advPos` in closed form -/

theorem foldl_advPos_line (cs : List Char) : ∀ p : Pos,
    (cs.foldl advPos p).line = p.line + cs.count '\n' := by
  induction cs with
  | nil => intro p; simp
  | cons c cs ih =>
    intro p
    simp only [List.foldl_cons, ih, List.count_cons]
    unfold advPos
    by_cases hc : c = '\n'
    · simp [hc]; omega
    · simp [hc]

theorem advPos_nl (p : Pos) : advPos p '\n' = ⟨p.line + 1, 1⟩ := by
  simp [advPos]
theorem advPos_ne (p : Pos) (c : Char) (h : c ≠ '\n') : advPos p c = ⟨p.line, p.col + 1⟩ := by
  simp [advPos, h]

theorem foldl_advPos_col_rev (l : List Char) (p : Pos) :
    (l.reverse.foldl advPos p).col =
      if l.all (· ≠ '\n') then p.col + l.length
      else 1 + (l.takeWhile (· ≠ '\n')).length := by
  induction l with
  | nil => simp
  | cons c l ih =>
    rw [List.reverse_cons, List.foldl_append]
    simp only [List.foldl_cons, List.foldl_nil]
    by_cases hc : c = '\n'
    · subst hc
      rw [advPos_nl]
      simp
    · rw [advPos_ne _ _ hc]
      show (l.reverse.foldl advPos p).col + 1 = _
      rw [ih]
      simp only [List.all_cons, List.takeWhile_cons, hc, ne_eq, not_false_eq_true, decide_true,
        Bool.true_and, if_true, List.length_cons]
      split <;> omega

end Tulisp.C08
