/-
  Proofs/SafeEval.lean — the invariant of Proofs/Safe.lean for the helpers of Model/Eval.lean,
  given that the recursive calls (`r : Rec`) satisfy it.
-/
import Tulisp.Proofs.Safe
namespace Tulisp

/-- the evaluator one level down satisfies the invariant -/
structure SafeRec (r : Rec) : Prop where
  eval : ∀ (H : Prop) (N : Nat) (e : Val), (H → e.bound ≤ N) → SafeH H N (r.eval e) bq
  mexp : ∀ (H : Prop) (N : Nat) (e : Val), (H → e.bound ≤ N) → SafeH H N (r.mexp e) bq
  load : ∀ (H : Prop) (N : Nat) (n : String), SafeH H N (r.load n) bq

/-! ## pure list functions only return parts of their arguments -/

theorem bound_carV {v a : Val} (h : carV v = .ok a) : a.bound ≤ v.bound := by
  cases v <;> simp [carV] at h <;> subst h <;> simp
  omega

theorem bound_cdrV {v a : Val} (h : cdrV v = .ok a) : a.bound ≤ v.bound := by
  cases v <;> simp [cdrV] at h <;> subst h <;> simp
  omega

theorem bound_cxrV {path : List Bool} {v a : Val} (h : cxrV path v = .ok a) : a.bound ≤ v.bound := by
  induction path generalizing a with
  | nil => simp [cxrV] at h; subst h; exact Nat.le_refl _
  | cons b bs ih =>
    simp only [cxrV, List.foldr_cons] at h
    cases hx : List.foldr (fun isA acc => do
        let x ← acc
        if isA = true then carV x else cdrV x) (Except.ok v) bs with
    | error k => rw [hx] at h; cases h
    | ok x =>
      rw [hx] at h
      have h1 := ih hx
      simp only [bind, Except.bind] at h
      cases b
      · have := bound_cdrV h; simp at *; omega
      · have := bound_carV h; simp at *; omega

theorem bound_nthcdrNat {n : Nat} {v a : Val} (h : nthcdrNat n v = .ok a) : a.bound ≤ v.bound := by
  induction n generalizing v with
  | zero => simp [nthcdrNat] at h; subst h; exact Nat.le_refl _
  | succ n ih =>
    simp only [nthcdrNat] at h
    split at h
    · cases h; exact Nat.le_refl _
    · cases hd : cdrV v with
      | error k => rw [hd] at h; cases h
      | ok d =>
        rw [hd] at h
        exact Nat.le_trans (ih h) (bound_cdrV hd)

theorem bound_nthcdrV {n : Int} {v a : Val} (h : nthcdrV n v = .ok a) : a.bound ≤ v.bound := by
  unfold nthcdrV at h
  split at h
  · cases h; exact Nat.le_refl _
  · exact bound_nthcdrNat h

theorem bound_nthV {n : Int} {v a : Val} (h : nthV n v = .ok a) : a.bound ≤ v.bound := by
  unfold nthV at h
  cases hd : nthcdrV n v with
  | error k => rw [hd] at h; cases h
  | ok d =>
    rw [hd] at h
    exact Nat.le_trans (bound_carV h) (bound_nthcdrV hd)

theorem bound_lastV {l a : Val} {n : Option Int} (h : lastV l n = .ok a) : a.bound ≤ l.bound := by
  unfold lastV at h
  split at h
  · cases h; exact Nat.le_refl _
  · split at h
    · cases h
    · simp only at h
      split at h
      · split at h
        · cases h
        · split at h
          · exact bound_nthcdrV h
          · cases h; exact Nat.le_refl _
      · exact bound_nthcdrV h

theorem bound_assocFind (test : Val → Bool) (v : Val) : (assocFind test v).bound ≤ v.bound := by
  fun_induction assocFind test v <;> simp at * <;> omega

theorem bound_plistGet {c : Ctx} {prop v a : Val} (h : plistGet c prop v = .ok a) :
    a.bound ≤ v.bound := by
  fun_induction plistGet c prop v with
  | case1 i k rest hk => have := bound_carV h; simp; omega
  | case2 i k j x rest' hk ih => have := ih h; simp at *; omega
  | case3 => cases h; simp
  | case4 => cases h
  | case5 => cases h; simp

@[simp, bnd_simp] theorem bound_toVal (n : Num) : n.toVal.bound = 0 := by cases n <;> rfl
@[simp, bnd_simp] theorem bound_ofBool (b : Bool) : (ofBool b).bound = 0 := by cases b <;> rfl

/-! ## automation -/

/-- discharge a side condition `H → bound … ≤ N` from the facts collected in `H` -/
syntax "safe_side" : tactic
macro_rules
  | `(tactic| safe_side) =>
    `(tactic| (intro hh; (try simp only [bnd_simp, and_true, true_and] at hh ⊢); omega))

/-- close a goal `SafeH H N m Q` for a primitive `m` (extended below by `macro_rules`) -/
syntax "safe_leaf" : tactic
macro_rules | `(tactic| safe_leaf) => `(tactic| with_reducible exact SafeH.throw)
macro_rules | `(tactic| safe_leaf) => `(tactic| with_reducible exact SafeH.outOfFuel)
macro_rules | `(tactic| safe_leaf) => `(tactic| with_reducible exact SafeH.get)
macro_rules | `(tactic| safe_leaf) => `(tactic| with_reducible exact safe_newId)
macro_rules | `(tactic| safe_leaf) => `(tactic| with_reducible exact safe_mkStr)
macro_rules | `(tactic| safe_leaf) => `(tactic| with_reducible exact safe_symVal)
macro_rules | `(tactic| safe_leaf) => `(tactic| with_reducible exact safe_internM)
macro_rules | `(tactic| safe_leaf) => `(tactic| ((with_reducible apply SafeH.pure); safe_side))
macro_rules | `(tactic| safe_leaf) => `(tactic| ((with_reducible apply SafeH.pure'); safe_side))
macro_rules | `(tactic| safe_leaf) => `(tactic| ((with_reducible apply safe_mkCons); safe_side))
macro_rules | `(tactic| safe_leaf) => `(tactic| ((with_reducible apply safe_mkListM); safe_side))
macro_rules | `(tactic| safe_leaf) => `(tactic| ((with_reducible apply safe_getSym); safe_side))
macro_rules | `(tactic| safe_leaf) => `(tactic| ((with_reducible apply safe_setV); safe_side))
macro_rules | `(tactic| safe_leaf) => `(tactic| ((with_reducible apply safe_setGlobalV); safe_side))
macro_rules | `(tactic| safe_leaf) => `(tactic| ((with_reducible apply safe_modSym_set); safe_side))
macro_rules | `(tactic| safe_leaf) => `(tactic| ((with_reducible apply SafeRec.eval (by assumption)); safe_side))
macro_rules | `(tactic| safe_leaf) => `(tactic| ((with_reducible apply SafeRec.mexp (by assumption)); safe_side))
macro_rules | `(tactic| safe_leaf) => `(tactic| with_reducible exact SafeRec.load (by assumption) _ _ _)
macro_rules | `(tactic| safe_leaf) => `(tactic| ((with_reducible apply_assumption) <;> safe_side))

syntax "safe_step" : tactic
macro_rules
  | `(tactic| safe_step) =>
    `(tactic| first
      | safe_leaf
      | ((with_reducible apply SafeH.bind); safe_leaf; intro _ _)
      | with_reducible apply SafeH.bind (Qm := bq)
      | intro _
      | dsimp only
      | split)

syntax "safe_tac" : tactic
macro_rules | `(tactic| safe_tac) => `(tactic| repeat' safe_step)

/-! ## small helpers -/

theorem safe_liftE_carV {H : Prop} {N : Nat} {v : Val} (h : H → v.bound ≤ N) :
    SafeH H N (liftE (carV v)) bq :=
  SafeH.liftE fun hh a ha => Nat.le_trans (bound_carV ha) (h hh)

theorem safe_liftE_cdrV {H : Prop} {N : Nat} {v : Val} (h : H → v.bound ≤ N) :
    SafeH H N (liftE (cdrV v)) bq :=
  SafeH.liftE fun hh a ha => Nat.le_trans (bound_cdrV ha) (h hh)

theorem safe_liftE_cxrV {H : Prop} {N : Nat} {v : Val} {p : List Bool} (h : H → v.bound ≤ N) :
    SafeH H N (liftE (cxrV p v)) bq :=
  SafeH.liftE fun hh a ha => Nat.le_trans (bound_cxrV ha) (h hh)

theorem safe_liftE_nthV {H : Prop} {N : Nat} {v : Val} {n : Int} (h : H → v.bound ≤ N) :
    SafeH H N (liftE (nthV n v)) bq :=
  SafeH.liftE fun hh a ha => Nat.le_trans (bound_nthV ha) (h hh)

theorem safe_liftE_nthcdrV {H : Prop} {N : Nat} {v : Val} {n : Int} (h : H → v.bound ≤ N) :
    SafeH H N (liftE (nthcdrV n v)) bq :=
  SafeH.liftE fun hh a ha => Nat.le_trans (bound_nthcdrV ha) (h hh)

theorem safe_liftE_lastV {H : Prop} {N : Nat} {v : Val} {n : Option Int} (h : H → v.bound ≤ N) :
    SafeH H N (liftE (lastV v n)) bq :=
  SafeH.liftE fun hh a ha => Nat.le_trans (bound_lastV ha) (h hh)

theorem safe_liftE_plistGet {H : Prop} {N : Nat} {c : Ctx} {p v : Val} (h : H → v.bound ≤ N) :
    SafeH H N (liftE (plistGet c p v)) bq :=
  SafeH.liftE fun hh a ha => Nat.le_trans (bound_plistGet ha) (h hh)

macro_rules | `(tactic| safe_leaf) => `(tactic| ((with_reducible apply safe_liftE_carV); safe_side))
macro_rules | `(tactic| safe_leaf) => `(tactic| ((with_reducible apply safe_liftE_cdrV); safe_side))
macro_rules | `(tactic| safe_leaf) => `(tactic| ((with_reducible apply safe_liftE_cxrV); safe_side))
macro_rules | `(tactic| safe_leaf) => `(tactic| ((with_reducible apply safe_liftE_nthV); safe_side))
macro_rules | `(tactic| safe_leaf) => `(tactic| ((with_reducible apply safe_liftE_nthcdrV); safe_side))
macro_rules | `(tactic| safe_leaf) => `(tactic| ((with_reducible apply safe_liftE_lastV); safe_side))
macro_rules | `(tactic| safe_leaf) => `(tactic| ((with_reducible apply safe_liftE_plistGet); safe_side))

section
variable {H : Prop} {N : Nat}

theorem safe_numOf {v : Val} : SafeH H N (numOf v) bq := by unfold numOf; safe_tac
theorem safe_liftNum {e : Except NumErr Num} : SafeH H N (liftNum e) bq := by
  unfold liftNum; safe_tac
theorem safe_strOf {v : Val} : SafeH H N (strOf v) bq := by unfold strOf; safe_tac
theorem safe_intOf {v : Val} : SafeH H N (intOf v) bq := by unfold intOf; safe_tac
theorem safe_printOrSkip {o : Option String} : SafeH H N (printOrSkip o) bq := by
  unfold printOrSkip; safe_tac

theorem safe_nextForm {args : Val} (h : H → args.bound ≤ N) : SafeH H N (nextForm args) bq := by
  unfold nextForm
  refine SafeH.of_hyp h ?_
  safe_tac

end

macro_rules | `(tactic| safe_leaf) => `(tactic| with_reducible exact safe_numOf)
macro_rules | `(tactic| safe_leaf) => `(tactic| with_reducible exact safe_liftNum)
macro_rules | `(tactic| safe_leaf) => `(tactic| with_reducible exact safe_strOf)
macro_rules | `(tactic| safe_leaf) => `(tactic| with_reducible exact safe_intOf)
macro_rules | `(tactic| safe_leaf) => `(tactic| with_reducible exact safe_printOrSkip)
macro_rules | `(tactic| safe_leaf) => `(tactic| ((with_reducible apply safe_nextForm); safe_side))

section
variable {H : Prop} {N : Nat} {r : Rec} (hr : SafeRec r)
include hr

theorem safe_nextArg {args : Val} (h : H → args.bound ≤ N) : SafeH H N (nextArg r args) bq := by
  unfold nextArg
  refine SafeH.of_hyp h ?_
  safe_tac

theorem safe_nextArgOpt {args : Val} (h : H → args.bound ≤ N) : SafeH H N (nextArgOpt r args) bq := by
  unfold nextArgOpt
  refine SafeH.of_hyp h ?_
  safe_tac

theorem safe_evalProgn {e : Val} : ∀ {H : Prop} {N : Nat}, (H → e.bound ≤ N) →
    SafeH H N (evalProgn r e) bq := by
  induction e with
  | cons i a d _ ihd =>
    intro H N h
    refine SafeH.of_hyp h ?_
    unfold evalProgn
    safe_tac
  | _ => intro H N h; unfold evalProgn; safe_tac

theorem safe_evalEach {e : Val} : ∀ {H : Prop} {N : Nat}, (H → e.bound ≤ N) →
    SafeH H N (evalEach r e) bq := by
  induction e with
  | cons i a d _ ihd =>
    intro H N h
    refine SafeH.of_hyp h ?_
    unfold evalEach
    safe_tac
  | _ => intro H N h; unfold evalEach; safe_tac

end

macro_rules | `(tactic| safe_leaf) => `(tactic| ((with_reducible apply safe_nextArg (by assumption)); safe_side))
macro_rules | `(tactic| safe_leaf) => `(tactic| ((with_reducible apply safe_nextArgOpt (by assumption)); safe_side))
macro_rules | `(tactic| safe_leaf) => `(tactic| ((with_reducible apply safe_evalProgn (by assumption)); safe_side))
macro_rules | `(tactic| safe_leaf) => `(tactic| ((with_reducible apply safe_evalEach (by assumption)); safe_side))

theorem safe_pure_elems {H : Prop} {N : Nat} {v : Val} (h : H → v.bound ≤ N) :
    SafeH H N (pure v.elems : M (List Val)) bq := by
  apply SafeH.pure
  have := bound_elems v
  intro hh; have := h hh
  simp only [bnd_simp]; omega

macro_rules | `(tactic| safe_leaf) => `(tactic| ((with_reducible apply safe_pure_elems); safe_side))

/-- add a state-independent fact about the result to the postcondition -/
theorem SafeH.and_res {α} {H : Prop} {N : Nat} {m : M α} {Q : α → Nat → Prop} {P : α → Prop}
    (h : SafeH H N m Q) (hp : ∀ c a, (m c).1 = .ok a → P a) :
    SafeH H N m (fun a N' => Q a N' ∧ P a) := by
  refine ⟨fun c => ⟨(h.run c).1, fun hh hw hc hn => ?_⟩⟩
  have p := (h.run c).2 hh hw hc hn
  exact ⟨p.ld, p.closed, p.size, fun a ha => ⟨p.res a ha, hp c a ha⟩⟩

/-! ## list building -/

section
variable {H : Prop} {N : Nat}

theorem valsBound_map_le {f : Val → Val} (hf : ∀ v, (f v).bound ≤ v.bound) (xs : List Val) :
    valsBound (xs.map f) ≤ valsBound xs := by
  induction xs with
  | nil => simp
  | cons x xs ih => have := hf x; simp only [List.map_cons, valsBound_cons]; omega

theorem safe_quoteArgs {vals : List Val} (h : H → valsBound vals ≤ N) :
    SafeH H N (quoteArgs vals) bq := by
  unfold quoteArgs
  apply safe_mkListM
  intro hh
  have := h hh
  have := valsBound_map_le (f := fun v => if selfEvaluating v = true then v else Val.quote v)
    (by intro v; split <;> simp) vals
  simp only [bound_nil]; omega

theorem safe_deepCopy {v : Val} (h : H → v.bound ≤ N) : SafeH H N (deepCopy v) bq := by
  unfold deepCopy
  refine SafeH.of_hyp h ?_
  split
  · next i a d =>
    apply safe_mkListM
    have := bound_spine d
    intro hh; simp only [bnd_simp] at hh ⊢; omega
  · safe_tac

theorem safe_Acc_push {a : Acc} {x : Val} (h : H → max (bnd a) x.bound ≤ N) :
    SafeH H N (a.push x) bq := by
  unfold Acc.push
  refine SafeH.of_hyp h ?_
  safe_tac

theorem safe_Acc_append {a : Acc} {v : Val} (h : H → max (bnd a) v.bound ≤ N) :
    SafeH H N (a.append v) bq := by
  unfold Acc.append
  refine SafeH.of_hyp h ?_
  split
  · safe_tac
  · split
    · safe_tac
    · next i x d =>
      have := bound_spine d
      apply SafeH.pure
      intro hh; simp only [bnd_simp] at hh ⊢; omega
    · safe_tac

theorem safe_Acc_build {a : Acc} (h : H → bnd a ≤ N) : SafeH H N a.build bq := by
  unfold Acc.build
  refine SafeH.of_hyp h ?_
  safe_tac

end

macro_rules | `(tactic| safe_leaf) => `(tactic| ((with_reducible apply safe_quoteArgs); safe_side))
macro_rules | `(tactic| safe_leaf) => `(tactic| ((with_reducible apply safe_deepCopy); safe_side))
macro_rules | `(tactic| safe_leaf) => `(tactic| ((with_reducible apply safe_Acc_push); safe_side))
macro_rules | `(tactic| safe_leaf) => `(tactic| ((with_reducible apply safe_Acc_append); safe_side))
macro_rules | `(tactic| safe_leaf) => `(tactic| ((with_reducible apply safe_Acc_build); safe_side))

/-! ## numbers, comparison chains, format -/

section
variable {H : Prop} {N : Nat}

theorem safe_arithV {op : ArithOp} {a b : Val} : SafeH H N (arithV op a b) bq := by
  unfold arithV; safe_tac

theorem safe_maxMinV {isMax : Bool} {a b : Val} : SafeH H N (maxMinV isMax a b) bq := by
  unfold maxMinV; safe_tac

theorem safe_cmpChain {op : CmpOp} {vals : List Val} : SafeH H N (cmpChain op vals) bq := by
  unfold cmpChain; safe_tac

theorem safe_formatLoop {c0 : Ctx} {cs : List Char} {args : List Val} {out : String} :
    ∀ {H : Prop} {N : Nat}, SafeH H N (formatLoop c0 cs args out) bq := by
  fun_induction formatLoop c0 cs args out <;> intro H N <;> safe_tac

/-- a binary method on values that is safe whatever its arguments (they are numbers or fail) -/
def SafeMethod (method : Val → Val → M Val) : Prop :=
  ∀ (H : Prop) (N : Nat) (a b : Val), (H → max a.bound b.bound ≤ N) → SafeH H N (method a b) bq

theorem safeMethod_arithV (op : ArithOp) : SafeMethod (arithV op) := fun _ _ _ _ _ => safe_arithV
theorem safeMethod_maxMinV (b : Bool) : SafeMethod (maxMinV b) := fun _ _ _ _ _ => safe_maxMinV

theorem safe_foldVals {method : Val → Val → M Val} (hm : SafeMethod method) {vs : List Val} :
    ∀ {acc : Val} {H : Prop} {N : Nat}, (H → max acc.bound (valsBound vs) ≤ N) →
      SafeH H N (foldVals method acc vs) bq := by
  induction vs with
  | nil => intro acc H N h; refine SafeH.of_hyp h ?_; unfold foldVals; safe_tac
  | cons v vs ih =>
    intro acc H N h
    refine SafeH.of_hyp h ?_
    unfold foldVals
    apply SafeH.bind
    · apply hm; safe_side
    · intro a N'; apply ih; safe_side

end

macro_rules | `(tactic| safe_leaf) => `(tactic| with_reducible exact safe_arithV)
macro_rules | `(tactic| safe_leaf) => `(tactic| with_reducible exact safe_maxMinV)
macro_rules | `(tactic| safe_leaf) => `(tactic| with_reducible exact safe_cmpChain)
macro_rules | `(tactic| safe_leaf) => `(tactic| with_reducible exact safe_formatLoop)

section
variable {r : Rec} (hr : SafeRec r)
include hr

theorem safe_reduceRest {method : Val → Val → M Val} (hm : SafeMethod method) {args : Val} :
    ∀ {acc : Val} {H : Prop} {N : Nat}, (H → max acc.bound args.bound ≤ N) →
      SafeH H N (reduceRest r method acc args) bq := by
  induction args with
  | cons i a d _ ihd =>
    intro acc H N h
    refine SafeH.of_hyp h ?_
    unfold reduceRest
    apply SafeH.bind
    · apply hr.eval; safe_side
    · intro v N'
      apply SafeH.bind
      · apply hm; safe_side
      · intro acc' N''; apply ihd; safe_side
  | _ => intro acc H N h; refine SafeH.of_hyp h ?_; unfold reduceRest; safe_tac

theorem safe_reduceWith {method : Val → Val → M Val} (hm : SafeMethod method) {args : Val}
    {H : Prop} {N : Nat} (h : H → args.bound ≤ N) : SafeH H N (reduceWith r method args) bq := by
  refine SafeH.of_hyp h ?_
  unfold reduceWith
  split
  · apply SafeH.bind
    · apply hr.eval; safe_side
    · intro first N'
      split
      · apply safe_reduceRest hr hm; safe_side
      · safe_tac
      · safe_tac
  · safe_tac
  · safe_tac

end

/-! ## function calls: collect, bind, run, unbind -/

def restLen (rest : Option Nat) : Nat := match rest with | some _ => 1 | none => 0

@[simp, bnd_simp] theorem restLen_some (n : Nat) : restLen (some n) = 1 := rfl
@[simp, bnd_simp] theorem restLen_none : restLen none = 0 := rfl
attribute [bnd_simp] List.length_cons List.length_nil

theorem all_length (ps : Params) : ps.all.length = ps.req.length + ps.opt.length + restLen ps.rest := by
  unfold Params.all restLen
  cases ps.rest <;> simp <;> omega

/-- postcondition of `collectArgs`: closed values, exactly one per parameter -/
def argsQ (n : Nat) : List Val → Nat → Prop := fun vs N' => valsBound vs ≤ N' ∧ vs.length = n

@[bnd_simp] theorem argsQ_def (n : Nat) (vs : List Val) (N' : Nat) :
    argsQ n vs N' = (valsBound vs ≤ N' ∧ vs.length = n) := rfl

section
variable {r : Rec} (hr : SafeRec r)
include hr

theorem safe_collectArgs {evaluate : Bool} {req opt : List Nat} {rest : Option Nat} {args : Val} :
    ∀ {H : Prop} {N : Nat}, (H → args.bound ≤ N) →
      SafeH H N (collectArgs r evaluate req opt rest args)
        (argsQ (req.length + opt.length + restLen rest)) := by
  fun_induction collectArgs r evaluate req opt rest args <;> intro H N h <;>
    refine SafeH.of_hyp h ?_ <;> try safe_tac
  all_goals first
    | (apply SafeH.pure; safe_side)
    | (apply safe_pure_elems; safe_side)

end

theorem bindParams_nopanic : ∀ (ps : List Nat) (vs : List Val) (done : List Nat) (c : Ctx) (s : String),
    (bindParams ps vs done c).1 ≠ .panic s := by
  intro ps vs done
  fun_induction bindParams ps vs done with
  | case1 p ps v vs done ih =>
    intro c s
    rcases pushV_sym_spec p v c with h | h <;> simp only [h]
    · intro h'; cases h'
    · exact ih _ s
  | case2 => intro c s h; cases h

/-- `bindParams`: on success every parameter has one more local binding, on failure the ones
    already bound have been released. -/
theorem bindParams_spec (f : Nat → Int) (hf : ∀ k, 0 ≤ f k) :
    ∀ (ps : List Nat) (vs : List Val) (done : List Nat) (c : Ctx),
      Closed c → LD c = shift f done → symsBound ps ≤ c.syms.size → valsBound vs ≤ c.syms.size →
      ps.length = vs.length →
      Closed (bindParams ps vs done c).2 ∧ (bindParams ps vs done c).2.syms.size = c.syms.size ∧
        ((∀ u, (bindParams ps vs done c).1 = .ok u → LD (bindParams ps vs done c).2 = shift f (done ++ ps)) ∧
         ((∀ u, (bindParams ps vs done c).1 ≠ .ok u) → LD (bindParams ps vs done c).2 = f)) := by
  intro ps vs done
  fun_induction bindParams ps vs done with
  | case1 p ps v vs done ih =>
    intro c hc hld hps hvs hlen
    simp only [symsBound_cons, valsBound_cons, List.length_cons] at hps hvs hlen
    rcases pushV_sym_spec p v c with h | h <;> simp only [h]
    · obtain ⟨q1, q2, q3⟩ := popAll_spec f hf done c hc hld
      exact ⟨q2, q3, fun u hu => (by cases hu), fun _ => q1⟩
    · obtain ⟨q1, q2, q3⟩ := modSym_push_spec p v hc (by omega) (by omega)
      have := ih (c.modSym p (·.push v)) q2 (by
          rw [q1, hld, shift_cons, shift_cons]; funext k; simp) (by rw [q3]; omega) (by rw [q3]; omega)
        (by omega)
      rw [q3] at this
      obtain ⟨r1, r2, r3, r4⟩ := this
      refine ⟨r1, r2, fun u hu => ?_, r4⟩
      rw [r3 u hu]
      funext k
      simp only [shift, List.count_append, List.count_cons, List.cons_append]
      split <;> omega
  | case2 ps vs done hne =>
    intro c hc hld hps hvs hlen
    have hps0 : ps = [] := by
      cases ps with
      | nil => rfl
      | cons p ps =>
        cases vs with
        | nil => simp at hlen
        | cons v vs => exact (hne p ps v vs rfl rfl).elim
    subst hps0
    refine ⟨hc, rfl, fun u _ => ?_, fun hn => absurd rfl (hn ())⟩
    rw [List.append_nil]; exact hld

/-- bind the parameters, run `body`, release the parameters on every exit -/
theorem safe_bindThen {α} {H : Prop} {N : Nat} {body : M α} {Q : α → Nat → Prop} {ps : List Nat}
    {vs : List Val} (hb : SafeH H N body Q)
    (h : H → symsBound ps ≤ N ∧ valsBound vs ≤ N ∧ ps.length = vs.length) :
    SafeH H N (bindParams ps vs [] >>= fun _ => M.finally' body (fun c => ps.foldl popSymCtx c)) Q := by
  refine ⟨fun c => ?_⟩
  show (∀ s, (M.bind (bindParams ps vs []) _ c).1 ≠ .panic s) ∧
    (H → WF c → Closed c → c.syms.size = N → Post c Q (M.bind (bindParams ps vs []) _ c))
  unfold M.bind
  have hnp := bindParams_nopanic ps vs [] c
  have hspec := fun (hh : H) (hw : WF c) (hc : Closed c) (hn : c.syms.size = N) =>
    bindParams_spec (LD c) hw ps vs [] c hc (by simp) (by have := h hh; omega)
      (by have := h hh; omega) (h hh).2.2
  rcases hr : bindParams ps vs [] c with ⟨r, c'⟩
  rw [hr] at hnp hspec
  cases r with
  | ok u =>
    simp only
    refine ⟨(hb.finallyPop ps c').1, fun hh hw hc hn => ?_⟩
    obtain ⟨s1, s2, s3, _⟩ := hspec hh hw hc hn
    simp only at s1 s2 s3
    have := (hb.finallyPop ps c').2 hh (LD c) hw s1 (by simpa using s3 u trivial) (by omega)
    simp only at this
    exact ⟨this.1, this.2.1, by omega, this.2.2.2⟩
  | err k =>
    simp only
    refine ⟨fun s hs => (by cases hs), fun hh hw hc hn => ?_⟩
    obtain ⟨s1, s2, _, s4⟩ := hspec hh hw hc hn
    exact ⟨s4 (fun u hu => by cases hu), s1, (by show c.syms.size ≤ c'.syms.size; simp only at s2; omega), fun a ha => by cases ha⟩
  | panic s => exact absurd rfl (hnp s)
  | fuel =>
    simp only
    refine ⟨fun s hs => (by cases hs), fun hh hw hc hn => ?_⟩
    obtain ⟨s1, s2, _, s4⟩ := hspec hh hw hc hn
    exact ⟨s4 (fun u hu => by cases hu), s1, (by show c.syms.size ≤ c'.syms.size; simp only at s2; omega), fun a ha => by cases ha⟩

section
variable {r : Rec} (hr : SafeRec r)
include hr

theorem safe_evalFunction {evaluate : Bool} {ps : Params} {body args : Val} {H : Prop} {N : Nat}
    (h : H → max (symsBound ps.all) (max body.bound args.bound) ≤ N) :
    SafeH H N (evalFunction r evaluate ps body args) bq := by
  refine SafeH.of_hyp h ?_
  unfold evalFunction
  apply SafeH.bind
  · apply safe_collectArgs hr; safe_side
  · intro vals N'
    apply safe_bindThen
    · apply safe_evalProgn hr; safe_side
    · intro hh; simp only [bnd_simp] at hh; rw [all_length]; omega

theorem safe_bounceLoop {ps : Params} {body : Val} {k : Nat} :
    ∀ {res : Val} {H : Prop} {N : Nat}, (H → max (symsBound ps.all) (max body.bound res.bound) ≤ N) →
      SafeH H N (bounceLoop r ps body k res) bq := by
  induction k with
  | zero => intro res H N h; unfold bounceLoop; safe_tac
  | succ k ih =>
    intro res H N h
    refine SafeH.of_hyp h ?_
    unfold bounceLoop
    split
    · apply SafeH.bind
      · apply safe_evalFunction hr; safe_side
      · intro res' N'; apply ih; safe_side
    · safe_tac

theorem safe_evalLambda {evaluate : Bool} {ps : Params} {body args : Val} {H : Prop} {N : Nat}
    (h : H → max (symsBound ps.all) (max body.bound args.bound) ≤ N) :
    SafeH H N (evalLambda r evaluate ps body args) bq := by
  refine SafeH.of_hyp h ?_
  unfold evalLambda
  apply SafeH.bind
  · apply safe_evalFunction hr; safe_side
  · intro res N'; apply safe_bounceLoop hr; safe_side

end

end Tulisp
