/-
  Proofs/C12.lean — helper lemmas for property C12 (list primitives).

  Specification language: Lean's `List`.  A `Val` is related to `(xs, tl) = v.spine`:
  `xs` are the elements along the cons chain and `tl` the final non-cons tail
  (proper list iff `tl = .nil`).  Allocation identities (`id`s) are ignored by `spine`.
-/
import Tulisp.Model.Eval
namespace Tulisp.C12
open Tulisp

/-! ## spine / elems / len / ofList / mkList -/

theorem spine_cons (i : Nat) (a d : Val) :
    (Val.cons i a d).spine = (a :: d.spine.1, d.spine.2) := rfl

/-- A value that is not a cons is its own (empty) spine. -/
theorem spine_of_not_cons {v : Val} (h : v.isCons = false) : v.spine = ([], v) := by
  cases v <;> first | rfl | simp [Val.isCons] at h

theorem spine_nil : Val.nil.spine = ([], .nil) := rfl

theorem spine_fst (v : Val) : v.spine.1 = v.elems := by
  induction v with
  | cons i a d _ ih => simp [Val.elems, spine_cons, ih]
  | _ => rfl

/-- The final tail of a spine is never a cons. -/
theorem spine_snd_not_cons (v : Val) : v.spine.2.isCons = false := by
  induction v with
  | cons i a d _ ih => simpa [spine_cons] using ih
  | _ => rfl

theorem len_eq_length_elems (v : Val) : v.len = v.elems.length := by
  induction v with
  | cons i a d _ ih => simp [Val.len, Val.elems, ih]
  | _ => rfl

theorem len_eq_length_spine (v : Val) : v.len = v.spine.1.length := by
  rw [spine_fst, len_eq_length_elems]

theorem spine_ofList (xs : List Val) : (Val.ofList xs).spine = (xs, .nil) := by
  induction xs with
  | nil => rfl
  | cons x xs ih => simp [Val.ofList, spine_cons, ih]

theorem elems_ofList (xs : List Val) : (Val.ofList xs).elems = xs := by
  rw [← spine_fst, spine_ofList]

/-- `isCons` read off the spine. -/
theorem isCons_iff_spine (v : Val) : v.isCons = true ↔ v.spine.1 ≠ [] := by
  cases v <;> simp [Val.isCons, spine_cons] <;> rfl

/-- a value with an empty spine is its own tail -/
theorem eq_tail_of_spine_nil {v tl : Val} (h : v.spine = ([], tl)) : v = tl := by
  cases v with
  | cons i a d => simp [spine_cons] at h
  | _ => exact congrArg Prod.snd h

/-- `mkList` in general: the spine continues into the tail that was attached. -/
theorem mkList_spine (n : Nat) (xs : List Val) (tl : Val) :
    (Val.mkList n xs tl).1.spine = (xs ++ tl.spine.1, tl.spine.2) := by
  induction xs generalizing n with
  | nil => simp [Val.mkList]
  | cons x xs ih => simp [Val.mkList, spine_cons, ih]

/-- `mkList` with a non-cons tail: exactly the given elements and tail. -/
theorem mkList_spine_atom (n : Nat) (xs : List Val) {tl : Val} (h : tl.isCons = false) :
    (Val.mkList n xs tl).1.spine = (xs, tl) := by
  rw [mkList_spine, spine_of_not_cons h]; simp

theorem mkList_next (n : Nat) (xs : List Val) (tl : Val) :
    (Val.mkList n xs tl).2 = n + xs.length := by
  induction xs generalizing n with
  | nil => simp [Val.mkList]
  | cons x xs ih => simp [Val.mkList, ih]; omega

/-- rebuilding a value from its own spine gives a value with the same spine -/
theorem mkList_of_spine (n : Nat) (v : Val) :
    (Val.mkList n v.spine.1 v.spine.2).1.spine = v.spine := by
  rw [mkList_spine_atom n _ (spine_snd_not_cons v)]

theorem drop_length_sub_one {α} {xs : List α} (h : xs ≠ []) :
    xs.drop (xs.length - 1) = [xs.getLast h] := by
  have hpos : 0 < xs.length := List.length_pos_iff.mpr h
  have hlt : xs.length - 1 < xs.length := by omega
  rw [List.drop_eq_getElem_cons hlt, List.getLast_eq_getElem]
  have : xs.length - 1 + 1 = xs.length := by omega
  simp [this]

/-! ## car / cdr -/

theorem carV_of_not_list {v : Val} (h : v.isList = false) : carV v = .error .typeMismatch := by
  cases v <;> first | rfl | simp [Val.isList, Val.isNil, Val.isCons] at h

theorem cdrV_of_not_list {v : Val} (h : v.isList = false) : cdrV v = .error .typeMismatch := by
  cases v <;> first | rfl | simp [Val.isList, Val.isNil, Val.isCons] at h

/-- `car` in terms of the spine: head of the elements (nil for the empty list). -/
theorem carV_spine {v : Val} (h : v.isList = true) : carV v = .ok (v.spine.1.headD .nil) := by
  cases v <;> first | rfl | simp [Val.isList, Val.isNil, Val.isCons] at h

theorem carV_of_spine_cons {w y tl : Val} {ys : List Val} (h : w.spine = (y :: ys, tl)) :
    carV w = .ok y := by
  cases w with
  | cons i a d => simp [spine_cons] at h; simp [carV, h.1.1]
  | _ => simp [Val.spine] at h

/-! ## nthcdr -/

theorem nthcdrNat_zero (v : Val) : nthcdrNat 0 v = .ok v := rfl

theorem nthcdrNat_succ_cons (n i : Nat) (a d : Val) :
    nthcdrNat (n + 1) (.cons i a d) = nthcdrNat n d := rfl

theorem nthcdrNat_nil (n : Nat) : nthcdrNat n .nil = .ok .nil := by
  cases n <;> rfl

/-- In range (including exactly at the end): the `n`-th tail. -/
theorem nthcdrNat_le (n : Nat) (v : Val) (hn : n ≤ v.spine.1.length) :
    ∃ w, nthcdrNat n v = .ok w ∧ w.spine = (v.spine.1.drop n, v.spine.2) := by
  induction n generalizing v with
  | zero => exact ⟨v, rfl, by simp⟩
  | succ n ih =>
    cases v with
    | cons i a d =>
      rw [nthcdrNat_succ_cons]
      simp only [spine_cons, List.length_cons, Nat.add_le_add_iff_right] at hn
      obtain ⟨w, hw, hs⟩ := ih d hn
      exact ⟨w, hw, by simp [spine_cons, hs]⟩
    | _ => simp [Val.spine] at hn

/-- Past the end of a proper list: nil. -/
theorem nthcdrNat_gt_proper (n : Nat) (v : Val) (hn : v.spine.1.length < n)
    (hp : v.spine.2 = .nil) : nthcdrNat n v = .ok .nil := by
  induction n generalizing v with
  | zero => omega
  | succ n ih =>
    cases v with
    | cons i a d =>
      rw [nthcdrNat_succ_cons]
      simp only [spine_cons, List.length_cons, Nat.add_lt_add_iff_right] at hn hp
      exact ih d hn hp
    | nil => rfl
    | _ => simp [Val.spine] at hp

/-- Past the end of a dotted list: type error. -/
theorem nthcdrNat_gt_dotted (n : Nat) (v : Val) (hn : v.spine.1.length < n)
    (hp : v.spine.2 ≠ .nil) : nthcdrNat n v = .error .typeMismatch := by
  induction n generalizing v with
  | zero => omega
  | succ n ih =>
    cases v with
    | cons i a d =>
      rw [nthcdrNat_succ_cons]
      simp only [spine_cons, List.length_cons, Nat.add_lt_add_iff_right] at hn hp
      exact ih d hn hp
    | nil => simp [Val.spine] at hp
    | _ => rfl

theorem nthcdrV_nonpos {n : Int} (v : Val) (hn : n ≤ 0) : nthcdrV n v = .ok v := by
  simp [nthcdrV, hn]

theorem nthcdrV_pos {n : Int} (v : Val) (hn : 0 < n) : nthcdrV n v = nthcdrNat n.toNat v := by
  have : ¬ n ≤ 0 := by omega
  simp [nthcdrV, this]

/-- `nthcdr` for every index up to and including the length (negative indices count as 0). -/
theorem nthcdrV_le {n : Int} (v : Val) (hn : n ≤ v.spine.1.length) :
    ∃ w, nthcdrV n v = .ok w ∧ w.spine = (v.spine.1.drop n.toNat, v.spine.2) := by
  by_cases h0 : n ≤ 0
  · refine ⟨v, nthcdrV_nonpos v h0, ?_⟩
    have : n.toNat = 0 := by omega
    simp [this]
  · rw [nthcdrV_pos v (by omega)]
    exact nthcdrNat_le _ v (by omega)

/-! ## assoc / plist -/

/-- the predicate "is a cons whose car satisfies `test`" -/
def assocPred (test : Val → Bool) : Val → Bool
  | .cons _ k _ => test k
  | _ => false

/-- key/value pairs of a property list; a trailing key without value is paired with nil -/
def plistPairs : List Val → List (Val × Val)
  | k :: v :: rest => (k, v) :: plistPairs rest
  | [k] => [(k, .nil)]
  | [] => []

/-! ## the interpreter monad -/

theorem M.pure_bind' {α β} (a : α) (f : α → M β) : (pure a >>= f) = f a := rfl

theorem M.bind_assoc' {α β γ} (m : M α) (f : α → M β) (g : β → M γ) :
    (m >>= f >>= g) = (m >>= fun a => f a >>= g) := by
  funext c
  show M.bind (M.bind m f) g c = M.bind m (fun a => M.bind (f a) g) c
  unfold M.bind
  rcases h : m c with ⟨r, c'⟩
  cases r <;> simp

theorem M.bind_pure' {α} (m : M α) : (m >>= pure) = m := by
  funext c
  show M.bind m M.pure c = m c
  unfold M.bind M.pure
  rcases h : m c with ⟨r, c'⟩
  cases r <;> simp

instance : LawfulMonad M := LawfulMonad.mk'
  (id_map := fun x => by
    show (do let a ← x; pure (id a)) = x
    exact M.bind_pure' x)
  (pure_bind := fun a f => rfl)
  (bind_assoc := fun m f g => M.bind_assoc' m f g)

theorem bind_ok {α β} {m : M α} {c c' : Ctx} {a : α} (f : α → M β) (h : m c = (.ok a, c')) :
    (m >>= f) c = f a c' := by
  show M.bind m f c = _
  simp [M.bind, h]

theorem bind_err {α β} {m : M α} {c c' : Ctx} {k : ErrKind} (f : α → M β) (h : m c = (.err k, c')) :
    (m >>= f) c = (.err k, c') := by
  show M.bind m f c = _
  simp [M.bind, h]


/-! ## mkListM / deepCopy / Acc -/

theorem mkListM_run (xs : List Val) (tl : Val) (c : Ctx) :
    mkListM xs tl c = (.ok (Val.mkList c.nextId xs tl).1, { c with nextId := c.nextId + xs.length }) := by
  simp [mkListM, mkList_next]

/-- `mkListM` succeeds and yields a value with the requested elements (and tail, when the tail is
    not itself a cons). -/
theorem mkListM_spec (xs : List Val) (tl : Val) (c : Ctx) :
    ∃ w c', mkListM xs tl c = (.ok w, c') ∧ w.spine = (xs ++ tl.spine.1, tl.spine.2) :=
  ⟨_, _, mkListM_run xs tl c, mkList_spine _ _ _⟩

/-- `deep_copy` succeeds and the copy has the same elements and tail. -/
theorem deepCopy_spec (v : Val) (c : Ctx) :
    ∃ w c', deepCopy v c = (.ok w, c') ∧ w.spine = v.spine := by
  cases v with
  | cons i a d =>
    refine ⟨_, _, (mkListM_run (Val.cons i a d).spine.1 (Val.cons i a d).spine.2 c :
      deepCopy (Val.cons i a d) c = _), ?_⟩
    exact mkList_of_spine _ _
  | _ => exact ⟨_, c, rfl, rfl⟩

theorem isList_iff_spine (v : Val) : v.isList = true ↔ (v.spine.1 ≠ [] ∨ v.spine.2 = .nil) := by
  cases v <;> simp [Val.isList, Val.isNil, Val.isCons, Val.spine]

theorem isList_of_spine_eq {v w : Val} (h : w.spine = v.spine) : w.isList = v.isList := by
  rw [Bool.eq_iff_iff, isList_iff_spine, isList_iff_spine, h]

/-- `append` onto an accumulator that already has an improper tail fails. -/
theorem Acc.append_tail_error (a : Acc) (v : Val) (c : Ctx) (h : a.tail.isNil = false) :
    a.append v c = (.err .typeMismatch, c) := by
  simp [Acc.append, h, M.throw]

/-- Appending a list (nil, proper or dotted) to an accumulator without tail: its elements are
    added after the ones already there, its final tail becomes the tail. -/
theorem Acc.append_list (a : Acc) (v : Val) (c : Ctx) (h : a.tail = .nil) (hv : v.isList = true) :
    a.append v c = (.ok { rev := v.spine.1.reverse ++ a.rev, tail := v.spine.2 }, c) := by
  obtain ⟨rev, tail⟩ := a
  simp only at h
  subst h
  cases v <;> first | rfl | simp [Val.isList, Val.isNil, Val.isCons] at hv

/-- Appending a non-list atom to a non-empty accumulator makes it the (improper) tail. -/
theorem Acc.append_atom (a : Acc) (v : Val) (c : Ctx) (h : a.tail = .nil) (hv : v.isList = false)
    (hne : a.rev ≠ []) :
    a.append v c = (.ok { rev := a.rev, tail := v }, c) := by
  obtain ⟨rev, tail⟩ := a
  simp only at h hne
  subst h
  have : rev.isEmpty = false := by cases rev <;> simp_all
  cases v <;> first | (simp [Val.isList, Val.isNil, Val.isCons] at hv; done) | simp [Acc.append, Val.isNil, this, pure, M.pure]

theorem Acc.push_ok (a : Acc) (x : Val) (c : Ctx) (h : a.tail = .nil) :
    a.push x c = (.ok { rev := x :: a.rev, tail := .nil }, c) := by
  obtain ⟨rev, tail⟩ := a
  simp only at h
  subst h
  rfl

/-- `build` produces a value whose elements are the accumulated ones followed by the tail. -/
theorem Acc.build_spec (a : Acc) (c : Ctx) :
    ∃ w c', a.build c = (.ok w, c') ∧ w.spine = (a.rev.reverse ++ a.tail.spine.1, a.tail.spine.2) :=
  mkListM_spec _ _ c

/-- one step of the loop of `append`: copy the argument, append the copy -/
def appendStep (acc : Acc) (v : Val) : M Acc := do
  let cp ← deepCopy v
  acc.append cp

/-- the accumulator `append` starts from: the (copied) first argument -/
def appendStart (firstCp : Val) : Acc :=
  match firstCp with
  | .cons .. => let (xs, tl) := firstCp.spine; { rev := xs.reverse, tail := tl }
  | _ => {}

/-- the continuation of the `append` built-in once its arguments are evaluated -/
def appendVals (first : Val) (others : List Val) : M Val := do
  let firstCp ← deepCopy first
  if !firstCp.isList then
    (if others.isEmpty then pure firstCp else M.throw .typeMismatch)
  else do
    let acc ← others.foldlM appendStep (appendStart firstCp)
    acc.build

/-- `appendVals` is literally what the `.append_` case of `callBuiltin` does. -/
theorem callBuiltin_append (r : Rec) (args : Val) :
    callBuiltin r .append_ args = (do
      let (first, rest) ← nextArg r args
      let others ← evalEach r rest
      appendVals first others) := rfl

theorem appendStart_list (v : Val) (h : v.isList = true) :
    appendStart v = { rev := v.spine.1.reverse, tail := v.spine.2 } := by
  cases v <;> first | rfl | simp [Val.isList, Val.isNil, Val.isCons] at h

theorem appendStep_list (a : Acc) (v : Val) (c : Ctx) (h : a.tail = .nil) (hv : v.isList = true) :
    ∃ c', appendStep a v c = (.ok { rev := v.spine.1.reverse ++ a.rev, tail := v.spine.2 }, c') := by
  obtain ⟨w, c', hw, hs⟩ := deepCopy_spec v c
  refine ⟨c', ?_⟩
  unfold appendStep
  rw [bind_ok _ hw, Acc.append_list a w c' h (by rw [isList_of_spine_eq hs, hv]), hs]

theorem appendStep_tail_error (a : Acc) (v : Val) (c : Ctx) (h : a.tail.isNil = false) :
    ∃ c', appendStep a v c = (.err .typeMismatch, c') := by
  obtain ⟨w, c', hw, _⟩ := deepCopy_spec v c
  refine ⟨c', ?_⟩
  unfold appendStep
  rw [bind_ok _ hw, Acc.append_tail_error a w c' h]

/-- The loop over proper lists: all their elements are accumulated in order. -/
theorem appendLoop_proper (vs : List Val) (a : Acc) (c : Ctx) (h : a.tail = .nil)
    (hvs : ∀ v ∈ vs, v.spine.2 = .nil) :
    ∃ c', vs.foldlM appendStep a c
      = (.ok { rev := (vs.flatMap Val.elems).reverse ++ a.rev, tail := .nil }, c') := by
  induction vs generalizing a c with
  | nil =>
    obtain ⟨rev, tail⟩ := a
    simp only at h; subst h
    exact ⟨c, by simp [pure, M.pure]⟩
  | cons v vs ih =>
    have hv2 : v.spine.2 = .nil := hvs v (by simp)
    have hv : v.isList = true := by
      cases v <;> first | rfl | simp [Val.spine] at hv2
    obtain ⟨c1, h1⟩ := appendStep_list a v c h hv
    obtain ⟨c2, h2⟩ := ih { rev := v.spine.1.reverse ++ a.rev, tail := v.spine.2 } c1 hv2
      (fun w hw => hvs w (by simp [hw]))
    refine ⟨c2, ?_⟩
    rw [List.foldlM_cons, bind_ok _ h1, h2]
    simp [spine_fst, List.flatMap_cons]

/-- Once the accumulator has an improper tail, any further argument makes the loop fail. -/
theorem appendLoop_tail_error (vs : List Val) (a : Acc) (c : Ctx) (h : a.tail.isNil = false)
    (hne : vs ≠ []) :
    ∃ c', vs.foldlM appendStep a c = (.err .typeMismatch, c') := by
  cases vs with
  | nil => exact absurd rfl hne
  | cons v vs =>
    obtain ⟨c1, h1⟩ := appendStep_tail_error a v c h
    exact ⟨c1, by rw [List.foldlM_cons, bind_err _ h1]⟩


theorem elems_of_not_cons {v : Val} (h : v.isCons = false) : v.elems = [] := by
  cases v <;> first | rfl | simp [Val.isCons] at h


/-! ## the higher-order helpers: per-element application, specifications, defining equations -/

/-- what `mapcar` / `seq-filter` / `seq-find` do with one element `x`: build the argument list
    `(x)` and apply `f` to it -/
def app1 (r : Rec) (f x : Val) : M Val := do
  let l ← mkListM [x]
  callBuiltin.applyVals r f l

/-- what `seq-reduce` does with the accumulator `a` and one element `x` -/
def app2 (r : Rec) (f a x : Val) : M Val := do
  let l ← mkListM [a, x]
  callBuiltin.applyVals r f l

/-! ### specifications: left-to-right traversals in the interpreter monad, each element handed to
    `g` exactly once, the state threaded through, stopping at the first failure -/

def mapSpec (g : Val → M Val) : List Val → M (List Val)
  | [] => pure []
  | x :: xs => do
    let v ← g x
    let vs ← mapSpec g xs
    pure (v :: vs)

def filterSpec (g : Val → M Val) : List Val → M (List Val)
  | [] => pure []
  | x :: xs => do
    let v ← g x
    let vs ← filterSpec g xs
    pure (if truthy v then x :: vs else vs)

def reduceSpec (g : Val → Val → M Val) : Val → List Val → M Val
  | a, [] => pure a
  | a, x :: xs => do
    let v ← g a x
    reduceSpec g v xs

def findSpec (g : Val → M Val) (dflt : Val) : List Val → M Val
  | [] => pure dflt
  | x :: xs => do
    let v ← g x
    if truthy v then pure x else findSpec g dflt xs

/-! ### defining equations of the model's loops -/

theorem mapVals_nil (r : Rec) (f : Val) (acc : List Val) :
    callBuiltin.mapVals r f [] acc = pure acc.reverse := rfl

theorem mapVals_cons (r : Rec) (f x : Val) (xs acc : List Val) :
    callBuiltin.mapVals r f (x :: xs) acc =
      (app1 r f x >>= fun v => callBuiltin.mapVals r f xs (v :: acc)) := by
  rw [callBuiltin.mapVals, app1, bind_assoc]

theorem filterVals_nil (r : Rec) (f : Val) (acc : List Val) :
    callBuiltin.filterVals r f [] acc = pure acc.reverse := rfl

theorem filterVals_cons (r : Rec) (f x : Val) (xs acc : List Val) :
    callBuiltin.filterVals r f (x :: xs) acc =
      (app1 r f x >>= fun v =>
        callBuiltin.filterVals r f xs (if truthy v then x :: acc else acc)) := by
  rw [callBuiltin.filterVals, app1, bind_assoc]

theorem reduceVals_nil (r : Rec) (f a : Val) :
    callBuiltin.reduceVals r f a [] = pure a := rfl

theorem reduceVals_cons (r : Rec) (f a x : Val) (xs : List Val) :
    callBuiltin.reduceVals r f a (x :: xs) =
      (app2 r f a x >>= fun v => callBuiltin.reduceVals r f v xs) := by
  rw [callBuiltin.reduceVals, app2, bind_assoc]

theorem findVals_nil (r : Rec) (f dflt : Val) :
    callBuiltin.findVals r f dflt [] = pure dflt := rfl

theorem findVals_cons (r : Rec) (f dflt x : Val) (xs : List Val) :
    callBuiltin.findVals r f dflt (x :: xs) =
      (app1 r f x >>= fun v =>
        if truthy v then pure x else callBuiltin.findVals r f dflt xs) := by
  rw [callBuiltin.findVals, app1, bind_assoc]


end Tulisp.C12
