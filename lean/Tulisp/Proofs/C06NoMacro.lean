/-
  Proofs/C06NoMacro.lean — forms without macro calls: `MacroHead`, `NoMacro`, and the fact that
  `macroexpand` rebuilds such a form unchanged (up to cell identity), touching nothing but the
  id counter.
-/
import Tulisp.Proofs.C06Macros
namespace Tulisp.C06
open Tulisp Tulisp.C12
set_option linter.unusedSimpArgs false

/-- the head of a cons form is a macro: a symbol whose current value (not a keyword) is a macro
    value, or a macro value itself -/
def MacroHead (c : Ctx) : Val → Bool
  | .cons _ h _ => isMacroValue (headValue c h)
  | _ => false

/-- no list that `macroexpand` visits — the form itself, its elements, their elements, …, but
    nothing under a quote wrapper — has a macro head -/
inductive NoMacro (c : Ctx) : Val → Prop
  | atom {v : Val} : v.isCons = false → NoMacro c v
  | list {i : Nat} {h args : Val} : MacroHead c (.cons i h args) = false →
      (∀ e ∈ (Val.cons i h args).elems, NoMacro c e) → NoMacro c (.cons i h args)

theorem NoMacro.congr {c c' : Ctx} (hc : ∀ h, headValue c' h = headValue c h) {v : Val}
    (hv : NoMacro c v) : NoMacro c' v := by
  induction hv with
  | atom h => exact .atom h
  | list hm _ ih => exact .list (by simpa [MacroHead, hc] using hm) ih

theorem NoMacro.elems {c : Ctx} {v : Val} (hv : NoMacro c v) : ∀ e ∈ v.elems, NoMacro c e := by
  cases hv with
  | atom h => intro e he; rw [elems_of_not_cons h] at he; cases he
  | list _ he => exact he

/-- only the id counter advanced -/
def OnlyIds (c c' : Ctx) : Prop := c' = { c with nextId := c'.nextId } ∧ c.nextId ≤ c'.nextId

theorem OnlyIds.refl (c : Ctx) : OnlyIds c c := ⟨rfl, Nat.le_refl _⟩

theorem OnlyIds.trans {c c' c'' : Ctx} (h : OnlyIds c c') (h' : OnlyIds c' c'') : OnlyIds c c'' := by
  obtain ⟨h1, h2⟩ := h
  obtain ⟨h3, h4⟩ := h'
  refine ⟨?_, Nat.le_trans h2 h4⟩
  rw [h3, h1]

theorem OnlyIds.syms {c c' : Ctx} (h : OnlyIds c c') : c'.syms = c.syms := by
  rw [h.1]

theorem OnlyIds.headValue {c c' : Ctx} (h : OnlyIds c c') (hd : Val) :
    headValue c' hd = headValue c hd := by
  cases hd <;> simp [C06.headValue, Ctx.symD, h.syms]

theorem OnlyIds.S {c c' : Ctx} (h : OnlyIds c c') (name : String) : S c' name = S c name := by
  have ho : c'.obarray = c.obarray := by rw [h.1]
  have hs := h.syms
  unfold C06.S Ctx.intern
  rw [ho]
  split <;> simp [hs]

theorem OnlyIds.noMacro {c c' : Ctx} (h : OnlyIds c c') {v : Val} (hv : NoMacro c v) :
    NoMacro c' v := hv.congr h.headValue

theorem OnlyIds.ext {c c' : Ctx} (h : OnlyIds c c') : Ext c c' := by
  rw [h.1]; exact Ext.nextId c h.2

theorem OnlyIds.mkListM (xs : List Val) (tl : Val) (c : Ctx) :
    OnlyIds c (mkListM xs tl c).2 := by
  rw [mkListM_run]; exact ⟨rfl, Nat.le_add_right _ _⟩

/-- `m` run in `c` returns a form equal to `v` up to cell identity — or runs out of depth budget,
    which `mustOk` excludes — and in both cases only advances the id counter; it never fails -/
def UntouchedAt (m : M Val) (c : Ctx) (v : Val) (mustOk : Prop) : Prop :=
  (∃ v' c', m c = (.ok v', c') ∧ eraseIds v' = eraseIds v ∧ OnlyIds c c') ∨
  (¬ mustOk ∧ ∃ c', m c = (.fuel, c') ∧ OnlyIds c c')

theorem mexpList_untouched (r : Rec) (P : Val → Prop)
    (hr : ∀ c v, NoMacro c v → UntouchedAt (r.mexp v) c v (P v))
    (xs : List Val) (c : Ctx) (hx : ∀ e ∈ xs, NoMacro c e) :
    (∃ ys c', mexpList r xs c = (.ok ys, c') ∧ ys.map eraseIds = xs.map eraseIds ∧ OnlyIds c c') ∨
    (¬ (∀ e ∈ xs, P e) ∧ ∃ c', mexpList r xs c = (.fuel, c') ∧ OnlyIds c c') := by
  induction xs generalizing c with
  | nil => exact .inl ⟨[], c, rfl, rfl, OnlyIds.refl c⟩
  | cons x xs ih =>
    rw [mexpList]
    rcases hr c x (hx x (by simp)) with ⟨x', c1, h1, he, ho⟩ | ⟨hnp, c1, h1, ho⟩
    · rw [bind_ok _ h1]
      rcases ih c1 (fun e he => ho.noMacro (hx e (by simp [he]))) with
        ⟨ys, c2, h2, hes, ho2⟩ | ⟨hnp, c2, h2, ho2⟩
      · refine .inl ⟨x' :: ys, c2, ?_, by simp [he, hes], ho.trans ho2⟩
        rw [bind_ok _ h2]; rfl
      · refine .inr ⟨fun hall => hnp fun e he => hall e (by simp [he]), c2, ?_, ho.trans ho2⟩
        show M.bind _ _ c1 = _
        simp [M.bind, h2]
    · refine .inr ⟨fun hall => hnp (hall x (by simp)), c1, ?_, ho⟩
      show M.bind _ _ c = _
      simp [M.bind, h1]

/-- `mexpStep r v = pure v` for everything that is not a cons: numbers, strings, symbols and
    the quote / backquote / unquote / splice wrapper objects -/
theorem mexpStep_atom (r : Rec) (v : Val) (h : v.isCons = false) : mexpStep r v = pure v := by
  cases v <;> first | rfl | simp [Val.isCons] at h

/-- one level of the expander leaves macro-free forms alone if the level below does -/
theorem mexpStep_untouched (r : Rec) (P Q : Val → Prop)
    (hr : ∀ c v, NoMacro c v → UntouchedAt (r.mexp v) c v (P v))
    (hPQ : ∀ v, Q v → ∀ e ∈ v.elems, P e)
    (c : Ctx) (v : Val) (hv : NoMacro c v) : UntouchedAt (mexpStep r v) c v (Q v) := by
  cases hv with
  | atom h => rw [mexpStep_atom r v h]; exact .inl ⟨v, c, rfl, rfl, OnlyIds.refl c⟩
  | @list i h args hm he =>
    unfold UntouchedAt
    rw [mexpStep_cons, expandHead_not_macro _ _ _ _ (by simpa [MacroHead] using hm), pure_bind]
    simp only [finishExpand, expandSpine]
    rcases mexpList_untouched r P hr _ c he with ⟨ys, c1, h1, hes, ho⟩ | ⟨hnp, c1, h1, ho⟩
    · refine .inl ⟨_, _, by rw [bind_ok _ h1, mkListM_run], ?_, ho.trans ?_⟩
      · rw [eraseIds_mkList, hes, ← eraseIds_eq_listTl_spine]
      · exact ⟨rfl, Nat.le_add_right _ _⟩
    · refine .inr ⟨fun hq => hnp (hPQ _ hq), c1, ?_, ho⟩
      show M.bind _ _ c = _
      simp [M.bind, h1]

theorem size_elem_lt {v e : Val} (he : e ∈ v.elems) : e.size < v.size := by
  induction v with
  | cons i a d _ ihd =>
    simp only [Val.elems, List.mem_cons] at he
    rcases he with rfl | he
    · simp [Val.size]; omega
    · have := ihd he; simp [Val.size]; omega
  | _ => simp [Val.elems] at he

/-- at every depth, expanding a macro-free form returns an equal form or runs out of budget
    (never an error), and the budget suffices when `d ≥ size v`; only the id counter moves -/
theorem ofDepth_untouched (d : Nat) (c : Ctx) (v : Val) (hv : NoMacro c v) :
    UntouchedAt ((Rec.ofDepth d).mexp v) c v (v.size ≤ d) := by
  induction d generalizing c v with
  | zero =>
    refine .inr ⟨?_, c, rfl, OnlyIds.refl c⟩
    cases v <;> simp [Val.size]
  | succ d ih =>
    refine mexpStep_untouched (Rec.ofDepth d) (fun v => v.size ≤ d) (fun v => v.size ≤ d + 1)
      (fun c v hv => ih c v hv) (fun v hq e he => ?_) c v hv
    have := size_elem_lt he
    omega

/-! ## `NoMacro` does not depend on cell identities -/

theorem isMacroValue_eraseIds (x : Val) : isMacroValue (eraseIds x) = isMacroValue x := by
  cases x <;> rfl

theorem headValue_of_not_sym (c : Ctx) {h : Val} (hs : h.isSym = false) : headValue c h = h := by
  cases h <;> first | rfl | simp [Val.isSym] at hs

theorem eraseIds_isSym (x : Val) : (eraseIds x).isSym = x.isSym := by
  cases x <;> rfl

theorem eq_sym_of_eraseIds {x : Val} {n : Nat} (h : eraseIds x = .sym n) : x = .sym n := by
  cases x <;> simp_all [eraseIds]

theorem isMacroValue_headValue_congr (c : Ctx) {h h' : Val} (he : eraseIds h' = eraseIds h) :
    isMacroValue (headValue c h') = isMacroValue (headValue c h) := by
  cases hs : h'.isSym
  · have hs' : h.isSym = false := by rw [← eraseIds_isSym, ← he, eraseIds_isSym, hs]
    rw [headValue_of_not_sym c hs, headValue_of_not_sym c hs',
      ← isMacroValue_eraseIds h', he, isMacroValue_eraseIds]
  · cases h' <;> simp [Val.isSym] at hs
    rename_i n
    have : h = .sym n := eq_sym_of_eraseIds (by rw [← he]; rfl)
    rw [this]

theorem exists_of_map_eq {α β} (f : α → β) {l1 l2 : List α} (h : l1.map f = l2.map f) :
    ∀ a ∈ l1, ∃ b ∈ l2, f a = f b := by
  induction l1 generalizing l2 with
  | nil => intro a ha; cases ha
  | cons x xs ih =>
    cases l2 with
    | nil => simp at h
    | cons y ys =>
      simp only [List.map_cons, List.cons.injEq] at h
      intro a ha
      rcases List.mem_cons.mp ha with rfl | ha
      · exact ⟨y, by simp, h.1⟩
      · obtain ⟨b, hb, hab⟩ := ih h.2 a ha
        exact ⟨b, by simp [hb], hab⟩

theorem NoMacro.of_eraseIds {c : Ctx} {v w : Val} (he : eraseIds v = eraseIds w) (hw : NoMacro c w) :
    NoMacro c v := by
  induction hw generalizing v with
  | atom h =>
    refine .atom ?_
    rw [← eraseIds_isCons, he, eraseIds_isCons, h]
  | @list i h args hm _ ih =>
    cases v with
    | cons i' h' args' =>
      simp only [eraseIds_cons, Val.cons.injEq, true_and] at he
      refine .list ?_ ?_
      · simp only [MacroHead] at hm ⊢
        rw [isMacroValue_headValue_congr c he.1, hm]
      · intro e' he'
        have hmap : (Val.cons i' h' args').elems.map eraseIds = (Val.cons i h args).elems.map eraseIds := by
          rw [← elems_eraseIds, ← elems_eraseIds]; simp [he.1, he.2]
        obtain ⟨e, hmem, hee⟩ := exists_of_map_eq eraseIds hmap e' he'
        exact ih e hmem hee
    | _ => simp [eraseIds] at he

theorem size_eraseIds (v : Val) : (eraseIds v).size = v.size := by
  induction v <;> simp_all [eraseIds, Val.size]

theorem size_eq_of_eraseIds {v w : Val} (h : eraseIds v = eraseIds w) : v.size = w.size := by
  rw [← size_eraseIds v, h, size_eraseIds]

/-! ## a macro call whose one-step expansion is macro-free -/

/-- rebuilding a macro-free cons form at sufficient depth returns an equal form -/
theorem finishExpand_untouched (d : Nat) (c : Ctx) (x : Val) (hx : NoMacro c x) (hd : x.size ≤ d + 1) :
    ∃ v c', finishExpand (Rec.ofDepth d) x c = (.ok v, c') ∧ eraseIds v = eraseIds x ∧ OnlyIds c c' := by
  cases x with
  | cons i a dd =>
    simp only [finishExpand, expandSpine]
    rcases mexpList_untouched (Rec.ofDepth d) (fun v => v.size ≤ d)
      (fun c v hv => ofDepth_untouched d c v hv) _ c hx.elems with
      ⟨ys, c1, h1, hes, ho⟩ | ⟨hnp, _⟩
    · refine ⟨_, _, by rw [bind_ok _ h1, mkListM_run], ?_, ho.trans ⟨rfl, Nat.le_add_right _ _⟩⟩
      rw [eraseIds_mkList, hes, ← eraseIds_eq_listTl_spine]
    · exact (hnp fun e he => by have := size_elem_lt he; omega).elim
  | _ => exact ⟨_, c, rfl, rfl, OnlyIds.refl c⟩

/-- a built-in macro call `(m . args)` whose one-step expansion `ex` contains no further macro
    call expands (given enough depth) to a form equal to `ex`; besides what `callMacro` did, only
    the id counter moves -/
theorem mexp_macro_call_simple (d i : Nat) (m args : Val) (b : Bi) (c c1 : Ctx) (ex : Val)
    (hv : headValue c m = .builtin b) (hb : b.isMacro = true)
    (hex : callMacro b args c = (.ok ex, c1)) (hnm : NoMacro c1 ex) (hd : ex.size ≤ d) :
    ∃ v c', (Rec.ofDepth (d + 1)).mexp (.cons i m args) c = (.ok v, c') ∧
      eraseIds v = eraseIds ex ∧ OnlyIds c1 c' ∧ NoMacro c' v := by
  show ∃ v c', mexpStep (Rec.ofDepth d) (.cons i m args) c = (.ok v, c') ∧ _
  rw [mexpStep_cons, hv]
  simp only [expandHead, hb, if_true]
  rcases ofDepth_untouched d c1 ex hnm with ⟨x, c2, h2, hxe, ho2⟩ | ⟨hnp, _⟩
  · have hx : NoMacro c2 x := (ho2.noMacro hnm).of_eraseIds hxe
    obtain ⟨v, c3, h3, hve, ho3⟩ := finishExpand_untouched d c2 x hx
      (by rw [size_eq_of_eraseIds hxe]; omega)
    refine ⟨v, c3, ?_, hve.trans hxe, ho2.trans ho3, (ho3.noMacro hx).of_eraseIds hve⟩
    rw [bind_ok _ (show (callMacro b args >>= (Rec.ofDepth d).mexp) c = (.ok x, c2) by
      rw [bind_ok _ hex, h2]), h3]
  · exact (hnp hd).elim

/-! ## growing the context does not change what heads denote -/

theorem headValue_sym_of_size_le {c : Ctx} {n : Nat} (h : c.syms.size ≤ n) :
    headValue c (.sym n) = .sym n := by
  simp [headValue, symD_of_size_le h, SymSt.get]

theorem headValue_sym_of_unbound {c : Ctx} {n : Nat} (h : (c.symD n).items = []) :
    headValue c (.sym n) = .sym n := by
  simp only [headValue, SymSt.get, h, List.head?_nil]
  split <;> rfl

theorem Ext.headValue {c c' : Ctx} (h : Ext c c') (hd : Val) : headValue c' hd = headValue c hd := by
  cases hd with
  | sym n =>
    by_cases hn : n < c.syms.size
    · simp only [C06.headValue, h.symD_old hn]
    · have hn := Nat.le_of_not_lt hn
      rw [headValue_sym_of_size_le hn, headValue_sym_of_unbound (h.fresh n hn)]
  | _ => rfl

theorem Ext.noMacro {c c' : Ctx} (h : Ext c c') {v : Val} (hv : NoMacro c v) : NoMacro c' v :=
  hv.congr h.headValue

/-- the name, if interned, does not denote a macro -/
def NonMacroName (c : Ctx) (name : String) : Prop :=
  ∀ n, Interned c name n → isMacroValue (headValue c (.sym n)) = false

theorem NonMacroName.mono {c c' : Ctx} {name : String} (h : NonMacroName c name) (he : Ext c c') :
    NonMacroName c' name := by
  intro n hn
  rw [he.headValue]
  rcases he.obNew name n hn with h1 | ⟨h1, _⟩
  · exact h n h1
  · rw [headValue_sym_of_size_le h1]; rfl

theorem NonMacroName.S {c : Ctx} {name : String} (h : NonMacroName c name) :
    isMacroValue (headValue c (.sym (S c name))) = false := by
  unfold C06.S Ctx.intern
  split
  · rename_i n hn; exact h n hn
  · rw [headValue_sym_of_size_le (Nat.le_refl _)]; rfl

/-- `(if c (progn . body))` is macro-free when `c`, the body forms are and `if`, `progn` do not
    name macros -/
theorem noMacro_if_progn (c : Ctx) (nIf nProgn : Nat) (cnd body : Val)
    (hif : isMacroValue (headValue c (.sym nIf)) = false)
    (hpr : isMacroValue (headValue c (.sym nProgn)) = false)
    (hc : NoMacro c cnd) (hb : ∀ e ∈ body.elems, NoMacro c e) :
    NoMacro c (L [.sym nIf, cnd, .cons 0 (.sym nProgn) body]) := by
  refine .list (by simpa [MacroHead] using hif) ?_
  intro e he
  simp only [L, listTl, List.foldr, Val.elems, List.mem_cons, List.not_mem_nil, or_false] at he
  rcases he with rfl | rfl | rfl
  · exact .atom rfl
  · exact hc
  · refine .list (by simpa [MacroHead] using hpr) ?_
    intro e he
    simp only [Val.elems, List.mem_cons] at he
    rcases he with rfl | he
    · exact .atom rfl
    · exact hb e he

/-- **`when` at every sufficient depth**: a `when` form whose condition and body are macro-free
    expands to `(if c (progn . body))` -/
theorem when_call_expands (d i j : Nat) (m cnd body : Val) (c : Ctx)
    (hw : headValue c m = .builtin .when_)
    (hif : NonMacroName c "if") (hpr : NonMacroName c "progn")
    (hc : NoMacro c cnd) (hb : ∀ e ∈ body.elems, NoMacro c e)
    (hd : cnd.size + body.size + 7 ≤ d) :
    ∃ v c', (Rec.ofDepth (d + 1)).mexp (.cons i m (.cons j cnd body)) c = (.ok v, c') ∧
      eraseIds v = eraseIds (L [.sym (S c' "if"), cnd, .cons 0 (.sym (S c' "progn")) body]) ∧
      Ext c c' ∧ NoMacro c' v := by
  obtain ⟨ex, c1, hex, he1, hev⟩ := run_when (.cons j cnd body) rfl c
  have hnm : NoMacro c1 ex := by
    refine NoMacro.of_eraseIds hev (noMacro_if_progn c1 _ _ cnd body (hif.mono he1).S
      (hpr.mono he1).S (he1.noMacro hc) fun e he => he1.noMacro (hb e he))
  have hsz : ex.size ≤ d := by
    rw [size_eq_of_eraseIds hev]
    simp [L, listTl, Val.size]
    omega
  obtain ⟨v, c', h, hve, ho, hnv⟩ := mexp_macro_call_simple d i m (.cons j cnd body) .when_ c c1 ex
    hw rfl hex hnm hsz
  refine ⟨v, c', h, ?_, he1.trans ho.ext, hnv⟩
  rw [hve, hev]
  rw [ho.S, ho.S]
  rfl

end Tulisp.C06
