/-
  Proofs/C09.lean — helper definitions and lemmas for C09, part A (token level):
  the data type `D` of data, its token sequence `toks`, the span-forgetting map `erase`, and the
  joint invariant showing that the parser inverts `toks` for every nesting shape.
-/
import Tulisp.Props.C08
namespace Tulisp.C09
open Tulisp

/-! ## Data, their token sequences, and what a syntax tree denotes -/

/-- Data as written: what a piece of well-formed text denotes (no spans, no identities). -/
inductive D where
  | int (n : Int)
  | float (text : String)
  | str (s : String)
  | sym (name : String)
  /-- `(items… . tail)` or `(items…)` -/
  | list (items : List D) (tail : Option D)
  | quote (d : D)
  | backquote (d : D)
  | unquote (d : D)
  | splice (d : D)
deriving Repr, Inhabited

mutual
/-- The token sequence of a datum: `(`, the items, `.` and the tail if any, `)`;
    a shorthand token followed by the tokens of the datum it wraps. -/
def toks : D → List Tok
  | .int n => [.int n]
  | .float t => [.float t]
  | .str s => [.str s]
  | .sym s => [.ident s]
  | .list items tail => .open :: (toksItems items ++ (toksTail tail ++ [.close]))
  | .quote d => .quote :: toks d
  | .backquote d => .backtick :: toks d
  | .unquote d => .comma :: toks d
  | .splice d => .splice :: toks d
def toksItems : List D → List Tok
  | [] => []
  | d :: ds => toks d ++ toksItems ds
def toksTail : Option D → List Tok
  | none => []
  | some d => .dot :: toks d
end

/-- Tokens of a sequence of top-level data. -/
abbrev toksAll (ds : List D) : List Tok := toksItems ds

mutual
/-- Forget the spans of a syntax tree. -/
def erase : Sx → D
  | .int _ n => .int n
  | .float _ t => .float t
  | .str _ s => .str s
  | .ident _ s => .sym s
  | .list _ items tail => .list (eraseL items) (eraseO tail)
  | .quote _ x => .quote (erase x)
  | .backquote _ x => .backquote (erase x)
  | .unquote _ x => .unquote (erase x)
  | .splice _ x => .splice (erase x)
def eraseL : List Sx → List D
  | [] => []
  | x :: xs => erase x :: eraseL xs
def eraseO : Option Sx → Option D
  | none => none
  | some x => some (erase x)
end

theorem eraseL_eq_map (xs : List Sx) : eraseL xs = xs.map erase := by
  induction xs with
  | nil => rfl
  | cons x xs ih => simp [eraseL, ih]

theorem eraseL_append (xs ys : List Sx) : eraseL (xs ++ ys) = eraseL xs ++ eraseL ys := by
  simp [eraseL_eq_map]

/-- The function-quote shorthand `#'` is read exactly as `'`. -/
def normTok : Tok → Tok
  | .sharpquote => .quote
  | t => t

/-- The kind of a token up to `#'` ≡ `'`. -/
def tokN (t : Token) : Tok := normTok t.tok

mutual
theorem norm_toks : ∀ d, (toks d).map normTok = toks d
  | .int n => rfl
  | .float _ => rfl
  | .str _ => rfl
  | .sym _ => rfl
  | .list items tail => by simp [toks, norm_toksItems items, norm_toksTail tail, normTok]
  | .quote d => by simp [toks, norm_toks d, normTok]
  | .backquote d => by simp [toks, norm_toks d, normTok]
  | .unquote d => by simp [toks, norm_toks d, normTok]
  | .splice d => by simp [toks, norm_toks d, normTok]
theorem norm_toksItems : ∀ ds, (toksItems ds).map normTok = toksItems ds
  | [] => rfl
  | d :: ds => by simp [toksItems, norm_toks d, norm_toksItems ds]
theorem norm_toksTail : ∀ o, (toksTail o).map normTok = toksTail o
  | none => rfl
  | some d => by simp [toksTail, norm_toks d, normTok]
end

theorem map_tokN_of_map_tok {tks : List Token} {ds : List D}
    (h : tks.map Token.tok = toksItems ds) : tks.map tokN = toksItems ds := by
  have : tks.map tokN = (tks.map Token.tok).map normTok := by
    simp [tokN, List.map_map, Function.comp_def]
  rw [this, h, norm_toksItems]

/-- The first token of a datum is never `)` or `.`. -/
theorem toks_head (d : D) : ∃ t ts, toks d = t :: ts ∧ t ≠ .close ∧ t ≠ .dot := by
  cases d <;> simp [toks]

theorem normTok_eq_of_ne_quote {t x : Tok} (h : normTok t = x) (hx : x ≠ .quote) : t = x := by
  cases t <;> simp_all [normTok]

theorem normTok_quote {t : Tok} (h : normTok t = .quote) : t = .quote ∨ t = .sharpquote := by
  cases t <;> simp_all [normTok]

theorem map_tokN_cons {tks : List Token} {t : Tok} {ts : List Tok}
    (h : tks.map tokN = t :: ts) :
    ∃ tk tks', tks = tk :: tks' ∧ normTok tk.tok = t ∧ tks'.map tokN = ts := by
  cases tks with
  | nil => simp at h
  | cons tk tks' =>
    simp only [List.map_cons, List.cons.injEq] at h
    exact ⟨tk, tks', rfl, h.1, h.2⟩

theorem map_tokN_append {tks : List Token} {a b : List Tok}
    (h : tks.map tokN = a ++ b) :
    ∃ t1 t2, tks = t1 ++ t2 ∧ t1.map tokN = a ∧ t2.map tokN = b :=
  List.map_eq_append_iff.mp h

/-! ## The joint invariant: the parser inverts `toks` -/

/-- `parse_value` on the tokens of `d` (any spans; `#'` for `'` allowed), followed by anything,
    consumes exactly those tokens and returns a tree denoting `d` — unless fuel ran out. -/
def PVd (f : Nat) : Prop := ∀ (d : D) (tks rest : List Token) (ev : List Sx),
  tks.map tokN = toks d → (parseValue f ⟨tks ++ rest, ev⟩).1 ≠ .fuel →
  ∃ s ev', parseValue f ⟨tks ++ rest, ev⟩ = (.ok s, ⟨rest, ev'⟩) ∧ erase s = d

def PWd (f : Nat) : Prop := ∀ (d : D) (tks rest : List Token) (ev : List Sx) (sp : Span)
  (mk : Sx → Sx),
  tks.map tokN = toks d → (wrap f sp mk ⟨tks ++ rest, ev⟩).1 ≠ .fuel →
  ∃ s ev', wrap f sp mk ⟨tks ++ rest, ev⟩ = (.ok (mk s), ⟨rest, ev'⟩) ∧ erase s = d

def PLd (f : Nat) : Prop := ∀ (items : List D) (tail : Option D) (tks rest : List Token)
  (ev : List Sx) (start : Span) (acc : List Sx),
  tks.map tokN = toksItems items ++ (toksTail tail ++ [.close]) →
  (parseListItems f start acc ⟨tks ++ rest, ev⟩).1 ≠ .fuel →
  ∃ sp ss tl ev', parseListItems f start acc ⟨tks ++ rest, ev⟩
      = (.ok (.list sp (acc.reverse ++ ss) tl), ⟨rest, ev'⟩) ∧ eraseL ss = items ∧ eraseO tl = tail

theorem pvd_step {f : Nat} (hW : PWd f) (hL : PLd f) : PVd (f + 1) := by
  intro d tks rest ev h hne
  cases d with
  | int n =>
    simp only [toks] at h
    obtain ⟨tk, tks', rfl, ht, h'⟩ := map_tokN_cons h
    have ht := normTok_eq_of_ne_quote ht (by simp)
    simp only [List.map_eq_nil_iff] at h'; subst h'
    exact ⟨.int tk.sp n, ev, by simp [parseValue, ht], by simp [erase]⟩
  | float n =>
    simp only [toks] at h
    obtain ⟨tk, tks', rfl, ht, h'⟩ := map_tokN_cons h
    have ht := normTok_eq_of_ne_quote ht (by simp)
    simp only [List.map_eq_nil_iff] at h'; subst h'
    exact ⟨.float tk.sp n, ev, by simp [parseValue, ht], by simp [erase]⟩
  | str n =>
    simp only [toks] at h
    obtain ⟨tk, tks', rfl, ht, h'⟩ := map_tokN_cons h
    have ht := normTok_eq_of_ne_quote ht (by simp)
    simp only [List.map_eq_nil_iff] at h'; subst h'
    exact ⟨.str tk.sp n, ev, by simp [parseValue, ht], by simp [erase]⟩
  | sym n =>
    simp only [toks] at h
    obtain ⟨tk, tks', rfl, ht, h'⟩ := map_tokN_cons h
    have ht := normTok_eq_of_ne_quote ht (by simp)
    simp only [List.map_eq_nil_iff] at h'; subst h'
    exact ⟨.ident tk.sp n, ev, by simp [parseValue, ht], by simp [erase]⟩
  | list items tail =>
    simp only [toks] at h
    obtain ⟨tk, tks', rfl, ht, h'⟩ := map_tokN_cons h
    have ht := normTok_eq_of_ne_quote ht (by simp)
    have e : parseValue (f + 1) ⟨tk :: tks' ++ rest, ev⟩
        = parseListItems f tk.sp [] ⟨tks' ++ rest, ev⟩ := by simp [parseValue, ht]
    rw [e] at hne ⊢
    obtain ⟨sp, ss, tl, ev', h1, h2, h3⟩ := hL items tail tks' rest ev tk.sp [] h' hne
    exact ⟨_, ev', h1, by simp [erase, h2, h3]⟩
  | quote d =>
    simp only [toks] at h
    obtain ⟨tk, tks', rfl, ht, h'⟩ := map_tokN_cons h
    have e : parseValue (f + 1) ⟨tk :: tks' ++ rest, ev⟩
        = wrap f tk.sp (Sx.quote tk.sp) ⟨tks' ++ rest, ev⟩ := by
      rcases normTok_quote ht with ht | ht <;> simp [parseValue, ht]
    rw [e] at hne ⊢
    obtain ⟨s, ev', h1, h2⟩ := hW d tks' rest ev tk.sp _ h' hne
    exact ⟨_, ev', h1, by simp [erase, h2]⟩
  | backquote d =>
    simp only [toks] at h
    obtain ⟨tk, tks', rfl, ht, h'⟩ := map_tokN_cons h
    have ht := normTok_eq_of_ne_quote ht (by simp)
    have e : parseValue (f + 1) ⟨tk :: tks' ++ rest, ev⟩
        = wrap f tk.sp (Sx.backquote tk.sp) ⟨tks' ++ rest, ev⟩ := by simp [parseValue, ht]
    rw [e] at hne ⊢
    obtain ⟨s, ev', h1, h2⟩ := hW d tks' rest ev tk.sp _ h' hne
    exact ⟨_, ev', h1, by simp [erase, h2]⟩
  | unquote d =>
    simp only [toks] at h
    obtain ⟨tk, tks', rfl, ht, h'⟩ := map_tokN_cons h
    have ht := normTok_eq_of_ne_quote ht (by simp)
    have e : parseValue (f + 1) ⟨tk :: tks' ++ rest, ev⟩
        = wrap f tk.sp (Sx.unquote tk.sp) ⟨tks' ++ rest, ev⟩ := by simp [parseValue, ht]
    rw [e] at hne ⊢
    obtain ⟨s, ev', h1, h2⟩ := hW d tks' rest ev tk.sp _ h' hne
    exact ⟨_, ev', h1, by simp [erase, h2]⟩
  | splice d =>
    simp only [toks] at h
    obtain ⟨tk, tks', rfl, ht, h'⟩ := map_tokN_cons h
    have ht := normTok_eq_of_ne_quote ht (by simp)
    have e : parseValue (f + 1) ⟨tk :: tks' ++ rest, ev⟩
        = wrap f tk.sp (Sx.splice tk.sp) ⟨tks' ++ rest, ev⟩ := by simp [parseValue, ht]
    rw [e] at hne ⊢
    obtain ⟨s, ev', h1, h2⟩ := hW d tks' rest ev tk.sp _ h' hne
    exact ⟨_, ev', h1, by simp [erase, h2]⟩

theorem pwd_step {f : Nat} (hV : PVd f) : PWd (f + 1) := by
  intro d tks rest ev sp mk h hne
  have hv := hV d tks rest ev h
  rcases hr : parseValue f ⟨tks ++ rest, ev⟩ with ⟨r, st'⟩
  rw [hr] at hv
  cases r with
  | fuel => simp [wrap, hr] at hne
  | ok x =>
    obtain ⟨s, ev', h1, h2⟩ := hv (by simp)
    simp only [Prod.mk.injEq, PRes.ok.injEq] at h1
    obtain ⟨rfl, rfl⟩ := h1
    exact ⟨x, ev', by simp [wrap, hr], h2⟩
  | eof => obtain ⟨s, ev', h1, _⟩ := hv (by simp); simp at h1
  | err e => obtain ⟨s, ev', h1, _⟩ := hv (by simp); simp at h1
  | panic p => obtain ⟨s, ev', h1, _⟩ := hv (by simp); simp at h1


theorem tok_close_of_norm {tk : Token} (h : normTok tk.tok = .close) : tk.tok = .close :=
  normTok_eq_of_ne_quote h (by simp)

theorem pld_step {f : Nat} (hV : PVd f) (hL : PLd f) : PLd (f + 1) := by
  intro items tail tks rest ev start acc h hne
  cases items with
  | nil =>
    cases tail with
    | none =>
      simp only [toksItems, toksTail, List.nil_append] at h
      obtain ⟨tk, tks', rfl, ht, h'⟩ := map_tokN_cons h
      have ht := tok_close_of_norm ht
      simp only [List.map_eq_nil_iff] at h'; subst h'
      refine ⟨⟨start.file, start.s, tk.sp.e⟩, [], none,
        (if isDefHead acc.reverse then
          (Sx.list ⟨start.file, start.s, tk.sp.e⟩ acc.reverse none) :: ev else ev), ?_, rfl, rfl⟩
      simp only [parseListItems, List.cons_append, List.nil_append, ht, List.append_nil]
      split <;> rfl
    | some t =>
      simp only [toksItems, toksTail, List.nil_append, List.cons_append] at h
      obtain ⟨tkd, tks', rfl, htd, h'⟩ := map_tokN_cons h
      have htd := normTok_eq_of_ne_quote htd (by simp)
      obtain ⟨t1, t2, rfl, h1, h2⟩ := map_tokN_append h'
      obtain ⟨tkc, t2', rfl, htc, h2'⟩ := map_tokN_cons h2
      have htc := tok_close_of_norm htc
      simp only [List.map_eq_nil_iff] at h2'; subst h2'
      have hv := hV t t1 (tkc :: rest) ev h1
      have e : (tkd :: (t1 ++ [tkc]) ++ rest) = tkd :: (t1 ++ tkc :: rest) := by simp
      rw [e] at hne ⊢
      rcases hr : parseValue f ⟨t1 ++ tkc :: rest, ev⟩ with ⟨r, st2⟩
      rw [hr] at hv
      cases r with
      | fuel => simp [parseListItems, htd, hr] at hne
      | ok x =>
        obtain ⟨s, ev', h3, h4⟩ := hv (by simp)
        simp only [Prod.mk.injEq, PRes.ok.injEq] at h3
        obtain ⟨rfl, rfl⟩ := h3
        refine ⟨⟨start.file, start.s, tkc.sp.e⟩, [], some x,
          (if isDefHead acc.reverse then
            (Sx.list ⟨start.file, start.s, tkc.sp.e⟩ acc.reverse (some x)) :: ev' else ev'), ?_, rfl,
          by simp [eraseO, h4]⟩
        simp only [parseListItems, htd, hr, htc, if_true, List.append_nil]
        split <;> rfl
      | eof => obtain ⟨s, ev', h3, _⟩ := hv (by simp); simp at h3
      | err e => obtain ⟨s, ev', h3, _⟩ := hv (by simp); simp at h3
      | panic p => obtain ⟨s, ev', h3, _⟩ := hv (by simp); simp at h3
  | cons d ds =>
    simp only [toksItems, List.append_assoc] at h
    obtain ⟨t1, t2, rfl, h1, h2⟩ := map_tokN_append h
    obtain ⟨t, ts, hd, hnc, hnd⟩ := toks_head d
    rw [hd] at h1
    obtain ⟨tk, t1', ht1, ht, _⟩ := map_tokN_cons h1
    rw [hd.symm] at h1
    have hv := hV d t1 (t2 ++ rest) ev h1
    have e : (t1 ++ t2 ++ rest) = t1 ++ (t2 ++ rest) := by simp
    rw [e] at hne ⊢
    have hstep : parseListItems (f + 1) start acc ⟨t1 ++ (t2 ++ rest), ev⟩ =
        match parseValue f ⟨t1 ++ (t2 ++ rest), ev⟩ with
        | (.ok x, st') => parseListItems f start (x :: acc) st'
        | (.eof, st') => (.panic "parse_list: parse_value()?.unwrap()", st')
        | (.err e, st') => (.err e, st')
        | (.panic p, st') => (.panic p, st')
        | (.fuel, st') => (.fuel, st') := by
      subst ht1
      have hc : tk.tok ≠ .close := fun hh => hnc (by rw [← ht, hh]; rfl)
      have hdn : tk.tok ≠ .dot := fun hh => hnd (by rw [← ht, hh]; rfl)
      cases htok : tk.tok <;> simp only [parseListItems, List.cons_append, htok] <;>
        first | rfl | exact (hc htok).elim | exact (hdn htok).elim
    rw [hstep] at hne ⊢
    rcases hr : parseValue f ⟨t1 ++ (t2 ++ rest), ev⟩ with ⟨r, st2⟩
    rw [hr] at hv hne
    cases r with
    | fuel => simp at hne
    | ok x =>
      obtain ⟨s, ev', h3, h4⟩ := hv (by simp)
      simp only [Prod.mk.injEq, PRes.ok.injEq] at h3
      obtain ⟨rfl, rfl⟩ := h3
      simp only at hne ⊢
      obtain ⟨sp, ss, tl, ev'', h5, h6, h7⟩ := hL ds tail t2 rest ev' start (x :: acc) h2 hne
      refine ⟨sp, x :: ss, tl, ev'', ?_, by simp [eraseL, h4, h6], h7⟩
      rw [h5]; simp
    | eof => obtain ⟨s, ev', h3, _⟩ := hv (by simp); simp at h3
    | err e => obtain ⟨s, ev', h3, _⟩ := hv (by simp); simp at h3
    | panic p => obtain ⟨s, ev', h3, _⟩ := hv (by simp); simp at h3

/-- The joint invariant holds for every fuel. -/
theorem invd_all (f : Nat) : PVd f ∧ PWd f ∧ PLd f := by
  induction f with
  | zero =>
    refine ⟨?_, ?_, ?_⟩
    · intro d tks rest ev _ hne; simp [parseValue] at hne
    · intro d tks rest ev sp mk _ hne; simp [wrap] at hne
    · intro items tail tks rest ev start acc _ hne; simp [parseListItems] at hne
  | succ f ih => exact ⟨pvd_step ih.2.1 ih.2.2, pwd_step ih.1, pld_step ih.1 ih.2.2⟩

theorem pvd_all (f : Nat) : PVd f := (invd_all f).1

/-- The top-level loop on the tokens of `ds` returns trees denoting `ds` and consumes everything. -/
theorem pad_all (f : Nat) : ∀ (ds : List D) (tks : List Token) (ev : List Sx) (acc : List Sx),
    tks.map tokN = toksAll ds → (parseAll f acc ⟨tks, ev⟩).1 ≠ .fuel →
    ∃ ss ev', parseAll f acc ⟨tks, ev⟩ = (.ok (acc.reverse ++ ss), ⟨[], ev'⟩) ∧ eraseL ss = ds := by
  induction f with
  | zero => intro ds tks ev acc _ hne; simp [parseAll] at hne
  | succ f ih =>
    intro ds tks ev acc h hne
    cases ds with
    | nil =>
      simp only [toksItems, List.map_eq_nil_iff] at h; subst h
      cases f with
      | zero => simp [parseAll, parseValue] at hne
      | succ f => exact ⟨[], ev, by simp [parseAll, parseValue], rfl⟩
    | cons d ds =>
      simp only [toksItems] at h
      obtain ⟨t1, t2, rfl, h1, h2⟩ := map_tokN_append h
      have hv := pvd_all f d t1 t2 ev h1
      rcases hr : parseValue f ⟨t1 ++ t2, ev⟩ with ⟨r, st2⟩
      rw [hr] at hv
      cases r with
      | fuel => simp [parseAll, hr] at hne
      | ok x =>
        obtain ⟨s, ev', h3, h4⟩ := hv (by simp)
        simp only [Prod.mk.injEq, PRes.ok.injEq] at h3
        obtain ⟨rfl, rfl⟩ := h3
        have e : parseAll (f + 1) acc ⟨t1 ++ t2, ev⟩ = parseAll f (x :: acc) ⟨t2, ev'⟩ := by
          simp [parseAll, hr]
        rw [e] at hne ⊢
        obtain ⟨ss, ev'', h5, h6⟩ := ih ds t2 ev' (x :: acc) h2 hne
        exact ⟨x :: ss, ev'', by rw [h5]; simp, by simp [eraseL, h4, h6]⟩
      | eof => obtain ⟨s, ev', h3, _⟩ := hv (by simp); simp at h3
      | err e => obtain ⟨s, ev', h3, _⟩ := hv (by simp); simp at h3
      | panic p => obtain ⟨s, ev', h3, _⟩ := hv (by simp); simp at h3

end Tulisp.C09
